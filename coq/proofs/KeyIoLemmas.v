(* C45 — segwit addresses (model/KeyIo.v): DecodeDestination (EncodeDestination d) = d for every witness
   destination, and the rule "version 0 <=> bech32, version 1+ <=> bech32m" in both directions. *)
From Coq Require Import NArith Lia.
From BV Require Import lib.Ints model.Bech32 model.Base58 model.KeyIo proofs.Bech32Lemmas proofs.Bech32Convert.
Local Open Scope N_scope.

Lemma bytes_eqb_refl : forall a, bytes_eqb a a = true.
Proof. intros. unfold bytes_eqb. destruct (list_eq_dec N.eq_dec a a); [reflexivity|contradiction]. Qed.
Lemma bytes_eqb_eq : forall a b, bytes_eqb a b = true -> a = b.
Proof. intros a b. unfold bytes_eqb. destruct (list_eq_dec N.eq_dec a b); [auto|discriminate]. Qed.

(* what DecodeDestination does with a witness version and program once the string has been decoded *)
Definition classify_witness (version : N) (prog : list N) : dest * dec_err :=
  if version =? 0 then
    if (length prog =? 20)%nat then (DWPKH prog, E_ok)
    else if (length prog =? 32)%nat then (DWSH prog, E_ok)
    else (DNone, E_v0_size)
  else if (version =? 1) && (length prog =? 32)%nat then (DTaproot prog, E_ok)
  else if (version =? 1) && bytes_eqb prog ANCHOR_BYTES then (DAnchor, E_ok)
  else if 16 <? version then (DNone, E_version)
  else if (length prog <? 2)%nat || (BECH32_WITNESS_PROG_MAX_LEN <? length prog)%nat then (DNone, E_size)
  else (DWitUnknown version prog, E_ok).

Section Segwit.
  Variable hash256 : list N -> list N.
  Variable limit : nat.
  Variable kp : keyio_params.
  Hypothesis hrp_wf : hrp_ok (kp_hrp kp).

  Lemma syms5_syms : forall l, syms5_ok l -> syms_ok l.
  Proof. intros l H. exact H. Qed.

  (* the string EncodeDestination builds for (enc, version, program) decodes, on the same chain, to the
     classification of (version, program) when the variant matches the version, and to the corresponding
     error when it does not *)
  Theorem segwit_decode_encode : forall enc ver prog s,
    Bech32Convert.bytes_ok prog -> ver < 32 ->
    (length (kp_hrp kp) + 1 + (1 + (8 * length prog + 4) / 5) + 6 <= limit)%nat ->
    segwit_encode kp enc ver prog = AddrStr s ->
    decode_destination hash256 limit kp s =
      if (ver =? 0) && negb (encoding_eqb enc BECH32) then (DNone, E_v0_needs_bech32)
      else if negb (ver =? 0) && negb (encoding_eqb enc BECH32M) then (DNone, E_v1_needs_bech32m)
      else classify_witness ver prog.
  Proof.
    intros enc ver prog s Hp Hv Hlen Henc. unfold segwit_encode in Henc.
    destruct (convert_8_5_total prog Hp) as (d & Ed & Hd & Ld). rewrite Ed in Henc.
    destruct hrp_wf as [Hne Hfine].
    assert (Hdata : syms_ok (ver :: d)) by (constructor; [exact Hv|exact Hd]).
    rewrite encode_ok in Henc by assumption. cbn [of_b32] in Henc.
    assert (Es : s = kp_hrp kp ++ SEPARATOR :: map char_of ((ver :: d) ++ create_checksum enc (kp_hrp kp) (ver :: d))) by congruence.
    clear Henc.
    assert (Hdec : decode limit s = DecOk enc (kp_hrp kp) (ver :: d)).
    { apply (decode_encode limit enc (kp_hrp kp) (ver :: d) s); auto.
      - cbn [length]. rewrite Ld. lia.
      - rewrite Es. apply encode_ok; assumption. }
    unfold decode_destination.
    assert (Hpre : bytes_eqb (map lower_case (firstn (length (kp_hrp kp)) s)) (kp_hrp kp) = true).
    { rewrite Es. rewrite firstn_app, Nat.sub_diag, firstn_all, firstn_O, app_nil_r.
      assert (E : map lower_case (kp_hrp kp) = kp_hrp kp).
      { clear -Hfine. induction Hfine; simpl; auto. rewrite fine_lower by assumption. f_equal. assumption. }
      rewrite E. apply bytes_eqb_refl. }
    cbv zeta. rewrite Hpre, Hdec. rewrite bytes_eqb_refl. cbn [negb].
    destruct ((ver =? 0) && negb (encoding_eqb enc BECH32)); [reflexivity|].
    destruct (negb (ver =? 0) && negb (encoding_eqb enc BECH32M)); [reflexivity|].
    rewrite (convert_5_8_of_8_5 prog d Hp Ed). reflexivity.
  Qed.

  (* EncodeDestination then DecodeDestination is the identity on every witness destination *)
  Definition fits (n : nat) : Prop := (length (kp_hrp kp) + 1 + (1 + (8 * n + 4) / 5) + 6 <= limit)%nat.

  Theorem address_roundtrip_segwit : forall d s, dest_wf d = true -> fits 40 ->
    match d with DPKHash _ | DScriptHash _ => False | _ => True end ->
    encode_destination hash256 kp d = AddrStr s ->
    decode_destination hash256 limit kp s = (d, E_ok).
  Proof.
    intros d s Hwf Hfit Hseg Henc.
    assert (Hmono : forall n, (n <= 40)%nat -> fits n).
    { intros n Hn. unfold fits in *. assert (((8 * n + 4) / 5 <= (8 * 40 + 4) / 5)%nat) by (apply Nat.div_le_mono; lia). lia. }
    assert (Hbytes : forall l, forallb (fun b => b <? 256) l = true -> Bech32Convert.bytes_ok l).
    { intros l H. unfold Bech32Convert.bytes_ok. rewrite forallb_forall in H. apply Forall_forall. intros x Hx. apply N.ltb_lt. auto. }
    destruct d as [| |h|h|h|h|x| |ver prog]; try contradiction; try discriminate; cbn [dest_wf encode_destination] in *.
    - (* P2WSH *) apply Bool.andb_true_iff in Hwf. destruct Hwf as [Hl Hb]. apply Nat.eqb_eq in Hl.
      rewrite (segwit_decode_encode BECH32 0 h s); auto; try (apply Hmono; lia); try reflexivity.
      unfold classify_witness. cbn [N.eqb andb negb encoding_eqb]. rewrite Hl. reflexivity.
    - (* P2WPKH *) apply Bool.andb_true_iff in Hwf. destruct Hwf as [Hl Hb]. apply Nat.eqb_eq in Hl.
      rewrite (segwit_decode_encode BECH32 0 h s); auto; try (apply Hmono; lia); try reflexivity.
      unfold classify_witness. cbn [N.eqb andb negb encoding_eqb]. rewrite Hl. reflexivity.
    - (* P2TR *) apply Bool.andb_true_iff in Hwf. destruct Hwf as [Hl Hb]. apply Nat.eqb_eq in Hl.
      rewrite (segwit_decode_encode BECH32M 1 x s); auto; try (apply Hmono; lia); try reflexivity.
      unfold classify_witness. cbn [N.eqb Pos.eqb andb negb encoding_eqb]. rewrite Hl. reflexivity.
    - (* P2A *)
      rewrite (segwit_decode_encode BECH32M 1 ANCHOR_BYTES s); auto; try (apply Hmono; simpl; lia); try reflexivity;
        try (repeat constructor; fail).
    - (* future witness versions *)
      repeat (apply Bool.andb_true_iff in Hwf; destruct Hwf as [Hwf ?]).
      repeat match goal with
             | H : (_ <=? _) = true |- _ => apply N.leb_le in H
             | H : (_ <=? _)%nat = true |- _ => apply Nat.leb_le in H
             end.
      assert (G1 : (ver <? 1) = false) by (apply N.ltb_ge; lia).
      assert (G2 : (16 <? ver) = false) by (apply N.ltb_ge; lia).
      assert (G3 : (length prog <? 2)%nat = false) by (apply Nat.ltb_ge; lia).
      assert (G4 : (40 <? length prog)%nat = false) by (apply Nat.ltb_ge; lia).
      rewrite G1, G2, G3, G4 in Henc. cbn [orb] in Henc.
      rewrite (segwit_decode_encode BECH32M ver prog s); auto; try (apply Hmono; lia); try lia.
      assert (Hv0 : (ver =? 0) = false) by (apply N.eqb_neq; lia).
      rewrite Hv0. cbn [andb negb encoding_eqb]. unfold classify_witness. rewrite Hv0, G2.
      unfold BECH32_WITNESS_PROG_MAX_LEN. rewrite G3, G4. cbn [orb].
      match goal with H : negb _ = true |- _ => apply Bool.negb_true_iff in H; rename H into Hnot end.
      destruct (ver =? 1); cbn [andb] in *; [|reflexivity].
      apply Bool.orb_false_iff in Hnot. destruct Hnot as [Hn1 Hn2]. rewrite Hn1, Hn2. reflexivity.
  Qed.
End Segwit.

(* ---------------------------------------------------------------------------------------------- *)
(* base58 addresses *)
From BV Require Import proofs.Base58Lemmas.

(* the first character of the address string can never be (a case variant of) the first HRP character, so
   DecodeDestination does not take the string for a bech32 address.  For a one-byte version p the string
   encodes a number in [p * 256^24, (p+1) * 256^24): L is its number of base58 digits *)
Definition b58_prefix_ok (p : N) (hrp0 : N) : Prop :=
  if p =? 0 then lower_case 49 <> hrp0
  else exists L, 0 < L /\ 58 ^ (L - 1) <= p * 256 ^ 24 /\ (p + 1) * 256 ^ 24 <= 58 ^ L /\
       forall d, p * 256 ^ 24 / 58 ^ (L - 1) <= d <= ((p + 1) * 256 ^ 24 - 1) / 58 ^ (L - 1) -> d < 58 -> lower_case (c58 d) <> hrp0.

Section Base58Addr.
  Variable hash256 : list N -> list N.
  Hypothesis hash_len : forall x, length (hash256 x) = 32%nat.
  Hypothesis hash_bytes : forall x, Base58Lemmas.bytes_ok (hash256 x).
  Variable limit : nat.
  Variable kp : keyio_params.

  Lemma not_bech32_by_first_char : forall c r h0 hr, kp_hrp kp = h0 :: hr -> lower_case c <> h0 ->
    bytes_eqb (map lower_case (firstn (length (kp_hrp kp)) (c :: r))) (kp_hrp kp) = false.
  Proof.
    intros c r h0 hr Eh Hc. rewrite Eh. cbn [length firstn map]. unfold bytes_eqb.
    destruct (list_eq_dec N.eq_dec _ _) as [E|]; [|reflexivity]. injection E as E _. contradiction.
  Qed.

  Lemma first_char_of_address : forall p h0 payload s, p < 256 -> Base58Lemmas.bytes_ok payload -> length payload = 20%nat ->
    b58_prefix_ok p h0 -> encode_base58check hash256 ([p] ++ payload) = B58Str s ->
    exists c r, s = c :: r /\ lower_case c <> h0.
  Proof.
    intros p h0 payload s Hp Hpl Hl Hok Henc. unfold encode_base58check in Henc.
    destruct (checksum4 hash256 hash_len hash_bytes ([p] ++ payload)) as [L4 B4].
    set (chk := firstn 4 (hash256 ([p] ++ payload))) in *.
    unfold b58_prefix_ok in Hok. destruct (N.eqb_spec p 0) as [->|Hnz].
    - destruct (encode_base58_first_char_zero (payload ++ chk) s) as [r Er].
      + constructor; [reflexivity|]. apply Forall_app; split; assumption.
      + rewrite <- Henc. f_equal.
      + exists 49, r. split; assumption.
    - destruct Hok as (L & HL & Hlo & Hhi & Hd).
      replace (([p] ++ payload) ++ chk) with ([p] ++ (payload ++ chk)) in Henc by (rewrite app_assoc; reflexivity).
      assert (Htl : length (payload ++ chk) = 24%nat) by (rewrite app_length, Hl, L4; reflexivity).
      destruct (encode_base58_first_char [p] (payload ++ chk) s L) as (d & r & Es & Hdr & Hd58); auto.
      + repeat constructor; assumption.
      + apply Forall_app; split; assumption.
      + destruct p; [contradiction|exact I].
      + discriminate.
      + cbn [rev app le_val]. rewrite Htl. change (N.of_nat 24) with 24. rewrite N.mul_0_r, N.add_0_r. exact Hlo.
      + cbn [rev app le_val]. rewrite Htl. change (N.of_nat 24) with 24. rewrite N.mul_0_r, N.add_0_r. exact Hhi.
      + exists (c58 d), r. split; [assumption|]. apply Hd; [|assumption].
        cbn [rev app le_val] in Hdr. rewrite Htl in Hdr. change (N.of_nat 24) with 24 in Hdr. rewrite N.mul_0_r, N.add_0_r in Hdr. exact Hdr.
  Qed.

  Lemma has_prefix_app : forall p l, has_prefix p (p ++ l) = true.
  Proof. intros. unfold has_prefix. rewrite firstn_app, Nat.sub_diag, firstn_all, firstn_O, app_nil_r. apply bytes_eqb_refl. Qed.

  (* P2PKH: one-byte version p *)
  Theorem address_roundtrip_pkh : forall p h0 hr h s, kp_pubkey kp = [p] -> kp_hrp kp = h0 :: hr -> p < 256 ->
    b58_prefix_ok p h0 -> Base58Lemmas.bytes_ok h -> length h = 20%nat ->
    encode_destination hash256 kp (DPKHash h) = AddrStr s ->
    decode_destination hash256 limit kp s = (DPKHash h, E_ok).
  Proof.
    intros p h0 hr h s Epk Eh Hp Hok Hh Hl Henc. cbn [encode_destination] in Henc. rewrite Epk in Henc.
    destruct (encode_base58check hash256 ([p] ++ h)) as [s'|] eqn:E; [|discriminate]. cbn [of_b58] in Henc.
    assert (s' = s) by congruence. subst s'. clear Henc.
    destruct (first_char_of_address p h0 h s Hp Hh Hl Hok E) as (c & r & -> & Hc).
    unfold decode_destination. cbv zeta.
    rewrite (not_bech32_by_first_char c r h0 hr Eh Hc).
    rewrite (decode_encode_base58check hash256 hash_len hash_bytes ([p] ++ h) 21 (c :: r)); auto.
    - rewrite Epk. cbn [length app]. rewrite Hl. cbn [Nat.add Nat.eqb andb].
      change (p :: h) with ([p] ++ h). rewrite has_prefix_app. cbn [length skipn app]. reflexivity.
    - constructor; assumption.
    - cbn [length app]. rewrite Hl. reflexivity.
    - lia.
  Qed.

  (* P2SH: one-byte version q different from the P2PKH version *)
  Theorem address_roundtrip_sh : forall p q h0 hr h s, kp_pubkey kp = [p] -> kp_script kp = [q] -> p <> q ->
    kp_hrp kp = h0 :: hr -> q < 256 ->
    b58_prefix_ok q h0 -> Base58Lemmas.bytes_ok h -> length h = 20%nat ->
    encode_destination hash256 kp (DScriptHash h) = AddrStr s ->
    decode_destination hash256 limit kp s = (DScriptHash h, E_ok).
  Proof.
    intros p q h0 hr h s Epk Esc Hpq Eh Hq Hok Hh Hl Henc. cbn [encode_destination] in Henc. rewrite Esc in Henc.
    destruct (encode_base58check hash256 ([q] ++ h)) as [s'|] eqn:E; [|discriminate]. cbn [of_b58] in Henc.
    assert (s' = s) by congruence. subst s'. clear Henc.
    destruct (first_char_of_address q h0 h s Hq Hh Hl Hok E) as (c & r & -> & Hc).
    unfold decode_destination. cbv zeta.
    rewrite (not_bech32_by_first_char c r h0 hr Eh Hc).
    rewrite (decode_encode_base58check hash256 hash_len hash_bytes ([q] ++ h) 21 (c :: r)); auto.
    - rewrite Epk, Esc. cbn [length app]. rewrite Hl. cbn [Nat.add Nat.eqb andb].
      assert (Hnp : has_prefix [p] (q :: h) = false).
      { unfold has_prefix. cbn [length firstn]. unfold bytes_eqb. destruct (list_eq_dec N.eq_dec [p] [q]) as [E1|]; [|reflexivity]. injection E1 as E1. contradiction. }
      rewrite Hnp. change (q :: h) with ([q] ++ h). rewrite has_prefix_app. cbn [length skipn app]. reflexivity.
    - constructor; assumption.
    - cbn [length app]. rewrite Hl. reflexivity.
    - lia.
  Qed.
End Base58Addr.

(* ---------------------------------------------------------------------------------------------- *)
(* other networks: a segwit address is never decoded as a witness destination on a chain with another HRP *)
Definition is_witness_dest (d : dest) : bool :=
  match d with DWSH _ | DWPKH _ | DTaproot _ | DAnchor | DWitUnknown _ _ => true | _ => false end.

Theorem segwit_foreign_hrp_rejected : forall (hash256 : list N -> list N) limit kpA kpB enc ver prog s,
  hrp_ok (kp_hrp kpA) -> Bech32Convert.bytes_ok prog -> ver < 32 ->
  (length (kp_hrp kpA) + 1 + (1 + (8 * length prog + 4) / 5) + 6 <= limit)%nat ->
  segwit_encode kpA enc ver prog = AddrStr s -> kp_hrp kpB <> kp_hrp kpA ->
  is_witness_dest (fst (decode_destination hash256 limit kpB s)) = false.
Proof.
  intros hash256 limit kpA kpB enc ver prog s Hhrp Hp Hv Hlen Henc Hne. unfold segwit_encode in Henc.
  destruct (convert_8_5_total prog Hp) as (d & Ed & Hd & Ld). rewrite Ed in Henc.
  destruct Hhrp as [Hnn Hfine].
  assert (Hdata : syms_ok (ver :: d)) by (constructor; [exact Hv|exact Hd]).
  rewrite encode_ok in Henc by assumption. cbn [of_b32] in Henc.
  assert (Es : s = kp_hrp kpA ++ SEPARATOR :: map char_of ((ver :: d) ++ create_checksum enc (kp_hrp kpA) (ver :: d))) by congruence.
  clear Henc.
  assert (Hdec : decode limit s = DecOk enc (kp_hrp kpA) (ver :: d)).
  { apply (decode_encode limit enc (kp_hrp kpA) (ver :: d) s); auto.
    - split; assumption.
    - cbn [length]. rewrite Ld. lia.
    - rewrite Es. apply encode_ok; assumption. }
  unfold decode_destination. cbv zeta.
  destruct (bytes_eqb (map lower_case (firstn (length (kp_hrp kpB)) s)) (kp_hrp kpB)).
  - rewrite Hdec.
    assert (Hb : bytes_eqb (kp_hrp kpA) (kp_hrp kpB) = false).
    { unfold bytes_eqb. destruct (list_eq_dec N.eq_dec (kp_hrp kpA) (kp_hrp kpB)) as [E|]; [symmetry in E; contradiction|reflexivity]. }
    rewrite Hb. reflexivity.
  - destruct (decode_base58check hash256 s 21) as [data| |].
    + destruct ((length data =? 20 + length (kp_pubkey kpB))%nat && has_prefix (kp_pubkey kpB) data); [reflexivity|].
      destruct ((length data =? 20 + length (kp_script kpB))%nat && has_prefix (kp_script kpB) data); [reflexivity|].
      destruct (_ || _); reflexivity.
    + destruct (decode_base58 s 100); reflexivity.
    + reflexivity.
Qed.
