(* Layered coin cache model (C15), part 3: BatchWrite / Flush / Sync.
   The receiving side (a parent cache or the database) ends up answering exactly what the child
   answered; the child keeps its view; invariant and counters are kept; no throw. *)
From BV Require Import lib.Ints gen.Params_gen model.Coins proofs.CoinsBase proofs.CoinsLayer.
Local Open Scope Z_scope.

Lemma is_unspent_true e : is_unspent e = true <-> e_coin e <> None.
Proof. unfold is_unspent. destruct (e_coin e); split; intros; try discriminate; congruence. Qed.
Lemma is_unspent_false e : is_unspent e = false <-> e_coin e = None.
Proof. unfold is_unspent. destruct (e_coin e); split; intros; try discriminate; congruence. Qed.

(* one step of the parent-side merge *)
Lemma bw_parent_ok gv P k ce w :
  layer_ok gv P -> e_dirty ce = true -> entry_ok (lview P gv k) ce ->
  exists P', bw_parent P k ce w = Ok P' /\ layer_ok gv P' /\
    (forall k', k' <> k -> m_get k' (l_map P') = m_get k' (l_map P)) /\
    lview P' gv k = e_coin ce.
Proof.
  intros HP Hd Hce. unfold bw_parent. rewrite Hd. cbn [negb].
  pose proof HP as (Hn & He & Hc).
  destruct (m_get k (l_map P)) as [pe|] eqn:G.
  - pose proof (He _ _ G) as Hpe. pose proof (counters_ge _ _ _ Hc G) as [Gd Gu].
    assert (Hlv : lview P gv k = e_coin pe) by (unfold lview; rewrite G; auto).
    rewrite Hlv in Hce.
    destruct (e_fresh ce && is_unspent pe) eqn:T1.
    { exfalso. apply andb_true_iff in T1 as [A B]. apply is_unspent_true in B. eok. }
    destruct (e_fresh pe && negb (is_unspent ce)) eqn:T2.
    + apply andb_true_iff in T2 as [A B]. apply negb_true_iff, is_unspent_false in B.
      eexists. split; [reflexivity|]. split; [|split].
      * apply layer_ok_del; auto; cnt G.
      * intros k' Hne. sl. apply m_get_del_neq. auto.
      * rewrite lview_del, Nat.eqb_refl, B. eok.
    + eexists. split; [reflexivity|]. split; [|split].
      * apply layer_ok_set; auto.
        -- assert (Hx : e_coin ce = None -> e_fresh pe = false /\ (w || negb (is_unspent ce)) = true /\ e_cap ce = 0).
           { intros Hs. apply andb_false_iff in T2. rewrite (proj2 (is_unspent_false ce) Hs) in *.
             cbn [negb] in *. rewrite orb_true_r. destruct T2 as [T2|T2]; [|discriminate]. eok. }
           unfold entry_ok. cbn [e_coin e_cap e_dirty e_fresh]. split; [|split].
           ++ intros Hs. destruct (Hx Hs) as (X1 & X2 & X3). rewrite X2. auto.
           ++ intros Hf. split; auto. eok.
           ++ discriminate.
        -- cnt G. destruct (e_dirty pe); lia.
        -- cnt G.
      * intros k' Hne. sl. apply m_get_set_neq. auto.
      * rewrite lview_set, Nat.eqb_refl. auto.
  - assert (Hlv : lview P gv k = gv k) by (unfold lview; rewrite G; auto).
    rewrite Hlv in Hce.
    destruct (e_fresh ce && negb (is_unspent ce)) eqn:T1.
    + apply andb_true_iff in T1 as [A B]. apply negb_true_iff, is_unspent_false in B.
      exists P. split; auto. split; auto. split; auto. rewrite Hlv, B. eok.
    + eexists. split; [reflexivity|]. split; [|split].
      * apply layer_ok_set; auto.
        -- unfold entry_ok. cbn [e_coin e_cap e_dirty e_fresh]. split; [|split].
           ++ intros Hs. rewrite (proj2 (is_unspent_false ce) Hs). cbn [negb]. rewrite orb_true_r. eok.
           ++ intros Hf. split; auto. eok.
           ++ discriminate.
        -- cnt G.
        -- cnt G.
      * intros k' Hne. sl. apply m_get_set_neq. auto.
      * rewrite lview_set, Nat.eqb_refl. auto.
Qed.

(* ------------------------------------------------------------------------------------------- *)
(* the loop, split into its receiving side and its cursor side                                  *)

Fixpoint cursor_fold (items : list (outpoint * entry)) (w : bool) (C : layer) : layer :=
  match items with
  | [] => C
  | (k, ce) :: r => cursor_fold r w (cursor_next C k ce w)
  end.

Fixpoint parent_fold (items : list (outpoint * entry)) (w : bool) (P : layer) : result layer :=
  match items with
  | [] => Ok P
  | (k, ce) :: r => match bw_parent P k ce w with
                    | Ok P' => parent_fold r w P'
                    | Throw e => Throw e
                    end
  end.

Fixpoint db_fold (items : list (outpoint * entry)) (db : dbmap) : dbmap :=
  match items with
  | [] => db
  | (k, ce) :: r => db_fold r (bw_db db k ce)
  end.

Lemma batch_loop_split items w : forall C P,
  batch_loop items w C P =
  match parent_fold items w P with
  | Ok P' => Ok (cursor_fold items w C, P')
  | Throw e => Throw e
  end.
Proof.
  induction items as [|[k ce] r IH]; intros C P; simpl; auto.
  destruct (bw_parent P k ce w); auto.
Qed.

Lemma batch_loop_db_split items w : forall C db,
  batch_loop_db items w C db = (cursor_fold items w C, db_fold items db).
Proof. induction items as [|[k ce] r IH]; intros C db; simpl; auto. Qed.

Lemma in_keys {V} k (v : V) m : In (k, v) m -> In k (keys m).
Proof. intros H. change k with (fst (k, v)). apply in_map. auto. Qed.

Lemma nodup_cons_inv {V} k (v : V) r : nodup ((k, v) :: r) -> ~ In k (keys r) /\ nodup r.
Proof. unfold nodup. simpl. intros H. inversion H; auto. Qed.

(* the receiving cache after the whole loop *)
Lemma parent_fold_ok gv w items : forall P,
  layer_ok gv P -> nodup items ->
  (forall k ce, In (k, ce) items -> e_dirty ce = true /\ entry_ok (lview P gv k) ce) ->
  exists P', parent_fold items w P = Ok P' /\ layer_ok gv P' /\
    forall k, lview P' gv k = match m_get k items with Some ce => e_coin ce | None => lview P gv k end.
Proof.
  induction items as [|[k ce] r IH]; intros P HP Hn Hit.
  - exists P. simpl. auto.
  - apply nodup_cons_inv in Hn as [Hk Hr].
    destruct (Hit k ce (or_introl eq_refl)) as [Hd Hok].
    destruct (bw_parent_ok gv P k ce w HP Hd Hok) as (P1 & E1 & HP1 & Hsame & Hvk).
    assert (Hlv : forall k2, k2 <> k -> lview P1 gv k2 = lview P gv k2).
    { intros k2 Hne. unfold lview. rewrite Hsame by auto. auto. }
    destruct (IH P1 HP1 Hr) as (P' & E' & HP' & Hv').
    { intros k2 ce2 Hin. assert (k2 <> k) by (intros ->; apply Hk; eapply in_keys; eauto).
      rewrite Hlv by auto. apply Hit. right. auto. }
    exists P'. split; [simpl; rewrite E1; auto|]. split; auto.
    intros k0. rewrite Hv'. simpl. destruct (Nat.eqb_spec k0 k) as [->|Hne].
    + rewrite (m_get_notin_none k r) by auto. auto.
    + destruct (m_get k0 r); auto.
Qed.

(* the database after the whole loop *)
Lemma db_fold_ok items : forall db,
  nodup db -> nodup items -> (forall k ce, In (k, ce) items -> e_dirty ce = true) ->
  nodup (db_fold items db) /\
  forall k, m_get k (db_fold items db) = match m_get k items with Some ce => e_coin ce | None => m_get k db end.
Proof.
  induction items as [|[k ce] r IH]; intros db Hdb Hn Hit; simpl; auto.
  apply nodup_cons_inv in Hn as [Hk Hr].
  assert (Hd : e_dirty ce = true) by (eapply Hit; left; eauto).
  assert (Hdb1 : nodup (bw_db db k ce)).
  { unfold bw_db. rewrite Hd. simpl. destruct (e_coin ce); [apply nodup_set | apply nodup_del]; auto. }
  destruct (IH _ Hdb1 Hr) as [N G]. { intros; eapply Hit; right; eauto. }
  split; auto. intros k0. rewrite G. destruct (Nat.eqb_spec k0 k) as [->|Hne].
  - rewrite (m_get_notin_none k r) by auto. unfold bw_db. rewrite Hd. simpl.
    destruct (e_coin ce); [apply m_get_set_eq | apply m_get_del_eq].
  - destruct (m_get k0 r); auto. unfold bw_db. rewrite Hd. simpl.
    destruct (e_coin ce); [apply m_get_set_neq | apply m_get_del_neq]; auto.
Qed.

(* the child after an erasing walk (Flush): only the dirty counter moved *)
Lemma cursor_fold_flush items : forall C,
  m_sum entry_dirtyz items <= l_dirty C ->
  l_map (cursor_fold items true C) = l_map C /\ l_usage (cursor_fold items true C) = l_usage C /\
  l_overlay (cursor_fold items true C) = l_overlay C /\
  l_dirty (cursor_fold items true C) = l_dirty C - m_sum entry_dirtyz items.
Proof.
  induction items as [|[k ce] r IH]; intros C Hle; cbn [cursor_fold m_sum] in *.
  - repeat split; auto. lia.
  - pose proof (m_sum_nonneg entry_dirtyz r entry_dirtyz_nonneg).
    pose proof (entry_dirtyz_nonneg ce).
    destruct (IH (cursor_next C k ce true)) as (A & B & D & E).
    { unfold cursor_next. sl. rewrite try_sub_ok by lia. lia. }
    rewrite A, B, D, E. unfold cursor_next. sl. rewrite try_sub_ok by lia. repeat split; auto. lia.
Qed.

Definition clean_copy (ce : entry) : entry := mkEntry (e_coin ce) (e_cap ce) false false.

(* the child after a non-erasing walk (Sync) *)
Lemma cursor_fold_sync items : forall C,
  nodup (l_map C) -> counters_ok C -> nodup items ->
  (forall k ce, In (k, ce) items -> m_get k (l_map C) = Some ce /\ (e_coin ce = None -> e_cap ce = 0)) ->
  nodup (l_map (cursor_fold items false C)) /\ counters_ok (cursor_fold items false C) /\
  l_overlay (cursor_fold items false C) = l_overlay C /\
  forall k, m_get k (l_map (cursor_fold items false C)) =
            match m_get k items with
            | Some ce => if is_unspent ce then Some (clean_copy ce) else None
            | None => m_get k (l_map C)
            end.
Proof.
  induction items as [|[k ce] r IH]; intros C Hn Hc Hni Hit; simpl.
  - auto.
  - apply nodup_cons_inv in Hni as [Hk Hr].
    destruct (Hit k ce (or_introl eq_refl)) as [G Hcap].
    pose proof (counters_ge _ _ _ Hc G) as [Gd Gu]. destruct Hc as [Hd Hu].
    set (C1 := cursor_next C k ce false).
    assert (H1 : nodup (l_map C1) /\ counters_ok C1 /\ l_overlay C1 = l_overlay C /\
                 (forall k2, k2 <> k -> m_get k2 (l_map C1) = m_get k2 (l_map C)) /\
                 m_get k (l_map C1) = if is_unspent ce then Some (clean_copy ce) else None).
    { unfold C1, cursor_next. destruct (is_unspent ce) eqn:U; sl.
      - split; [apply nodup_set; auto|]. split; [|split; [auto|split]].
        + split; sl; rewrite m_sum_set by auto; rewrite G; rewrite ?try_sub_ok by auto.
          * rewrite Hd. generalize (m_sum entry_dirtyz (l_map C)). intros z.
            unfold entry_dirtyz. cbn [e_dirty b2z]. lia.
          * rewrite Hu. generalize (m_sum entry_usage (l_map C)). intros z.
            unfold entry_usage. cbn [e_cap]. lia.
        + intros k2 Hne. apply m_get_set_neq. auto.
        + apply m_get_set_eq.
      - split; [apply nodup_del; auto|]. split; [|split; [auto|split]].
        + apply is_unspent_false in U. specialize (Hcap U).
          split; sl; rewrite m_sum_del by auto; rewrite G; rewrite ?try_sub_ok by auto.
          * lia.
          * rewrite Hu. generalize (m_sum entry_usage (l_map C)). intros z.
            unfold entry_usage. rewrite Hcap. change (malloc_usage 0) with 0. lia.
        + intros k2 Hne. apply m_get_del_neq. auto.
        + apply m_get_del_eq. }
    destruct H1 as (N1 & C1ok & O1 & Same1 & Gk1).
    destruct (IH C1 N1 C1ok Hr) as (N' & C' & O' & G').
    { intros k2 ce2 Hin. assert (k2 <> k) by (intros ->; apply Hk; eapply in_keys; eauto).
      rewrite Same1 by auto. apply Hit. right. auto. }
    split; auto. split; auto. split; [transitivity (l_overlay C1); [exact O' | exact O1]|].
    intros k0. rewrite G'. destruct (Nat.eqb_spec k0 k) as [->|Hne].
    + rewrite (m_get_notin_none k r) by auto. auto.
    + destruct (m_get k0 r); auto.
Qed.

(* ------------------------------------------------------------------------------------------- *)
(* the flagged entries of a cache                                                               *)

Lemma m_get_filter (f : entry -> bool) (m : list (outpoint * entry)) k :
  nodup m ->
  m_get k (filter (fun kv => f (snd kv)) m) =
  match m_get k m with Some e => if f e then Some e else None | None => None end.
Proof.
  induction m as [|[k2 e2] r IH]; intros Hn; simpl; auto.
  apply nodup_cons_inv in Hn as [Hk Hr]. specialize (IH Hr).
  destruct (f e2) eqn:F; simpl.
  - destruct (Nat.eqb k k2); auto. rewrite F. auto.
  - destruct (Nat.eqb_spec k k2) as [->|Hne]; auto.
    rewrite IH, (m_get_notin_none k2 r) by auto. rewrite F. auto.
Qed.

Lemma keys_filter (f : entry -> bool) (m : list (outpoint * entry)) k :
  In k (keys (filter (fun kv => f (snd kv)) m)) -> In k (keys m).
Proof.
  induction m as [|[k2 e2] r IH]; simpl; auto.
  destruct (f e2); simpl; tauto.
Qed.

Lemma nodup_filter (f : entry -> bool) (m : list (outpoint * entry)) :
  nodup m -> nodup (filter (fun kv => f (snd kv)) m).
Proof.
  induction m as [|[k2 e2] r IH]; intros Hn; simpl; auto.
  apply nodup_cons_inv in Hn as [Hk Hr]. destruct (f e2); auto.
  unfold nodup. simpl. constructor; [|apply IH; auto].
  intros Hin. apply keys_filter in Hin. auto.
Qed.

Lemma m_sum_flagged m : m_sum entry_dirtyz (flagged m) = m_sum entry_dirtyz m.
Proof.
  induction m as [|[k e] r IH]; simpl; auto.
  destruct (entry_flagged e) eqn:F; simpl; [lia|].
  unfold entry_flagged in F. apply orb_false_iff in F as [Fd _].
  unfold entry_dirtyz at 2. rewrite Fd. simpl. lia.
Qed.

Lemma flagged_dirty pv e : entry_ok pv e -> entry_flagged e = true -> e_dirty e = true.
Proof.
  intros Hok F. unfold entry_flagged in F. destruct (e_dirty e) eqn:Ed; auto. simpl in F. eok.
Qed.

Lemma flagged_in pv C k ce :
  layer_ok pv C -> In (k, ce) (flagged (l_map C)) ->
  m_get k (l_map C) = Some ce /\ e_dirty ce = true /\ entry_ok (pv k) ce.
Proof.
  intros (Hn & He & _) Hin. unfold flagged in Hin. apply filter_In in Hin as [Hin F]. simpl in F.
  assert (G : m_get k (l_map C) = Some ce) by (apply m_get_in; auto).
  split; auto. split; [|auto]. eapply flagged_dirty; eauto.
Qed.

Lemma m_get_flagged C k pv :
  layer_ok pv C ->
  m_get k (flagged (l_map C)) =
  match m_get k (l_map C) with Some e => if entry_flagged e then Some e else None | None => None end.
Proof. intros (Hn & _). unfold flagged. apply m_get_filter. auto. Qed.

(* the child after Flush / Sync, once its base answers what the child answered *)
Lemma child_after_write w pv pv' C :
  layer_ok pv C -> (forall k, pv' k = lview C pv k) ->
  layer_ok pv' (after_write (cursor_fold (flagged (l_map C)) w C) w) /\
  forall k, lview (after_write (cursor_fold (flagged (l_map C)) w C) w) pv' k = lview C pv k.
Proof.
  intros HC Hpv. pose proof HC as (Hn & He & Hc).
  destruct w; unfold after_write.
  - destruct (cursor_fold_flush (flagged (l_map C)) C) as (A & B & D & E).
    { rewrite m_sum_flagged. destruct Hc as [Hd _]. lia. }
    split.
    + unfold layer_ok, counters_ok, nodup. sl. simpl.
      split; [constructor|]. split; [intros k e H; discriminate|].
      split; auto. rewrite E, m_sum_flagged. destruct Hc as [Hd _]. lia.
    + intros k. unfold lview at 1. sl. simpl. auto.
  - destruct (cursor_fold_sync (flagged (l_map C)) C Hn Hc) as (N' & C' & O' & G').
    { apply nodup_filter. auto. }
    { intros k ce Hin. destruct (flagged_in _ _ _ _ HC Hin) as (G & Hd & Hok). split; auto. eok. }
    assert (Hcase : forall k,
      match m_get k (l_map C) with
      | Some e => if entry_flagged e
                  then m_get k (l_map (cursor_fold (flagged (l_map C)) false C)) =
                       (if is_unspent e then Some (clean_copy e) else None)
                  else m_get k (l_map (cursor_fold (flagged (l_map C)) false C)) = Some e
      | None => m_get k (l_map (cursor_fold (flagged (l_map C)) false C)) = None
      end).
    { intros k. rewrite G', (m_get_flagged C k pv HC).
      destruct (m_get k (l_map C)) as [e|]; auto. destruct (entry_flagged e); auto. }
    split.
    + split; auto. split; auto.
      intros k e' Hg. specialize (Hcase k). rewrite Hpv. unfold lview.
      destruct (m_get k (l_map C)) as [e|] eqn:G; [|congruence].
      pose proof (He _ _ G) as Hok.
      destruct (entry_flagged e) eqn:F.
      * destruct (is_unspent e) eqn:U; [|congruence].
        rewrite Hcase in Hg. inversion Hg; subst e'. apply is_unspent_true in U.
        unfold clean_copy. eok.
      * rewrite Hcase in Hg. inversion Hg; subst e'.
        unfold entry_flagged in F. apply orb_false_iff in F as [Fd Ff]. eok.
    + intros k. specialize (Hcase k). unfold lview at 1.
      destruct (m_get k (l_map C)) as [e|] eqn:G.
      * destruct (entry_flagged e) eqn:F.
        -- rewrite Hcase. destruct (is_unspent e) eqn:U.
           ++ unfold lview. rewrite G. auto.
           ++ apply Hpv.
        -- rewrite Hcase. unfold lview. rewrite G. auto.
      * rewrite Hcase. apply Hpv.
Qed.

(* Flush / Sync of the top cache into a parent cache *)
Lemma flush_top_cache_ok w C P gs db :
  wf (C :: P :: gs) db ->
  exists C' P', flush_top w (C :: P :: gs) db = Ok (C' :: P' :: gs, db) /\ wf (C' :: P' :: gs) db /\
    (forall k, view_peek (C' :: P' :: gs) db k = view_peek (C :: P :: gs) db k) /\
    (forall k, view_peek (P' :: gs) db k = view_peek (C :: P :: gs) db k).
Proof.
  intros (HC & HP & Hgs). set (gv := view_peek gs db) in *.
  change (layer_ok (lview P gv) C) in HC.
  destruct (parent_fold_ok gv w (flagged (l_map C)) P HP) as (P' & E & HP' & Hv').
  { apply nodup_filter. apply HC. }
  { intros k ce Hin. destruct (flagged_in _ _ _ _ HC Hin) as (G & Hd & Hok). auto. }
  assert (PV : forall k, lview P' gv k = lview C (lview P gv) k).
  { intros k. rewrite Hv', (m_get_flagged C k _ HC).
    change (lview C (lview P gv) k) with
      (match m_get k (l_map C) with Some e => e_coin e | None => lview P gv k end).
    destruct (m_get k (l_map C)) as [e|] eqn:G; auto.
    destruct (entry_flagged e) eqn:F; auto.
    destruct HC as (_ & He & _). pose proof (He _ _ G) as Hok.
    unfold entry_flagged in F. apply orb_false_iff in F as [Fd Ff]. symmetry. eok. }
  destruct (child_after_write w (lview P gv) (lview P' gv) C HC PV) as [HC' VC'].
  eexists _, P'. split; [|split; [|split]].
  - unfold flush_top. rewrite batch_loop_split, E. reflexivity.
  - split; [exact HC'|]. split; auto.
  - intros k. rewrite !view_peek_cons. apply VC'.
  - intros k. rewrite !view_peek_cons. apply PV.
Qed.

(* Flush / Sync of the only cache into the database *)
Lemma flush_top_db_ok w C db :
  wf [C] db ->
  exists C' db', flush_top w [C] db = Ok ([C'], db') /\ wf [C'] db' /\
    (forall k, view_peek [C'] db' k = view_peek [C] db k) /\
    (forall k, m_get k db' = view_peek [C] db k).
Proof.
  intros (HC & Hdb). simpl in HC.
  destruct (db_fold_ok (flagged (l_map C)) db Hdb) as [Ndb Gdb].
  { apply nodup_filter. apply HC. }
  { intros k ce Hin. destruct (flagged_in _ _ _ _ HC Hin) as (G & Hd & Hok). auto. }
  set (pv := fun k => m_get k db) in *.
  set (db' := db_fold (flagged (l_map C)) db) in *.
  assert (PV : forall k, m_get k db' = lview C pv k).
  { intros k. rewrite Gdb, (m_get_flagged C k _ HC).
    change (lview C pv k) with (match m_get k (l_map C) with Some e => e_coin e | None => m_get k db end).
    destruct (m_get k (l_map C)) as [e|] eqn:G; auto.
    destruct (entry_flagged e) eqn:F; auto.
    destruct HC as (_ & He & _). pose proof (He _ _ G) as Hok.
    unfold entry_flagged in F. apply orb_false_iff in F as [Fd Ff]. symmetry. eok. }
  destruct (child_after_write w pv (fun k => m_get k db') C HC PV) as [HC' VC'].
  eexists _, db'. split; [|split; [|split]].
  - unfold flush_top. rewrite batch_loop_db_split. reflexivity.
  - split; [exact HC'|exact Ndb].
  - intros k. apply VC'.
  - intros k. apply PV.
Qed.
