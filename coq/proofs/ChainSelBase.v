(* ChainSel: basic facts — lists, the comparator is a strict total order, the block tree. *)
From BV Require Import lib.Ints gen.Params_gen model.ChainSel.
Local Open Scope Z_scope.
#[local] Arguments Z.eqb : simpl never.
#[local] Arguments Z.ltb : simpl never.
#[local] Arguments Z.gtb : simpl never.
#[local] Arguments Z.geb : simpl never.
#[local] Arguments Z.leb : simpl never.
#[local] Arguments Z.add : simpl never.
#[local] Arguments Z.sub : simpl never.

(* ---------------------------------------------------------------------------------------------- *)
(* booleans and lists *)

Lemma mem_In b l : mem b l = true <-> In b l.
Proof.
  unfold mem. rewrite existsb_exists. split.
  - intros [x [Hin Heq]]. apply Z.eqb_eq in Heq. subst. exact Hin.
  - intros H. exists b. split; [exact H|apply Z.eqb_refl].
Qed.

Lemma mem_false b l : mem b l = false <-> ~ In b l.
Proof.
  rewrite <- mem_In. destruct (mem b l); split; intros H.
  - discriminate.
  - exfalso. apply H. reflexivity.
  - discriminate.
  - reflexivity.
Qed.

Lemma upd_same {A} (f : id -> A) b v : upd f b v b = v.
Proof. unfold upd. rewrite Z.eqb_refl. reflexivity. Qed.
Lemma upd_other {A} (f : id -> A) b v x : x <> b -> upd f b v x = f x.
Proof. unfold upd. intros H. destruct (Z.eqb_spec x b); [contradiction|reflexivity]. Qed.

Lemma cand_insert_In c l x : In x (cand_insert c l) <-> x = c \/ In x l.
Proof.
  unfold cand_insert. destruct (mem c l) eqn:E.
  - apply mem_In in E. split; [tauto|]. intros [->|H]; assumption.
  - cbn. split; intros [H|H]; auto.
Qed.
Lemma cand_erase_In c l x : In x (cand_erase c l) <-> In x l /\ x <> c.
Proof.
  unfold cand_erase. rewrite filter_In. split; intros [H1 H2]; split; auto.
  - destruct (Z.eqb_spec x c); cbn in H2; congruence.
  - destruct (Z.eqb_spec x c); cbn; congruence.
Qed.
Lemma cand_insert_NoDup c l : NoDup l -> NoDup (cand_insert c l).
Proof.
  unfold cand_insert. intros H. destruct (mem c l) eqn:E; [exact H|].
  constructor; [apply mem_false; exact E|exact H].
Qed.
Lemma NoDup_filter {A} (f : A -> bool) l : NoDup l -> NoDup (filter f l).
Proof.
  induction 1 as [|x l Hx Hl IH]; cbn; [constructor|].
  destruct (f x); [constructor; [rewrite filter_In; tauto|exact IH]|exact IH].
Qed.
Lemma NoDup_app_intro {A} (a b : list A) : NoDup a -> NoDup b -> (forall x, In x a -> In x b -> False) -> NoDup (a ++ b).
Proof.
  induction 1 as [|x a Hx Ha IH]; cbn; intros Hb Hd; [assumption|].
  constructor.
  - intros H. apply in_app_or in H. destruct H as [H|H]; [contradiction|]. apply (Hd x); auto.
  - apply IH; [assumption|]. intros y Hy. apply Hd. auto.
Qed.
Lemma cand_erase_NoDup c l : NoDup l -> NoDup (cand_erase c l).
Proof. apply NoDup_filter. Qed.

(* ---------------------------------------------------------------------------------------------- *)
(* state setters do not disturb the fields they do not set (all by computation) *)

Ltac cmp :=
  repeat match goal with
         | H : context [?a >? ?b] |- _ => rewrite (Z.gtb_ltb a b) in H
         | |- context [?a >? ?b] => rewrite (Z.gtb_ltb a b)
         end;
  repeat match goal with
         | H : context [?a <? ?b] |- _ => destruct (Z.ltb_spec a b)
         | |- context [?a <? ?b] => destruct (Z.ltb_spec a b)
         end.

(* the comparator is a strict total order on ids, whatever the work and sequence functions are *)
Section Order.
Variable s : state.
Lemma worse_irrefl a : worse s a a = false.
Proof. unfold worse. cmp; try lia; reflexivity. Qed.
Lemma worse_asym a b : worse s a b = true -> worse s b a = false.
Proof. unfold worse. cmp; intros; try lia; try congruence. Qed.
Lemma worse_total a b : a <> b -> worse s a b = true \/ worse s b a = true.
Proof. unfold worse. cmp; intros; try lia; auto. Qed.
Lemma worse_antisym a b : worse s a b = false -> worse s b a = false -> a = b.
Proof. intros H1 H2. destruct (Z.eq_dec a b) as [|N]; [assumption|]. destruct (worse_total a b N); congruence. Qed.
Lemma worse_trans a b c : worse s a b = true -> worse s b c = true -> worse s a c = true.
Proof. unfold worse. cmp; intros; try lia; try congruence. Qed.
(* a <= b < c  and  a < b <= c *)
Lemma nworse_worse_trans a b c : worse s b a = false -> worse s b c = true -> worse s a c = true.
Proof. unfold worse. cmp; intros; try lia; try congruence. Qed.
Lemma worse_nworse_trans a b c : worse s a b = true -> worse s c b = false -> worse s a c = true.
Proof. unfold worse. cmp; intros; try lia; try congruence. Qed.
Lemma nworse_trans a b c : worse s b a = false -> worse s c b = false -> worse s c a = false.
Proof. unfold worse. cmp; intros; try lia; try congruence. Qed.
Lemma worse_work_lt a b : work s a < work s b -> worse s a b = true.
Proof. unfold worse. cmp; intros; try lia; reflexivity. Qed.
Lemma worse_work_le a b : worse s a b = true -> work s a <= work s b.
Proof. unfold worse. cmp; intros; try lia; congruence. Qed.
Lemma nworse_work_ge a b : worse s a b = false -> work s b <= work s a.
Proof. unfold worse. cmp; intros; try lia; congruence. Qed.
(* with distinct sequence ids the order is (work, then earlier sequence id) *)
Lemma worse_spec_seq a b : st_seq s a <> st_seq s b ->
  (worse s a b = true <-> work s a < work s b \/ (work s a = work s b /\ st_seq s b < st_seq s a)).
Proof. unfold worse. cmp; intros; split; intros; try lia; try congruence; auto. Qed.

(* best_of returns the maximum *)
Lemma best_of_In acc l : best_of s acc l = acc \/ In (best_of s acc l) l.
Proof.
  revert acc. induction l as [|c r IH]; intros acc; cbn; [auto|].
  destruct (IH (if worse s acc c then c else acc)) as [H|H]; [|auto].
  rewrite H. destruct (worse s acc c); auto.
Qed.
Lemma best_of_ge l : forall acc x, x = acc \/ In x l -> worse s (best_of s acc l) x = false.
Proof.
  induction l as [|c r IH]; intros acc x; cbn.
  - intros [->|[]]. apply worse_irrefl.
  - intros [Hx|[Hx|Hx]].
    + subst x. destruct (worse s acc c) eqn:E.
      * apply worse_asym. eapply worse_nworse_trans; [exact E|]. apply IH. auto.
      * apply IH. auto.
    + subst x. destruct (worse s acc c) eqn:E.
      * apply IH. auto.
      * eapply nworse_trans; [exact E|]. apply IH. auto.
    + apply IH. auto.
Qed.
End Order.

Lemma best_cand_spec s w : best_cand s = Some w ->
  In w (st_cands s) /\ forall c, In c (st_cands s) -> worse s w c = false.
Proof.
  unfold best_cand. destruct (st_cands s) as [|c r]; [discriminate|]. intros H. injection H as <-. split.
  - destruct (best_of_In s c r) as [->|H]; cbn; auto.
  - intros x Hx. apply best_of_ge. destruct Hx; auto.
Qed.
Lemma best_cand_none s : best_cand s = None -> st_cands s = [].
Proof. unfold best_cand. destruct (st_cands s); [reflexivity|discriminate]. Qed.

(* ---------------------------------------------------------------------------------------------- *)
(* the block tree *)
Lemma get_hdr_id idx b h : get_hdr idx b = Some h -> h_id h = b.
Proof.
  induction idx as [|x r IH]; cbn; [discriminate|].
  destruct (Z.eqb_spec (h_id x) b); [intros H; injection H as <-; assumption|exact IH].
Qed.
Lemma get_hdr_In idx b h : get_hdr idx b = Some h -> In h idx.
Proof.
  induction idx as [|x r IH]; cbn; [discriminate|].
  destruct (Z.eqb_spec (h_id x) b); [intros H; injection H as <-; auto|auto].
Qed.
Lemma get_hdr_none idx b : get_hdr idx b = None <-> ~ In b (map h_id idx).
Proof.
  induction idx as [|x r IH]; cbn; [tauto|].
  destruct (Z.eqb_spec (h_id x) b); [split; [discriminate|intros H; exfalso; apply H; auto]|].
  rewrite IH. tauto.
Qed.
Lemma get_hdr_some idx b : In b (map h_id idx) <-> exists h, get_hdr idx b = Some h.
Proof.
  destruct (get_hdr idx b) eqn:E.
  - split; [eauto|]. intros _. destruct (in_dec Z.eq_dec b (map h_id idx)); [assumption|].
    apply get_hdr_none in n. congruence.
  - apply get_hdr_none in E. split; [contradiction|intros [h H]; discriminate].
Qed.

Section Tree.
Set Default Proof Using "All".
Variable parent_of : id -> id.
Variable proof_of : id -> Z.
Hypothesis proof_pos : forall b, 0 < proof_of b.

Definition genesis_hdr : hdr := {| h_id := GENESIS; h_path := [GENESIS]; h_work := proof_of GENESIS |}.

(* how m_block_index can look: genesis, then entries added by AddToBlockIndex on top of a known parent *)
Inductive wf_index : list hdr -> Prop :=
| wf_gen : wf_index [genesis_hdr]
| wf_cons idx b p : wf_index idx -> b <> GENESIS -> get_hdr idx b = None -> get_hdr idx (parent_of b) = Some p ->
    wf_index ({| h_id := b; h_path := b :: h_path p; h_work := h_work p + proof_of b |} :: idx).

Lemma wf_genesis idx : wf_index idx -> get_hdr idx GENESIS = Some genesis_hdr.
Proof.
  induction 1 as [|idx b p Hwf IH Hb Hn Hp]; cbn; [reflexivity|].
  destruct (Z.eqb_spec b GENESIS); [contradiction|exact IH].
Qed.

Lemma wf_NoDup idx : wf_index idx -> NoDup (map h_id idx).
Proof.
  induction 1 as [|idx b p Hwf IH Hb Hn Hp]; cbn.
  - constructor; [intros []|constructor].
  - constructor; [apply get_hdr_none; exact Hn|exact IH].
Qed.

(* the entry of a non-genesis block is its parent's entry extended by the block *)
Lemma wf_unfold idx b h : wf_index idx -> get_hdr idx b = Some h -> b <> GENESIS ->
  exists p, get_hdr idx (parent_of b) = Some p /\ h_path h = b :: h_path p /\ h_work h = h_work p + proof_of b.
Proof.
  induction 1 as [|idx c p Hwf IH Hc Hn Hp]; cbn.
  - destruct (Z.eqb_spec GENESIS b); [intros _ N; congruence|discriminate].
  - destruct (Z.eqb_spec c b) as [->|Ncb].
    + intros H _. injection H as <-. cbn. exists p.
      destruct (Z.eqb_spec b (parent_of b)) as [E|_]; [rewrite <- E in Hp; congruence|auto].
    + intros H N. destruct (IH H N) as [q [Hq1 Hq2]]. exists q. split; [|exact Hq2].
      destruct (Z.eqb_spec c (parent_of b)) as [E|_]; [rewrite E in Hn; congruence|exact Hq1].
Qed.

Lemma wf_path_head idx b h : wf_index idx -> get_hdr idx b = Some h -> exists t, h_path h = b :: t.
Proof.
  intros Hwf H. destruct (Z.eq_dec b GENESIS) as [->|N].
  - rewrite (wf_genesis _ Hwf) in H. injection H as <-. exists []. reflexivity.
  - destruct (wf_unfold _ _ _ Hwf H N) as [p [_ [Hp _]]]. eauto.
Qed.

(* every element of a path is known and its own path is the suffix starting at it *)
Lemma wf_path_suffix idx : wf_index idx -> forall n b h, length (h_path h) = n -> get_hdr idx b = Some h ->
  forall x, In x (h_path h) -> exists hx pre, get_hdr idx x = Some hx /\ h_path h = pre ++ h_path hx.
Proof.
  intros Hwf. induction n as [|n IH]; intros b h Hlen H x Hx.
  - destruct (h_path h); [destruct Hx|discriminate].
  - destruct (Z.eq_dec b GENESIS) as [->|N].
    + rewrite (wf_genesis _ Hwf) in H. injection H as <-. cbn in Hx. destruct Hx as [<-|[]].
      exists genesis_hdr, []. split; [apply wf_genesis; assumption|reflexivity].
    + destruct (wf_unfold _ _ _ Hwf H N) as [p [Hp [Hpath _]]].
      rewrite Hpath in Hx. destruct Hx as [<-|Hx].
      * exists h, []. auto.
      * assert (Hl : length (h_path p) = n) by (rewrite Hpath in Hlen; cbn in Hlen; lia).
        destruct (IH _ _ Hl Hp x Hx) as [hx [pre [H1 H2]]].
        exists hx, (b :: pre). split; [exact H1|]. rewrite Hpath, H2. reflexivity.
Qed.

Lemma wf_work_pos idx b h : wf_index idx -> get_hdr idx b = Some h -> 0 < h_work h.
Proof.
  intros Hwf. remember (length (h_path h)) as n eqn:Hn. revert b h Hn.
  induction n as [n IH] using lt_wf_ind. intros b h Hn H.
  destruct (Z.eq_dec b GENESIS) as [->|N].
  - rewrite (wf_genesis _ Hwf) in H. injection H as <-. cbn. apply proof_pos.
  - destruct (wf_unfold _ _ _ Hwf H N) as [p [Hp [Hpath Hw]]].
    assert (0 < h_work p). { eapply (IH (length (h_path p))); [|reflexivity|exact Hp]. rewrite Hn, Hpath. cbn. lia. }
    pose proof (proof_pos b). lia.
Qed.

(* going up strictly loses work and length *)
Lemma wf_suffix_work idx : wf_index idx -> forall pre b h hx x, get_hdr idx b = Some h -> get_hdr idx x = Some hx ->
  h_path h = pre ++ h_path hx -> h_work h = h_work hx + zsum (map proof_of pre) /\ (pre = [] -> x = b).
Proof.
  intros Hwf. induction pre as [|y pre IH]; intros b h hx x H Hx Hpath.
  - cbn in *. destruct (wf_path_head _ _ _ Hwf H) as [t Ht]. destruct (wf_path_head _ _ _ Hwf Hx) as [t' Ht'].
    assert (x = b) by congruence. subst. split; [|auto]. assert (h = hx) by congruence. subst. lia.
  - destruct (Z.eq_dec b GENESIS) as [->|N].
    + rewrite (wf_genesis _ Hwf) in H. injection H as <-. cbn in Hpath.
      destruct (wf_path_head _ _ _ Hwf Hx) as [t' Ht']. rewrite Ht' in Hpath.
      destruct pre; cbn in Hpath; discriminate.
    + destruct (wf_unfold _ _ _ Hwf H N) as [p [Hp [Hpp Hw]]].
      rewrite Hpp in Hpath. cbn in Hpath. injection Hpath as <- Hpath.
      destruct (IH _ _ _ _ Hp Hx Hpath) as [IH1 _]. split; [|discriminate]. cbn. lia.
Qed.

Lemma zsum_proof_pos l : l <> [] -> 0 < zsum (map proof_of l).
Proof.
  destruct l as [|a l]; [congruence|]. intros _. cbn.
  assert (0 <= zsum (map proof_of l)). { induction l as [|c l IH]; cbn; [lia|]. pose proof (proof_pos c). lia. }
  pose proof (proof_pos a). lia.
Qed.
End Tree.

(* ---------------------------------------------------------------------------------------------- *)
(* the same facts at the level of a state *)
Section StateTree.
Set Default Proof Using "All".
Variable parent_of : id -> id.
Variable proof_of : id -> Z.
Hypothesis proof_pos : forall b, 0 < proof_of b.
Variable s : state.
Hypothesis Hwf : wf_index parent_of proof_of (st_index s).

Lemma known_iff b : known s b = true <-> In b (ids s).
Proof.
  unfold known, ids. split.
  - destruct (get_hdr (st_index s) b) as [h|] eqn:E; [intros _|discriminate]. apply get_hdr_some. eauto.
  - intros H. apply get_hdr_some in H. destruct H as [h ->]. reflexivity.
Qed.
Lemma known_get b : known s b = true -> exists h, get_hdr (st_index s) b = Some h.
Proof. unfold known. destruct (get_hdr (st_index s) b); [eauto|discriminate]. Qed.
Lemma unknown_path b : known s b = false -> path s b = [].
Proof. unfold known, path. destruct (get_hdr (st_index s) b); [discriminate|reflexivity]. Qed.

Lemma known_genesis : known s GENESIS = true.
Proof. unfold known. rewrite (wf_genesis _ _ proof_pos _ Hwf). reflexivity. Qed.
Lemma path_genesis : path s GENESIS = [GENESIS].
Proof. unfold path. rewrite (wf_genesis _ _ proof_pos _ Hwf). reflexivity. Qed.
Lemma work_genesis : work s GENESIS = proof_of GENESIS.
Proof. unfold work. rewrite (wf_genesis _ _ proof_pos _ Hwf). reflexivity. Qed.

Lemma path_unfold b : known s b = true -> b <> GENESIS ->
  known s (parent_of b) = true /\ path s b = b :: path s (parent_of b) /\ work s b = work s (parent_of b) + proof_of b.
Proof.
  intros Hk N. destruct (known_get _ Hk) as [h H].
  destruct (wf_unfold _ _ proof_pos _ _ _ Hwf H N) as [p [Hp [H1 H2]]].
  unfold known, path, work. rewrite H, Hp. auto.
Qed.

Lemma path_head b : known s b = true -> exists t, path s b = b :: t.
Proof.
  intros Hk. destruct (known_get _ Hk) as [h H]. unfold path. rewrite H. eapply wf_path_head; eauto.
Qed.
Lemma path_self b : known s b = true -> In b (path s b).
Proof. intros Hk. destruct (path_head _ Hk) as [t ->]. left. reflexivity. Qed.
Lemma path_nonempty_known b x : In x (path s b) -> known s b = true.
Proof. destruct (known s b) eqn:E; [auto|]. rewrite (unknown_path _ E). intros []. Qed.

Lemma path_suffix b x : In x (path s b) -> known s x = true /\ exists pre, path s b = pre ++ path s x.
Proof.
  intros Hx. pose proof (path_nonempty_known _ _ Hx) as Hk. destruct (known_get _ Hk) as [h H].
  unfold path in Hx. rewrite H in Hx.
  destruct (wf_path_suffix _ _ proof_pos _ Hwf _ _ _ eq_refl H _ Hx) as [hx [pre [H1 H2]]].
  unfold known, path. rewrite H, H1. eauto.
Qed.
Lemma path_known b x : In x (path s b) -> known s x = true.
Proof. intros H. apply (path_suffix _ _ H). Qed.

Lemma path_trans a b c : In a (path s b) -> In b (path s c) -> In a (path s c).
Proof.
  intros Hab Hbc. destruct (path_suffix _ _ Hbc) as [_ [pre ->]]. apply in_or_app. auto.
Qed.

Lemma path_work b x : In x (path s b) -> x <> b -> work s x < work s b.
Proof.
  intros Hx N. pose proof (path_nonempty_known _ _ Hx) as Hk.
  destruct (path_suffix _ _ Hx) as [Hkx [pre Hpre]].
  destruct (known_get _ Hk) as [h H]. destruct (known_get _ Hkx) as [hx H'].
  unfold path in Hpre. rewrite H, H' in Hpre.
  destruct (wf_suffix_work _ _ proof_pos _ Hwf _ _ _ _ _ H H' Hpre) as [Hw Hnil].
  unfold work. rewrite H, H'. destruct pre as [|y pre]; [exfalso; apply N; auto|].
  pose proof (zsum_proof_pos parent_of _ proof_pos (y :: pre)). assert (y :: pre <> []) by discriminate. lia.
Qed.
Lemma path_work_le b x : In x (path s b) -> work s x <= work s b.
Proof. intros H. destruct (Z.eq_dec x b) as [->|N]; [lia|]. pose proof (path_work _ _ H N). lia. Qed.

Lemma path_antisym a b : In a (path s b) -> In b (path s a) -> a = b.
Proof.
  intros H1 H2. destruct (Z.eq_dec a b) as [|N]; [assumption|].
  pose proof (path_work _ _ H1 N). assert (b <> a) by congruence. pose proof (path_work _ _ H2 H0). lia.
Qed.

Lemma path_parent b x : known s b = true -> b <> GENESIS -> (In x (path s b) <-> x = b \/ In x (path s (parent_of b))).
Proof.
  intros Hk N. destruct (path_unfold _ Hk N) as [_ [-> _]]. cbn. split; intros [H|H]; auto.
Qed.
Lemma parent_in_path b : known s b = true -> b <> GENESIS -> In (parent_of b) (path s b).
Proof.
  intros Hk N. apply path_parent; auto. right. apply path_self. apply (path_unfold _ Hk N).
Qed.
Lemma parent_neq b : known s b = true -> b <> GENESIS -> parent_of b <> b.
Proof.
  intros Hk N E. destruct (path_unfold _ Hk N) as [_ [_ Hw]]. rewrite E in Hw. pose proof (proof_pos b). lia.
Qed.
Lemma work_pos b : known s b = true -> 0 < work s b.
Proof.
  intros Hk. destruct (known_get _ Hk) as [h H]. unfold work. rewrite H. eapply wf_work_pos; eauto.
Qed.
Lemma genesis_in_path b : known s b = true -> In GENESIS (path s b).
Proof.
  intros Hk. destruct (known_get _ Hk) as [h H].
  remember (length (path s b)) as n eqn:Hn. revert b h Hk H Hn.
  induction n as [n IH] using lt_wf_ind. intros b h Hk H Hn.
  destruct (Z.eq_dec b GENESIS) as [->|N]; [apply path_self; assumption|].
  destruct (path_unfold _ Hk N) as [Hkp [Hp _]]. rewrite Hp. right.
  destruct (known_get _ Hkp) as [hp H'].
  eapply (IH (length (path s (parent_of b)))); eauto. rewrite Hn, Hp. cbn. lia.
Qed.
Lemma path_genesis_only x : In x (path s GENESIS) -> x = GENESIS.
Proof. rewrite path_genesis. intros [H|[]]. auto. Qed.

(* a strict descendant of a descends from a through its parent *)
Lemma desc_via_parent x a : In a (path s x) -> a <> x -> x <> GENESIS /\ In a (path s (parent_of x)).
Proof.
  intros H N. pose proof (path_nonempty_known _ _ H) as Hk.
  destruct (Z.eq_dec x GENESIS) as [->|Ng]; [apply path_genesis_only in H; congruence|].
  split; [assumption|]. apply (path_parent _ a Hk Ng) in H. destruct H; [congruence|assumption].
Qed.

Lemma is_desc_iff x a : is_desc s x a = true <-> In a (path s x).
Proof. unfold is_desc. apply mem_In. Qed.
Lemma in_chain_iff x : in_chain s x = true <-> In x (path s (st_tip s)).
Proof. unfold in_chain. apply mem_In. Qed.
End StateTree.
