(* HTTPRequest::LoadBody (model load_body): chunked loop and Content-Length path resume correctly; C52. *)
From BV Require Import lib.Ints gen.Params_gen model.Http proofs.HttpLoop proofs.HttpHeaders.
Local Open Scope Z_scope.

(* m_chunk_read never exceeds m_chunk_size; it is 0 while no chunk is open *)
Definition chunk_inv (q : request) : Prop :=
  match rq_chunk_size q with
  | Some sz => 0 <= rq_chunk_read q <= sz
  | None => rq_chunk_read q = 0
  end.

(* validation-only reads do not change the stored headers *)
Lemma headers_body_nowrite_list s r :
  match headers_body false s r with
  | Need s' _ | Done s' _ | Adv s' _ => h_list (fst s') = h_list (fst s)
  | Fail _ _ => True
  end.
Proof.
  destruct s as [h here]. unfold headers_body.
  destruct (read_line MAX_LINE r) as [| |l rest n]; [reflexivity | exact I |].
  destruct (HTTP_MAX_HEADERS_SIZE <? here + Z.of_nat n + h_consumed h); [exact I|].
  destruct l as [|c l]; [reflexivity|].
  destruct (contains_any [CR; LF; NUL] (c :: l)); [exact I|].
  destruct (find_byte COLON (c :: l)) as [pos|]; [|exact I].
  destruct (contains_any _ (firstn pos (c :: l))); [exact I|].
  destruct (firstn pos (c :: l)); [exact I | reflexivity].
Qed.

Lemma headers_loop_nowrite_list : forall f s r,
  match loop (headers_body false) f s r with
  | LNeed s' _ | LDone s' _ => h_list (fst s') = h_list (fst s)
  | _ => True
  end.
Proof.
  induction f as [|f IH]; intros s r; simpl; [exact I|].
  pose proof (headers_body_nowrite_list s r) as H.
  destruct (headers_body false s r) as [s' r'|sf e|s' r'|s' r']; auto.
  specialize (IH s' r'). destruct (loop (headers_body false) f s' r'); auto; congruence.
Qed.

Lemma headers_read_nowrite_list h r :
  match headers_read false h r with
  | Ret _ h' _ => h_list h' = h_list h
  | Throw _ _ => True
  end.
Proof.
  unfold headers_read, run_loop.
  pose proof (headers_loop_nowrite_list (Datatypes.S (length r)) (h, 0) r) as H.
  destruct (loop (headers_body false) _ (h, 0) r) as [s' r'|sf e|s' r'|]; auto.
Qed.

(* a "true" return of Read consumed at least the terminating empty line *)
Lemma headers_loop_done_decr w : forall f s r s' r',
  loop (headers_body w) f s r = LDone s' r' -> (length r' < length r)%nat.
Proof.
  induction f as [|f IH]; intros s r s' r'; simpl; [discriminate|].
  destruct (headers_body w s r) as [s1 r1|sf e|s1 r1|s1 r1] eqn:E; try discriminate.
  - intros H. injection H as <- <-. unfold headers_body in E. destruct s as [h here].
    destruct (read_line MAX_LINE r) as [| |l rest n] eqn:El; try discriminate.
    apply read_line_consumed in El.
    destruct (HTTP_MAX_HEADERS_SIZE <? here + Z.of_nat n + h_consumed h); [discriminate|].
    destruct l as [|c l].
    + injection E as <- <-. lia.
    + destruct (contains_any [CR; LF; NUL] (c :: l)); [discriminate|].
      destruct (find_byte COLON (c :: l)) as [pos|]; [|discriminate].
      destruct (contains_any _ (firstn pos (c :: l))); [discriminate|].
      destruct (firstn pos (c :: l)); discriminate.
  - intros H. apply IH in H. apply headers_body_decr in E. lia.
Qed.

Lemma headers_read_true_decr w h r h' r' : headers_read w h r = Ret true h' r' -> (length r' < length r)%nat.
Proof.
  unfold headers_read, run_loop.
  destruct (loop (headers_body w) _ (h, 0) r) as [s1 r1|sf e|s1 r1|] eqn:E; try discriminate.
  intros H. injection H as <- <-. eapply headers_loop_done_decr; eauto.
Qed.

Lemma headers_read_false_len w h r h' r' : headers_read w h r = Ret false h' r' -> (length r' <= length r)%nat.
Proof.
  unfold headers_read, run_loop. generalize (Datatypes.S (length r)) as f. intros f.
  assert (G : forall f s r s' r', loop (headers_body w) f s r = LNeed s' r' -> (length r' <= length r)%nat).
  { clear. induction f as [|f IH]; intros s r s' r'; simpl; [discriminate|].
    destruct (headers_body w s r) as [s1 r1|sf e|s1 r1|s1 r1] eqn:E; try discriminate.
    - intros H. injection H as <- <-. apply headers_body_need in E. destruct E as [_ ->]. lia.
    - intros H. apply IH in H. apply headers_body_decr in E. lia. }
  destruct (loop (headers_body w) f (h, 0) r) as [s1 r1|sf e|s1 r1|] eqn:E; try discriminate.
  intros H. injection H as <- <-. eapply G; eauto.
Qed.

(* ---------------------------------------------------------------------------------------------- *)
(* record plumbing *)

Lemma set_headers_twice h1 h2 q : set_headers h2 (set_headers h1 q) = set_headers h2 q.
Proof. reflexivity. Qed.

Lemma firstn_app_exact {A} (a b : list A) n : (n <= length a)%nat -> firstn n (a ++ b) = firstn n a.
Proof. intros H. rewrite firstn_app. replace (n - length a)%nat with 0%nat by lia. simpl. apply app_nil_r. Qed.
Lemma skipn_app_exact {A} (a b : list A) n : (n <= length a)%nat -> skipn n (a ++ b) = skipn n a ++ b.
Proof. intros H. rewrite skipn_app. replace (n - length a)%nat with 0%nat by lia. reflexivity. Qed.

(* ---------------------------------------------------------------------------------------------- *)
(* the chunk loop body *)

Section Chunk.
  Variable hl : list (bytes * bytes).     (* the request headers, fixed during the body phase *)
  Definition cinv (q : request) : Prop := chunk_inv q /\ h_list (rq_headers q) = hl.

  Lemma chunk_continue_cases q rest :
    (rest = [] /\ chunk_continue q rest = Need q []) \/ (rest <> [] /\ chunk_continue q rest = Adv q rest).
  Proof. destruct rest; [left | right]; split; auto; discriminate. Qed.

  (* --- the bulk read --- *)
  Lemma chunk_bulk_none q size rem : rq_chunk_read q = size -> chunk_bulk q size rem = (q, rem).
  Proof. intros H. unfold chunk_bulk. replace (rq_chunk_read q <? size) with false by lia. reflexivity. Qed.

  Lemma chunk_bulk_full q size rem y : rq_chunk_read q < size -> size - rq_chunk_read q <= Z.of_nat (length rem) ->
    chunk_bulk q size (rem ++ y) =
      (set_body_chunk (rq_body q ++ firstn (Z.to_nat (size - rq_chunk_read q)) rem) (Some size) size q,
       skipn (Z.to_nat (size - rq_chunk_read q)) rem ++ y).
  Proof.
    intros Hlt Hfull. unfold chunk_bulk. replace (rq_chunk_read q <? size) with true by lia. cbv zeta.
    rewrite app_length.
    replace (Z.min (size - rq_chunk_read q) (Z.of_nat (length rem + length y))) with (size - rq_chunk_read q) by lia.
    rewrite firstn_app_exact, skipn_app_exact by lia.
    replace (rq_chunk_read q + (size - rq_chunk_read q)) with size by lia. reflexivity.
  Qed.

  Lemma chunk_bulk_part q size rem : rq_chunk_read q < size -> Z.of_nat (length rem) < size - rq_chunk_read q ->
    let q1 := set_body_chunk (rq_body q ++ rem) (Some size) (rq_chunk_read q + Z.of_nat (length rem)) q in
    chunk_bulk q size rem = (q1, []) /\ forall y, chunk_bulk q size (rem ++ y) = chunk_bulk q1 size y.
  Proof.
    intros Hlt Hpart q1. split.
    - unfold chunk_bulk. replace (rq_chunk_read q <? size) with true by lia. cbv zeta.
      replace (Z.min (size - rq_chunk_read q) (Z.of_nat (length rem))) with (Z.of_nat (length rem)) by lia.
      rewrite Nat2Z.id, firstn_all, skipn_all. reflexivity.
    - intros y. unfold chunk_bulk. replace (rq_chunk_read q <? size) with true by lia.
      cbn [rq_chunk_read rq_body q1 set_body_chunk].
      replace (rq_chunk_read q + Z.of_nat (length rem) <? size) with true by lia. cbv zeta.
      rewrite app_length.
      set (m2 := Z.min (size - (rq_chunk_read q + Z.of_nat (length rem))) (Z.of_nat (length y))).
      replace (Z.min (size - rq_chunk_read q) (Z.of_nat (length rem + length y))) with (Z.of_nat (length rem) + m2)
        by (unfold m2; lia).
      assert (Hm2 : 0 <= m2) by (unfold m2; lia).
      rewrite Z2Nat.inj_add by lia. rewrite Nat2Z.id.
      rewrite firstn_app_2, skipn_app, skipn_all2 by lia.
      replace (length rem + Z.to_nat m2 - length rem)%nat with (Z.to_nat m2) by lia.
      rewrite <- app_assoc. simpl app.
      replace (rq_chunk_read q + (Z.of_nat (length rem) + m2)) with (rq_chunk_read q + Z.of_nat (length rem) + m2) by lia.
      reflexivity.
  Qed.

  (* an open chunk whose data is complete: the resumed iteration goes straight to the CRLF *)
  Lemma chunk_body_at_crlf q size rem : rem <> [] -> size <> 0 -> rq_chunk_size q = Some size -> rq_chunk_read q = size ->
    chunk_body q rem = chunk_crlf q size rem.
  Proof.
    intros Hne Hsz Hcs Hrd. unfold chunk_body. destruct rem as [|c t]; [contradiction|].
    rewrite Hcs. unfold chunk_trailers_or_data. replace (size =? 0) with false by lia.
    unfold chunk_data. rewrite (chunk_bulk_none q size (c :: t) Hrd). reflexivity.
  Qed.

  (* --- the CRLF after the chunk data and the end of the iteration --- *)
  Lemma chunk_crlf_spec q1 size rem1 : size <> 0 -> rq_chunk_size q1 = Some size -> rq_chunk_read q1 = size ->
    match chunk_crlf q1 size rem1 with
    | Need q' r' =>
      (cinv q1 -> cinv q') /\ (length r' <= length rem1)%nat /\
      forall y, chunk_crlf q1 size (rem1 ++ y) = chunk_body q' (r' ++ y) \/
                chunk_crlf q1 size (rem1 ++ y) = Adv q' (r' ++ y)
    | Fail sf e => forall y, chunk_crlf q1 size (rem1 ++ y) = Fail sf e
    | Done _ _ => False
    | Adv q' r' => (cinv q1 -> cinv q') /\ (length r' < length rem1)%nat /\
                   forall y, chunk_crlf q1 size (rem1 ++ y) = Adv q' (r' ++ y)
    end.
  Proof.
    intros Hsz Hcs Hrd. unfold chunk_crlf. replace (rq_chunk_read q1 =? size) with true by lia.
    destruct (read_line MAX_LINE rem1) as [| |l rest n] eqn:El.
    - split; [auto|]. split; [lia|]. intros y. left.
      destruct (rem1 ++ y) as [|c0 t] eqn:Eb.
      + apply app_eq_nil in Eb. destruct Eb as [-> ->]. reflexivity.
      + rewrite <- Eb. rewrite (chunk_body_at_crlf q1 size (rem1 ++ y)); auto; [|rewrite Eb; discriminate].
        unfold chunk_crlf. replace (rq_chunk_read q1 =? size) with true by lia. reflexivity.
    - intros y. now rewrite (read_line_toolong_ext _ _ y El).
    - pose proof (read_line_consumed _ _ _ _ _ El) as Hc.
      destruct l as [|c l].
      + set (q2 := set_body_chunk (rq_body q1) None 0 q1).
        assert (Hinv : cinv q1 -> cinv q2).
        { intros [Hci Hhl]. split; [|exact Hhl]. unfold chunk_inv, q2. cbn. reflexivity. }
        destruct (chunk_continue_cases q2 rest) as [[-> Ec]|[Hne Ec]]; rewrite Ec.
        * split; [exact Hinv|]. split; [simpl; lia|]. intros y.
          rewrite (read_line_line_ext _ _ y _ _ _ El). simpl app. fold q2.
          destruct y as [|c0 t]; [left; reflexivity | right; reflexivity].
        * split; [exact Hinv|]. split; [lia|]. intros y.
          rewrite (read_line_line_ext _ _ y _ _ _ El). fold q2.
          destruct rest as [|c0 t]; [contradiction|]. reflexivity.
      + intros y. now rewrite (read_line_line_ext _ _ y _ _ _ El).
  Qed.

  (* --- chunk_data: from the bulk read to the end of the iteration --- *)
  Lemma chunk_data_spec q size rem : size <> 0 -> rq_chunk_size q = Some size -> 0 <= rq_chunk_read q <= size ->
    match chunk_data q size rem with
    | Need q' r' =>
      (cinv q -> cinv q') /\ (length r' <= length rem)%nat /\
      forall y, chunk_data q size (rem ++ y) = chunk_body q' (r' ++ y) \/
                chunk_data q size (rem ++ y) = Adv q' (r' ++ y)
    | Fail sf e => forall y, chunk_data q size (rem ++ y) = Fail sf e
    | Done _ _ => False
    | Adv q' r' => (cinv q -> cinv q') /\ (length r' < length rem)%nat /\ forall y, chunk_data q size (rem ++ y) = Adv q' (r' ++ y)
    end.
  Proof.
    intros Hsz Hcs Hrd. unfold chunk_data.
    destruct (Z.eq_dec (rq_chunk_read q) size) as [Heq|Hneq].
    - (* data complete already *)
      rewrite (chunk_bulk_none q size rem Heq).
      pose proof (chunk_crlf_spec q size rem Hsz Hcs Heq) as H.
      destruct (chunk_crlf q size rem) as [q' r'|sf e|q' r'|q' r']; auto.
      + destruct H as (H1 & H2 & H3). split; [exact H1|]. split; [exact H2|]. intros y. rewrite (chunk_bulk_none q size (rem ++ y) Heq). apply H3.
      + intros y. rewrite (chunk_bulk_none q size (rem ++ y) Heq). apply H.
      + destruct H as (H1 & H2 & H3). split; [exact H1|]. split; [exact H2|]. intros y. rewrite (chunk_bulk_none q size (rem ++ y) Heq). apply H3.
    - assert (Hlt : rq_chunk_read q < size) by lia.
      destruct (Z_le_gt_dec (size - rq_chunk_read q) (Z.of_nat (length rem))) as [Hfull|Hpart].
      + (* the rest of the chunk is in the buffer *)
        pose proof (chunk_bulk_full q size rem [] Hlt Hfull) as Hb. rewrite !app_nil_r in Hb. rewrite Hb.
        set (k := Z.to_nat (size - rq_chunk_read q)) in *.
        set (q1 := set_body_chunk (rq_body q ++ firstn k rem) (Some size) size q) in *.
        assert (Hinv : cinv q -> cinv q1).
        { intros [Hci Hhl]. split; [|exact Hhl]. unfold chunk_inv, q1. cbn. lia. }
        pose proof (chunk_crlf_spec q1 size (skipn k rem) Hsz eq_refl eq_refl) as H.
        assert (Hlen : (length (skipn k rem) <= length rem)%nat) by (rewrite skipn_length; lia).
        destruct (chunk_crlf q1 size (skipn k rem)) as [q' r'|sf e|q' r'|q' r']; auto.
        * destruct H as (H1 & H2 & H3). split; [auto|]. split; [lia|]. intros y.
          rewrite (chunk_bulk_full q size rem y Hlt Hfull). fold k q1. apply H3.
        * intros y. rewrite (chunk_bulk_full q size rem y Hlt Hfull). fold k q1. apply H.
        * destruct H as (H1 & H2 & H3). split; [auto|]. split; [lia|]. intros y.
          rewrite (chunk_bulk_full q size rem y Hlt Hfull). fold k q1. apply H3.
      + (* only a part of it: everything is taken, the loop ends for now *)
        destruct (chunk_bulk_part q size rem Hlt ltac:(lia)) as [Hb Hby]. cbv zeta in Hb, Hby. rewrite Hb.
        set (q1 := set_body_chunk (rq_body q ++ rem) (Some size) (rq_chunk_read q + Z.of_nat (length rem)) q) in *.
        unfold chunk_crlf. cbn [rq_chunk_read q1 set_body_chunk].
        replace (rq_chunk_read q + Z.of_nat (length rem) =? size) with false by lia.
        cbn [chunk_continue].
        split; [|split].
        * intros [Hci Hhl]. split; [|exact Hhl]. unfold chunk_inv, q1. cbn. lia.
        * simpl. lia.
        * intros y. left. rewrite (Hby y). simpl app.
          destruct y as [|c0 t].
          { unfold chunk_bulk. cbn [rq_chunk_read q1 set_body_chunk].
            replace (rq_chunk_read q + Z.of_nat (length rem) <? size) with true by lia. cbv zeta. simpl length.
            replace (Z.min (size - (rq_chunk_read q + Z.of_nat (length rem))) (Z.of_nat 0)) with 0 by lia.
            simpl. rewrite app_nil_r, Z.add_0_r.
            replace (rq_chunk_read q + Z.of_nat (length rem) =? size) with false by lia. reflexivity. }
          unfold chunk_body. cbn [rq_chunk_size q1 set_body_chunk]. unfold chunk_trailers_or_data.
          replace (size =? 0) with false by lia. reflexivity.
  Qed.

  Lemma headers_finish_zero h : headers_finish (h, 0) = h.
  Proof. destruct h as [l c]. unfold headers_finish. simpl. f_equal. lia. Qed.

  Lemma headers_read_nil w h : headers_read w h [] = Ret false h [].
  Proof. unfold headers_read, run_loop. simpl. now rewrite headers_finish_zero. Qed.

  (* --- trailers (last chunk) or chunk data --- *)
  Lemma ctod_spec q1 size rem : rq_chunk_size q1 = Some size -> 0 <= rq_chunk_read q1 <= size ->
    match chunk_trailers_or_data q1 size rem with
    | Need q' r' =>
      (cinv q1 -> cinv q') /\ (length r' <= length rem)%nat /\
      forall y, chunk_trailers_or_data q1 size (rem ++ y) = chunk_body q' (r' ++ y) \/
                chunk_trailers_or_data q1 size (rem ++ y) = Adv q' (r' ++ y)
    | Fail sf e => forall y, chunk_trailers_or_data q1 size (rem ++ y) = Fail sf e
    | Done q' r' => (cinv q1 -> cinv q') /\ (length r' < length rem)%nat /\
                    forall y, chunk_trailers_or_data q1 size (rem ++ y) = Done q' (r' ++ y)
    | Adv q' r' => (cinv q1 -> cinv q') /\ (length r' < length rem)%nat /\
                   forall y, chunk_trailers_or_data q1 size (rem ++ y) = Adv q' (r' ++ y)
    end.
  Proof.
    intros Hcs Hrd. unfold chunk_trailers_or_data. destruct (size =? 0) eqn:Ez.
    - (* trailers *)
      assert (Hs0 : size = 0) by lia.
      pose proof (headers_read_nowrite_list (rq_headers q1) rem) as Hl.
      destruct (headers_read false (rq_headers q1) rem) as [[|] h r'|e h] eqn:Eh.
      + pose proof (headers_read_resume false (rq_headers q1) rem) as Hr. rewrite Eh in Hr.
        split; [|split].
        * intros [Hci Hhl]. split; [exact Hci | cbn; congruence].
        * eapply headers_read_true_decr; eauto.
        * intros y. now rewrite (Hr y).
      + pose proof (headers_read_resume false (rq_headers q1) rem) as Hr. rewrite Eh in Hr.
        split; [|split].
        * intros [Hci Hhl]. split; [exact Hci | cbn; congruence].
        * eapply headers_read_false_len; eauto.
        * intros y. left. rewrite (Hr y). unfold chunk_body.
          destruct (r' ++ y) as [|c0 t] eqn:Eb.
          { now rewrite headers_read_nil. }
          cbn [rq_chunk_size set_headers]. rewrite Hcs. unfold chunk_trailers_or_data. rewrite Ez.
          cbn [rq_headers set_headers].
          destruct (headers_read false h (c0 :: t)) as [[|] h2 r2|e2 h2]; reflexivity.
      + pose proof (headers_read_resume false (rq_headers q1) rem) as Hr. rewrite Eh in Hr.
        intros y. now rewrite (Hr y).
    - pose proof (chunk_data_spec q1 size rem ltac:(lia) Hcs Hrd) as H.
      destruct (chunk_data q1 size rem); auto. contradiction.
  Qed.

  Lemma digit_value_nonneg base c d : digit_value base c = Some d -> 0 <= d.
  Proof.
    unfold digit_value.
    destruct ((48 <=? c)%N && (c <=? 57)%N)%bool eqn:E1.
    { destruct (Z.of_N c - 48 <? base); intros H; [|discriminate]. injection H as <-.
      apply andb_true_iff in E1. destruct E1 as [E1 _]. apply N.leb_le in E1. lia. }
    destruct ((97 <=? c)%N && (c <=? 122)%N)%bool eqn:E2.
    { destruct (Z.of_N c - 97 + 10 <? base); intros H; [|discriminate]. injection H as <-.
      apply andb_true_iff in E2. destruct E2 as [E2 _]. apply N.leb_le in E2. lia. }
    destruct ((65 <=? c)%N && (c <=? 90)%N)%bool eqn:E3; [|discriminate].
    destruct (Z.of_N c - 65 + 10 <? base); intros H; [|discriminate]. injection H as <-.
    apply andb_true_iff in E3. destruct E3 as [E3 _]. apply N.leb_le in E3. lia.
  Qed.

  Lemma digits_value_nonneg base : 0 <= base -> forall s acc v, 0 <= acc -> digits_value base acc s = Some v -> 0 <= v.
  Proof.
    intros Hb. induction s as [|c s IH]; intros acc v Ha; simpl.
    - intros H. injection H as <-. exact Ha.
    - destruct (digit_value base c) as [d|] eqn:Ed; [|discriminate].
      apply digit_value_nonneg in Ed. apply IH.
      apply Z.add_nonneg_nonneg; [apply Z.mul_nonneg_nonneg; assumption | assumption].
  Qed.

  Lemma to_integral_nonneg tmax base s v : 0 <= base -> to_integral tmax base s = Some v -> 0 <= v.
  Proof.
    intros Hb. unfold to_integral. destruct s as [|c s]; [discriminate|].
    destruct (digits_value base 0 (c :: s)) as [w|] eqn:E; [|discriminate].
    destruct (w <=? tmax); [|discriminate]. intros H. injection H as <-.
    apply (digits_value_nonneg base Hb (c :: s) 0 w); [lia | exact E].
  Qed.

  (* --- one iteration of the chunk loop --- *)
  Lemma chunk_body_spec q r : cinv q ->
    match chunk_body q r with
    | Need q' r' => cinv q' /\ (length r' <= length r)%nat /\
                    forall y, chunk_body q (r ++ y) = chunk_body q' (r' ++ y) \/ chunk_body q (r ++ y) = Adv q' (r' ++ y)
    | Fail sf e => forall y, chunk_body q (r ++ y) = Fail sf e
    | Done q' r' => cinv q' /\ (length r' < length r)%nat /\ forall y, chunk_body q (r ++ y) = Done q' (r' ++ y)
    | Adv q' r' => cinv q' /\ (length r' < length r)%nat /\ forall y, chunk_body q (r ++ y) = Adv q' (r' ++ y)
    end.
  Proof.
    intros Hinv. destruct r as [|c t].
    { simpl. split; [exact Hinv|]. split; [lia|]. intros y. now left. }
    assert (Hbody : forall y, chunk_body q ((c :: t) ++ y) =
                              match rq_chunk_size q with
                              | Some size => chunk_trailers_or_data q size ((c :: t) ++ y)
                              | None =>
                                match read_line MAX_LINE ((c :: t) ++ y) with
                                | RL_None => Need q ((c :: t) ++ y)
                                | RL_TooLong => Fail q BadRequest
                                | RL_Line line rest _ =>
                                  match chunk_size_of_line line with
                                  | None => Fail q BadRequest
                                  | Some size =>
                                    let q1 := set_body_chunk (rq_body q) (Some size) (rq_chunk_read q) q in
                                    let blen := Z.of_nat (length (rq_body q)) in
                                    if (HTTP_MAX_BODY_SIZE <? blen) || (HTTP_MAX_BODY_SIZE - blen <? size) then Fail q1 ContentTooLarge
                                    else chunk_trailers_or_data q1 size rest
                                  end
                                end
                              end).
    { intros y. reflexivity. }
    pose proof (Hbody []) as Hb0. rewrite app_nil_r in Hb0. rewrite Hb0.
    destruct Hinv as [Hci Hhl]. unfold chunk_inv in Hci.
    destruct (rq_chunk_size q) as [size|] eqn:Ecs.
    - pose proof (ctod_spec q size (c :: t) Ecs Hci) as H.
      assert (Hq : cinv q) by (split; [unfold chunk_inv; now rewrite Ecs | exact Hhl]).
      destruct (chunk_trailers_or_data q size (c :: t)) as [q' r'|sf e|q' r'|q' r'].
      + destruct H as (H1 & H2 & H3). split; [auto|]. split; [exact H2|]. intros y. rewrite (Hbody y). apply H3.
      + intros y. rewrite (Hbody y). apply H.
      + destruct H as (H1 & H2 & H3). split; [auto|]. split; [exact H2|]. intros y. rewrite (Hbody y). apply H3.
      + destruct H as (H1 & H2 & H3). split; [auto|]. split; [exact H2|]. intros y. rewrite (Hbody y). apply H3.
    - destruct (read_line MAX_LINE (c :: t)) as [| |l rest n] eqn:El.
      + split; [split; [unfold chunk_inv; now rewrite Ecs | exact Hhl]|]. split; [lia|]. intros y. now left.
      + intros y. rewrite (Hbody y). now rewrite (read_line_toolong_ext _ _ y El).
      + pose proof (read_line_consumed _ _ _ _ _ El) as Hc.
        destruct (chunk_size_of_line l) as [size|] eqn:Esz.
        2:{ intros y. rewrite (Hbody y). rewrite (read_line_line_ext _ _ y _ _ _ El). now rewrite Esz. }
        cbv zeta.
        destruct ((HTTP_MAX_BODY_SIZE <? Z.of_nat (length (rq_body q))) || (HTTP_MAX_BODY_SIZE - Z.of_nat (length (rq_body q)) <? size)) eqn:Ecap.
        { intros y. rewrite (Hbody y). rewrite (read_line_line_ext _ _ y _ _ _ El). rewrite Esz. cbv zeta. now rewrite Ecap. }
        set (q1 := set_body_chunk (rq_body q) (Some size) (rq_chunk_read q) q).
        assert (Hsz : 0 <= size).
        { unfold chunk_size_of_line in Esz. eapply to_integral_nonneg; [|exact Esz]. lia. }
        assert (Hq1 : cinv q1).
        { split; [|exact Hhl]. unfold chunk_inv, q1. cbn. lia. }
        pose proof (ctod_spec q1 size rest eq_refl ltac:(unfold q1; cbn; lia)) as H.
        assert (Hext : forall y, chunk_body q ((c :: t) ++ y) = chunk_trailers_or_data q1 size (rest ++ y)).
        { intros y. rewrite (Hbody y). rewrite (read_line_line_ext _ _ y _ _ _ El). rewrite Esz. cbv zeta. now rewrite Ecap. }
        destruct (chunk_trailers_or_data q1 size rest) as [q' r'|sf e|q' r'|q' r'].
        * destruct H as (H1 & H2 & H3). split; [auto|]. split; [lia|]. intros y. rewrite (Hext y). apply H3.
        * intros y. rewrite (Hext y). apply H.
        * destruct H as (H1 & H2 & H3). split; [auto|]. split; [lia|]. intros y. rewrite (Hext y). apply H3.
        * destruct H as (H1 & H2 & H3). split; [auto|]. split; [lia|]. intros y. rewrite (Hext y). apply H3.
  Qed.

  (* --- the chunk loop --- *)
  Lemma chunk_loop_resume q r y : cinv q ->
    match run_loop chunk_body q r with
    | LFail sf e => run_loop chunk_body q (r ++ y) = LFail sf e
    | LDone q' r' => cinv q' /\ (length r' < length r)%nat /\ run_loop chunk_body q (r ++ y) = LDone q' (r' ++ y)
    | LNeed q' r' => cinv q' /\ (length r' <= length r)%nat /\ run_loop chunk_body q (r ++ y) = run_loop chunk_body q' (r' ++ y)
    | LOutOfFuel => False
    end.
  Proof.
    intros Hinv.
    assert (Hdecr : forall s r0 s' r', cinv s -> chunk_body s r0 = Adv s' r' -> (length r' < length r0)%nat).
    { intros s r0 s' r' Hi E. pose proof (chunk_body_spec s r0 Hi) as H. rewrite E in H. tauto. }
    assert (Hia : forall s r0 s' r', cinv s -> chunk_body s r0 = Adv s' r' -> cinv s').
    { intros s r0 s' r' Hi E. pose proof (chunk_body_spec s r0 Hi) as H. rewrite E in H. tauto. }
    assert (Hin : forall s r0 s' r', cinv s -> chunk_body s r0 = Need s' r' -> cinv s').
    { intros s r0 s' r' Hi E. pose proof (chunk_body_spec s r0 Hi) as H. rewrite E in H. tauto. }
    assert (Hid : forall s r0 s' r', cinv s -> chunk_body s r0 = Done s' r' -> cinv s').
    { intros s r0 s' r' Hi E. pose proof (chunk_body_spec s r0 Hi) as H. rewrite E in H. tauto. }
    pose proof (run_loop_resume chunk_body cinv Hdecr Hia Hin) as H.
    specialize (H (fun s r0 sf e y0 Hi E => ltac:(pose proof (chunk_body_spec s r0 Hi) as H0; rewrite E in H0; exact (H0 y0)))).
    specialize (H (fun s r0 s' r' y0 Hi E => ltac:(pose proof (chunk_body_spec s r0 Hi) as H0; rewrite E in H0; exact (proj2 (proj2 H0) y0)))).
    specialize (H (fun s r0 s' r' y0 Hi E => ltac:(pose proof (chunk_body_spec s r0 Hi) as H0; rewrite E in H0; exact (proj2 (proj2 H0) y0)))).
    specialize (H (fun s r0 s' r' y0 Hi E => ltac:(pose proof (chunk_body_spec s r0 Hi) as H0; rewrite E in H0; exact (proj2 (proj2 H0) y0)))).
    specialize (H q r y Hinv).
    pose proof (loop_inv chunk_body cinv Hia Hin Hid (Datatypes.S (length r)) q r Hinv) as Hinv'.
    fold (run_loop chunk_body q r) in Hinv'.
    destruct (run_loop chunk_body q r) as [q' r'|sf e|q' r'|] eqn:E; auto.
    - destruct H as [_ H]. split; [exact Hinv'|]. split; [|exact H].
      (* Need: nothing was un-consumed *)
      clear - E Hdecr Hia Hinv. unfold run_loop in E.
      remember (Datatypes.S (length r)) as f eqn:Hf. clear Hf.
      revert q r Hinv E.
      induction f as [|f IH]; intros q r Hinv E; simpl in E; [discriminate|].
      destruct (chunk_body q r) as [s1 r1|sf1 e1|s1 r1|s1 r1] eqn:Eb; try discriminate.
      + injection E as <- <-. pose proof (chunk_body_spec q r Hinv) as H. rewrite Eb in H. tauto.
      + pose proof (Hdecr _ _ _ _ Hinv Eb). apply IH in E; [lia | eapply Hia; eauto].
    - split; [exact Hinv'|]. split; [|exact H].
      (* Done consumed something *)
      clear - E Hdecr Hia Hinv. unfold run_loop in E.
      remember (Datatypes.S (length r)) as f eqn:Hf. clear Hf.
      revert q r Hinv E.
      induction f as [|f IH]; intros q r Hinv E; simpl in E; [discriminate|].
      destruct (chunk_body q r) as [s1 r1|sf1 e1|s1 r1|s1 r1] eqn:Eb; try discriminate.
      + injection E as <- <-. pose proof (chunk_body_spec q r Hinv) as H. rewrite Eb in H. tauto.
      + pose proof (Hdecr _ _ _ _ Hinv Eb). apply IH in E; [lia | eapply Hia; eauto].
  Qed.

  (* the body phase never changes the parser state field *)
  Lemma chunk_body_state q r :
    match chunk_body q r with
    | Need q' _ | Done q' _ | Adv q' _ => rq_state q' = rq_state q
    | Fail _ _ => True
    end.
  Proof.
    assert (Hbulk : forall q0 size rem, rq_state (fst (chunk_bulk q0 size rem)) = rq_state q0).
    { intros q0 size rem. unfold chunk_bulk. destruct (rq_chunk_read q0 <? size); reflexivity. }
    assert (Hcrlf : forall q1 size rem1, match chunk_crlf q1 size rem1 with
                                         | Need q' _ | Done q' _ | Adv q' _ => rq_state q' = rq_state q1
                                         | Fail _ _ => True end).
    { intros q1 size rem1. unfold chunk_crlf.
      destruct (rq_chunk_read q1 =? size).
      - destruct (read_line MAX_LINE rem1) as [| |l rest n]; [reflexivity | exact I |].
        destruct l; [|exact I]. destruct rest; reflexivity.
      - destruct rem1; reflexivity. }
    assert (Hctod : forall q1 size rem, match chunk_trailers_or_data q1 size rem with
                                        | Need q' _ | Done q' _ | Adv q' _ => rq_state q' = rq_state q1
                                        | Fail _ _ => True end).
    { intros q1 size rem. unfold chunk_trailers_or_data, chunk_data.
      destruct (size =? 0).
      - destruct (headers_read false (rq_headers q1) rem) as [[|] h r'|e h]; try exact I; reflexivity.
      - pose proof (Hbulk q1 size rem) as Hb. destruct (chunk_bulk q1 size rem) as [q2 rem2]. cbn [fst] in Hb.
        pose proof (Hcrlf q2 size rem2) as Hc. destruct (chunk_crlf q2 size rem2); auto; congruence. }
    unfold chunk_body. destruct r as [|c t]; [reflexivity|].
    destruct (rq_chunk_size q) as [size|]; [apply Hctod|].
    destruct (read_line MAX_LINE (c :: t)) as [| |l rest n]; [reflexivity | exact I |].
    destruct (chunk_size_of_line l) as [size|]; [|exact I]. cbv zeta.
    destruct ((HTTP_MAX_BODY_SIZE <? Z.of_nat (length (rq_body q))) || (HTTP_MAX_BODY_SIZE - Z.of_nat (length (rq_body q)) <? size)); [exact I|].
    apply (Hctod (set_body_chunk (rq_body q) (Some size) (rq_chunk_read q) q) size rest).
  Qed.

  Lemma chunk_loop_state : forall f q r,
    match loop chunk_body f q r with
    | LNeed q' _ | LDone q' _ => rq_state q' = rq_state q
    | _ => True
    end.
  Proof.
    induction f as [|f IH]; intros q r; simpl; [exact I|].
    pose proof (chunk_body_state q r) as H.
    destruct (chunk_body q r) as [s1 r1|sf1 e1|s1 r1|s1 r1]; auto.
    specialize (IH s1 r1). destruct (loop chunk_body f s1 r1); auto; congruence.
  Qed.
End Chunk.
