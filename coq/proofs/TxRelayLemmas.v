(* C39 (relay part): a GETDATA is answered from the mempool only for transactions that entered the mempool before the peer's last
   announcement snapshot, for all interleavings of mempool changes, blocks, new peers, snapshots and requests. *)
From BV Require Import lib.Ints model.TxRelay.
Local Open Scope Z_scope.

Lemma filter_len_le {A} (f : A -> bool) l : (length (filter f l) <= length l)%nat.
Proof. induction l; simpl; [lia|]. destruct (f a); simpl; lia. Qed.
Lemma find_entry_In tx l e : find_entry tx l = Some e -> In e l /\ m_tx e = tx.
Proof. induction l as [|x r IH]; simpl; [discriminate|]. destruct (m_tx x =? tx) eqn:E.
  - intros H. injection H as <-. apply Z.eqb_eq in E. auto.
  - intros H. destruct (IH H). auto. Qed.
Lemma find_peer_In p l x : find_peer p l = Some x -> In x l /\ pr_id x = p.
Proof. induction l as [|y r IH]; simpl; [discriminate|]. destruct (pr_id y =? p) eqn:E.
  - intros H. injection H as <-. apply Z.eqb_eq in E. auto.
  - intros H. destruct (IH H). auto. Qed.

(* the mempool sequence counter is a uint64 that starts at 1: it does not wrap within 2^64 - 2 events *)
Definition seq_ok (s : rst) : Prop := r_seq s + Z.of_nat (length (r_pool s)) < UINT64_MAX.

Record RInv (s : rst) : Prop := mkRInv {
  R_seq : 1 <= r_seq s;
  R_pool : forall e, In e (r_pool s) -> 0 <= m_seq e < r_seq s /\ m_time e < r_clock s;
  R_peer : forall x, In x (r_peers s) -> 1 <= pr_last_inv x <= r_seq s /\ (forall T, pr_snap x = Some T -> T < r_clock s);
  (* the sequence numbers order admissions and snapshots the way the clock does *)
  R_link : forall e x, In e (r_pool s) -> In x (r_peers s) -> m_seq e <> 0 ->
             (m_seq e < pr_last_inv x <-> exists T, pr_snap x = Some T /\ m_time e < T)
}.

Lemma RInv_init s0 : 1 <= s0 -> RInv (rinit_at s0).
Proof. intros H. constructor; simpl; try lia; intros; contradiction. Qed.

Lemma rstep_inv s ev : RInv s -> seq_ok s -> RInv (rstep s ev).
Proof.
  intros [A B C D] OK. unfold seq_ok, UINT64_MAX in OK.
  assert (W : wrapu64 (r_seq s + 1) = r_seq s + 1) by (apply wrapu64_id; unfold UINT64_MAX; lia).
  assert (WB : forall f, wrapu64 (r_seq s + Z.of_nat (length (filter f (r_pool s)))) = r_seq s + Z.of_nat (length (filter f (r_pool s)))).
  { intros f. apply wrapu64_id. pose proof (filter_len_le f (r_pool s)). unfold UINT64_MAX. lia. }
  destruct ev as [tx bypass|tx|txs|p|p|tx]; unfold rstep.
  - destruct (find_entry tx (r_pool s)) as [e0|] eqn:F.
    + constructor; simpl; auto.
      * intros e I. destruct (B e I). lia.
      * intros x I. destruct (C x I) as [Q1 Q2]. split; auto. intros T H. specialize (Q2 T H). lia.
    + rewrite W. constructor; simpl; try lia.
      * intros e [<-|I]; simpl; [destruct bypass; lia|]. destruct (B e I). lia.
      * intros x I. destruct (C x I) as [Q1 Q2]. split; [lia|]. intros T H. specialize (Q2 T H). lia.
      * intros e x [<-|I] Ix NZ; [|apply D; auto]. simpl in *. destruct (C x Ix) as [Q1 Q2]. destruct bypass; [congruence|]. split; [lia|].
        intros (T & H & L). specialize (Q2 T H). lia.
  - assert (SUB : forall e, In e (filter (fun x => negb (m_tx x =? tx)) (r_pool s)) -> In e (r_pool s)) by (intros e I; apply filter_In in I; tauto).
    constructor; simpl.
    + destruct (find_entry tx (r_pool s)); [rewrite W|]; lia.
    + intros e I. destruct (B e (SUB e I)). destruct (find_entry tx (r_pool s)); [rewrite W|]; lia.
    + intros x I. destruct (C x I) as [Q1 Q2]. split; [destruct (find_entry tx (r_pool s)); [rewrite W|]; lia|]. intros T H. specialize (Q2 T H). lia.
    + intros e x I Ix NZ. apply D; auto.
  - assert (SUB : forall e, In e (filter (fun x => negb (mem (m_tx x) txs)) (r_pool s)) -> In e (r_pool s)) by (intros e I; apply filter_In in I; tauto).
    rewrite WB. set (n := Z.of_nat (length (filter (fun x => mem (m_tx x) txs) (r_pool s)))). assert (0 <= n) by (unfold n; lia).
    constructor; simpl.
    + lia.
    + intros e I. destruct (B e (SUB e I)). lia.
    + intros x I. destruct (C x I) as [Q1 Q2]. split; [lia|]. intros T HH. specialize (Q2 T HH). lia.
    + intros e x I Ix NZ. apply D; auto.
  - destruct (find_peer p (r_peers s)) as [x0|] eqn:F.
    + constructor; simpl; auto.
      * intros e I. destruct (B e I). lia.
      * intros x I. destruct (C x I) as [Q1 Q2]. split; auto. intros T H. specialize (Q2 T H). lia.
    + constructor; simpl; auto.
      * intros e I. destruct (B e I). lia.
      * intros x [<-|I]; simpl; [split; [lia | intros T H; discriminate]|]. destruct (C x I) as [Q1 Q2]. split; auto. intros T H. specialize (Q2 T H). lia.
      * intros e x I [<-|Ix] NZ; [|apply D; auto]. simpl. destruct (B e I). split; [lia | intros (T & HH & _); discriminate].
  - constructor; simpl; auto.
    + intros e I. destruct (B e I). lia.
    + intros x I. apply in_map_iff in I. destruct I as (y & E & I). destruct (pr_id y =? p); subst x; simpl.
      * split; [lia|]. intros T H. injection H as <-. lia.
      * destruct (C y I) as [Q1 Q2]. split; auto. intros T H. specialize (Q2 T H). lia.
    + intros e x I Ix NZ. apply in_map_iff in Ix. destruct Ix as (y & E & Iy). destruct (pr_id y =? p); subst x; simpl.
      * destruct (B e I). split; [intros _; exists (r_clock s); split; auto; lia | intros _; lia].
      * apply D; auto.
  - constructor; simpl; auto.
    + intros e I. destruct (B e I). lia.
    + intros x I. destruct (C x I) as [Q1 Q2]. split; auto. intros T H. specialize (Q2 T H). lia.
Qed.

Inductive rreach : rst -> Prop :=
| rreach_init s0 : 1 <= s0 -> rreach (rinit_at s0)
| rreach_step s ev : rreach s -> seq_ok s -> rreach (rstep s ev).

Lemma rreach_inv s : rreach s -> RInv s.
Proof. induction 1; [apply RInv_init; auto | apply rstep_inv; auto]. Qed.

(* The exact rule: the request is answered iff the peer has a TxRelay and (the transaction is in the mempool with
   entry sequence < m_last_inv_sequence, or it is in the most recent block). *)
Lemma serve_rule s p tx : serve_getdata s p tx = true <->
  exists x, find_peer p (r_peers s) = Some x /\
            ((exists e, find_entry tx (r_pool s) = Some e /\ m_seq e < pr_last_inv x) \/ mem tx (r_recent s) = true).
Proof.
  unfold serve_getdata. destruct (find_peer p (r_peers s)) as [x|]; [|split; [discriminate | intros (x & H & _); discriminate]].
  rewrite orb_true_iff. split.
  - intros [H|H]; exists x; split; auto. destruct (find_entry tx (r_pool s)) as [e|]; [|discriminate]. apply Z.ltb_lt in H. left. eauto.
  - intros (y & E & [(e & F & L)|H]); injection E as <-; [left; rewrite F; apply Z.ltb_lt; auto | right; auto].
Qed.

(* A served unconfirmed transaction was re-added from a disconnected block (entry sequence 0), or entered the mempool before the
   last announcement snapshot of that peer, or is in the most recent block. *)
Theorem served_only_if_announced_or_recent s p tx : rreach s -> serve_getdata s p tx = true ->
  mem tx (r_recent s) = true \/
  exists x e, find_peer p (r_peers s) = Some x /\ find_entry tx (r_pool s) = Some e /\
              (m_seq e = 0 \/ exists T, pr_snap x = Some T /\ m_time e < T).
Proof.
  intros R S. apply rreach_inv in R. apply serve_rule in S. destruct S as (x & FP & [(e & FE & L)|H]); [|auto].
  right. exists x, e. split; [auto|]. split; [auto|]. destruct (Z.eq_dec (m_seq e) 0) as [Z0|NZ]; [auto|]. right.
  destruct (find_entry_In _ _ _ FE) as [Ie _]. destruct (find_peer_In _ _ _ FP) as [Ix _]. apply (R_link s R e x Ie Ix NZ). auto.
Qed.

(* Conversely a transaction still in the mempool that was admitted before the peer's last snapshot is served. *)
Theorem served_if_announced s p tx x e T : rreach s ->
  find_peer p (r_peers s) = Some x -> find_entry tx (r_pool s) = Some e -> pr_snap x = Some T -> m_time e < T ->
  serve_getdata s p tx = true.
Proof.
  intros R FP FE SN L. apply rreach_inv in R. apply serve_rule. exists x. split; auto. left. exists e. split; auto.
  destruct (find_entry_In _ _ _ FE) as [Ie _]. destruct (find_peer_In _ _ _ FP) as [Ix _].
  destruct (Z.eq_dec (m_seq e) 0) as [Z0|NZ]; [destruct (R_peer s R x Ix); lia|]. apply (R_link s R e x Ie Ix NZ). eauto.
Qed.

(* A transaction admitted (not from a disconnected block) after the peer's last snapshot is NOT served from the mempool. *)
Theorem not_served_if_admitted_after_snapshot s p tx x e : rreach s ->
  find_peer p (r_peers s) = Some x -> find_entry tx (r_pool s) = Some e -> m_seq e <> 0 ->
  (forall T, pr_snap x = Some T -> T <= m_time e) -> mem tx (r_recent s) = false -> serve_getdata s p tx = false.
Proof.
  intros R FP FE NZ LATE NR. destruct (serve_getdata s p tx) eqn:S; auto. exfalso.
  destruct (served_only_if_announced_or_recent s p tx R S) as [H|(x' & e' & FP' & FE' & [Z0|(T & SN & L)])]; [congruence| |];
    rewrite FP in FP'; injection FP' as <-; rewrite FE in FE'; injection FE' as <-; [congruence|]. specialize (LATE T SN). lia.
Qed.

(* Only the admission event puts a transaction into the mempool: a privately broadcast transaction (EPrivate) stays out of it, and so
   out of reach of GETDATA on ordinary connections, until it is received back from the network or submitted normally (EAdd). *)
Theorem pool_grows_only_by_admission s ev tx e :
  find_entry tx (r_pool (rstep s ev)) = Some e -> find_entry tx (r_pool s) = None -> exists b, ev = EAdd tx b.
Proof.
  assert (FF : forall f l, find_entry tx (filter f l) = Some e -> find_entry tx l = None -> False).
  { intros f l. induction l as [|x r IH]; simpl; [discriminate|]. destruct (f x); simpl; destruct (m_tx x =? tx); try discriminate; auto. }
  destruct ev as [t bypass|t|txs|p|p|t]; unfold rstep; simpl.
  - destruct (find_entry t (r_pool s)) eqn:F; simpl; [congruence|]. destruct (t =? tx) eqn:E; [apply Z.eqb_eq in E; subst; eauto | congruence].
  - intros A B. exfalso. eapply FF; eauto.
  - intros A B. exfalso. eapply FF; eauto.
  - destruct (find_peer p (r_peers s)); simpl; congruence.
  - congruence.
  - congruence.
Qed.
Theorem private_submission_not_served s p tx : find_entry tx (r_pool s) = None -> mem tx (r_recent s) = false ->
  serve_getdata (rstep s (EPrivate tx)) p tx = false.
Proof. intros F M. unfold serve_getdata, rstep. simpl. destruct (find_peer p (r_peers s)); auto. rewrite F, M. reflexivity. Qed.
