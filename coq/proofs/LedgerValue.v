(* Value accounting of ConnectBlock (C01, one block): the 64-bit sums do not wrap under the
   guards, every accepted transaction spends at least what it creates, the coinbase is bounded by
   subsidy + fees, and the total of the view grows by at most the subsidy. *)
From BV Require Import lib.Ints gen.Params_gen model.Amount model.Ledger proofs.AmountLemmas proofs.LedgerMap proofs.LedgerConnect.
From BV Require model.TxCheck proofs.TxCheckLemmas.
Local Open Scope Z_scope.

Lemma max_money_val : MAX_MONEY = 2100000000000000.
Proof. vm_compute. reflexivity. Qed.
Lemma money_range_iff v : money_range v = true <-> 0 <= v <= MAX_MONEY.
Proof. unfold money_range. lia. Qed.
Lemma wrap64_money a b : 0 <= a <= MAX_MONEY -> 0 <= b <= MAX_MONEY -> wrap64 (a + b) = a + b.
Proof. intros Ha Hb. apply wrap64_id. rewrite max_money_val in *. unfold INT64_MIN, INT64_MAX. lia. Qed.
Lemma wrap64_money_sub a b : 0 <= a <= MAX_MONEY -> 0 <= b <= MAX_MONEY -> wrap64 (a - b) = a - b.
Proof. intros Ha Hb. apply wrap64_id. rewrite max_money_val in *. unfold INT64_MIN, INT64_MAX. lia. Qed.

(* ---- GetValueOut: the running sum never wraps and equals the sum of the outputs ---- *)
Lemma value_out_from_spec acc outs v :
  0 <= acc <= MAX_MONEY -> value_out_from acc outs = Some v ->
  v = acc + zsum (map o_value outs) /\ 0 <= v <= MAX_MONEY /\ (forall o, In o outs -> 0 <= o_value o <= MAX_MONEY).
Proof.
  revert acc. induction outs as [|o r IH]; intros acc Hacc; cbn [value_out_from map zsum].
  - intros H. injection H as <-. split; [lia|]. split; [exact Hacc|intros o []].
  - destruct (money_range (o_value o)) eqn:E1; cbn [negb orb]; [|discriminate].
    apply money_range_iff in E1. rewrite wrap64_money by assumption.
    destruct (money_range (acc + o_value o)) eqn:E2; cbn [negb]; [|discriminate].
    apply money_range_iff in E2. intros H. destruct (IH _ E2 H) as [Hv [Hr Ho]].
    split; [lia|]. split; [exact Hr|]. intros o' [<-|Ho']; [exact E1|apply Ho; exact Ho'].
Qed.
Lemma get_value_out_spec t v :
  get_value_out t = Some v -> v = sum_out t /\ 0 <= v <= MAX_MONEY /\ (forall o, In o (t_out t) -> 0 <= o_value o <= MAX_MONEY).
Proof.
  unfold get_value_out, sum_out. intros H. apply value_out_from_spec in H; [|rewrite max_money_val; lia].
  destruct H as [Hv H]. split; [lia|exact H].
Qed.
Lemma value_out_from_ok acc outs :
  0 <= acc -> (forall o, In o outs -> 0 <= o_value o <= MAX_MONEY) -> acc + zsum (map o_value outs) <= MAX_MONEY ->
  value_out_from acc outs = Some (acc + zsum (map o_value outs)).
Proof.
  revert acc. induction outs as [|o r IH]; intros acc Hacc Hv Hs; cbn [value_out_from map zsum] in *.
  - f_equal. lia.
  - assert (Ho : 0 <= o_value o <= MAX_MONEY) by (apply Hv; left; reflexivity).
    assert (Hr : 0 <= zsum (map o_value r)).
    { clear -Hv. induction r as [|x r IH]; cbn [map zsum]; [lia|].
      assert (0 <= o_value x <= MAX_MONEY) by (apply Hv; right; left; reflexivity).
      assert (0 <= zsum (map o_value r)) by (apply IH; intros o' [Hq|Hq]; apply Hv; [left; exact Hq|right; right; exact Hq]). lia. }
    rewrite wrap64_money by lia.
    assert (E1 : money_range (o_value o) = true) by (apply money_range_iff; exact Ho).
    assert (E2 : money_range (acc + o_value o) = true) by (apply money_range_iff; lia).
    rewrite E1, E2. cbn [negb orb]. rewrite IH; [f_equal; lia|lia|intros o' Ho'; apply Hv; right; exact Ho'|lia].
Qed.
Lemma tx_ok_value_out t : tx_ok t -> get_value_out t = Some (sum_out t).
Proof.
  intros [_ [_ [Hv Hs]]]. unfold get_value_out, sum_out in *. rewrite value_out_from_ok; [reflexivity|lia|exact Hv|lia].
Qed.

(* ---- the input loop of CheckTxInputs ---- *)
Definition coin_values (u : utxo) (ins : list lin) : list Z := map (fun i => val_of (lookup u (i_prev i))) ins.
(* all partial sums of a list, starting from acc, stay in [0, MAX_MONEY] *)
Fixpoint partial_sums_ok (acc : Z) (l : list Z) : Prop :=
  match l with [] => True | x :: r => 0 <= acc + x <= MAX_MONEY /\ partial_sums_ok (acc + x) r end.

Lemma inputs_loop_spec u h acc ins v :
  0 <= acc <= MAX_MONEY -> inputs_loop u h acc ins = Ok v ->
  v = acc + zsum (coin_values u ins) /\ 0 <= v <= MAX_MONEY /\
  partial_sums_ok acc (coin_values u ins) /\
  (forall i, In i ins -> exists c, lookup u (i_prev i) = Some c /\ 0 <= c_value c <= MAX_MONEY /\
                                  (c_cb c = true -> COINBASE_MATURITY <= wrap32 (h - c_height c))).
Proof.
  revert acc. induction ins as [|i r IH]; intros acc Hacc; cbn [inputs_loop coin_values map zsum partial_sums_ok].
  - intros H. injection H as <-. split; [lia|]. split; [exact Hacc|]. split; [exact I|intros i []].
  - destruct (lookup u (i_prev i)) as [c|] eqn:El; [|discriminate]. cbn [val_of].
    destruct (c_cb c && (wrap32 (h - c_height c) <? COINBASE_MATURITY)) eqn:Em; [discriminate|].
    destruct (money_range (c_value c)) eqn:E1; cbn [negb orb]; [|discriminate].
    apply money_range_iff in E1. rewrite wrap64_money by assumption.
    destruct (money_range (acc + c_value c)) eqn:E2; cbn [negb]; [|discriminate].
    apply money_range_iff in E2. intros H. destruct (IH _ E2 H) as [Hv [Hr [Hp Hi]]].
    fold (coin_values u r) in *. split; [lia|]. split; [exact Hr|]. split; [split; assumption|].
    intros j [<-|Hj]; [|apply Hi; exact Hj]. exists c. split; [exact El|]. split; [exact E1|].
    intros Hcb. rewrite Hcb in Em. cbn [andb] in Em. lia.
Qed.

(* CheckTxInputs accepted: in >= out, fee = in - out computed without wrapping *)
Lemma check_tx_inputs_spec u t h fee :
  is_cb t = false -> check_tx_inputs u t h = Ok fee ->
  (forall i, In i (t_in t) -> in_dom u (i_prev i)) /\
  partial_sums_ok 0 (coin_values u (t_in t)) /\
  0 <= sum_out t <= value_in u t /\ value_in u t <= MAX_MONEY /\
  fee = value_in u t - sum_out t /\ 0 <= fee <= MAX_MONEY /\
  (forall o, In o (t_out t) -> 0 <= o_value o <= MAX_MONEY).
Proof.
  intros Ecb. unfold check_tx_inputs, have_inputs. rewrite Ecb.
  destruct (forallb _ (t_in t)) eqn:Eh; cbn [negb]; [|discriminate].
  destruct (inputs_loop u h 0 (t_in t)) as [vin|] eqn:Ei; [|discriminate].
  destruct (get_value_out t) as [vout|] eqn:Eo; [|discriminate].
  destruct (vin <? vout) eqn:Eb; [discriminate|].
  apply inputs_loop_spec in Ei; [|rewrite max_money_val; lia]. destruct Ei as [Hv [Hr [Hp Hi]]].
  apply get_value_out_spec in Eo. destruct Eo as [Hvo [Hro Hov]].
  rewrite wrap64_money_sub by assumption.
  destruct (money_range (vin - vout)) eqn:Ef; cbn [negb]; [|discriminate].
  apply money_range_iff in Ef. intros H. injection H as <-.
  assert (Hvi : value_in u t = vin) by (unfold value_in; fold (coin_values u (t_in t)); lia).
  split.
  { intros i Hin. rewrite forallb_forall in Eh. specialize (Eh i Hin). unfold have_coin in Eh. unfold in_dom.
    destruct (lookup u (i_prev i)); [discriminate|discriminate]. }
  split; [exact Hp|]. rewrite Hvi. subst vout. split; [lia|]. split; [lia|]. split; [reflexivity|]. split; [lia|exact Hov].
Qed.

(* ---- totals ---- *)
Lemma add_outputs_total_le u txid h cb n outs u2 :
  sorted u -> all_coins (fun c => 0 <= c_value c) u -> (forall o, In o outs -> 0 <= o_value o) ->
  add_outputs u txid h cb n outs = Some u2 -> total u2 <= total u + zsum (map o_value outs).
Proof.
  revert u n. induction outs as [|o r IH]; intros u n Hs Hc Hv; cbn [add_outputs map zsum].
  - intros H. injection H as <-. lia.
  - assert (Ho : 0 <= o_value o) by (apply Hv; left; reflexivity).
    assert (Hv' : forall o', In o' r -> 0 <= o_value o') by (intros o' Ho'; apply Hv; right; exact Ho').
    destruct (o_spendable o); cbn [negb].
    + destruct (have_coin u (txid, n) && negb cb); [discriminate|]. intros H.
      assert (Hoc : 0 <= c_value (mk_coin o h cb)) by exact Ho.
      pose proof (IH _ _ (sorted_add _ _ _ Hs) (all_coins_add (fun c => 0 <= c_value c) _ _ _ Hc Hoc) Hv' H) as Hle.
      rewrite total_add in Hle by exact Hs. cbn [mk_coin c_value] in Hle.
      assert (0 <= val_of (lookup u (txid, n))).
      { destruct (lookup u (txid, n)) eqn:E; cbn [val_of]; [apply (Hc _ _ E)|lia]. }
      lia.
    + intros H. pose proof (IH _ _ Hs Hc Hv' H). lia.
Qed.

Lemma forall2_lookup_values u (l : list outpoint) cs :
  Forall2 (fun o c => lookup u o = Some c) l cs -> zsum (map c_value cs) = zsum (map (fun o => val_of (lookup u o)) l).
Proof. induction 1 as [|o c l cs H F IH]; cbn [map zsum]; [reflexivity|]. rewrite H, IH. reflexivity. Qed.

Lemma nonneg_of_ok u : all_coins coin_ok u -> all_coins (fun c => 0 <= c_value c) u.
Proof. intros H o c Hl. destruct (H o c Hl) as [Hv _]. lia. Qed.

(* one transaction: the total moves by created - spent; created <= sum of the outputs *)
Lemma update_coins_total u t h u2 spent :
  wf_utxo u -> (forall o, In o (t_out t) -> 0 <= o_value o) -> update_coins u t h = Ok (u2, spent) ->
  total u2 <= total u - (if is_cb t then 0 else value_in u t) + sum_out t.
Proof.
  intros [Hs Hc] Hv. unfold update_coins. destruct (is_cb t) eqn:Ecb.
  - destruct (add_outputs u (t_id t) h true 0 (t_out t)) as [u2'|] eqn:Ea; [|discriminate].
    intros H. injection H as <- <-. pose proof (add_outputs_total_le _ _ _ _ _ _ _ Hs (nonneg_of_ok _ Hc) Hv Ea). unfold sum_out. lia.
  - destruct (spend_inputs u (t_in t)) as [[u1 cs]|] eqn:Esp; [|discriminate].
    destruct (add_outputs u1 (t_id t) h false 0 (t_out t)) as [u2'|] eqn:Ea; [|discriminate].
    intros H. injection H as <- <-.
    destruct (spend_inputs_spec _ _ _ _ Hs Esp) as [S1 [_ [L1 [F1 T1]]]].
    assert (Hc1 : all_coins (fun c => 0 <= c_value c) u1).
    { intros k c. rewrite L1. destruct (existsb _ _); [discriminate|]. intros Hl. apply (nonneg_of_ok _ Hc _ _ Hl). }
    pose proof (add_outputs_total_le _ _ _ _ _ _ _ S1 Hc1 Hv Ea) as Hle.
    assert (Hvi : zsum (map c_value cs) = value_in u t).
    { unfold value_in. clear -F1. induction F1 as [|i c l cs' H F IH]; cbn [map zsum]; [reflexivity|]. rewrite H, IH. reflexivity. }
    unfold sum_out. lia.
Qed.

(* the loop over the transactions after the coinbase: what leaves the view is at least the fees *)
Lemma tx_loop_total cf h txs : forall u fees sf u' f s undo,
  wf_utxo u -> 0 < h -> 0 <= fees <= MAX_MONEY ->
  Forall (fun t => is_cb t = false) txs ->
  tx_loop cf h false u fees sf txs = Ok (u', f, s, undo) ->
  total u' + f <= total u + fees /\ 0 <= f <= MAX_MONEY /\ f = fees + fees_of u txs h.
Proof.
  induction txs as [|t r IH]; intros u fees sf u' f s undo Hwf Hh Hfees Hncb.
  - cbn [tx_loop fees_of]. intros H. injection H as <- <- <- <-. lia.
  - intros H. apply tx_loop_cons in H. destruct H as [fees' [u1 [spent [u2 [f2 [s2 [undo2 [Hf [_ [Hu [Hl Hres]]]]]]]]]]].
    cbn in Hres. injection Hres as -> -> -> ->.
    inversion Hncb as [|? ? Hcb Hncb']; subst.
    unfold tx_fees in Hf. rewrite Hcb in Hf.
    destruct (check_tx_inputs u t h) as [fee|] eqn:Ec; [|discriminate].
    destruct (check_tx_inputs_spec _ _ _ _ Hcb Ec) as [_ [_ [Hso [Hvi [Hfee [Hfr Hov]]]]]].
    rewrite wrap64_money in Hf by assumption.
    destruct (money_range (fees + fee)) eqn:Em; cbn [negb] in Hf; [|discriminate].
    apply money_range_iff in Em. injection Hf as <-.
    pose proof (update_coins_wf _ _ _ _ _ Hwf Hh Hov Hu) as Hwf1.
    assert (Hov' : forall o, In o (t_out t) -> 0 <= o_value o) by (intros o Ho; apply Hov in Ho; lia).
    pose proof (update_coins_total _ _ _ _ _ Hwf Hov' Hu) as Ht. rewrite Hcb in Ht.
    destruct (IH _ _ _ _ _ _ _ Hwf1 Hh Em Hncb' Hl) as [Ht2 [Hf2 Hfe]].
    split; [lia|]. split; [exact Hf2|]. cbn [fees_of]. rewrite Hcb, Hu. lia.
Qed.

Lemma subsidy_range interval h : 0 < interval -> 0 <= h -> 0 <= get_block_subsidy interval h <= 50 * 100000000.
Proof.
  intros Hi Hh. rewrite get_block_subsidy_spec by assumption.
  split; [apply subsidy_spec_nonneg; assumption|apply subsidy_spec_le_initial; assumption].
Qed.
Lemma reward_no_wrap interval h fees :
  0 < interval -> 0 <= h -> 0 <= fees <= MAX_MONEY ->
  wrap64 (fees + get_block_subsidy interval h) = fees + get_block_subsidy interval h.
Proof.
  intros Hi Hh Hf. pose proof (subsidy_range _ _ Hi Hh). apply wrap64_id. rewrite max_money_val in *.
  unfold INT64_MIN, INT64_MAX. lia.
Qed.

(* C01 (a) + (b), one block *)
Theorem connect_block_value cf u b h u' undo :
  wf_utxo u -> 0 < cf_interval cf -> 0 < h ->
  connect_block cf u b h = Ok (u', undo) ->
  exists cbt rest, b = cbt :: rest /\
    sum_out cbt <= get_block_subsidy (cf_interval cf) h + fees_of u b h /\
    0 <= fees_of u b h <= MAX_MONEY /\
    total u' <= total u + get_block_subsidy (cf_interval cf) h - (get_block_subsidy (cf_interval cf) h + fees_of u b h - sum_out cbt).
Proof.
  intros Hwf Hi Hh Hc. apply connect_block_inv in Hc.
  destruct Hc as [Hcb [_ [fees [sf [cb_out [Hl [[cbt0 [rest0 [Eb Hvo]]] [Hle _]]]]]]]].
  destruct (check_block_none _ Hcb) as [cbt [rest [-> [Ecb [Hncb Hok]]]]]. injection Eb as <- <-.
  apply tx_loop_cons in Hl. destruct Hl as [fees' [u1 [spent [u2 [f2 [s2 [undo2 [Hf [_ [Hu [Hl Hres]]]]]]]]]]].
  cbn in Hres. injection Hres as -> -> -> ->.
  unfold tx_fees in Hf. rewrite Ecb in Hf. injection Hf as <-.
  inversion Hok as [|? ? Hcbok Hok']; subst. destruct Hcbok as [_ [_ [Hv _]]].
  pose proof (update_coins_wf _ _ _ _ _ Hwf Hh Hv Hu) as Hwf1.
  assert (Hv' : forall o, In o (t_out cbt) -> 0 <= o_value o) by (intros o Ho; apply Hv in Ho; lia).
  pose proof (update_coins_total _ _ _ _ _ Hwf Hv' Hu) as Ht1. rewrite Ecb in Ht1.
  assert (H0 : 0 <= 0 <= MAX_MONEY) by (rewrite max_money_val; lia).
  destruct (tx_loop_total _ _ _ _ _ _ _ _ _ _ Hwf1 Hh H0 Hncb Hl) as [Ht2 [Hfr Hfe]].
  rewrite reward_no_wrap in Hle by (try assumption; lia).
  apply get_value_out_spec in Hvo. destruct Hvo as [-> _].
  exists cbt, rest. split; [reflexivity|]. cbn [fees_of]. rewrite Ecb, Hu. lia.
Qed.

Corollary connect_total cf u b h u' undo :
  wf_utxo u -> 0 < cf_interval cf -> 0 < h ->
  connect_block cf u b h = Ok (u', undo) -> total u' <= total u + get_block_subsidy (cf_interval cf) h.
Proof.
  intros Hwf Hi Hh Hc. destruct (connect_block_value _ _ _ _ _ _ Hwf Hi Hh Hc) as [cbt [rest [_ [H1 [_ H2]]]]]. lia.
Qed.
