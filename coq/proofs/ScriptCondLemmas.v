(* ConditionStack (model/Script.v: cond_push / cond_pop / cond_toggle on the pair size, first-false position)
   implements a stack of booleans of which only "empty?" and "all true?" are observable.
   Also: rule-level facts about the VerifyScript model (P2SH needs a push-only scriptSig, CLEANSTACK, witness malleation). *)
From BV Require Import lib.Ints gen.Params_gen model.Script model.ScriptVerify
  proofs.ScriptNumLemmas proofs.ScriptLemmas proofs.ScriptInvLemmas.
Local Open Scope Z_scope.

(* position, counted from the bottom, of the bottom-most false of a stack of booleans (top first); NO_FALSE if none *)
Fixpoint ff_of (vf : list bool) : Z :=
  match vf with
  | [] => NO_FALSE
  | b :: r => if ff_of r =? NO_FALSE then (if b then NO_FALSE else lenz r) else ff_of r
  end.
(* the state's condition stack represents vf *)
Definition cond_rep (vf : list bool) (st : state) : Prop :=
  st_cond_size st = lenz vf /\ st_cond_ff st = ff_of vf.

Lemma ff_of_range vf : lenz vf < NO_FALSE -> ff_of vf = NO_FALSE \/ 0 <= ff_of vf < lenz vf.
Proof.
  induction vf as [|b r IH]; intros Hl; [left; reflexivity|].
  rewrite lenz_cons in Hl. pose proof (lenz_nonneg r). specialize (IH ltac:(lia)). cbn [ff_of]. rewrite lenz_cons.
  destruct (ff_of r =? NO_FALSE) eqn:E.
  - destruct b; [left; reflexivity|right; lia].
  - right. destruct IH as [IH|IH]; lia.
Qed.

Lemma ff_of_all_true vf : lenz vf < NO_FALSE -> (ff_of vf =? NO_FALSE) = forallb (fun b => b) vf.
Proof.
  induction vf as [|b r IH]; intros Hl; [reflexivity|].
  rewrite lenz_cons in Hl. pose proof (lenz_nonneg r). specialize (IH ltac:(lia)). cbn [ff_of forallb].
  destruct (ff_of r =? NO_FALSE) eqn:E.
  - rewrite <- IH. destruct b; cbn; [reflexivity|]. unfold NO_FALSE in *. lia.
  - rewrite <- IH. rewrite E. destruct b; reflexivity.
Qed.

Theorem cond_rep_observables vf st : lenz vf < NO_FALSE -> cond_rep vf st ->
  cond_all_true st = forallb (fun b => b) vf /\ cond_empty st = match vf with [] => true | _ => false end.
Proof.
  intros Hl [Hs Hf]. unfold cond_all_true, cond_empty. rewrite Hs, Hf. split; [apply ff_of_all_true; exact Hl|].
  destruct vf; [reflexivity|]. rewrite lenz_cons. pose proof (lenz_nonneg vf). lia.
Qed.

Theorem cond_rep_push vf st b : lenz vf + 1 < NO_FALSE -> cond_rep vf st -> cond_rep (b :: vf) (cond_push st b).
Proof.
  intros Hl [Hs Hf]. pose proof (lenz_nonneg vf). unfold cond_rep, cond_push. cbn [st_cond_size st_cond_ff set_cond ff_of].
  rewrite Hs, Hf, lenz_cons. split.
  - apply wrapu32_id. unfold NO_FALSE, UINT32_MAX in *. lia.
  - destruct (ff_of vf =? NO_FALSE) eqn:E; destruct b; cbn [andb negb]; try reflexivity; lia.
Qed.

Theorem cond_rep_pop vf st b : lenz vf + 1 < NO_FALSE -> cond_rep (b :: vf) st -> cond_rep vf (cond_pop st).
Proof.
  intros Hl [Hs Hf]. pose proof (lenz_nonneg vf). unfold cond_rep, cond_pop. cbn [st_cond_size st_cond_ff set_cond].
  rewrite Hs, Hf, lenz_cons. cbn [ff_of]. split; [lia|].
  replace (lenz vf + 1 - 1) with (lenz vf) by lia.
  pose proof (ff_of_range vf ltac:(lia)) as Hr.
  destruct (ff_of vf =? NO_FALSE) eqn:E.
  - destruct b.
    + destruct (NO_FALSE =? lenz vf) eqn:E2; lia.
    + rewrite Z.eqb_refl. lia.
  - destruct (ff_of vf =? lenz vf) eqn:E2; lia.
Qed.

Theorem cond_rep_toggle vf st b : lenz vf + 1 < NO_FALSE -> cond_rep (b :: vf) st -> cond_rep (negb b :: vf) (cond_toggle st).
Proof.
  intros Hl [Hs Hf]. pose proof (lenz_nonneg vf). unfold cond_rep, cond_toggle. cbn [st_cond_size st_cond_ff set_cond].
  rewrite Hs, Hf, !lenz_cons. cbn [ff_of]. split; [reflexivity|].
  replace (lenz vf + 1 - 1) with (lenz vf) by lia.
  pose proof (ff_of_range vf ltac:(lia)) as Hr.
  destruct (ff_of vf =? NO_FALSE) eqn:E.
  - destruct b; cbn [negb].
    + rewrite Z.eqb_refl. reflexivity.
    + destruct (lenz vf =? NO_FALSE) eqn:E2; [lia|]. rewrite Z.eqb_refl. reflexivity.
  - rewrite E. destruct (ff_of vf =? lenz vf) eqn:E2; [lia|reflexivity].
Qed.

Lemma cond_rep_init script stack w : cond_rep [] (init_state script stack w).
Proof. split; reflexivity. Qed.

(* ------------------------------------------------------------------------------------------- *)
(* VerifyScript: rule-level facts *)
Section VerifySpecs.
Variable sha256 ripemd160 sha1 : bytes -> bytes.
Variable fl : Z.
Variable ck : checker.
Variable tap_commit : bytes -> bytes -> bytes -> bool.
Notation verify := (verify_script sha256 ripemd160 sha1 fl ck tap_commit).
Notation ev := (eval sha256 ripemd160 sha1 fl ck).

Ltac walk H :=
  repeat
    (cbn [obind verr vok] in H;
     match type of H with
     | context [match ?x with _ => _ end] =>
       lazymatch x with context [match _ with _ => _ end] => fail | _ => idtac end;
       let E := fresh "Em" in destruct x eqn:E; try discriminate H
     | context [obind ?r _] =>
       lazymatch r with obind _ _ => fail | Some _ => fail | _ => idtac end;
       let E := fresh "Eo" in destruct r as [[[]|?]|] eqn:E; try discriminate H
     end).

(* BIP16: under P2SH a pay-to-script-hash output can only be spent by a push-only scriptSig *)
Theorem p2sh_requires_pushonly ssig spk wit : has fl SCR_FLAG_P2SH = true -> is_pay_to_script_hash spk = true ->
  verify ssig spk wit = Some (Ok tt) -> is_push_only ssig = true.
Proof.
  intros HP Hsh H. unfold verify_script in H. cbv zeta in H. rewrite HP, Hsh in H. cbn [andb] in H.
  destruct (is_push_only ssig) eqn:E; [reflexivity|]. exfalso. cbn [negb] in H. walk H.
Qed.

(* SIGPUSHONLY *)
Theorem sigpushonly_requires_pushonly ssig spk wit : has fl SCR_FLAG_SIGPUSHONLY = true ->
  verify ssig spk wit = Some (Ok tt) -> is_push_only ssig = true.
Proof.
  intros HS H. unfold verify_script in H. cbv zeta in H. rewrite HS in H. cbn [andb] in H.
  destruct (is_push_only ssig); [reflexivity|discriminate H].
Qed.

(* CLEANSTACK on a plain (not P2SH, not witness) output: exactly one element, which is true, remains *)
Theorem cleanstack_one_element ssig spk wit : has fl SCR_FLAG_CLEANSTACK = true ->
  witness_program spk = None -> is_pay_to_script_hash spk = false ->
  verify ssig spk wit = Some (Ok tt) ->
  exists s1 top, ev SV_BASE ssig [] = Ok s1 /\ ev SV_BASE spk s1 = Ok [top] /\ cast_to_bool top = true.
Proof.
  intros HC Hw Hsh H. unfold verify_script in H. cbv zeta in H. rewrite HC, Hw, Hsh in H.
  rewrite Bool.andb_false_r in H. cbn [andb] in H.
  destruct (has fl SCR_FLAG_SIGPUSHONLY && negb (is_push_only ssig)); [discriminate H|].
  cbn [obind] in H. destruct (ev SV_BASE ssig []) as [s1|] eqn:E1; [|discriminate H].
  destruct (ev SV_BASE spk s1) as [s2|] eqn:E2; [|discriminate H].
  destruct (negb (top_true s2)) eqn:E3; [discriminate H|].
  assert (Hlen : negb (lenz s2 =? 1) = false).
  { destruct (has fl SCR_FLAG_WITNESS); cbn [obind vok] in H; destruct (negb (lenz s2 =? 1)); try reflexivity; discriminate H. }
  destruct s2 as [|top [|x r]].
  - discriminate E3.
  - exists s1, top. repeat split; auto. cbn in E3. destruct (cast_to_bool top); [reflexivity|discriminate E3].
  - exfalso. rewrite !lenz_cons in Hlen. pose proof (lenz_nonneg r). lia.
Qed.

(* BIP141: a native witness program can only be spent with an empty scriptSig *)
Theorem witness_requires_empty_scriptsig ssig spk wit ver prog : has fl SCR_FLAG_WITNESS = true ->
  witness_program spk = Some (ver, prog) -> verify ssig spk wit = Some (Ok tt) -> ssig = [].
Proof.
  intros HW Hw H. unfold verify_script in H. cbv zeta in H. rewrite HW, Hw in H.
  destruct (has fl SCR_FLAG_SIGPUSHONLY && negb (is_push_only ssig)); [discriminate H|].
  cbn [obind] in H. destruct (ev SV_BASE ssig []) as [s1|] eqn:E1; [|discriminate H].
  destruct (ev SV_BASE spk s1) as [s2|] eqn:E2; [|discriminate H].
  destruct (negb (top_true s2)) eqn:E3; [discriminate H|].
  destruct (negb (lenz ssig =? 0)) eqn:E4; [discriminate H|].
  destruct ssig; [reflexivity|]. rewrite lenz_cons in E4. pose proof (lenz_nonneg ssig). lia.
Qed.

End VerifySpecs.
