(* C37: what AddSingle can change, read off its definition (no invariant needed): it never touches the tried table or the
   collision set, never changes the address of an existing entry, and creates entries only at the fresh id nIdCount. *)
From BV Require Import lib.Ints model.AddrMan proofs.AddrManMaps proofs.AddrManInv proofs.AddrManOps.
Local Open Scope Z_scope.

Definition kb (s s' : st) : Prop :=
  s_tried s' = s_tried s /\ s_coll s' = s_coll s /\ s_idcount s <= s_idcount s' /\
  forall id0 a', zfind id0 (s_info s') = Some a' -> (exists a0, zfind id0 (s_info s) = Some a0 /\ a_key a0 = a_key a') \/ s_idcount s <= id0.

Lemma kb_refl s : kb s s.
Proof. unfold kb. repeat split; auto; try lia. intros id0 a' F. left. eauto. Qed.
Lemma kb_trans a b d : kb a b -> kb b d -> kb a d.
Proof. intros (A1 & A2 & A3 & A4) (B1 & B2 & B3 & B4). unfold kb. split; [congruence|]. split; [congruence|]. split; [lia|].
  intros id0 x F. destruct (B4 _ _ F) as [(y & Q1 & Q2)|Q]; [|right; lia].
  destruct (A4 _ _ Q1) as [(z & Q3 & Q4)|Q]; [left; exists z; split; auto; congruence | right; auto]. Qed.

Section Frames.
  Variable c : cfg.
  Variable new_bucket : Z -> Z -> Z.
  Variable bucket_pos : bool -> Z -> Z -> Z.
  Variable routable : Z -> bool.
  Variable network : Z -> Z.
  Variable addr_of : Z -> Z.

  Lemma kb_swap s p1 p2 s' : swap_random s p1 p2 = Ok s' -> kb s s'.
  Proof.
    unfold swap_random. destruct (p1 =? p2); [intros H; injection H as <-; apply kb_refl|].
    destruct (znth p1 (s_random s)) as [id1|]; [|discriminate]. destruct (znth p2 (s_random s)) as [id2|]; [|discriminate].
    destruct (zfind id1 (s_info s)) as [a1|] eqn:F1; [|discriminate].
    destruct (zfind id2 (zset id1 (set_rpos p2 a1) (s_info s))) as [a2|] eqn:F2; [|discriminate].
    intros H. injection H as <-. unfold kb. simpl. repeat split; auto; try lia. intros id0 a' F. left.
    rewrite zfind_zset in F. rewrite zfind_zset in F2. destruct (id2 =? id0) eqn:E2.
    - apply Z.eqb_eq in E2. subst id0. injection F as <-. destruct (id1 =? id2) eqn:E1.
      + apply Z.eqb_eq in E1. subst id2. injection F2 as <-. exists a1. auto.
      + exists a2. auto.
    - rewrite zfind_zset in F. destruct (id1 =? id0) eqn:E1; [|eauto]. apply Z.eqb_eq in E1. subst id0. injection F as <-. exists a1. auto.
  Qed.

  Lemma kb_delete s id s' : delete network s id = Ok s' -> kb s s'.
  Proof.
    unfold delete. destruct (zfind id (s_info s)) as [a|]; [|discriminate]. destruct (a_tried a); [discriminate|].
    destruct (negb (a_ref a =? 0)); [discriminate|].
    destruct (swap_random s (a_rpos a) (zlen (s_random s) - 1)) as [s1|] eqn:SW; [|discriminate]. cbn [bind].
    intros H. injection H as <-. destruct (kb_swap _ _ _ _ SW) as (A1 & A2 & A3 & A4). unfold kb. simpl. repeat split; auto.
    intros id0 a' F. rewrite zfind_zdel in F. destruct (id =? id0); [discriminate|]. apply A4; auto.
  Qed.

  Lemma kb_clear_new s sl s' : clear_new network s sl = Ok s' -> kb s s'.
  Proof.
    unfold clear_new. destruct (sfind sl (s_new s)) as [idd|]; [|intros H; injection H as <-; apply kb_refl].
    destruct (zfind idd (s_info s)) as [a|] eqn:F; [|discriminate]. destruct (negb (a_ref a >? 0)); [discriminate|].
    set (s1 := set_newt (sdel sl (s_new s)) (set_info (zset idd (set_ref (a_ref a - 1) a) (s_info s)) s)).
    assert (K1 : kb s s1).
    { unfold kb, s1. simpl. repeat split; auto; try lia. intros id0 a' Q. left. rewrite zfind_zset in Q. destruct (idd =? id0) eqn:E; [|eauto].
      apply Z.eqb_eq in E. subst id0. injection Q as <-. exists a. auto. }
    destruct (a_ref a - 1 =? 0).
    - intros D. apply (kb_trans s s1 s'); auto. eapply kb_delete; eauto.
    - intros H. injection H as <-. auto.
  Qed.

  Lemma kb_add_insert s id us s' b : add_insert network s id us = Ok (s', b) -> kb s s'.
  Proof.
    unfold add_insert. destruct (clear_new network s us) as [s2|] eqn:CN; [|discriminate]. cbn [bind].
    destruct (zfind id (s_info s2)) as [p'|] eqn:F; [|discriminate]. intros H. injection H as <- _.
    apply (kb_trans s s2); [eapply kb_clear_new; eauto|]. unfold kb. simpl. repeat split; auto; try lia.
    intros id0 a' Q. left. rewrite zfind_zset in Q. destruct (id =? id0) eqn:E; [|eauto]. apply Z.eqb_eq in E. subst id0. injection Q as <-. exists p'. auto.
  Qed.

  Lemma kb_add_place s id k src now s' b : add_place c new_bucket bucket_pos network s id k src now = Ok (s', b) -> kb s s'.
  Proof.
    unfold add_place. destruct (zfind id (s_info s)) as [p|]; [|discriminate].
    destruct (sfind (nslot new_bucket bucket_pos k src) (s_new s)) as [cur|]; [|apply kb_add_insert].
    destruct (cur =? id); [intros H; injection H as <- _; apply kb_refl|].
    destruct (zfind cur (s_info s)) as [ex|]; [|discriminate].
    destruct (is_terrible c now ex || (a_ref ex >? 1) && (a_ref p =? 0)); [apply kb_add_insert|].
    destruct (a_ref p =? 0); [|intros H; injection H as <- _; apply kb_refl].
    destruct (delete network s id) as [s2|] eqn:D; [|discriminate]. cbn [bind]. intros H. injection H as <- _. eapply kb_delete; eauto.
  Qed.

  Lemma kb_add_single s k time services src penalty now draw s' b :
    add_single c new_bucket bucket_pos routable network addr_of s k time services src penalty now draw = Ok (s', b) -> kb s s'.
  Proof.
    unfold add_single. destruct (negb (routable k)); [intros H; injection H as <- _; apply kb_refl|].
    set (pen := if addr_of k =? src then 0 else penalty).
    destruct (find_addr s k) as [[id a]|] eqn:FA.
    - unfold find_addr in FA. destruct (zfind k (s_addr s)) as [i|]; [|discriminate]. destruct (zfind i (s_info s)) as [a0|] eqn:F; [|discriminate].
      injection FA as -> ->.
      set (a2 := set_services _ _). set (s1 := set_info (zset id a2 (s_info s)) s).
      assert (K1 : kb s s1).
      { unfold kb, s1. simpl. repeat split; auto; try lia. intros id0 a' Q. left. rewrite zfind_zset in Q. destruct (id =? id0) eqn:E; [|eauto].
        apply Z.eqb_eq in E. subst id0. injection Q as <-. exists a. split; auto. unfold a2. destruct (a_time a <? _); reflexivity. }
      destruct (time <=? a_time a2); [intros H; injection H as <- _; auto|].
      destruct (a_tried a2); [intros H; injection H as <- _; auto|].
      destruct (a_ref a2 =? c_MAXREF c); [intros H; injection H as <- _; auto|].
      destruct ((a_ref a2 >? 0) && negb (draw =? 0)); [intros H; injection H as <- _; auto|].
      intros AP. apply (kb_trans s s1); auto. eapply kb_add_place; eauto.
    - destruct (create network s k src (Z.max 0 (time - pen)) services) as [s1 id] eqn:CR. intros AP.
      apply (kb_trans s s1); [|eapply kb_add_place; eauto]. unfold create in CR. injection CR as <- <-.
      unfold kb. simpl. repeat split; auto; try lia. intros id0 a' Q. rewrite zfind_zset in Q. destruct (s_idcount s =? id0) eqn:E; [|eauto].
      apply Z.eqb_eq in E. right. lia.
  Qed.
End Frames.
