(* C64: a concrete validation function and histories (non-vacuity, and the txid-lookup corner). *)
From BV Require Import lib.Ints model.TxDownloadMall proofs.TxDownloadMallLemmas.
Local Open Scope Z_scope.

(* genuine G = (txid 10, wtxid 11) spends P = (txid 5, no witness); copies of G: bad witness (10, 12), stripped (10, 10) *)
Definition exP : tx := mkTx 5 5 [].
Definition exG : tx := mkTx 10 11 [5].
Definition exMbad : tx := mkTx 10 12 [5].
Definition exMstripped : tx := mkTx 10 10 [5].

(* inputs must be in the mempool or the chain; a txid already there conflicts; then the witness decides *)
Definition exV (pool : list tx) (chain : list Z) (t : tx) : verdict :=
  if existsb (fun x => txid x =? txid t) pool || mem (txid t) chain then VOther
  else if negb (forallb (fun par => existsb (fun x => txid x =? par) pool || mem par chain) (parents t)) then VMissingInputs
  else if (txid t =? 10) then (if wtxid t =? 11 then VOk else if wtxid t =? 10 then VWitnessStripped else VOther)
  else VOk.

(* the malleated copies first (as orphans and again once the parent is there), then the genuine one *)
Definition ex_history : list event :=
  [EConnect 1; EConnect 2; EConnect 3;
   EInv 2 true 12; ETx 2 exMbad; ETx 3 exMstripped;           (* both become orphans: the parent is unknown *)
   EInv 1 true 11; EPoll;                                       (* the honest announcement is asked for *)
   ETx 2 exP;                                                   (* parent accepted, both copies reconsidered and dropped *)
   ETx 3 exMbad; ETx 3 exMstripped;                             (* and delivered again *)
   ETx 1 exG].

Lemma ex_run :
  let r := run exV dl_empty ex_history [] in
  snd r = [[5; 11]] /\ map wtxid (pool (fst r)) = [5; 11] /\ rej (fst r) = [12] /\ orph (fst r) = [].
Proof. vm_compute. repeat split. Qed.

Lemma ex_history_other : Forall (ev_other 11) (firstn 11 ex_history).
Proof. repeat constructor; cbn; try discriminate. Qed.

(* the corner: a witness-stripped copy waiting in the orphanage answers the txid lookup *)
Lemma ex_txid_lookup :
  let s := fst (run exV dl_empty [EConnect 3; ETx 3 exMstripped] []) in
  already_have s false 10 true = true /\ already_have s true 11 true = false.
Proof. vm_compute. split; reflexivity. Qed.
