(* The working invariant J (chain, pool, queue of disconnected transactions) and its preservation by the removal
   mechanisms and by acceptance.  U is the set of transactions in play; txids identify transactions within U (the hash
   premise), and nLockTime is a uint32. *)
From BV Require Import lib.Ints gen.Params_gen model.Locks model.Mempool proofs.LocksLemmas.
From BV Require Import proofs.MempoolBase proofs.MempoolPool proofs.MempoolGraph proofs.MempoolChain.
Local Open Scope Z_scope.

Definition pool_creates (p : pool) (o : outpoint) : Prop := exists e, In e (p_entries p) /\ tx_creates (e_tx e) o = true.
Definition dp_creates (dp : list tx) (o : outpoint) : Prop := exists t, In t dp /\ tx_creates t o = true.

Lemma chain_ok_height c : chain_okb c = true -> 0 <= height c < INT32_MAX.
Proof.
  destruct c as [|b r]; [discriminate|]. destruct r as [|b' r].
  - intros _. unfold height, INT32_MAX. simpl. lia.
  - intros H. apply chain_ok_inv in H; [|discriminate]. destruct H as [H _]. apply block_ok_facts in H.
    pose proof (bf_height _ _ H). rewrite height_cons. unfold height in *. simpl length in *. lia.
Qed.

Section WithU.
Variable U : tx -> Prop.
Hypothesis U_inj : forall t1 t2, U t1 -> U t2 -> t_id t1 = t_id t2 -> t1 = t2.

Record J (c : chain) (p : pool) (dp : list tx) : Prop := {
  j_chain : chain_okb c = true;
  j_pool : pool_ok p;
  (* every input of every entry: an unspent output of the chain, an output of an entry, or an output of a disconnected
     transaction still waiting in the queue *)
  j_avail : forall e o, In e (p_entries p) -> In o (t_ins (e_tx e)) -> utxo c o <> None \/ pool_creates p o \/ dp_creates dp o;
  j_disj : forall e, In e (p_entries p) -> ~ In (e_id e) (chain_txids c);
  (* spendsCoinbase = false: no input is an output of a coinbase *)
  j_flag : forall e o t, In e (p_entries p) -> e_cb e = false -> In o (t_ins (e_tx e)) -> U t -> t_id t = fst o -> is_cb t = false;
  j_pool_U : forall e, In e (p_entries p) -> U (e_tx e);
  j_chain_U : forall b t, In b c -> In t (b_txs b) -> U t;
  j_dp_U : forall t, In t dp -> U t }.

(* ------------------------------------------------------------------------------------------ *)
(* sub-pools *)

(* a pool q whose entries are entries of p, such that no remaining entry spends an output of a removed one *)
Lemma entry_in_dec (l : list entry) (K : NoDup (map e_id l)) e : In e l -> forall q, incl q l -> In e q \/ ~ In (e_id e) (map e_id q).
Proof.
  intros He q Hi. destruct (memz (e_id e) (map e_id q)) eqn:M.
  - left. apply memz_In, in_map_iff in M. destruct M as (x & E & Hx). pose proof (Hi x Hx) as Hx'.
    assert (x = e) as ->; [|exact Hx]. clear -K E Hx' He. induction l as [|a l IH]; [destruct He|].
    simpl in K. inversion K; subst. destruct Hx' as [->|Hx'], He as [->|He]; auto.
    + exfalso. apply H1. rewrite E. apply in_map. exact He.
    + exfalso. apply H1. rewrite <- E. apply in_map. exact Hx'.
  - right. apply memz_false. exact M.
Qed.

Lemma J_sub c p q dp : J c p dp -> pool_ok q -> incl (p_entries q) (p_entries p) ->
  (forall e e' o, In e (p_entries q) -> In e' (p_entries p) -> ~ In (e_id e') (pool_ids q) ->
                  In o (t_ins (e_tx e)) -> tx_creates (e_tx e') o = true -> False) ->
  J c q dp.
Proof.
  intros Hj Kq Hi Hc. constructor.
  - exact (j_chain _ _ _ Hj).
  - exact Kq.
  - intros e o He Ho. destruct (j_avail _ _ _ Hj e o (Hi e He) Ho) as [A|[(e' & He' & Ce')|A]]; [auto| |auto].
    right. left. exists e'. split; [|exact Ce'].
    destruct (entry_in_dec (p_entries p) (ok_ids p (j_pool _ _ _ Hj)) e' He' (p_entries q) Hi) as [X|X]; [exact X|].
    exfalso. eapply Hc; eassumption.
  - intros e He. apply (j_disj _ _ _ Hj). auto.
  - intros e o t He. apply (j_flag _ _ _ Hj). auto.
  - intros e He. apply (j_pool_U _ _ _ Hj). auto.
  - exact (j_chain_U _ _ _ Hj).
  - exact (j_dp_U _ _ _ Hj).
Qed.

(* removing a set closed under "spends from" *)
Lemma closed_no_orphan p D : pool_ok p -> closed (children p) D ->
  forall e e' o, In e (p_entries (remove_list p D)) -> In e' (p_entries p) -> ~ In (e_id e') (pool_ids (remove_list p D)) ->
                 In o (t_ins (e_tx e)) -> tx_creates (e_tx e') o = true -> False.
Proof.
  intros K Hcl e e' o He He' Hn Ho Hcr. apply remove_list_In in He. destruct He as [He HeD].
  assert (In (e_id e') D) as HD.
  { destruct (in_dec Z.eq_dec (e_id e') D) as [X|X]; [exact X|]. exfalso. apply Hn. apply remove_list_ids. split; [apply in_map; exact He'|exact X]. }
  apply HeD. apply (Hcl (e_id e') (e_id e) HD). apply (children_spec p _ _ K). exists e, (snd o). repeat split; auto.
  pose proof (tx_creates_id _ _ Hcr) as E. unfold e_id. rewrite <- E. destruct o; exact Ho.
Qed.

Lemma J_remove_closed c p dp D : J c p dp -> closed (children p) D -> J c (remove_list p D) dp.
Proof.
  intros Hj Hcl. pose proof (j_pool _ _ _ Hj) as K. apply J_sub with (p := p).
  - exact Hj.
  - apply remove_list_ok. exact K.
  - intros e He. apply remove_list_In in He. tauto.
  - apply closed_no_orphan; assumption.
Qed.

Lemma J_remove_desc c p dp seeds : J c p dp -> J c (remove_list p (descendants p seeds)) dp.
Proof. intros Hj. apply J_remove_closed; [exact Hj|]. apply desc_closed. exact (j_pool _ _ _ Hj). Qed.

(* removeRecursive: afterwards nothing in the pool spends an output of that txid, and the txid is not in the pool *)
Lemma remove_recursive_J c p dp id : J c p dp ->
  J c (remove_recursive p id) dp /\ ~ In id (pool_ids (remove_recursive p id)) /\
  (forall e n, In e (p_entries (remove_recursive p id)) -> ~ In (id, n) (t_ins (e_tx e))) /\
  incl (p_entries (remove_recursive p id)) (p_entries p).
Proof.
  intros Hj. pose proof (j_pool _ _ _ Hj) as K. unfold remove_recursive. destruct (in_pool p id) eqn:I.
  - apply in_pool_iff in I. split; [apply J_remove_desc; exact Hj|]. split; [|split].
    + intros X. apply remove_list_ids in X. apply (proj2 X). apply desc_seed; [left; reflexivity|exact I].
    + intros e n He Ho. apply remove_list_In in He. destruct He as [He Hd]. apply Hd.
      apply (desc_closed p [id] K id (e_id e)); [apply desc_seed; [left; reflexivity|exact I]|].
      apply (children_spec p _ _ K). exists e, n. auto.
    + intros e He. apply remove_list_In in He. tauto.
  - apply in_pool_false in I. split; [apply J_remove_desc; exact Hj|]. split; [|split].
    + intros X. apply remove_list_ids in X. tauto.
    + intros e n He Ho. apply remove_list_In in He. destruct He as [He Hd]. apply Hd.
      assert (In (e_id e) (children p id)) as Hc by (apply (children_spec p _ _ K); exists e, n; auto).
      apply desc_seed; [exact Hc|apply in_map; exact He].
    + intros e He. apply remove_list_In in He. tauto.
Qed.

(* a queued transaction none of whose outputs is spent from the pool can be dropped from the queue *)
Lemma J_dp_drop c p t dp : J c p (t :: dp) ->
  (forall e n, In e (p_entries p) -> ~ In (t_id t, n) (t_ins (e_tx e))) -> J c p dp.
Proof.
  intros Hj Hn. constructor; try (destruct Hj; assumption).
  - intros e o He Ho. destruct (j_avail _ _ _ Hj e o He Ho) as [A|[A|(t' & [<-|Ht'] & Ct')]]; [auto|auto| |].
    + exfalso. apply (Hn e (snd o) He). rewrite <- (tx_creates_id _ _ Ct'). destruct o; exact Ho.
    + right. right. exists t'. auto.
  - intros t' Ht'. apply (j_dp_U _ _ _ Hj). right. exact Ht'.
Qed.
(* ... or when it is itself an entry now *)
Lemma J_dp_absorb c p t dp : J c p (t :: dp) -> (exists e, In e (p_entries p) /\ e_tx e = t) -> J c p dp.
Proof.
  intros Hj (et & Het & Eet). constructor; try (destruct Hj; assumption).
  - intros e o He Ho. destruct (j_avail _ _ _ Hj e o He Ho) as [A|[A|(t' & [<-|Ht'] & Ct')]]; [auto|auto| |].
    + right. left. exists et. rewrite Eet. auto.
    + right. right. exists t'. auto.
  - intros t' Ht'. apply (j_dp_U _ _ _ Hj). right. exact Ht'.
Qed.
Lemma J_dp_weaken c p dp dp' : J c p dp -> incl dp dp' -> (forall t, In t dp' -> U t) -> J c p dp'.
Proof.
  intros Hj Hi HU. constructor; try (destruct Hj; assumption).
  intros e o He Ho. destruct (j_avail _ _ _ Hj e o He Ho) as [A|[A|(t' & Ht' & Ct')]]; [auto|auto|].
  right. right. exists t'. auto.
Qed.

(* ------------------------------------------------------------------------------------------ *)
(* acceptance *)

Lemma view_coins_spec p c : forall ins coins, view_coins p c ins = Some coins ->
  Forall2 (fun o x => view_coin p c o = Some x) ins coins.
Proof.
  induction ins as [|o r IH]; simpl; intros coins H.
  - inversion H. constructor.
  - destruct (view_coin p c o) as [x|] eqn:E; [|discriminate]. destruct (view_coins p c r) as [l|]; [|discriminate].
    inversion H; subst. constructor; [exact E|]. apply IH. reflexivity.
Qed.
Lemma Forall2_In_l {A B} (R : A -> B -> Prop) l l' x : Forall2 R l l' -> In x l -> exists y, In y l' /\ R x y.
Proof.
  induction 1 as [|a b l l' H HF IH]; intros Hx; [destruct Hx|].
  destruct Hx as [<-|Hx]; [exists b; split; [left; reflexivity|exact H]|].
  destruct (IH Hx) as (y & Hy & Ry). exists y. split; [right; exact Hy|exact Ry].
Qed.

Record accepted_facts (c : chain) (now : Z) (p : pool) (t : tx) (p' : pool) (repl : list Z) : Prop := {
  af_vin : t_vin t <> [];
  af_nodup : NoDup (t_ins t);
  af_final : check_final c t = true;
  af_fresh : ~ In (t_id t) (pool_ids p);
  af_coins : exists coins lp, view_coins p c (t_ins t) = Some coins /\ mature c coins = true /\
     calc_lock_points c coins t = Some lp /\ check_seq_locks c lp = true /\
     p' = add_entry (remove_list p repl) {| e_tx := t; e_time := now; e_cb := existsb snd coins; e_lp := lp |};
  af_anc : direct_conflicts p t <> [] -> intersects (ancestors_of_tx p t) (direct_conflicts p t) = false;
  af_repl : repl = descendants p (direct_conflicts p t) }.

Lemma accept_accepted pol c now p t p' repl :
  accept false pol c now p t = (p', Accepted repl) -> accepted_facts c now p t p' repl.
Proof.
  unfold accept.
  destruct (is_nil (t_vin t)) eqn:E1; [discriminate|].
  destruct (nodupb_o (t_ins t)) eqn:E2; simpl; [|discriminate].
  destruct (pol_at pol P_early); [discriminate|].
  destruct (check_final c t) eqn:E3; simpl; [|discriminate].
  destruct (in_pool p (t_id t)) eqn:E4; [discriminate|].
  destruct (view_coins p c (t_ins t)) as [coins|] eqn:E5; [|discriminate].
  destruct (calc_lock_points c coins t) as [lp|] eqn:E6; [|discriminate].
  destruct (check_seq_locks c lp) eqn:E7; simpl; [|discriminate].
  destruct (mature c coins) eqn:E8; simpl; [|discriminate].
  destruct (pol_at pol P_pre); [discriminate|].
  destruct (pol_at pol P_rbf); [discriminate|].
  destruct (negb (is_nil (direct_conflicts p t)) && intersects (ancestors_of_tx p t) (direct_conflicts p t)) eqn:E9; [discriminate|].
  destruct (pol_at pol P_late); [discriminate|].
  destruct (t_script_ok t); simpl; [|discriminate].
  intros H. inversion H; subst. constructor.
  - apply is_nil_false. exact E1.
  - apply nodupb_o_NoDup. exact E2.
  - exact E3.
  - apply in_pool_false. exact E4.
  - exists coins, lp. auto.
  - intros Hd. apply andb_false_iff in E9. destruct E9 as [E9|E9]; [|exact E9].
    apply negb_false_iff, is_nil_true in E9. contradiction.
  - reflexivity.
Qed.

Lemma direct_conflicts_spec p t cid : In cid (direct_conflicts p t) <-> exists o, In o (t_ins t) /\ next_find (p_next p) o = Some cid.
Proof.
  unfold direct_conflicts. rewrite nodupz_In, in_flat_map. split.
  - intros (o & Ho & H). exists o. split; [exact Ho|]. destruct (next_find (p_next p) o); [destruct H as [->|[]]; reflexivity|destruct H].
  - intros (o & Ho & H). exists o. split; [exact Ho|]. rewrite H. left. reflexivity.
Qed.

(* a transaction of the chain cannot be accepted: its inputs are spent *)
Lemma accepted_not_in_chain c p dp t coins : J c p dp -> U t -> t_vin t <> [] ->
  view_coins p c (t_ins t) = Some coins -> ~ In (t_id t) (chain_txids c).
Proof.
  intros Hj Ut Hv Hc Hin. apply in_chain_txids in Hin. destruct Hin as (b & t' & Hb & Ht' & Eid).
  pose proof (j_chain_U _ _ _ Hj b t' Hb Ht') as Ut'. assert (t' = t) as -> by (apply U_inj; assumption).
  destruct (t_vin t) as [|[o sq] r] eqn:Ev; [tauto|].
  assert (In o (t_ins t)) as Ho by (unfold t_ins; rewrite Ev; left; reflexivity).
  assert (spent_in_chain c o = true) as S.
  { unfold spent_in_chain. apply existsb_exists. exists b. split; [exact Hb|]. apply spent_in_block_iff. exists t. auto. }
  apply view_coins_spec in Hc. destruct (Forall2_In_l _ _ _ _ Hc Ho) as (x & _ & Hx).
  unfold view_coin in Hx. destruct (find_entry p (fst o)) as [e|] eqn:F.
  - apply find_entry_Some in F. destruct F as [He Ee]. apply (j_disj _ _ _ Hj e He). rewrite Ee.
    apply chain_ok_spent; [exact (j_chain _ _ _ Hj)|exact S].
  - unfold utxo in Hx. rewrite S in Hx. discriminate.
Qed.

Lemma accept_J pol c now p dp t p' repl : J c p dp -> U t ->
  accept false pol c now p t = (p', Accepted repl) ->
  J c p' dp /\ accepted_facts c now p t p' repl.
Proof.
  intros Hj Ut Ha. pose proof (accept_accepted _ _ _ _ _ _ _ Ha) as Af. split; [|exact Af].
  destruct Af as [Hvin Hnd Hfin Hfresh (coins & lp & Hcoins & Hmat & _ & _ & Ep') Hanc Hrepl].
  pose proof (j_pool _ _ _ Hj) as K.
  set (q := remove_list p repl) in *.
  assert (J c q dp) as Hq by (unfold q; rewrite Hrepl; apply J_remove_desc; exact Hj).
  pose proof (j_pool _ _ _ Hq) as Kq.
  set (e := {| e_tx := t; e_time := now; e_cb := existsb snd coins; e_lp := lp |}) in *.
  assert (forall x, In x (p_entries q) -> In x (p_entries p)) as Hsub by (intros x Hx; apply remove_list_In in Hx; tauto).
  assert (pool_ok p') as Kp'.
  { rewrite Ep'. apply add_entry_ok; auto.
    - intros X. apply remove_list_ids in X. tauto.
    - intros o Ho. destruct (next_find (p_next q) o) as [cid|] eqn:F; [|reflexivity]. exfalso.
      apply (next_find_spends q o cid Kq) in F. destruct F as (x & Hx & Ex & Ox).
      pose proof (Hsub x Hx) as Hxp.
      assert (next_find (p_next p) o = Some cid) as F' by (apply (next_find_spends p o cid K); exists x; auto).
      assert (In cid (descendants p (direct_conflicts p t))) as Hd.
      { apply desc_seed; [apply direct_conflicts_spec; eauto|]. rewrite <- Ex. apply in_map. exact Hxp. }
      apply remove_list_In in Hx. apply (proj2 Hx). rewrite Ex, Hrepl. exact Hd. }
  pose proof (view_coins_spec _ _ _ _ Hcoins) as Hvc.
  constructor.
  - exact (j_chain _ _ _ Hj).
  - exact Kp'.
  - intros x o Hx Ho. rewrite Ep' in Hx. rewrite add_entry_entries in Hx. apply in_app_iff in Hx. destruct Hx as [Hx|[<-|[]]].
    + destruct (j_avail _ _ _ Hq x o Hx Ho) as [A|[(e' & He' & Ce')|A]]; [auto| |auto].
      right. left. exists e'. split; [|exact Ce']. rewrite Ep', add_entry_entries. apply in_app_iff. auto.
    + simpl in Ho. destruct (Forall2_In_l _ _ _ _ Hvc Ho) as (y & _ & Hy). unfold view_coin in Hy.
      destruct (find_entry p (fst o)) as [e1|] eqn:F.
      * apply find_entry_Some in F. destruct F as [He1 Ee1].
        destruct ((0 <=? snd o) && (snd o <? t_nout (e_tx e1))) eqn:Rng; [|discriminate].
        right. left. exists e1. split.
        -- rewrite Ep', add_entry_entries. apply in_app_iff. left. apply remove_list_In. split; [exact He1|].
           intros Hd. rewrite Hrepl in Hd.
           assert (In (e_id e1) (parents_tx p t)) as Hpar.
           { apply parents_tx_spec. split; [apply in_map; exact He1|]. exists (snd o). rewrite Ee1. destruct o; exact Ho. }
           destruct (spends_conflict_detected p t _ _ K Hpar Hd) as (cf & Hcf & Hca).
           assert (direct_conflicts p t <> []) as Hne by (intros X; rewrite X in Hcf; destruct Hcf).
           pose proof (proj1 (intersects_false _ _) (Hanc Hne) cf Hca). contradiction.
        -- apply andb_true_iff in Rng. destruct Rng as [R1 R2]. unfold tx_creates. rewrite R1, R2.
           unfold e_id in Ee1. rewrite Ee1, Z.eqb_refl. reflexivity.
      * left. congruence.
  - intros x Hx. rewrite Ep', add_entry_entries in Hx. apply in_app_iff in Hx. destruct Hx as [Hx|[<-|[]]].
    + apply (j_disj _ _ _ Hq). exact Hx.
    + exact (accepted_not_in_chain c p dp t coins Hj Ut Hvin Hcoins).
  - intros x o t' Hx Hcb Ho Ut' Eid. rewrite Ep', add_entry_entries in Hx. apply in_app_iff in Hx. destruct Hx as [Hx|[<-|[]]].
    + eapply (j_flag _ _ _ Hq); eassumption.
    + simpl in Hcb, Ho. destruct (Forall2_In_l _ _ _ _ Hvc Ho) as (y & Hy & Vy).
      assert (snd y = false) as Ycb.
      { destruct (snd y) eqn:Y; [|reflexivity]. exfalso. rewrite <- not_true_iff_false in Hcb. apply Hcb.
        apply existsb_exists. exists y. auto. }
      unfold view_coin in Vy. destruct (find_entry p (fst o)) as [e1|] eqn:F.
      * apply find_entry_Some in F. destruct F as [He1 Ee1].
        assert (t' = e_tx e1) as -> by (apply U_inj; [exact Ut'|apply (j_pool_U _ _ _ Hj); exact He1|rewrite Eid; symmetry; exact Ee1]).
        destruct (ok_ins p K e1 He1) as [_ Hne]. unfold is_cb. apply is_nil_false. exact Hne.
      * destruct y as [h cb]. simpl in Ycb. subst cb. apply utxo_Some_creator in Vy. destruct Vy as [Vy _].
        apply find_creator_Some in Vy. destruct Vy as (b & t'' & Hb & Ht'' & Ct'' & Ecb & _).
        assert (t' = t'') as -> by (apply U_inj; [exact Ut'|apply (j_chain_U _ _ _ Hj b); assumption|rewrite Eid; apply tx_creates_id; exact Ct'']).
        symmetry. exact Ecb.
  - intros x Hx. rewrite Ep', add_entry_entries in Hx. apply in_app_iff in Hx. destruct Hx as [Hx|[<-|[]]]; [apply (j_pool_U _ _ _ Hq); exact Hx|exact Ut].
  - exact (j_chain_U _ _ _ Hj).
  - exact (j_dp_U _ _ _ Hj).
Qed.

End WithU.
