(* Compact block reconstruction: FillBlock returns the announced block or fails. *)
From BV Require Import lib.Ints gen.Params_gen model.Merkle model.Cmpct proofs.MerkleLemmas proofs.MerkleBlockLemmas.
From Coq Require Import Sorting.Sorted.
Local Open Scope Z_scope.

Section CmpctProofs.
Variable T : Type.

(* ------------------------------------------------------------------ prefilled slots *)
(* every prefilled transaction gets a slot inside txn_available, the slots strictly increase *)
Lemma place_prefilled_spec : forall pre nshort i last placed,
  0 <= nshort -> 0 <= i -> -1 <= last <= 65535 ->
  place_prefilled T nshort i last pre = Some placed ->
  length placed = length pre /\
  (forall k p tx, nth_error placed k = Some (p, tx) ->
     last < p <= 65535 /\ p <= nshort + i + Z.of_nat k /\
     exists idx, nth_error pre k = Some (idx, Some tx)) /\
  StronglySorted Z.lt (map fst placed).
Proof.
  induction pre as [|[index otx] rest IH]; intros nshort i last placed Hn Hi Hl E; cbn [place_prefilled] in E.
  - inversion E. split; [reflexivity|]. split; [intros [|k] p tx Hk; discriminate | constructor].
  - destruct otx as [tx|]; [|discriminate].
    assert (Hidx : 0 <= wrapu16 index <= 65535).
    { unfold wrapu16, wrapu. pose proof (Z.mod_pos_bound index (2 ^ 16) ltac:(lia)). change (2 ^ 16) with 65536 in *. lia. }
    rewrite wrap32_id in E by (unfold INT32_MIN, INT32_MAX; lia).
    set (last1 := last + wrapu16 index + 1) in *.
    destruct (last1 >? 65535) eqn:E1; [discriminate|].
    assert (H1 : last1 <= 65535) by (destruct (Z.gtb_spec last1 65535); [discriminate | lia]).
    rewrite wrapu32_id in E by (unfold UINT32_MAX, last1; lia).
    destruct (last1 >? nshort + i) eqn:E2; [discriminate|].
    assert (H2 : last1 <= nshort + i) by (destruct (Z.gtb_spec last1 (nshort + i)); [discriminate | lia]).
    destruct (place_prefilled T nshort (i + 1) last1 rest) as [l|] eqn:Er; [|discriminate]. inversion E; subst placed.
    destruct (IH nshort (i + 1) last1 l Hn ltac:(lia) ltac:(unfold last1; lia) Er) as (Hlen & Hpos & Hsorted).
    split; [cbn [length]; lia|]. split.
    + intros [|k] p tx0 Hk; cbn [nth_error] in Hk.
      * inversion Hk; subst. split; [unfold last1 in *; lia|]. split; [lia|]. exists index. reflexivity.
      * destruct (Hpos k p tx0 Hk) as (Ha & Hb & Hc). split; [unfold last1 in *; lia|]. split; [lia | exact Hc].
    + cbn [map fst]. constructor; [exact Hsorted|]. apply Forall_forall. intros p Hp.
      apply in_map_iff in Hp. destruct Hp as ([p' tx'] & <- & Hin). apply In_nth_error in Hin. destruct Hin as [k Hk].
      destruct (Hpos k p' tx' Hk) as (Ha & _). cbn [fst]. lia.
Qed.

(* in particular no write outside txn_available (its size is nshort + prefilledtxn.size()) *)
Theorem prefilled_in_bounds : forall pre nshort placed, 0 <= nshort ->
  place_prefilled T nshort 0 (-1) pre = Some placed ->
  forall p tx, In (p, tx) placed -> 0 <= p < nshort + Z.of_nat (length pre).
Proof.
  intros pre nshort placed Hn E p tx Hin.
  destruct (place_prefilled_spec pre nshort 0 (-1) placed Hn ltac:(lia) ltac:(lia) E) as (Hlen & Hpos & _).
  apply In_nth_error in Hin. destruct Hin as [k Hk]. destruct (Hpos k p tx Hk) as (Ha & Hb & _).
  assert (k < length placed)%nat by (apply nth_error_Some; congruence). lia.
Qed.

(* ------------------------------------------------------------------ FillBlock *)
Fixpoint holes (avail : list (option T)) : nat :=
  match avail with [] => O | None :: r => S (holes r) | Some _ :: r => holes r end.

(* what the loop builds: the available transactions in place, the holes filled with `missing` in order *)
Fixpoint merged (avail : list (option T)) (missing : list T) : list T :=
  match avail with
  | [] => []
  | Some tx :: r => tx :: merged r missing
  | None :: r => match missing with [] => [] | m :: ms => m :: merged r ms end
  end.

Lemma fill_loop_spec : forall avail missing,
  match fill_loop T avail missing with
  | Some (vtx, rest) => (holes avail <= length missing)%nat /\ vtx = merged avail missing /\
                        rest = skipn (holes avail) missing /\ length vtx = length avail
  | None => (length missing < holes avail)%nat
  end.
Proof.
  induction avail as [|[tx|] r IH]; intros missing; cbn [fill_loop holes merged].
  - cbn. repeat split; lia.
  - specialize (IH missing). destruct (fill_loop T r missing) as [[vtx rest]|].
    + destruct IH as (A & B & C & D). repeat split; try assumption; [congruence | cbn; lia].
    + exact IH.
  - destruct missing as [|m ms]; [cbn; lia|]. specialize (IH ms). destruct (fill_loop T r ms) as [[vtx rest]|].
    + destruct IH as (A & B & C & D). cbn [length skipn]. repeat split; try assumption; try lia; congruence.
    + cbn [length]. lia.
Qed.

(* wrong number of transactions in the blocktxn response <=> READ_STATUS_INVALID *)
Theorem fill_block_invalid_iff : forall header_null avail missing is_mutated,
  fst (fill_block T header_null avail missing is_mutated) = READ_STATUS_INVALID <->
  header_null = true \/ length missing <> holes avail.
Proof.
  intros hn avail missing ism. unfold fill_block. destruct hn; [cbn; tauto|].
  pose proof (fill_loop_spec avail missing) as Hs. destruct (fill_loop T avail missing) as [[vtx rest]|].
  - destruct Hs as (A & B & C & D). destruct rest as [|x rest].
    + assert (length missing = holes avail).
      { assert (Hl : length (skipn (holes avail) missing) = 0%nat) by (rewrite <- C; reflexivity). rewrite skipn_length in Hl. lia. }
      destruct (ism vtx) as [[|]|]; cbn; split; intros; try discriminate; destruct H0 as [?|?]; congruence.
    + cbn. split; [intros _; right|reflexivity].
      assert (Hl : length (skipn (holes avail) missing) = S (length rest)) by (rewrite <- C; reflexivity). rewrite skipn_length in Hl. lia.
  - cbn. split; [intros _; right; lia | reflexivity].
Qed.

(* an OK result is the merge of what was available with the response, and it passed IsBlockMutated *)
Theorem fill_block_ok : forall header_null avail missing is_mutated vtx,
  fill_block T header_null avail missing is_mutated = (READ_STATUS_OK, Some vtx) ->
  header_null = false /\ length missing = holes avail /\ vtx = merged avail missing /\ is_mutated vtx = Some false.
Proof.
  intros hn avail missing ism vtx. unfold fill_block. destruct hn; [discriminate|].
  pose proof (fill_loop_spec avail missing) as Hs. destruct (fill_loop T avail missing) as [[v rest]|]; [|discriminate].
  destruct Hs as (A & B & C & D). destruct rest as [|x rest]; [|discriminate].
  destruct (ism v) as [[|]|] eqn:Ei; try discriminate. intros E. inversion E; subst vtx.
  assert (Hl : length (skipn (holes avail) missing) = 0%nat) by (rewrite <- C; reflexivity). rewrite skipn_length in Hl.
  repeat split; auto; lia.
Qed.

(* ------------------------------------------------------------------ ... hence the announced block *)
Variable D : Type.
Variable deq : D -> D -> bool.
Variable H : D -> D -> D.
Variable zero : D.
Hypothesis deq_spec : forall a b, deq a b = true <-> a = b.
Hypothesis H_inj : forall a b c d, H a b = H c d -> a = c /\ b = d.
(* the block object FillBlock builds: the announced header with the given transactions *)
Variable view : list T -> block_view D.
Variable tview : T -> tx_view D.
Hypothesis view_txs : forall l, bv_txs D (view l) = map tview l.
Hypothesis view_root : forall l l', bv_header_root D (view l) = bv_header_root D (view l').
Hypothesis view_fresh : forall l, bv_checked_merkle_root D (view l) = false /\ bv_checked_witness_commitment D (view l) = false.

Theorem fill_ok_is_announced : forall avail missing vtx announced c,
  fill_block T false avail missing (fun l => is_block_mutated D deq H zero (view l) true) = (READ_STATUS_OK, Some vtx) ->
  (* the announced block is a genuine segwit block: accepted, coinbase first, with commitment c *)
  is_block_mutated D deq H zero (view announced) true = Some false ->
  announced <> [] -> vtx <> [] ->
  bv_first_is_coinbase D (view announced) = true -> bv_first_is_coinbase D (view vtx) = true ->
  bv_commitment D (view announced) = Some c -> bv_commitment D (view vtx) = Some c ->
  (forall x, In x (map (tv_txid D) (map tview announced)) -> ~ exists a b, x = H a b) ->
  (forall x, In x (map (tv_txid D) (map tview vtx)) -> ~ exists a b, x = H a b) ->
  map (tv_txid D) (map tview vtx) = map (tv_txid D) (map tview announced) /\
  map (tv_wtxid D) (tl (map tview vtx)) = map (tv_wtxid D) (tl (map tview announced)).
Proof.
  intros avail missing vtx announced c E Hann Hne1 Hne2 Hcb1 Hcb2 Hc1 Hc2 Hl1 Hl2.
  destruct (fill_block_ok _ _ _ _ _ E) as (_ & _ & _ & Hok).
  destruct (accepted_blocks_equal D deq H zero deq_spec H_inj (view vtx) (view announced) c) as (E1 & E2 & _);
    try assumption; try apply view_fresh; try apply view_root;
    try (rewrite view_txs; intros E0; apply map_eq_nil in E0; contradiction);
    try (rewrite view_txs; assumption).
  rewrite !view_txs in E1, E2. split; assumption.
Qed.

End CmpctProofs.
