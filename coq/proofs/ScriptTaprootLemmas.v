(* Tapscript execution (model/ScriptVerify.v: execute_witness_script, verify_taproot): OP_SUCCESSx overrides everything;
   without an OP_SUCCESSx the initial stack and element limits are enforced before execution. *)
From BV Require Import lib.Ints gen.Params_gen model.Script model.ScriptVerify
  proofs.ScriptNumLemmas proofs.ScriptLemmas proofs.ScriptInvLemmas.
Local Open Scope Z_scope.

(* the script contains an OP_SUCCESSx among the instructions that parse (everything before a truncated push) *)
Definition has_op_success (script : bytes) : bool :=
  existsb (fun p => is_op_success (p_code p)) (fst (parse_script script)).

Section Tap.
Variable sha256 ripemd160 sha1 : bytes -> bytes.
Variable fl : Z.
Variable ck : checker.
Variable tap_commit : bytes -> bytes -> bytes -> bool.
Notation exec := (execute_witness_script sha256 ripemd160 sha1 fl ck).
Notation vtap := (verify_taproot sha256 ripemd160 sha1 fl ck tap_commit).

Definition op_success_verdict : result unit :=
  if has fl SCR_FLAG_DISCOURAGE_OP_SUCCESS then Err SE_DISCOURAGE_OP_SUCCESS else Ok tt.

Lemma scan_found ops ok : existsb (fun p => is_op_success (p_code p)) ops = true ->
  op_success_scan fl ops ok = Some op_success_verdict.
Proof.
  induction ops as [|p r IH]; intros H; cbn [existsb op_success_scan] in *; [discriminate H|].
  destruct (is_op_success (p_code p)); [reflexivity|]. apply IH. exact H.
Qed.
Lemma scan_not_found ops ok : existsb (fun p => is_op_success (p_code p)) ops = false ->
  op_success_scan fl ops ok = if ok then None else Some (Err SE_BAD_OPCODE).
Proof.
  induction ops as [|p r IH]; intros H; cbn [existsb op_success_scan] in *; [reflexivity|].
  destruct (is_op_success (p_code p)); [discriminate H|]. apply IH. exact H.
Qed.

(* OP_SUCCESSx overrides everything: whatever the witness stack (any number of elements, of any size) and the rest of
   the script (even a truncated push after the OP_SUCCESSx), execution succeeds at once, or fails with
   DISCOURAGE_OP_SUCCESS when that policy flag is set *)
Theorem op_success_overrides_everything stack script w : has_op_success script = true ->
  exec SV_TAPSCRIPT stack script w = op_success_verdict.
Proof.
  unfold has_op_success, execute_witness_script. intros H. cbn [is_tapscript].
  destruct (parse_script script) as [ops ok]. cbn [fst] in H. rewrite (scan_found ops ok H). reflexivity.
Qed.

(* without an OP_SUCCESSx: a script that does not parse is BAD_OPCODE; otherwise more than MAX_STACK_SIZE initial elements
   is STACK_SIZE and (then) an element above MAX_SCRIPT_ELEMENT_SIZE is PUSH_SIZE, all before anything is executed *)
Theorem tapscript_limits_without_op_success stack script w : has_op_success script = false ->
  (snd (parse_script script) = false -> exec SV_TAPSCRIPT stack script w = Err SE_BAD_OPCODE) /\
  (snd (parse_script script) = true -> lenz stack > MAX_STACK_SIZE -> exec SV_TAPSCRIPT stack script w = Err SE_STACK_SIZE) /\
  (snd (parse_script script) = true -> lenz stack <= MAX_STACK_SIZE ->
     existsb (fun e => lenz e >? MAX_SCRIPT_ELEMENT_SIZE) stack = true -> exec SV_TAPSCRIPT stack script w = Err SE_PUSH_SIZE).
Proof.
  unfold has_op_success, execute_witness_script. intros H. cbn [is_tapscript andb].
  destruct (parse_script script) as [ops ok]. cbn [fst snd] in *. rewrite (scan_not_found ops ok H).
  repeat split; intros Hok; subst ok.
  - reflexivity.
  - intros Hl. replace (lenz stack >? MAX_STACK_SIZE) with true by lia. reflexivity.
  - intros Hl He. replace (lenz stack >? MAX_STACK_SIZE) with false by lia. rewrite He. reflexivity.
Qed.

Lemma tapscript_control_not_annex control : leaf_is_tapscript control = true -> is_annex control = false.
Proof.
  destruct control as [|c0 r]; [discriminate|]. cbn [leaf_is_tapscript is_annex]. intros H.
  destruct (c0 =? SCR_ANNEX_TAG) eqn:E; [|reflexivity]. apply Z.eqb_eq in E. subst c0. vm_compute in H. discriminate H.
Qed.

(* a taproot script-path spend (witness = args, script, control [, annex]) with a well-sized control block whose
   commitment checks out and whose leaf version is 0xc0 is decided by ExecuteWitnessScript on the arguments alone *)
Theorem taproot_script_path control script args prog annex : has fl SCR_FLAG_TAPROOT = true ->
  control_size_ok (lenz control) = true -> tap_commit control prog script = true -> leaf_is_tapscript control = true ->
  (match annex with Some a => is_annex a = true | None => True end) ->
  let wstack := (match annex with Some a => [a] | None => [] end) ++ control :: script :: args in
  vtap wstack prog = exec SV_TAPSCRIPT args script (witness_serialize_size wstack + SCR_VALIDATION_WEIGHT_OFFSET).
Proof.
  intros HT Hsz Hc Hleaf Ha wstack. unfold verify_taproot. rewrite HT. cbn [negb].
  assert (Hd : drop_annex wstack = control :: script :: args).
  { subst wstack. destruct annex as [a|]; cbn [app drop_annex].
    - rewrite Ha. reflexivity.
    - rewrite (tapscript_control_not_annex control Hleaf). reflexivity. }
  assert (Hne : wstack <> []) by (subst wstack; destruct annex; discriminate).
  destruct wstack as [|w0 wr] eqn:Ew; [congruence|]. rewrite Hd, Hsz, Hc, Hleaf. reflexivity.
Qed.

End Tap.
