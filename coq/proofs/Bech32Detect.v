(* C45 — the bech32 / bech32m checksum detects every error of 1 to 4 symbols in a data part of up to
   89 symbols.  PolyMod is GF(2)-linear (Bech32Lemmas.polymod_from_lxor), so the question is whether an
   error pattern of weight 1..4 can have syndrome 0.  Multiplication by x (one PolyMod step with symbol
   0) is injective on 30-bit states, so the lowest error position can be moved to degree 0; the
   remaining <= 3 error positions are split 1 + 2 and every combination is checked by computation
   (meet in the middle: 31*88*32 left values in a set, 2816^2 right values looked up). *)
From Coq Require Import NArith Btauto Lia FSetPositive.
From BV Require Import lib.Ints model.Bech32 proofs.Bech32Lemmas.
Local Open Scope N_scope.

Definition mulx (c : N) : N := polymod_step c 0.
Definition syn (l : list N) : N := polymod_from 0 l.
Definition syn1 (v : N) (d : nat) : N := Nat.iter d mulx v.

Lemma mulx_lxor : forall a b, mulx (N.lxor a b) = N.lxor (mulx a) (mulx b).
Proof. intros. unfold mulx. rewrite <- polymod_step_lxor. reflexivity. Qed.

Lemma mulx_0 : mulx 0 = 0.
Proof. reflexivity. Qed.

Lemma polymod_step_split : forall c v, polymod_step c v = N.lxor (mulx c) v.
Proof.
  intros c v. unfold mulx.
  rewrite <- (N.lxor_0_r c) at 1. rewrite <- (N.lxor_0_l v) at 1.
  rewrite polymod_step_lxor. f_equal.
  rewrite polymod_step_small by reflexivity. apply N.lxor_0_l.
Qed.

Lemma iter_mulx_lxor : forall d a b, Nat.iter d mulx (N.lxor a b) = N.lxor (Nat.iter d mulx a) (Nat.iter d mulx b).
Proof. induction d; intros; simpl; auto. rewrite IHd, mulx_lxor. reflexivity. Qed.

Lemma iter_mulx_0 : forall d, Nat.iter d mulx 0 = 0.
Proof. induction d; simpl; auto. rewrite IHd. reflexivity. Qed.

Lemma iter_succ_r : forall (d : nat) (x : N), Nat.iter (S d) mulx x = Nat.iter d mulx (mulx x).
Proof. induction d; intros; simpl in *; auto. rewrite <- IHd. reflexivity. Qed.

Lemma mulx_lt : forall c, mulx c < 2 ^ 30.
Proof. intros. apply polymod_step_lt. reflexivity. Qed.

(* multiplication by x is injective on 30-bit states *)
Lemma mulx_low_bits : forall c k, k < 5 ->
  N.testbit (mulx c) k =
  xorb (xorb (xorb (xorb (N.testbit c 25 && N.testbit GEN0 k) (N.testbit c 26 && N.testbit GEN1 k))
    (N.testbit c 27 && N.testbit GEN2 k)) (N.testbit c 28 && N.testbit GEN3 k)) (N.testbit c 29 && N.testbit GEN4 k).
Proof.
  intros c k Hk. unfold mulx. rewrite polymod_step_bit.
  destruct (N.ltb_spec k 5); [|lia]. rewrite N.bits_0. btauto.
Qed.

Lemma mulx_inj0 : forall c, c < 2 ^ 30 -> mulx c = 0 -> c = 0.
Proof.
  intros c Hc H.
  assert (B : forall k, k < 5 -> N.testbit (mulx c) k = false) by (intros; rewrite H; apply N.bits_0).
  pose proof (B 0 eq_refl) as B0. pose proof (B 1 eq_refl) as B1. pose proof (B 2 eq_refl) as B2.
  pose proof (B 3 eq_refl) as B3. pose proof (B 4 eq_refl) as B4.
  rewrite mulx_low_bits in B0, B1, B2, B3, B4 by reflexivity.
  assert (T : N.testbit c 25 = false /\ N.testbit c 26 = false /\ N.testbit c 27 = false /\
              N.testbit c 28 = false /\ N.testbit c 29 = false).
  { destruct (N.testbit c 25), (N.testbit c 26), (N.testbit c 27), (N.testbit c 28), (N.testbit c 29);
      vm_compute in B0, B1, B2, B3, B4; try discriminate; auto. }
  destruct T as (T25 & T26 & T27 & T28 & T29).
  assert (Hsmall : c < 2 ^ 25).
  { apply small_of_bits. intros k Hk.
    destruct (N.lt_ge_cases k 30) as [Hk30|Hk30]; [|apply (testbit_small c 30); assumption].
    assert (k = 25 \/ k = 26 \/ k = 27 \/ k = 28 \/ k = 29) as [->|[->|[->|[->| ->]]]] by lia; assumption. }
  unfold mulx in H. rewrite polymod_step_small_add in H by (auto; reflexivity). lia.
Qed.

Lemma mulx_inj_nz : forall c, c < 2 ^ 30 -> c <> 0 -> mulx c <> 0.
Proof. intros c Hc Hn H. apply Hn. apply mulx_inj0; assumption. Qed.

Lemma iter_mulx_nz : forall d c, c < 2 ^ 30 -> c <> 0 -> Nat.iter d mulx c <> 0 /\ Nat.iter d mulx c < 2 ^ 30.
Proof.
  induction d; intros c Hc Hn; simpl; [auto|].
  destruct (IHd c Hc Hn) as [H1 H2]. split; [apply mulx_inj_nz; assumption|apply mulx_lt].
Qed.

(* Horner form, lowest degree first *)
Fixpoint synr (r : list N) : N :=
  match r with [] => 0 | v :: r' => N.lxor v (mulx (synr r')) end.

Lemma syn_snoc : forall l v, syn (l ++ [v]) = N.lxor (mulx (syn l)) v.
Proof. intros. unfold syn. rewrite polymod_from_app. simpl. apply polymod_step_split. Qed.

Lemma syn_rev : forall r, syn (rev r) = synr r.
Proof.
  induction r as [|v r IH]; simpl; [reflexivity|].
  rewrite syn_snoc, IH. apply N.lxor_comm.
Qed.

Fixpoint xor_all (l : list N) : N := match l with [] => 0 | x :: r => N.lxor x (xor_all r) end.

(* the non-zero entries of r with their degrees, the first element of r having degree d *)
Fixpoint supp (r : list N) (d : nat) : list (nat * N) :=
  match r with
  | [] => []
  | v :: r' => if v =? 0 then supp r' (S d) else (d, v) :: supp r' (S d)
  end.
Definition term (p : nat * N) : N := syn1 (snd p) (fst p).

Lemma synr_supp : forall r d, Nat.iter d mulx (synr r) = xor_all (map term (supp r d)).
Proof.
  induction r as [|v r IH]; intros d; simpl.
  - apply iter_mulx_0.
  - rewrite iter_mulx_lxor. rewrite <- iter_succ_r, IH.
    destruct (N.eqb_spec v 0) as [->|Hv]; simpl.
    + rewrite iter_mulx_0. apply N.lxor_0_l.
    + reflexivity.
Qed.

Definition weight (r : list N) : nat := length (filter (fun v => negb (v =? 0)) r).

Lemma supp_length : forall r d, length (supp r d) = weight r.
Proof.
  unfold weight. induction r as [|v r IH]; intros d; simpl; auto.
  destruct (v =? 0); simpl; rewrite IH; reflexivity.
Qed.

Lemma supp_range : forall r d, Forall (fun v => v < 32) r ->
  Forall (fun p => (d <= fst p < d + length r)%nat /\ snd p < 32) (supp r d).
Proof.
  induction r as [|v r IH]; intros d H; simpl; [constructor|].
  inversion H; subst.
  assert (Hr : Forall (fun p => (d <= fst p < d + S (length r))%nat /\ snd p < 32) (supp r (S d))).
  { eapply Forall_impl; [|apply IH; assumption]. intros p [Hp1 Hp2]. split; [lia|assumption]. }
  destruct (v =? 0); [assumption|]. constructor; [simpl; split; [lia|assumption]|assumption].
Qed.

(* ---------------------------------------------------------------------------------------------- *)
(* the computational check *)
Fixpoint rows_from (n : nat) (row : list N) : list (list N) :=
  match n with O => [] | S k => row :: rows_from k (map mulx row) end.
Definition syms32 : list N := map N.of_nat (seq 0 32).
(* all syn1 v d for 1 <= d < L, v < 32 *)
Definition flat (L : nat) : list N := concat (rows_from (L - 1) (map mulx syms32)).
Definition lhs (L : nat) : list N := flat_map (fun a0 => map (N.lxor a0) (flat L)) (map N.of_nat (seq 1 31)).
Definition build (l : list N) : PositiveSet.t :=
  fold_left (fun s x => PositiveSet.add (N.succ_pos x) s) l PositiveSet.empty.
Definition detect_check (L : nat) : bool :=
  let S := build (lhs L) in
  let f := flat L in
  forallb (fun x => forallb (fun y => negb (PositiveSet.mem (N.succ_pos (N.lxor x y)) S)) f) f.

Lemma rows_from_spec : forall n row d x, (d < n)%nat -> In x row ->
  In (Nat.iter d mulx x) (concat (rows_from n row)).
Proof.
  induction n as [|n IH]; intros row d x Hd Hx; [lia|]. simpl. apply in_or_app.
  destruct d as [|d]; [left; assumption|]. right.
  rewrite iter_succ_r. apply IH; [lia|]. apply in_map; assumption.
Qed.

Lemma in_syms32 : forall v, v < 32 -> In v syms32.
Proof. intros v Hv. unfold syms32. apply in_map_iff. exists (N.to_nat v). split; [apply N2Nat.id|]. apply in_seq. lia. Qed.

Lemma flat_spec : forall L d v, (1 <= d < L)%nat -> v < 32 -> In (syn1 v d) (flat L).
Proof.
  intros L d v Hd Hv. unfold flat, syn1.
  destruct d as [|d]; [lia|]. rewrite iter_succ_r.
  apply rows_from_spec; [lia|]. apply in_map. apply in_syms32; assumption.
Qed.

Lemma build_mem : forall l s x, (In x l \/ PositiveSet.In (N.succ_pos x) s) ->
  PositiveSet.mem (N.succ_pos x) (fold_left (fun s x => PositiveSet.add (N.succ_pos x) s) l s) = true.
Proof.
  induction l as [|a l IH]; intros s x H; simpl.
  - destruct H as [[]|H]. apply PositiveSet.mem_1; assumption.
  - apply IH. destruct H as [[->|H]|H]; auto.
    + right. apply PositiveSet.add_1. reflexivity.
    + right. apply PositiveSet.add_2. assumption.
Qed.

Lemma lhs_spec : forall L a0 i b, 1 <= a0 < 32 -> (1 <= i < L)%nat -> b < 32 -> In (N.lxor a0 (syn1 b i)) (lhs L).
Proof.
  intros L a0 i b Ha Hi Hb. unfold lhs. apply in_flat_map. exists a0. split.
  - apply in_map_iff. exists (N.to_nat a0). split; [apply N2Nat.id|]. apply in_seq. lia.
  - apply in_map. apply flat_spec; assumption.
Qed.

Lemma detect_check_sound : forall L, detect_check L = true ->
  forall a0 i b j c k d, 1 <= a0 < 32 -> (1 <= i < L)%nat -> b < 32 -> (1 <= j < L)%nat -> c < 32 -> (1 <= k < L)%nat -> d < 32 ->
  N.lxor (N.lxor a0 (syn1 b i)) (N.lxor (syn1 c j) (syn1 d k)) <> 0.
Proof.
  intros L H a0 i b j c k d Ha Hi Hb Hj Hc Hk Hd E.
  apply N.lxor_eq in E.
  unfold detect_check in H. rewrite forallb_forall in H.
  specialize (H _ (flat_spec L j c Hj Hc)). rewrite forallb_forall in H.
  specialize (H _ (flat_spec L k d Hk Hd)). rewrite <- E in H.
  unfold build in H. rewrite build_mem in H; [discriminate|].
  left. apply lhs_spec; assumption.
Qed.

(* ---------------------------------------------------------------------------------------------- *)
(* from the check to all error patterns *)
Lemma syn1_0 : forall d, syn1 0 d = 0.
Proof. intros. apply iter_mulx_0. Qed.

Lemma detect_sparse : forall L, detect_check L = true -> forall a0 sp,
  1 <= a0 < 32 -> (length sp <= 3)%nat -> Forall (fun p => (1 <= fst p < L)%nat /\ snd p < 32) sp ->
  N.lxor a0 (xor_all (map term sp)) <> 0.
Proof.
  intros L HL a0 sp Ha Hlen Hsp.
  pose proof (detect_check_sound L HL) as S.
  destruct sp as [|[d1 v1] [|[d2 v2] [|[d3 v3] [|? ?]]]]; simpl in Hlen; try lia; simpl; unfold term; simpl.
  - rewrite N.lxor_0_r. lia.
  - inversion Hsp as [|? ? [H1 H1'] _]; subst. simpl in *.
    specialize (S a0 d1 v1 d1 0 d1 0 Ha H1 H1' H1 eq_refl H1 eq_refl).
    rewrite !syn1_0, !N.lxor_0_r in *. exact S.
  - inversion Hsp as [|? ? [H1 H1'] Hsp2]; subst. inversion Hsp2 as [|? ? [H2 H2'] _]; subst. simpl in *.
    specialize (S a0 d1 v1 d2 v2 d2 0 Ha H1 H1' H2 H2' H2 eq_refl).
    rewrite !syn1_0, !N.lxor_0_r in *. rewrite <- N.lxor_assoc. exact S.
  - inversion Hsp as [|? ? [H1 H1'] Hsp2]; subst. inversion Hsp2 as [|? ? [H2 H2'] Hsp3]; subst.
    inversion Hsp3 as [|? ? [H3 H3'] _]; subst. simpl in *.
    specialize (S a0 d1 v1 d2 v2 d3 v3 Ha H1 H1' H2 H2' H3 H3').
    rewrite N.lxor_0_r. rewrite <- N.lxor_assoc. exact S.
Qed.

Lemma synr_zeros_app : forall t x, synr (repeat 0 t ++ x) = Nat.iter t mulx (synr x).
Proof. induction t; intros; simpl; auto. rewrite IHt. reflexivity. Qed.

Lemma split_first_nz : forall r, (1 <= weight r)%nat ->
  exists t a0 r', r = repeat 0 t ++ a0 :: r' /\ a0 <> 0 /\ weight r = S (weight r').
Proof.
  unfold weight. induction r as [|v r IH]; simpl; intros H; [lia|].
  destruct (N.eqb_spec v 0) as [->|Hv]; simpl in *.
  - destruct (IH H) as (t & a0 & r' & -> & Ha & Hw). exists (S t), a0, r'. repeat split; auto.
  - exists 0%nat, v, r. repeat split; auto.
Qed.

Lemma weight_rev : forall e, weight (rev e) = weight e.
Proof.
  unfold weight. induction e as [|v e IH]; simpl; auto.
  rewrite filter_app, app_length, IH. simpl. destruct (v =? 0); simpl; lia.
Qed.

Lemma synr_lt : forall r, Forall (fun v => v < 32) r -> synr r < 2 ^ 30.
Proof.
  intros [|v r] H; cbn [synr]; [reflexivity|]. inversion H; subst.
  apply lxor_small; [|apply mulx_lt]. change (2 ^ 30) with 1073741824. lia.
Qed.

(* every error pattern of weight 1..4 over at most L symbols has a non-zero syndrome *)
Theorem syn_nonzero : forall L, detect_check L = true ->
  forall e, syms_ok e -> (length e <= L)%nat -> (1 <= weight e <= 4)%nat -> syn e <> 0.
Proof.
  intros L HL e He Hlen Hw.
  rewrite <- (rev_involutive e), syn_rev.
  set (r := rev e).
  assert (Hr : Forall (fun v => v < 32) r) by (apply Forall_rev; exact He).
  assert (Hlr : (length r <= L)%nat) by (unfold r; rewrite rev_length; assumption).
  assert (Hwr : (1 <= weight r <= 4)%nat) by (unfold r; rewrite weight_rev; assumption).
  destruct (split_first_nz r (proj1 Hwr)) as (t & a0 & r' & Er & Ha & Hw').
  rewrite Er, synr_zeros_app.
  rewrite Er in Hr. apply Forall_app in Hr. destruct Hr as [_ Hr]. inversion Hr as [|? ? Ha32 Hr']; subst a0 l.
  match goal with |- Nat.iter t mulx ?X <> 0 => assert (HX : X <> 0 /\ X < 2 ^ 30) end.
  { split; [|apply synr_lt; constructor; assumption].
    simpl. change (mulx (synr r')) with (Nat.iter 1 mulx (synr r')). rewrite synr_supp.
    apply (detect_sparse L HL).
    - lia.
    - rewrite supp_length. lia.
    - eapply Forall_impl; [|apply supp_range; exact Hr'].
      intros p [Hp1 Hp2]. split; [|assumption].
      rewrite Er, app_length, repeat_length in Hlr. simpl in Hlr. lia. }
  apply iter_mulx_nz; tauto.
Qed.

(* ---------------------------------------------------------------------------------------------- *)
(* Hamming distance and the statement about VerifyChecksum *)
Fixpoint hamming (a b : list N) : nat :=
  match a, b with
  | x :: a', y :: b' => (if x =? y then 0 else 1) + hamming a' b'
  | _, _ => 0
  end.

Lemma weight_xorl : forall a b, weight (xorl a b) = hamming a b.
Proof.
  unfold weight. induction a as [|x a IH]; intros [|y b]; simpl; auto.
  rewrite <- IH. destruct (N.eqb_spec x y) as [->|Hne].
  - rewrite N.lxor_nilpotent. reflexivity.
  - destruct (N.eqb_spec (N.lxor x y) 0) as [E|_]; [apply N.lxor_eq in E; contradiction|]. reflexivity.
Qed.

Lemma xorl_length : forall a b, length a = length b -> length (xorl a b) = length a.
Proof. induction a; intros [|y b] H; simpl in *; try lia. f_equal. apply IHa. lia. Qed.

Lemma xorl_syms : forall a b, syms_ok a -> syms_ok b -> syms_ok (xorl a b).
Proof.
  induction a; intros [|y b] Ha Hb; simpl; try constructor.
  - inversion Ha; inversion Hb; subst. change 32 with (2 ^ 5). apply lxor_small; assumption.
  - inversion Ha; inversion Hb; subst. apply IHa; assumption.
Qed.

Definition MAX_DETECT_LEN : nat := 89.
Lemma detect_check_89 : detect_check MAX_DETECT_LEN = true.
Proof. vm_compute. reflexivity. Qed.

(* If the symbols after the HRP (data and checksum, at most 89 of them) verify as encoding e, then no
   string of symbols that differs from them in 1 to 4 positions verifies as e *)
Theorem bech32_detects_4 : forall e hrp w w', length w' = length w -> (length w <= MAX_DETECT_LEN)%nat ->
  syms_ok w -> syms_ok w' -> (1 <= hamming w w' <= 4)%nat ->
  verify_checksum hrp w = VEnc e -> verify_checksum hrp w' <> VEnc e.
Proof.
  intros e hrp w w' Hlen HL Hw Hw' Hd Hv Hv'.
  unfold verify_checksum in Hv, Hv'. apply verdict_constant in Hv. apply verdict_constant in Hv'.
  unfold polymod, prepare in Hv, Hv'.
  rewrite app_comm_cons, app_assoc, polymod_from_app in Hv, Hv'.
  set (c := polymod_from 1 (map hrp_hi hrp ++ 0 :: map hrp_lo hrp)) in *.
  assert (E : syn (xorl w w') = 0).
  { unfold syn. pose proof (polymod_from_lxor w w' c c (eq_sym Hlen)) as P.
    rewrite Hv, Hv', !N.lxor_nilpotent in P. exact P. }
  revert E. apply (syn_nonzero MAX_DETECT_LEN detect_check_89).
  - apply xorl_syms; assumption.
  - rewrite xorl_length by (symmetry; assumption). assumption.
  - rewrite weight_xorl. assumption.
Qed.
