(* C37: the addrman invariant (structure, counters, reference counts) and its basic consequences. *)
From Coq Require Import Sorted.
From BV Require Import lib.Ints model.AddrMan proofs.AddrManMaps.
Local Open Scope Z_scope.

(* instances of the generic map lemmas *)
Definition zfind_set {V} := @find_set Z V Z.eqb zeqb_spec.
Definition zfind_del {V} := @find_del Z V Z.eqb zeqb_spec.
Definition sfind_set {V} := @find_set slot V sloteqb sloteqb_spec.
Definition sfind_del {V} := @find_del slot V sloteqb sloteqb_spec.

Lemma zfind_zset {V} k k' (v : V) m : zfind k' (zset k v m) = if k =? k' then Some v else zfind k' m.
Proof. apply zfind_set. Qed.
Lemma zfind_zdel {V} k k' (m : list (Z * V)) : zfind k' (zdel k m) = if k =? k' then None else zfind k' m.
Proof. apply zfind_del. Qed.
Lemma sfind_sset {V} k k' (v : V) m : sfind k' (sset k v m) = if sloteqb k k' then Some v else sfind k' m.
Proof. apply sfind_set. Qed.
Lemma sfind_sdel {V} k k' (m : list (slot * V)) : sfind k' (sdel k m) = if sloteqb k k' then None else sfind k' m.
Proof. apply sfind_del. Qed.
Lemma sloteqb_refl s : sloteqb s s = true.
Proof. apply sloteqb_spec. reflexivity. Qed.
Lemma sloteqb_false a b : a <> b -> sloteqb a b = false.
Proof. intros H. destruct (sloteqb a b) eqn:E; auto. apply sloteqb_spec in E. contradiction. Qed.
Lemma sloteqb_true a b : sloteqb a b = true -> a = b.
Proof. apply sloteqb_spec. Qed.

Definition in_list (x : Z) (l : list Z) : bool := existsb (Z.eqb x) l.
Lemma in_list_In x l : in_list x l = true <-> In x l.
Proof. unfold in_list. rewrite existsb_exists. split; [intros (y & A & B); apply Z.eqb_eq in B; subst; auto | intros H; exists x; split; auto; apply Z.eqb_refl]. Qed.
Lemma in_list_false x l : in_list x l = false <-> ~ In x l.
Proof. rewrite <- in_list_In. destruct (in_list x l); split; congruence. Qed.

(* number of new-table slots holding id *)
Definition refs (id : Z) (newt : list (slot * Z)) : Z := mcount (fun e => snd e =? id) newt.

Lemma refs_nonneg id t : 0 <= refs id t.
Proof. apply mcount_nonneg. Qed.
Lemma refs_sdel_some id sl j t : NoDup (keys t) -> sfind sl t = Some j -> refs id (sdel sl t) = refs id t - b2z (j =? id).
Proof. intros ND H. unfold refs, sdel. rewrite (s_count_del _ sl j t ND H). reflexivity. Qed.
Lemma refs_sdel_none id sl t : sfind sl t = None -> refs id (sdel sl t) = refs id t.
Proof. intros H. unfold refs, sdel. apply s_count_del_none; auto. Qed.
Lemma refs_sset_new id sl j t : sfind sl t = None -> refs id (sset sl j t) = refs id t + b2z (j =? id).
Proof. intros H. unfold refs, sset. rewrite (s_count_set_new _ sl j t H). reflexivity. Qed.
Lemma refs_pos_slot id t : 0 < refs id t -> exists sl, sfind sl t = Some id \/ (exists sl', In (sl', id) t /\ sl = sl').
Proof. intros H. apply (mcount_pos_ex sloteqb sloteqb_spec) in H. destruct H as (k & v & A & B). simpl in B. apply Z.eqb_eq in B. subst. exists k. right. exists k. auto. Qed.
Lemma refs_pos_find id t : NoDup (keys t) -> 0 < refs id t -> exists sl, sfind sl t = Some id.
Proof. intros ND H. apply (mcount_pos_ex sloteqb sloteqb_spec) in H. destruct H as (k & v & A & B). simpl in B. apply Z.eqb_eq in B. subst.
  exists k. apply s_In_find; auto. Qed.
Lemma find_refs_pos id sl t : sfind sl t = Some id -> 1 <= refs id t.
Proof. intros H. apply s_find_In in H. unfold refs.
  induction t as [|[k v] r IH]; simpl in H; [tauto|]. rewrite mcount_cons. destruct H as [H|H].
  - inversion H; subst. simpl. rewrite Z.eqb_refl. pose proof (mcount_nonneg (fun e : slot * Z => snd e =? id) r). unfold b2z. lia.
  - specialize (IH H). destruct (snd (k, v) =? id); unfold b2z; lia. Qed.
Lemma refs_zero_nofind id t : refs id t = 0 -> forall sl, sfind sl t <> Some id.
Proof. intros H sl F. apply find_refs_pos in F. lia. Qed.
Lemma nofind_refs_zero id t : (forall sl, sfind sl t <> Some id) -> NoDup (keys t) -> refs id t = 0.
Proof. intros H ND. apply mcount_all_zero. intros k v HI. simpl. destruct (v =? id) eqn:E; auto. apply Z.eqb_eq in E. subst.
  exfalso. apply (H k). apply s_In_find; auto. Qed.

(* NoDup list of integers in [0, n) has at most n elements *)
Lemma In_zseq x n : In x (zseq n) <-> 0 <= x < n.
Proof. unfold zseq. rewrite in_map_iff. split.
  - intros (y & A & B). apply in_seq in B. lia.
  - intros H. exists (Z.to_nat x). split; [lia|]. apply in_seq. lia. Qed.
Lemma zlen_zseq n : 0 <= n -> zlen (zseq n) = n.
Proof. intros H. unfold zseq, zlen. rewrite map_length, seq_length. lia. Qed.
Lemma nodup_range_len (l : list Z) n : 0 <= n -> NoDup l -> (forall x, In x l -> 0 <= x < n) -> zlen l <= n.
Proof. intros Hn ND H. rewrite <- (zlen_zseq n Hn). unfold zlen. apply inj_le. apply NoDup_incl_length; auto.
  intros x Hx. apply In_zseq. auto. Qed.

Section Inv.
  Variable c : cfg.
  Variable tried_bucket : Z -> Z.
  Variable new_bucket : Z -> Z -> Z.
  Variable bucket_pos : bool -> Z -> Z -> Z.
  Variable routable : Z -> bool.
  Variable network : Z -> Z.

  Notation tslot := (tslot tried_bucket bucket_pos).
  Notation nslot := (nslot new_bucket bucket_pos).

  Definition info_ok (a : ainfo) : Prop :=
    0 <= a_last_try a /\ 0 <= a_last_success a /\ (a_tried a = true -> a_last_success a <> 0) /\
    0 <= a_time a < 4294967296 /\ routable (a_key a) = true.
  Definition coll_ok (l : list Z) : Prop := StronglySorted Z.lt l /\ zlen l <= c_COLL c.

  (* structure of the maps and tables *)
  Record SA (s : st) : Prop := mkSA {
    S_nd_info : NoDup (keys (s_info s));
    S_nd_new : NoDup (keys (s_new s));
    S_nd_tried : NoDup (keys (s_tried s));
    S_idc : 0 <= s_idcount s;
    S_ids : forall id a, zfind id (s_info s) = Some a -> 0 <= id < s_idcount s;
    S_addr1 : forall id a, zfind id (s_info s) = Some a -> zfind (a_key a) (s_addr s) = Some id;
    S_addr2 : forall k id, zfind k (s_addr s) = Some id -> exists a, zfind id (s_info s) = Some a /\ a_key a = k;
    S_new : forall b p id, sfind (b, p) (s_new s) = Some id ->
              exists a, zfind id (s_info s) = Some a /\ a_tried a = false /\ p = bucket_pos true b (a_key a) /\ 0 <= b < c_NB c;
    S_ref : forall id a, zfind id (s_info s) = Some a -> a_ref a = refs id (s_new s) /\ a_ref a <= c_MAXREF c;
    S_tried1 : forall sl id, sfind sl (s_tried s) = Some id ->
              exists a, zfind id (s_info s) = Some a /\ a_tried a = true /\ sl = tslot (a_key a);
    S_tried2 : forall id a, zfind id (s_info s) = Some a -> a_tried a = true -> sfind (tslot (a_key a)) (s_tried s) = Some id;
    S_stats : forall id a, zfind id (s_info s) = Some a -> info_ok a;
    S_coll : coll_ok (s_coll s)
  }.
  (* vRandom <-> nRandomPos *)
  Record SR (s : st) : Prop := mkSR {
    S_rand1 : forall id a, zfind id (s_info s) = Some a -> znth (a_rpos a) (s_random s) = Some id;
    S_rand2 : forall i id, znth i (s_random s) = Some id -> exists a, zfind id (s_info s) = Some a /\ a_rpos a = i;
    S_randlen : zlen (s_random s) = zlen (s_info s)
  }.
  Definition SInv (s : st) : Prop := SA s /\ SR s.

  (* counters; L = ids of non-tried entries the counters currently do not count (inside MakeTried) *)
  Definition is_new (L : list Z) (e : Z * ainfo) : bool := negb (a_tried (snd e)) && negb (in_list (fst e) L).
  Definition is_tried (e : Z * ainfo) : bool := a_tried (snd e).
  Definition on_net (net : Z) (e : Z * ainfo) : bool := network (a_key (snd e)) =? net.
  Record Cnt (L : list Z) (s : st) : Prop := mkCnt {
    C_nd : NoDup (keys (s_netcnt s));
    C_new : s_nnew s = mcount (is_new L) (s_info s);
    C_tried : s_ntried s = mcount is_tried (s_info s);
    C_net : forall net, nc_get (s_netcnt s) net =
              (mcount (fun e => is_new L e && on_net net e) (s_info s), mcount (fun e => is_tried e && on_net net e) (s_info s))
  }.
  (* every new entry is referenced, except the ids in X (inside AddSingle / MakeTried) *)
  Definition RInv (X : list Z) (s : st) : Prop :=
    forall id a, zfind id (s_info s) = Some a -> a_tried a = false -> ~ In id X -> 1 <= a_ref a.

  Definition IDLIM : Z := 4611686018427387904.   (* 2^62: nIdCount is an int64 *)
  Definition GInv (L X : list Z) (s : st) : Prop := SA s /\ SR s /\ Cnt L s /\ RInv X s.
  Definition Inv (s : st) : Prop := GInv [] [] s.

  (* ---- consequences ---- *)
  Lemma S_info_len s : SA s -> zlen (s_info s) <= s_idcount s.
  Proof. intros H. replace (zlen (s_info s)) with (zlen (keys (s_info s))) by (unfold zlen, keys; rewrite map_length; auto).
    apply nodup_range_len; [apply (S_idc s H) | apply (S_nd_info s H) |].
    intros x Hx. apply z_key_find in Hx. destruct Hx as (v & Hv). apply (S_ids s H x v Hv). Qed.

  Lemma tried_ref0 s id a : SA s -> zfind id (s_info s) = Some a -> a_tried a = true -> a_ref a = 0.
  Proof. intros H F T. destruct (S_ref s H id a F) as [E _]. rewrite E. apply nofind_refs_zero; [|apply (S_nd_new s H)].
    intros [b p] F2. destruct (S_new s H b p id F2) as (a' & A & B & _). rewrite F in A. inversion A; subst. congruence. Qed.

  Lemma key_unique s id1 id2 a1 a2 : SA s -> zfind id1 (s_info s) = Some a1 -> zfind id2 (s_info s) = Some a2 -> a_key a1 = a_key a2 -> id1 = id2.
  Proof. intros H F1 F2 E. pose proof (S_addr1 s H id1 a1 F1) as A1. pose proof (S_addr1 s H id2 a2 F2) as A2. rewrite E in A1. congruence. Qed.

  Lemma rpos_unique s id1 id2 a1 a2 : SR s -> zfind id1 (s_info s) = Some a1 -> zfind id2 (s_info s) = Some a2 -> a_rpos a1 = a_rpos a2 -> id1 = id2.
  Proof. intros H F1 F2 E. pose proof (S_rand1 s H id1 a1 F1) as A1. pose proof (S_rand1 s H id2 a2 F2) as A2. rewrite E in A1. congruence. Qed.

  Lemma find_addr_some s k id a : SA s -> find_addr s k = Some (id, a) -> zfind id (s_info s) = Some a /\ a_key a = k.
  Proof. intros H. unfold find_addr. destruct (zfind k (s_addr s)) as [i|] eqn:E; [|discriminate].
    destruct (zfind i (s_info s)) as [a0|] eqn:E2; [|discriminate]. intros X; inversion X; subst. split; auto.
    destruct (S_addr2 s H k id E) as (a1 & A & B). congruence. Qed.
  Lemma find_addr_none s k : SA s -> find_addr s k = None -> forall id a, zfind id (s_info s) = Some a -> a_key a <> k.
  Proof. intros H. unfold find_addr. intros F id a Fa E. pose proof (S_addr1 s H id a Fa) as A. rewrite E in A. rewrite A, Fa in F. discriminate. Qed.
  Lemma find_addr_of_info s id a : SA s -> zfind id (s_info s) = Some a -> find_addr s (a_key a) = Some (id, a).
  Proof. intros H F. unfold find_addr. rewrite (S_addr1 s H id a F), F. reflexivity. Qed.
End Inv.
