(* C49 — composite hashers: CHash256, CHash160, TaggedHash, BIP32Hash equal their definitions for every
   fragmentation; MurmurHash3 reference vectors. *)
From Coq Require Import NArith Arith.
From BV Require Import lib.Ints model.CryptoBase model.CryptoMD model.CryptoSHA256 model.CryptoRIPEMD160
  model.CryptoSHA512 model.CryptoHMAC model.CryptoHMACInst model.CryptoHashWrap
  proofs.CryptoBaseLemmas proofs.CryptoMDLemmas proofs.CryptoSHA256Lemmas proofs.CryptoHashesLemmas
  proofs.CryptoHMACLemmas proofs.CryptoHMACInstLemmas.
Local Open Scope Z_scope.

Lemma small_len n : (n <= 1000)%nat -> 8 * Z.of_nat n < 2 ^ 64.
Proof. intros H. change (2 ^ 64) with 18446744073709551616. lia. Qed.

Theorem chash256_stream_eq_spec ubuf ubuf2 chunks :
  length ubuf = 64%nat -> length ubuf2 = 64%nat -> 8 * Z.of_nat (length (concat chunks)) < 2 ^ 64 ->
  chash256_stream ubuf ubuf2 chunks = hash256_spec (concat chunks).
Proof.
  intros Hu Hu2 Hl. unfold chash256_stream, hash256_spec.
  rewrite csha256_stream_eq_spec by assumption.
  pose proof (csha256_stream_eq_spec ubuf2 [sha256_spec (concat chunks)] Hu2) as H.
  cbn [fold_left concat] in H. rewrite app_nil_r in H. apply H.
  rewrite sha256_spec_length. apply small_len. lia.
Qed.

Theorem chash160_stream_eq_spec ubuf ubuf2 chunks :
  length ubuf = 64%nat -> length ubuf2 = 64%nat -> 8 * Z.of_nat (length (concat chunks)) < 2 ^ 64 ->
  chash160_stream ubuf ubuf2 chunks = hash160_spec (concat chunks).
Proof.
  intros Hu Hu2 Hl. unfold chash160_stream, hash160_spec.
  rewrite csha256_stream_eq_spec by assumption.
  pose proof (cripemd160_stream_eq_spec ubuf2 [sha256_spec (concat chunks)] Hu2) as H.
  cbn [fold_left concat] in H. rewrite app_nil_r in H. apply H.
  rewrite sha256_spec_length. apply small_len. lia.
Qed.

Theorem tagged_hash_stream_eq_spec ubuf tag chunks :
  length ubuf = 64%nat -> 8 * Z.of_nat (length tag) < 2 ^ 64 ->
  8 * Z.of_nat (64 + length (concat chunks)) < 2 ^ 64 ->
  tagged_hash_stream ubuf tag chunks = tagged_hash_spec tag (concat chunks).
Proof.
  intros Hu Ht Hl. unfold tagged_hash_stream, tagged_hash_spec.
  pose proof (csha256_stream_eq_spec ubuf [tag] Hu) as H1.
  cbn [fold_left concat] in H1. rewrite app_nil_r in H1. rewrite H1 by exact Ht.
  set (th := sha256_spec tag).
  pose proof (csha256_stream_eq_spec ubuf (th :: th :: chunks) Hu) as H2.
  cbn [fold_left concat] in H2. apply H2.
  rewrite !app_length. unfold th. rewrite !sha256_spec_length.
  replace (32 + (32 + length (concat chunks)))%nat with (64 + length (concat chunks))%nat by lia. exact Hl.
Qed.

Theorem bip32_hash_model_eq_spec ubuf chaincode nchild header data :
  length ubuf = 128%nat -> 0 <= nchild < 2 ^ 32 ->
  8 * Z.of_nat (length chaincode) < 2 ^ 64 -> 8 * Z.of_nat (128 + 1 + length data + 4) < 2 ^ 64 ->
  bip32_hash_model ubuf chaincode nchild header data = bip32_hash_spec chaincode nchild header data.
Proof.
  intros Hu Hn Hc Hd. unfold bip32_hash_model, bip32_hash_spec.
  rewrite wrapu32_id by (unfold UINT32_MAX; change (2 ^ 32) with 4294967296 in Hn; lia).
  rewrite chmac_sha512_stream_eq_spec; try assumption.
  - cbn [concat]. rewrite app_nil_r. reflexivity.
  - cbn [concat]. rewrite app_nil_r, !app_length, be_bytes_length. cbn [length].
    replace (128 + (1 + (length data + 4)))%nat with (128 + 1 + length data + 4)%nat by lia. exact Hd.
Qed.

(* MurmurHash3_x86_32 verification values (SMHasher reference; also src/test/hash_tests.cpp) *)
Example murmur3_vec_1 : murmurhash3 0 [] = 0. Proof. vm_compute. reflexivity. Qed.
Example murmur3_vec_2 : murmurhash3 0xFBA4C795 [] = 0x6a396f08. Proof. vm_compute. reflexivity. Qed.
Example murmur3_vec_3 : murmurhash3 0xffffffff [] = 0x81f16f39. Proof. vm_compute. reflexivity. Qed.
Example murmur3_vec_4 : murmurhash3 0 [0]%N = 0x514e28b7. Proof. vm_compute. reflexivity. Qed.
Example murmur3_vec_5 : murmurhash3 0xFBA4C795 [0]%N = 0xea3f0b17. Proof. vm_compute. reflexivity. Qed.
Example murmur3_vec_6 : murmurhash3 0 [0xff]%N = 0xfd6cf10d. Proof. vm_compute. reflexivity. Qed.
Example murmur3_vec_7 : murmurhash3 0 [0; 0x11]%N = 0x16c6b7ab. Proof. vm_compute. reflexivity. Qed.
Example murmur3_vec_8 : murmurhash3 0 [0; 0x11; 0x22]%N = 0x8eb51c3d. Proof. vm_compute. reflexivity. Qed.
Example murmur3_vec_9 : murmurhash3 0 [0; 0x11; 0x22; 0x33]%N = 0xb4471bf8. Proof. vm_compute. reflexivity. Qed.
Example murmur3_vec_10 : murmurhash3 0 [0; 0x11; 0x22; 0x33; 0x44]%N = 0xe2301fa8. Proof. vm_compute. reflexivity. Qed.
Example murmur3_vec_11 : murmurhash3 0 [0; 0x11; 0x22; 0x33; 0x44; 0x55; 0x66; 0x77; 0x88]%N = 0xb4698def. Proof. vm_compute. reflexivity. Qed.
