(* A concrete small history used by the non-vacuity examples of C01 / C02 / C09: 100 coinbase-only
   blocks, two blocks that spend matured coinbases (with an OP_RETURN output and a fee), and a
   reorganisation of depth 2 onto a competing branch that spends the same coinbase differently.
   Definitions only. *)
From BV Require Import lib.Ints lib.ChainParams gen.Params_gen model.Amount model.Ledger.
From BV Require model.TxCheck.
Local Open Scope Z_scope.

Definition ex_cf : config :=
  {| cf_interval := cp_halving_interval chain_regtest; cf_bip30 := true; cf_script_checks := true; cf_par := true;
     cf_disc_bip30_exception := false |}.
Definition BTC50 : Z := 5000000000.
Definition ex_null : lin := {| i_prev := (0, 4294967295); i_script_ok := true |}.
Definition ex_in (txid n : Z) : lin := {| i_prev := (txid, n); i_script_ok := true |}.
Definition ex_out (v : Z) : lout := {| o_value := v; o_spendable := true |}.
Definition ex_burn (v : Z) : lout := {| o_value := v; o_spendable := false |}.
Definition ex_cb (id : Z) (outs : list lout) : ltx := {| t_id := id; t_in := [ex_null]; t_out := outs |}.

(* blocks 1..100: coinbase i pays 50 BTC (+ the zero-value witness commitment, unspendable) *)
Definition ex_base : list block :=
  map (fun i => [ex_cb (Z.of_nat i) [ex_out BTC50; ex_burn 0]]) (seq 1 100).

(* branch A *)
Definition ex_txA : ltx := {| t_id := 1001; t_in := [ex_in 1 0];
                              t_out := [ex_out 3000000000; ex_out 1999998500; ex_burn 500] |}.   (* fee 1000 *)
Definition ex_A101 : block := [ex_cb 101 [ex_out (BTC50 + 1000)]; ex_txA].
Definition ex_txB : ltx := {| t_id := 1002; t_in := [ex_in 1001 0; ex_in 2 0]; t_out := [ex_out 7999990000] |}. (* fee 10000 *)
Definition ex_A102 : block := [ex_cb 102 [ex_out BTC50]; ex_txB].   (* leaves the fee unclaimed *)
(* branch B *)
Definition ex_txC : ltx := {| t_id := 1003; t_in := [ex_in 1 0]; t_out := [ex_out 4999999999] |}.   (* fee 1 *)
Definition ex_B101 : block := [ex_cb 201 [ex_out (BTC50 + 1)]; ex_txC].
Definition ex_B102 : block := [ex_cb 202 [ex_out BTC50]].
Definition ex_B103 : block := [ex_cb 203 [ex_out BTC50]; {| t_id := 1004; t_in := [ex_in 1003 0; ex_in 3 0]; t_out := [ex_out 1; ex_burn 9999999998] |}].

Definition ex_ops : list op :=
  map op_connect ex_base ++ [op_connect ex_A101; op_connect ex_A102; op_reorg 2 [ex_B101; ex_B102; ex_B103]].
Definition ex_final : chainstate := run ex_cf genesis_state ex_ops.
Definition ex_before_reorg : chainstate := run ex_cf genesis_state (map op_connect ex_base ++ [op_connect ex_A101; op_connect ex_A102]).
Definition ex_at_100 : chainstate := run ex_cf genesis_state (map op_connect ex_base).

(* rejected shapes on top of the 100 blocks *)
Definition ex_overpay : block := [ex_cb 301 [ex_out (BTC50 + 1001)]; ex_txA].
Definition ex_dup_input : block := [ex_cb 302 [ex_out BTC50]; {| t_id := 1010; t_in := [ex_in 1 0; ex_in 1 0]; t_out := [ex_out 1] |}].
Definition ex_two_spenders : block := [ex_cb 303 [ex_out BTC50]; ex_txA; ex_txC].
Definition ex_forward : block :=
  [ex_cb 304 [ex_out BTC50]; {| t_id := 1011; t_in := [ex_in 1001 0]; t_out := [ex_out 1] |}; ex_txA].
Definition ex_premature : block := [ex_cb 305 [ex_out BTC50]; {| t_id := 1012; t_in := [ex_in 2 0]; t_out := [ex_out 1] |}].
Definition ex_spend_burn : block :=
  [ex_cb 306 [ex_out BTC50]; ex_txA; {| t_id := 1013; t_in := [ex_in 1001 2]; t_out := [ex_out 1] |}].
Definition ex_inflate : block := [ex_cb 307 [ex_out BTC50]; {| t_id := 1014; t_in := [ex_in 1 0]; t_out := [ex_out (BTC50 + 1)] |}].
