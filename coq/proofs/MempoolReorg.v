(* The invariant of the states (Inv), its preservation by every operation - acceptance with LimitMempoolSize, a reorg step
   (disconnects, connects, MaybeUpdateMempoolForReorg: resurrect, removeForReorg, LimitMempoolSize), expiry, trimming - and
   hence by every history; no operation aborts. *)
From BV Require Import lib.Ints gen.Params_gen model.Locks model.Mempool proofs.LocksLemmas.
From BV Require Import proofs.MempoolBase proofs.MempoolPool proofs.MempoolGraph proofs.MempoolChain proofs.MempoolInv proofs.MempoolBlock.
Local Open Scope Z_scope.

Lemma Forall2_In_r {A B} (R : A -> B -> Prop) l l' y : Forall2 R l l' -> In y l' -> exists x, In x l /\ R x y.
Proof.
  induction 1 as [|a b l l' H HF IH]; intros Hy; [destruct Hy|].
  destruct Hy as [<-|Hy]; [exists a; split; [left; reflexivity|exact H]|].
  destruct (IH Hy) as (x & Hx & Rx). exists x. split; [right; exact Hx|exact Rx].
Qed.
Lemma Forall2_map_eq {A B C} (f : A -> C) (g : B -> C) l l' : Forall2 (fun a b => g b = f a) l l' -> map g l' = map f l.
Proof. induction 1; simpl; congruence. Qed.
Lemma Forall2_impl {A B} (R R' : A -> B -> Prop) l l' : (forall a b, R a b -> R' a b) -> Forall2 R l l' -> Forall2 R' l l'.
Proof. intros H. induction 1; constructor; auto. Qed.

Section WithU.
Variable U : tx -> Prop.
Hypothesis U_inj : forall t1 t2, U t1 -> U t2 -> t_id t1 = t_id t2 -> t1 = t2.
Hypothesis U_wf : forall t, U t -> 0 <= t_locktime t <= 4294967295.

Notation J := (J U).

(* final and mature for the next block *)
Definition next_ok (c : chain) (p : pool) : Prop :=
  (forall e, In e (p_entries p) -> check_final c (e_tx e) = true) /\
  (forall e o h, In e (p_entries p) -> In o (t_ins (e_tx e)) -> utxo c o = Some (h, true) -> COINBASE_MATURITY <= height c + 1 - h) /\
  (* the cached LockPoints refer to a block of the active chain and are satisfied in the next block *)
  (forall e, In e (p_entries p) -> lock_points_valid c (e_lp e) = true /\ check_seq_locks c (e_lp e) = true).

Record Inv (st : state) : Prop := {
  inv_J : J (s_chain st) (s_pool st) [];
  inv_next : next_ok (s_chain st) (s_pool st) }.

Lemma next_ok_sub c p q : next_ok c p -> incl (p_entries q) (p_entries p) -> next_ok c q.
Proof. intros [A [B C]] H. split; [intros e He; apply A; auto|split; [intros e o h He; apply B; auto|intros e He; apply C; auto]]. Qed.

Lemma Inv_remove_desc c p seeds : J c p [] -> next_ok c p ->
  J c (remove_list p (descendants p seeds)) [] /\ next_ok c (remove_list p (descendants p seeds)).
Proof.
  intros Hj Hn. split; [apply J_remove_desc; exact Hj|].
  eapply next_ok_sub; [exact Hn|]. intros e He. apply remove_list_In in He. tauto.
Qed.

Lemma expire_Inv c p cutoff : J c p [] -> next_ok c p -> J c (expire p cutoff) [] /\ next_ok c (expire p cutoff).
Proof. intros. unfold expire. apply Inv_remove_desc; assumption. Qed.
Lemma trim_Inv c p evict : J c p [] -> next_ok c p -> J c (trim p evict) [] /\ next_ok c (trim p evict).
Proof. intros. unfold trim. apply Inv_remove_desc; assumption. Qed.
Lemma limit_size_Inv c p expiry now evict : J c p [] -> next_ok c p ->
  J c (limit_size expiry now evict p) [] /\ next_ok c (limit_size expiry now evict p).
Proof. intros Hj Hn. unfold limit_size. destruct (expire_Inv c p (now - expiry) Hj Hn) as [A B]. apply trim_Inv; assumption. Qed.

(* ------------------------------------------------------------------------------------------ *)
(* acceptance *)

Lemma maturity_arith c h : chain_okb c = true -> 0 <= h <= height c ->
  (wrap32 (height c + 1 - h) <? COINBASE_MATURITY) = false -> COINBASE_MATURITY <= height c + 1 - h.
Proof.
  intros Hc Hh H. pose proof (chain_ok_height c Hc) as B. unfold INT32_MAX in B.
  rewrite wrap32_id in H by (unfold INT32_MIN, INT32_MAX; lia). apply Z.ltb_ge in H. exact H.
Qed.

Lemma utxo_height c o h cb : utxo c o = Some (h, cb) -> 0 <= h <= height c.
Proof. intros H. apply utxo_Some_creator in H. destruct H as [H _]. apply find_creator_Some in H. destruct H as (_ & _ & _ & _ & _ & _ & H). exact H. Qed.

Lemma pool_parent_not_utxo c p dp o : J c p dp -> in_pool p (fst o) = true -> utxo c o = None.
Proof.
  intros Hj I. destruct (utxo c o) eqn:E; [|reflexivity]. exfalso. apply in_pool_iff, in_map_iff in I.
  destruct I as (e & Ee & He). apply (j_disj _ _ _ _ Hj e He). rewrite Ee. apply utxo_id. congruence.
Qed.

Lemma accept_next_ok pol c now p t p' repl : J c p [] -> next_ok c p -> U t ->
  accept false pol c now p t = (p', Accepted repl) -> J c p' [] /\ next_ok c p' /\ In (t_id t) (pool_ids p').
Proof.
  intros Hj [Hf [Hm Hl]] Ut Ha. destruct (accept_J U U_inj _ _ _ _ _ _ _ _ Hj Ut Ha) as [Hj' Af].
  destruct Af as [Hvin Hnd Hfin Hfresh (coins & lp & Hcoins & Hmat & Hlp & Hsl & Ep') Hanc Hrepl].
  split; [exact Hj'|]. split; [|rewrite Ep'; unfold pool_ids; rewrite add_entry_entries, map_app; apply in_app_iff; right; left; reflexivity].
  split; [|split].
  3:{ intros e He. rewrite Ep', add_entry_entries in He. apply in_app_iff in He. destruct He as [He|[<-|[]]].
      - apply Hl. apply remove_list_In in He. tauto.
      - simpl. split; [|exact Hsl]. unfold calc_lock_points in Hlp. destruct (calculate_sequence_locks _ _ _ _); [|discriminate].
        destruct (block_id_at c _) eqn:Eb; [|discriminate]. inversion Hlp; subst. unfold lock_points_valid. simpl. rewrite Eb. apply Z.eqb_refl. }
  - intros e He. rewrite Ep', add_entry_entries in He. apply in_app_iff in He. destruct He as [He|[<-|[]]]; [|exact Hfin].
    apply Hf. apply remove_list_In in He. tauto.
  - intros e o h He Ho Hu. rewrite Ep', add_entry_entries in He. apply in_app_iff in He. destruct He as [He|[<-|[]]].
    + apply remove_list_In in He. eapply Hm; [apply He|exact Ho|exact Hu].
    + simpl in Ho. pose proof (view_coins_spec _ _ _ _ Hcoins) as Hvc.
      destruct (Forall2_In_l _ _ _ _ Hvc Ho) as (y & Hy & Vy). unfold view_coin in Vy.
      destruct (find_entry p (fst o)) as [e1|] eqn:F.
      * exfalso. assert (in_pool p (fst o) = true) as I by (unfold in_pool; rewrite F; reflexivity).
        rewrite (pool_parent_not_utxo c p [] o Hj I) in Hu. discriminate.
      * rewrite Hu in Vy. inversion Vy; subst y. unfold mature, check_inputs_maturity in Hmat. apply negb_true_iff in Hmat.
        assert (premature_spend (height c + 1) {| c_height := h; c_coinbase := true |} = false) as P.
        { destruct (premature_spend _ _) eqn:P; [|reflexivity]. rewrite <- not_true_iff_false in Hmat. exfalso. apply Hmat.
          apply existsb_exists. exists {| c_height := h; c_coinbase := true |}. split; [|exact P].
          apply in_map_iff. exists (h, true). auto. }
        unfold premature_spend in P. simpl in P.
        apply maturity_arith; [exact (j_chain _ _ _ _ Hj)|eapply utxo_height; exact Hu|exact P].
Qed.

Lemma process_transaction_Inv st t pol evict : Inv st -> U t ->
  Inv (fst (process_transaction false pol evict st t)).
Proof.
  intros [Hj Hn] Ut. unfold process_transaction.
  destruct (accept false pol (s_chain st) (s_now st) (s_pool st) t) as [p1 r] eqn:Ea.
  destruct r as [repl|r]; simpl; [|constructor; assumption].
  destruct (accept_next_ok _ _ _ _ _ _ _ Hj Hn Ut Ea) as (Hj1 & Hn1 & _).
  destruct (limit_size_Inv _ _ (s_expiry st) (s_now st) evict Hj1 Hn1) as [A B]. constructor; simpl; assumption.
Qed.

Lemma process_test_same st t pol : fst (process_transaction true pol [] st t) = st.
Proof.
  unfold process_transaction. destruct (accept true pol _ _ _ t) as [p1 r]. destruct r; reflexivity.
Qed.

(* ------------------------------------------------------------------------------------------ *)
(* disconnecting and connecting *)

Lemma disconnect_n_J n : forall c p dp, J c p dp -> J (fst (disconnect_n n c dp)) p (snd (disconnect_n n c dp)).
Proof.
  induction n as [|k IH]; intros c p dp Hj; simpl; [exact Hj|].
  destruct c as [|b [|b' r]]; simpl; try exact Hj.
  apply IH. apply disconnect_J; [discriminate|exact Hj].
Qed.
Lemma disconnect_n_len n : forall c dp, (length (fst (disconnect_n n c dp)) <= length c)%nat.
Proof.
  induction n as [|k IH]; intros c dp; simpl; [lia|].
  destruct c as [|b [|b' r]]; simpl; try lia. specialize (IH (b' :: r) (b_txs b ++ dp)). simpl in IH. lia.
Qed.
Lemma disconnect_n_same n c dp : length (fst (disconnect_n n c dp)) = length c -> disconnect_n n c dp = (c, dp).
Proof.
  destruct n as [|k]; simpl; [reflexivity|]. destruct c as [|b [|b' r]]; simpl; try reflexivity.
  intros H. pose proof (disconnect_n_len k (b' :: r) (b_txs b ++ dp)) as L. simpl in L. lia.
Qed.

Definition blocks_U (bs : list block) : Prop := forall b t, In b bs -> In t (b_txs b) -> U t.

Lemma connect_all_J bs : forall c p dp, J c p dp -> blocks_U bs ->
  let r := connect_all c p dp bs in J (fst (fst r)) (snd (fst r)) (snd r).
Proof.
  induction bs as [|b r IH]; intros c p dp Hj HU; simpl; [exact Hj|].
  destruct (block_ok c b) eqn:Hb; simpl; [|exact Hj].
  apply IH.
  - apply connect_J; [exact U_inj|exact Hj|exact Hb|]. intros t Ht. apply (HU b t); [left; reflexivity|exact Ht].
  - intros b' t Hb' Ht. apply (HU b' t); [right; exact Hb'|exact Ht].
Qed.

(* with an empty queue a connect keeps everything final and mature *)
Lemma connect_all_next bs : forall c p, J c p [] -> next_ok c p -> blocks_U bs ->
  let r := connect_all c p [] bs in next_ok (fst (fst r)) (snd (fst r)) /\ snd r = [].
Proof.
  induction bs as [|b r IH]; intros c p Hj Hn HU; simpl; [split; [exact Hn|reflexivity]|].
  destruct (block_ok c b) eqn:Hb; simpl; [|split; [exact Hn|reflexivity]].
  assert (forall t, In t (b_txs b) -> U t) as HbU by (intros t Ht; apply (HU b t); [left; reflexivity|exact Ht]).
  pose proof (connect_J U U_inj c p [] b Hj Hb HbU) as Hj'. simpl in Hj'.
  pose proof (connect_entries_incl p (b_txs b) (j_pool _ _ _ _ Hj)) as Hi.
  apply IH.
  - exact Hj'.
  - destruct Hn as [Hf [Hm Hl]]. split; [|split].
    + intros e He. apply (connect_final U U_inj U_wf); [exact (j_chain _ _ _ _ Hj)|exact Hb|apply (j_pool_U _ _ _ _ Hj); apply Hi; exact He|apply Hf; apply Hi; exact He].
    + intros e o h He Ho Hu. eapply (connect_mature U U_inj c p b e o h Hj Hb HbU); [|apply Hi; exact He|exact Ho|exact Hu].
      intros h' Hu'. eapply Hm; [apply Hi; exact He|exact Ho|exact Hu'].
    + intros e He. destruct (Hl e (Hi e He)) as [L1 L2]. split; [apply lock_points_valid_cons; exact L1|].
      apply check_seq_locks_cons; [apply chain_ok_nonempty; exact (j_chain _ _ _ _ Hj)|exact (bf_time _ _ (block_ok_facts _ _ Hb))|exact L2].
  - intros b' t Hb' Ht. apply (HU b' t); [right; exact Hb'|exact Ht].
Qed.

(* ------------------------------------------------------------------------------------------ *)
(* MaybeUpdateMempoolForReorg: the first loop *)

Lemma resurrect_J add rejected c now : forall dp p, J c p dp -> J c (resurrect add rejected c now p dp) [].
Proof.
  induction dp as [|t r IH]; intros p Hj; simpl; [exact Hj|].
  assert (J c (remove_recursive p (t_id t)) r) as Hrem.
  { destruct (remove_recursive_J U c p (t :: r) (t_id t) Hj) as (A & _ & B & _). eapply J_dp_drop; [exact A|exact B]. }
  apply IH.
  destruct (negb add || is_cb t); [exact Hrem|].
  destruct (accept false None c now p t) as [p1 res] eqn:Ea. destruct res as [repl|rr]; [|exact Hrem].
  destruct (memz (t_id t) rejected); [exact Hrem|].
  assert (U t) as Ut by (apply (j_dp_U _ _ _ _ Hj); left; reflexivity).
  destruct (accept_J U U_inj _ _ _ _ _ _ _ _ Hj Ut Ea) as [Hj1 Af].
  eapply J_dp_absorb; [exact Hj1|]. destruct Af as [_ _ _ _ (coins & lp & _ & _ & _ & _ & Ep') _ _].
  eexists. split; [rewrite Ep', add_entry_entries; apply in_app_iff; right; left; reflexivity|reflexivity].
Qed.

(* ------------------------------------------------------------------------------------------ *)
(* removeForReorg *)

Definition same_tx (e e' : entry) : Prop := e_tx e' = e_tx e /\ e_cb e' = e_cb e.

Lemma filter_entry_shape c p e bad e' : filter_entry c p e = Some (bad, e') -> same_tx e e'.
Proof.
  unfold filter_entry, same_tx. destruct (check_final c (e_tx e)); simpl; [|intros H; inversion H; auto].
  assert (forall x : entry, same_tx e x ->
          (if e_cb x then match immature_inputs c p (t_ins (e_tx e)) with Some b => Some (b, x) | None => None end else Some (false, x)) = Some (bad, e') ->
          e_tx e' = e_tx e /\ e_cb e' = e_cb e) as Hafter.
  { intros x [X1 X2] H. destruct (e_cb x) eqn:Ex.
    - destruct (immature_inputs c p _); [|discriminate]. inversion H; subst. split; [assumption|congruence].
    - inversion H; subst. split; [assumption|congruence]. }
  destruct (lock_points_valid c (e_lp e)).
  - destruct (check_seq_locks c (e_lp e)); [apply Hafter; split; reflexivity|intros H; inversion H; auto].
  - destruct (view_coins p c (t_ins (e_tx e))); [|intros H; inversion H; auto].
    destruct (calc_lock_points c l (e_tx e)); [|intros H; inversion H; auto].
    destruct (check_seq_locks c l0); [apply (Hafter {| e_tx := e_tx e; e_time := e_time e; e_cb := e_cb e; e_lp := l0 |}); split; reflexivity|intros H; inversion H; auto].
Qed.

Lemma filter_entry_keep c p e e' : filter_entry c p e = Some (false, e') ->
  check_final c (e_tx e) = true /\ (e_cb e = true -> immature_inputs c p (t_ins (e_tx e)) = Some false).
Proof.
  unfold filter_entry. destruct (check_final c (e_tx e)); simpl; [|discriminate]. split; [reflexivity|].
  assert (forall x : entry, e_cb x = e_cb e ->
          (if e_cb x then match immature_inputs c p (t_ins (e_tx e)) with Some b => Some (b, x) | None => None end else Some (false, x)) = Some (false, e') ->
          e_cb e = true -> immature_inputs c p (t_ins (e_tx e)) = Some false) as Hafter.
  { intros x X Hx Hcb. rewrite X, Hcb in Hx. destruct (immature_inputs c p _) as [[|]|]; [discriminate|reflexivity|discriminate]. }
  destruct (lock_points_valid c (e_lp e)).
  - destruct (check_seq_locks c (e_lp e)); [apply (Hafter e); [reflexivity|exact H]|discriminate].
  - destruct (view_coins p c (t_ins (e_tx e))); [|discriminate].
    destruct (calc_lock_points c l (e_tx e)); [|discriminate].
    destruct (check_seq_locks c l0); [apply (Hafter {| e_tx := e_tx e; e_time := e_time e; e_cb := e_cb e; e_lp := l0 |}); [reflexivity|exact H]|discriminate].
Qed.

Lemma calc_lock_points_valid c coins t lp : calc_lock_points c coins t = Some lp -> lock_points_valid c lp = true.
Proof.
  unfold calc_lock_points. destruct (calculate_sequence_locks _ _ _ _); [|discriminate].
  destruct (block_id_at c _) eqn:Eb; [|discriminate]. intros H. inversion H; subst. unfold lock_points_valid. simpl. rewrite Eb. apply Z.eqb_refl.
Qed.
Lemma filter_entry_keep_lp c p e e' : filter_entry c p e = Some (false, e') ->
  lock_points_valid c (e_lp e') = true /\ check_seq_locks c (e_lp e') = true.
Proof.
  unfold filter_entry. destruct (check_final c (e_tx e)); simpl; [|discriminate].
  assert (forall x : entry, lock_points_valid c (e_lp x) = true /\ check_seq_locks c (e_lp x) = true ->
          (if e_cb x then match immature_inputs c p (t_ins (e_tx e)) with Some b => Some (b, x) | None => None end else Some (false, x)) = Some (false, e') ->
          lock_points_valid c (e_lp e') = true /\ check_seq_locks c (e_lp e') = true) as Hafter.
  { intros x X Hx. destruct (e_cb x); [destruct (immature_inputs c p _) as [[|]|]; try discriminate|]; inversion Hx; subst; exact X. }
  destruct (lock_points_valid c (e_lp e)) eqn:V.
  - destruct (check_seq_locks c (e_lp e)) eqn:S; [|discriminate]. apply (Hafter e). auto.
  - destruct (view_coins p c (t_ins (e_tx e))); [|discriminate].
    destruct (calc_lock_points c l (e_tx e)) as [lp|] eqn:C; [|discriminate].
    destruct (check_seq_locks c lp) eqn:S; [|discriminate].
    apply (Hafter {| e_tx := e_tx e; e_time := e_time e; e_cb := e_cb e; e_lp := lp |}). simpl.
    split; [eapply calc_lock_points_valid; exact C|exact S].
Qed.

Lemma immature_inputs_some c p : forall ins, (forall o, In o ins -> in_pool p (fst o) = true \/ utxo c o <> None) ->
  exists b, immature_inputs c p ins = Some b.
Proof.
  induction ins as [|o r IH]; intros H; simpl; [eauto|].
  destruct (IH (fun o' Ho' => H o' (or_intror Ho'))) as (b & Eb).
  destruct (in_pool p (fst o)) eqn:I; [eauto|].
  destruct (H o (or_introl eq_refl)) as [X|X]; [congruence|]. destruct (utxo c o) as [[ch cb]|]; [|tauto].
  destruct (cb && _); eauto.
Qed.
Lemma immature_inputs_false c p : forall ins, immature_inputs c p ins = Some false ->
  forall o h, In o ins -> in_pool p (fst o) = false -> utxo c o = Some (h, true) ->
  (wrap32 (height c + 1 - h) <? COINBASE_MATURITY) = false.
Proof.
  induction ins as [|o r IH]; simpl; intros H o' h Ho' I Hu; [destruct Ho'|].
  destruct (in_pool p (fst o)) eqn:Io.
  - destruct Ho' as [<-|Ho']; [congruence|]. eapply IH; eassumption.
  - destruct (utxo c o) as [[ch cb]|] eqn:Uo; [|discriminate].
    destruct (cb && (wrap32 (height c + 1 - ch) <? COINBASE_MATURITY)) eqn:B; [discriminate|].
    destruct Ho' as [<-|Ho']; [|eapply IH; eassumption].
    rewrite Hu in Uo. inversion Uo; subst. simpl in B. exact B.
Qed.

Lemma filter_entry_some c p e : (forall o, In o (t_ins (e_tx e)) -> in_pool p (fst o) = true \/ utxo c o <> None) ->
  exists r, filter_entry c p e = Some r.
Proof.
  intros H. destruct (immature_inputs_some c p _ H) as (b & Eb). unfold filter_entry.
  destruct (check_final c (e_tx e)); simpl; [|eauto].
  assert (forall x : entry, exists r,
          (if e_cb x then match immature_inputs c p (t_ins (e_tx e)) with Some b => Some (b, x) | None => None end else Some (false, x)) = Some r) as Hafter.
  { intros x. rewrite Eb. destruct (e_cb x); eauto. }
  destruct (lock_points_valid c (e_lp e)).
  - destruct (check_seq_locks c (e_lp e)); [apply (Hafter e)|eauto].
  - destruct (view_coins p c (t_ins (e_tx e))); [|eauto].
    destruct (calc_lock_points c l (e_tx e)); [|eauto].
    destruct (check_seq_locks c l0); [apply (Hafter {| e_tx := e_tx e; e_time := e_time e; e_cb := e_cb e; e_lp := l0 |})|eauto].
Qed.

Lemma filter_entries_spec c p : forall es es' bad, filter_entries c p es = Some (es', bad) ->
  Forall2 (fun e e' => exists b, filter_entry c p e = Some (b, e') /\ (b = true -> In (e_id e) bad)) es es'.
Proof.
  induction es as [|e r IH]; simpl; intros es' bad H; [inversion H; constructor|].
  destruct (filter_entry c p e) as [[b e']|] eqn:Fe; [|discriminate].
  destruct (filter_entries c p r) as [[r' ids]|] eqn:Fr; [|discriminate].
  inversion H; subst. constructor.
  - exists b. split; [exact Fe|]. intros ->. left. reflexivity.
  - eapply Forall2_impl; [|apply IH; reflexivity]. intros a a' (b' & A & B). exists b'. split; [exact A|].
    intros E. specialize (B E). destruct b; [right; exact B|exact B].
Qed.
Lemma filter_entries_some c p : forall es, (forall e, In e es -> exists r, filter_entry c p e = Some r) ->
  exists r, filter_entries c p es = Some r.
Proof.
  induction es as [|e r IH]; intros H; simpl; [eauto|].
  destruct (H e (or_introl eq_refl)) as ([b e'] & Fe). rewrite Fe.
  destruct (IH (fun x Hx => H x (or_intror Hx))) as ([r' ids] & Fr). rewrite Fr. eauto.
Qed.

(* replacing the entries by entries carrying the same transactions (only the cached lock points differ) *)
Lemma J_reshape c p dp es' : J c p dp -> Forall2 same_tx (p_entries p) es' ->
  J c {| p_entries := es'; p_next := p_next p; p_size := p_size p; p_fee := p_fee p |} dp.
Proof.
  intros Hj HF. pose proof (j_pool _ _ _ _ Hj) as K.
  set (p' := {| p_entries := es'; p_next := p_next p; p_size := p_size p; p_fee := p_fee p |}).
  assert (forall e', In e' es' -> exists e, In e (p_entries p) /\ same_tx e e') as Hr by (intros e' He'; eapply Forall2_In_r; eassumption).
  assert (forall e, In e (p_entries p) -> exists e', In e' es' /\ same_tx e e') as Hl by (intros e He; eapply Forall2_In_l; eassumption).
  assert (map e_tx es' = map e_tx (p_entries p)) as Etx.
  { apply Forall2_map_eq. eapply Forall2_impl; [|exact HF]. intros a b [A _]. exact A. }
  assert (pool_ids p' = pool_ids p) as Eids.
  { unfold pool_ids, p'. simpl. unfold e_id. rewrite <- !(map_map e_tx t_id), Etx. reflexivity. }
  assert (forall id o, spends p' id o <-> spends p id o) as Esp.
  { intros id o. unfold spends, p'. simpl. split.
    - intros (e' & He' & Ee & Ho). destruct (Hr e' He') as (e & He & [T _]). exists e. unfold e_id in *. rewrite <- T. auto.
    - intros (e & He & Ee & Ho). destruct (Hl e He) as (e' & He' & [T _]). exists e'. unfold e_id in *. rewrite T. auto. }
  assert (pool_ok p') as K'.
  { constructor.
    - rewrite Eids. exact (ok_ids p K).
    - intros o id. rewrite Esp. exact (ok_next p K o id).
    - exact (ok_keys p K).
    - intros e' He'. destruct (Hr e' He') as (e & He & [T _]). rewrite T. apply (ok_ins p K). exact He.
    - unfold p'. simpl. rewrite (ok_size p K). f_equal. f_equal. rewrite <- !(map_map e_tx t_size), Etx. reflexivity.
    - unfold p'. simpl. rewrite (ok_fee p K). f_equal. f_equal. rewrite <- !(map_map e_tx t_fee), Etx. reflexivity. }
  constructor.
  - exact (j_chain _ _ _ _ Hj).
  - exact K'.
  - intros e' o He' Ho. destruct (Hr e' He') as (e & He & [T _]). rewrite T in Ho.
    destruct (j_avail _ _ _ _ Hj e o He Ho) as [A|[(x & Hx & Cx)|A]]; [auto| |auto].
    right. left. destruct (Hl x Hx) as (x' & Hx' & [Tx _]). exists x'. rewrite Tx. auto.
  - intros e' He'. destruct (Hr e' He') as (e & He & [T _]). unfold e_id. rewrite T. apply (j_disj _ _ _ _ Hj e He).
  - intros e' o t He' Hcb Ho. destruct (Hr e' He') as (e & He & [T Cb]). rewrite T in Ho. rewrite Cb in Hcb.
    apply (j_flag _ _ _ _ Hj e o t He Hcb Ho).
  - intros e' He'. destruct (Hr e' He') as (e & He & [T _]). rewrite T. apply (j_pool_U _ _ _ _ Hj e He).
  - exact (j_chain_U _ _ _ _ Hj).
  - exact (j_dp_U _ _ _ _ Hj).
Qed.

Lemma in_pool_reshape p es' id : Forall2 same_tx (p_entries p) es' ->
  in_pool {| p_entries := es'; p_next := p_next p; p_size := p_size p; p_fee := p_fee p |} id = in_pool p id.
Proof.
  intros HF. apply eq_true_iff_eq. rewrite !in_pool_iff. unfold pool_ids. simpl.
  assert (map e_id es' = map e_id (p_entries p)) as E.
  { apply Forall2_map_eq. eapply Forall2_impl; [|exact HF]. intros a b [A _]. unfold e_id. rewrite A. reflexivity. }
  rewrite E. tauto.
Qed.

Lemma remove_for_reorg_Inv c p : J c p [] ->
  exists p', remove_for_reorg c p = Some p' /\ J c p' [] /\ next_ok c p'.
Proof.
  intros Hj. pose proof (j_pool _ _ _ _ Hj) as K. unfold remove_for_reorg.
  destruct (filter_entries_some c p (p_entries p)) as ([es' bad] & Fe).
  { intros e He. apply filter_entry_some. intros o Ho.
    destruct (j_avail _ _ _ _ Hj e o He Ho) as [A|[(x & Hx & Cx)|(t & [] & _)]]; [auto|].
    left. apply in_pool_iff. rewrite (tx_creates_id _ _ Cx). apply (in_map e_id). exact Hx. }
  rewrite Fe. pose proof (filter_entries_spec _ _ _ _ _ Fe) as HF.
  assert (Forall2 same_tx (p_entries p) es') as Hshape.
  { eapply Forall2_impl; [|exact HF]. intros a b (x & A & _). eapply filter_entry_shape. exact A. }
  set (p2 := {| p_entries := es'; p_next := p_next p; p_size := p_size p; p_fee := p_fee p |}).
  pose proof (J_reshape c p [] es' Hj Hshape) as Hj2. fold p2 in Hj2.
  assert (forall e', In e' (p_entries (remove_list p2 (descendants p2 bad))) ->
          exists e, In e (p_entries p) /\ filter_entry c p e = Some (false, e')) as Hkept.
  { intros e' He'. apply remove_list_In in He'. destruct He' as [He' Hd]. simpl in He'.
    destruct (Forall2_In_r _ _ _ _ HF He') as (e & He & (b & Fb & Hb)). exists e. split; [exact He|].
    destruct b; [|exact Fb]. exfalso. apply Hd. pose proof (filter_entry_shape _ _ _ _ _ Fb) as [T _].
    assert (e_id e' = e_id e) as Eid by (unfold e_id; rewrite T; reflexivity).
    rewrite Eid. apply desc_seed; [apply Hb; reflexivity|]. rewrite <- Eid. apply in_map. exact He'. }
  (* the assert after the removals holds *)
  assert (forallb (fun e => lock_points_valid c (e_lp e)) (p_entries (remove_list p2 (descendants p2 bad))) = true) as Hassert.
  { apply forallb_forall. intros e' He'. destruct (Hkept e' He') as (e & _ & Fk). apply (filter_entry_keep_lp _ _ _ _ Fk). }
  rewrite Hassert.
  eexists. split; [reflexivity|]. split; [apply J_remove_desc; exact Hj2|].
  split; [|split].
  - intros e' He'. destruct (Hkept e' He') as (e & He & Fk). pose proof (filter_entry_shape _ _ _ _ _ Fk) as [T _].
    rewrite T. apply (filter_entry_keep _ _ _ _ Fk).
  - intros e' o h He' Ho Hu. destruct (Hkept e' He') as (e & He & Fk). pose proof (filter_entry_shape _ _ _ _ _ Fk) as [T Cb].
    rewrite T in Ho. destruct (filter_entry_keep _ _ _ _ Fk) as [_ Hk].
    assert (in_pool p (fst o) = false) as Inp.
    { destruct (in_pool p (fst o)) eqn:I; [|reflexivity]. rewrite (pool_parent_not_utxo c p [] o Hj I) in Hu. discriminate. }
    destruct (e_cb e) eqn:Ecb.
    + apply maturity_arith; [exact (j_chain _ _ _ _ Hj)|eapply utxo_height; exact Hu|].
      eapply immature_inputs_false; [apply Hk; reflexivity|exact Ho|exact Inp|exact Hu].
    + exfalso. apply utxo_Some_creator in Hu. destruct Hu as [Hu _]. apply find_creator_Some in Hu.
      destruct Hu as (b & t & Hb & Ht & Ct & Ecbt & _).
      pose proof (j_flag _ _ _ _ Hj e o t He Ecb Ho (j_chain_U _ _ _ _ Hj b t Hb Ht)) as X.
      rewrite X in Ecbt; [discriminate|]. symmetry. apply tx_creates_id. exact Ct.
  - intros e' He'. destruct (Hkept e' He') as (e & _ & Fk). apply (filter_entry_keep_lp _ _ _ _ Fk).
Qed.

(* ------------------------------------------------------------------------------------------ *)
(* operations and histories *)

Definition op_U (o : op) : Prop :=
  match o with
  | OpAccept t _ _ => U t
  | OpTest t _ => U t
  | OpReorg _ bs _ _ _ => blocks_U bs
  | _ => True
  end.

Lemma reorg_Inv d bs add rejected evict st : Inv st -> blocks_U bs ->
  exists st', reorg d bs add rejected evict st = Some st' /\ Inv st'.
Proof.
  intros [Hj Hn] HU. unfold reorg.
  destruct (disconnect_n d (s_chain st) []) as [c1 dp] eqn:Ed.
  destruct (connect_all c1 (s_pool st) dp bs) as [[c2 p2] dp2] eqn:Ec.
  destruct (Nat.eqb (length (s_chain st)) (length c1)) eqn:El.
  - apply Nat.eqb_eq in El. pose proof (disconnect_n_same d (s_chain st) []) as S. rewrite Ed in S. simpl in S.
    specialize (S (eq_sym El)). inversion S; subst c1 dp.
    pose proof (connect_all_J bs _ _ _ Hj HU) as A. pose proof (connect_all_next bs _ _ Hj Hn HU) as [B C].
    rewrite Ec in A, B, C. simpl in A, B, C. subst dp2. eexists. split; [reflexivity|]. constructor; simpl; assumption.
  - pose proof (disconnect_n_J d _ _ _ Hj) as A. rewrite Ed in A. simpl in A.
    pose proof (connect_all_J bs _ _ _ A HU) as B. rewrite Ec in B. simpl in B.
    pose proof (resurrect_J add rejected c2 (s_now st) dp2 p2 B) as C.
    destruct (remove_for_reorg_Inv c2 _ C) as (p4 & E4 & J4 & N4). rewrite E4.
    destruct (limit_size_Inv c2 p4 (s_expiry st) (s_now st) evict J4 N4) as [J5 N5].
    eexists. split; [reflexivity|]. constructor; simpl; assumption.
Qed.

Lemma step_Inv st o : Inv st -> op_U o -> exists st', step st o = Some st' /\ Inv st'.
Proof.
  intros Hi HU. destruct o as [t pol evict|t pol|d bs add rejected evict|now|evict|cutoff|]; simpl in *.
  - eexists. split; [reflexivity|]. apply process_transaction_Inv; assumption.
  - eexists. split; [reflexivity|]. rewrite process_test_same. exact Hi.
  - apply reorg_Inv; assumption.
  - eexists. split; [reflexivity|]. destruct Hi as [A B]. constructor; simpl; assumption.
  - eexists. split; [reflexivity|]. destruct Hi as [A B]. destruct (trim_Inv _ _ evict A B). constructor; simpl; assumption.
  - eexists. split; [reflexivity|]. destruct Hi as [A B]. destruct (expire_Inv _ _ cutoff A B). constructor; simpl; assumption.
  - eexists. split; [reflexivity|]. exact Hi.
Qed.

Theorem run_Inv ops : forall st, Inv st -> Forall op_U ops -> exists st', run st ops = Some st' /\ Inv st'.
Proof.
  induction ops as [|o r IH]; intros st Hi HU; simpl; [eauto|].
  inversion HU; subst. destruct (step_Inv st o Hi H1) as (st1 & E1 & I1). rewrite E1. apply IH; assumption.
Qed.

End WithU.
