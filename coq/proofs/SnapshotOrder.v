(* C20: the coin set that results from loading does not depend on the order of the coin records
   (distinct outpoints), and is kept in the order in which it is hashed. *)
From Coq Require Import NArith Lia Permutation.
From BV Require Import lib.Ints gen.Params_gen model.SerBase model.SerTx model.Compress model.CompressEC model.CryptoSHA256 model.Snapshot
                       proofs.SnapshotLemmas.
Local Open Scope Z_scope.

Lemma lex_lt_irrefl a : lex_lt a a = false.
Proof. induction a as [|x a IH]; [reflexivity|]. cbn. rewrite N.ltb_irrefl. exact IH. Qed.

Lemma lex_lt_trans a : forall b c, lex_lt a b = true -> lex_lt b c = true -> lex_lt a c = true.
Proof.
  induction a as [|x a IH]; intros [|y b] [|z c] H1 H2; cbn in *; try discriminate; try reflexivity.
  destruct (x <? y)%N eqn:Exy.
  - apply N.ltb_lt in Exy. destruct (y <? z)%N eqn:Eyz.
    + apply N.ltb_lt in Eyz. assert (E : (x <? z)%N = true) by (apply N.ltb_lt; lia). rewrite E. reflexivity.
    + destruct (z <? y)%N eqn:Ezy; [discriminate|].
      apply N.ltb_ge in Eyz. apply N.ltb_ge in Ezy. assert (y = z) by lia. subst.
      assert (E : (x <? z)%N = true) by (apply N.ltb_lt; lia). rewrite E. reflexivity.
  - destruct (y <? x)%N eqn:Eyx; [discriminate|].
    apply N.ltb_ge in Exy. apply N.ltb_ge in Eyx. assert (x = y) by lia. subst.
    destruct (y <? z)%N eqn:Eyz; [reflexivity|].
    destruct (z <? y)%N eqn:Ezy; [discriminate|]. eapply IH; eassumption.
Qed.

Lemma lex_lt_total a : forall b, lex_lt a b = false -> lex_lt b a = false -> a = b.
Proof.
  induction a as [|x a IH]; intros [|y b] H1 H2; cbn in *; try discriminate; try reflexivity.
  destruct (x <? y)%N eqn:Exy; [discriminate|]. destruct (y <? x)%N eqn:Eyx; [discriminate|].
  apply N.ltb_ge in Exy. apply N.ltb_ge in Eyx. assert (x = y) by lia. subst. f_equal. apply IH; assumption.
Qed.

Definition okey (u : ucoin) : list N * Z := (u_txid u, u_n u).

Lemma op_eq_key a b : op_eq a b = true <-> okey a = okey b.
Proof.
  unfold op_eq, okey. rewrite andb_true_iff, bytes_eq_eq, Z.eqb_eq. split; [intros [-> ->]; reflexivity|intros H; inversion H; auto].
Qed.

Lemma op_lt_irrefl a : op_lt a a = false.
Proof. unfold op_lt. rewrite lex_lt_irrefl. apply Z.ltb_irrefl. Qed.

Lemma op_lt_trans a b c : op_lt a b = true -> op_lt b c = true -> op_lt a c = true.
Proof.
  unfold op_lt. intros H1 H2.
  destruct (lex_lt (u_txid a) (u_txid b)) eqn:Eab.
  - destruct (lex_lt (u_txid b) (u_txid c)) eqn:Ebc.
    + rewrite (lex_lt_trans _ _ _ Eab Ebc). reflexivity.
    + destruct (lex_lt (u_txid c) (u_txid b)) eqn:Ecb; [discriminate|].
      rewrite <- (lex_lt_total _ _ Ebc Ecb). rewrite Eab. reflexivity.
  - destruct (lex_lt (u_txid b) (u_txid a)) eqn:Eba; [discriminate|].
    pose proof (lex_lt_total _ _ Eab Eba) as E. rewrite E.
    destruct (lex_lt (u_txid b) (u_txid c)) eqn:Ebc; [reflexivity|].
    destruct (lex_lt (u_txid c) (u_txid b)) eqn:Ecb; [discriminate|]. lia.
Qed.

Lemma op_total a b : op_lt a b = false -> op_eq a b = false -> op_lt b a = true.
Proof.
  unfold op_lt, op_eq. intros H1 H2.
  destruct (lex_lt (u_txid a) (u_txid b)) eqn:Eab; [discriminate|].
  destruct (lex_lt (u_txid b) (u_txid a)) eqn:Eba; [reflexivity|].
  pose proof (lex_lt_total _ _ Eab Eba) as E. rewrite E in H2.
  assert (X : bytes_eq (u_txid b) (u_txid b) = true) by (apply bytes_eq_eq; reflexivity). rewrite X in H2. cbn [andb] in H2. lia.
Qed.

Lemma op_lt_neq a b : op_lt a b = true -> op_eq a b = false.
Proof.
  intros H. destruct (op_eq a b) eqn:E; [|reflexivity]. apply op_eq_key in E.
  unfold okey in E. inversion E as [[E1 E2]]. unfold op_lt in H. rewrite E1, lex_lt_irrefl, E2, Z.ltb_irrefl in H. discriminate.
Qed.

(* strictly increasing in the hashing order *)
Inductive ssorted : list ucoin -> Prop :=
| ss_nil : ssorted []
| ss_cons x l : (forall y, In y l -> op_lt x y = true) -> ssorted l -> ssorted (x :: l).

Lemma set_add_in c l z : In z (set_add c l) -> z = c \/ In z l.
Proof.
  induction l as [|x l IH]; cbn [set_add]; [intros [H|[]]; left; congruence|].
  destruct (op_eq c x); [right; assumption|]. destruct (op_lt c x); [intros [H|H]; [left; congruence|right; exact H]|].
  intros [H|H]; [right; left; exact H|]. apply IH in H. destruct H; [left|right; right]; assumption.
Qed.

Lemma set_add_sorted c l : ssorted l -> ssorted (set_add c l).
Proof.
  induction l as [|x l IH]; intros S; cbn [set_add]; [constructor; [intros y []|constructor]|].
  inversion S as [|? ? Hx Sl]; subst.
  destruct (op_eq c x) eqn:E; [exact S|]. destruct (op_lt c x) eqn:L.
  - constructor; [|exact S]. intros y [<-|Hy]; [exact L|]. eapply op_lt_trans; [exact L|apply Hx; exact Hy].
  - constructor; [|apply IH; exact Sl]. intros y Hy. apply set_add_in in Hy. destruct Hy as [->|Hy]; [apply op_total; assumption|apply Hx; exact Hy].
Qed.

(* a new outpoint is inserted; everything else stays *)
Lemma set_add_fresh c l z : (forall y, In y l -> okey y <> okey c) -> (In z (set_add c l) <-> z = c \/ In z l).
Proof.
  intros F. split; [apply set_add_in|].
  induction l as [|x l IH]; cbn [set_add]; [intros [->|[]]; left; reflexivity|].
  assert (E : op_eq c x = false).
  { destruct (op_eq c x) eqn:E; [|reflexivity]. apply op_eq_key in E. exfalso. apply (F x (or_introl eq_refl)). congruence. }
  rewrite E. destruct (op_lt c x).
  - intros [->|H]; [left; reflexivity|right; exact H].
  - intros [->|[->|H]]; [right; apply IH; [intros y Hy; apply F; right; exact Hy|left; reflexivity]|left; reflexivity|].
    right. apply IH; [intros y Hy; apply F; right; exact Hy|right; exact H].
Qed.

Lemma coin_set_spec l : NoDup (map okey l) -> ssorted (coin_set l) /\ forall z, In z (coin_set l) <-> In z l.
Proof.
  unfold coin_set.
  assert (G : forall l acc, NoDup (map okey l) -> ssorted acc -> (forall y x, In y acc -> In x l -> okey y <> okey x) ->
              ssorted (fold_left (fun s c => set_add c s) l acc) /\
              forall z, In z (fold_left (fun s c => set_add c s) l acc) <-> In z acc \/ In z l).
  { clear l. induction l as [|c l IH]; intros acc ND S D; cbn [fold_left]; [split; [exact S|intros z; cbn; tauto]|].
    cbn [map] in ND. inversion ND as [|? ? NI ND']; subst.
    assert (F : forall y, In y acc -> okey y <> okey c) by (intros y Hy; apply (D y c Hy); left; reflexivity).
    destruct (IH (set_add c acc) ND' (set_add_sorted c acc S)) as [S' M'].
    { intros y x Hy Hx. apply set_add_in in Hy. destruct Hy as [->|Hy].
      - intros E. apply NI. rewrite E. apply in_map. exact Hx.
      - apply (D y x Hy). right. exact Hx. }
    split; [exact S'|]. intros z. rewrite M'. rewrite (set_add_fresh c acc z F). cbn [In]. intuition congruence. }
  intros ND. destruct (G l [] ND ss_nil) as [S M]; [intros y x []|]. split; [exact S|]. intros z. rewrite M. cbn. tauto.
Qed.

(* two strictly sorted lists with the same elements are equal *)
Lemma ssorted_unique l1 : forall l2, ssorted l1 -> ssorted l2 -> (forall z, In z l1 <-> In z l2) -> l1 = l2.
Proof.
  induction l1 as [|x l1 IH]; intros l2 S1 S2 M.
  - destruct l2 as [|y l2]; [reflexivity|]. exfalso. apply (M y). left. reflexivity.
  - destruct l2 as [|y l2]; [exfalso; apply (M x); left; reflexivity|].
    inversion S1 as [|? ? H1 S1']; subst. inversion S2 as [|? ? H2 S2']; subst.
    assert (E : x = y).
    { assert (Ix : In x (y :: l2)) by (apply M; left; reflexivity).
      assert (Iy : In y (x :: l1)) by (apply M; left; reflexivity).
      destruct Ix as [->|Ix]; [reflexivity|]. destruct Iy as [->|Iy]; [reflexivity|].
      pose proof (H2 x Ix) as A. pose proof (H1 y Iy) as B. pose proof (op_lt_trans _ _ _ A B) as C. rewrite op_lt_irrefl in C. discriminate. }
    subst y. f_equal. apply IH; [exact S1'|exact S2'|].
    intros z. split; intros Hz.
    + assert (X : In z (x :: l2)) by (apply M; right; exact Hz). destruct X as [<-|X]; [|exact X].
      exfalso. pose proof (H1 x Hz) as C. rewrite op_lt_irrefl in C. discriminate.
    + assert (X : In z (x :: l1)) by (apply M; right; exact Hz). destruct X as [<-|X]; [|exact X].
      exfalso. pose proof (H2 x Hz) as C. rewrite op_lt_irrefl in C. discriminate.
Qed.

(* ORDER INDEPENDENCE: reordering the coin records (pairwise different outpoints) yields the same coin set,
   hence the same hash and the same verdict *)
Theorem coin_set_permutation l l' : NoDup (map okey l) -> Permutation l l' -> coin_set l = coin_set l'.
Proof.
  intros ND P.
  assert (ND' : NoDup (map okey l')) by (eapply Permutation_NoDup; [apply Permutation_map; exact P|exact ND]).
  destruct (coin_set_spec l ND) as [S M]. destruct (coin_set_spec l' ND') as [S' M'].
  apply ssorted_unique; [exact S|exact S'|]. intros z. rewrite M, M'. split; intros H.
  - eapply Permutation_in; [exact P|exact H].
  - eapply Permutation_in; [apply Permutation_sym; exact P|exact H].
Qed.

(* a repeated record of an outpoint already present is ignored (CCoinsViewCache::EmplaceCoinInternalDANGER keeps the first coin) *)
Lemma set_add_dup c l : ssorted l -> (exists y, In y l /\ okey y = okey c) -> set_add c l = l.
Proof.
  induction l as [|x l IH]; intros S [y [Hy E]]; [destruct Hy|].
  inversion S as [|? ? Hx Sl]; subst. cbn [set_add].
  destruct (op_eq c x) eqn:Ecx; [reflexivity|].
  destruct Hy as [->|Hy].
  - exfalso. assert (X : op_eq c y = true) by (apply op_eq_key; congruence). congruence.
  - destruct (op_lt c x) eqn:L.
    + exfalso. pose proof (Hx y Hy) as A. pose proof (op_lt_trans _ _ _ L A) as B. apply op_lt_neq in B.
      assert (X : op_eq c y = true) by (apply op_eq_key; congruence). congruence.
    + f_equal. apply IH; [exact Sl|exists y; split; assumption].
Qed.
