(* Proofs about model/Compress.v, part 2: script compression, coin and undo records. *)
From Coq Require Import NArith.
From BV Require Import lib.Ints gen.Params_gen model.SerBase model.Compress proofs.SerBaseLemmas proofs.CompressLemmas.
Local Open Scope Z_scope.

(* ------------------------------------------------------------------------------------------ *)
(* scripts *)

Lemma n_special_is_6 : N_SPECIAL_SCRIPTS = 6. Proof. reflexivity. Qed.
Lemma max_script_size_is_10000 : MAX_SCRIPT_SIZE = 10000. Proof. reflexivity. Qed.
(* the model's size table is the compiled GetSpecialScriptSize table *)
Lemma special_sizes_match :
  map (fun i => Z.of_nat (special_script_size i)) [0; 1; 2; 3; 4; 5] = SPECIAL_SCRIPT_SIZES.
Proof. reflexivity. Qed.

Lemma bytes_eqb_eq a : forall b, bytes_eqb a b = true <-> a = b.
Proof.
  induction a as [|x a IH]; intros [|y b]; simpl; split; intros H; try reflexivity; try discriminate.
  - apply andb_prop in H. destruct H as [H1 H2]. apply N.eqb_eq in H1. apply IH in H2. subst. reflexivity.
  - inversion H; subst. rewrite N.eqb_refl. simpl. apply IH. reflexivity.
Qed.

Lemma skipn_add {A} a b : forall (l : list A), skipn b (skipn a l) = skipn (a + b) l.
Proof.
  induction a as [|a IH]; intros l; [reflexivity|].
  destruct l as [|x l]; [cbn [skipn Nat.add]; destruct b; reflexivity|]. cbn [skipn Nat.add]. apply IH.
Qed.

Lemma split3 {A} (s : list A) a b : s = firstn a s ++ firstn b (skipn a s) ++ skipn (a + b) s.
Proof.
  rewrite <- (firstn_skipn a s) at 1. f_equal.
  rewrite <- (firstn_skipn b (skipn a s)) at 1. f_equal.
  apply skipn_add.
Qed.

Lemma firstn_exact {A} (l : list A) n : length l = n -> firstn n l = l.
Proof. intros <-. apply firstn_all. Qed.

Lemma is_to_key_id_inv s h : is_to_key_id s = Some h ->
  s = [op_dup; op_hash160; 20%N] ++ h ++ [op_equalverify; op_checksig] /\ length h = 20%nat.
Proof.
  unfold is_to_key_id. destruct (_ && _) eqn:C; [|discriminate]. intros H.
  assert (h = firstn 20 (skipn 3 s)) as -> by congruence. clear H.
  apply andb_prop in C. destruct C as [C C3]. apply andb_prop in C. destruct C as [C1 C2].
  apply Nat.eqb_eq in C1. apply bytes_eqb_eq in C2. apply bytes_eqb_eq in C3.
  split.
  - rewrite <- C2, <- C3. apply (split3 s 3 20).
  - rewrite firstn_length, skipn_length. lia.
Qed.

Lemma is_to_script_id_inv s h : is_to_script_id s = Some h ->
  s = [op_hash160; 20%N] ++ h ++ [op_equal] /\ length h = 20%nat.
Proof.
  unfold is_to_script_id. destruct (_ && _) eqn:C; [|discriminate]. intros H.
  assert (h = firstn 20 (skipn 2 s)) as -> by congruence. clear H.
  apply andb_prop in C. destruct C as [C C3]. apply andb_prop in C. destruct C as [C1 C2].
  apply Nat.eqb_eq in C1. apply bytes_eqb_eq in C2. apply bytes_eqb_eq in C3.
  split.
  - rewrite <- C2, <- C3. apply (split3 s 2 20).
  - rewrite firstn_length, skipn_length. lia.
Qed.

Lemma land1_cases y : N.land y 1 = 0%N \/ N.land y 1 = 1%N.
Proof.
  change 1%N with (N.ones 1) at 1 2. rewrite N.land_ones. change (2 ^ 1)%N with 2%N.
  assert (H : (y mod 2 < 2)%N) by (apply N.mod_lt; lia).
  remember (y mod 2)%N as r. lia.
Qed.

Section WithEC.
  Variable ec_fully_valid : list N -> bool.
  Variable ec_decompress : list N -> option (list N).
  (* The mathematical premise about secp256k1: for a fully valid uncompressed key, decompressing
     its compressed form gives the key back. *)
  Hypothesis ec_decompress_compress : forall pk c,
    bytes_ok pk -> length pk = 65%nat -> nth_error pk 0 = Some 4%N -> ec_fully_valid pk = true ->
    ec_compress_pub pk = Some c -> ec_decompress c = Some pk.

  Notation is_to_pubkey := (is_to_pubkey ec_fully_valid).
  Notation compress_script := (compress_script ec_fully_valid).
  Notation decompress_script := (decompress_script ec_decompress).
  Notation ser_script := (ser_script ec_fully_valid).
  Notation unser_script := (unser_script ec_decompress).
  Notation ser_txout := (ser_txout ec_fully_valid).
  Notation unser_txout := (unser_txout ec_decompress).
  Notation ser_coin := (ser_coin ec_fully_valid).
  Notation unser_coin := (unser_coin ec_decompress).
  Notation ser_undo := (ser_undo ec_fully_valid).
  Notation unser_undo := (unser_undo ec_decompress).

  Lemma is_to_pubkey_inv s pk : is_to_pubkey s = Some pk ->
    (s = [33%N] ++ pk ++ [op_checksig] /\ length pk = 33%nat /\
       (firstn 1 pk = [2%N] \/ firstn 1 pk = [3%N])) \/
    (s = [65%N] ++ pk ++ [op_checksig] /\ length pk = 65%nat /\ firstn 1 pk = [4%N] /\
       ec_fully_valid pk = true).
  Proof.
    unfold Compress.is_to_pubkey.
    destruct ((length s =? 35)%nat && _ && _ && _) eqn:C.
    - intros H. assert (pk = firstn 33 (skipn 1 s)) as -> by congruence. clear H. left.
      apply andb_prop in C. destruct C as [C C4]. apply andb_prop in C. destruct C as [C C3].
      apply andb_prop in C. destruct C as [C1 C2].
      apply Nat.eqb_eq in C1. apply bytes_eqb_eq in C2. apply bytes_eqb_eq in C3.
      split; [|split].
      + rewrite <- C2, <- C3. apply (split3 s 1 33).
      + rewrite firstn_length, skipn_length. lia.
      + rewrite firstn_firstn. change (Nat.min 1 33) with 1%nat.
        apply orb_prop in C4. destruct C4 as [C4|C4]; apply bytes_eqb_eq in C4; auto.
    - clear C. destruct ((length s =? 67)%nat && _ && _ && _) eqn:C; [|discriminate].
      destruct (ec_fully_valid _) eqn:V; [|discriminate].
      intros H. assert (pk = firstn 65 (skipn 1 s)) as -> by congruence. clear H. right.
      apply andb_prop in C. destruct C as [C C4]. apply andb_prop in C. destruct C as [C C3].
      apply andb_prop in C. destruct C as [C1 C2].
      apply Nat.eqb_eq in C1. apply bytes_eqb_eq in C2. apply bytes_eqb_eq in C3. apply bytes_eqb_eq in C4.
      split; [|split; [|split]].
      + rewrite <- C2, <- C3. apply (split3 s 1 65).
      + rewrite firstn_length, skipn_length. lia.
      + rewrite firstn_firstn. exact C4.
      + exact V.
  Qed.

  Lemma decompress_script_0 v : decompress_script 0 v = Some ([op_dup; op_hash160; 20%N] ++ firstn 20 v ++ [op_equalverify; op_checksig]).
  Proof. reflexivity. Qed.
  Lemma decompress_script_1 v : decompress_script 1 v = Some ([op_hash160; 20%N] ++ firstn 20 v ++ [op_equal]).
  Proof. reflexivity. Qed.
  Lemma decompress_script_2 v : decompress_script 2 v = Some ([33%N; 2%N] ++ firstn 32 v ++ [op_checksig]).
  Proof. reflexivity. Qed.
  Lemma decompress_script_3 v : decompress_script 3 v = Some ([33%N; 3%N] ++ firstn 32 v ++ [op_checksig]).
  Proof. reflexivity. Qed.
  Lemma decompress_script_4 v : decompress_script 4 v =
    match ec_decompress (2%N :: firstn 32 v) with Some pk => Some ([65%N] ++ pk ++ [op_checksig]) | None => None end.
  Proof. reflexivity. Qed.
  Lemma decompress_script_5 v : decompress_script 5 v =
    match ec_decompress (3%N :: firstn 32 v) with Some pk => Some ([65%N] ++ pk ++ [op_checksig]) | None => None end.
  Proof. reflexivity. Qed.

  (* what the compressor emits is a tag below 6 followed by exactly the special size for that tag,
     and the decompressor maps it back to the script *)
  Lemma compress_script_inv s c : bytes_ok s -> compress_script s = Some c ->
    exists tag payload, c = tag :: payload /\ (tag < 6)%N /\
      length payload = special_script_size (Z.of_N tag) /\
      decompress_script (Z.of_N tag) payload = Some s.
  Proof.
    intros Hbs. unfold Compress.compress_script.
    destruct (is_to_key_id s) as [h|] eqn:K.
    { intros H. inversion H; subst c. clear H. apply is_to_key_id_inv in K. destruct K as [Es L].
      exists 0%N, h. split; [reflexivity|]. split; [reflexivity|]. split; [exact L|].
      change (Z.of_N 0) with 0. rewrite decompress_script_0.
      rewrite (firstn_exact h 20 L). rewrite Es. reflexivity. }
    destruct (is_to_script_id s) as [h|] eqn:S.
    { intros H. inversion H; subst c. clear H. apply is_to_script_id_inv in S. destruct S as [Es L].
      exists 1%N, h. split; [reflexivity|]. split; [reflexivity|]. split; [exact L|].
      change (Z.of_N 1) with 1. rewrite decompress_script_1.
      rewrite (firstn_exact h 20 L). rewrite Es. reflexivity. }
    destruct (is_to_pubkey s) as [pk|] eqn:PK; [|discriminate].
    apply is_to_pubkey_inv in PK.
    destruct PK as [[Es [L F]]|[Es [L [F V]]]].
    - (* compressed key: the tag is the key's first byte, 2 or 3 *)
      destruct pk as [|h0 pk']; [discriminate|]. cbn [nth_error skipn]. cbn [firstn] in F.
      assert (L' : length pk' = 32%nat) by (cbn [length] in L; lia).
      rewrite (firstn_exact pk' 32 L').
      assert (Hh : h0 = 2%N \/ h0 = 3%N) by (destruct F as [F|F]; inversion F; auto).
      destruct Hh as [->| ->]; cbn [N.eqb Pos.eqb orb]; intros H; inversion H; subst c; clear H.
      + exists 2%N, pk'. split; [reflexivity|]. split; [reflexivity|]. split; [exact L'|].
        change (Z.of_N 2) with 2. rewrite decompress_script_2.
        rewrite (firstn_exact pk' 32 L'). rewrite Es. reflexivity.
      + exists 3%N, pk'. split; [reflexivity|]. split; [reflexivity|]. split; [exact L'|].
        change (Z.of_N 3) with 3. rewrite decompress_script_3.
        rewrite (firstn_exact pk' 32 L'). rewrite Es. reflexivity.
    - (* uncompressed, fully valid key: tag 4 | parity of Y *)
      destruct pk as [|h0 pk']; [discriminate|].
      assert (h0 = 4%N) by (inversion F; reflexivity). subst h0.
      assert (L' : length pk' = 64%nat) by (cbn [length] in L; lia).
      destruct (nth_error (4%N :: pk') 64) as [y|] eqn:NY.
      2:{ apply nth_error_None in NY. cbn [length] in NY. lia. }
      cbn [nth_error]. cbn [N.eqb Pos.eqb orb].
      intros H. inversion H; subst c; clear H.
      cbn [skipn].
      assert (LX : length (firstn 32 pk') = 32%nat) by (rewrite firstn_length; lia).
      assert (EC : ec_decompress (N.lor 2 (N.land y 1) :: firstn 32 pk') = Some (4%N :: pk')).
      { apply ec_decompress_compress; [| exact L | reflexivity | exact V |].
        { rewrite Es in Hbs. apply bytes_ok_app in Hbs. destruct Hbs as [_ Hbs]. apply bytes_ok_app in Hbs. tauto. }
        unfold ec_compress_pub. rewrite NY. reflexivity. }
      destruct (land1_cases y) as [E|E]; rewrite E in *.
      + exists 4%N, (firstn 32 pk'). split; [reflexivity|]. split; [reflexivity|]. split; [exact LX|].
        change (Z.of_N 4) with 4. rewrite decompress_script_4.
        rewrite (firstn_exact _ 32 LX).
        change (N.lor 2 0) with 2%N in EC. rewrite EC. rewrite Es. reflexivity.
      + exists 5%N, (firstn 32 pk'). split; [reflexivity|]. split; [reflexivity|]. split; [exact LX|].
        change (Z.of_N 5) with 5. rewrite decompress_script_5.
        rewrite (firstn_exact _ 32 LX).
        change (N.lor 2 1) with 3%N in EC. rewrite EC. rewrite Es. reflexivity.
  Qed.

  Lemma w32 : varint_width_ok 32. Proof. left; reflexivity. Qed.
  Lemma w64 : varint_width_ok 64. Proof. right; reflexivity. Qed.

  (* special scripts are short: nothing longer than 67 bytes is compressed *)
  Lemma compress_script_long s : (67 < length s)%nat -> compress_script s = None.
  Proof using ec_fully_valid.
    clear ec_decompress_compress ec_decompress.
    intros L. unfold Compress.compress_script, is_to_key_id, is_to_script_id, Compress.is_to_pubkey.
    assert (E1 : (length s =? 25)%nat = false) by (apply Nat.eqb_neq; lia).
    assert (E2 : (length s =? 23)%nat = false) by (apply Nat.eqb_neq; lia).
    assert (E3 : (length s =? 35)%nat = false) by (apply Nat.eqb_neq; lia).
    assert (E4 : (length s =? 67)%nat = false) by (apply Nat.eqb_neq; lia).
    rewrite E1, E2, E3, E4. reflexivity.
  Qed.

  (* SCRIPT ROUND TRIP: every script up to MAX_SCRIPT_SIZE bytes is read back unchanged, whatever
     follows it in the stream and whatever the CScript object held before *)
  Lemma script_roundtrip s prev rest : bytes_ok s -> (Z.of_nat (length s) <= MAX_SCRIPT_SIZE) ->
    exists enc, ser_script s = Some enc /\ unser_script prev (enc ++ rest) = Ok s rest.
  Proof.
    rewrite max_script_size_is_10000. intros Hbs L. unfold Compress.ser_script.
    destruct (compress_script s) as [c|] eqn:C.
    - exists c. split; [reflexivity|].
      apply compress_script_inv in C; [|exact Hbs]. destruct C as [tag [payload [-> [Ht [Lp D]]]]].
      unfold Compress.unser_script. cbn [app].
      rewrite read_varint_small by lia. cbn [bind].
      rewrite n_special_is_6. assert (E : (Z.of_N tag <? 6) = true) by lia. rewrite E.
      rewrite <- Lp. rewrite read_bytes_app. cbn [bind]. rewrite D. reflexivity.
    - rewrite n_special_is_6.
      rewrite wrapu32_id by (unfold UINT32_MAX; lia).
      destruct (varint_total 32 (Z.of_nat (length s) + 6) w32) as [v Hv]. rewrite Hv.
      exists (v ++ s). split; [reflexivity|].
      unfold Compress.unser_script. rewrite <- app_assoc.
      assert (Hrange : 0 <= Z.of_nat (length s) + 6 <= 2 ^ 32 - 1) by (change (2 ^ 32 - 1) with 4294967295; lia).
    rewrite (varint_rt 32 _ v (s ++ rest) w32 Hrange Hv).
      cbn [bind]. rewrite n_special_is_6, max_script_size_is_10000.
      assert (E : (Z.of_nat (length s) + 6 <? 6) = false) by lia. rewrite E.
      replace (Z.of_nat (length s) + 6 - 6) with (Z.of_nat (length s)) by lia.
      rewrite wrapu32_id by (unfold UINT32_MAX; lia).
      assert (E2 : (Z.of_nat (length s) >? 10000) = false) by lia. rewrite E2.
      rewrite read_bytes_z_eq by lia. rewrite Nat2Z.id. apply read_bytes_app.
  Qed.

  (* scripts above MAX_SCRIPT_SIZE (unspendable) are written raw and read back as prev || OP_RETURN,
     consuming exactly their bytes *)
  Lemma script_oversize_replaced s prev rest :
    MAX_SCRIPT_SIZE < Z.of_nat (length s) -> Z.of_nat (length s) + N_SPECIAL_SCRIPTS <= UINT32_MAX ->
    exists enc, ser_script s = Some enc /\ unser_script prev (enc ++ rest) = Ok (prev ++ [op_return]) rest.
  Proof using ec_fully_valid ec_decompress.
    clear ec_decompress_compress.
    rewrite max_script_size_is_10000, n_special_is_6. unfold UINT32_MAX. intros L1 L2.
    unfold Compress.ser_script. rewrite compress_script_long by lia.
    rewrite n_special_is_6. rewrite wrapu32_id by (unfold UINT32_MAX; lia).
    destruct (varint_total 32 (Z.of_nat (length s) + 6) w32) as [v Hv]. rewrite Hv.
    exists (v ++ s). split; [reflexivity|].
    unfold Compress.unser_script. rewrite <- app_assoc.
    assert (Hrange : 0 <= Z.of_nat (length s) + 6 <= 2 ^ 32 - 1) by (change (2 ^ 32 - 1) with 4294967295; lia).
    rewrite (varint_rt 32 _ v (s ++ rest) w32 Hrange Hv).
    cbn [bind]. rewrite n_special_is_6, max_script_size_is_10000.
    assert (E : (Z.of_nat (length s) + 6 <? 6) = false) by lia. rewrite E.
    replace (Z.of_nat (length s) + 6 - 6) with (Z.of_nat (length s)) by lia.
    rewrite wrapu32_id by (unfold UINT32_MAX; lia).
    assert (E2 : (Z.of_nat (length s) >? 10000) = true) by lia. rewrite E2.
    rewrite read_bytes_z_eq by lia. rewrite Nat2Z.id. rewrite read_bytes_app. reflexivity.
  Qed.

  (* TXOUT *)
  Lemma txout_roundtrip v s prev rest : 0 <= v <= AMOUNT_ROUNDTRIP_MAX -> bytes_ok s ->
    Z.of_nat (length s) <= MAX_SCRIPT_SIZE ->
    exists enc, ser_txout v s = Some enc /\ unser_txout prev (enc ++ rest) = Ok (v, s) rest.
  Proof.
    intros Hv Hbs Hs. unfold Compress.ser_txout.
    assert (Hv64 : 0 <= v <= UINT64_MAX) by (unfold AMOUNT_ROUNDTRIP_MAX, UINT64_MAX in *; lia).
    rewrite wrapu64_id by exact Hv64.
    destruct (varint_total 64 (compress_amount v) w64) as [a Ha]. rewrite Ha.
    destruct (script_roundtrip s prev rest Hbs Hs) as [b [Hb Hb2]]. rewrite Hb.
    exists (a ++ b). split; [reflexivity|].
    unfold Compress.unser_txout. rewrite <- app_assoc.
    pose proof (compress_amount_range v) as Hr.
    assert (Hrange : 0 <= compress_amount v <= 2 ^ 64 - 1) by (change (2 ^ 64 - 1) with 18446744073709551615; unfold TWO64 in Hr; lia).
    rewrite (varint_rt 64 _ a (b ++ rest) w64 Hrange Ha).
    cbn [bind]. rewrite Hb2. cbn [bind].
    rewrite amount_roundtrip by exact Hv.
    rewrite wrap64_id by (unfold AMOUNT_ROUNDTRIP_MAX, INT64_MIN, INT64_MAX in *; lia).
    reflexivity.
  Qed.

  (* the code word: height*2 + coinbase *)
  Lemma coin_code_value c : 0 <= c_height c < 2 ^ 31 ->
    coin_code c = 2 * c_height c + (if c_coinbase c then 1 else 0).
  Proof.
    intros Hh. change (2 ^ 31) with 2147483648 in Hh. unfold coin_code.
    rewrite Z.shiftl_mul_pow2 by lia. change (2 ^ 1) with 2.
    rewrite wrapu32_id by (unfold UINT32_MAX; lia).
    pose proof (lor_shiftl_small (c_height c) (if c_coinbase c then 1 else 0) 1 ltac:(lia)) as H.
    rewrite Z.shiftl_mul_pow2 in H by lia. change (2 ^ 1) with 2 in H.
    rewrite H by (destruct (c_coinbase c); lia). lia.
  Qed.

  Lemma code_decode h (cb : bool) : 0 <= h ->
    Z.shiftr (2 * h + (if cb then 1 else 0)) 1 = h /\
    negb (Z.land (2 * h + (if cb then 1 else 0)) 1 =? 0) = cb.
  Proof.
    intros Hh. rewrite Z.shiftr_div_pow2 by lia. change (2 ^ 1) with 2.
    change 1 with (Z.ones 1) at 3. rewrite Z.land_ones by lia. change (2 ^ 1) with 2.
    destruct cb; split; lia.
  Qed.

  (* COIN ROUND TRIP (UTXO database record) *)
  Lemma coin_roundtrip c prev rest :
    0 <= c_height c < 2 ^ 31 -> 0 <= c_value c <= AMOUNT_ROUNDTRIP_MAX -> bytes_ok (c_script c) ->
    Z.of_nat (length (c_script c)) <= MAX_SCRIPT_SIZE ->
    exists enc, ser_coin c = Some enc /\ unser_coin prev (enc ++ rest) = Ok c rest.
  Proof.
    intros Hh Hv Hbs Hs. unfold Compress.ser_coin.
    assert (E : (c_value c =? -1) = false) by lia. rewrite E.
    rewrite coin_code_value by exact Hh.
    set (code := 2 * c_height c + (if c_coinbase c then 1 else 0)).
    assert (Hcode : 0 <= code <= 2 ^ 32 - 1).
    { unfold code. change (2 ^ 31) with 2147483648 in Hh. change (2 ^ 32 - 1) with 4294967295.
      destruct (c_coinbase c); lia. }
    destruct (varint_total 32 code w32) as [a Ha]. rewrite Ha.
    destruct (txout_roundtrip (c_value c) (c_script c) prev rest Hv Hbs Hs) as [b [Hb Hb2]]. rewrite Hb.
    exists (a ++ b). split; [reflexivity|].
    unfold Compress.unser_coin. rewrite <- app_assoc.
    rewrite (varint_rt 32 code a (b ++ rest) w32 Hcode Ha). cbn [bind].
    rewrite Hb2. cbn [bind fst snd].
    destruct (code_decode (c_height c) (c_coinbase c) ltac:(lia)) as [D1 D2]. fold code in D1, D2.
    rewrite D1, D2. destruct c; reflexivity.
  Qed.

  (* UNDO RECORD ROUND TRIP (TxInUndoFormatter) *)
  Lemma undo_roundtrip c prev rest :
    0 <= c_height c < 2 ^ 31 -> 0 <= c_value c <= AMOUNT_ROUNDTRIP_MAX -> bytes_ok (c_script c) ->
    Z.of_nat (length (c_script c)) <= MAX_SCRIPT_SIZE ->
    exists enc, ser_undo c = Some enc /\ unser_undo prev (enc ++ rest) = Ok c rest.
  Proof.
    intros Hh Hv Hbs Hs. unfold Compress.ser_undo.
    rewrite coin_code_value by exact Hh.
    set (code := 2 * c_height c + (if c_coinbase c then 1 else 0)).
    assert (Hcode : 0 <= code <= 2 ^ 32 - 1).
    { unfold code. change (2 ^ 31) with 2147483648 in Hh. change (2 ^ 32 - 1) with 4294967295.
      destruct (c_coinbase c); lia. }
    destruct (varint_total 32 code w32) as [a Ha]. rewrite Ha.
    destruct (txout_roundtrip (c_value c) (c_script c) prev rest Hv Hbs Hs) as [b [Hb Hb2]]. rewrite Hb.
    eexists. split; [reflexivity|].
    unfold Compress.unser_undo. rewrite <- !app_assoc.
    rewrite (varint_rt 32 code a _ w32 Hcode Ha). cbn [bind].
    destruct (code_decode (c_height c) (c_coinbase c) ltac:(lia)) as [D1 D2]. fold code in D1, D2.
    rewrite D1, D2.
    destruct (c_height c >? 0) eqn:E0.
    - cbn [app]. rewrite read_varint_small by lia. cbn [bind].
      rewrite Hb2. cbn [bind fst snd]. destruct c; reflexivity.
    - cbn [app bind]. rewrite Hb2. cbn [bind fst snd]. destruct c; reflexivity.
  Qed.

  (* the executable predicate used by the violation search is sound: it accepts only when the
     bytes decode (with the reference decoder) to the coin and the implementation read it back *)
  Lemma coin_eqb_eq a b : coin_eqb a b = true -> a = b.
  Proof using .
    clear ec_decompress_compress.
    unfold coin_eqb. intros H.
    apply andb_prop in H. destruct H as [H H4]. apply andb_prop in H. destruct H as [H H3].
    apply andb_prop in H. destruct H as [H1 H2].
    apply Z.eqb_eq in H1. apply eqb_prop in H2. apply Z.eqb_eq in H3. apply bytes_eqb_eq in H4.
    destruct a, b; cbn in *; subst; reflexivity.
  Qed.

  Lemma holds_coin_roundtrip_sound undo c bytes back :
    holds_coin_roundtrip ec_decompress undo c bytes back = true ->
    back = c /\ (if undo then unser_undo [] bytes else unser_coin [] bytes) = Ok c [].
  Proof using ec_decompress.
    clear ec_decompress_compress.
    unfold holds_coin_roundtrip. intros H. apply andb_prop in H. destruct H as [H1 H2].
    apply coin_eqb_eq in H1. split; [exact H1|].
    destruct (if undo then unser_undo [] bytes else unser_coin [] bytes) as [c' r|e]; [|discriminate].
    destruct r; [|discriminate]. apply coin_eqb_eq in H2. subst. reflexivity.
  Qed.
End WithEC.
