(* C14 -- the invariant of the check-queue machine and its preservation by every step. *)
From Coq Require Import Permutation.
From BV Require Import lib.Ints model.CheckQueue.
Local Open Scope nat_scope.

Definition threads (s : cq) : list thread := q_master s :: q_workers s.
Definition inflight (s : cq) : list check := flat_map cs_of (threads s).

Definition first_fail (V : check -> option R) (cs : list check) : option R := fst (run_checks V cs None).

Lemma run_checks_nonempty V cs l : cs <> [] -> fst (run_checks V cs l) = first_fail V cs.
Proof.
  unfold first_fail. destruct cs as [|c r]; [congruence|]. intros _. simpl. destruct (V c); reflexivity.
Qed.

Lemma ff_none V : forall cs, first_fail V cs = None -> (forall c, In c cs -> V c = None) /\ snd (run_checks V cs None) = cs.
Proof.
  unfold first_fail. induction cs as [|c r IH]; simpl; intros H.
  - split; [intros c [] | reflexivity].
  - destruct (V c) eqn:E; [discriminate|]. destruct (run_checks V r None) as [l ev] eqn:Er. simpl in *.
    destruct (IH H) as [H1 H2]. split; [intros x [Hx|Hx]; [subst; exact E | apply H1; exact Hx] | f_equal; exact H2].
Qed.

Lemma ff_some V : forall cs r, first_fail V cs = Some r -> exists c, In c cs /\ V c = Some r.
Proof.
  unfold first_fail. induction cs as [|c rest IH]; simpl; intros r H; [discriminate|].
  destruct (V c) eqn:E.
  - simpl in H. inversion H; subst. exists c. split; [left; reflexivity | exact E].
  - destruct (run_checks V rest None) as [l ev] eqn:Er. simpl in *. destruct (IH r H) as [x [Hx Hv]]. exists x. split; [right; exact Hx | exact Hv].
Qed.

Lemma snd_run_checks_nonempty V cs l : cs <> [] -> snd (run_checks V cs l) = snd (run_checks V cs None).
Proof. destruct cs as [|c r]; [congruence|]. intros _. simpl. destruct (V c); reflexivity. Qed.

(* what a thread's program counter promises, given m_result and the ghost set of evaluated checks *)
Definition thread_ok (V : check -> option R) (res : option R) (ev : list check) (th : thread) : Prop :=
  match t_pc th with
  | PBatch cs dw => cs <> [] /\ (dw = false -> res <> None)
  | PRet cs dw => cs <> [] /\ (dw = false -> res <> None) /\
                  (dw = true -> t_local th = first_fail V cs /\ (first_fail V cs = None -> forall c, In c cs -> In c ev))
  | _ => True
  end.

Lemma thread_ok_mono V res ev res' ev' th :
  thread_ok V res ev th -> (res' = None -> res = None) -> (forall c, In c ev -> In c ev') -> thread_ok V res' ev' th.
Proof.
  unfold thread_ok. intros H Hr He. destruct (t_pc th) as [| | |cs dw|cs dw]; auto.
  - destruct H as [H1 H2]. split; auto. intros Hd Hn. apply (H2 Hd). auto.
  - destruct H as (H1 & H2 & H3). split; [auto|]. split; [intros Hd Hn; apply (H2 Hd); auto|].
    intros Hd. destruct (H3 Hd) as [H4 H5]. split; auto.
Qed.

Definition ret_ok (V : check -> option R) (x : option R * list check * list check) : Prop :=
  let '(res, added, ev) := x in
  result_ok V added res = true /\ (res = None -> forall c, In c added -> In c ev).

Record InvC (V : check -> option R) (s : cq) : Prop := {
  i_todo : q_todo s = length (q_queue s) + length (inflight s);
  i_cover : forall c, In c (q_added s) -> In c (q_queue s) \/ In c (inflight s) \/ In c (q_finished s);
  i_sub : forall c, In c (q_queue s) \/ In c (inflight s) \/ In c (q_finished s) -> In c (q_added s);
  i_res : forall r, q_result s = Some r -> exists c, In c (q_added s) /\ V c = Some r;
  i_fin : q_result s = None -> forall c, In c (q_finished s) -> V c = None /\ In c (q_evaluated s);
  i_thr : Forall (thread_ok V (q_result s) (q_evaluated s)) (threads s);
  i_ret : Forall (ret_ok V) (q_returned s);
  i_mq : (exists b, t_pc (q_master s) = PWait b) -> q_queue s = []
}.

(* ... and the master never sleeps un-notified with nothing left to wait for *)
Definition Inv (V : check -> option R) (s : cq) : Prop :=
  InvC V s /\ (t_pc (q_master s) = PWait false -> 0 < q_todo s).

(* ---- threads and set_thread ---- *)

Definition others (s : cq) (t : option nat) : list thread :=
  match t with None => q_workers s | Some i => q_master s :: (firstn i (q_workers s) ++ skipn (S i) (q_workers s)) end.

Lemma nth_error_split' {A} (l : list A) i x : nth_error l i = Some x -> l = firstn i l ++ x :: skipn (S i) l.
Proof.
  revert i. induction l as [|a l IH]; intros [|i] H; simpl in *; try discriminate.
  - inversion H; reflexivity.
  - f_equal. apply IH. exact H.
Qed.

Lemma threads_perm s t th : get_thread s t = Some th -> Permutation (threads s) (th :: others s t).
Proof.
  unfold threads, others. destruct t as [i|]; simpl; intros H.
  - rewrite (nth_error_split' _ _ _ H) at 1. rewrite perm_swap. apply perm_skip. symmetry. apply Permutation_middle.
  - inversion H; subst. reflexivity.
Qed.

Lemma threads_set_perm s t th x : get_thread s t = Some th -> Permutation (threads (set_thread s t x)) (x :: others s t).
Proof.
  unfold threads, others, set_thread, upd. destruct t as [i|]; simpl; intros H.
  - rewrite perm_swap. apply perm_skip. symmetry. apply Permutation_middle.
  - reflexivity.
Qed.

Lemma inflight_perm s t th : get_thread s t = Some th -> Permutation (inflight s) (cs_of th ++ flat_map cs_of (others s t)).
Proof.
  intros H. unfold inflight. change (cs_of th ++ flat_map cs_of (others s t)) with (flat_map cs_of (th :: others s t)).
  apply Permutation_flat_map. apply threads_perm. exact H.
Qed.

Lemma inflight_set_perm s t th x : get_thread s t = Some th -> Permutation (inflight (set_thread s t x)) (cs_of x ++ flat_map cs_of (others s t)).
Proof.
  intros H. unfold inflight. change (cs_of x ++ flat_map cs_of (others s t)) with (flat_map cs_of (x :: others s t)).
  apply Permutation_flat_map. eapply threads_set_perm. exact H.
Qed.

Lemma Forall_perm {A} (P : A -> Prop) l l' : Permutation l l' -> Forall P l -> Forall P l'.
Proof. intros Hp H. apply Forall_forall. intros x Hx. rewrite Forall_forall in H. apply H. eapply Permutation_in; [symmetry; exact Hp | exact Hx]. Qed.

Lemma get_set_same s t x th : get_thread s t = Some th -> get_thread (set_thread s t x) t = Some x.
Proof.
  destruct t as [i|]; simpl; intros H; [|reflexivity]. unfold upd.
  assert (Hl : length (firstn i (q_workers s)) = i).
  { apply firstn_length_le. apply Nat.lt_le_incl. apply nth_error_Some. congruence. }
  rewrite nth_error_app2 by lia. rewrite Hl, Nat.sub_diag. reflexivity.
Qed.

(* the fields set_thread leaves alone *)
Lemma set_thread_fields s t x :
  q_queue (set_thread s t x) = q_queue s /\ q_todo (set_thread s t x) = q_todo s /\ q_result (set_thread s t x) = q_result s /\
  q_added (set_thread s t x) = q_added s /\ q_finished (set_thread s t x) = q_finished s /\ q_evaluated (set_thread s t x) = q_evaluated s /\
  q_returned (set_thread s t x) = q_returned s.
Proof. destruct t; simpl; repeat split; reflexivity. Qed.

Lemma master_set_worker s i x : q_master (set_thread s (Some i) x) = q_master s.
Proof. reflexivity. Qed.

(* Inv does not read nIdle / nTotal *)
Definition core (s : cq) := (q_queue s, q_todo s, q_result s, q_master s, q_workers s, q_added s, q_finished s, q_evaluated s, q_returned s).

Lemma Inv_ext V s s' : core s = core s' -> Inv V s -> Inv V s'.
Proof.
  destruct s, s'. unfold core. simpl. intros H. inversion H; subst. intros [[H1 H2 H3 H4 H5 H6 H7 H8] H9].
  split; [constructor|]; unfold threads, inflight in *; simpl in *; assumption.
Qed.

Lemma batch_now_pos bs len total idle : 1 <= batch_now bs len total idle.
Proof. unfold batch_now. lia. Qed.

Lemma batch_now_le bs len total idle : 1 <= len -> batch_now bs len total idle <= len.
Proof.
  intros H. unfold batch_now. apply Nat.max_lub; [exact H|].
  etransitivity; [apply Nat.le_min_r|]. apply Nat.div_le_upper_bound; [lia|]. nia.
Qed.

Lemma skipn_nonempty {A} (l : list A) k : k < length l -> skipn k l <> [].
Proof. intros H E. assert (length (skipn k l) = 0) by (rewrite E; reflexivity). rewrite skipn_length in H0. lia. Qed.

Lemma in_firstn_skipn {A} (l : list A) k x : In x l <-> In x (firstn k l) \/ In x (skipn k l).
Proof. rewrite <- (firstn_skipn k l) at 1. apply in_app_iff. Qed.

(* changing the program counter of a thread between states that hold no checks *)
Lemma InvC_set_idle V s t th x :
  InvC V s -> get_thread s t = Some th -> cs_of th = [] -> cs_of x = [] ->
  thread_ok V (q_result s) (q_evaluated s) x ->
  (t = None -> (exists b, t_pc x = PWait b) -> q_queue s = []) ->
  InvC V (set_thread s t x).
Proof.
  intros [H1 H2 H3 H4 H5 H6 H7 H8] Hg Hc Hx Hok Hq.
  pose proof (inflight_perm s t th Hg) as P1. pose proof (inflight_set_perm s t th x Hg) as P2. rewrite Hc in P1. rewrite Hx in P2. simpl in P1, P2.
  assert (Pin : forall c, In c (inflight (set_thread s t x)) <-> In c (inflight s)).
  { intros c. split; intros Hi.
    - eapply Permutation_in; [symmetry; exact P1|]. eapply Permutation_in; [exact P2 | exact Hi].
    - eapply Permutation_in; [symmetry; exact P2|]. eapply Permutation_in; [exact P1 | exact Hi]. }
  assert (Plen : length (inflight (set_thread s t x)) = length (inflight s)).
  { rewrite (Permutation_length P2), (Permutation_length P1). reflexivity. }
  destruct (set_thread_fields s t x) as (F1 & F2 & F3 & F4 & F5 & F6 & F7).
  constructor; rewrite ?F1, ?F2, ?F3, ?F4, ?F5, ?F6, ?F7.
  - rewrite Plen. exact H1.
  - intros c Hc'. destruct (H2 c Hc') as [A|[A|A]]; auto. right; left. apply Pin. exact A.
  - intros c [A|[A|A]]; apply H3; auto. right; left. apply Pin. exact A.
  - exact H4.
  - exact H5.
  - eapply Forall_perm; [symmetry; eapply threads_set_perm; exact Hg|]. constructor.
    + exact Hok.
    + assert (Forall (thread_ok V (q_result s) (q_evaluated s)) (th :: others s t)) by (eapply Forall_perm; [eapply threads_perm; exact Hg | exact H6]).
      inversion H; assumption.
  - exact H7.
  - destruct t as [i|]; simpl.
    + exact H8.
    + intros Hb. apply Hq; auto.
Qed.

Lemma Inv_set_idle V s t th x :
  Inv V s -> get_thread s t = Some th -> cs_of th = [] -> cs_of x = [] ->
  thread_ok V (q_result s) (q_evaluated s) x ->
  (t = None -> (exists b, t_pc x = PWait b) -> q_queue s = []) ->
  (t = None -> t_pc x = PWait false -> 0 < q_todo s) ->
  Inv V (set_thread s t x).
Proof.
  intros [HC H9] Hg Hc Hx Hok Hq Hw. split; [eapply InvC_set_idle; eauto|].
  destruct (set_thread_fields s t x) as (F1 & F2 & _). rewrite F2. destruct t as [i|]; simpl; [exact H9 | intros Hb; apply Hw; auto].
Qed.

Lemma thread_ok_idle V res ev res' ev' th : thread_ok V res ev th -> cs_of th = [] -> thread_ok V res' ev' th.
Proof.
  unfold thread_ok, cs_of. destruct (t_pc th) as [| | |cs dw|cs dw]; auto.
  - intros [H _] E. contradiction.
  - intros [H _] E. contradiction.
Qed.

Lemma flat_map_nil_all {A B} (f : A -> list B) l : flat_map f l = [] -> forall x, In x l -> f x = [].
Proof.
  induction l as [|a l IH]; simpl; intros H x Hin; [destruct Hin|]. destruct Hin as [Hx|Hx].
  - subst. apply app_eq_nil in H. tauto.
  - apply app_eq_nil in H. apply IH; tauto.
Qed.

Lemma result_ok_of V added res :
  (forall r, res = Some r -> exists c, In c added /\ V c = Some r) ->
  (res = None -> forall c, In c added -> V c = None) ->
  result_ok V added res = true.
Proof.
  intros H1 H2. destruct res as [r|]; simpl.
  - destruct (H1 r eq_refl) as [c [Hc Hv]]. apply existsb_exists. exists c. split; [exact Hc|]. rewrite Hv. apply Z.eqb_refl.
  - apply forallb_forall. intros c Hc. rewrite (H2 eq_refl c Hc). reflexivity.
Qed.

Lemma after_cleanup_inv bs V s t th loc :
  Inv V s -> get_thread s t = Some th -> cs_of th = [] -> Inv V (after_cleanup bs s t loc).
Proof.
  intros HI Hg Hc. pose proof HI as [[H1 H2 H3 H4 H5 H6 H7 H8] H9]. unfold after_cleanup.
  destruct (q_queue s) as [|c0 q'] eqn:Eq.
  - destruct (is_master t && Nat.eqb (q_todo s) 0) eqn:Em.
    + (* the master returns *)
      apply andb_true_iff in Em. destruct Em as [Et Ez]. destruct t as [i|]; [discriminate|]. apply Nat.eqb_eq in Ez.
      simpl in Hg. inversion Hg; subst th. clear Hg.
      assert (Hin : inflight s = []).
      { rewrite Ez in H1. simpl in H1. destruct (inflight s); [reflexivity | simpl in H1; lia]. }
      assert (Hw : flat_map cs_of (q_workers s) = []).
      { unfold inflight, threads in Hin. simpl in Hin. apply app_eq_nil in Hin. tauto. }
      split; [constructor|]; unfold threads, inflight; simpl.
      * rewrite Hw. rewrite Ez. reflexivity.
      * intros c [].
      * rewrite Hw. intros c [[]|[[]|[]]].
      * intros r Hr. discriminate.
      * intros _ c [].
      * constructor; [exact I|]. apply Forall_forall. intros w Hw'. inversion H6 as [|m ws Hm Hws]; subst.
        rewrite Forall_forall in Hws. eapply thread_ok_idle; [apply Hws; exact Hw'|]. eapply flat_map_nil_all; eauto.
      * apply Forall_app. split; [exact H7|]. constructor; [|constructor]. unfold ret_ok.
        assert (Hfin : forall c, In c (q_added s) -> In c (q_finished s)).
        { intros c Hc'. destruct (H2 c Hc') as [A|[A|A]]; [destruct A | rewrite Hin in A; destruct A | exact A]. }
        split.
        -- apply result_ok_of; [exact H4|]. intros Hn c Hc'. apply (H5 Hn c (Hfin c Hc')).
        -- intros Hn c Hc'. apply (H5 Hn c (Hfin c Hc')).
      * intros [b Hb]. discriminate.
      * intros Hb. discriminate.
    + (* wait *)
      set (s0 := {| q_queue := []; q_todo := q_todo s; q_idle := S (q_idle s); q_total := q_total s; q_result := q_result s;
                    q_master := q_master s; q_workers := q_workers s; q_added := q_added s; q_finished := q_finished s;
                    q_evaluated := q_evaluated s; q_returned := q_returned s |}).
      assert (HI0 : Inv V s0) by (apply (Inv_ext V s s0); [unfold core, s0; simpl; rewrite Eq; reflexivity | exact HI]).
      apply (Inv_set_idle V s0 t th); auto.
      * exact I.
      * intros Et _. subst t. simpl in Em. destruct (Nat.eqb (q_todo s) 0) eqn:Ez; [discriminate|]. apply Nat.eqb_neq in Ez. simpl. lia.
  - (* take a batch from the back of the queue *)
    set (q := c0 :: q') in *. set (n := batch_now bs (length q) (q_total s) (q_idle s)).
    set (keep := length q - n).
    assert (Hn1 : 1 <= n) by apply batch_now_pos.
    assert (Hn2 : n <= length q) by (apply batch_now_le; unfold q; simpl; lia).
    assert (Hkeep : keep < length q) by (unfold keep; lia).
    set (dw := match q_result s with None => true | Some _ => false end).
    set (x := {| t_pc := PBatch (skipn keep q) dw; t_local := loc |}).
    set (s0 := {| q_queue := firstn keep q; q_todo := q_todo s; q_idle := q_idle s; q_total := q_total s; q_result := q_result s;
                  q_master := q_master s; q_workers := q_workers s; q_added := q_added s; q_finished := q_finished s;
                  q_evaluated := q_evaluated s; q_returned := q_returned s |}).
    assert (Hg0 : get_thread s0 t = Some th) by exact Hg.
    pose proof (inflight_perm s t th Hg) as P1. rewrite Hc in P1. simpl in P1.
    pose proof (inflight_set_perm s0 t th x Hg0) as P2. change (cs_of x) with (skipn keep q) in P2.
    assert (Ho : others s0 t = others s t) by (destruct t; reflexivity). rewrite Ho in P2.
    assert (Pin : forall c, In c (inflight (set_thread s0 t x)) <-> In c (skipn keep q) \/ In c (inflight s)).
    { intros c. split; intros Hi.
      - apply (Permutation_in _ P2) in Hi. apply in_app_or in Hi. destruct Hi as [A|A]; [left; exact A | right].
        eapply Permutation_in; [symmetry; exact P1 | exact A].
      - eapply Permutation_in; [symmetry; exact P2|]. apply in_or_app. destruct Hi as [A|A]; [left; exact A | right].
        eapply Permutation_in; [exact P1 | exact A]. }
    assert (Plen : length (inflight (set_thread s0 t x)) = length (skipn keep q) + length (inflight s)).
    { rewrite (Permutation_length P2), app_length, (Permutation_length P1). reflexivity. }
    destruct (set_thread_fields s0 t x) as (F1 & F2 & F3 & F4 & F5 & F6 & F7).
    split; [constructor|]; rewrite ?F1, ?F2, ?F3, ?F4, ?F5, ?F6, ?F7; simpl.
    + rewrite Plen, H1. rewrite <- (firstn_skipn keep q) at 1. rewrite app_length. lia.
    + intros c Hc'. destruct (H2 c Hc') as [A|[A|A]]; auto.
      * apply (in_firstn_skipn q keep) in A. destruct A as [A|A]; [left; exact A | right; left; apply Pin; left; exact A].
      * right; left. apply Pin. right; exact A.
    + intros c [A|[A|A]]; apply H3.
      * left. apply (in_firstn_skipn q keep). left; exact A.
      * apply Pin in A. destruct A as [A|A]; [left; apply (in_firstn_skipn q keep); right; exact A | right; left; exact A].
      * right; right; exact A.
    + exact H4.
    + exact H5.
    + eapply Forall_perm; [symmetry; eapply threads_set_perm; exact Hg0|]. rewrite Ho. constructor.
      * unfold thread_ok, x. simpl. split; [apply skipn_nonempty; exact Hkeep|]. unfold dw. destruct (q_result s); [intros _; discriminate | discriminate].
      * assert (Forall (thread_ok V (q_result s) (q_evaluated s)) (th :: others s t)) by (eapply Forall_perm; [eapply threads_perm; exact Hg | exact H6]).
        inversion H; assumption.
    + exact H7.
    + destruct t as [i|]; simpl.
      * intros Hb. specialize (H8 Hb). rewrite H8 in Hkeep. simpl in Hkeep. lia.
      * intros [b Hb]. discriminate.
    + destruct t as [i|]; simpl.
      * intros Hb. exact (H9 Hb).
      * intros Hb. discriminate.
Qed.
