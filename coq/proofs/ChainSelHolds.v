(* ChainSel: the executable predicates evaluated on a dump of the implementation's block index (violation search)
   hold on the dump of every state the theorems cover: a `fail` verdict means the implementation's index is not the
   index of any reachable model state. *)
From BV Require Import lib.Ints gen.Params_gen model.ChainSel proofs.ChainSelBase proofs.ChainSelFrame proofs.ChainSelInv
  proofs.ChainSelDeliver proofs.ChainSelFmw proofs.ChainSelMain.
Local Open Scope Z_scope.
#[local] Arguments Z.eqb : simpl never.
#[local] Arguments Z.ltb : simpl never.
#[local] Arguments Z.gtb : simpl never.
#[local] Arguments Z.geb : simpl never.
#[local] Arguments Z.leb : simpl never.
#[local] Arguments Z.add : simpl never.
#[local] Arguments Z.sub : simpl never.

Section Holds.
Variable parent_of : id -> id.
Variable proof_of : id -> Z.
Variable kind_of : id -> kind.
Hypothesis proof_pos : forall b, 0 < proof_of b.
Hypothesis genesis_valid : kind_of GENESIS = KValid.
Set Default Proof Using "All".

Notation Inv := (Inv parent_of proof_of kind_of).
Notation Good := (Good parent_of proof_of kind_of).

(* what the drivers print for a block, as a record *)
Definition dump_rec (s : state) (b : id) : drec :=
  {| d_id := b; d_parent := parent_of b; d_work := work s b; d_seq := st_seq s b; d_data := st_data s b;
     d_failed := st_failed s b; d_active := in_chain s b; d_kind := kind_of b |}.
Definition dump (s : state) : list drec := map (dump_rec s) (ids s).

Lemma get_drec_map s l b : get_drec (map (dump_rec s) l) b = if mem b l then Some (dump_rec s b) else None.
Proof.
  induction l as [|a l IH]; [reflexivity|]. cbn [map get_drec d_id dump_rec]. rewrite mem_cons.
  destruct (Z.eqb_spec a b) as [->|N].
  - rewrite Z.eqb_refl. reflexivity.
  - destruct (Z.eqb_spec b a) as [E|_]; [congruence|]. exact IH.
Qed.
Lemma get_drec_dump s (HI : Inv s) b : get_drec (dump s) b = if known s b then Some (dump_rec s b) else None.
Proof.
  unfold dump. rewrite get_drec_map. destruct (known s b) eqn:E.
  - apply (iknown_iff _ _ _ proof_pos _ HI) in E. apply mem_In in E. rewrite E. reflexivity.
  - destruct (mem b (ids s)) eqn:E'; [|reflexivity]. apply mem_In in E'. apply (iknown_iff _ _ _ proof_pos _ HI) in E'. congruence.
Qed.

(* d_eligible is sound for clean_ancestry whatever the fuel, and complete with fuel >= the height + 1 *)
Lemma d_eligible_sound s (HI : Inv s) fuel : forall b, d_eligible (dump s) b fuel = true -> clean_ancestry s b.
Proof.
  induction fuel as [|f IH]; intros b; cbn [d_eligible]; [discriminate|].
  rewrite (get_drec_dump s HI). destruct (known s b) eqn:Hk; [|discriminate]. cbn [dump_rec d_data d_failed d_id d_parent].
  intros H. apply andb_prop in H. destruct H as [H Hrec]. apply andb_prop in H. destruct H as [Hd Hf].
  split; [assumption|]. destruct (Z.eqb_spec b GENESIS) as [->|N].
  - rewrite (ipath_genesis _ _ _ proof_pos _ HI). intros x [<-|[]]. split; [assumption|]. destruct (st_failed s GENESIS); [discriminate|reflexivity].
  - cbn [orb] in Hrec. destruct (IH _ Hrec) as [_ Hall].
    destruct (ipath_unfold _ _ _ proof_pos _ HI _ Hk N) as [_ [Hpath _]]. rewrite Hpath.
    intros x [<-|Hx]; [|apply Hall; assumption]. split; [assumption|]. destruct (st_failed s b); [discriminate|reflexivity].
Qed.
Lemma d_eligible_complete s (HI : Inv s) : forall b, known s b = true -> clean_ancestry s b ->
  forall fuel, (length (path s b) <= fuel)%nat -> d_eligible (dump s) b fuel = true.
Proof.
  intros b Hk. pattern b. revert b Hk. apply (path_ind parent_of proof_of kind_of proof_pos s HI).
  - intros [Hk Hall] fuel Hlen. rewrite (ipath_genesis _ _ _ proof_pos _ HI) in Hlen. destruct fuel as [|f]; [cbn in Hlen; lia|].
    cbn [d_eligible]. rewrite (get_drec_dump s HI), Hk. cbn [dump_rec d_data d_failed d_id d_parent].
    destruct (Hall GENESIS) as [-> ->]; [apply (ipath_self _ _ _ proof_pos _ HI); assumption|]. rewrite Z.eqb_refl. reflexivity.
  - intros b Hk N IH [_ Hall] fuel Hlen. destruct (ipath_unfold _ _ _ proof_pos _ HI _ Hk N) as [Hkp [Hpath _]].
    rewrite Hpath in Hlen. destruct fuel as [|f]; [cbn in Hlen; lia|].
    cbn [d_eligible]. rewrite (get_drec_dump s HI), Hk. cbn [dump_rec d_data d_failed d_id d_parent].
    destruct (Hall b) as [-> ->]; [rewrite Hpath; left; reflexivity|]. cbn [negb andb].
    destruct (b =? GENESIS); [reflexivity|]. cbn [orb]. apply IH.
    + split; [assumption|]. intros x Hx. apply Hall. rewrite Hpath. right. assumption.
    + cbn [length] in Hlen. lia.
Qed.

(* a path has no repetition (work strictly decreases along it), so it is no longer than the index *)
Lemma path_NoDup s (HI : Inv s) : forall b, known s b = true -> NoDup (path s b).
Proof.
  intros b Hk. pattern b. revert b Hk. apply (path_ind parent_of proof_of kind_of proof_pos s HI).
  - rewrite (ipath_genesis _ _ _ proof_pos _ HI). constructor; [intros []|constructor].
  - intros b Hk N IH. destruct (ipath_unfold _ _ _ proof_pos _ HI _ Hk N) as [Hkp [Hpath Hw]]. rewrite Hpath.
    constructor; [|assumption]. intros Hin.
    assert (Nb : b <> parent_of b) by (intros E; symmetry in E; revert E; apply (iparent_neq _ _ _ proof_pos _ HI); assumption).
    pose proof (ipath_work _ _ _ proof_pos _ HI _ _ Hin Nb). pose proof (proof_pos b). lia.
Qed.
Lemma path_length_le s (HI : Inv s) b : known s b = true -> (length (path s b) <= length (dump s))%nat.
Proof.
  intros Hk. unfold dump. rewrite map_length. apply NoDup_incl_length; [apply path_NoDup; assumption|].
  intros x Hx. apply (iknown_iff _ _ _ proof_pos _ HI). eapply (ipath_known _ _ _ proof_pos _ HI); eauto.
Qed.

Lemma forallb_map_ids s (P : id -> bool) :
  (forall b, In b (ids s) -> P b = true) -> forallb (fun r => P (d_id r)) (dump s) = true.
Proof.
  intros H. apply forallb_forall. intros r Hr. unfold dump in Hr. apply in_map_iff in Hr.
  destruct Hr as [b [<- Hb]]. cbn [dump_rec d_id]. apply H. assumption.
Qed.

(* the C08 predicates hold on the dump of every state in which the invariant holds and ActivateBestChain is done *)
Theorem holds_on_good s : Good s ->
  holds_tip_best (dump s) (st_tip s) = true /\ holds_tip_most_work (dump s) (st_tip s) = true /\
  holds_active_clean (dump s) (st_tip s) = true.
Proof.
  intros HG. pose proof HG as [HI [HC HQ]]. pose proof (i_tip_known _ _ _ _ HI) as Hkt.
  pose proof (tip_clean parent_of proof_of kind_of proof_pos genesis_valid s HG) as Htc.
  assert (Hbetter : forall b, known s b = true -> d_eligible (dump s) b (length (dump s)) = true ->
                    d_better (dump_rec s b) (dump_rec s (st_tip s)) = false /\ (work s b >? work s (st_tip s)) = false).
  { intros b Hk He. apply (d_eligible_sound s HI) in He. unfold d_better. cbn [dump_rec d_work d_seq].
    destruct (Z.eq_dec b (st_tip s)) as [->|N].
    - rewrite Z.eqb_refl. destruct (Z.gtb_spec (work s (st_tip s)) (work s (st_tip s))); [lia|].
      destruct (Z.ltb_spec (st_seq s (st_tip s)) (st_seq s (st_tip s))); [lia|]. split; reflexivity.
    - pose proof (tip_most_work parent_of proof_of kind_of proof_pos genesis_valid s HG b He) as Hw.
      destruct (Z.gtb_spec (work s b) (work s (st_tip s))); [lia|]. split; [|reflexivity]. cbn [orb].
      destruct (Z.eqb_spec (work s b) (work s (st_tip s))) as [E|_]; [|reflexivity]. cbn [andb].
      pose proof (tip_first_seen parent_of proof_of kind_of proof_pos genesis_valid s HG b He N E).
      destruct (Z.ltb_spec (st_seq s b) (st_seq s (st_tip s))); [lia|reflexivity]. }
  split; [|split].
  - unfold holds_tip_best. rewrite (get_drec_dump s HI), Hkt. apply andb_true_intro. split.
    + apply (d_eligible_complete s HI _ Hkt Htc). apply path_length_le; assumption.
    + apply forallb_forall. intros r Hr. unfold dump in Hr. apply in_map_iff in Hr. destruct Hr as [b [<- Hb]].
      cbn [d_id dump_rec]. apply (iknown_iff _ _ _ proof_pos _ HI) in Hb.
      destruct (d_eligible (dump s) b (length (dump s))) eqn:E; [|reflexivity]. cbn [andb].
      destruct (Hbetter b Hb E) as [H _]. unfold d_better in *. cbn [dump_rec d_work d_seq] in *. rewrite H. reflexivity.
  - unfold holds_tip_most_work. rewrite (get_drec_dump s HI), Hkt.
    apply forallb_forall. intros r Hr. unfold dump in Hr. apply in_map_iff in Hr. destruct Hr as [b [<- Hb]].
    cbn [d_id dump_rec d_work]. apply (iknown_iff _ _ _ proof_pos _ HI) in Hb.
    destruct (d_eligible (dump s) b (length (dump s))) eqn:E; [|reflexivity]. cbn [andb].
    destruct (Hbetter b Hb E) as [_ H]. rewrite H. reflexivity.
  - unfold holds_active_clean. apply andb_true_intro. split.
    + apply forallb_forall. intros r Hr. unfold dump in Hr. apply in_map_iff in Hr. destruct Hr as [b [<- Hb]].
      cbn [dump_rec d_active d_failed d_data d_kind d_id d_parent]. apply (iknown_iff _ _ _ proof_pos _ HI) in Hb.
      destruct (in_chain s b) eqn:Ec; [|reflexivity]. cbn [negb orb].
      apply (iin_chain_iff _ _ _ proof_pos _ HI) in Ec. destruct (i_chain _ _ _ _ HI _ Ec) as [Hd [_ [Hf Hkd]]].
      rewrite Hf, Hd, Hkd. cbn [negb andb kind_eqb]. destruct (Z.eqb_spec b GENESIS) as [|N]; [reflexivity|]. cbn [orb].
      destruct (ipath_unfold _ _ _ proof_pos _ HI _ Hb N) as [Hkp _].
      rewrite (get_drec_dump s HI), Hkp. cbn [dump_rec d_active].
      apply (iin_chain_iff _ _ _ proof_pos _ HI). eapply (ipath_trans _ _ _ proof_pos _ HI); [|exact Ec].
      apply (iparent_in_path _ _ _ proof_pos _ HI); assumption.
    + rewrite (get_drec_dump s HI), Hkt. cbn [dump_rec d_active].
      apply (iin_chain_iff _ _ _ proof_pos _ HI). apply (ipath_self _ _ _ proof_pos _ HI). assumption.
Qed.

Theorem c08_search_predicates_hold mw ops :
  let s := run parent_of proof_of kind_of (genesis_state proof_of mw) ops in
  holds_tip_best (dump s) (st_tip s) = true /\ holds_tip_most_work (dump s) (st_tip s) = true /\
  holds_active_clean (dump s) (st_tip s) = true.
Proof.
  intros s. apply holds_on_good. exact (reachable_good parent_of proof_of kind_of proof_pos genesis_valid mw s (ex_intro _ ops eq_refl)).
Qed.

End Holds.
