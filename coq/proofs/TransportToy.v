(* C32: a concrete cipher instance satisfying the premises of the v2 round-trip theorem (non-vacuity),
   and an ideal-functionality instance satisfying the premises of the tampering theorem. *)
From Coq Require Import NArith.
From BV Require Import lib.Ints gen.Params_gen model.Transport proofs.TransportNode proofs.TransportV1 proofs.TransportV2.
Local Open Scope nat_scope.

Definition toy_H4 (p : list N) : list N := firstn 4 (p ++ zeros 4).
Lemma toy_H4_len p : length (toy_H4 p) = CHECKSUM_SIZE.
Proof. unfold toy_H4. rewrite firstn_length, app_length. unfold zeros. rewrite repeat_length. rewrite CHECKSUM_SIZE_4. lia. Qed.

(* identity ciphers: the length in clear, the plaintext followed by a constant 16-byte tag *)
Definition toy_kex (_ : list N) : unit := tt.
Definition toy_term : list N := repeat 7%N 16.
Definition toy_rterm (_ : unit) : list N := toy_term.
Definition toy_ldec (_ : unit) (n : nat) (b : list N) : Z := (le_value b mod 16777216)%Z.
Definition toy_lenc (n : nat) (len : Z) : list N := le_bytes 3 len.
Definition toy_penc (n : nat) (aad : list N) (h : N) (c : list N) : list N := h :: c ++ zeros 16.
Definition toy_pdec (_ : unit) (n : nat) (aad ct : list N) : option (N * list N) :=
  match ct with [] => None | h :: r => Some (h, firstn (length r - 16) r) end.

Lemma toy_ldec_range s n b : (0 <= toy_ldec s n b < 16777216)%Z.
Proof. unfold toy_ldec. apply Z.mod_pos_bound. lia. Qed.
Lemma toy_lenc_ok n len : (0 <= len < 16777216)%Z ->
    length (toy_lenc n len) = 3 /\ toy_ldec (toy_kex []) n (toy_lenc n len) = len.
Proof.
  intros H. unfold toy_lenc, toy_ldec. split; [apply le_bytes_length|].
  rewrite (le_value_bytes 3) by (change (256 ^ Z.of_nat 3)%Z with 16777216%Z; lia). apply Z.mod_small. lia.
Qed.
Lemma toy_penc_ok n aad h c :
    length (toy_penc n aad h c) = length c + 17 /\ toy_pdec tt n aad (toy_penc n aad h c) = Some (h, c).
Proof.
  unfold toy_penc, toy_pdec, zeros. split.
  - cbn [length]. rewrite app_length, repeat_length. lia.
  - rewrite app_length, repeat_length. replace (length c + 16 - 16) with (length c) by lia.
    rewrite firstn_app_exact by reflexivity. reflexivity.
Qed.

(* ideal functionality: the receiver's n-th Decrypt accepts exactly the sender's n-th ciphertext *)
Section Ideal.
  Variable pk : list N.
  Variable pkts0 : list (bool * list N).
  Definition ideal_kex (pk' : list N) : bool := bytes_eqb pk' pk.
  Definition ideal_pdec (s : bool) (n : nat) (aad ct : list N) : option (N * list N) :=
    if s then
      match nth_error pkts0 n with
      | Some (ig, m) => if bytes_eqb ct (toy_penc n aad (hdr_byte ig) m) then Some (hdr_byte ig, m) else None
      | None => None
      end
    else None.
  Lemma ideal_auth n aad c h m : ideal_pdec (ideal_kex pk) n aad c = Some (h, m) ->
      exists ig, nth_error pkts0 n = Some (ig, m) /\ h = hdr_byte ig.
  Proof.
    unfold ideal_pdec, ideal_kex. rewrite bytes_eqb_refl.
    destruct (nth_error pkts0 n) as [[ig m']|]; [|discriminate].
    destruct (bytes_eqb _ _); [|discriminate]. intros H. inversion H. exists ig. auto.
  Qed.
  Lemma ideal_no_mitm pk' : pk' <> pk -> forall n aad c, ideal_pdec (ideal_kex pk') n aad c = None.
  Proof. intros H n aad c. unfold ideal_pdec, ideal_kex. apply bytes_eqb_neq in H. rewrite H. reflexivity. Qed.
End Ideal.
