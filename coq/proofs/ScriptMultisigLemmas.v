(* OP_CHECKMULTISIG: the signature/key matching loop of model/Script.v (multisig_loop) succeeds exactly when the
   signatures can be matched, in order, to distinct keys in order (an order-preserving matching), as decided by the
   checker.  Keys and signatures are listed top-of-stack first, as the loop consumes them. *)
From BV Require Import lib.Ints gen.Params_gen model.Script proofs.ScriptNumLemmas proofs.ScriptLemmas proofs.ScriptInvLemmas.
Local Open Scope Z_scope.

Section Multisig.
Variable fl : Z.
Variable ck : checker.
Variable sv : sigversion.
Variable code : bytes.

Definition sig_ok (sig key : bytes) : bool := chk_ecdsa ck sig key code sv.

(* an order-preserving matching of all signatures to keys *)
Inductive matches : list bytes -> list bytes -> Prop :=
| M_done : forall keys, matches keys []
| M_use : forall key keys sig sigs, sig_ok sig key = true -> matches keys sigs -> matches (key :: keys) (sig :: sigs)
| M_skip : forall key keys sigs, matches keys sigs -> matches (key :: keys) sigs.

Lemma matches_length keys sigs : matches keys sigs -> (length sigs <= length keys)%nat.
Proof. induction 1; cbn [length]; lia. Qed.

Lemma matches_drop_sig keys : forall sig sigs, matches keys (sig :: sigs) -> matches keys sigs.
Proof.
  induction keys as [|k ks IH]; intros sig sigs H; inversion H; subst.
  - apply M_skip. assumption.
  - apply M_skip. eapply IH. eassumption.
Qed.

(* the encoding checks made inside the loop all pass (e.g. no DERSIG/LOW_S/STRICTENC/WITNESS_PUBKEYTYPE flag) *)
Definition encodings_pass (keys sigs : list bytes) : Prop :=
  (forall s, In s sigs -> check_signature_encoding fl s = Ok tt) /\
  (forall k, In k keys -> check_pubkey_encoding fl sv k = Ok tt).

Theorem multisig_loop_spec keys : forall sigs, encodings_pass keys sigs ->
  exists b, multisig_loop fl ck sv code keys sigs = Ok b /\ (b = true <-> matches keys sigs).
Proof.
  induction keys as [|k ks IH]; intros sigs [Hs Hk].
  - destruct sigs as [|s ss]; cbn [multisig_loop].
    + exists true. split; [reflexivity|]. split; [intros; constructor|reflexivity].
    + exists false. split; [reflexivity|]. split; [discriminate|]. intros H. inversion H.
  - destruct sigs as [|s ss]; cbn [multisig_loop].
    + exists true. split; [reflexivity|]. split; [intros; constructor|reflexivity].
    + rewrite (Hs s (or_introl eq_refl)), (Hk k (or_introl eq_refl)). cbn [bind].
      fold (sig_ok s k). destruct (sig_ok s k) eqn:Eok.
      * (* the signature matches this key: consume both *)
        destruct (lenz ss >? lenz ks) eqn:El.
        -- exists false. split; [reflexivity|]. split; [discriminate|]. intros H. exfalso.
           apply matches_length in H. cbn [length] in H. unfold lenz in El. lia.
        -- destruct (IH ss) as (b & Hb & Hiff).
           { split; intros x Hx; [apply Hs|apply Hk]; right; exact Hx. }
           exists b. split; [exact Hb|]. rewrite Hiff. split.
           ++ intros H. apply M_use; assumption.
           ++ intros H. inversion H; subst; [assumption|]. eapply matches_drop_sig. eassumption.
      * (* no match: skip the key, keep the signature *)
        destruct (lenz (s :: ss) >? lenz ks) eqn:El.
        -- exists false. split; [reflexivity|]. split; [discriminate|]. intros H. exfalso.
           inversion H; subst; [congruence|].
           match goal with H' : matches ks (s :: ss) |- _ => apply matches_length in H' end. unfold lenz in El. lia.
        -- destruct (IH (s :: ss)) as (b & Hb & Hiff).
           { split; intros x Hx; [apply Hs; exact Hx|apply Hk; right; exact Hx]. }
           exists b. split; [exact Hb|]. rewrite Hiff. split.
           ++ intros H. apply M_skip. assumption.
           ++ intros H. inversion H; subst; [congruence|assumption].
Qed.

End Multisig.
