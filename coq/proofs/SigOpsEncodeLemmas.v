(* parse inverts the serialization of operations; a truncated tail ends the parsed list (C06). *)
From BV Require Import lib.Ints gen.Params_gen model.SigOps proofs.SigOpsLemmas.
Local Open Scope Z_scope.

Lemma firstn_app_exact {A} (d rest : list A) : firstn (length d) (d ++ rest) = d.
Proof. induction d as [|a d IH]; simpl; [destruct rest; reflexivity|]. rewrite IH. reflexivity. Qed.
Lemma skipn_app_exact {A} (d rest : list A) : skipn (length d) (d ++ rest) = rest.
Proof. induction d as [|a d IH]; simpl; [reflexivity|exact IH]. Qed.

Lemma td_len (d rest : list Z) : (zlen (d ++ rest) <? zlen d) = false.
Proof. rewrite zlen_app. pose proof (zlen_nonneg rest). destruct (Z.ltb_spec (zlen d + zlen rest) (zlen d)); [lia|reflexivity]. Qed.
Lemma td_first (d rest : list Z) : firstn (Z.to_nat (zlen d)) (d ++ rest) = d.
Proof. unfold zlen. rewrite Nat2Z.id. apply firstn_app_exact. Qed.
Lemma td_skip (d rest : list Z) : skipn (Z.to_nat (zlen d)) (d ++ rest) = rest.
Proof. unfold zlen. rewrite Nat2Z.id. apply skipn_app_exact. Qed.

Lemma get_op_encode o rest : wf_op o -> get_op (encode_op o ++ rest) = Some (o, rest).
Proof.
  intros (Hc & H0 & H1 & H2 & H4 & Hn). destruct o as [c d]. simpl in *.
  unfold encode_op, get_op. simpl op_code. simpl op_data.
  change SIGOPS_OP_PUSHDATA4 with 78.
  pose proof (zlen_nonneg d) as Hd.
  destruct (Z.ltb_spec c 76) as [L76|G76].
  - (* direct push *)
    pose proof (H0 L76) as Ec. subst c.
    simpl app. destruct (Z.leb_spec (zlen d) 78); [|lia].
    unfold read_push_size. change SIGOPS_OP_PUSHDATA1 with 76.
    destruct (Z.ltb_spec (zlen d) 76); [|lia].
    rewrite td_len, td_first, td_skip. reflexivity.
  - destruct (Z.eqb_spec c 76) as [E76|N76].
    + subst c. simpl app. cbn [Z.leb Z.compare Pos.compare Pos.compare_cont].
      unfold read_push_size. change SIGOPS_OP_PUSHDATA1 with 76. cbn [Z.ltb Z.eqb Z.compare Pos.compare Pos.compare_cont Pos.eqb].
      rewrite td_len, td_first, td_skip. reflexivity.
    + destruct (Z.eqb_spec c 77) as [E77|N77].
      * subst c. simpl app. cbn [Z.leb Z.compare Pos.compare Pos.compare_cont].
        unfold read_push_size. change SIGOPS_OP_PUSHDATA1 with 76. change SIGOPS_OP_PUSHDATA2 with 77.
        cbn [Z.ltb Z.eqb Z.compare Pos.compare Pos.compare_cont Pos.eqb].
        replace (zlen d mod 256 + 256 * (zlen d / 256)) with (zlen d) by lia.
        rewrite td_len, td_first, td_skip. reflexivity.
      * destruct (Z.eqb_spec c 78) as [E78|N78].
        -- subst c. simpl app. cbn [Z.leb Z.compare Pos.compare Pos.compare_cont].
           unfold read_push_size. change SIGOPS_OP_PUSHDATA1 with 76. change SIGOPS_OP_PUSHDATA2 with 77.
           cbn [Z.ltb Z.eqb Z.compare Pos.compare Pos.compare_cont Pos.eqb].
           replace (zlen d mod 256 + 256 * (zlen d / 256 mod 256) + 65536 * (zlen d / 65536 mod 256) + 16777216 * (zlen d / 16777216))
             with (zlen d) by lia.
           rewrite td_len, td_first, td_skip. reflexivity.
        -- assert (78 < c) as G by lia. rewrite (Hn G). simpl app.
           destruct (Z.leb_spec c 78); [lia|]. reflexivity.
Qed.

Lemma encode_op_nonempty o rest : exists b s', encode_op o ++ rest = b :: s'.
Proof. unfold encode_op. simpl. eauto. Qed.

(* parse inverts encode; what follows a list of well-formed operations is parsed on its own *)
Lemma parse_encode_app : forall ops tail, Forall wf_op ops ->
  parse (encode_ops ops ++ tail) = (let (l, ok) := parse tail in (ops ++ l, ok)).
Proof.
  induction ops as [|o r IH]; intros tail Hwf.
  - simpl. destruct (parse tail); reflexivity.
  - inversion Hwf as [|? ? Ho Hr]; subst.
    change (encode_ops (o :: r)) with (encode_op o ++ encode_ops r). rewrite <- app_assoc.
    rewrite (parse_unfold (encode_op o ++ encode_ops r ++ tail)).
    remember (encode_op o ++ encode_ops r ++ tail) as S eqn:ES.
    destruct S as [|b s'].
    { exfalso. destruct (encode_op_nonempty o (encode_ops r ++ tail)) as (b & s' & E). congruence. }
    rewrite ES. rewrite (get_op_encode o _ Ho).
    rewrite (IH tail Hr). destruct (parse tail) as [l ok]. reflexivity.
Qed.

Theorem parse_encode ops : Forall wf_op ops -> parse (encode_ops ops) = (ops, true).
Proof.
  intros H. pose proof (parse_encode_app ops [] H) as P. rewrite app_nil_r in P. rewrite P.
  unfold parse. simpl. rewrite app_nil_r. reflexivity.
Qed.

(* a tail whose first operation cannot be read (a truncated push) ends the list: everything before it is parsed,
   nothing of it or after it *)
Theorem parse_encode_truncated ops tail : Forall wf_op ops -> tail <> [] -> get_op tail = None ->
  parse (encode_ops ops ++ tail) = (ops, false).
Proof.
  intros H Hne Hg. rewrite (parse_encode_app ops tail H). rewrite (parse_unfold tail).
  destruct tail as [|b t]; [congruence|]. rewrite Hg. rewrite app_nil_r. reflexivity.
Qed.

(* hence for counting: the sigops before the truncated push count, nothing after it *)
Theorem sigops_stop_at_parse_error accurate ops tail :
  Forall wf_op ops -> tail <> [] -> get_op tail = None -> zlen (encode_ops ops ++ tail) <= 200000000 ->
  get_sigop_count accurate (encode_ops ops ++ tail) = count_ops accurate 255 ops.
Proof.
  intros H Hne Hg Hs. rewrite get_sigop_count_spec by exact Hs. unfold spec_sigops.
  rewrite parse_encode_truncated by assumption. reflexivity.
Qed.

Theorem sigops_of_encoded accurate ops :
  Forall wf_op ops -> zlen (encode_ops ops) <= 200000000 ->
  get_sigop_count accurate (encode_ops ops) = count_ops accurate 255 ops.
Proof.
  intros H Hs. rewrite get_sigop_count_spec by exact Hs. unfold spec_sigops. rewrite parse_encode by exact H. reflexivity.
Qed.
