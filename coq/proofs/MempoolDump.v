(* The executable predicate check_dump (what `holds` evaluates on the implementation's dumps) is sound for the property's
   clauses as Props (dump_spec), and every state satisfying Inv has a dump that passes it. *)
From BV Require Import lib.Ints gen.Params_gen model.Locks model.Mempool proofs.LocksLemmas.
From BV Require Import proofs.MempoolBase proofs.MempoolPool proofs.MempoolGraph proofs.MempoolChain proofs.MempoolInv proofs.MempoolBlock proofs.MempoolReorg.
Local Open Scope Z_scope.

Record dump_spec (d : dump) : Prop := {
  ds_ids : NoDup (map d_id (dm_entries d));
  (* no outpoint is spent twice, by two entries or twice by one *)
  ds_once : NoDup (map fst (all_spends d));
  (* the spends index maps exactly the inputs of the entries, each to its spender *)
  ds_index : forall o id, In (o, id) (dm_next d) <-> In (o, id) (all_spends d);
  ds_index_keys : NoDup (map fst (dm_next d));
  (* every input is an unspent coin of the tip or an output of an entry *)
  ds_avail : forall e x, In e (dm_entries d) -> In x (d_vin e) -> snd x = In_mempool \/ exists h cb, snd x = In_utxo h cb;
  ds_totals : dm_total_size d = zsum (map d_size (dm_entries d)) /\ dm_total_fee d = zsum (map d_fee (dm_entries d));
  ds_final : forall e, In e (dm_entries d) -> is_final_tx (d_ltx e) (dm_height d + 1) (dm_mtp d) = true;
  ds_mature : forall e x h, In e (dm_entries d) -> In x (d_vin e) -> snd x = In_utxo h true -> COINBASE_MATURITY <= dm_height d + 1 - h;
  (* the recorded ancestor sets are the closure of "spends an output of an entry" *)
  ds_links : forall e x, In e (dm_entries d) ->
     (In x (d_anc e) <-> In x (close (S (length (dm_entries d))) (d_parents_id d) (nodupz (d_parents d e))));
  (* every entry is BIP68-final for the next block by a fresh evaluation *)
  ds_bip68 : forall e, In e (dm_entries d) -> d_bip68 e = true }.

Lemma pair_in_In x l : pair_in x l = true <-> In x l.
Proof.
  unfold pair_in. rewrite existsb_exists. split.
  - intros (y & Hy & E). apply andb_true_iff in E. destruct E as [E1 E2]. apply oeqb_eq in E1. apply Z.eqb_eq in E2.
    destruct x, y. simpl in *. subst. exact Hy.
  - intros H. exists x. split; [exact H|]. rewrite oeqb_refl, Z.eqb_refl. reflexivity.
Qed.
Lemma same_set_spec a b : same_set a b = true -> forall x, In x a <-> In x b.
Proof.
  unfold same_set. rewrite andb_true_iff, !forallb_forall. intros [A B] x. split; intros H.
  - apply memz_In. apply A. exact H.
  - apply memz_In. apply B. exact H.
Qed.
Lemma same_set_refl a : same_set a a = true.
Proof. unfold same_set. rewrite andb_true_iff, !forallb_forall. split; intros x Hx; apply memz_In; exact Hx. Qed.

Theorem check_dump_sound d : check_dump d = None -> dump_spec d.
Proof.
  unfold check_dump.
  destruct (nodupb_z (map d_id (dm_entries d))) eqn:E1; simpl; [|discriminate].
  destruct (nodupb_o (map fst (all_spends d))) eqn:E2; simpl; [|discriminate].
  destruct (forallb (fun x => pair_in x (dm_next d)) (all_spends d)) eqn:E3; simpl; [|discriminate].
  destruct (forallb (fun x => pair_in x (all_spends d)) (dm_next d)) eqn:E4; simpl; [|discriminate].
  destruct (nodupb_o (map fst (dm_next d))) eqn:E5; simpl; [|discriminate].
  destruct (forallb _ (dm_entries d)) eqn:E6; simpl; [|discriminate].
  destruct ((dm_total_size d =? _) && _) eqn:E7; simpl; [|discriminate].
  destruct (forallb (fun e => is_final_tx _ _ _) (dm_entries d)) eqn:E8; simpl; [|discriminate].
  destruct (forallb _ (dm_entries d)) eqn:E9 in |- *; simpl; [|discriminate].
  destruct (forallb _ (dm_entries d)) eqn:E10 in |- *; simpl; [|discriminate].
  destruct (forallb d_bip68 (dm_entries d)) eqn:E11; simpl; [|discriminate].
  intros _. constructor.
  - apply nodupb_z_NoDup. exact E1.
  - apply nodupb_o_NoDup. exact E2.
  - intros o id. rewrite forallb_forall in E3, E4. split; intros H.
    + apply pair_in_In. apply E4. exact H.
    + apply pair_in_In. apply E3. exact H.
  - apply nodupb_o_NoDup. exact E5.
  - intros e x He Hx. rewrite forallb_forall in E6. specialize (E6 e He). rewrite forallb_forall in E6. specialize (E6 x Hx).
    destruct (snd x); try discriminate; eauto.
  - apply andb_true_iff in E7. rewrite !Z.eqb_eq in E7. exact E7.
  - intros e He. rewrite forallb_forall in E8. apply E8. exact He.
  - intros e x h He Hx Hs. rewrite forallb_forall in E9. specialize (E9 e He). rewrite forallb_forall in E9. specialize (E9 x Hx).
    rewrite Hs in E9. simpl in E9. apply negb_true_iff, Z.ltb_ge in E9. exact E9.
  - intros e x He. rewrite forallb_forall in E10. specialize (E10 e He). apply same_set_spec. exact E10.
  - intros e He. rewrite forallb_forall in E11. apply E11. exact He.
Qed.

(* ------------------------------------------------------------------------------------------ *)
(* the dump of a state that satisfies the invariant passes *)

Lemma NoDup_flat_map {A B} (f : A -> list B) l : NoDup l -> (forall a, In a l -> NoDup (f a)) ->
  (forall a1 a2 b, In a1 l -> In a2 l -> In b (f a1) -> In b (f a2) -> a1 = a2) -> NoDup (flat_map f l).
Proof.
  induction l as [|a l IH]; simpl; intros N Hf Hd; [constructor|].
  inversion N; subst. apply NoDup_app_intro.
  - apply Hf. left. reflexivity.
  - apply IH; [assumption|intros a0 H0; apply Hf; right; exact H0|].
    intros a1 a2 b H1' H2' B1 B2. apply (Hd a1 a2 b); auto; right; assumption.
  - intros b Hb X. apply in_flat_map in X. destruct X as (a' & Ha' & Hb').
    assert (a = a') as -> by (apply (Hd a a' b); auto). contradiction.
Qed.
Lemma NoDup_map_inv' {A B} (f : A -> B) l : NoDup (map f l) -> NoDup l.
Proof. apply NoDup_map_inv. Qed.

Lemma map_fst_spends (l : list entry) :
  map fst (flat_map (fun e => map (fun o => (o, e_id e)) (t_ins (e_tx e))) l) = flat_map (fun e => t_ins (e_tx e)) l.
Proof.
  induction l as [|a l IH]; [reflexivity|]. cbn [flat_map]. rewrite map_app, IH. f_equal. rewrite map_map.
  generalize (t_ins (e_tx a)). intros m. induction m as [|x m IHm]; simpl; [reflexivity|]. f_equal. exact IHm.
Qed.

Section WithU.
Variable U : tx -> Prop.

Lemma d_ins_of p c e : d_ins (dentry_of p c e) = t_ins (e_tx e).
Proof. unfold d_ins, dentry_of, t_ins. simpl. rewrite map_map. reflexivity. Qed.
Lemma d_ltx_of p c e : d_ltx (dentry_of p c e) = to_ltx (e_tx e).
Proof. unfold d_ltx, dentry_of, to_ltx. simpl. rewrite map_map. reflexivity. Qed.
Lemma d_ids_of p c es : map d_id (map (dentry_of p c) es) = map e_id es.
Proof. rewrite map_map. reflexivity. Qed.

Lemma all_spends_of st : all_spends (dump_of st) =
  flat_map (fun e => map (fun o => (o, e_id e)) (t_ins (e_tx e))) (p_entries (s_pool st)).
Proof.
  unfold all_spends, dump_of. simpl. induction (p_entries (s_pool st)) as [|e l IH]; simpl; [reflexivity|].
  rewrite d_ins_of, IH. reflexivity.
Qed.

Lemma in_all_spends st o id : In (o, id) (all_spends (dump_of st)) <-> spends (s_pool st) id o.
Proof.
  rewrite all_spends_of, in_flat_map. unfold spends. split.
  - intros (e & He & H). apply in_map_iff in H. destruct H as (o' & E & Ho'). inversion E; subst. exists e. auto.
  - intros (e & He & Ee & Ho). exists e. split; [exact He|]. apply in_map_iff. exists o. subst. auto.
Qed.

Lemma find_dentry p c es id : find (fun e => d_id e =? id) (map (dentry_of p c) es) = option_map (dentry_of p c) (find (fun e => e_id e =? id) es).
Proof. unfold e_id. induction es as [|e l IH]; simpl; [reflexivity|]. destruct (t_id (e_tx e) =? id); [reflexivity|exact IH]. Qed.

Lemma d_parents_of st e : d_parents (dump_of st) (dentry_of (s_pool st) (s_chain st) e) = parents_tx (s_pool st) (e_tx e).
Proof.
  unfold d_parents, parents_tx. rewrite d_ins_of. apply filter_ext. intros i. unfold dump_of. simpl. rewrite d_ids_of.
  apply eq_true_iff_eq. rewrite memz_In, in_pool_iff. reflexivity.
Qed.
Lemma d_parents_id_of st id : d_parents_id (dump_of st) id = parents (s_pool st) id.
Proof.
  unfold d_parents_id, parents, find_entry. unfold dump_of at 1. simpl. rewrite find_dentry.
  destruct (find _ (p_entries (s_pool st))) as [e|]; simpl; [apply d_parents_of|reflexivity].
Qed.

Definition totals_in_range (p : pool) : Prop :=
  0 <= zsum (map (fun e => t_size (e_tx e)) (p_entries p)) <= UINT64_MAX /\
  INT64_MIN <= zsum (map (fun e => t_fee (e_tx e)) (p_entries p)) <= INT64_MAX.

(* NOT implied by Inv as proved so far (the cached LockPoints are proved valid and satisfied, not equal to a fresh
   computation): stated as a premise, and evaluated on every implementation dump by `holds` *)
Definition fresh_bip68_ok (st : state) : Prop :=
  forall e, In e (p_entries (s_pool st)) -> fresh_bip68 (s_pool st) (s_chain st) (e_tx e) = true.

Theorem inv_dump_passes st : Inv U st -> totals_in_range (s_pool st) -> fresh_bip68_ok st -> check_dump (dump_of st) = None.
Proof.
  intros [Hj [Hf [Hm _]]] [Rs Rf] Hfresh. pose proof (j_pool _ _ _ _ Hj) as K. set (p := s_pool st) in *. set (c := s_chain st) in *.
  assert (forall e o, In e (p_entries p) -> In o (t_ins (e_tx e)) ->
          status_of p c o = In_mempool \/ exists h cb, status_of p c o = In_utxo h cb /\ utxo c o = Some (h, cb)) as Hstat.
  { intros e o He Ho. unfold status_of. destruct (find_entry p (fst o)) as [e1|] eqn:F.
    - left. pose proof (find_entry_Some _ _ _ F) as [He1 Ee1].
      destruct (j_avail _ _ _ _ Hj e o He Ho) as [A|[(x & Hx & Cx)|(t & [] & _)]].
      + exfalso. assert (in_pool p (fst o) = true) as I by (unfold in_pool; rewrite F; reflexivity).
        rewrite (pool_parent_not_utxo U c p [] o Hj I) in A. tauto.
      + assert (x = e1) as -> by (apply (same_id_same_entry p); auto; rewrite Ee1; symmetry; apply tx_creates_id; exact Cx).
        unfold tx_creates in Cx. rewrite !andb_true_iff in Cx. destruct Cx as [[_ C1] C2]. rewrite C1, C2. reflexivity.
    - right. destruct (j_avail _ _ _ _ Hj e o He Ho) as [A|[(x & Hx & Cx)|(t & [] & _)]].
      + destruct (utxo c o) as [[h cb]|]; [eauto|tauto].
      + exfalso. apply find_entry_None in F. apply F. rewrite (tx_creates_id _ _ Cx). apply (in_map e_id). exact Hx. }
  unfold check_dump.
  (* 1 *)
  assert (nodupb_z (map d_id (dm_entries (dump_of st))) = true) as E1.
  { unfold dump_of. simpl. rewrite d_ids_of. apply nodupb_z_NoDup. exact (ok_ids p K). }
  rewrite E1. cbn [negb orb andb].
  (* 2 *)
  assert (nodupb_o (map fst (all_spends (dump_of st))) = true) as E2.
  { apply nodupb_o_NoDup. rewrite all_spends_of. fold p.
    rewrite map_fst_spends.
    apply NoDup_flat_map.
    - apply (NoDup_map_inv' e_id). exact (ok_ids p K).
    - intros e He. apply (ok_ins p K e He).
    - intros e1 e2 o H1 H2 O1 O2. eapply no_double_spend; eassumption. }
  rewrite E2. cbn [negb orb andb].
  (* 3, 4 *)
  assert (forallb (fun x => pair_in x (dm_next (dump_of st))) (all_spends (dump_of st)) = true) as E3.
  { apply forallb_forall. intros [o id] H. apply pair_in_In. apply in_all_spends in H. apply (ok_next p K). exact H. }
  rewrite E3. cbn [negb orb andb].
  assert (forallb (fun x => pair_in x (all_spends (dump_of st))) (dm_next (dump_of st)) = true) as E4.
  { apply forallb_forall. intros [o id] H. apply pair_in_In. apply in_all_spends. apply (ok_next p K). exact H. }
  rewrite E4. cbn [negb orb andb].
  assert (nodupb_o (map fst (dm_next (dump_of st))) = true) as E5 by (apply nodupb_o_NoDup; exact (ok_keys p K)).
  rewrite E5. cbn [negb orb andb].
  (* 5 *)
  match goal with |- context [forallb ?f (dm_entries (dump_of st))] => assert (forallb f (dm_entries (dump_of st)) = true) as E6 end.
  { apply forallb_forall. intros de Hde. unfold dump_of in Hde. simpl in Hde. apply in_map_iff in Hde. destruct Hde as (e & <- & He).
    apply forallb_forall. intros x Hx. unfold dentry_of in Hx. simpl in Hx. apply in_map_iff in Hx. destruct Hx as ([o sq] & <- & Hx).
    simpl. assert (In o (t_ins (e_tx e))) as Ho by (unfold t_ins; apply in_map_iff; exists (o, sq); auto).
    fold p c. destruct (Hstat e o He Ho) as [->|(h & cb & -> & _)]; reflexivity. }
  rewrite E6. cbn [negb orb andb].
  (* 6 *)
  assert ((dm_total_size (dump_of st) =? zsum (map d_size (dm_entries (dump_of st)))) &&
          (dm_total_fee (dump_of st) =? zsum (map d_fee (dm_entries (dump_of st)))) = true) as E7.
  { unfold dump_of. simpl. rewrite !map_map. simpl. apply andb_true_iff. split; apply Z.eqb_eq.
    - fold p. rewrite (ok_size p K). apply wrapu64_id. exact Rs.
    - fold p. rewrite (ok_fee p K). apply wrap64_id. exact Rf. }
  rewrite E7. cbn [negb orb andb].
  (* 7 *)
  match goal with |- context [forallb ?f (dm_entries (dump_of st))] => assert (forallb f (dm_entries (dump_of st)) = true) as E8 end.
  { apply forallb_forall. intros de Hde. unfold dump_of in Hde. simpl in Hde. apply in_map_iff in Hde. destruct Hde as (e & <- & He).
    rewrite d_ltx_of. unfold dump_of. simpl. apply Hf. exact He. }
  rewrite E8. cbn [negb orb andb].
  (* 8 *)
  match goal with |- context [if negb (forallb ?f (dm_entries (dump_of st))) then Some V_immature else _] =>
    assert (forallb f (dm_entries (dump_of st)) = true) as E9 end.
  { apply forallb_forall. intros de Hde. unfold dump_of in Hde. simpl in Hde. apply in_map_iff in Hde. destruct Hde as (e & <- & He).
    apply forallb_forall. intros x Hx. unfold dentry_of in Hx. simpl in Hx. apply in_map_iff in Hx. destruct Hx as ([o sq] & <- & Hx).
    simpl. assert (In o (t_ins (e_tx e))) as Ho by (unfold t_ins; apply in_map_iff; exists (o, sq); auto).
    fold p c. destruct (Hstat e o He Ho) as [->|(h & cb & -> & Hu)]; [reflexivity|].
    destruct cb; [|reflexivity]. simpl. apply negb_true_iff, Z.ltb_ge. unfold dump_of. simpl. eapply Hm; eassumption. }
  rewrite E9. cbn [negb orb andb].
  (* 9 *)
  match goal with |- context [if negb (forallb ?f (dm_entries (dump_of st))) then Some V_links else _] =>
    assert (forallb f (dm_entries (dump_of st)) = true) as E10 end.
  { apply forallb_forall. intros de Hde. unfold dump_of in Hde. simpl in Hde. apply in_map_iff in Hde. destruct Hde as (e & <- & He).
    cbv beta. rewrite d_parents_of. rewrite (close_ext _ (d_parents_id (dump_of st)) (parents (s_pool st)) (d_parents_id_of st)).
    replace (length (dm_entries (dump_of st))) with (length (p_entries (s_pool st))) by (unfold dump_of; simpl; rewrite map_length; reflexivity).
    change (d_anc (dentry_of (s_pool st) (s_chain st) e)) with (ancestors_of_tx (s_pool st) (e_tx e)).
    unfold ancestors_of_tx, fuel_of. apply same_set_refl. }
  rewrite E10. cbn [negb orb andb].
  assert (forallb d_bip68 (dm_entries (dump_of st)) = true) as E11.
  { apply forallb_forall. intros de Hde. unfold dump_of in Hde. simpl in Hde. apply in_map_iff in Hde. destruct Hde as (e & <- & He).
    simpl. apply Hfresh. exact He. }
  rewrite E11. reflexivity.
Qed.

End WithU.
