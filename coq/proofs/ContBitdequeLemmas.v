(* bitdeque: the representation (all block bits + block count + front/back padding) refines std::deque<bool>.
   Proof device: `view s C` = the bits are  (pad_begin falses) ++ C ++ (pad_end falses); every internal operation
   is characterised on views, then the public operations, then all scripts by induction. *)
From Coq Require Import List Arith Bool Lia ZArith.
Unset Lia Cache.
From BV Require Import model.ContBuf proofs.ContBufLemmas model.ContBitdeque.
Import ListNotations.

Ltac Zify.zify_post_hook ::= Z.div_mod_to_equations.

Ltac bb2p :=
  repeat match goal with
  | H : (_ <=? _) = true |- _ => apply Nat.leb_le in H
  | H : (_ <=? _) = false |- _ => apply Nat.leb_gt in H
  | H : (_ <? _) = true |- _ => apply Nat.ltb_lt in H
  | H : (_ <? _) = false |- _ => apply Nat.ltb_ge in H
  | H : (_ =? _) = true |- _ => apply Nat.eqb_eq in H
  | H : (_ =? _) = false |- _ => apply Nat.eqb_neq in H
  | H : (_ && _) = true |- _ => apply andb_true_iff in H; destruct H
  | H : (_ || _) = false |- _ => apply orb_false_iff in H; destruct H
  end.
Ltac bset_true c := replace c with true by (symmetry; first [apply Nat.leb_le | apply Nat.ltb_lt | apply Nat.eqb_eq]; lia).
Ltac bset_false c := replace c with false by (symmetry; first [apply Nat.leb_gt | apply Nat.ltb_ge | apply Nat.eqb_neq]; lia).

Section ListFacts.
  Context {T : Type}.
  Lemma bw_mid (X Y d d' : list T) : length d = length d' -> bw (X ++ d ++ Y) (length X) d' = X ++ d' ++ Y.
  Proof.
    intros H. unfold bw. rewrite firstn_app_exact by reflexivity.
    replace (skipn (length X + length d') (X ++ d ++ Y)) with Y; [reflexivity|].
    replace (X ++ d ++ Y) with ((X ++ d) ++ Y) by (symmetry; apply app_assoc).
    rewrite skipn_app_exact; [reflexivity|]. rewrite app_length. lia.
  Qed.
  Lemma br_mid (X Y d : list T) : br (X ++ d ++ Y) (length X) (length d) = d.
  Proof. unfold br. rewrite skipn_app_exact by reflexivity. apply firstn_app_exact. reflexivity. Qed.
  Lemma repeat_snoc (x : T) n : repeat x n ++ [x] = repeat x (S n).
  Proof. induction n; simpl; [reflexivity|]. rewrite IHn. reflexivity. Qed.
  Lemma firstn_repeat (x : T) n k : firstn k (repeat x n) = repeat x (Nat.min k n).
  Proof. revert k. induction n; intros [|k]; simpl; auto. rewrite IHn. reflexivity. Qed.
  Lemma skipn_repeat (x : T) n k : skipn k (repeat x n) = repeat x (n - k).
  Proof. revert k. induction n; intros [|k]; simpl; auto. Qed.
  Lemma skipn_bw_ge (b : list T) pos data k : pos + length data <= length b -> pos + length data <= k ->
    skipn k (bw b pos data) = skipn k b.
  Proof.
    intros Hl Hk. unfold bw. rewrite skipn_app_ge by (rewrite firstn_length; lia).
    rewrite firstn_length, Nat.min_l by lia. rewrite skipn_app_ge by lia.
    rewrite skipn_skipn_plus. f_equal. lia.
  Qed.
  Lemma split3 (C : list T) a b : a <= b -> b <= length C ->
    C = firstn a C ++ firstn (b - a) (skipn a C) ++ skipn b C.
  Proof.
    intros Ha Hb. rewrite <- (firstn_skipn a C) at 1. f_equal.
    rewrite <- (firstn_skipn (b - a) (skipn a C)) at 1. f_equal.
    rewrite skipn_skipn_plus. f_equal. lia.
  Qed.
End ListFacts.

Section BD.
  Variable B : nat.
  Hypothesis HB : 0 < B.
  Notation bd := ContBitdeque.bd.
  Notation mkbd := ContBitdeque.mkbd.
  Notation size := (ContBitdeque.size B).
  Notation bd_inv := (ContBitdeque.bd_inv B).
  Notation bd_abs := (ContBitdeque.bd_abs B).
  Notation extend_back := (ContBitdeque.extend_back B).
  Notation extend_front := (ContBitdeque.extend_front B).
  Notation erase_back := (ContBitdeque.erase_back B).
  Notation erase_front := (ContBitdeque.erase_front B).
  Notation reset_back_loop := (ContBitdeque.reset_back_loop B).
  Notation reset_front_loop := (ContBitdeque.reset_front_loop B).
  Notation write_at := (ContBitdeque.write_at B).
  Notation read_at := (ContBitdeque.read_at B).

  Definition view (s : bd) (C : list bool) : Prop :=
    d_bits s = repeat false (d_pb s) ++ C ++ repeat false (d_pe s) /\
    length (d_bits s) = d_nb s * B /\ d_pb s < B /\ d_pe s < B.

  Lemma view_len s C : view s C -> d_pb s + length C + d_pe s = d_nb s * B.
  Proof. intros (E&L&_). rewrite E in L. rewrite !app_length, !repeat_length in L. lia. Qed.

  Lemma view_size s C : view s C -> size s = length C.
  Proof. intros V. pose proof (view_len s C V). unfold ContBitdeque.size. lia. Qed.

  Lemma view_abs s C : view s C -> bd_abs s = C.
  Proof.
    intros V. pose proof (view_size s C V) as Sz. destruct V as (E&L&_).
    unfold ContBitdeque.bd_abs. rewrite Sz, E.
    rewrite skipn_app_exact by (rewrite repeat_length; reflexivity).
    apply firstn_app_exact. reflexivity.
  Qed.

  Lemma view_inv s C : view s C -> bd_inv s.
  Proof.
    intros V. pose proof (view_len s C V) as Ln. destruct V as (E&L&P1&P2).
    unfold ContBitdeque.bd_inv. repeat split; try assumption; try lia.
    - rewrite E. apply firstn_app_exact. rewrite repeat_length. reflexivity.
    - rewrite E. rewrite app_assoc. apply skipn_app_exact. rewrite app_length, repeat_length. lia.
  Qed.

  Lemma inv_view s : bd_inv s -> view s (bd_abs s).
  Proof.
    intros (L&P1&P2&Sum&F&K). unfold view. repeat split; try assumption.
    unfold ContBitdeque.bd_abs, ContBitdeque.size.
    rewrite <- F, <- K.
    rewrite (split3 (d_bits s) (d_pb s) (d_nb s * B - d_pe s)) at 1 by lia.
    f_equal. f_equal. f_equal. lia.
  Qed.

  Lemma bd_empty_view : view ContBitdeque.bd_empty [].
  Proof. unfold view; simpl. repeat split; auto. Qed.

  (* ---- extend ---- *)
  Lemma extend_back_ok s C n : view s C ->
    exists s', extend_back s n = Some s' /\ view s' (C ++ repeat false n).
  Proof.
    intros V. pose proof (view_len s C V) as Ln. destruct V as (E&L&P1&P2).
    unfold ContBitdeque.extend_back.
    destruct (d_pe s <? n) eqn:E1; bb2p; cbn [d_bits d_nb d_pb d_pe].
    - set (n1 := n - (d_pe s + 1)).
      pose proof (Nat.div_mod n1 B ltac:(lia)) as DM. pose proof (Nat.mod_upper_bound n1 B ltac:(lia)) as MU.
      bset_true (n1 mod B <=? B - 1).
      eexists; split; [reflexivity|]. unfold view; cbn [d_bits d_nb d_pb d_pe].
      split; [|split; [|split; [assumption|lia]]].
      + rewrite E. rewrite <- !app_assoc. f_equal. f_equal.
        rewrite <- !repeat_app. f_equal. unfold n1 in *. nia.
      + rewrite app_length, repeat_length. nia.
    - bset_true (n <=? d_pe s). eexists; split; [reflexivity|]. unfold view; cbn [d_bits d_nb d_pb d_pe].
      split; [|split; [assumption|split; [assumption|lia]]].
      rewrite E. rewrite <- !app_assoc. f_equal. f_equal. rewrite <- repeat_app. f_equal. lia.
  Qed.

  Lemma extend_front_ok s C n : view s C ->
    exists s', extend_front s n = Some s' /\ view s' (repeat false n ++ C).
  Proof.
    intros V. pose proof (view_len s C V) as Ln. destruct V as (E&L&P1&P2).
    unfold ContBitdeque.extend_front.
    destruct (d_pb s <? n) eqn:E1; bb2p; cbn [d_bits d_nb d_pb d_pe].
    - set (n1 := n - (d_pb s + 1)).
      pose proof (Nat.div_mod n1 B ltac:(lia)) as DM. pose proof (Nat.mod_upper_bound n1 B ltac:(lia)) as MU.
      bset_true (n1 mod B <=? B - 1).
      eexists; split; [reflexivity|]. unfold view; cbn [d_bits d_nb d_pb d_pe].
      split; [|split; [|split; [lia|assumption]]].
      + rewrite E. rewrite !app_assoc. f_equal. f_equal.
        rewrite <- !repeat_app. f_equal. unfold n1 in *. nia.
      + rewrite app_length, repeat_length. nia.
    - bset_true (n <=? d_pb s). eexists; split; [reflexivity|]. unfold view; cbn [d_bits d_nb d_pb d_pe].
      split; [|split; [assumption|split; [lia|assumption]]].
      rewrite E. rewrite !app_assoc. f_equal. f_equal. rewrite <- repeat_app. f_equal. lia.
  Qed.

  (* ---- the reset loops ---- *)
  Lemma reset_back_view C2 : forall bits nb pb pe C1,
    bits = repeat false pb ++ (C1 ++ C2) ++ repeat false pe -> length bits = nb * B -> pe + length C2 <= B ->
    reset_back_loop bits nb pe (length C2) =
      Some (repeat false pb ++ C1 ++ repeat false (length C2 + pe), pe + length C2).
  Proof.
    induction C2 as [|x C2 IH] using rev_ind; intros bits nb pb pe C1 E L Hp.
    - simpl. rewrite app_nil_r in E. rewrite Nat.add_0_r. rewrite E. reflexivity.
    - rewrite app_length in *. simpl length in *. rewrite Nat.add_1_r.
      cbn [ContBitdeque.reset_back_loop].
      assert (Ln : pb + length C1 + length C2 + 1 + pe = nb * B).
      { rewrite E in L. rewrite !app_length, !repeat_length in L. simpl in L. lia. }
      assert (Hnb : 1 <= nb) by nia.
      bset_true (1 <=? nb). bset_true (pe <? B). cbn [andb].
      set (X := repeat false pb ++ C1 ++ C2).
      assert (EX : bits = X ++ [x] ++ repeat false pe).
      { rewrite E. unfold X. rewrite <- !app_assoc. reflexivity. }
      assert (LX : length X = (nb - 1) * B + (B - 1 - pe)).
      { unfold X. rewrite !app_length, repeat_length. nia. }
      rewrite <- LX. rewrite buf_set_some by (rewrite EX, !app_length; simpl; lia).
      rewrite EX. rewrite bw_mid by reflexivity.
      rewrite (IH (X ++ [false] ++ repeat false pe) nb pb (pe + 1) C1).
      + f_equal. f_equal; [|lia]. f_equal. f_equal. f_equal. lia.
      + unfold X. rewrite <- !app_assoc. f_equal. f_equal. f_equal.
        replace (pe + 1) with (S pe) by lia. reflexivity.
      + rewrite <- L, EX. rewrite !app_length. reflexivity.
      + lia.
  Qed.

  Lemma reset_front_view C1 : forall bits nb pb pe C2,
    bits = repeat false pb ++ (C1 ++ C2) ++ repeat false pe -> length bits = nb * B -> pb + length C1 <= B ->
    reset_front_loop bits nb pb (length C1) =
      Some (repeat false (pb + length C1) ++ C2 ++ repeat false pe, pb + length C1).
  Proof.
    induction C1 as [|x C1 IH]; intros bits nb pb pe C2 E L Hp.
    - simpl. rewrite Nat.add_0_r. rewrite E. reflexivity.
    - simpl length in *. cbn [ContBitdeque.reset_front_loop].
      assert (Ln : pb + S (length C1) + length C2 + pe = nb * B).
      { rewrite E in L. rewrite !app_length, !repeat_length in L. simpl in L. lia. }
      assert (Hnb : 1 <= nb) by nia.
      bset_true (1 <=? nb). bset_true (pb <? B). cbn [andb].
      set (Y := C1 ++ C2 ++ repeat false pe).
      assert (EX : bits = repeat false pb ++ [x] ++ Y).
      { rewrite E. unfold Y. simpl. rewrite <- !app_assoc. reflexivity. }
      rewrite buf_set_some by (rewrite EX, !app_length, repeat_length; simpl; lia).
      rewrite EX. rewrite <- (repeat_length false pb) at 2. rewrite bw_mid by reflexivity.
      rewrite (IH (repeat false pb ++ [false] ++ Y) nb (pb + 1) pe C2).
      + f_equal. f_equal; [|lia]. f_equal. f_equal. lia.
      + unfold Y. rewrite app_assoc. rewrite repeat_snoc. rewrite <- !app_assoc.
        replace (pb + 1) with (S pb) by lia. reflexivity.
      + rewrite <- L, EX. rewrite !app_length. reflexivity.
      + lia.
  Qed.

  (* ---- erase ---- *)
  Lemma erase_back_ok s C n : view s C -> n <= length C ->
    exists s', erase_back s n = Some s' /\ view s' (firstn (length C - n) C).
  Proof.
    intros V Hn. pose proof (view_len s C V) as Ln. destruct V as (E&L&P1&P2).
    unfold ContBitdeque.erase_back.
    destruct (B - d_pe s <=? n) eqn:E1; bb2p.
    - (* whole blocks go first *)
      set (n1 := n - (B - d_pe s)).
      pose proof (Nat.div_mod n1 B ltac:(lia)) as DM. pose proof (Nat.mod_upper_bound n1 B ltac:(lia)) as MU.
      set (k := 1 + n1 / B) in *.
      assert (Hk : k * B + n1 mod B = n + d_pe s) by (unfold k, n1 in *; nia).
      assert (Hknb : k <= d_nb s) by nia.
      bset_true (k <=? d_nb s).
      (* the bits that remain after dropping k blocks *)
      set (m := length C - (k * B - d_pe s)).
      assert (Hm : (d_nb s - k) * B = d_pb s + m) by (unfold m; nia).
      assert (E2 : firstn ((d_nb s - k) * B) (d_bits s) = repeat false (d_pb s) ++ firstn m C ++ repeat false 0).
      { rewrite E, Hm. rewrite firstn_app_ge by (rewrite repeat_length; lia). rewrite repeat_length.
        replace (d_pb s + m - d_pb s) with m by lia. f_equal.
        rewrite firstn_app_le by (unfold m; lia). simpl. rewrite app_nil_r. reflexivity. }
      destruct (n1 mod B =? 0) eqn:E3; bb2p; cbn [d_bits d_nb d_pb d_pe].
      + eexists; split; [reflexivity|]. unfold view; cbn [d_bits d_nb d_pb d_pe].
        split; [|split; [|split; [assumption|lia]]].
        * rewrite E2. replace (length C - n) with m by (unfold m; lia). reflexivity.
        * rewrite E2, !app_length, repeat_length, firstn_length. simpl. unfold m in *. lia.
      + (* and n1 mod B more bits are reset in the new last block *)
        assert (Hsplit : firstn m C = firstn (length C - n) C ++ firstn (n1 mod B) (skipn (length C - n) C)).
        { rewrite <- (firstn_skipn (length C - n) (firstn m C)). rewrite firstn_firstn.
          replace (Nat.min (length C - n) m) with (length C - n) by (unfold m; lia). f_equal.
          rewrite skipn_firstn_comm. f_equal. unfold m. lia. }
        set (C2 := firstn (n1 mod B) (skipn (length C - n) C)) in *.
        assert (LC2 : length C2 = n1 mod B).
        { unfold C2. rewrite firstn_length, skipn_length. unfold m in *. lia. }
        rewrite <- LC2.
        rewrite (reset_back_view C2 _ (d_nb s - k) (d_pb s) 0 (firstn (length C - n) C)).
        * eexists; split; [reflexivity|]. unfold view; cbn [d_bits d_nb d_pb d_pe fst snd].
          split; [|split; [|split; [assumption|lia]]].
          -- rewrite Nat.add_0_r. reflexivity.
          -- rewrite !app_length, !repeat_length, firstn_length. unfold m in *. lia.
        * rewrite E2, Hsplit. reflexivity.
        * rewrite E2, !app_length, repeat_length, firstn_length. simpl. unfold m in *. lia.
        * lia.
    - (* only bits of the last block *)
      destruct (n =? 0) eqn:E3; bb2p.
      + subst n. eexists; split; [reflexivity|]. rewrite Nat.sub_0_r, firstn_all. unfold view. auto.
      + set (C2 := skipn (length C - n) C).
        assert (LC2 : length C2 = n) by (unfold C2; rewrite skipn_length; lia).
        pose proof (reset_back_view C2 (d_bits s) (d_nb s) (d_pb s) (d_pe s) (firstn (length C - n) C)) as R.
        rewrite LC2 in R. rewrite R.
        * eexists; split; [reflexivity|]. unfold view; cbn [d_bits d_nb d_pb d_pe fst snd].
          split; [|split; [|split; [assumption|lia]]].
          -- f_equal. f_equal. f_equal. lia.
          -- rewrite !app_length, !repeat_length, firstn_length. lia.
        * rewrite E. unfold C2. rewrite firstn_skipn. reflexivity.
        * exact L.
        * lia.
  Qed.

  Lemma erase_front_ok s C n : view s C -> n <= length C ->
    exists s', erase_front s n = Some s' /\ view s' (skipn n C).
  Proof.
    intros V Hn. pose proof (view_len s C V) as Ln. destruct V as (E&L&P1&P2).
    unfold ContBitdeque.erase_front.
    destruct (B - d_pb s <=? n) eqn:E1; bb2p.
    - set (n1 := n - (B - d_pb s)).
      pose proof (Nat.div_mod n1 B ltac:(lia)) as DM. pose proof (Nat.mod_upper_bound n1 B ltac:(lia)) as MU.
      set (k := 1 + n1 / B) in *.
      assert (Hk : k * B + n1 mod B = n + d_pb s) by (unfold k, n1 in *; nia).
      assert (Hknb : k <= d_nb s) by nia.
      bset_true (k <=? d_nb s).
      set (j := k * B - d_pb s).
      assert (Hj : j + n1 mod B = n) by (unfold j; nia).
      assert (E2 : skipn (k * B) (d_bits s) = repeat false 0 ++ skipn j C ++ repeat false (d_pe s)).
      { rewrite E. rewrite skipn_app_ge by (rewrite repeat_length; nia). rewrite repeat_length. fold j.
        rewrite skipn_app. replace (j - length C) with 0 by lia. reflexivity. }
      assert (L2 : length (skipn (k * B) (d_bits s)) = (d_nb s - k) * B) by (rewrite skipn_length; nia).
      destruct (n1 mod B =? 0) eqn:E3; bb2p; cbn [d_bits d_nb d_pb d_pe].
      + eexists; split; [reflexivity|]. unfold view; cbn [d_bits d_nb d_pb d_pe].
        split; [|split; [exact L2|split; [lia|assumption]]].
        rewrite E2. replace j with n by lia. reflexivity.
      + set (C1 := firstn (n1 mod B) (skipn j C)).
        assert (LC1 : length C1 = n1 mod B) by (unfold C1; rewrite firstn_length, skipn_length; lia).
        pose proof (reset_front_view C1 (skipn (k * B) (d_bits s)) (d_nb s - k) 0 (d_pe s) (skipn n C)) as R.
        rewrite LC1 in R. rewrite R.
        * eexists; split; [reflexivity|]. unfold view; cbn [d_bits d_nb d_pb d_pe fst snd].
          split; [reflexivity|]. split; [|split; [lia|assumption]].
          rewrite !app_length, !repeat_length, skipn_length. nia.
        * rewrite E2. f_equal. f_equal. unfold C1.
          rewrite <- (firstn_skipn (n1 mod B) (skipn j C)) at 1. f_equal.
          rewrite skipn_skipn_plus. f_equal. lia.
        * exact L2.
        * lia.
    - destruct (n =? 0) eqn:E3; bb2p.
      + subst n. eexists; split; [reflexivity|]. simpl. unfold view. auto.
      + set (C1 := firstn n C).
        assert (LC1 : length C1 = n) by (unfold C1; rewrite firstn_length; lia).
        pose proof (reset_front_view C1 (d_bits s) (d_nb s) (d_pb s) (d_pe s) (skipn n C)) as R.
        rewrite LC1 in R. rewrite R.
        * eexists; split; [reflexivity|]. unfold view; cbn [d_bits d_nb d_pb d_pe fst snd].
          split; [reflexivity|]. split; [|split; [lia|assumption]].
          rewrite !app_length, !repeat_length, skipn_length. lia.
        * rewrite E. unfold C1. rewrite firstn_skipn. reflexivity.
        * exact L.
        * lia.
  Qed.

  (* ---- element access on views ---- *)
  Lemma write_at_ok s C i data : view s C -> i + length data <= length C ->
    exists s', write_at s i data = Some s' /\ view s' (bw C i data).
  Proof.
    intros V Hi. pose proof (view_len s C V) as Ln. pose proof (view_size s C V) as Sz. destruct V as (E&L&P1&P2).
    unfold ContBitdeque.write_at. rewrite Sz. bset_true (i + length data <=? length C).
    rewrite buf_write_some by lia. eexists; split; [reflexivity|]. unfold view; cbn [d_bits d_nb d_pb d_pe].
    split; [|split; [rewrite length_bw by lia; exact L|auto]].
    rewrite E. rewrite <- (repeat_length false (d_pb s)) at 2. rewrite bw_app_r.
    rewrite bw_app_l by lia. reflexivity.
  Qed.

  Lemma read_at_ok s C i n : view s C -> i + n <= length C -> read_at s i n = Some (br C i n).
  Proof.
    intros V Hi. pose proof (view_len s C V) as Ln. pose proof (view_size s C V) as Sz. destruct V as (E&L&P1&P2).
    unfold ContBitdeque.read_at. rewrite Sz. bset_true (i + n <=? length C).
    rewrite buf_read_some by lia. f_equal. rewrite E. unfold br.
    rewrite skipn_app_ge by (rewrite repeat_length; lia). rewrite repeat_length.
    replace (d_pb s + i - d_pb s) with i by lia.
    rewrite skipn_app. rewrite firstn_app_le by (rewrite skipn_length; lia). reflexivity.
  Qed.

  Lemma get_ok s C i : view s C -> i < length C -> ContBitdeque.get B s i = nth_error C i.
  Proof.
    intros V Hi. pose proof (view_size s C V) as Sz. destruct V as (E&L&P1&P2).
    unfold ContBitdeque.get, buf_get. rewrite Sz. bset_true (i <? length C). rewrite E.
    rewrite nth_error_app2 by (rewrite repeat_length; lia). rewrite repeat_length.
    replace (d_pb s + i - d_pb s) with i by lia. apply nth_error_app1. exact Hi.
  Qed.

  Notation std_move := (ContBitdeque.std_move B).
  Notation std_move_backward := (ContBitdeque.std_move_backward B).
  Notation insert_zeroes := (ContBitdeque.insert_zeroes B).

  Lemma std_move_ok s C f l d : view s C -> f <= l -> l <= length C -> (d <= f \/ l <= d) ->
    d + (l - f) <= length C ->
    exists s', std_move s f l d = Some s' /\ view s' (bw C d (br C f (l - f))).
  Proof.
    intros V Hf Hl Hd Hfit. unfold ContBitdeque.std_move. bset_true (f <=? l).
    destruct (f =? l) eqn:E1; bb2p.
    - subst l. exists s. split; [reflexivity|]. rewrite Nat.sub_diag. unfold br. simpl.
      rewrite bw_nil by lia. exact V.
    - replace ((d <=? f) || (l <=? d)) with true
        by (symmetry; apply orb_true_iff; destruct Hd; [left; apply Nat.leb_le|right; apply Nat.leb_le]; lia).
      rewrite (read_at_ok s C f (l - f) V) by lia.
      apply write_at_ok; [exact V|]. rewrite length_br by lia. lia.
  Qed.

  Lemma std_move_backward_ok s C f l dl : view s C -> f <= l -> l <= length C -> (dl <= f \/ l <= dl) ->
    l - f <= dl -> dl <= length C ->
    exists s', std_move_backward s f l dl = Some s' /\ view s' (bw C (dl - (l - f)) (br C f (l - f))).
  Proof.
    intros V Hf Hl Hd Hge Hfit. unfold ContBitdeque.std_move_backward. bset_true (f <=? l).
    destruct (f =? l) eqn:E1; bb2p.
    - subst l. exists s. split; [reflexivity|]. rewrite Nat.sub_diag. unfold br. simpl.
      rewrite bw_nil by lia. exact V.
    - replace ((dl <=? f) || (l <=? dl)) with true
        by (symmetry; apply orb_true_iff; destruct Hd; [left; apply Nat.leb_le|right; apply Nat.leb_le]; lia).
      bset_true (l - f <=? dl). cbn [andb].
      rewrite (read_at_ok s C f (l - f) V) by lia.
      apply write_at_ok; [exact V|]. rewrite length_br by lia. lia.
  Qed.

  Lemma insert_zeroes_ok s C before count : view s C -> before <= length C ->
    exists s' X, insert_zeroes s before count = Some s' /\ view s' X /\ length X = length C + count /\
      firstn before X = firstn before C /\ skipn (before + count) X = skipn before C.
  Proof.
    intros V Hb. pose proof (view_size s C V) as Sz.
    unfold ContBitdeque.insert_zeroes. rewrite Sz. bset_true (before <=? length C).
    destruct (before <? length C - before) eqn:E1; bb2p.
    - destruct (extend_front_ok s C count V) as (s1&E&V1). rewrite E.
      set (C1 := repeat false count ++ C) in *.
      assert (L1 : length C1 = count + length C) by (unfold C1; rewrite app_length, repeat_length; lia).
      destruct (std_move_ok s1 C1 count (count + before) 0 V1) as (s'&E'&V'); try lia.
      rewrite E'. eexists; eexists; split; [reflexivity|]. split; [exact V'|].
      replace (count + before - count) with before in * by lia.
      assert (D : br C1 count before = firstn before C).
      { unfold br, C1. rewrite skipn_app_exact by (rewrite repeat_length; reflexivity). reflexivity. }
      rewrite D. assert (LD : length (firstn before C) = before) by (rewrite firstn_length; lia).
      split; [rewrite length_bw by lia; lia|]. split.
      + rewrite <- LD at 1. change (length (firstn before C)) with (0 + length (firstn before C)).
        rewrite firstn_bw_exact by lia. reflexivity.
      + rewrite skipn_bw_ge by lia. unfold C1. rewrite skipn_app_ge by (rewrite repeat_length; lia).
        rewrite repeat_length. f_equal. lia.
    - destruct (extend_back_ok s C count V) as (s1&E&V1). rewrite E.
      set (C1 := C ++ repeat false count) in *.
      assert (L1 : length C1 = length C + count) by (unfold C1; rewrite app_length, repeat_length; lia).
      rewrite (view_size s1 C1 V1).
      destruct (std_move_backward_ok s1 C1 before (before + (length C - before)) (length C1) V1) as (s'&E'&V'); try lia.
      rewrite E'. eexists; eexists; split; [reflexivity|]. split; [exact V'|].
      replace (before + (length C - before) - before) with (length C - before) in * by lia.
      assert (D : br C1 before (length C - before) = skipn before C).
      { unfold br, C1. rewrite skipn_app. rewrite firstn_app_exact by (rewrite skipn_length; reflexivity). reflexivity. }
      rewrite D. assert (LD : length (skipn before C) = length C - before) by (rewrite skipn_length; lia).
      replace (length C1 - (length C - before)) with (before + count) by lia.
      split; [rewrite length_bw by lia; lia|]. split.
      + rewrite firstn_bw_le by lia. unfold C1. rewrite firstn_app_le by lia. reflexivity.
      + rewrite skipn_bw by lia.
        replace (skipn (before + count + length (skipn before C)) C1) with (@nil bool) by (symmetry; apply skipn_all2; lia).
        apply app_nil_r.
  Qed.

  Lemma insert_range_ok s C p data : view s C -> p <= length C ->
    exists s', ContBitdeque.insert_range B s p data = Some s' /\ view s' (firstn p C ++ data ++ skipn p C).
  Proof.
    intros V Hp. unfold ContBitdeque.insert_range.
    destruct (insert_zeroes_ok s C p (length data) V Hp) as (s1&X&E&V1&LX&F&K). rewrite E.
    destruct (write_at_ok s1 X p data V1) as (s'&E'&V'); [lia|]. rewrite E'.
    exists s'. split; [reflexivity|]. unfold bw in V'. rewrite F, K in V'. exact V'.
  Qed.

  Lemma erase_ok s C a b : view s C -> a <= b -> b <= length C ->
    exists s', ContBitdeque.erase B s a b = Some s' /\ view s' (firstn a C ++ skipn b C).
  Proof.
    intros V Ha Hb. pose proof (view_size s C V) as Sz.
    unfold ContBitdeque.erase. rewrite Sz.
    replace ((a <=? b) && (b <=? length C)) with true
      by (symmetry; apply andb_true_iff; split; apply Nat.leb_le; lia).
    replace (length C - (length C - b)) with b by lia.
    destruct (a <? length C - b) eqn:E1; bb2p.
    - destruct (std_move_backward_ok s C 0 a b V) as (s1&E&V1); try lia. rewrite E.
      replace (a - 0) with a in V1 by lia.
      assert (D : br C 0 a = firstn a C) by reflexivity. rewrite D in V1.
      assert (LD : length (firstn a C) = a) by (rewrite firstn_length; lia).
      destruct (erase_front_ok s1 _ (b - a) V1) as (s'&E'&V'); [rewrite length_bw by lia; lia|].
      rewrite E'. exists s'. split; [reflexivity|].
      rewrite skipn_bw in V' by lia. rewrite LD in V'. replace (b - a + a) with b in V' by lia. exact V'.
    - destruct (std_move_ok s C b (length C) a V) as (s1&E&V1); try lia. rewrite E.
      assert (D : br C b (length C - b) = skipn b C).
      { unfold br. apply firstn_all2. rewrite skipn_length. lia. }
      rewrite D in V1.
      assert (LD : length (skipn b C) = length C - b) by (rewrite skipn_length; lia).
      destruct (erase_back_ok s1 _ (b - a) V1) as (s'&E'&V'); [rewrite length_bw by lia; lia|].
      rewrite E'. exists s'. split; [reflexivity|].
      rewrite length_bw in V' by lia.
      replace (length C - (b - a)) with (a + length (skipn b C)) in V' by lia.
      rewrite firstn_bw_exact in V' by lia. exact V'.
  Qed.

  Lemma ceil_div count : let nb := (count + (B - 1)) / B in
    (count mod B = 0 -> nb * B = count) /\ (count mod B <> 0 -> nb * B = count + (B - count mod B)).
  Proof.
    intros nb. pose proof (Nat.div_mod count B ltac:(lia)) as D1. pose proof (Nat.mod_upper_bound count B ltac:(lia)) as M1.
    pose proof (Nat.div_mod (count + (B - 1)) B ltac:(lia)) as D2.
    pose proof (Nat.mod_upper_bound (count + (B - 1)) B ltac:(lia)) as M2. fold nb in D2.
    set (q := count / B) in *. set (r := count mod B) in *. set (r2 := (count + (B - 1)) mod B) in *.
    split; intros Hr.
    - assert (nb = q) by nia. nia.
    - assert (nb = q + 1) by nia. nia.
  Qed.

  Lemma assign_ok s count val :
    exists s', ContBitdeque.assign B s count val = Some s' /\ view s' (repeat val count).
  Proof.
    unfold ContBitdeque.assign. destruct (ceil_div count) as [Hz Hnz]. cbv zeta in Hz, Hnz.
    set (nb := (count + (B - 1)) / B) in *.
    assert (V1 : view (mkbd (repeat val (nb * B)) nb 0 0) (repeat val (nb * B))).
    { unfold view; cbn [d_bits d_nb d_pb d_pe]. simpl. rewrite app_nil_r, repeat_length. repeat split; auto. }
    destruct (count mod B =? 0) eqn:E1; bb2p; cbn [negb].
    - eexists; split; [reflexivity|]. rewrite Hz in V1 at 2 by assumption. exact V1.
    - pose proof (Nat.mod_upper_bound count B ltac:(lia)) as M1.
      destruct (erase_back_ok _ _ (B - count mod B) V1) as (s'&E'&V'); [rewrite repeat_length; rewrite Hnz by assumption; lia|].
      rewrite E'. exists s'. split; [reflexivity|].
      rewrite repeat_length, firstn_repeat in V'. rewrite Hnz in V' by assumption.
      replace (Nat.min _ _) with count in V' by lia. exact V'.
  Qed.

  Lemma assign_range_ok s data :
    exists s', ContBitdeque.assign_range B s data = Some s' /\ view s' data.
  Proof.
    unfold ContBitdeque.assign_range. destruct (assign_ok s (length data) false) as (s1&E&V1). rewrite E.
    destruct (write_at_ok s1 _ 0 data V1) as (s'&E'&V'); [rewrite repeat_length; lia|]. rewrite E'.
    exists s'. split; [reflexivity|]. unfold bw in V'. simpl in V'.
    rewrite skipn_all2 in V' by (rewrite repeat_length; lia). rewrite app_nil_r in V'. exact V'.
  Qed.

  Lemma set_ok s C i v : view s C -> i < length C ->
    exists s', ContBitdeque.set B s i v = Some s' /\ view s' (firstn i C ++ v :: skipn (S i) C).
  Proof.
    intros V Hi. unfold ContBitdeque.set.
    destruct (write_at_ok s C i [v] V) as (s'&E'&V'); [simpl; lia|]. rewrite E'.
    exists s'. split; [reflexivity|]. unfold bw in V'. simpl in V'. replace (i + 1) with (S i) in V' by lia. exact V'.
  Qed.

  Lemma push_back_ok s C v : view s C ->
    exists s', ContBitdeque.push_back B s v = Some s' /\ view s' (C ++ [v]).
  Proof.
    intros V. unfold ContBitdeque.push_back.
    destruct (extend_back_ok s C 1 V) as (s1&E&V1). rewrite E. simpl in V1.
    rewrite (view_size s1 _ V1). rewrite app_length. change (length [false]) with 1. bset_true (1 <=? length C + 1).
    destruct (set_ok s1 _ (length C + 1 - 1) v V1) as (s'&E'&V'); [rewrite app_length; simpl; lia|]. rewrite E'.
    exists s'. split; [reflexivity|].
    replace (length C + 1 - 1) with (length C) in V' by lia.
    rewrite firstn_app_exact in V' by reflexivity.
    rewrite skipn_all2 in V' by (rewrite app_length; simpl; lia). exact V'.
  Qed.

  Lemma push_front_ok s C v : view s C ->
    exists s', ContBitdeque.push_front B s v = Some s' /\ view s' (v :: C).
  Proof.
    intros V. unfold ContBitdeque.push_front.
    destruct (extend_front_ok s C 1 V) as (s1&E&V1). rewrite E. simpl in V1.
    destruct (set_ok s1 _ 0 v V1) as (s'&E'&V'); [simpl; lia|]. rewrite E'.
    exists s'. split; [reflexivity|]. exact V'.
  Qed.

  Lemma pop_back_ok s C : view s C -> 1 <= length C ->
    exists s', ContBitdeque.pop_back B s = Some s' /\ view s' (removelast C).
  Proof.
    intros V H1. unfold ContBitdeque.pop_back. rewrite (view_size s C V). bset_true (1 <=? length C).
    destruct (erase_back_ok s C 1 V H1) as (s'&E'&V'). rewrite E'. exists s'. split; [reflexivity|].
    rewrite removelast_firstn_len. replace (Nat.pred (length C)) with (length C - 1) by lia. exact V'.
  Qed.

  Lemma pop_front_ok s C : view s C -> 1 <= length C ->
    exists s', ContBitdeque.pop_front B s = Some s' /\ view s' (tl C).
  Proof.
    intros V H1. unfold ContBitdeque.pop_front. rewrite (view_size s C V). bset_true (1 <=? length C).
    destruct (erase_front_ok s C 1 V H1) as (s'&E'&V'). rewrite E'. exists s'. split; [reflexivity|].
    destruct C; exact V'.
  Qed.

  Lemma resize_ok s C n : view s C ->
    exists s', ContBitdeque.resize B s n = Some s' /\ view s' (firstn n C ++ repeat false (n - length C)).
  Proof.
    intros V. unfold ContBitdeque.resize. rewrite (view_size s C V).
    destruct (n <? length C) eqn:E1; bb2p.
    - destruct (erase_back_ok s C (length C - n) V) as (s'&E'&V'); [lia|]. rewrite E'. exists s'. split; [reflexivity|].
      replace (length C - (length C - n)) with n in V' by lia.
      replace (n - length C) with 0 by lia. simpl. rewrite app_nil_r. exact V'.
    - destruct (extend_back_ok s C (n - length C) V) as (s'&E'&V'). rewrite E'. exists s'. split; [reflexivity|].
      rewrite firstn_all2 by lia. exact V'.
  Qed.

  (* ---- scripts ---- *)
  Notation bd_step := (ContBitdeque.bd_step B).
  Notation bd_run := (ContBitdeque.bd_run B).
  Notation bdq_step := ContBitdeque.bdq_step.
  Notation bdq_run := ContBitdeque.bdq_run.

  Definition pair_inv (st : bd * bd) : Prop := bd_inv (fst st) /\ bd_inv (snd st).
  Definition pair_abs (st : bd * bd) : list bool * list bool := (bd_abs (fst st), bd_abs (snd st)).
  Definition pair_view (st : bd * bd) (l : list bool * list bool) : Prop := view (fst st) (fst l) /\ view (snd st) (snd l).

  Lemma pair_view_of_inv st : pair_inv st -> pair_view st (pair_abs st).
  Proof. intros [A Bv]. split; apply inv_view; assumption. Qed.
  Lemma pair_inv_of_view st l : pair_view st l -> pair_inv st /\ pair_abs st = l.
  Proof.
    intros [A Bv]. split; [split; eapply view_inv; eassumption|].
    unfold pair_abs. rewrite (view_abs _ _ A), (view_abs _ _ Bv). destruct l; reflexivity.
  Qed.

  Ltac step_with L :=
    let s' := fresh "s'" in let E := fresh "E" in let V := fresh "V" in
    destruct L as (s'&E&V); unfold ContBitdeque.on_a; cbn [fst snd]; rewrite E;
    eexists; split; [reflexivity|]; split; cbn [fst snd]; [exact V|assumption].

  Lemma bd_step_view st o l l' : pair_view st l -> bdq_step l o = Some l' ->
    exists st', bd_step st o = Some st' /\ pair_view st' l'.
  Proof.
    destruct st as [a b]. destruct l as [la lb]. intros [Va Vb] H. cbn [fst snd] in Va, Vb.
    pose proof (view_size a la Va) as Sa.
    destruct o; unfold ContBitdeque.bdq_step in H; unfold ContBitdeque.bd_step; cbn [fst snd].
    - injection H as <-. step_with (push_back_ok a la v Va).
    - injection H as <-. step_with (push_front_ok a la v Va).
    - destruct (1 <=? _) eqn:E1; [|discriminate]. bb2p. injection H as <-. step_with (pop_back_ok a la Va ltac:(lia)).
    - destruct (1 <=? _) eqn:E1; [|discriminate]. bb2p. injection H as <-. step_with (pop_front_ok a la Va ltac:(lia)).
    - injection H as <-. step_with (resize_ok a la n Va).
    - injection H as <-. eexists; split; [reflexivity|]. split; cbn [fst snd]; [apply bd_empty_view|assumption].
    - injection H as <-. step_with (assign_ok a n v).
    - injection H as <-. step_with (assign_range_ok a l).
    - destruct (p <=? _) eqn:E1; [|discriminate]. bb2p. injection H as <-.
      unfold ContBitdeque.insert. step_with (insert_range_ok a la p [v] Va ltac:(lia)).
    - destruct (p <=? _) eqn:E1; [|discriminate]. bb2p. injection H as <-.
      unfold ContBitdeque.insert_n. step_with (insert_range_ok a la p (repeat v n) Va ltac:(lia)).
    - destruct (p <=? _) eqn:E1; [|discriminate]. bb2p. injection H as <-.
      step_with (insert_range_ok a la p l Va ltac:(lia)).
    - destruct (p <? _) eqn:E1; [|discriminate]. bb2p. injection H as <-.
      unfold ContBitdeque.on_a; cbn [fst snd]. rewrite Sa. bset_true (p <? length la). step_with (erase_ok a la p (p + 1) Va ltac:(lia) ltac:(lia)).
    - destruct ((a0 <=? b0) && (b0 <=? _)) eqn:E1; [|discriminate]. bb2p. injection H as <-.
      step_with (erase_ok a la a0 b0 Va ltac:(lia) ltac:(lia)).
    - destruct (i <? _) eqn:E1; [|discriminate]. bb2p. injection H as <-. step_with (set_ok a la i v Va ltac:(lia)).
    - injection H as <-. eexists; split; [reflexivity|]. split; assumption.
    - injection H as <-. eexists; split; [reflexivity|]. split; assumption.
  Qed.

  Lemma bd_step_refines st o lst' : pair_inv st -> bdq_step (pair_abs st) o = Some lst' ->
    exists st', bd_step st o = Some st' /\ pair_inv st' /\ pair_abs st' = lst'.
  Proof.
    intros I H. destruct (bd_step_view st o _ _ (pair_view_of_inv st I) H) as (st'&E&V).
    exists st'. split; [exact E|]. apply pair_inv_of_view. exact V.
  Qed.

  Theorem bd_refines_deque ops : forall st lst', pair_inv st -> bdq_run (pair_abs st) ops = Some lst' ->
    exists st', bd_run st ops = Some st' /\ pair_inv st' /\ pair_abs st' = lst'.
  Proof.
    induction ops as [|o ops IH]; intros st lst' I H;
      cbn [ContBitdeque.bdq_run ContBitdeque.bd_run] in *.
    - injection H as <-. exists st. auto.
    - destruct (bdq_step (pair_abs st) o) as [l1|] eqn:E1; [|discriminate].
      destruct (bd_step_refines st o l1 I E1) as (st1&E&I1&A1). rewrite E. subst l1.
      apply IH; assumption.
  Qed.

  Theorem bd_trace_refines ops : forall st lst', pair_inv st -> bdq_run (pair_abs st) ops = Some lst' ->
    map (option_map pair_abs) (ContBitdeque.bd_trace B st ops) = ContBitdeque.bdq_trace (pair_abs st) ops /\
    Forall (fun o => exists st', o = Some st' /\ pair_inv st') (ContBitdeque.bd_trace B st ops).
  Proof.
    induction ops as [|o ops IH]; intros st lst' I H;
      cbn [ContBitdeque.bdq_run ContBitdeque.bd_trace ContBitdeque.bdq_trace] in *.
    - split; [reflexivity|constructor].
    - destruct (bdq_step (pair_abs st) o) as [l1|] eqn:E1; [|discriminate].
      destruct (bd_step_refines st o l1 I E1) as (st1&E&I1&A1). rewrite E. subst l1.
      destruct (IH st1 lst' I1 H) as [IH1 IH2]. split.
      + cbn [map option_map]. rewrite IH1. reflexivity.
      + constructor; [exists st1; auto|exact IH2].
  Qed.

  Lemma bd_empty_inv : bd_inv ContBitdeque.bd_empty.
  Proof. eapply view_inv. apply bd_empty_view. Qed.
  Lemma bd_empty_abs : bd_abs ContBitdeque.bd_empty = [].
  Proof. apply view_abs. apply bd_empty_view. Qed.

  (* what the invariant means *)
  Lemma bd_inv_meaning s : bd_inv s ->
    d_pb s < B /\ d_pe s < B /\ length (d_bits s) = d_nb s * B /\
    d_pb s + length (bd_abs s) + d_pe s = d_nb s * B /\ size s = length (bd_abs s) /\
    d_bits s = repeat false (d_pb s) ++ bd_abs s ++ repeat false (d_pe s).
  Proof.
    intros I. pose proof (inv_view s I) as V. pose proof (view_len _ _ V). pose proof (view_size _ _ V).
    destruct V as (E&L&P1&P2). auto 10.
  Qed.

  Lemma bd_get_ok s i : bd_inv s -> i < size s -> ContBitdeque.get B s i = nth_error (bd_abs s) i.
  Proof.
    intros I Hi. pose proof (inv_view s I) as V. apply get_ok; [exact V|]. rewrite <- (view_size _ _ V). exact Hi.
  Qed.

  (* ---- Iterator::operator+= : flat position moves by exactly dist, bitpos stays inside the word ---- *)
  Lemma iter_add_spec it bp dist : (0 <= bp < Z.of_nat B)%Z ->
    let r := ContBitdeque.iter_add B (it, bp) dist in
    (ContBitdeque.it_flat B r = ContBitdeque.it_flat B (it, bp) + dist)%Z /\ (0 <= snd r < Z.of_nat B)%Z.
  Proof.
    intros Hbp. unfold ContBitdeque.iter_add, ContBitdeque.it_flat.
    set (W := Z.of_nat B). assert (HW : (0 < W)%Z) by (unfold W; lia).
    destruct (0 <? dist)%Z eqn:E1.
    - apply Z.ltb_lt in E1.
      destruct (W <=? dist + bp)%Z eqn:E2; [apply Z.leb_le in E2|apply Z.leb_gt in E2]; cbv zeta; cbn [fst snd].
      + rewrite Z.quot_div_nonneg by lia.
        pose proof (Z.div_mod (dist - (W - bp)) W ltac:(lia)) as DM.
        pose proof (Z.mod_pos_bound (dist - (W - bp)) W HW) as MB.
        set (q := ((dist - (W - bp)) / W)%Z) in *. split; nia.
      + rewrite Z.quot_div_nonneg by lia.
        assert (Hq : (dist / W = 0)%Z) by (apply Z.div_small; lia). rewrite Hq. split; lia.
    - apply Z.ltb_ge in E1. destruct (dist <? 0)%Z eqn:E3.
      + apply Z.ltb_lt in E3.
        destruct (bp <? - dist)%Z eqn:E2; [apply Z.ltb_lt in E2|apply Z.ltb_ge in E2]; cbv zeta; cbn [fst snd].
        * rewrite Z.quot_div_nonneg by lia.
          pose proof (Z.div_mod (- dist - (bp + 1)) W ltac:(lia)) as DM.
          pose proof (Z.mod_pos_bound (- dist - (bp + 1)) W HW) as MB.
          set (q := ((- dist - (bp + 1)) / W)%Z) in *. split; nia.
        * rewrite Z.quot_div_nonneg by lia.
          assert (Hq : (- dist / W = 0)%Z) by (apply Z.div_small; lia). rewrite Hq. split; lia.
      + apply Z.ltb_ge in E3. assert (dist = 0%Z) by lia. subst. cbn [fst snd]. split; lia.
  Qed.

  (* begin() + i designates flat bit pad_begin + i: block (pb+i)/B, bit (pb+i) mod B *)
  Lemma begin_plus s i : d_pb s < B ->
    let r := ContBitdeque.iter_add B (ContBitdeque.it_begin s) (Z.of_nat i) in
    ContBitdeque.it_flat B r = Z.of_nat (d_pb s + i) /\
    fst r = Z.of_nat ((d_pb s + i) / B) /\ snd r = Z.of_nat ((d_pb s + i) mod B).
  Proof.
    intros Hp. unfold ContBitdeque.it_begin.
    destruct (iter_add_spec 0%Z (Z.of_nat (d_pb s)) (Z.of_nat i) ltac:(lia)) as [F R].
    cbv zeta in *. set (r := ContBitdeque.iter_add B (0%Z, Z.of_nat (d_pb s)) (Z.of_nat i)) in *.
    unfold ContBitdeque.it_flat in *. cbn [fst snd] in F.
    assert (F' : (fst r * Z.of_nat B + snd r = Z.of_nat (d_pb s + i))%Z) by lia.
    split; [exact F'|].
    rewrite Nat2Z.inj_div, Nat2Z.inj_mod, <- F'.
    split.
    - symmetry. rewrite Z.add_comm, Z.div_add by lia. rewrite Z.div_small by lia. lia.
    - symmetry. rewrite Z.add_comm, Z.mod_add by lia. apply Z.mod_small. lia.
  Qed.

  (* end() is flat bit  nb*B - pad_end, i.e. begin() + size() *)
  Lemma end_flat s : d_pe s < B ->
    ContBitdeque.it_flat B (ContBitdeque.it_end B s) = (Z.of_nat (d_nb s) * Z.of_nat B - Z.of_nat (d_pe s))%Z.
  Proof.
    intros Hp. unfold ContBitdeque.it_end.
    destruct (iter_add_spec (Z.of_nat (d_nb s)) 0%Z (- Z.of_nat (d_pe s))%Z ltac:(lia)) as [F _].
    cbv zeta in F. rewrite F. unfold ContBitdeque.it_flat. cbn [fst snd]. lia.
  Qed.
End BD.
