(* ChainSel: FindMostWorkChain — what it returns, what it removes, and that |candidates|+1 iterations suffice. *)
From BV Require Import lib.Ints gen.Params_gen model.ChainSel proofs.ChainSelBase proofs.ChainSelFrame proofs.ChainSelInv
  proofs.ChainSelDeliver.
Local Open Scope Z_scope.
#[local] Arguments Z.eqb : simpl never.
#[local] Arguments Z.ltb : simpl never.
#[local] Arguments Z.gtb : simpl never.
#[local] Arguments Z.geb : simpl never.
#[local] Arguments Z.leb : simpl never.
#[local] Arguments Z.add : simpl never.
#[local] Arguments Z.sub : simpl never.

Lemma set_cands_id s : set_cands s (st_cands s) = s.
Proof. destruct s; reflexivity. Qed.
Lemma set_cands_twice s a b : set_cands (set_cands s a) b = set_cands s b.
Proof. reflexivity. Qed.

Lemma fmwc_walk_set_cands s v p : fmwc_walk (set_cands s v) p = fmwc_walk s p.
Proof. induction p as [|x r IH]; [reflexivity|]. cbn [fmwc_walk]. rewrite IH. reflexivity. Qed.

Lemma filter_all_true {A} (f : A -> bool) l : (forall x, f x = true) -> filter f l = l.
Proof. intros H. induction l as [|a l IH]; cbn; [reflexivity|]. rewrite H, IH. reflexivity. Qed.
Lemma filter_ext_l {A} (f g : A -> bool) l : (forall x, f x = g x) -> filter f l = filter g l.
Proof. intros H. induction l as [|a l IH]; cbn; [reflexivity|]. rewrite H, IH. reflexivity. Qed.
Lemma filter_filter_and {A} (f g : A -> bool) l : filter f (filter g l) = filter (fun x => g x && f x) l.
Proof.
  induction l as [|a l IH]; cbn; [reflexivity|]. destruct (g a); cbn; [destruct (f a); rewrite IH; reflexivity|exact IH].
Qed.
Lemma mem_cons c x l : mem c (x :: l) = (c =? x) || mem c l.
Proof. reflexivity. Qed.

Lemma filter_length_le {A} (f : A -> bool) l : (length (filter f l) <= length l)%nat.
Proof. induction l as [|a l IH]; cbn; [lia|]. destruct (f a); cbn; lia. Qed.
Lemma erase_length w l : In w l -> (length (cand_erase w l) < length l)%nat.
Proof.
  unfold cand_erase. induction l as [|a l IH]; [intros []|].
  intros Hin. cbn [filter]. destruct (Z.eqb_spec a w) as [E|N]; cbn [negb length].
  - apply Nat.lt_succ_r. apply filter_length_le.
  - destruct Hin as [E|H]; [contradiction|]. specialize (IH H). apply (proj1 (Nat.succ_lt_mono _ _)). exact IH.
Qed.
Lemma NoDup_incl_length_lt (l l' : list id) w : NoDup l -> (forall c, In c l -> In c l' /\ c <> w) -> In w l' ->
  (length l < length l')%nat.
Proof.
  intros Hnd Hsub Hw.
  assert (incl l (cand_erase w l')). { intros c Hc. apply cand_erase_In. apply Hsub. assumption. }
  pose proof (NoDup_incl_length Hnd H). pose proof (erase_length w l' Hw). lia.
Qed.

Section Fmw.
Variable parent_of : id -> id.
Variable proof_of : id -> Z.
Variable kind_of : id -> kind.
Hypothesis proof_pos : forall b, 0 < proof_of b.
Set Default Proof Using "All".

Notation Inv := (Inv parent_of proof_of kind_of).

Lemma inv_cands_shrink s cs : Inv s -> NoDup cs -> (forall c, In c cs -> In c (st_cands s)) -> Inv (set_cands s cs).
Proof.
  intros HI Hnd Hsub. destruct HI. constructor; ssimpl; try assumption.
  intros c Hc. apply i_cands. apply Hsub. assumption.
Qed.

(* induction along pprev *)
Lemma path_ind s (HI : Inv s) (P : id -> Prop) :
  P GENESIS -> (forall x, known s x = true -> x <> GENESIS -> P (parent_of x) -> P x) ->
  forall x, known s x = true -> P x.
Proof.
  intros HG Hstep x Hk. remember (length (path s x)) as n eqn:Hn. revert x Hk Hn.
  induction n as [n IH] using lt_wf_ind. intros x Hk Hn.
  destruct (Z.eq_dec x GENESIS) as [->|N]; [assumption|].
  destruct (ipath_unfold _ _ _ proof_pos _ HI _ Hk N) as [Hkp [Hpath _]].
  apply Hstep; try assumption. eapply (IH (length (path s (parent_of x)))); eauto. rewrite Hn, Hpath. cbn. lia.
Qed.

(* ---------------------------------------------------------------------------------------------- *)
(* the removal loop only erases candidates (no pruned data here, so nothing is re-added to m_blocks_unlinked) *)
Lemma remove_eq p t : forall s,
  fmwc_remove parent_of s p t false = set_cands s (filter (fun c => negb (mem c (path_above p t))) (st_cands s)).
Proof.
  induction p as [|x r IH]; intros s; cbn [fmwc_remove path_above].
  - rewrite filter_all_true by reflexivity. symmetry. apply set_cands_id.
  - destruct (x =? t).
    + rewrite filter_all_true by reflexivity. symmetry. apply set_cands_id.
    + rewrite IH. unfold erase_cand. ssimpl. rewrite set_cands_twice. f_equal.
      unfold cand_erase. rewrite filter_filter_and. apply filter_ext_l. intros c.
      rewrite mem_cons, negb_orb. reflexivity.
Qed.

Lemma above_desc s (HI : Inv s) t : forall x, known s x = true -> In t (path s x) ->
  forall y, In y (path_above (path s x) t) -> In t (path s y) /\ y <> t /\ In y (path s x).
Proof.
  intros x Hk. pattern x. revert x Hk. apply (path_ind s HI).
  - rewrite (ipath_genesis _ _ _ proof_pos _ HI). intros [<-|[]] y. cbn. rewrite Z.eqb_refl. intros [].
  - intros x Hk N IH Ht y. destruct (ipath_unfold _ _ _ proof_pos _ HI _ Hk N) as [Hkp [Hpath _]].
    rewrite Hpath. cbn [path_above]. destruct (Z.eqb_spec x t) as [E|Nxt]; [intros []|].
    assert (Htp : In t (path s (parent_of x))).
    { rewrite Hpath in Ht. destruct Ht as [E|Ht]; [congruence|assumption]. }
    intros [<-|Hy].
    + split; [rewrite Hpath; right; assumption|]. split; [assumption|left; reflexivity].
    + destruct (IH Htp y Hy) as [H1 [H2 H3]]. split; [assumption|]. split; [assumption|right; assumption].
Qed.

(* ---------------------------------------------------------------------------------------------- *)
(* the ancestor walk *)
Lemma walk_cons s x r : fmwc_walk s (x :: r) =
  if in_chain s x then None
  else if st_failed s x || negb (st_data s x) then Some (x, st_failed s x, negb (st_data s x)) else fmwc_walk s r.
Proof. reflexivity. Qed.

Lemma walk_some s (HI : Inv s) t ff fm : forall x, known s x = true -> fmwc_walk s (path s x) = Some (t, ff, fm) ->
  In t (path s x) /\ in_chain s t = false /\ ff = st_failed s t /\ fm = negb (st_data s t) /\ ff || fm = true.
Proof.
  intros x Hk. pattern x. revert x Hk. apply (path_ind s HI).
  - rewrite (ipath_genesis _ _ _ proof_pos _ HI), walk_cons.
    destruct (in_chain s GENESIS) eqn:E1; [discriminate|].
    destruct (st_failed s GENESIS || negb (st_data s GENESIS)) eqn:E2; [|discriminate].
    intros H. injection H as <- <- <-. repeat split; auto. left. reflexivity.
  - intros x Hk N IH. destruct (ipath_unfold _ _ _ proof_pos _ HI _ Hk N) as [Hkp [Hpath _]].
    rewrite Hpath, walk_cons. destruct (in_chain s x) eqn:E1; [discriminate|].
    destruct (st_failed s x || negb (st_data s x)) eqn:E2.
    + intros H. injection H as <- <- <-. repeat split; auto. left. reflexivity.
    + intros H. destruct (IH H) as [H1 H2]. split; [right; assumption|assumption].
Qed.

Lemma walk_none s (HI : Inv s) : forall x, known s x = true -> fmwc_walk s (path s x) = None ->
  forall y, In y (path s x) -> in_chain s y = true \/ (st_failed s y = false /\ st_data s y = true).
Proof.
  intros x Hk. pattern x. revert x Hk. apply (path_ind s HI).
  - rewrite (ipath_genesis _ _ _ proof_pos _ HI). intros _ y [<-|[]]. left.
    apply (iin_chain_iff _ _ _ proof_pos _ HI). apply (igenesis_in_path _ _ _ proof_pos _ HI). apply (i_tip_known _ _ _ _ HI).
  - intros x Hk N IH. destruct (ipath_unfold _ _ _ proof_pos _ HI _ Hk N) as [Hkp [Hpath _]].
    rewrite Hpath, walk_cons. destruct (in_chain s x) eqn:E1.
    + intros _ y Hy. left. apply (iin_chain_iff _ _ _ proof_pos _ HI). apply (iin_chain_iff _ _ _ proof_pos _ HI) in E1.
      eapply (ipath_trans _ _ _ proof_pos _ HI); [|exact E1]. rewrite Hpath. assumption.
    + destruct (st_failed s x || negb (st_data s x)) eqn:E2; [discriminate|].
      intros H y [<-|Hy]; [|apply IH; assumption]. right.
      apply orb_false_elim in E2. destruct E2 as [E2 E3]. split; [assumption|]. destruct (st_data s x); [reflexivity|discriminate].
Qed.

(* ---------------------------------------------------------------------------------------------- *)
(* FindMostWorkChain: only the candidate set changes; what is removed is failed; the result is the best
   remaining candidate and the walk from it to the active chain meets no failed and no data-less block *)
Lemma fmw_spec fuel : forall s, Inv s -> (length (st_cands s) < fuel)%nat ->
  exists cs r, find_most_work parent_of s fuel = (set_cands s cs, r) /\ NoDup cs /\
    (forall c, In c cs -> In c (st_cands s)) /\
    (forall c, In c (st_cands s) -> ~ In c cs -> st_failed s c = true) /\
    match r with
    | None => cs = []
    | Some w => In w cs /\ (forall c, In c cs -> worse s w c = false) /\ fmwc_walk s (path s w) = None
    end.
Proof.
  induction fuel as [|f IH]; intros s HI Hlen; [lia|].
  cbn [find_most_work]. destruct (best_cand s) as [w|] eqn:Eb.
  2:{ apply best_cand_none in Eb. exists [], None.
      assert (E0 : set_cands s [] = s) by (rewrite <- Eb; apply set_cands_id). rewrite E0.
      split; [reflexivity|]. split; [constructor|]. split; [intros c []|].
      split; [intros c Hc; rewrite Eb in Hc; destruct Hc|reflexivity]. }
  destruct (best_cand_spec _ _ Eb) as [Hw Hbest].
  destruct (i_cands _ _ _ _ HI _ Hw) as [Hkw [Hcw _]].
  destruct (fmwc_walk s (path s w)) as [[[t ff] fm]|] eqn:Ewalk.
  2:{ exists (st_cands s), (Some w). rewrite set_cands_id.
      split; [reflexivity|]. split; [apply (i_cands_nodup _ _ _ _ HI)|]. split; [auto|].
      split; [intros c H1 H2; contradiction|]. split; [assumption|]. split; [assumption|exact Ewalk]. }
  destruct (walk_some s HI _ _ _ _ Hkw Ewalk) as [Htw [Htc [-> [-> Hor]]]].
  (* every ancestor of a candidate has data: the offending block is a failed one *)
  destruct (inv_chaintx_anc _ _ _ proof_pos s HI _ _ Htw Hcw) as [_ Hdt]. rewrite Hdt in *. cbn [negb] in *.
  rewrite orb_false_r in Hor. rewrite Hor. cbn [negb andb].
  rewrite remove_eq. unfold erase_cand. ssimpl. rewrite set_cands_twice.
  set (cs1 := cand_erase t (filter (fun c => negb (mem c (path_above (path s w) t))) (st_cands s))).
  assert (Hnd1 : NoDup cs1) by (apply cand_erase_NoDup, NoDup_filter, (i_cands_nodup _ _ _ _ HI)).
  assert (Hsub1 : forall c, In c cs1 -> In c (st_cands s) /\ c <> w).
  { intros c Hc. apply cand_erase_In in Hc. destruct Hc as [Hc Nct]. apply filter_In in Hc. destruct Hc as [Hc Hm].
    split; [assumption|]. intros ->. destruct (Z.eq_dec w t) as [E|Nwt]; [contradiction|].
    destruct (ipath_head _ _ _ proof_pos _ HI _ Hkw) as [tl Hp]. rewrite Hp in Hm. cbn [path_above] in Hm.
    destruct (Z.eqb_spec w t); [contradiction|]. rewrite mem_cons, Z.eqb_refl in Hm. discriminate. }
  assert (Hrem1 : forall c, In c (st_cands s) -> ~ In c cs1 -> st_failed s c = true).
  { intros c Hc Hn. destruct (Z.eq_dec c t) as [->|Nct]; [assumption|].
    destruct (mem c (path_above (path s w) t)) eqn:Em.
    - apply mem_In in Em. destruct (above_desc s HI t w Hkw Htw c Em) as [H1 _].
      eapply (inv_failed_desc _ _ _ proof_pos); eauto.
    - exfalso. apply Hn. apply cand_erase_In. split; [|assumption]. apply filter_In. split; [assumption|]. rewrite Em. reflexivity. }
  assert (HI1 : Inv (set_cands s cs1)) by (apply inv_cands_shrink; [assumption|assumption|intros c Hc; apply Hsub1; assumption]).
  assert (Hlen1 : (length (st_cands (set_cands s cs1)) < f)%nat).
  { ssimpl. pose proof (NoDup_incl_length_lt cs1 (st_cands s) w Hnd1 Hsub1 Hw). lia. }
  destruct (IH _ HI1 Hlen1) as [cs [r [Eq [Hnd [Hsub [Hrem Hres]]]]]].
  exists cs, r. rewrite Eq, set_cands_twice.
  split; [reflexivity|]. split; [assumption|].
  split; [intros c Hc; apply Hsub1; apply Hsub; assumption|].
  split.
  - intros c Hc Hn. destruct (in_dec Z.eq_dec c cs1) as [Hin|Hnin]; [apply (Hrem c Hin Hn)|apply Hrem1; assumption].
  - destruct r as [w'|]; [|assumption]. destruct Hres as [H1 [H2 H3]].
    rewrite fmwc_walk_set_cands in H3. auto.
Qed.

(* in a state where the tip is the only candidate FindMostWorkChain returns it and changes nothing *)
Lemma fmw_quiescent s : Inv s -> complete s -> quiescent s ->
  find_most_work_chain parent_of s = (s, Some (st_tip s)).
Proof.
  intros HI HC HQ. unfold find_most_work_chain. cbn [find_most_work].
  pose proof (good_tip_cand _ _ _ proof_pos s HI HC) as Htc.
  destruct (best_cand s) as [w|] eqn:Eb; [|apply best_cand_none in Eb; rewrite Eb in Htc; destruct Htc].
  destruct (best_cand_spec _ _ Eb) as [Hw _]. apply HQ in Hw. subst w.
  destruct (ipath_head _ _ _ proof_pos _ HI _ (i_tip_known _ _ _ _ HI)) as [tl Hp]. rewrite Hp, walk_cons.
  assert (in_chain s (st_tip s) = true).
  { apply (iin_chain_iff _ _ _ proof_pos _ HI). rewrite Hp. left. reflexivity. }
  rewrite H. reflexivity.
Qed.

End Fmw.
