(* C49 — Poly1305: the incremental interface (Update with any fragmentation, partial-block buffer,
   final block with the 0x01 marker and no 2^128 bit) equals the one-shot RFC 8439 definition;
   RFC 8439 test vectors. *)
From Coq Require Import NArith Arith.
From BV Require Import lib.Ints model.CryptoBase model.CryptoMD model.CryptoPoly1305
  proofs.CryptoBaseLemmas proofs.CryptoMDLemmas.
Local Open Scope Z_scope.

(* ---------- little endian numbers ---------- *)
Lemma le_value_app : forall a b, le_value (a ++ b) = le_value a + 256 ^ Z.of_nat (length a) * le_value b.
Proof.
  induction a as [|x a IH]; intros b.
  - cbn [app le_value length Z.of_nat]. rewrite Z.pow_0_r. lia.
  - cbn [app le_value length]. rewrite IH. rewrite Nat2Z.inj_succ, Z.pow_succ_r by lia. lia.
Qed.

Lemma le_value_zeros k : le_value (zeros k) = 0.
Proof. induction k as [|k IH]; [reflexivity|]. unfold zeros in *. cbn [repeat le_value]. rewrite IH. reflexivity. Qed.

Lemma le_value_nonneg : forall l, 0 <= le_value l.
Proof. induction l as [|x l IH]; cbn [le_value]; [lia|]. pose proof (N2Z.is_nonneg x). lia. Qed.

Lemma le_bytes_mod k : forall v, le_bytes k (v mod 2 ^ (8 * Z.of_nat k)) = le_bytes k v.
Proof.
  induction k as [|k IH]; intros v; [reflexivity|].
  cbn [le_bytes]. replace (8 * Z.of_nat (S k)) with (8 + 8 * Z.of_nat k) by lia.
  rewrite Z.pow_add_r by lia. change (2 ^ 8) with 256.
  set (M := 2 ^ (8 * Z.of_nat k)). assert (HM : 0 < M) by (apply Z.pow_pos_nonneg; lia).
  f_equal.
  - f_equal. rewrite Z.rem_mul_r by lia. rewrite (Z.mul_comm 256 ((v / 256) mod M)).
    rewrite Z_mod_plus_full. apply Z.mod_mod. lia.
  - rewrite <- (IH (v / 256)). f_equal. fold M.
    rewrite Z.rem_mul_r by lia. rewrite (Z.mul_comm 256 ((v / 256) mod M)).
    rewrite Z.div_add by lia.
    rewrite (Z.div_small (v mod 256) 256) by (apply Z.mod_pos_bound; lia). lia.
Qed.

(* ---------- the accumulator as a block iteration ---------- *)
Definition pcompress (r : Z) (h : Z) (blk : list N) : Z := poly_block_step r false h blk.
Notation pabsorb r := (absorb Z 16 (pcompress r)).
Notation pprocess r := (process Z 16 (pcompress r)).

Lemma B16_pos : (0 < 16)%nat. Proof. lia. Qed.

Lemma blocks_h_process n r : forall h m, poly_blocks_h n r false h m = pprocess r n h m.
Proof. induction n as [|n IH]; intros h m; [reflexivity|]. cbn [poly_blocks_h process]. apply IH. Qed.

Lemma P1305_pos : 0 < P1305. Proof. reflexivity. Qed.

Lemma pprocess_range r n : forall h m, 0 <= h < P1305 -> 0 <= pprocess r n h m < P1305.
Proof.
  induction n as [|n IH]; intros h m Hh; [exact Hh|].
  cbn [process]. apply IH. unfold pcompress, poly_block_step. apply Z.mod_pos_bound. exact P1305_pos.
Qed.

Lemma memcpy_prefix' buf off src p : firstn off buf = p -> length p = off ->
  firstn (off + length src) (memcpy buf off src) = p ++ src.
Proof.
  intros Hp Hl. unfold memcpy. rewrite Hp, app_assoc.
  replace (off + length src)%nat with (length (p ++ src)) by (rewrite app_length; lia).
  apply firstn_exact_app.
Qed.

(* ---------- refinement: context -> (accumulator, pending bytes) ---------- *)
Definition Rp (r pad : Z) (st : poly1305_ctx) (sp : Z * list N) : Prop :=
  p_r st = r /\ p_pad st = pad /\ p_final st = false /\ p_h st = fst sp /\
  p_leftover st = length (snd sp) /\ (length (snd sp) < 16)%nat /\
  length (p_buffer st) = 16%nat /\ firstn (length (snd sp)) (p_buffer st) = snd sp.

Lemma div16_mul n : (n / 16 * 16 / 16 = n / 16)%nat.
Proof. apply Nat.div_mul. lia. Qed.

Lemma update_tail_refines r pad st m :
  Rp r pad st (p_h st, []) -> Rp r pad (poly1305_update_tail st m) (pabsorb r (p_h st, []) m).
Proof.
  intros (Hr & Hpad & Hfin & _ & Hlo & _ & Hbuf & _). cbn [snd length] in Hlo.
  unfold poly1305_update_tail, absorb. cbn [fst snd app].
  set (n := (length m / 16)%nat).
  pose proof (div_mod_split 16 (length m) B16_pos) as Hsplit. fold n in Hsplit.
  pose proof (Nat.mod_upper_bound (length m) 16 ltac:(lia)) as Hub.
  assert (Hphase :
    (if (16 <=? length m)%nat then (poly1305_blocks st m (n * 16), skipn (n * 16) m) else (st, m)) =
    (poly1305_blocks st m (n * 16), skipn (n * 16) m)).
  { destruct (16 <=? length m)%nat eqn:E; [reflexivity|].
    apply Nat.leb_gt in E. assert (Hn0 : n = 0%nat) by (apply Nat.div_small; exact E).
    rewrite Hn0. cbn [Nat.mul skipn]. unfold poly1305_blocks. cbn [Nat.div Nat.divmod fst poly_blocks_h].
    destruct st; reflexivity. }
  rewrite Hphase. clear Hphase.
  set (m2 := skipn (n * 16) m).
  assert (Hl2 : length m2 = (length m mod 16)%nat) by (unfold m2; rewrite skipn_length; lia).
  assert (Hh : p_h (poly1305_blocks st m (n * 16)) = pprocess r n (p_h st) m).
  { unfold poly1305_blocks. cbn [p_h]. rewrite Nat.div_mul by lia. rewrite Hfin, Hr. apply blocks_h_process. }
  destruct (0 <? length m2)%nat eqn:E3.
  - unfold Rp, set_leftover, poly1305_blocks. cbn [p_r p_pad p_final p_h p_leftover p_buffer fst snd].
    rewrite Hlo. cbn [Nat.add].
    refine (conj Hr (conj Hpad (conj Hfin (conj _ (conj eq_refl (conj _ (conj _ _))))))).
    + rewrite Nat.div_mul by lia. rewrite Hfin, Hr. apply blocks_h_process.
    + lia.
    + unfold memcpy. cbn [firstn app Nat.add]. rewrite app_length, skipn_length. lia.
    + unfold memcpy. cbn [firstn app Nat.add]. apply firstn_exact_app.
  - apply Nat.ltb_ge in E3. assert (Hnil : m2 = []) by (apply length_zero_nil; lia).
    rewrite Hnil. unfold Rp, poly1305_blocks. cbn [p_r p_pad p_final p_h p_leftover p_buffer fst snd length firstn].
    refine (conj Hr (conj Hpad (conj Hfin (conj _ (conj Hlo (conj _ (conj Hbuf eq_refl))))))).
    + rewrite Nat.div_mul by lia. rewrite Hfin, Hr. apply blocks_h_process.
    + lia.
Qed.

Lemma update_refines r pad st sp m : Rp r pad st sp -> Rp r pad (poly1305_update st m) (pabsorb r sp m).
Proof.
  intros HR. destruct sp as [h p].
  pose proof HR as (Hr & Hpad & Hfin & Hh & Hlo & Hplt & Hbuf & Hpre). cbn [fst snd] in *.
  unfold poly1305_update. rewrite Hlo.
  destruct (negb (length p =? 0)%nat) eqn:Enz.
  - apply negb_true_iff, Nat.eqb_neq in Enz.
    set (want := Nat.min (16 - length p) (length m)).
    set (buf' := memcpy (p_buffer st) (length p) (firstn want m)).
    assert (Hwl : length (firstn want m) = want) by (apply firstn_length_le; unfold want; lia).
    assert (Hbuf'len : length buf' = 16%nat).
    { unfold buf', memcpy. rewrite !app_length, skipn_length, firstn_length_le, Hwl by lia. unfold want. lia. }
    assert (Hbuf'pre : firstn (length p + want) buf' = p ++ firstn want m).
    { unfold buf'. rewrite <- Hwl at 1. apply memcpy_prefix'; [exact Hpre | reflexivity]. }
    destruct (length p + want <? 16)%nat eqn:Elt.
    + (* still not a full block: everything went into the buffer *)
      apply Nat.ltb_lt in Elt.
      assert (Hwm : want = length m) by (unfold want in *; lia).
      rewrite Hwm, firstn_all in Hbuf'pre.
      unfold absorb. cbn [fst snd].
      rewrite (Nat.div_small (length (p ++ m)) 16) by (rewrite app_length; lia).
      cbn [process Nat.mul skipn].
      unfold Rp, set_leftover. cbn [p_r p_pad p_final p_h p_leftover p_buffer fst snd].
      rewrite app_length.
      refine (conj Hr (conj Hpad (conj Hfin (conj Hh (conj _ (conj _ (conj Hbuf'len _))))))); try lia.
      exact Hbuf'pre.
    + (* the buffer is completed and processed, then the rest as with an empty buffer *)
      apply Nat.ltb_ge in Elt.
      assert (Hw : want = (16 - length p)%nat) by (unfold want in *; lia).
      assert (Hbuf' : buf' = p ++ firstn want m).
      { rewrite <- Hbuf'pre. rewrite firstn_all2 by lia. reflexivity. }
      set (st1 := poly1305_blocks (set_leftover st buf' (length p + want)) buf' 16).
      set (st2 := set_leftover st1 buf' 0).
      assert (Hh2 : p_h st2 = pcompress r h buf').
      { unfold st2, st1, set_leftover, poly1305_blocks. cbn [p_h p_r p_final].
        change (16 / 16)%nat with 1%nat. cbn [poly_blocks_h]. rewrite Hfin, Hr, Hh.
        rewrite firstn_all2 by lia. reflexivity. }
      assert (HR2 : Rp r pad st2 (p_h st2, [])).
      { unfold Rp, st2, st1, set_leftover, poly1305_blocks.
        cbn [p_r p_pad p_final p_h p_leftover p_buffer fst snd length firstn].
        refine (conj Hr (conj Hpad (conj Hfin (conj eq_refl (conj eq_refl (conj _ (conj Hbuf'len eq_refl))))))). lia. }
      pose proof (update_tail_refines r pad st2 (skipn want m) HR2) as Ht.
      assert (Habs : pabsorb r (h, p) m = pabsorb r (p_h st2, []) (skipn want m)).
      { rewrite <- (firstn_skipn want m) at 1.
        rewrite <- (absorb_absorb Z 16 (pcompress r) B16_pos).
        f_equal. unfold absorb. cbn [fst snd]. rewrite <- Hbuf'. rewrite Hbuf'len.
        change (16 / 16)%nat with 1%nat. cbn [process Nat.mul Nat.add].
        rewrite firstn_all2 by lia. rewrite skipn_all2 by lia. rewrite Hh2. reflexivity. }
      rewrite Habs. exact Ht.
  - apply negb_false_iff, Nat.eqb_eq in Enz. apply length_zero_nil in Enz. subst p.
    rewrite <- Hh. apply update_tail_refines. rewrite Hh. exact HR.
Qed.

Lemma fold_update_refines r pad chunks : forall st sp, Rp r pad st sp ->
  Rp r pad (fold_left poly1305_update chunks st) (pabsorb r sp (concat chunks)).
Proof.
  induction chunks as [|c cs IH]; intros st sp HR.
  - cbn [fold_left concat]. rewrite (absorb_nil Z 16 (pcompress r) B16_pos).
    + exact HR.
    + destruct HR as (_ & _ & _ & _ & _ & Hlt & _). exact Hlt.
  - cbn [fold_left concat]. rewrite <- (absorb_absorb Z 16 (pcompress r) B16_pos).
    apply IH. apply update_refines. exact HR.
Qed.

(* ---------- the RFC loop in terms of the block iteration ---------- *)
Lemma le_value_block_marker blk : length blk = 16%nat -> le_value (blk ++ [1%N]) = le_value blk + 2 ^ 128.
Proof. intros Hl. rewrite le_value_app, Hl. cbn [le_value]. change (256 ^ Z.of_nat 16) with (2 ^ 128). change (Z.of_N 1) with 1. lia. Qed.

Lemma accumulate_absorb r : forall fuel msg a, (length msg <= fuel)%nat ->
  poly_accumulate fuel r a msg =
  let sp := pabsorb r (a, []) msg in
  if (length (snd sp) =? 0)%nat then fst sp
  else (r * (fst sp + le_value (snd sp ++ [1%N]))) mod P1305.
Proof.
  induction fuel as [|fuel IH]; intros msg a Hf.
  - assert (msg = []) by (apply length_zero_nil; lia). subst msg. reflexivity.
  - destruct msg as [|b msg']; [reflexivity|].
    set (msg := b :: msg') in *. cbn [poly_accumulate]. fold msg.
    change (match msg with [] => a | _ :: _ => poly_accumulate fuel r ((r * (a + le_value (firstn 16 msg ++ [1%N]))) mod P1305) (skipn 16 msg) end)
      with (poly_accumulate fuel r ((r * (a + le_value (firstn 16 msg ++ [1%N]))) mod P1305) (skipn 16 msg)).
    destruct (Nat.le_gt_cases 16 (length msg)) as [Hge | Hlt].
    + (* a full block *)
      rewrite IH by (rewrite skipn_length; unfold msg in *; simpl length in *; lia).
      assert (Hfl : length (firstn 16 msg) = 16%nat) by (apply firstn_length_le; exact Hge).
      assert (Hstep : (r * (a + le_value (firstn 16 msg ++ [1%N]))) mod P1305 = pcompress r a (firstn 16 msg)).
      { unfold pcompress, poly_block_step. rewrite le_value_block_marker by exact Hfl. f_equal. lia. }
      rewrite Hstep.
      assert (Habs : pabsorb r (a, []) msg = pabsorb r (pcompress r a (firstn 16 msg), []) (skipn 16 msg)).
      { rewrite <- (firstn_skipn 16 msg) at 1.
        rewrite <- (absorb_absorb Z 16 (pcompress r) B16_pos). f_equal.
        unfold absorb. cbn [fst snd app]. rewrite Hfl. change (16 / 16)%nat with 1%nat.
        cbn [process Nat.mul Nat.add]. rewrite firstn_all2 by lia. rewrite skipn_all2 by lia. reflexivity. }
      rewrite Habs. reflexivity.
    + (* the last, short block *)
      rewrite (skipn_all2 msg) by lia. rewrite (firstn_all2 msg) by lia.
      assert (Hacc : forall x, poly_accumulate fuel r x [] = x) by (intros x; destruct fuel; reflexivity).
      rewrite Hacc.
      unfold absorb. cbn [fst snd app]. rewrite (Nat.div_small (length msg) 16) by exact Hlt.
      cbn [process Nat.mul skipn fst snd].
      assert (E : (length msg =? 0)%nat = false) by (apply Nat.eqb_neq; unfold msg; simpl; lia).
      rewrite E. reflexivity.
Qed.

Lemma pabsorb_range r msg : 0 <= fst (pabsorb r (0, []) msg) < P1305.
Proof. unfold absorb. cbn [fst snd app]. apply pprocess_range. split; [lia | exact P1305_pos]. Qed.

(* ---------- main theorem ---------- *)
Theorem poly1305_stream_eq_spec ubuf key chunks :
  length ubuf = 16%nat ->
  poly1305_stream ubuf key chunks = poly1305_spec key (concat chunks).
Proof.
  intros Hu. unfold poly1305_stream, poly1305_spec.
  set (r := poly_clamp (le_value (firstn 16 key))).
  set (pad := le_value (firstn 16 (skipn 16 key))).
  assert (HR0 : Rp r pad (poly1305_init ubuf key) (0, [])).
  { unfold Rp, poly1305_init. cbn [p_r p_pad p_final p_h p_leftover p_buffer fst snd length firstn].
    repeat split; auto. lia. }
  pose proof (fold_update_refines r pad chunks _ _ HR0) as HR.
  set (st := fold_left poly1305_update chunks (poly1305_init ubuf key)) in *.
  set (msg := concat chunks) in *.
  rewrite (accumulate_absorb r (length msg) msg 0) by lia.
  pose proof (pabsorb_range r msg) as Hrange.
  destruct (pabsorb r (0, []) msg) as [h p] eqn:Eabs.
  destruct HR as (Hr & Hpad & Hfin & Hh & Hlo & Hplt & Hbuf & Hpre). cbn [fst snd] in *.
  unfold poly1305_finish. rewrite Hlo, Hr, Hpad, Hh.
  change (2 ^ 128) with (2 ^ (8 * Z.of_nat 16)).
  destruct (length p =? 0)%nat eqn:E0; cbn [negb].
  - rewrite le_bytes_mod. rewrite Z.mod_small by exact Hrange. reflexivity.
  - rewrite le_bytes_mod. rewrite Hpre.
    unfold poly_block_step.
    rewrite (app_assoc p [1%N]), le_value_app, le_value_zeros. rewrite Z.mul_0_r, !Z.add_0_r.
    rewrite Z.mod_mod by (pose proof P1305_pos; lia).
    rewrite (Z.mul_comm r). reflexivity.
Qed.

(* ---------- RFC 8439 2.5.2 test vector ---------- *)
Definition poly_rfc_key : list N :=
  [0x85;0xd6;0xbe;0x78;0x57;0x55;0x6d;0x33;0x7f;0x44;0x52;0xfe;0x42;0xd5;0x06;0xa8;
   0x01;0x03;0x80;0x8a;0xfb;0x0d;0xb2;0xfd;0x4a;0xbf;0xf6;0xaf;0x41;0x49;0xf5;0x1b]%N.
(* "Cryptographic Forum Research Group" *)
Definition poly_rfc_msg : list N :=
  [67;114;121;112;116;111;103;114;97;112;104;105;99;32;70;111;114;117;109;32;82;101;115;101;97;114;99;104;32;71;114;111;117;112]%N.
Example poly1305_rfc8439_252 :
  be_value (poly1305_spec poly_rfc_key poly_rfc_msg) = 0xa8061dc1305136c6c22b8baf0c0127a9.
Proof. vm_compute. reflexivity. Qed.
Example poly1305_stream_rfc8439_252 :
  be_value (poly1305_stream (zeros 16) poly_rfc_key [firstn 3 poly_rfc_msg; []; firstn 13 (skipn 3 poly_rfc_msg); skipn 16 poly_rfc_msg])
  = 0xa8061dc1305136c6c22b8baf0c0127a9.
Proof. vm_compute. reflexivity. Qed.
