(* ChainSel: preservation of the invariant by failure marking, TryAddBlockIndexCandidate and
   ReceivedBlockTransactions (with the sufficient-fuel bound of its queue loop). *)
From BV Require Import lib.Ints gen.Params_gen model.ChainSel proofs.ChainSelBase proofs.ChainSelFrame proofs.ChainSelInv.
Local Open Scope Z_scope.
#[local] Arguments Z.eqb : simpl never.
#[local] Arguments Z.ltb : simpl never.
#[local] Arguments Z.gtb : simpl never.
#[local] Arguments Z.geb : simpl never.
#[local] Arguments Z.leb : simpl never.
#[local] Arguments Z.add : simpl never.
#[local] Arguments Z.sub : simpl never.

Section Deliver.
Variable parent_of : id -> id.
Variable proof_of : id -> Z.
Variable kind_of : id -> kind.
Hypothesis proof_pos : forall b, 0 < proof_of b.
Set Default Proof Using "All".

Notation Inv := (Inv parent_of proof_of kind_of).
Notation eligible := eligible.
Notation complete_above := complete_above.

(* ---------------------------------------------------------------------------------------------- *)
(* failure flags may grow (descendant-closed, off the active chain) and candidates may be dropped *)
Lemma inv_failed_grow s f cs : Inv s ->
  (forall b, known s b = true -> b <> GENESIS -> f (parent_of b) = true -> f b = true) ->
  (forall x, In x (path s (st_tip s)) -> f x = false) ->
  NoDup cs -> (forall c, In c cs -> In c (st_cands s)) ->
  Inv (set_cands (set_failed s f) cs).
Proof.
  intros HI Hcl Hch Hnd Hsub. destruct HI. constructor; ssimpl; try assumption.
  - intros x Hx. destruct (i_chain x Hx) as [H1 [H2 [_ H4]]]. rewrite (Hch x Hx). auto.
  - intros c Hc. apply i_cands. apply Hsub. assumption.
Qed.

(* SetBlockFailureFlags on a block that is itself failed marks nothing new *)
Lemma sbff_noop s top : Inv s -> st_failed s top = true ->
  forall x, st_failed (set_block_failure_flags s top) x = st_failed s x.
Proof.
  intros HI Hf x. unfold set_block_failure_flags. ssimpl.
  destruct (known s x && negb (x =? top) && is_desc s x top) eqn:E; [|reflexivity].
  apply andb_prop in E. destruct E as [_ E]. apply (iis_desc_iff _ _ _ proof_pos _ HI) in E.
  symmetry. eapply inv_failed_desc; eauto.
Qed.

(* InvalidBlockFound(v) with a non-MUTATED result: v and all its descendants in the index are failed *)
Lemma mark_failed_spec s v x : Inv s -> known s v = true ->
  st_failed (invalid_block_found s v false) x = st_failed s x || (known s x && is_desc s x v).
Proof.
  intros HI Hk. unfold invalid_block_found, invalid_chain_found, set_block_failure_flags. ssimpl.
  destruct (Z.eqb_spec x v) as [->|N].
  - rewrite upd_same. cbn [negb]. rewrite andb_false_r. cbn.
    rewrite Hk. assert (is_desc s v v = true) by (apply (iis_desc_iff _ _ _ proof_pos _ HI); apply (ipath_self _ _ _ proof_pos _ HI); assumption).
    rewrite H. destruct (st_failed s v); reflexivity.
  - rewrite upd_other by assumption. cbn [negb]. rewrite andb_true_r.
    destruct (known s x && is_desc s x v); destruct (st_failed s x); reflexivity.
Qed.
Lemma mark_other_fields s v :
  st_index (invalid_block_found s v false) = st_index s /\ st_data (invalid_block_found s v false) = st_data s /\
  st_chaintx (invalid_block_found s v false) = st_chaintx s /\ st_seq (invalid_block_found s v false) = st_seq s /\
  st_tip (invalid_block_found s v false) = st_tip s /\ st_unlinked (invalid_block_found s v false) = st_unlinked s /\
  st_next_seq (invalid_block_found s v false) = st_next_seq s /\ st_min_work (invalid_block_found s v false) = st_min_work s /\
  st_cands (invalid_block_found s v false) = cand_erase v (st_cands s).
Proof. repeat split. Qed.

Lemma mark_eq s v : invalid_block_found s v false =
  set_cands (set_failed s (st_failed (invalid_block_found s v false))) (cand_erase v (st_cands s)).
Proof. reflexivity. Qed.

Lemma mark_inv s v : Inv s -> known s v = true -> ~ In v (path s (st_tip s)) -> Inv (invalid_block_found s v false).
Proof.
  intros HI Hk Hnc. rewrite mark_eq. apply inv_failed_grow; try assumption.
  - intros b Hkb N. rewrite !mark_failed_spec by assumption.
    destruct (ipath_unfold _ _ _ proof_pos _ HI _ Hkb N) as [Hkp [Hpath _]].
    intros H. apply orb_prop in H. destruct H as [H|H].
    + rewrite (i_failed_closed _ _ _ _ HI _ Hkb N H). reflexivity.
    + apply andb_prop in H. destruct H as [_ H]. apply (iis_desc_iff _ _ _ proof_pos _ HI) in H.
      assert (is_desc s b v = true). { apply (iis_desc_iff _ _ _ proof_pos _ HI). rewrite Hpath. right. assumption. }
      rewrite Hkb, H0. apply orb_true_r.
  - intros x Hx. rewrite mark_failed_spec by assumption.
    destruct (i_chain _ _ _ _ HI _ Hx) as [_ [_ [-> _]]]. cbn.
    destruct (is_desc s x v) eqn:E; [|apply andb_false_r].
    exfalso. apply Hnc. apply (iis_desc_iff _ _ _ proof_pos _ HI) in E. eapply (ipath_trans _ _ _ proof_pos _ HI); eauto.
  - apply cand_erase_NoDup. apply (i_cands_nodup _ _ _ _ HI).
  - intros c Hc. apply cand_erase_In in Hc. tauto.
Qed.

Lemma mark_eligible s v x : Inv s -> known s v = true ->
  (eligible (invalid_block_found s v false) x <-> eligible s x /\ ~ In v (path s x)).
Proof.
  intros HI Hk. unfold eligible. rewrite mark_failed_spec by assumption.
  change (known (invalid_block_found s v false) x) with (known s x).
  change (st_chaintx (invalid_block_found s v false) x) with (st_chaintx s x).
  rewrite <- (iis_desc_iff _ _ _ proof_pos _ HI).
  destruct (known s x); destruct (st_failed s x); destruct (is_desc s x v); cbn; intuition congruence.
Qed.

Lemma mark_complete_above s v m : Inv s -> known s v = true -> complete_above s m ->
  complete_above (invalid_block_found s v false) m.
Proof.
  intros HI Hk HC b Hb Hw. apply (mark_eligible _ _ _ HI Hk) in Hb. destruct Hb as [Hb Hnv].
  change (In b (cand_erase v (st_cands s))). apply cand_erase_In. split.
  - apply HC; assumption.
  - intros ->. apply Hnv. apply (ipath_self _ _ _ proof_pos _ HI). assumption.
Qed.

(* ---------------------------------------------------------------------------------------------- *)
(* ReceivedBlockTransactions: the queue loop *)

(* changing the sequence id of x only affects comparisons that involve x *)
Lemma worse_seq_other s f x a c : a <> x -> c <> x -> (forall y, y <> x -> f y = st_seq s y) ->
  worse (set_seq s f) a c = worse s a c.
Proof. intros Na Nc E. unfold worse. ssimpl. rewrite !E by assumption. reflexivity. Qed.

Lemma filter_length_split {A} (f : A -> bool) l :
  (length (filter f l) + length (filter (fun x => negb (f x)) l))%nat = length l.
Proof. induction l as [|a l IH]; cbn; [reflexivity|]. destruct (f a); cbn; lia. Qed.

Record QInv (s : state) (q : list id) : Prop := {
  q_wf : wf_index parent_of proof_of (st_index s);
  q_tip_known : known s (st_tip s) = true;
  q_chain : forall x, In x (path s (st_tip s)) ->
      st_data s x = true /\ st_chaintx s x = true /\ st_failed s x = false /\ kind_of x = KValid;
  q_failed_closed : forall b, known s b = true -> b <> GENESIS -> st_failed s (parent_of b) = true -> st_failed s b = true;
  (* the queued blocks have everything but the flag itself *)
  q_chaintx : forall b, known s b = true ->
      (st_chaintx s b = true <-> (st_data s b = true /\ (b = GENESIS \/ st_chaintx s (parent_of b) = true)) /\ ~ In b q);
  q_cands_nodup : NoDup (st_cands s);
  q_cands : forall c, In c (st_cands s) -> known s c = true /\ st_chaintx s c = true /\ worse s c (st_tip s) = false;
  q_unl_nodup : NoDup (st_unlinked s);
  q_unl_sound : forall p c, In (p, c) (st_unlinked s) ->
      known s c = true /\ c <> GENESIS /\ p = parent_of c /\ st_data s c = true /\ st_chaintx s c = false /\
      ~ In c q /\ st_chaintx s (parent_of c) = false;
  q_unl_complete : forall c, known s c = true -> c <> GENESIS -> st_data s c = true -> st_chaintx s c = false -> ~ In c q ->
      In (parent_of c, c) (st_unlinked s);
  q_members : forall x, In x q -> known s x = true /\ x <> GENESIS /\ st_data s x = true /\ st_chaintx s x = false /\
      st_chaintx s (parent_of x) = true;
  q_nodup : NoDup q;
  q_seq_range : forall b, known s b = true -> st_chaintx s b = true -> CHAINSEL_SEQ_ID_INIT_FROM_DISK < st_seq s b < st_next_seq s;
  q_seq_inj : forall a b, known s a = true -> known s b = true -> st_chaintx s a = true -> st_chaintx s b = true ->
      st_seq s a = st_seq s b -> a = b;
  q_data_kind : forall b, known s b = true -> st_data s b = true -> kind_of b = KValid \/ kind_of b = KBadConnect;
  q_complete : complete s
}.

Lemma qinv_done s : QInv s [] -> Inv s /\ complete s.
Proof.
  intros Q. destruct Q. split; [|assumption]. constructor; try assumption.
  - intros b Hk. rewrite (q_chaintx0 b Hk). cbn. tauto.
  - intros p c Hc. destruct (q_unl_sound0 p c Hc) as [H1 [H2 [H3 [H4 [H5 _]]]]]. auto.
  - intros c Hk N Hd Hc. apply q_unl_complete0; auto.
Qed.

Lemma kids_In (l : list (id * id)) x c : In c (map snd (filter (fun e => fst e =? x) l)) <-> In (x, c) l.
Proof.
  rewrite in_map_iff. split.
  - intros [[p c'] [E H]]. cbn in E. subst. apply filter_In in H. destruct H as [H1 H2]. cbn in H2.
    apply Z.eqb_eq in H2. subst. assumption.
  - intros H. exists (x, c). split; [reflexivity|]. apply filter_In. split; [assumption|]. cbn. apply Z.eqb_refl.
Qed.
Lemma kids_NoDup (l : list (id * id)) x : NoDup l -> NoDup (map snd (filter (fun e => fst e =? x) l)).
Proof.
  induction 1 as [|[p c] l Hn Hl IH]; cbn; [constructor|].
  destruct (Z.eqb_spec p x) as [->|N]; cbn; [|assumption].
  constructor; [|assumption]. intros H. apply kids_In in H. contradiction.
Qed.

Section QStep.
Variable s : state.
Variable x : id.
Variable rest : list id.
Hypothesis Q : QInv s (x :: rest).
Let s1 := set_next_seq (set_seq (set_chaintx s (upd (st_chaintx s) x true)) (upd (st_seq s) x (st_next_seq s))) (st_next_seq s + 1).
Let s2 := try_add_candidate s1 x.
Let kids := map snd (filter (fun e => fst e =? x) (st_unlinked s2)).
Let s3 := set_unlinked s2 (filter (fun e => negb (fst e =? x)) (st_unlinked s2)).

Lemma qs_x : known s x = true /\ x <> GENESIS /\ st_data s x = true /\ st_chaintx s x = false /\ st_chaintx s (parent_of x) = true.
Proof. apply (q_members _ _ Q). left. reflexivity. Qed.

Lemma qs_fields : st_index s3 = st_index s /\ st_data s3 = st_data s /\ st_failed s3 = st_failed s /\ st_tip s3 = st_tip s /\
  st_chaintx s3 = upd (st_chaintx s) x true /\ st_seq s3 = upd (st_seq s) x (st_next_seq s) /\
  st_next_seq s3 = st_next_seq s + 1 /\ st_unlinked s2 = st_unlinked s.
Proof. unfold s3, s2, try_add_candidate. destruct (worse s1 x (st_tip s1)); repeat split. Qed.

Lemma qs_known y : known s3 y = known s y.
Proof. unfold known. destruct qs_fields as [-> _]. reflexivity. Qed.
Lemma qs_path y : path s3 y = path s y.
Proof. unfold path. destruct qs_fields as [-> _]. reflexivity. Qed.
Lemma qs_worse a c : a <> x -> c <> x -> worse s3 a c = worse s a c.
Proof.
  intros Na Nc. unfold worse, work. destruct qs_fields as [-> [_ [_ [_ [_ [-> _]]]]]].
  rewrite !upd_other by assumption. reflexivity.
Qed.
Lemma qs_cands : st_cands s3 = if worse s1 x (st_tip s) then st_cands s else cand_insert x (st_cands s).
Proof. unfold s3, s2, try_add_candidate. change (st_tip s1) with (st_tip s). destruct (worse s1 x (st_tip s)); reflexivity. Qed.
Lemma qs_worse_s1 a c : worse s3 a c = worse s1 a c.
Proof. unfold s3, s2, try_add_candidate. destruct (worse s1 x (st_tip s1)); reflexivity. Qed.

Lemma qs_tip_neq : st_tip s <> x.
Proof.
  intros E. destruct qs_x as [_ [_ [_ [Hc _]]]].
  destruct (q_chain _ _ Q (st_tip s)) as [_ [H _]].
  - eapply path_self; eauto using q_wf, q_tip_known.
  - rewrite E in H. congruence.
Qed.

Lemma qs_kid c : In c kids <-> In (x, c) (st_unlinked s).
Proof. unfold kids. destruct qs_fields as [_ [_ [_ [_ [_ [_ [_ ->]]]]]]]. apply kids_In. Qed.

Lemma qs_step : QInv s3 (rest ++ kids).
Proof.
  pose proof qs_x as [Hkx [Ngx [Hdx [Hcx Hpx]]]]. pose proof qs_fields as [Fi [Fd [Ff [Ft [Fc [Fs [Fn Fu]]]]]]].
  pose proof (q_wf _ _ Q) as Hwf. pose proof (q_nodup _ _ Q) as Hnd. inversion Hnd as [|? ? Hxr Hndr]; subst.
  assert (Npx : parent_of x <> x) by (eapply parent_neq; eauto).
  assert (Hkid_par : forall c, In c kids -> parent_of c = x /\ known s c = true /\ c <> GENESIS /\ st_data s c = true /\
                                           st_chaintx s c = false /\ ~ In c (x :: rest)).
  { intros c Hc. apply qs_kid in Hc. destruct (q_unl_sound _ _ Q _ _ Hc) as [H1 [H2 [H3 [H4 [H5 [H6 _]]]]]]. repeat split; auto. }
  assert (Hxk : ~ In x kids). { intros H. destruct (Hkid_par _ H) as [E _]. congruence. }
  constructor.
  - rewrite Fi. assumption.
  - rewrite qs_known, Ft. apply (q_tip_known _ _ Q).
  - rewrite Ft, qs_path, Fd, Ff, Fc. intros y Hy. destruct (q_chain _ _ Q y Hy) as [H1 [H2 [H3 H4]]].
    repeat split; try assumption. unfold upd. destruct (y =? x); [reflexivity|assumption].
  - intros b. rewrite qs_known, Ff. apply (q_failed_closed _ _ Q).
  - intros b. rewrite qs_known, Fd, Fc. intros Hk. destruct (Z.eq_dec b x) as [->|N].
    + rewrite upd_same, upd_other by assumption. split; [intros _|reflexivity]. split; [auto|].
      intros H. apply in_app_or in H. destruct H; contradiction.
    + rewrite upd_other by assumption.
      destruct (Z.eq_dec b GENESIS) as [->|Ng].
      * rewrite (q_chaintx _ _ Q _ Hk). split; intros [[H1 H2] H3]; (split; [split; [assumption|left; reflexivity]|]).
        -- intros H. apply in_app_or in H. destruct H as [H|H]; [apply H3; right; assumption|].
           destruct (Hkid_par _ H) as [_ [_ [H' _]]]. congruence.
        -- intros [E|E]; [congruence|]. apply H3. apply in_or_app. auto.
      * destruct (Z.eq_dec (parent_of b) x) as [Ep|Np].
        -- rewrite Ep, upd_same.
           assert (Hcb : st_chaintx s b = false).
           { destruct (st_chaintx s b) eqn:E; [|reflexivity]. apply (q_chaintx _ _ Q _ Hk) in E.
             destruct E as [[_ [E|E]] _]; [contradiction|]. rewrite Ep in E. congruence. }
           rewrite Hcb. split; [discriminate|]. intros [[Hd _] Hnq]. exfalso. apply Hnq. apply in_or_app.
           destruct (in_dec Z.eq_dec b (x :: rest)) as [Hin|Hnin].
           ++ destruct Hin as [E|Hin]; [congruence|]. left. assumption.
           ++ right. apply qs_kid. rewrite <- Ep. apply (q_unl_complete _ _ Q); assumption.
        -- rewrite upd_other by assumption. rewrite (q_chaintx _ _ Q _ Hk).
           split; intros [[H1 H2] H3]; (split; [split; assumption|]).
           ++ intros H. apply in_app_or in H. destruct H as [H|H]; [apply H3; right; assumption|].
              destruct (Hkid_par _ H) as [E _]. contradiction.
           ++ intros [E|E]; [congruence|]. apply H3. apply in_or_app. auto.
  - rewrite qs_cands. destruct (worse s1 x (st_tip s)); [apply (q_cands_nodup _ _ Q)|apply cand_insert_NoDup; apply (q_cands_nodup _ _ Q)].
  - intros c Hc. rewrite qs_known, Fc, Ft. rewrite qs_cands in Hc.
    assert (Hold : In c (st_cands s) -> known s c = true /\ upd (st_chaintx s) x true c = true /\ worse s3 c (st_tip s) = false).
    { intros H. destruct (q_cands _ _ Q _ H) as [H1 [H2 H3]]. split; [assumption|].
      assert (c <> x) by (intros ->; congruence). rewrite upd_other by assumption. split; [assumption|].
      rewrite qs_worse; auto using qs_tip_neq. }
    destruct (worse s1 x (st_tip s)) eqn:E; [auto|].
    apply cand_insert_In in Hc. destruct Hc as [->|Hc]; [|auto].
    rewrite upd_same, qs_worse_s1. auto.
  - unfold s3. ssimpl. apply NoDup_filter. rewrite Fu. apply (q_unl_nodup _ _ Q).
  - intros p c Hc. unfold s3 in Hc. ssimpl. apply filter_In in Hc. destruct Hc as [Hc Hpx']. rewrite Fu in Hc.
    cbn in Hpx'. destruct (q_unl_sound _ _ Q _ _ Hc) as [H1 [H2 [H3 [H4 [H5 [H6 H7]]]]]].
    rewrite qs_known, Fd, Fc. subst p.
    assert (Ncx : c <> x) by (intros ->; apply H6; left; reflexivity).
    assert (Npc : parent_of c <> x) by (destruct (Z.eqb_spec (parent_of c) x); [discriminate|assumption]).
    rewrite !upd_other by assumption. repeat split; try assumption.
    intros H. apply in_app_or in H. destruct H as [H|H]; [apply H6; right; assumption|].
    destruct (Hkid_par _ H) as [E _]. contradiction.
  - intros c. rewrite qs_known, Fd, Fc. intros Hk Ng Hd Hc Hnq.
    assert (Ncx : c <> x) by (intros ->; rewrite upd_same in Hc; discriminate).
    rewrite upd_other in Hc by assumption.
    assert (Hnq' : ~ In c (x :: rest)). { intros [E|E]; [congruence|]. apply Hnq. apply in_or_app. auto. }
    pose proof (q_unl_complete _ _ Q _ Hk Ng Hd Hc Hnq') as Hin.
    unfold s3. ssimpl. apply filter_In. rewrite Fu. split; [assumption|]. cbn.
    destruct (Z.eqb_spec (parent_of c) x) as [E|_]; [|reflexivity].
    exfalso. apply Hnq. apply in_or_app. right. apply qs_kid. rewrite <- E. assumption.
  - intros y Hy. rewrite qs_known, Fd, Fc. apply in_app_or in Hy. destruct Hy as [Hy|Hy].
    + destruct (q_members _ _ Q y (or_intror Hy)) as [H1 [H2 [H3 [H4 H5]]]].
      assert (y <> x) by (intros ->; contradiction). rewrite upd_other by assumption.
      repeat split; try assumption. unfold upd. destruct (parent_of y =? x); [reflexivity|assumption].
    + destruct (Hkid_par _ Hy) as [E [H1 [H2 [H3 [H4 H5]]]]].
      assert (y <> x) by (intros ->; apply H5; left; reflexivity). rewrite upd_other by assumption.
      rewrite E, upd_same. auto.
  - apply NoDup_app_intro; try assumption.
    + unfold kids. apply kids_NoDup. rewrite Fu. apply (q_unl_nodup _ _ Q).
    + intros y Hy Hy'. destruct (Hkid_par _ Hy') as [_ [_ [_ [_ [_ H6]]]]]. apply H6. right. assumption.
  - intros b. rewrite qs_known, Fc, Fs, Fn. intros Hk Hc.
    assert (HG : CHAINSEL_SEQ_ID_INIT_FROM_DISK < st_next_seq s).
    { pose proof (q_tip_known _ _ Q) as Hkt.
      destruct (q_chain _ _ Q GENESIS) as [_ [HcG _]]; [eapply genesis_in_path; eauto|].
      assert (known s GENESIS = true) by (eapply known_genesis; eauto).
      pose proof (q_seq_range _ _ Q _ H HcG). lia. }
    destruct (Z.eq_dec b x) as [->|N]; [rewrite upd_same; lia|].
    rewrite upd_other in Hc by assumption. rewrite upd_other by assumption. pose proof (q_seq_range _ _ Q _ Hk Hc). lia.
  - intros a b. rewrite !qs_known, Fc, Fs. intros Ha Hb Hca Hcb.
    destruct (Z.eq_dec a x) as [->|Na]; destruct (Z.eq_dec b x) as [->|Nb]; [reflexivity| | |].
    + rewrite upd_same, upd_other by assumption. rewrite upd_other in Hcb by assumption.
      pose proof (q_seq_range _ _ Q _ Hb Hcb). lia.
    + rewrite upd_same, upd_other by assumption. rewrite upd_other in Hca by assumption.
      pose proof (q_seq_range _ _ Q _ Ha Hca). lia.
    + rewrite upd_other in Hca by assumption. rewrite upd_other in Hcb by assumption. rewrite !upd_other by assumption.
      apply (q_seq_inj _ _ Q); assumption.
  - intros b. rewrite qs_known, Fd. apply (q_data_kind _ _ Q).
  - intros b [Hk [Hc Hf]] Hw. rewrite qs_known in Hk. rewrite Fc in Hc. rewrite Ff in Hf. rewrite Ft in Hw.
    rewrite qs_cands. destruct (Z.eq_dec b x) as [->|N].
    + rewrite qs_worse_s1 in Hw. rewrite Hw. apply cand_insert_In. auto.
    + rewrite upd_other in Hc by assumption. rewrite qs_worse in Hw; auto using qs_tip_neq.
      assert (In b (st_cands s)) by (apply (q_complete _ _ Q); [repeat split; assumption|assumption]).
      destruct (worse s1 x (st_tip s)); [assumption|apply cand_insert_In; auto].
Qed.
Lemma qs_len : (length (rest ++ kids) + length (st_unlinked s3) = length rest + length (st_unlinked s))%nat.
Proof.
  pose proof qs_fields as [_ [_ [_ [_ [_ [_ [_ Fu]]]]]]].
  unfold kids, s3. ssimpl. rewrite app_length, map_length.
  pose proof (filter_length_split (fun e : id * id => fst e =? x) (st_unlinked s2)) as HL.
  rewrite Fu in *. rewrite <- HL, Nat.add_assoc. reflexivity.
Qed.
End QStep.

(* 1 + |m_blocks_unlinked| iterations are enough *)
Lemma rbt_queue_inv fuel : forall s q, QInv s q -> (length q + length (st_unlinked s) <= fuel)%nat ->
  Inv (rbt_queue s q fuel) /\ complete (rbt_queue s q fuel).
Proof.
  induction fuel as [|f IH]; intros s q Q Hlen.
  - destruct q; [|cbn in Hlen; lia]. cbn. apply qinv_done. assumption.
  - destruct q as [|x rest]; [cbn; apply qinv_done; assumption|].
    cbn [rbt_queue]. apply IH.
    + apply qs_step. assumption.
    + pose proof (qs_len s x rest Q) as HL. cbv zeta in HL. cbv zeta. cbn [length] in Hlen. lia.
Qed.

End Deliver.
