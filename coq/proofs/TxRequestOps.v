(* Tracker-level procedures of model/TxRequest.v related to their effect on the index list (proofs/TxRequestInv.v),
   with the per-peer statistics staying exact (WF). *)
From BV Require Import lib.Ints model.TxRequest proofs.TxRequestBasics proofs.TxRequestInv.
From Coq Require Import Sorting.Sorted.
Local Open Scope Z_scope.

(* what a procedure keeps: t_seq, and WF *)
Definition keeps (t t' : tracker) : Prop := t_seq t' = t_seq t /\ WF t'.

Lemma modify_state_spec t p h st it :
  WF t -> find_ann p h (t_index t) = Some it ->
  t_index (modify_state t p h st) = set_st p h st (t_index t) /\ keeps t (modify_state t p h st).
Proof.
  intros W F. unfold modify_state, set_st, keeps.
  destruct (modify_spec t p h (fun a => with_state a st) it W F (keeps_key_with_state st)) as [A [B C]]. auto.
Qed.

(* Erase over a set of peers of one txhash *)
Lemma find_del_ann_other p h l p' h' : (p', h') <> (p, h) -> find_ann p' h' (del_ann p h l) = find_ann p' h' l.
Proof.
  intros N. unfold find_ann, del_ann. induction l as [|x l IH]; [reflexivity|]. cbn [filter find].
  destruct (is_key p h x) eqn:E; cbn [negb].
  - assert (E1 : is_key p' h' x = false).
    { destruct (is_key p' h' x) eqn:E1; [|reflexivity]. apply is_key_true in E, E1. exfalso. apply N. destruct E, E1. congruence. }
    rewrite E1. exact IH.
  - cbn [find]. destruct (is_key p' h' x); [reflexivity|exact IH].
Qed.

Lemma filter_all_true (P : ann -> bool) l : (forall a, In a l -> P a = true) -> filter P l = l.
Proof.
  induction l as [|x l IH]; intros H; [reflexivity|]. cbn [filter]. rewrite (H x) by (left; auto).
  f_equal. apply IH. intros a Ha. apply H. right. auto.
Qed.

Lemma filter_filter_and (P Q : ann -> bool) l : filter P (filter Q l) = filter (fun a => Q a && P a) l.
Proof. induction l as [|x l IH]; [reflexivity|]. cbn [filter]. destruct (Q x); cbn [filter andb]; rewrite IH; reflexivity. Qed.

Lemma erase_fold_spec h : forall (ks : list ann) (t : tracker),
  WF t -> NoDup (map a_peer ks) ->
  (forall a, In a ks -> find_ann (a_peer a) h (t_index t) <> None) ->
  let t' := fold_left (fun t' a => erase t' (a_peer a) h) ks t in
  t_index t' = filter (fun b => negb (has_txhash h b && existsb (fun a => a_peer a =? a_peer b) ks)) (t_index t)
  /\ keeps t t'.
Proof.
  induction ks as [|k ks IH]; intros t W ND Hf; cbn [fold_left].
  - split; [|split; auto]. cbn [existsb]. symmetry. apply filter_all_true. intros a _. rewrite andb_false_r. reflexivity.
  - destruct (find_ann (a_peer k) h (t_index t)) as [it|] eqn:F; [|exfalso; apply (Hf k); [left; auto|exact F]].
    destruct (erase_spec t (a_peer k) h it W F) as [I1 [S1 W1]].
    inversion ND as [|? ? Hnk ND']. subst.
    assert (Hf' : forall a, In a ks -> find_ann (a_peer a) h (t_index (erase t (a_peer k) h)) <> None).
    { intros a Ha. rewrite I1, find_del_ann_other.
      - apply Hf. right. auto.
      - intros E. inversion E. apply Hnk. rewrite <- H0. apply in_map. exact Ha. }
    destruct (IH (erase t (a_peer k) h) W1 ND' Hf') as [I2 [S2 W2]].
    split; [|unfold keeps in *; intuition congruence].
    rewrite I2, I1. unfold del_ann. rewrite filter_filter_and. apply filter_ext. intros b.
    cbn [existsb]. unfold is_key, has_txhash.
    rewrite (Z.eqb_sym (a_peer k) (a_peer b)).
    destruct (a_peer b =? a_peer k), (a_txhash b =? h), (existsb (fun a => a_peer a =? a_peer b) ks); reflexivity.
Qed.


Lemma uniq_peers_of_tx h l : uniq l -> NoDup (map a_peer (filter (has_txhash h) l)).
Proof.
  induction l as [|x l IH]; intros U; [constructor|]. apply uniq_cons in U. destruct U as [Hn U]. cbn [filter].
  destruct (has_txhash h x) eqn:E; [|auto]. cbn [map]. constructor; [|auto].
  intros Hin. apply in_map_iff in Hin. destruct Hin as [y [Hy Hin]]. apply filter_In in Hin. destruct Hin as [Hin Ey].
  apply Hn. apply in_map_iff. exists y. split; auto. unfold key. apply has_txhash_true in E, Ey. congruence.
Qed.
Lemma uniq_txs_of_peer p l : uniq l -> NoDup (map a_txhash (filter (has_peer p) l)).
Proof.
  induction l as [|x l IH]; intros U; [constructor|]. apply uniq_cons in U. destruct U as [Hn U]. cbn [filter].
  destruct (has_peer p x) eqn:E; [|auto]. cbn [map]. constructor; [|auto].
  intros Hin. apply in_map_iff in Hin. destruct Hin as [y [Hy Hin]]. apply filter_In in Hin. destruct Hin as [Hin Ey].
  apply Hn. apply in_map_iff. exists y. split; auto. unfold key. apply has_peer_true in E, Ey. congruence.
Qed.

Lemma erase_txhash_spec t h : WF t ->
  t_index (erase_txhash t h) = drop_tx h (t_index t) /\ keeps t (erase_txhash t h).
Proof.
  intros W. pose proof (wf_uniq _ W) as U. unfold erase_txhash.
  destruct (erase_fold_spec h (filter (has_txhash h) (t_index t)) t W) as [I K].
  - apply uniq_peers_of_tx; auto.
  - intros a Ha. apply filter_In in Ha. destruct Ha as [Ha E]. apply has_txhash_true in E.
    rewrite <- E. rewrite find_ann_in; auto. discriminate.
  - split; [|exact K]. rewrite I. unfold drop_tx. apply filter_ext_in. intros b Hb.
    destruct (has_txhash h b) eqn:E; [|reflexivity]. cbn [andb]. f_equal.
    apply existsb_exists. exists b. split; [apply filter_In; auto | apply Z.eqb_refl].
Qed.

(* ---------- identity of announcements along a run ---------- *)
Definition ident (a : ann) : Z * bool * Z * Z * bool := (a_txhash a, a_wtxid a, a_peer a, a_seq a, a_pref a).

Inductive subseq {A : Type} : list A -> list A -> Prop :=
| ss_nil : subseq [] []
| ss_keep x l l' : subseq l l' -> subseq (x :: l) (x :: l')
| ss_skip x l l' : subseq l l' -> subseq l (x :: l').

Lemma subseq_refl {A} (l : list A) : subseq l l.
Proof. induction l; constructor; auto. Qed.
Lemma subseq_nil_l {A} (l : list A) : subseq [] l.
Proof. induction l; constructor; auto. Qed.
Lemma subseq_trans {A} (l1 l2 l3 : list A) : subseq l1 l2 -> subseq l2 l3 -> subseq l1 l3.
Proof.
  intros H12 H23. revert l1 H12. induction H23; intros l1 H12.
  - exact H12.
  - inversion H12; subst; [constructor; auto | apply ss_skip; auto].
  - apply ss_skip. auto.
Qed.
Lemma subseq_map {A B} (f : A -> B) l l' : subseq l l' -> subseq (map f l) (map f l').
Proof. induction 1; simpl; constructor; auto. Qed.
Lemma subseq_filter {A} (P : A -> bool) l : subseq (filter P l) l.
Proof. induction l as [|x l IH]; simpl; [constructor|]. destruct (P x); constructor; auto. Qed.
Lemma subseq_in {A} (l l' : list A) x : subseq l l' -> In x l -> In x l'.
Proof. induction 1; simpl; intros H'; auto. destruct H'; auto. Qed.
Lemma subseq_Forall {A} (P : A -> Prop) l l' : subseq l l' -> Forall P l' -> Forall P l.
Proof. intros S F. apply Forall_forall. intros x Hx. rewrite Forall_forall in F. apply F. eapply subseq_in; eauto. Qed.
Lemma subseq_sorted {A} (R : A -> A -> Prop) l l' : subseq l l' -> StronglySorted R l' -> StronglySorted R l.
Proof.
  induction 1; intros S; auto.
  - inversion S; subst. constructor; auto. eapply subseq_Forall; eauto.
  - inversion S; subst. auto.
Qed.
Lemma subseq_app_r {A} (l l' t : list A) : subseq l l' -> subseq (l ++ t) (l' ++ t).
Proof. induction 1; simpl; try constructor; auto. apply subseq_refl. Qed.

Definition evolves (l l' : list ann) : Prop := subseq (map ident l') (map ident l).
Lemma evolves_refl l : evolves l l.
Proof. apply subseq_refl. Qed.
Lemma evolves_trans l1 l2 l3 : evolves l1 l2 -> evolves l2 l3 -> evolves l1 l3.
Proof. unfold evolves. intros A B. eapply subseq_trans; eauto. Qed.
Definition keeps_ident (f : ann -> ann) : Prop := forall a, ident (f a) = ident a.
Lemma evolves_set_ann p h f l : keeps_ident f -> evolves l (set_ann p h f l).
Proof.
  intros K. unfold evolves, set_ann. rewrite map_map.
  rewrite (map_ext (fun x => ident (if is_key p h x then f x else x)) ident); [apply subseq_refl|].
  intros a. destruct (is_key p h a); auto.
Qed.
Lemma evolves_set_st p h st l : evolves l (set_st p h st l).
Proof. apply evolves_set_ann. intros a. reflexivity. Qed.
Lemma evolves_filter P l : evolves l (filter P l).
Proof. unfold evolves. apply subseq_map. apply subseq_filter. Qed.
Lemma evolves_promote_shape l p h it l' : promote_shape l p h it l' -> evolves l l'.
Proof.
  intros []; [apply evolves_set_st|]. eapply evolves_trans; [apply evolves_set_st|apply evolves_set_st].
Qed.
Lemma evolves_car_shape l p h ns l' : car_shape l p h ns l' -> evolves l l'.
Proof.
  intros []; [apply evolves_set_st|]. eapply evolves_trans; [apply evolves_set_st|apply evolves_set_st].
Qed.

Definition seq_ok (n : Z) (l : list ann) : Prop :=
  StronglySorted Z.lt (map a_seq l) /\ Forall (fun s => 0 <= s < n) (map a_seq l).
Lemma seq_ok_evolves n l l' : evolves l l' -> seq_ok n l -> seq_ok n l'.
Proof.
  unfold evolves. intros E [S F].
  assert (X : forall l0, map a_seq l0 = map (fun i : Z * bool * Z * Z * bool => snd (fst i)) (map ident l0)).
  { intros l0. rewrite map_map. reflexivity. }
  assert (SS : subseq (map a_seq l') (map a_seq l)) by (rewrite !X; apply subseq_map; auto).
  split; [eapply subseq_sorted; eauto | eapply subseq_Forall; eauto].
Qed.


Section Ops.
Variable prio : Z -> Z -> bool -> Z.
Notation prio_of := (prio_of prio).

Lemma promote_spec t p h it :
  WF t -> find_ann p h (t_index t) = Some it -> a_state it = CANDIDATE_DELAYED ->
  t_index (promote_candidate_ready prio t p h) = promote_l prio (t_index t) p h it /\
  keeps t (promote_candidate_ready prio t p h).
Proof.
  intros W F D. unfold promote_candidate_ready. rewrite F.
  assert (SD : st_is CANDIDATE_DELAYED it = true) by (apply st_is_eq; auto). rewrite SD. cbn [negb].
  destruct (modify_state_spec t p h CANDIDATE_READY it W F) as [I1 [S1 W1]].
  set (t1 := modify_state t p h CANDIDATE_READY) in *.
  pose proof (wf_uniq _ W) as U. pose proof (wf_uniq _ W1) as U1.
  assert (F1 : find_ann p h (t_index t1) = Some (with_state it CANDIDATE_READY)).
  { rewrite I1. apply find_set_st_same; auto. }
  unfold promote_l. rewrite <- I1.
  pose proof (next_after_ready_cases prio (t_index t1) p h (prio_of it)) as C.
  destruct (next_after_ready prio (t_index t1) p h (prio_of it)) as [| |b| |].
  - destruct (modify_state_spec t1 p h CANDIDATE_BEST _ W1 F1) as [I2 [S2 W2]].
    split; [exact I2|]. unfold keeps in *; intuition congruence.
  - split; [reflexivity|]. split; auto.
  - destruct C as [_ [Hb [Ob Sb]]]. apply other_of_true in Ob. destruct Ob as [Hbh Hbp].
    destruct (prio_of b <? prio_of it).
    + assert (Fb : find_ann (a_peer b) h (t_index t1) = Some b) by (rewrite <- Hbh; apply find_ann_in; auto).
      destruct (modify_state_spec t1 (a_peer b) h CANDIDATE_READY b W1 Fb) as [I2 [S2 W2]].
      set (t2 := modify_state t1 (a_peer b) h CANDIDATE_READY) in *.
      assert (F2 : find_ann p h (t_index t2) = Some (with_state it CANDIDATE_READY)).
      { rewrite I2, find_set_st_other; auto. intros E. inversion E. congruence. }
      destruct (modify_state_spec t2 p h CANDIDATE_BEST _ W2 F2) as [I3 [S3 W3]].
      split; [rewrite I3, I2; reflexivity|]. unfold keeps in *; intuition congruence.
    + split; [reflexivity|]. split; auto.
  - split; [reflexivity|]. split; auto.
  - destruct (modify_state_spec t1 p h CANDIDATE_BEST _ W1 F1) as [I2 [S2 W2]].
    split; [exact I2|]. unfold keeps in *; intuition congruence.
Qed.

Lemma car_spec t p h it ns :
  WF t -> find_ann p h (t_index t) = Some it ->
  t_index (change_and_reselect prio t p h ns) = car_l prio (t_index t) p h it ns /\
  keeps t (change_and_reselect prio t p h ns).
Proof.
  intros W F. unfold change_and_reselect, car_l. rewrite F.
  pose proof (wf_uniq _ W) as U. destruct (find_ann_some _ _ _ _ F) as [Hin [Hp Hh]].
  destruct (is_selected it) eqn:Sel.
  - pose proof (prev_ready_cases prio (t_index t) it) as C. rewrite Hh in C.
    destruct (prev_ready_of_selected prio (t_index t) it) as [r|].
    + destruct C as [Hr [Hrh [Sr _]]].
      assert (Fr : find_ann (a_peer r) h (t_index t) = Some r) by (rewrite <- Hrh; apply find_ann_in; auto).
      assert (Npr : a_peer r <> p).
      { intros E. assert (r = it) by (apply (uniq_same_key (t_index t)); auto; unfold key; congruence). subst r.
        unfold is_selected, st_is in Sel. rewrite Sr in Sel. discriminate. }
      destruct (modify_state_spec t (a_peer r) h CANDIDATE_BEST r W Fr) as [I1 [S1 W1]].
      set (t1 := modify_state t (a_peer r) h CANDIDATE_BEST) in *.
      assert (F1 : find_ann p h (t_index t1) = Some it).
      { rewrite I1, find_set_st_other; auto. intros E. inversion E. congruence. }
      destruct (modify_state_spec t1 p h ns it W1 F1) as [I2 [S2 W2]].
      split; [rewrite I2, I1; reflexivity|]. unfold keeps in *; intuition congruence.
    + destruct (modify_state_spec t p h ns it W F) as [I2 [S2 W2]]. split; [exact I2|]. split; auto.
  - destruct (modify_state_spec t p h ns it W F) as [I2 [S2 W2]]. split; [exact I2|]. split; auto.
Qed.


Lemma mc_spec t p h it :
  WF t -> find_ann p h (t_index t) = Some it ->
  t_index (fst (make_completed prio t p h)) = mc_l prio (t_index t) p h it /\
  keeps t (fst (make_completed prio t p h)) /\
  snd (make_completed prio t p h) = negb (negb (st_is COMPLETED it) && is_only_non_completed (t_index t) p h).
Proof.
  intros W F. unfold make_completed, mc_l. rewrite F.
  destruct (st_is COMPLETED it) eqn:E; cbn [fst snd negb andb].
  - split; [reflexivity|]. split; [split; auto|reflexivity].
  - destruct (is_only_non_completed (t_index t) p h) eqn:O; cbn [fst snd negb].
    + destruct (erase_txhash_spec t h W) as [I K]. auto.
    + destruct (car_spec t p h it COMPLETED W F) as [I K]. auto.
Qed.

(* ---------- the invariant ---------- *)
Record Inv (t : tracker) : Prop := mkInv {
  inv_wf : WF t;
  inv_sched : sched_ok prio (t_index t);
  inv_seq : seq_ok (t_seq t) (t_index t) }.

Lemma evolves_mc_l l p h it : uniq l -> find_ann p h l = Some it -> evolves l (mc_l prio l p h it).
Proof.
  intros U F. unfold mc_l. destruct (st_is COMPLETED it); [apply evolves_refl|].
  destruct (is_only_non_completed l p h); [apply evolves_filter|].
  eapply evolves_car_shape. apply car_l_shape; eauto.
Qed.

Lemma promote_inv t p h it :
  Inv t -> find_ann p h (t_index t) = Some it -> a_state it = CANDIDATE_DELAYED ->
  Inv (promote_candidate_ready prio t p h).
Proof.
  intros [W S Q] F D. destruct (promote_spec t p h it W F D) as [I [E W']].
  pose proof (wf_uniq _ W) as U.
  constructor; auto.
  - rewrite I. apply promote_sched; auto.
  - rewrite I, E. eapply seq_ok_evolves; [|exact Q]. eapply evolves_promote_shape. apply promote_l_shape; eauto.
Qed.

Lemma mc_inv t p h it :
  Inv t -> find_ann p h (t_index t) = Some it -> Inv (fst (make_completed prio t p h)).
Proof.
  intros [W S Q] F. destruct (mc_spec t p h it W F) as [I [[E W'] _]].
  pose proof (wf_uniq _ W) as U.
  constructor; auto.
  - rewrite I. apply mc_sched; auto.
  - rewrite I, E. eapply seq_ok_evolves; [|exact Q]. apply evolves_mc_l; auto.
Qed.

Lemma car_delayed_inv t p h it :
  Inv t -> find_ann p h (t_index t) = Some it -> a_state it <> COMPLETED ->
  Inv (change_and_reselect prio t p h CANDIDATE_DELAYED).
Proof.
  intros [W S Q] F NC. destruct (car_spec t p h it CANDIDATE_DELAYED W F) as [I [E W']].
  pose proof (wf_uniq _ W) as U.
  constructor; auto.
  - rewrite I. apply car_sched; auto.
  - rewrite I, E. eapply seq_ok_evolves; [|exact Q]. eapply evolves_car_shape. apply car_l_shape; eauto.
Qed.

End Ops.
