(* ChainSel: AcceptBlockHeader, ReceivedBlockTransactions and AcceptBlock preserve the invariant. *)
From BV Require Import lib.Ints gen.Params_gen model.ChainSel proofs.ChainSelBase proofs.ChainSelFrame proofs.ChainSelInv
  proofs.ChainSelDeliver.
Local Open Scope Z_scope.
#[local] Arguments Z.eqb : simpl never.
#[local] Arguments Z.ltb : simpl never.
#[local] Arguments Z.gtb : simpl never.
#[local] Arguments Z.geb : simpl never.
#[local] Arguments Z.leb : simpl never.
#[local] Arguments Z.add : simpl never.
#[local] Arguments Z.sub : simpl never.

Ltac csplit := try unfold eligible; repeat match goal with |- _ /\ _ => refine (conj _ _) | |- _ -> (_ /\ _) => intro end.

Section Accept.
Variable parent_of : id -> id.
Variable proof_of : id -> Z.
Variable kind_of : id -> kind.
Hypothesis proof_pos : forall b, 0 < proof_of b.
Set Default Proof Using "All".

Notation Inv := (Inv parent_of proof_of kind_of).
Notation Good := (Good parent_of proof_of kind_of).
Notation QInv := (QInv parent_of proof_of kind_of).

(* ---------------------------------------------------------------------------------------------- *)
(* AcceptBlockHeader *)
Lemma accept_header_spec s b : Inv s -> complete s ->
  let '(s', r) := accept_block_header parent_of proof_of s b in
  Inv s' /\ complete s' /\ st_cands s' = st_cands s /\ st_tip s' = st_tip s /\
  (r <> HOk -> s' = s) /\
  (r = HOk -> known s' b = true /\ st_failed s' b = false /\
              (known s b = true -> s' = s) /\
              (known s b = false -> s' = add_to_block_index parent_of proof_of s b /\ b <> GENESIS /\
                                    known s (parent_of b) = true /\ st_failed s (parent_of b) = false)).
Proof.
  intros HI HC. unfold accept_block_header.
  destruct (Z.eqb_spec b GENESIS) as [->|Ng].
  { pose proof (iknown_genesis _ _ _ proof_pos _ HI) as HkG. csplit; try assumption; try congruence.
    destruct (i_chain _ _ _ _ HI GENESIS) as [_ [_ [Hfg _]]]; [|assumption].
    apply (igenesis_in_path _ _ _ proof_pos _ HI). apply (i_tip_known _ _ _ _ HI). }
  destruct (known s b) eqn:Hk.
  { destruct (st_failed s b) eqn:Hf; csplit; try assumption; try congruence. }
  destruct (known s (parent_of b)) eqn:Hkp; cbn [negb].
  2:{ csplit; try assumption; congruence. }
  destruct (st_failed s (parent_of b)) eqn:Hfp.
  { csplit; try assumption; congruence. }
  pose proof (add_inv _ _ _ proof_pos s b HI Hk Hkp Ng Hfp) as HI'.
  csplit; try assumption; try reflexivity; try congruence.
  - intros x [Hkx [Hcx Hfx]] Hw.
    assert (Nx : x <> b).
    { intros ->. destruct (add_flags_self _ _ _ proof_pos s b HI Hk Hkp Ng Hfp) as [_ [_ E]]. congruence. }
    rewrite (add_known_other _ _ _ proof_pos s b HI Hk Hkp Ng Hfp) in Hkx by assumption.
    destruct (add_flags_other _ _ _ proof_pos s b HI Hk Hkp Ng Hfp x Nx) as [_ [Ef [Ec _]]]. rewrite Ef in Hfx. rewrite Ec in Hcx.
    assert (Nt : st_tip s <> b) by (intros E; rewrite <- E in Hk; rewrite (i_tip_known _ _ _ _ HI) in Hk; discriminate).
    change (st_tip (add_to_block_index parent_of proof_of s b)) with (st_tip s) in Hw.
    rewrite (add_worse_other _ _ _ proof_pos s b HI Hk Hkp Ng Hfp) in Hw by assumption.
    apply HC; [csplit; assumption|assumption].
  - apply (add_known_self _ _ _ proof_pos s b HI Hk Hkp Ng Hfp).
  - apply (add_flags_self _ _ _ proof_pos s b HI Hk Hkp Ng Hfp).
Qed.

(* ---------------------------------------------------------------------------------------------- *)
(* ReceivedBlockTransactions *)
Section RBT.
Variable s : state.
Variable b : id.
Hypothesis HI : Inv s.
Hypothesis HC : complete s.
Hypothesis Hk : known s b = true.
Hypothesis Hng : b <> GENESIS.
Hypothesis Hd : st_data s b = false.
Hypothesis Hf : st_failed s b = false.
Hypothesis Hkind : kind_of b = KValid \/ kind_of b = KBadConnect.
Let s1 := set_data s (upd (st_data s) b true).

Lemma rbt_not_chaintx : st_chaintx s b = false.
Proof.
  destruct (st_chaintx s b) eqn:E; [|reflexivity]. apply (i_chaintx _ _ _ _ HI _ Hk) in E. destruct E as [E _]. congruence.
Qed.
Lemma rbt_parent : known s (parent_of b) = true /\ st_failed s (parent_of b) = false.
Proof.
  destruct (ipath_unfold _ _ _ proof_pos _ HI _ Hk Hng) as [Hkp _]. split; [assumption|].
  destruct (st_failed s (parent_of b)) eqn:E; [|reflexivity].
  pose proof (i_failed_closed _ _ _ _ HI _ Hk Hng E). congruence.
Qed.

Lemma rbt_qinv : st_chaintx s (parent_of b) = true -> QInv s1 [b].
Proof.
  intros Hcp. pose proof rbt_not_chaintx as Hcb. destruct HI. constructor; unfold s1; ssimpl; try assumption.
  - intros x Hx. destruct (i_chain x Hx) as [H1 [H2 [H3 H4]]]. csplit; try assumption.
    unfold upd. destruct (x =? b); [reflexivity|assumption].
  - intros y Hy. destruct (Z.eq_dec y b) as [->|N].
    + rewrite Hcb. split; [discriminate|]. intros [_ H]. exfalso. apply H. left. reflexivity.
    + rewrite upd_other by assumption. rewrite (i_chaintx y Hy). cbn. intuition congruence.
  - intros p c Hc. destruct (i_unl_sound p c Hc) as [H1 [H2 [H3 [H4 H5]]]].
    assert (N : c <> b) by (intros ->; congruence). rewrite upd_other by assumption.
    csplit; try assumption.
    + intros [E|[]]. congruence.
    + destruct (st_chaintx s (parent_of c)) eqn:E; [|reflexivity].
      assert (st_chaintx s c = true) by (apply (i_chaintx c H1); auto). congruence.
  - intros c Hkc Ngc Hdc Hcc Hq. assert (N : c <> b) by (intros ->; apply Hq; left; reflexivity).
    rewrite upd_other in Hdc by assumption. apply i_unl_complete; assumption.
  - intros x [<-|[]]. rewrite upd_same. csplit; try reflexivity; assumption.
  - constructor; [intros []|constructor].
  - intros y Hy. destruct (Z.eq_dec y b) as [->|N]; [intros _; assumption|]. rewrite upd_other by assumption. apply i_data_kind. assumption.
Qed.

Lemma rbt_unlinked_new : ~ In (parent_of b, b) (st_unlinked s).
Proof. intros H. destruct (i_unl_sound _ _ _ _ HI _ _ H) as [_ [_ [_ [E _]]]]. congruence. Qed.

Lemma existsb_pair_false p c l : ~ In (p, c) l -> existsb (pair_eqb (p, c)) l = false.
Proof.
  intros H. destruct (existsb (pair_eqb (p, c)) l) eqn:E; [|reflexivity]. exfalso. apply H.
  apply existsb_exists in E. destruct E as [[p' c'] [Hin Heq]]. unfold pair_eqb in Heq. cbn in Heq.
  apply andb_prop in Heq. destruct Heq as [E1 E2]. apply Z.eqb_eq in E1, E2. subst. assumption.
Qed.

Lemma rbt_spec : Inv (received_block_transactions parent_of s b) /\ complete (received_block_transactions parent_of s b).
Proof.
  unfold received_block_transactions. fold s1.
  destruct (Z.eqb_spec b GENESIS) as [E|_]; [contradiction|]. cbn [orb].
  change (st_chaintx s1 (parent_of b)) with (st_chaintx s (parent_of b)).
  change (st_failed s1 (parent_of b)) with (st_failed s (parent_of b)).
  destruct rbt_parent as [Hkp Hfp]. pose proof rbt_not_chaintx as Hcb.
  destruct (st_chaintx s (parent_of b)) eqn:Hcp.
  - apply (rbt_queue_inv _ _ _ proof_pos); [apply rbt_qinv; assumption|]. cbn. lia.
  - rewrite Hfp. cbn [negb]. unfold add_unlinked.
    change (st_unlinked s1) with (st_unlinked s). rewrite (existsb_pair_false _ _ _ rbt_unlinked_new).
    split.
    + destruct HI. constructor; unfold s1; ssimpl; try assumption.
      * intros x Hx. destruct (i_chain x Hx) as [H1 [H2 [H3 H4]]]. csplit; try assumption.
        unfold upd. destruct (x =? b); [reflexivity|assumption].
      * intros y Hy. destruct (Z.eq_dec y b) as [->|N].
        -- rewrite Hcb, Hcp. split; [discriminate|]. intros [_ [H|H]]; congruence.
        -- rewrite upd_other by assumption. apply i_chaintx. assumption.
      * apply NoDup_app_intro; [assumption|constructor; [intros []|constructor]|].
        intros x Hx [<-|[]]. apply rbt_unlinked_new. assumption.
      * intros p c Hc. apply in_app_or in Hc. destruct Hc as [Hc|[Hc|[]]].
        -- destruct (i_unl_sound p c Hc) as [H1 [H2 [H3 [H4 H5]]]].
           assert (N : c <> b) by (intros ->; congruence). rewrite upd_other by assumption. auto.
        -- injection Hc as <- <-. rewrite upd_same. auto.
      * intros c Hkc Ngc Hdc Hcc. apply in_or_app. destruct (Z.eq_dec c b) as [->|N]; [right; left; reflexivity|].
        left. rewrite upd_other in Hdc by assumption. apply i_unl_complete; assumption.
      * intros y Hy. destruct (Z.eq_dec y b) as [->|N]; [intros _; assumption|]. rewrite upd_other by assumption. apply i_data_kind. assumption.
    + intros x Hx Hw. apply HC; assumption.
Qed.
End RBT.

(* ---------------------------------------------------------------------------------------------- *)
(* AcceptBlock: the result satisfies the invariant and candidate completeness; when nothing was stored
   (or the block was rejected) the tip is still the only candidate *)
Lemma accept_block_spec s b rq : Good s ->
  let '(s1, r) := accept_block parent_of proof_of kind_of s b rq in
  Inv s1 /\ complete s1 /\ (r <> BOkNew -> quiescent s1).
Proof.
  intros [HI [HC HQ]]. unfold accept_block.
  pose proof (accept_header_spec s b HI HC) as HH.
  destruct (accept_block_header parent_of proof_of s b) as [s' hr].
  destruct HH as [HI' [HC' [Ecs [Etip [Hne Hok]]]]].
  assert (HQ' : quiescent s') by (intros c Hc; rewrite Ecs in Hc; rewrite Etip; apply HQ; assumption).
  destruct hr; try (csplit; auto; fail).
  destruct (Hok eq_refl) as [Hk [Hf _]].
  destruct (st_data s' b) eqn:Hd; [csplit; auto|].
  cbn [orb].
  destruct (negb rq && (negb (work s' b >=? work s' (st_tip s')) || (height s' b >? height s' (st_tip s') + CHAINSEL_MIN_BLOCKS_TO_KEEP) || (work s' b <? st_min_work s'))) eqn:Edrop;
    [csplit; auto|].
  assert (Ng : b <> GENESIS).
  { intros ->. destruct (i_chain _ _ _ _ HI' GENESIS) as [H _]; [|congruence].
    apply (igenesis_in_path _ _ _ proof_pos _ HI'). apply (i_tip_known _ _ _ _ HI'). }
  assert (Hnc : ~ In b (path s' (st_tip s'))).
  { intros H. destruct (i_chain _ _ _ _ HI' _ H) as [H1 _]. congruence. }
  destruct (kind_of b) eqn:Ek.
  - destruct (rbt_spec s' b HI' HC' Hk Ng Hd Hf (or_introl Ek)) as [H1 H2]. csplit; try assumption. congruence.
  - destruct (rbt_spec s' b HI' HC' Hk Ng Hd Hf (or_intror Ek)) as [H1 H2]. csplit; try assumption. congruence.
  - csplit.
    + apply (mark_inv parent_of proof_of kind_of proof_pos); assumption.
    + apply (mark_complete_above parent_of proof_of kind_of proof_pos); assumption.
    + intros _ c Hc. change (In c (cand_erase b (st_cands s'))) in Hc. apply cand_erase_In in Hc. apply HQ'. tauto.
  - csplit; auto.
Qed.

End Accept.
