(* C55: the transaction codec of model/SerTx.v satisfies the prefix premise of the truncation theorem:
   a strict prefix of a serialized transaction does not parse.
   Method: every reader of the codec is "extension stable" (if it succeeds on s it succeeds on s ++ ext with the
   same value and ext appended to the rest); with the round trip this excludes success on a strict prefix. *)
From Coq Require Import NArith Lia.
From BV Require Import lib.Ints gen.Params_gen model.SerBase model.SerTx model.CryptoSHA256 model.MempoolPersist
                       proofs.SerBaseLemmas proofs.SerTxLemmas proofs.MempoolPersistMain.
Local Open Scope Z_scope.

Definition ext_ok {A} (rd : list N -> res A) : Prop :=
  forall s ext x r, rd s = Ok x r -> rd (s ++ ext) = Ok x (r ++ ext).

Lemma ext_ret {A} (v : A) : ext_ok (fun s => Ok v s).
Proof. intros s ext x r H. inversion H; subst. reflexivity. Qed.

Lemma ext_err {A} (e : err) : ext_ok (fun _ => @Err A e).
Proof. intros s ext x r H. discriminate. Qed.

Lemma ext_bind {A B} (rd : list N -> res A) (f : A -> list N -> res B) :
  ext_ok rd -> (forall a, ext_ok (f a)) -> ext_ok (fun s => bind (rd s) f).
Proof.
  intros H1 H2 s ext x r H. destruct (rd s) as [a s1|e] eqn:R; [|discriminate]. cbn [bind] in H.
  rewrite (H1 s ext a s1 R). cbn [bind]. apply H2. exact H.
Qed.

Lemma ext_read_bytes n : ext_ok (read_bytes n).
Proof.
  intros s ext x r H. unfold read_bytes in *. destruct (n <=? length s)%nat eqn:E; [|discriminate].
  apply Nat.leb_le in E. inversion H; subst.
  assert (E2 : (n <=? length (s ++ ext))%nat = true) by (apply Nat.leb_le; rewrite app_length; lia). rewrite E2.
  rewrite firstn_app, skipn_app. replace (n - length s)%nat with 0%nat by lia. cbn [firstn skipn]. rewrite app_nil_r. reflexivity.
Qed.

Lemma ext_read_le k : ext_ok (read_le k).
Proof. unfold read_le. apply ext_bind; [apply ext_read_bytes|intros b; apply ext_ret]. Qed.

Lemma ext_read_bytes_z n : ext_ok (read_bytes_z n).
Proof.
  intros s ext x r H. unfold read_bytes_z in *. destruct (n <=? Z.of_nat (length s)) eqn:E; [|discriminate].
  assert (E2 : (n <=? Z.of_nat (length (s ++ ext))) = true) by (rewrite app_length; lia). rewrite E2. apply ext_read_bytes. exact H.
Qed.

Lemma ext_if {A} (c : bool) (f g : list N -> res A) : ext_ok f -> ext_ok g -> ext_ok (fun s => if c then f s else g s).
Proof. destruct c; auto. Qed.

Lemma ext_read_compact_size rc : ext_ok (read_compact_size rc).
Proof.
  unfold read_compact_size. apply ext_bind; [apply ext_read_le|intros ch].
  apply ext_bind.
  - apply ext_if; [apply ext_ret|]. apply ext_if; [|apply ext_if].
    + apply ext_bind; [apply ext_read_le|intros v]. apply ext_if; [apply ext_err|apply ext_ret].
    + apply ext_bind; [apply ext_read_le|intros v]. apply ext_if; [apply ext_err|apply ext_ret].
    + apply ext_bind; [apply ext_read_le|intros v]. apply ext_if; [apply ext_err|apply ext_ret].
  - intros v. apply ext_if; [apply ext_err|apply ext_ret].
Qed.

Lemma ext_unser_bytes : ext_ok unser_bytes.
Proof. unfold unser_bytes. apply ext_bind; [apply ext_read_compact_size|intros n; apply ext_read_bytes_z]. Qed.

Lemma ext_read_n {A} (rd : list N -> res A) k : ext_ok rd -> ext_ok (read_n rd k).
Proof.
  intros H. induction k as [|k IH]; cbn [read_n]; [apply ext_ret|].
  apply ext_bind; [exact H|intros x]. apply ext_bind; [exact IH|intros xs; apply ext_ret].
Qed.

Lemma ext_unser_vector {A} (rd : list N -> res A) : ext_ok rd -> ext_ok (unser_vector rd).
Proof.
  intros H s ext x r E. unfold unser_vector in *.
  destruct (read_compact_size true s) as [n s1|e] eqn:R; [|discriminate]. cbn [bind] in E.
  rewrite (ext_read_compact_size true s ext n s1 R). cbn [bind].
  set (k := Z.min n (Z.of_nat (length s1) + 1)) in *.
  destruct (read_n rd (Z.to_nat k) s1) as [xs s2|e] eqn:RN; [|discriminate]. cbn [bind] in E.
  destruct (k <? n) eqn:C; [discriminate|]. inversion E; subst xs s2. clear E.
  assert (Ek : k = n) by (unfold k in *; lia).
  assert (Ek2 : Z.min n (Z.of_nat (length (s1 ++ ext)) + 1) = n) by (rewrite app_length; unfold k in *; lia).
  rewrite Ek2. rewrite Ek in RN. rewrite (ext_read_n rd (Z.to_nat n) H s1 ext x r RN). cbn [bind]. rewrite Z.ltb_irrefl. reflexivity.
Qed.

Lemma ext_unser_txin : ext_ok unser_txin.
Proof.
  unfold unser_txin. apply ext_bind; [apply ext_read_bytes|intros h]. apply ext_bind; [apply ext_read_le|intros n].
  apply ext_bind; [apply ext_unser_bytes|intros sc]. apply ext_bind; [apply ext_read_le|intros sq; apply ext_ret].
Qed.

Lemma ext_unser_txout : ext_ok unser_txout.
Proof.
  unfold unser_txout. apply ext_bind; [apply ext_read_le|intros v]. apply ext_bind; [apply ext_unser_bytes|intros sc; apply ext_ret].
Qed.

Lemma ext_unser_witness : ext_ok unser_witness.
Proof. unfold unser_witness. apply ext_unser_vector. apply ext_unser_bytes. Qed.

Lemma ext_read_witnesses vin : ext_ok (read_witnesses vin).
Proof.
  induction vin as [|i vin IH]; cbn [read_witnesses]; [apply ext_ret|].
  apply ext_bind; [apply ext_unser_witness|intros w]. apply ext_bind; [exact IH|intros r'; apply ext_ret].
Qed.

Lemma ext_unser_tx aw : ext_ok (unser_tx aw).
Proof.
  unfold unser_tx. apply ext_bind; [apply ext_read_le|intros version].
  apply ext_bind; [apply ext_unser_vector, ext_unser_txin|intros vin0].
  apply ext_bind.
  - destruct vin0 as [|i0 vin0].
    + destruct aw.
      * apply ext_bind; [apply ext_read_le|intros flags]. apply ext_if; [apply ext_ret|].
        apply ext_bind; [apply ext_unser_vector, ext_unser_txin|intros vin].
        apply ext_bind; [apply ext_unser_vector, ext_unser_txout|intros vout; apply ext_ret].
      * apply ext_bind; [apply ext_unser_vector, ext_unser_txout|intros vout; apply ext_ret].
    + apply ext_bind; [apply ext_unser_vector, ext_unser_txout|intros vout; apply ext_ret].
  - intros [[flags vin] vout].
    apply ext_bind.
    + apply ext_if; [|apply ext_ret].
      apply ext_bind; [apply ext_read_witnesses|intros vin']. apply ext_if; [apply ext_ret|apply ext_err].
    + intros [flags' vin']. apply ext_if; [apply ext_err|].
      apply ext_bind; [apply ext_read_le|intros lock; apply ext_ret].
Qed.

(* THE PREFIX PROPERTY of the extracted transaction codec *)
Theorem instance_prefix t n : tx_ok t -> (n < length (tx_ser t))%nat -> exists e, tx_unser (firstn n (tx_ser t)) = Err e.
Proof.
  intros W Hn. destruct (tx_unser (firstn n (tx_ser t))) as [x r|e] eqn:R; [|exists e; reflexivity]. exfalso.
  pose proof (ext_unser_tx true (firstn n (tx_ser t)) (skipn n (tx_ser t)) x r R) as X.
  rewrite firstn_skipn in X.
  pose proof (instance_roundtrip t [] W) as RT. rewrite app_nil_r in RT. unfold tx_unser in RT. rewrite RT in X.
  assert (E2 : @nil N = r ++ skipn n (tx_ser t)) by congruence.
  assert (L : length (r ++ skipn n (tx_ser t)) = 0%nat) by (rewrite <- E2; reflexivity).
  rewrite app_length, skipn_length in L. lia.
Qed.
