From Coq Require Import QArith.
From BV Require Import lib.Ints model.Fee.
Local Open Scope Z_scope.

Ltac enia := Z.to_euclidean_division_equations; nia.
Ltac elia := Z.to_euclidean_division_equations; lia.

Definition is_i64 (x : Z) : Prop := INT64_MIN <= x <= INT64_MAX.
Definition is_i32 (x : Z) : Prop := INT32_MIN <= x <= INT32_MAX.
Definition is_u32 (x : Z) : Prop := 0 <= x <= UINT32_MAX.

Lemma p32 : 2 ^ 32 = 4294967296. Proof. reflexivity. Qed.
Lemma p64 : 2 ^ 64 = 18446744073709551616. Proof. reflexivity. Qed.

(* ---------------------------------------------------------------------------------- *)
(* wraps *)
Lemma wrapu32_mod x : wrapu32 x = x mod 4294967296.
Proof. reflexivity. Qed.
Lemma wrapu64_mod x : wrapu64 x = x mod 18446744073709551616.
Proof. reflexivity. Qed.

Lemma wrap128_id x : - 2 ^ 127 <= x < 2 ^ 127 -> wrap128 x = x.
Proof.
  unfold wrap128, wraps. intros H.
  change (2 ^ 128) with (2 * 2 ^ 127). change (2 ^ (128 - 1)) with (2 ^ 127).
  remember (2 ^ 127) as M eqn:EM. assert (HM : 0 < M) by (subst M; reflexivity).
  destruct (Z_lt_le_dec x 0) as [Hn|Hp].
  - assert (E : x mod (2 * M) = x + 2 * M).
    { symmetry. apply Z.mod_unique with (q := -1); lia. }
    rewrite E. destruct (_ <? _) eqn:Hc; lia.
  - rewrite Z.mod_small by lia. destruct (_ <? _) eqn:Hc; lia.
Qed.

Lemma asr32_div x : asr32 x = x / 4294967296.
Proof. unfold asr32. rewrite Z.shiftr_div_pow2 by lia. reflexivity. Qed.

Lemma mul_abs_bound x y X Y : Z.abs x <= X -> Z.abs y <= Y -> Z.abs (x * y) <= X * Y.
Proof. intros Hx Hy. rewrite Z.abs_mul. apply Z.mul_le_mono_nonneg; lia. Qed.

(* ---------------------------------------------------------------------------------- *)
(* MulFallback *)
Lemma mul_fallback_parts a b : is_i64 a -> is_i32 b ->
  mul_fallback a b = (a / 4294967296 * b + (a mod 4294967296 * b) / 4294967296, (a mod 4294967296 * b) mod 4294967296)
  /\ is_i64 (a / 4294967296 * b + (a mod 4294967296 * b) / 4294967296).
Proof.
  unfold is_i64, is_i32, INT64_MIN, INT64_MAX, INT32_MIN, INT32_MAX. intros Ha Hb.
  set (al := a mod 4294967296). set (ah := a / 4294967296).
  assert (Hal : 0 <= al < 4294967296) by (apply Z.mod_pos_bound; lia).
  assert (Hah : -2147483648 <= ah <= 2147483647) by (subst ah; elia).
  assert (Hlow : Z.abs (al * b) <= 4294967295 * 2147483648) by (apply mul_abs_bound; lia).
  assert (Hhigh : Z.abs (ah * b) <= 2147483648 * 2147483648) by (apply mul_abs_bound; lia).
  assert (Hsh : -2147483648 <= (al * b) / 4294967296 <= 2147483648) by elia.
  unfold mul_fallback. rewrite wrapu32_mod, !asr32_div. fold al ah.
  rewrite (wrap64_id (al * b)) by (unfold INT64_MIN, INT64_MAX; lia).
  rewrite (wrap64_id (ah * b)) by (unfold INT64_MIN, INT64_MAX; lia).
  rewrite wrap64_id by (unfold INT64_MIN, INT64_MAX; lia).
  rewrite wrapu32_mod. split; [reflexivity | lia].
Qed.

Lemma mul_fallback_exact a b : is_i64 a -> is_i32 b ->
  pair_val (mul_fallback a b) = a * b /\
  0 <= snd (mul_fallback a b) < 2 ^ 32 /\ is_i64 (fst (mul_fallback a b)).
Proof.
  intros Ha Hb. destruct (mul_fallback_parts a b Ha Hb) as [E R].
  rewrite E. unfold pair_val. cbn [fst snd]. rewrite p32.
  split; [| split; [apply Z.mod_pos_bound; lia | exact R]].
  pose proof (Z.div_mod a 4294967296 ltac:(lia)) as Da.
  pose proof (Z.div_mod (a mod 4294967296 * b) 4294967296 ltac:(lia)) as Dl.
  nia.
Qed.

(* the pair ordering is the ordering of the denoted integers *)
Lemma pair_compare_val p q : 0 <= snd p < 2 ^ 32 -> 0 <= snd q < 2 ^ 32 ->
  pair_compare p q = (pair_val p ?= pair_val q).
Proof.
  rewrite p32. unfold pair_compare, pair_val. rewrite p32. intros Hp Hq.
  destruct (fst p ?= fst q) eqn:E.
  - apply Z.compare_eq in E. rewrite E.
    destruct (snd p ?= snd q) eqn:E2; symmetry.
    + apply Z.compare_eq in E2. apply Z.compare_eq_iff. lia.
    + rewrite Z.compare_lt_iff in *. lia.
    + rewrite Z.compare_gt_iff in *. lia.
  - symmetry. rewrite Z.compare_lt_iff in *. lia.
  - symmetry. rewrite Z.compare_gt_iff in *. lia.
Qed.

Lemma mul_native_exact a b : is_i64 a -> is_i32 b -> mul_native a b = a * b.
Proof.
  unfold is_i64, is_i32, INT64_MIN, INT64_MAX, INT32_MIN, INT32_MAX, mul_native. intros Ha Hb.
  apply wrap128_id.
  assert (H : Z.abs (a * b) <= 9223372036854775808 * 2147483648) by (apply mul_abs_bound; lia).
  change (2 ^ 127) with 170141183460469231731687303715884105728. lia.
Qed.

Lemma mul_fallback_compare a b c d : is_i64 a -> is_i32 b -> is_i64 c -> is_i32 d ->
  pair_compare (mul_fallback a b) (mul_fallback c d) = (a * b ?= c * d).
Proof.
  intros Ha Hb Hc Hd.
  destruct (mul_fallback_exact a b Ha Hb) as [E1 [R1 _]].
  destruct (mul_fallback_exact c d Hc Hd) as [E2 [R2 _]].
  rewrite pair_compare_val by assumption. rewrite E1, E2. reflexivity.
Qed.

(* ---------------------------------------------------------------------------------- *)
(* rounding of the truncating quotient, as in Div and DivFallback *)
Lemma round_adjust n d rd : 0 < d ->
  Z.quot n d + (b2z (Z.rem n d >? 0) - b2z (negb (Z.rem n d =? 0) && rd)) = round_div rd n d.
Proof.
  intros Hd. unfold round_div, floor_div, ceil_div, b2z.
  destruct (Z.rem n d >? 0) eqn:E1; destruct (Z.rem n d =? 0) eqn:E2; destruct rd; cbn [negb andb]; enia.
Qed.

Lemma round_div_add k m d rd : 0 < d -> round_div rd (d * k + m) d = k + round_div rd m d.
Proof.
  intros Hd. unfold round_div, floor_div, ceil_div. destruct rd.
  - rewrite Z.mul_comm, Z.add_comm, Z.div_add by lia. lia.
  - replace (- (d * k + m)) with (- m + (- k) * d) by lia. rewrite Z.div_add by lia. lia.
Qed.

Lemma round_div_bounds rd n d : 0 < d ->
  (0 <= n -> 0 <= round_div rd n d <= n) /\ (n <= 0 -> n <= round_div rd n d <= 0).
Proof.
  intros Hd. unfold round_div, floor_div, ceil_div. destruct rd; split; intros; enia.
Qed.

(* floor / ceil characterisations used in the statements *)
Lemma floor_div_spec n d : 0 < d -> floor_div n d * d <= n < (floor_div n d + 1) * d.
Proof. intros. unfold floor_div. enia. Qed.
Lemma ceil_div_spec n d : 0 < d -> (ceil_div n d - 1) * d < n <= ceil_div n d * d.
Proof. intros. unfold ceil_div. enia. Qed.
Lemma floor_div_unique n d q : 0 < d -> q * d <= n < (q + 1) * d -> floor_div n d = q.
Proof. intros. unfold floor_div. enia. Qed.
Lemma ceil_div_unique n d q : 0 < d -> (q - 1) * d < n <= q * d -> ceil_div n d = q.
Proof. intros. unfold ceil_div. enia. Qed.

(* ---------------------------------------------------------------------------------- *)
(* Div (native) *)
Lemma div_native_spec n d rd : 0 < d <= INT32_MAX -> is_i64 (round_div rd n d) ->
  div_native n d rd = round_div rd n d.
Proof.
  unfold is_i64, INT64_MIN, INT64_MAX, INT32_MAX. intros Hd Hr.
  unfold div_native.
  pose proof (round_adjust n d rd ltac:(lia)) as A.
  assert (Hrem : Z.abs (Z.rem n d) < d) by enia.
  assert (Hq : INT64_MIN <= Z.quot n d <= INT64_MAX).
  { unfold INT64_MIN, INT64_MAX. unfold b2z in A.
    destruct (Z.rem n d >? 0) eqn:E1; destruct (Z.rem n d =? 0) eqn:E2; destruct rd; cbn [negb andb] in A; try lia.
    - (* rem > 0, round up: result = quot+1, n > 0 so quot >= 0 *) enia.
    - (* rem < 0, round down: result = quot-1, n<0 so quot <= 0 *) enia. }
  unfold cdiv, cmod. rewrite (wrap64_id (Z.quot n d)) by exact Hq.
  rewrite (wrap32_id (Z.rem n d)) by (unfold INT32_MIN, INT32_MAX; lia).
  rewrite A. apply wrap64_id. unfold INT64_MIN, INT64_MAX. lia.
Qed.

(* ---------------------------------------------------------------------------------- *)
(* DivFallback *)
Lemma shl32_id x : -2147483648 <= x <= 2147483647 -> shl32_i64 x = x * 4294967296.
Proof. intros. unfold shl32_i64. rewrite p32. apply wrap64_id. unfold INT64_MIN, INT64_MAX. lia. Qed.

Lemma div_fallback_spec hi lo d rd :
  is_i64 hi -> 0 <= lo < 2 ^ 32 -> 0 < d <= INT32_MAX ->
  is_i64 (round_div rd (hi * 2 ^ 32 + lo) d) ->
  div_fallback (hi, lo) d rd = round_div rd (hi * 2 ^ 32 + lo) d.
Proof.
  rewrite p32. unfold is_i64, INT64_MIN, INT64_MAX, INT32_MAX. intros Hhi Hlo Hd Hres.
  unfold div_fallback. cbn [fst snd]. unfold cdiv, cmod.
  set (qh := Z.quot hi d) in *. set (r := Z.rem hi d) in *.
  assert (Ehi : hi = d * qh + r) by (subst qh r; apply Z.quot_rem'; lia).
  assert (Hr : Z.abs r < d) by (subst r; enia).
  assert (Hrs : (0 <= hi -> 0 <= r) /\ (hi <= 0 -> r <= 0)) by (subst r; split; intros; enia).
  assert (Hqs : (0 < qh -> 0 < hi) /\ (qh < 0 -> hi < 0)) by (subst qh; split; intros; enia).
  assert (Hqh : INT64_MIN <= qh <= INT64_MAX) by (unfold INT64_MIN, INT64_MAX; subst qh; enia).
  rewrite (wrap64_id qh) by exact Hqh.
  rewrite (shl32_id r) by lia.
  set (nl := r * 4294967296 + lo) in *.
  assert (Hnl : -9223372036854775807 <= nl <= 9223372036854775806) by (subst nl; lia).
  rewrite (wrap64_id nl) by (unfold INT64_MIN, INT64_MAX; lia).
  assert (Hql : Z.abs (Z.quot nl d) <= Z.abs nl) by enia.
  rewrite (wrap64_id (Z.quot nl d)) by (unfold INT64_MIN, INT64_MAX; lia).
  assert (Hml : Z.abs (Z.rem nl d) < d) by enia.
  rewrite (wrap32_id (Z.rem nl d)) by (unfold INT32_MIN, INT32_MAX; lia).
  rewrite (round_adjust nl d rd) by lia.
  (* the exact value splits as qh*2^32 + round(nl/d) *)
  assert (En : hi * 4294967296 + lo = d * (qh * 4294967296) + nl) by (subst nl; lia).
  rewrite En in *. rewrite round_div_add in * by lia.
  destruct (round_div_bounds rd nl d ltac:(lia)) as [Bp Bn].
  set (ql := round_div rd nl d) in *.
  rewrite (wrap64_id ql) by (unfold INT64_MIN, INT64_MAX; lia).
  (* quot_high << 32 does not overflow because the result fits *)
  assert (Hq32 : -2147483648 <= qh <= 2147483647).
  { destruct (Z_lt_le_dec 0 qh) as [Hpos|Hnp].
    - (* qh > 0: nl >= 0, ql >= 0 *)
      assert (0 <= nl) by (subst nl; lia). lia.
    - destruct (Z_lt_le_dec qh 0) as [Hneg|Hz]; [|lia].
      (* qh < 0: r <= 0, nl <= lo < 2^32, so ql < 2^32 *)
      assert (Hr0 : r <= 0) by lia.
      assert (Hql2 : ql <= 4294967295).
      { destruct (Z_lt_le_dec nl 0); [lia|]. assert (nl <= 4294967295) by (subst nl; lia). lia. }
      lia. }
  rewrite (shl32_id qh) by lia.
  apply wrap64_id. unfold INT64_MIN, INT64_MAX. lia.
Qed.

(* the portable path equals the __int128 path *)
Lemma div_mul_fallback_eq_native a b d rd :
  is_i64 a -> is_i32 b -> 0 < d <= INT32_MAX -> is_i64 (round_div rd (a * b) d) ->
  div_fallback (mul_fallback a b) d rd = round_div rd (a * b) d /\
  div_native (mul_native a b) d rd = round_div rd (a * b) d.
Proof.
  intros Ha Hb Hd Hr. split.
  - destruct (mul_fallback_exact a b Ha Hb) as [E [R1 R2]].
    destruct (mul_fallback a b) as [hi lo] eqn:Em. cbn [fst snd] in *. unfold pair_val in E. cbn [fst snd] in E.
    rewrite <- E in *. apply div_fallback_spec; assumption.
  - rewrite mul_native_exact by assumption. apply div_native_spec; assumption.
Qed.

(* ---------------------------------------------------------------------------------- *)
(* EvaluateFee *)
Lemma evaluate_fee_spec rd fee size at_size :
  is_i64 fee -> 0 < size <= INT32_MAX -> 0 <= at_size <= INT32_MAX ->
  is_i64 (round_div rd (fee * at_size) size) ->
  evaluate_fee rd fee size at_size = round_div rd (fee * at_size) size.
Proof.
  intros Hfee Hsz Hat Hres. unfold evaluate_fee.
  destruct ((fee >=? 0) && (fee <? 8589934592)) eqn:Efast.
  - apply andb_prop in Efast. destruct Efast as [F1 F2].
    unfold is_i64, INT64_MIN, INT64_MAX, INT32_MAX in *.
    assert (Hf : 0 <= fee < 8589934592) by lia.
    rewrite (wrapu64_id fee) by (unfold UINT64_MAX; lia).
    rewrite (wrapu64_id at_size) by (unfold UINT64_MAX; lia).
    rewrite (wrapu32_id size) by (unfold UINT32_MAX; lia).
    assert (Hp : 0 <= fee * at_size <= 8589934591 * 2147483647) by nia.
    rewrite (wrapu64_id (fee * at_size)) by (unfold UINT64_MAX; lia).
    destruct rd; unfold round_div, floor_div, ceil_div in *.
    + apply wrap64_id. unfold INT64_MIN, INT64_MAX. lia.
    + unfold ceil_div_u64.
      assert (E : fee * at_size / size + b2z (negb (fee * at_size mod size =? 0)) = - (- (fee * at_size) / size)).
      { unfold b2z. destruct (fee * at_size mod size =? 0) eqn:Em; cbn [negb]; enia. }
      rewrite E. rewrite wrapu64_id.
      * apply wrap64_id. unfold INT64_MIN, INT64_MAX. lia.
      * unfold UINT64_MAX. split; [enia | lia].
  - assert (Hat32 : is_i32 at_size) by (unfold is_i32, INT32_MIN, INT32_MAX in *; lia).
    rewrite mul_native_exact by assumption. apply div_native_spec; assumption.
Qed.

Lemma evaluate_fee_fallback_spec rd fee size at_size :
  is_i64 fee -> 0 < size <= INT32_MAX -> 0 <= at_size <= INT32_MAX ->
  is_i64 (round_div rd (fee * at_size) size) ->
  evaluate_fee_fallback rd fee size at_size = round_div rd (fee * at_size) size.
Proof.
  intros Hfee Hsz Hat Hres.
  pose proof (evaluate_fee_spec rd fee size at_size Hfee Hsz Hat Hres) as E.
  unfold evaluate_fee in E. unfold evaluate_fee_fallback.
  destruct ((fee >=? 0) && (fee <? 8589934592)) eqn:Efast; [exact E|].
  assert (Hat32 : is_i32 at_size) by (unfold is_i32, INT32_MIN, INT32_MAX in *; lia).
  apply (div_mul_fallback_eq_native fee at_size size rd); assumption.
Qed.

(* "guaranteed to be the case when 0 <= at_size <= this->size" (feefrac.h) *)
Lemma evaluate_fee_fits rd fee size at_size :
  is_i64 fee -> 0 < size -> 0 <= at_size <= size -> is_i64 (round_div rd (fee * at_size) size).
Proof.
  unfold is_i64, INT64_MIN, INT64_MAX. intros Hfee Hsz Hat.
  unfold round_div, floor_div, ceil_div. destruct rd; enia.
Qed.

(* ---------------------------------------------------------------------------------- *)
(* ByRatio / ByRatioNegSize *)
Definition ff_ok (a : FF) : Prop := is_i64 (fst a) /\ is_i32 (snd a).

Lemma byratio_cmp_spec a b : ff_ok a -> ff_ok b -> byratio_cmp a b = (fst a * snd b ?= fst b * snd a).
Proof.
  intros [Ha1 Ha2] [Hb1 Hb2]. unfold byratio_cmp. rewrite !mul_native_exact by assumption. reflexivity.
Qed.

Lemma byratio_cmp_fallback_spec a b : ff_ok a -> ff_ok b ->
  byratio_cmp_fallback a b = (fst a * snd b ?= fst b * snd a).
Proof.
  intros [Ha1 Ha2] [Hb1 Hb2]. unfold byratio_cmp_fallback. apply mul_fallback_compare; assumption.
Qed.

(* comparison of the exact rationals fee/size *)
Lemma byratio_cmp_Q a b : ff_ok a -> ff_ok b -> 0 < snd a -> 0 < snd b ->
  byratio_cmp a b = Qcompare (feerate_Q a) (feerate_Q b).
Proof.
  intros Ha Hb Hsa Hsb. rewrite byratio_cmp_spec by assumption.
  unfold Qcompare, feerate_Q. cbn [Qnum Qden]. rewrite !Z2Pos.id by assumption. reflexivity.
Qed.

Lemma byratio_ops_spec a b : ff_ok a -> ff_ok b ->
  byratio_eq a b = (fst a * snd b =? fst b * snd a) /\
  byratio_lt a b = (fst a * snd b <? fst b * snd a) /\
  byratio_gt a b = (fst a * snd b >? fst b * snd a) /\
  byratio_le a b = (fst a * snd b <=? fst b * snd a) /\
  byratio_ge a b = (fst a * snd b >=? fst b * snd a).
Proof.
  intros [Ha1 Ha2] [Hb1 Hb2]. unfold byratio_eq, byratio_lt, byratio_gt, byratio_le, byratio_ge.
  rewrite !mul_native_exact by assumption. repeat split.
Qed.

Lemma negsize_cmp_spec a b : ff_ok a -> ff_ok b -> negsize_cmp a b = spec_negsize_cmp a b.
Proof.
  intros Ha Hb. unfold negsize_cmp, spec_negsize_cmp, spec_cmp. rewrite byratio_cmp_spec by assumption. reflexivity.
Qed.

(* a FeeFrac as the data structure's invariant allows it: positive size, or the empty (0,0) *)
Definition ff_valid (a : FF) : Prop := 0 < snd a \/ a = (0, 0).

Lemma spec_negsize_antisym a b : spec_negsize_cmp b a = CompOpp (spec_negsize_cmp a b).
Proof.
  unfold spec_negsize_cmp, spec_cmp.
  rewrite (Z.compare_antisym (fst a * snd b) (fst b * snd a)).
  destruct (fst a * snd b ?= fst b * snd a); cbn [CompOpp]; try reflexivity.
  apply Z.compare_antisym.
Qed.

Lemma spec_negsize_eq_iff a b : ff_valid a -> ff_valid b -> (spec_negsize_cmp a b = Eq <-> a = b).
Proof.
  destruct a as [fa sa], b as [fb sb]. unfold ff_valid, spec_negsize_cmp, spec_cmp. cbn [fst snd].
  intros Va Vb. split.
  - destruct (Z.compare_spec (fa * sb) (fb * sa)) as [E|E|E]; try discriminate.
    intros E2. apply Z.compare_eq in E2. subst sb.
    destruct Va as [Va|Va]; [|inversion Va; subst].
    + assert (fa = fb) by nia. congruence.
    + destruct Vb as [Vb|Vb]; [lia | inversion Vb; reflexivity].
  - intros E. inversion E; subst. rewrite Z.compare_refl. apply Z.compare_refl.
Qed.

Lemma cross_lt_le_trans fa sa fb sb fc sc : 0 < sa -> 0 < sb -> 0 < sc ->
  fa * sb < fb * sa -> fb * sc <= fc * sb -> fa * sc < fc * sa.
Proof.
  intros Ha Hb Hc H1 H2.
  assert (L1 : fa * sb * sc < fb * sa * sc) by (apply Z.mul_lt_mono_pos_r; assumption).
  assert (L2 : fb * sc * sa <= fc * sb * sa) by (apply Z.mul_le_mono_nonneg_r; lia).
  assert (L : (fa * sc) * sb < (fc * sa) * sb) by lia.
  apply Z.mul_lt_mono_pos_r in L; assumption.
Qed.
Lemma cross_le_lt_trans fa sa fb sb fc sc : 0 < sa -> 0 < sb -> 0 < sc ->
  fa * sb <= fb * sa -> fb * sc < fc * sb -> fa * sc < fc * sa.
Proof.
  intros Ha Hb Hc H1 H2.
  assert (L1 : fa * sb * sc <= fb * sa * sc) by (apply Z.mul_le_mono_nonneg_r; lia).
  assert (L2 : fb * sc * sa < fc * sb * sa) by (apply Z.mul_lt_mono_pos_r; assumption).
  assert (L : (fa * sc) * sb < (fc * sa) * sb) by lia.
  apply Z.mul_lt_mono_pos_r in L; assumption.
Qed.
Lemma cross_eq_trans fa sa fb sb fc sc : 0 < sb ->
  fa * sb = fb * sa -> fb * sc = fc * sb -> fa * sc = fc * sa.
Proof.
  intros Hb H1 H2.
  assert (L : (fa * sc) * sb = (fc * sa) * sb).
  { replace (fa * sc * sb) with ((fa * sb) * sc) by ring. rewrite H1.
    replace (fb * sa * sc) with ((fb * sc) * sa) by ring. rewrite H2. ring. }
  apply Z.mul_cancel_r in L; lia.
Qed.

Lemma spec_negsize_trans a b c : ff_valid a -> ff_valid b -> ff_valid c ->
  spec_negsize_cmp a b = Lt -> spec_negsize_cmp b c = Lt -> spec_negsize_cmp a c = Lt.
Proof.
  destruct a as [fa sa], b as [fb sb], c as [fc sc]. unfold ff_valid, spec_negsize_cmp, spec_cmp. cbn [fst snd].
  intros Va Vb Vc H1 H2.
  (* the empty FeeFrac is never below anything *)
  destruct Va as [Va|Va]; [|inversion Va; subst; rewrite Z.mul_0_l, Z.mul_0_r in H1; cbn in H1;
                             rewrite Z.compare_lt_iff in H1; destruct Vb as [Vb|Vb]; [lia|inversion Vb; lia]].
  destruct Vb as [Vb|Vb]; [|inversion Vb; subst; rewrite Z.mul_0_l, Z.mul_0_r in H2; cbn in H2;
                             rewrite Z.compare_lt_iff in H2; destruct Vc as [Vc|Vc]; [lia|inversion Vc; lia]].
  destruct Vc as [Vc|Vc]; [|inversion Vc; subst; rewrite Z.mul_0_l, Z.mul_0_r, Z.compare_refl; apply Z.compare_lt_iff; exact Va].
  destruct (Z.compare_spec (fa * sb) (fb * sa)) as [E1|E1|E1]; try discriminate;
  destruct (Z.compare_spec (fb * sc) (fc * sb)) as [E2|E2|E2]; try discriminate;
  try (rewrite Z.compare_lt_iff in H1); try (rewrite Z.compare_lt_iff in H2).
  - rewrite (cross_eq_trans fa sa fb sb fc sc Vb E1 E2), Z.compare_refl. apply Z.compare_lt_iff. lia.
  - assert (L : fa * sc < fc * sa) by (apply (cross_le_lt_trans fa sa fb sb fc sc); lia).
    apply Z.compare_lt_iff in L. rewrite L. reflexivity.
  - assert (L : fa * sc < fc * sa) by (apply (cross_lt_le_trans fa sa fb sb fc sc); lia).
    apply Z.compare_lt_iff in L. rewrite L. reflexivity.
  - assert (L : fa * sc < fc * sa) by (apply (cross_lt_le_trans fa sa fb sb fc sc); lia).
    apply Z.compare_lt_iff in L. rewrite L. reflexivity.
Qed.

(* the empty FeeFrac sorts after every non-empty one *)
Lemma spec_negsize_empty_last a : 0 < snd a -> spec_negsize_cmp a (0, 0) = Lt.
Proof.
  intros H. unfold spec_negsize_cmp, spec_cmp. cbn [fst snd].
  rewrite Z.mul_0_r, Z.mul_0_l, Z.compare_refl. apply Z.compare_lt_iff. exact H.
Qed.

(* for non-empty operands: feerate first, then larger size first *)
Lemma negsize_cmp_Q a b : ff_ok a -> ff_ok b -> 0 < snd a -> 0 < snd b ->
  negsize_cmp a b =
    match Qcompare (feerate_Q a) (feerate_Q b) with Eq => snd b ?= snd a | c => c end.
Proof.
  intros Ha Hb Hsa Hsb. unfold negsize_cmp. rewrite byratio_cmp_Q by assumption. reflexivity.
Qed.

(* ---------------------------------------------------------------------------------- *)
(* CFeeRate::GetFee *)
Lemma get_fee_spec fee size vb :
  is_i64 fee -> is_i32 size -> 0 <= vb <= INT32_MAX ->
  (0 < size -> is_i64 (ceil_div (fee * vb) size)) ->
  get_fee (cfeerate_make fee size) vb = spec_get_fee fee size vb.
Proof.
  intros Hfee Hsz Hvb Hres. unfold cfeerate_make, spec_get_fee.
  destruct (size >? 0) eqn:Es.
  - assert (Hs : 0 < size) by lia. destruct (size <=? 0) eqn:Es2; [lia|].
    unfold get_fee. cbn [fst snd]. destruct (size =? 0) eqn:Es3; [lia|].
    assert (Hs32 : 0 < size <= INT32_MAX) by (unfold is_i32 in Hsz; lia).
    rewrite (evaluate_fee_spec false fee size vb Hfee Hs32 Hvb (Hres Hs)). reflexivity.
  - destruct (size <=? 0) eqn:Es2; [|lia]. reflexivity.
Qed.

(* a non-negative fee rate applied to a size is rounded up to the next satoshi *)
Lemma get_fee_nonneg_ceil fee size vb :
  0 <= fee <= INT64_MAX -> 0 < size <= INT32_MAX -> 0 <= vb <= INT32_MAX ->
  is_i64 (ceil_div (fee * vb) size) ->
  let r := get_fee (cfeerate_make fee size) vb in
  (r - 1) * size < fee * vb <= r * size.
Proof.
  intros Hfee Hsz Hvb Hres r. subst r.
  rewrite get_fee_spec; try assumption.
  - unfold spec_get_fee. destruct (size <=? 0) eqn:E; [lia|].
    destruct (fee <? 0) eqn:E2; [lia|]. rewrite andb_false_r.
    apply ceil_div_spec. lia.
  - unfold is_i64, INT64_MIN in *. lia.
  - unfold is_i32, INT32_MIN in *. lia.
  - intros _. exact Hres.
Qed.

Lemma negsize_total_order a b c : ff_ok a -> ff_ok b -> ff_ok c ->
  ff_valid a -> ff_valid b -> ff_valid c ->
  (negsize_cmp a b = Eq <-> a = b) /\
  negsize_cmp b a = CompOpp (negsize_cmp a b) /\
  (negsize_cmp a b = Lt -> negsize_cmp b c = Lt -> negsize_cmp a c = Lt) /\
  (0 < snd a -> negsize_cmp a (0, 0) = Lt).
Proof.
  intros Oa Ob Oc Va Vb Vc.
  assert (O0 : ff_ok (0, 0)) by (unfold ff_ok, is_i64, is_i32, INT64_MIN, INT64_MAX, INT32_MIN, INT32_MAX; cbn [fst snd]; lia).
  rewrite !negsize_cmp_spec by assumption.
  split; [apply spec_negsize_eq_iff; assumption|].
  split; [apply spec_negsize_antisym|].
  split; [apply spec_negsize_trans; assumption | apply spec_negsize_empty_last].
Qed.

(* combined statements used verbatim by props/Properties_C30.v *)
Lemma round_div_floor_ceil n d : 0 < d ->
  (round_div true n d * d <= n < (round_div true n d + 1) * d) /\
  ((round_div false n d - 1) * d < n <= round_div false n d * d).
Proof. intros H. split; [exact (floor_div_spec n d H) | exact (ceil_div_spec n d H)]. Qed.

Lemma evaluate_fee_both_spec round_down fee size at_size :
  is_i64 fee -> 0 < size <= INT32_MAX -> 0 <= at_size <= INT32_MAX ->
  is_i64 (round_div round_down (fee * at_size) size) ->
  evaluate_fee round_down fee size at_size = round_div round_down (fee * at_size) size /\
  evaluate_fee_fallback round_down fee size at_size = round_div round_down (fee * at_size) size.
Proof. intros. split; [apply evaluate_fee_spec | apply evaluate_fee_fallback_spec]; assumption. Qed.

Lemma byratio_cross_product a b : ff_ok a -> ff_ok b ->
  byratio_cmp a b = (fst a * snd b ?= fst b * snd a) /\
  byratio_cmp_fallback a b = (fst a * snd b ?= fst b * snd a).
Proof. intros Ha Hb. split; [apply byratio_cmp_spec | apply byratio_cmp_fallback_spec]; assumption. Qed.
