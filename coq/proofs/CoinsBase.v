(* Layered coin cache model (C15), part 1: association-list facts, the invariant `wf`, the
   simulation relation `sim` and their basic properties. *)
From BV Require Import lib.Ints gen.Params_gen model.Coins.
Local Open Scope Z_scope.

(* ------------------------------------------------------------------------------------------- *)
(* A. association-list maps                                                                     *)

Section AMapFacts.
  Context {V : Type}.
  Implicit Types (m : list (outpoint * V)) (k : outpoint).

  Definition keys m : list outpoint := map fst m.
  Definition nodup m : Prop := NoDup (keys m).

  Lemma m_get_del_eq k m : m_get k (m_del k m) = None.
  Proof.
    induction m as [|[k' v] r IH]; simpl; auto.
    destruct (Nat.eqb k k') eqn:E; simpl; auto. rewrite E. auto.
  Qed.

  Lemma m_get_del_neq k k' m : k <> k' -> m_get k' (m_del k m) = m_get k' m.
  Proof.
    intros Hne. induction m as [|[k2 v] r IH]; simpl; auto.
    destruct (Nat.eqb k k2) eqn:E.
    - apply Nat.eqb_eq in E. subst k2.
      destruct (Nat.eqb k' k) eqn:E2; auto. apply Nat.eqb_eq in E2. congruence.
    - simpl. rewrite IH. auto.
  Qed.

  Lemma m_get_set_eq k v m : m_get k (m_set k v m) = Some v.
  Proof. unfold m_set. simpl. rewrite Nat.eqb_refl. auto. Qed.

  Lemma m_get_set_neq k k' v m : k <> k' -> m_get k' (m_set k v m) = m_get k' m.
  Proof.
    intros Hne. unfold m_set. simpl.
    destruct (Nat.eqb k' k) eqn:E. { apply Nat.eqb_eq in E. congruence. }
    apply m_get_del_neq; auto.
  Qed.

  Lemma in_keys_del k k' m : In k' (keys (m_del k m)) -> In k' (keys m) /\ k' <> k.
  Proof.
    induction m as [|[k2 v] r IH]; simpl; [tauto|].
    destruct (Nat.eqb k k2) eqn:E.
    - intros H. destruct (IH H). split; auto.
    - simpl. intros [H|H].
      + subst k2. split; auto. intros ->. rewrite Nat.eqb_refl in E. discriminate.
      + destruct (IH H). split; auto.
  Qed.

  Lemma nodup_del k m : nodup m -> nodup (m_del k m).
  Proof.
    unfold nodup. induction m as [|[k2 v] r IH]; simpl; auto.
    intros H. inversion H as [|? ? Hn Hr]; subst.
    destruct (Nat.eqb k k2); auto. simpl. constructor; auto.
    intros Hin. apply in_keys_del in Hin. tauto.
  Qed.

  Lemma nodup_set k v m : nodup m -> nodup (m_set k v m).
  Proof.
    intros H. unfold m_set, nodup. simpl. constructor.
    - intros Hin. apply in_keys_del in Hin. tauto.
    - apply nodup_del; auto.
  Qed.

  Lemma m_get_none_notin k m : m_get k m = None -> ~ In k (keys m).
  Proof.
    induction m as [|[k2 v] r IH]; simpl; auto.
    destruct (Nat.eqb k k2) eqn:E; [discriminate|].
    intros H [H1|H1]; [subst; rewrite Nat.eqb_refl in E; discriminate | apply IH; auto].
  Qed.

  Lemma m_get_notin_none k m : ~ In k (keys m) -> m_get k m = None.
  Proof.
    induction m as [|[k2 v] r IH]; simpl; auto.
    intros H. destruct (Nat.eqb k k2) eqn:E.
    - apply Nat.eqb_eq in E. subst. tauto.
    - apply IH. tauto.
  Qed.

  Lemma m_get_some_in k v m : m_get k m = Some v -> In (k, v) m.
  Proof.
    induction m as [|[k2 v2] r IH]; simpl; [discriminate|].
    destruct (Nat.eqb k k2) eqn:E.
    - apply Nat.eqb_eq in E. intros H. inversion H. subst. auto.
    - auto.
  Qed.

  Lemma m_get_in k v m : nodup m -> In (k, v) m -> m_get k m = Some v.
  Proof.
    unfold nodup. induction m as [|[k2 v2] r IH]; simpl; [tauto|].
    intros H Hin. inversion H as [|? ? Hn Hr]; subst.
    destruct Hin as [Hin|Hin].
    - inversion Hin; subst. rewrite Nat.eqb_refl. auto.
    - destruct (Nat.eqb k k2) eqn:E; auto.
      apply Nat.eqb_eq in E. subst. exfalso. apply Hn.
      change k2 with (fst (k2, v)). apply in_map. auto.
  Qed.

  Lemma m_sum_del (f : V -> Z) k m :
    nodup m -> m_sum f (m_del k m) = m_sum f m - match m_get k m with Some v => f v | None => 0 end.
  Proof.
    unfold nodup. induction m as [|[k2 v2] r IH]; simpl; intros H; [lia|].
    inversion H as [|? ? Hn Hr]; subst.
    destruct (Nat.eqb k k2) eqn:E.
    - apply Nat.eqb_eq in E. subst k2. rewrite IH by auto.
      rewrite (m_get_notin_none k r) by auto. lia.
    - simpl. rewrite IH by auto. lia.
  Qed.

  Lemma m_sum_set (f : V -> Z) k v m :
    nodup m -> m_sum f (m_set k v m) = f v + m_sum f m - match m_get k m with Some v' => f v' | None => 0 end.
  Proof. intros H. unfold m_set. simpl. rewrite m_sum_del by auto. lia. Qed.

  Lemma m_sum_nonneg (f : V -> Z) m : (forall v, 0 <= f v) -> 0 <= m_sum f m.
  Proof. intros Hf. induction m as [|[k v] r IH]; simpl; [lia|]. specialize (Hf v). lia. Qed.

  Lemma m_sum_ge_get (f : V -> Z) k v m : (forall v, 0 <= f v) -> m_get k m = Some v -> f v <= m_sum f m.
  Proof.
    intros Hf. induction m as [|[k2 v2] r IH]; simpl; [discriminate|].
    pose proof (m_sum_nonneg f r Hf).
    destruct (Nat.eqb k k2).
    - intros E. inversion E. subst. lia.
    - intros E. specialize (IH E). specialize (Hf v2). lia.
  Qed.
End AMapFacts.
Arguments m_set {V} k v m : simpl never.

(* ------------------------------------------------------------------------------------------- *)
(* B. the invariant and the simulation relation                                                 *)

(* what a cache answers given what its base answers *)
Definition lview (L : layer) (pv : outpoint -> option coin) (k : outpoint) : option coin :=
  match m_get k (l_map L) with
  | Some e => e_coin e
  | None => pv k
  end.

Lemma view_peek_cons L ps db k : view_peek (L :: ps) db k = lview L (view_peek ps db) k.
Proof. reflexivity. Qed.

(* One cache entry, given the coin `pv` its base view holds for the same outpoint:
   - a spent entry is DIRTY, not FRESH (and holds no script memory)      [SanityCheck]
   - FRESH implies DIRTY                                                 [SanityCheck]
   - FRESH means the base view has no unspent coin there                 [coins.h, FRESH]
   - an entry that is not DIRTY equals the base view                     [coins.h, DIRTY] *)
Definition entry_ok (pv : option coin) (e : entry) : Prop :=
  (e_coin e = None -> e_dirty e = true /\ e_fresh e = false /\ e_cap e = 0) /\
  (e_fresh e = true -> e_dirty e = true /\ pv = None) /\
  (e_dirty e = false -> e_coin e = pv).

(* m_dirty_count and cachedCoinsUsage are exact *)
Definition counters_ok (L : layer) : Prop :=
  l_dirty L = m_sum entry_dirtyz (l_map L) /\ l_usage L = m_sum entry_usage (l_map L).

Definition layer_ok (pv : outpoint -> option coin) (L : layer) : Prop :=
  nodup (l_map L) /\
  (forall k e, m_get k (l_map L) = Some e -> entry_ok (pv k) e) /\
  counters_ok L.

(* the invariant of a whole stack *)
Fixpoint wf (ls : list layer) (db : dbmap) : Prop :=
  match ls with
  | [] => nodup db
  | L :: ps => layer_ok (view_peek ps db) L /\ wf ps db
  end.

(* every view of stack a (over db) equals the corresponding view of stack b (over db') *)
Fixpoint views_eq (a : list layer) (db : dbmap) (b : list layer) (db' : dbmap) : Prop :=
  match a, b with
  | [], [] => forall k, m_get k db = m_get k db'
  | _ :: a', _ :: b' => (forall k, view_peek a db k = view_peek b db' k) /\ views_eq a' db b' db'
  | _, _ => False
  end.

(* the flat maps vs describe the views of the stack, top first, database last *)
Fixpoint sim (ls : list layer) (db : dbmap) (vs : list fmap) : Prop :=
  match ls, vs with
  | [], [v] => forall k, m_get k v = m_get k db
  | L :: ps, v :: vs' => (forall k, m_get k v = view_peek (L :: ps) db k) /\ sim ps db vs'
  | _, _ => False
  end.

Lemma entry_usage_nonneg e : 0 <= entry_usage e.
Proof.
  unfold entry_usage, malloc_usage. destruct (e_cap e <=? 0) eqn:E; [lia|].
  apply Z.leb_gt in E. apply Z.mul_nonneg_nonneg; [|lia]. apply Z.div_pos; lia.
Qed.

Lemma entry_dirtyz_nonneg e : 0 <= entry_dirtyz e.
Proof. unfold entry_dirtyz, b2z. destruct (e_dirty e); lia. Qed.

Lemma try_sub_ok i j : j <= i -> try_sub i j = i - j.
Proof. intros H. unfold try_sub. destruct (i <? j) eqn:E; auto. apply Z.ltb_lt in E. lia. Qed.

Lemma views_eq_refl ls db : views_eq ls db ls db.
Proof. induction ls; simpl; auto. Qed.

Lemma views_eq_top a db b db' : views_eq a db b db' -> forall k, view_peek a db k = view_peek b db' k.
Proof. destruct a, b; simpl; tauto. Qed.

Lemma views_eq_trans a da b dbb c dc : views_eq a da b dbb -> views_eq b dbb c dc -> views_eq a da c dc.
Proof.
  revert b c. induction a as [|x a IH]; intros [|y b] [|z c]; simpl; try tauto.
  - intros H1 H2 k. rewrite H1. auto.
  - intros [H1 H1'] [H2 H2']. split; [intros k; rewrite H1; auto | eauto].
Qed.

Lemma sim_views_eq ls' db' ls db vs : views_eq ls' db' ls db -> sim ls db vs -> sim ls' db' vs.
Proof.
  revert ls vs. induction ls' as [|x a IH]; intros [|y b] vs; simpl; try tauto.
  - destruct vs as [|v [|? ?]]; try tauto. intros H1 H2 k. rewrite H2. auto.
  - destruct vs as [|v vs']; try tauto. intros [H1 H1'] [H2 H2']. split; [|eauto].
    intros k. rewrite H2. symmetry. apply H1.
Qed.

Lemma entry_ok_ext pv pv' e : pv = pv' -> entry_ok pv e -> entry_ok pv' e.
Proof. intros ->. auto. Qed.

Lemma layer_ok_ext pv pv' L : (forall k, pv k = pv' k) -> layer_ok pv L -> layer_ok pv' L.
Proof.
  intros Hpv (Hn & He & Hc). split; [auto|split; auto].
  intros k e Hk. rewrite <- Hpv. auto.
Qed.

Lemma lview_ext L pv pv' : (forall k, pv k = pv' k) -> forall k, lview L pv k = lview L pv' k.
Proof. intros H k. unfold lview. destruct (m_get k (l_map L)); auto. Qed.

(* a layer on top of two stacks with the same views *)
Lemma wf_cons_views_eq L ps db ps' db' :
  layer_ok (view_peek ps db) L -> wf ps' db' -> views_eq ps' db' ps db ->
  wf (L :: ps') db' /\ views_eq (L :: ps') db' (L :: ps) db.
Proof.
  intros HL Hwf Hv. pose proof (views_eq_top _ _ _ _ Hv) as Ht. split.
  - split; auto. eapply layer_ok_ext; [|exact HL]. intros k. symmetry. apply Ht.
  - simpl. split; auto. intros k. apply lview_ext. auto.
Qed.

