(* Proofs about the PSBT model (C47): locktime determination, Merge on maps, the key-value codec. *)
From Coq Require Import NArith.
From BV Require Import lib.Ints model.Psbt.

(* ------------------------------------------------------------------------------------------- *)
(* BIP370 locktime determination *)
Section TimeLock.
Local Open Scope Z_scope.

Fixpoint max_time_from (c : Z) (ins : list pin) : Z :=
  match ins with [] => c | i :: r => match in_time i with Some t => max_time_from (Z.max c t) r | None => max_time_from c r end end.
Fixpoint max_height_from (c : Z) (ins : list pin) : Z :=
  match ins with [] => c | i :: r => match in_height i with Some h => max_height_from (Z.max c h) r | None => max_height_from c r end end.

Lemma ctl_loop_spec : forall ins tl hl, ~ (tl = None /\ hl = None) ->
  ctl_loop ins tl hl =
    (let tl' := if forallb time_ok ins then option_map (fun c => max_time_from c ins) tl else None in
     let hl' := if forallb height_ok ins then option_map (fun c => max_height_from c ins) hl else None in
     if is_none tl' && is_none hl' then None else Some (tl', hl')).
Proof.
  induction ins as [|i r IH]; intros tl hl Hnn.
  - simpl. destruct tl, hl; simpl; auto. exfalso; apply Hnn; auto.
  - destruct i as [[t|] [h|]]; destruct tl as [c|], hl as [d|];
      try (exfalso; apply Hnn; split; reflexivity);
      cbn [ctl_loop in_time in_height is_none forallb time_ok height_ok negb orb andb max_time_from max_height_from option_map];
      try (rewrite IH by (intros [? ?]; discriminate));
      cbn [option_map is_none];
      repeat (destruct (forallb _ r)); cbn [option_map is_none andb]; auto.
Qed.

Lemma max_time_from_eq : forall ins c, 0 <= c -> max_time_from c ins = Z.max c (max_time ins).
Proof.
  induction ins as [|i r IH]; intros c Hc; simpl.
  - lia.
  - destruct (in_time i) as [t|]; rewrite IH by lia; lia.
Qed.
Lemma max_height_from_eq : forall ins c, 0 <= c -> max_height_from c ins = Z.max c (max_height ins).
Proof.
  induction ins as [|i r IH]; intros c Hc; simpl.
  - lia.
  - destruct (in_height i) as [h|]; rewrite IH by lia; lia.
Qed.

Lemma max_time_nonneg ins : 0 <= max_time ins.
Proof. induction ins as [|i r IH]; simpl; [lia|]. destruct (in_time i); lia. Qed.
Lemma max_height_nonneg ins : 0 <= max_height ins.
Proof. induction ins as [|i r IH]; simpl; [lia|]. destruct (in_height i); lia. Qed.

(* required locktimes are positive (the decoder rejects 0, and time locks are >= 500000000) *)
Definition valid_pin (i : pin) : Prop :=
  (forall t, in_time i = Some t -> 0 < t) /\ (forall h, in_height i = Some h -> 0 < h).

Lemma all_noreq_max ins : forallb no_req ins = true -> max_time ins = 0 /\ max_height ins = 0.
Proof.
  induction ins as [|i r IH]; simpl; auto. intros H. apply andb_prop in H. destruct H as [H1 H2].
  unfold no_req in H1. destruct (in_time i), (in_height i); simpl in H1; try discriminate. auto.
Qed.

Lemma all_noreq_ok ins : forallb no_req ins = true -> forallb time_ok ins = true /\ forallb height_ok ins = true.
Proof.
  induction ins as [|i r IH]; simpl; auto. intros H. apply andb_prop in H. destruct H as [H1 H2].
  destruct (IH H2) as [H3 H4]. rewrite H3, H4.
  unfold no_req, time_ok, height_ok in *. destruct (in_time i), (in_height i); simpl in *; try discriminate. auto.
Qed.

Lemma height_pos ins : Forall valid_pin ins -> forallb height_ok ins = true -> forallb no_req ins = false ->
  0 < max_height ins.
Proof.
  induction ins as [|i r IH]; simpl; intros Hv Hh Hn; [discriminate|].
  inversion Hv as [|? ? [Hvt Hvh] Hv']; subst.
  apply andb_prop in Hh. destruct Hh as [Hh1 Hh2].
  pose proof (max_height_nonneg r) as Hnn.
  unfold height_ok, no_req in *. destruct (in_time i) as [t|], (in_height i) as [h|]; simpl in *; try discriminate.
  - specialize (Hvh _ eq_refl). lia.
  - specialize (Hvh _ eq_refl). lia.
  - apply IH; auto.
Qed.

Lemma time_pos ins : Forall valid_pin ins -> forallb time_ok ins = true -> forallb height_ok ins = false ->
  0 < max_time ins.
Proof.
  induction ins as [|i r IH]; simpl; intros Hv Ht Hh; [discriminate|].
  inversion Hv as [|? ? [Hvt Hvh] Hv']; subst.
  apply andb_prop in Ht. destruct Ht as [Ht1 Ht2].
  pose proof (max_time_nonneg r) as Hnn.
  unfold height_ok, time_ok in *. destruct (in_time i) as [t|], (in_height i) as [h|]; simpl in *; try discriminate.
  - specialize (Hvt _ eq_refl). lia.
  - specialize (Hvt _ eq_refl). lia.
  - apply IH; auto.
Qed.

Theorem compute_timelock_bip370 ins fallback : Forall valid_pin ins ->
  compute_timelock 2 ins fallback = timelock_spec ins fallback.
Proof.
  intros Hv. unfold compute_timelock, timelock_spec.
  change (2 <=? 2) with true. cbv iota.
  rewrite ctl_loop_spec by (intros [? ?]; discriminate).
  cbn [option_map].
  rewrite max_time_from_eq, max_height_from_eq by lia.
  pose proof (max_time_nonneg ins) as Ht0. pose proof (max_height_nonneg ins) as Hh0.
  rewrite !Z.max_r by lia.
  destruct (forallb no_req ins) eqn:En.
  - destruct (all_noreq_ok _ En) as [E1 E2]. destruct (all_noreq_max _ En) as [E3 E4].
    rewrite E1, E2, E3, E4. reflexivity.
  - destruct (forallb height_ok ins) eqn:Eh.
    + pose proof (height_pos _ Hv Eh En) as Hp.
      destruct (forallb time_ok ins); cbn [is_none andb]; destruct (0 <? max_height ins) eqn:E; auto; lia.
    + destruct (forallb time_ok ins) eqn:Et; cbn [is_none andb]; auto.
      pose proof (time_pos _ Hv Et Eh) as Hp. destruct (0 <? max_time ins) eqn:E; auto; lia.
Qed.

(* versions below 2 have no per-input locktimes: the fallback (the unsigned transaction's nLockTime) is used *)
Lemma compute_timelock_v0 v ins fallback : v < 2 ->
  compute_timelock v ins fallback = Some (match fallback with Some f => f | None => 0 end).
Proof. intros H. unfold compute_timelock. destruct (2 <=? v) eqn:E; [lia|reflexivity]. Qed.
End TimeLock.

(* ------------------------------------------------------------------------------------------- *)
(* Merge on maps *)
Section Merge.
Local Open Scope N_scope.

Lemma bytes_eqb_eq a : forall b, bytes_eqb a b = true <-> a = b.
Proof.
  induction a as [|x a IH]; intros [|y b]; simpl; split; intros H; try discriminate; auto.
  - apply andb_prop in H. destruct H as [H1 H2]. apply N.eqb_eq in H1. apply IH in H2. subst. auto.
  - inversion H; subst. rewrite N.eqb_refl. simpl. apply IH. auto.
Qed.

Lemma bytes_eqb_refl a : bytes_eqb a a = true.
Proof. apply bytes_eqb_eq. auto. Qed.

Lemma lookup_app k a b : lookup k (a ++ b) = match lookup k a with Some v => Some v | None => lookup k b end.
Proof. induction a as [|[k' v] a IH]; simpl; auto. destruct (bytes_eqb k k'); auto. Qed.

Lemma lookup_filter_fresh k a b :
  lookup k (filter (fun r => negb (has_key (fst r) a)) b) = if has_key k a then None else lookup k b.
Proof.
  induction b as [|[k' v] b IH]; simpl.
  - destruct (has_key k a); auto.
  - destruct (has_key k' a) eqn:Ek'; simpl.
    + rewrite IH. destruct (bytes_eqb k k') eqn:E; auto. apply bytes_eqb_eq in E. subst. rewrite Ek'. auto.
    + destruct (bytes_eqb k k') eqn:E; auto. apply bytes_eqb_eq in E. subst. rewrite Ek'. auto.
Qed.

Lemma union_lookup k a b :
  lookup k (union_keep a b) = match lookup k a with Some v => Some v | None => lookup k b end.
Proof.
  unfold union_keep. rewrite lookup_app, lookup_filter_fresh. unfold has_key. destruct (lookup k a); auto.
Qed.

Lemma lookup_In k v m : lookup k m = Some v -> In (k, v) m.
Proof.
  induction m as [|[k' v'] m IH]; simpl; [discriminate|].
  destruct (bytes_eqb k k') eqn:E; intros H.
  - apply bytes_eqb_eq in E. inversion H; subst. auto.
  - auto.
Qed.

Lemma In_has_key r m : In r m -> has_key (fst r) m = true.
Proof.
  unfold has_key. induction m as [|[k' v'] m IH]; simpl; [contradiction|].
  intros [H|H].
  - subst. simpl. rewrite bytes_eqb_refl. auto.
  - destruct (bytes_eqb (fst r) k'); auto.
Qed.

(* combining a map with itself changes nothing *)
Lemma union_idem a : union_keep a a = a.
Proof.
  unfold union_keep. replace (filter _ a) with (@nil kv); [apply app_nil_r|].
  symmetry. assert (H : forall l, (forall r, In r l -> In r a) -> filter (fun r => negb (has_key (fst r) a)) l = []).
  { induction l as [|r l IH]; simpl; auto. intros Hin. rewrite (In_has_key r a) by (apply Hin; auto). simpl. apply IH. auto. }
  apply H. auto.
Qed.

Lemma union_assoc k a b c : lookup k (union_keep (union_keep a b) c) = lookup k (union_keep a (union_keep b c)).
Proof. rewrite !union_lookup. destruct (lookup k a); auto. Qed.

Lemma compatible_spec a b : compatible a b = true ->
  forall k v v', lookup k a = Some v -> lookup k b = Some v' -> v = v'.
Proof.
  unfold compatible. rewrite forallb_forall. intros H k v v' Ha Hb.
  specialize (H _ (lookup_In _ _ _ Ha)). simpl in H. rewrite Hb in H. apply bytes_eqb_eq in H. auto.
Qed.

(* without conflicting values the order of combination does not matter *)
Lemma union_comm a b : compatible a b = true -> forall k, lookup k (union_keep a b) = lookup k (union_keep b a).
Proof.
  intros H k. rewrite !union_lookup. destruct (lookup k a) eqn:Ea, (lookup k b) eqn:Eb; auto.
  f_equal. eapply compatible_spec; eauto.
Qed.

(* nothing is dropped, nothing is invented *)
Lemma union_keeps_left k v a b : lookup k a = Some v -> lookup k (union_keep a b) = Some v.
Proof. intros H. rewrite union_lookup, H. auto. Qed.
Lemma union_keeps_right k v a b : lookup k b = Some v -> exists v', lookup k (union_keep a b) = Some v' /\ (lookup k a = None -> v' = v).
Proof.
  intros H. rewrite union_lookup. destruct (lookup k a) as [w|].
  - exists w. split; auto. discriminate.
  - exists v. auto.
Qed.
Lemma union_no_invention k v a b : lookup k (union_keep a b) = Some v -> lookup k a = Some v \/ lookup k b = Some v.
Proof. rewrite union_lookup. destruct (lookup k a); auto. Qed.

(* the executable merge predicate means: the result is the union keeping the first map's values *)
Lemma merge_spec_holds_sound a b out : merge_spec_holds a b out = true ->
  forall k, lookup k out = lookup k (union_keep a b).
Proof.
  unfold merge_spec_holds. intros H.
  apply andb_prop in H. destruct H as [H H3]. apply andb_prop in H. destruct H as [H1 H2].
  rewrite forallb_forall in H1, H2, H3. intros k. rewrite union_lookup.
  destruct (lookup k a) as [v|] eqn:Ea.
  - specialize (H1 _ (lookup_In _ _ _ Ea)). simpl in H1.
    destruct (lookup k out) as [w|]; [|discriminate]. apply bytes_eqb_eq in H1. subst. auto.
  - destruct (lookup k b) as [v|] eqn:Eb.
    + specialize (H2 _ (lookup_In _ _ _ Eb)). simpl in H2. unfold has_key in H2. rewrite Ea in H2. simpl in H2.
      destruct (lookup k out) as [w|]; [|discriminate]. apply bytes_eqb_eq in H2. subst. auto.
    + destruct (lookup k out) as [w|] eqn:Eo; auto.
      specialize (H3 _ (lookup_In _ _ _ Eo)). simpl in H3. unfold has_key in H3. rewrite Ea, Eb in H3. discriminate.
Qed.

(* single-valued fields *)
Lemma keep_first_idem {A} (a : option A) : keep_first a a = a.
Proof. destruct a; auto. Qed.
Lemma keep_first_assoc {A} (a b c : option A) : keep_first (keep_first a b) c = keep_first a (keep_first b c).
Proof. destruct a; auto. Qed.
Lemma keep_first_comm {A} (a b : option A) : (forall x y, a = Some x -> b = Some y -> x = y) -> keep_first a b = keep_first b a.
Proof. destruct a, b; simpl; auto. intros H. f_equal. apply H; auto. Qed.
Lemma keep_first_keeps {A} (a b : option A) x : a = Some x \/ (a = None /\ b = Some x) -> keep_first a b = Some x.
Proof. intros [H|[H1 H2]]; subst; auto. Qed.

(* the modifiable flags *)
Lemma merge_modifiable_comm a b : merge_modifiable a b = merge_modifiable b a.
Proof.
  unfold merge_modifiable. destruct a as [x|], b as [y|]; auto;
    (f_equal; f_equal; [f_equal; apply N.land_comm | f_equal; apply N.lor_comm]).
Qed.

Lemma merge_modifiable_idem x : x < 256 -> merge_modifiable (Some x) (Some x) = Some x.
Proof.
  intros Hx. unfold merge_modifiable. f_equal. rewrite N.land_diag, N.lor_diag.
  assert (H : forallb (fun n => N.lor (N.land (N.of_nat n) 251) (N.land (N.of_nat n) 4) =? N.of_nat n) (seq 0 256) = true)
    by (vm_compute; reflexivity).
  rewrite forallb_forall in H. specialize (H (N.to_nat x)).
  rewrite N2Nat.id in H. apply N.eqb_eq. apply H. apply in_seq. lia.
Qed.
End Merge.

(* ------------------------------------------------------------------------------------------- *)
(* The key-value codec *)
Section Codec.
Local Open Scope N_scope.

Lemma le_enc_length k : forall n, length (le_enc k n) = k.
Proof. induction k as [|k IH]; simpl; auto. Qed.

Lemma le_dec_enc k : forall n, n < 256 ^ N.of_nat k -> le_dec (le_enc k n) = n.
Proof.
  induction k as [|k IH]; intros n Hn.
  - simpl in *. lia.
  - cbn [le_enc le_dec]. rewrite IH.
    + pose proof (N.div_mod' n 256). lia.
    + rewrite Nat2N.inj_succ, N.pow_succ_r' in Hn. apply N.div_lt_upper_bound; lia.
Qed.

Lemma take_bytes_app (d r : bytes) : take_bytes (length d) (d ++ r) = Some (d, r).
Proof.
  unfold take_bytes. rewrite app_length.
  replace (Nat.leb (length d) (length d + length r)) with true by (symmetry; apply Nat.leb_le; lia).
  f_equal. f_equal.
  - induction d; simpl; auto. f_equal; auto.
  - induction d; simpl; auto.
Qed.

Lemma take_bytes_spec k b d r : take_bytes k b = Some (d, r) -> b = d ++ r /\ length d = k.
Proof.
  unfold take_bytes. destruct (Nat.leb k (length b)) eqn:E; [|discriminate].
  intros H. inversion H; subst. apply Nat.leb_le in E. split.
  - symmetry. apply firstn_skipn.
  - apply firstn_length_le. auto.
Qed.

Lemma write_cs_nonempty n : write_cs n <> [].
Proof. unfold write_cs. destruct (n <? 253), (n <=? 65535), (n <=? 4294967295); discriminate. Qed.

Lemma read_write_cs n rest : n <= MAX_SIZE -> read_cs (write_cs n ++ rest) = Some (n, rest).
Proof.
  unfold MAX_SIZE. intros Hn. unfold write_cs.
  destruct (n <? 253) eqn:E1.
  - simpl. rewrite E1. reflexivity.
  - destruct (n <=? 65535) eqn:E2.
    + cbn [app read_cs]. change (253 <? 253) with false. change (253 =? 253) with true. cbv iota.
      change 2%nat with (length (le_enc 2 n)) at 1. rewrite take_bytes_app.
      rewrite le_dec_enc by (change (256 ^ N.of_nat 2) with 65536; lia).
      rewrite E1. unfold MAX_SIZE. replace (33554432 <? n) with false by (symmetry; apply N.ltb_ge; lia). reflexivity.
    + destruct (n <=? 4294967295) eqn:E3; [|lia].
      cbn [app read_cs]. change (254 <? 253) with false. change (254 =? 253) with false. change (254 =? 254) with true. cbv iota.
      change 4%nat with (length (le_enc 4 n)) at 1. rewrite take_bytes_app.
      rewrite le_dec_enc by (change (256 ^ N.of_nat 4) with 4294967296; lia).
      replace (n <? 65536) with false by (symmetry; apply N.ltb_ge; lia).
      unfold MAX_SIZE. replace (33554432 <? n) with false by (symmetry; apply N.ltb_ge; lia). reflexivity.
Qed.

Lemma read_cs_bound b n r : read_cs b = Some (n, r) -> n <= MAX_SIZE.
Proof.
  unfold read_cs. destruct b as [|x b']; [discriminate|].
  destruct (x <? 253) eqn:E.
  - intros H. inversion H; subst. unfold MAX_SIZE. lia.
  - destruct (take_bytes _ b') as [[d r']|]; [|discriminate].
    destruct (le_dec d <? _); [discriminate|]. destruct (MAX_SIZE <? le_dec d) eqn:E2; [discriminate|].
    intros H. inversion H; subst. lia.
Qed.

Lemma read_enc_vec v rest : N.of_nat (length v) <= MAX_SIZE -> read_vec (enc_vec v ++ rest) = Some (v, rest).
Proof.
  intros H. unfold read_vec, enc_vec. rewrite <- app_assoc, read_write_cs by auto.
  rewrite Nat2N.id. apply take_bytes_app.
Qed.

Lemma read_vec_bound b v r : read_vec b = Some (v, r) -> N.of_nat (length v) <= MAX_SIZE.
Proof.
  unfold read_vec. destruct (read_cs b) as [[n r0]|] eqn:E; [|discriminate].
  intros H. apply take_bytes_spec in H. destruct H as [_ H]. rewrite H, N2Nat.id. eapply read_cs_bound; eauto.
Qed.

Lemma enc_vec_nonempty v : enc_vec v <> [].
Proof. unfold enc_vec. pose proof (write_cs_nonempty (N.of_nat (length v))). destruct (write_cs _); [congruence|discriminate]. Qed.

Lemma rec_ok_spec r : rec_ok r = true ->
  fst r <> [] /\ N.of_nat (length (fst r)) <= MAX_SIZE /\ N.of_nat (length (snd r)) <= MAX_SIZE.
Proof.
  unfold rec_ok. intros H. apply andb_prop in H. destruct H as [H H3]. apply andb_prop in H. destruct H as [H1 H2].
  split; [destruct (fst r); [discriminate|congruence]|]. split; lia.
Qed.

Lemma kv_decode_f_step f b seen acc : b <> [] ->
  kv_decode_f (S f) b seen acc =
    match read_vec b with
    | None => KvBadStream
    | Some (key, r) =>
      match key with
      | [] => KvOk (rev acc) r
      | _ => if mem_key key seen then KvDuplicate
             else match read_vec r with
                  | None => KvBadStream
                  | Some (v, r') => kv_decode_f f r' (key :: seen) ((key, v) :: acc)
                  end
      end
    end.
Proof. destruct b; [congruence|reflexivity]. Qed.

Lemma app_nonempty_l {A} (a b : list A) : a <> [] -> a ++ b <> [].
Proof. destruct a; [congruence|discriminate]. Qed.

(* decode after encode, with any already-seen keys that are fresh for the map and any accumulated records *)
Lemma kv_decode_f_encode : forall m fuel rest seen acc,
  (length m < fuel)%nat -> forallb rec_ok m = true -> keys_fresh seen m = true ->
  kv_decode_f fuel (flat_map kv_enc_rec m ++ [0] ++ rest) seen acc = KvOk (rev acc ++ m) rest.
Proof.
  induction m as [|[k v] m IH]; intros fuel rest seen acc Hf Hok Hfr.
  - destruct fuel as [|f]; [simpl in Hf; lia|]. simpl. rewrite app_nil_r. reflexivity.
  - destruct fuel as [|f]; [simpl in Hf; lia|].
    simpl in Hok. apply andb_prop in Hok. destruct Hok as [Hr Hok].
    apply rec_ok_spec in Hr. simpl in Hr. destruct Hr as [Hk [Hkl Hvl]].
    simpl in Hfr. apply andb_prop in Hfr. destruct Hfr as [Hfr1 Hfr2]. apply negb_true_iff in Hfr1.
    cbn [flat_map]. unfold kv_enc_rec at 1. cbn [fst snd].
    rewrite <- !app_assoc.
    rewrite kv_decode_f_step by (apply app_nonempty_l; apply enc_vec_nonempty).
    rewrite read_enc_vec by auto.
    destruct k as [|k0 k']; [congruence|].
    rewrite Hfr1. rewrite read_enc_vec by auto.
    rewrite IH; auto; [|simpl in Hf; lia].
    simpl. rewrite <- app_assoc. reflexivity.
Qed.

Lemma flat_map_length_ge m : (length m <= length (flat_map kv_enc_rec m))%nat.
Proof.
  induction m as [|r m IH]; simpl; auto. rewrite app_length.
  assert (1 <= length (kv_enc_rec r))%nat.
  { unfold kv_enc_rec. rewrite app_length. pose proof (enc_vec_nonempty (fst r)). destruct (enc_vec (fst r)); [congruence|simpl; lia]. }
  lia.
Qed.

(* every well-formed map round-trips, whatever follows it in the stream *)
Theorem kv_roundtrip m rest : kv_wf m = true -> kv_decode (kv_encode m ++ rest) = KvOk m rest.
Proof.
  unfold kv_wf, kv_decode, kv_encode. intros H. apply andb_prop in H. destruct H as [H1 H2].
  rewrite <- app_assoc. rewrite kv_decode_f_encode; auto.
  rewrite !app_length. pose proof (flat_map_length_ge m). simpl. lia.
Qed.

(* what the decoder accepts is a well-formed map *)
Lemma keys_fresh_app seen a b :
  keys_fresh seen (a ++ b) = keys_fresh seen a && keys_fresh (rev (map fst a) ++ seen) b.
Proof.
  revert seen. induction a as [|r a IH]; intros seen; simpl; auto.
  rewrite IH. rewrite <- app_assoc. simpl. rewrite andb_assoc. reflexivity.
Qed.

Lemma kv_decode_f_wf : forall fuel b seen acc m rest,
  kv_decode_f fuel b seen acc = KvOk m rest ->
  exists m', m = rev acc ++ m' /\ forallb rec_ok m' = true /\ keys_fresh seen m' = true.
Proof.
  induction fuel as [|f IH]; intros b seen acc m rest H; [discriminate|].
  cbn [kv_decode_f] in H. destruct b as [|b0 b']; [discriminate|].
  destruct (read_vec (b0 :: b')) as [[key r]|] eqn:Ek; [|discriminate].
  destruct key as [|k0 k'].
  - inversion H; subst. exists []. rewrite app_nil_r. auto.
  - destruct (mem_key (k0 :: k') seen) eqn:Em; [discriminate|].
    destruct (read_vec r) as [[v r']|] eqn:Ev; [|discriminate].
    apply IH in H. destruct H as [m' [Hm [Hok Hfr]]].
    exists ((k0 :: k', v) :: m'). split; [|split].
    + rewrite Hm. simpl. rewrite <- app_assoc. reflexivity.
    + simpl. rewrite Hok. apply read_vec_bound in Ek. apply read_vec_bound in Ev.
      unfold rec_ok. simpl fst. simpl snd. cbv iota.
      replace (N.of_nat (length (k0 :: k')) <=? MAX_SIZE) with true by (symmetry; apply N.leb_le; auto).
      replace (N.of_nat (length v) <=? MAX_SIZE) with true by (symmetry; apply N.leb_le; auto). reflexivity.
    + simpl. rewrite Em. simpl. exact Hfr.
Qed.

Lemma kv_decode_wf b m rest : kv_decode b = KvOk m rest -> kv_wf m = true.
Proof.
  unfold kv_decode, kv_wf. intros H. apply kv_decode_f_wf in H. destruct H as [m' [Hm [Hok Hfr]]].
  simpl in Hm. subst. rewrite Hok, Hfr. reflexivity.
Qed.

(* whatever the decoder accepts re-encodes to bytes that decode to the same map *)
Theorem kv_reencode_stable b m rest : kv_decode b = KvOk m rest -> kv_decode (kv_encode m ++ rest) = KvOk m rest.
Proof. intros H. apply kv_roundtrip. eapply kv_decode_wf; eauto. Qed.

(* a key that was already read is rejected: the stream that repeats a key of the map (or of `seen`) after the
   records of a well-formed map is refused with the duplicate-key error, whatever value and bytes follow *)
Lemma mem_key_app k a b : mem_key k (a ++ b) = mem_key k a || mem_key k b.
Proof. unfold mem_key. apply existsb_app. Qed.

Lemma kv_decode_f_duplicate : forall m fuel seen acc k more,
  (length m < fuel)%nat -> forallb rec_ok m = true -> keys_fresh seen m = true ->
  k <> [] -> N.of_nat (length k) <= MAX_SIZE ->
  mem_key k (rev (map fst m) ++ seen) = true ->
  kv_decode_f fuel (flat_map kv_enc_rec m ++ enc_vec k ++ more) seen acc = KvDuplicate.
Proof.
  induction m as [|[k1 v1] m IH]; intros fuel seen acc k more Hf Hok Hfr Hk Hkl Hmem.
  - destruct fuel as [|f]; [simpl in Hf; lia|]. cbn [flat_map app].
    rewrite kv_decode_f_step by (apply app_nonempty_l; apply enc_vec_nonempty).
    rewrite read_enc_vec by auto. destruct k as [|k0 k']; [congruence|].
    simpl in Hmem. rewrite Hmem. reflexivity.
  - destruct fuel as [|f]; [simpl in Hf; lia|].
    simpl in Hok. apply andb_prop in Hok. destruct Hok as [Hr Hok].
    apply rec_ok_spec in Hr. simpl in Hr. destruct Hr as [Hk1 [Hkl1 Hvl1]].
    simpl in Hfr. apply andb_prop in Hfr. destruct Hfr as [Hfr1 Hfr2]. apply negb_true_iff in Hfr1.
    cbn [flat_map]. unfold kv_enc_rec at 1. cbn [fst snd].
    rewrite <- !app_assoc.
    rewrite kv_decode_f_step by (apply app_nonempty_l; apply enc_vec_nonempty).
    rewrite read_enc_vec by auto.
    destruct k1 as [|k0 k']; [congruence|].
    rewrite Hfr1. rewrite read_enc_vec by auto.
    apply IH; auto; [simpl in Hf; lia|].
    simpl in Hmem. rewrite <- app_assoc in Hmem. exact Hmem.
Qed.

Theorem kv_duplicate_key_rejected m k v more :
  kv_wf m = true -> has_key k m = true -> k <> [] -> N.of_nat (length k) <= MAX_SIZE ->
  kv_decode (flat_map kv_enc_rec m ++ kv_enc_rec (k, v) ++ more) = KvDuplicate.
Proof.
  unfold kv_wf, kv_decode. intros H Hhas Hk Hkl. apply andb_prop in H. destruct H as [H1 H2].
  change (kv_enc_rec (k, v)) with (enc_vec k ++ enc_vec v). rewrite <- !app_assoc.
  apply kv_decode_f_duplicate; auto.
  - rewrite app_length. pose proof (flat_map_length_ge m). lia.
  - rewrite app_nil_r. apply existsb_exists.
    unfold has_key in Hhas. destruct (lookup k m) as [w|] eqn:El; [|discriminate].
    apply lookup_In in El. exists k. split; [|apply bytes_eqb_refl].
    apply in_rev. rewrite rev_involutive. apply in_map_iff. exists (k, w). auto.
Qed.
End Codec.
