(* C21 part B: what CustomAppend / RevertBlock do to the MuHash and to the counters, separately. *)
From Coq Require Import NArith Znumtheory Permutation.
From BV Require Import lib.Ints model.CryptoBase model.MuHash model.Index model.IndexCoinStats
  proofs.MuHashArith proofs.MuHashLemmas proofs.MuHashVal.
Local Open Scope Z_scope.

(* ---------- entries created and spent by a transaction / block ---------- *)
Fixpoint created_from (height : Z) (t : tx) (j : Z) (outs : list txout) : list utxo_entry :=
  match outs with
  | [] => []
  | o :: r => if is_unspendable (o_script o) then created_from height t (j + 1) r
              else entry_of_out height t j o :: created_from height t (j + 1) r
  end.
Definition tx_skipped (bip30 : bool) (t : tx) : bool := t_coinbase t && bip30.
Definition tx_created (bip30 : bool) (height : Z) (t : tx) : list utxo_entry :=
  if tx_skipped bip30 t then [] else created_from height t 0 (t_outs t).
Definition tx_spent (bip30 : bool) (t : tx) : list utxo_entry :=
  if tx_skipped bip30 t then [] else if t_coinbase t then [] else map (fun i => (i_prevout i, i_coin i)) (t_ins t).
Definition ins_ops (l : list utxo_entry) : list mh_op := map (fun e => MhInsert (txout_ser e)) l.
Definition rem_ops (l : list utxo_entry) : list mh_op := map (fun e => MhRemove (txout_ser e)) l.
Definition tx_ops (bip30 : bool) (height : Z) (t : tx) : list mh_op :=
  ins_ops (tx_created bip30 height t) ++ rem_ops (tx_spent bip30 t).
Definition block_bip30 (b : block) : bool := is_bip30_unspendable (b_hash b) (b_height b).
Definition block_ops (b : block) : list mh_op := flat_map (tx_ops (block_bip30 b) (b_height b)) (b_txs b).
Definition block_created (b : block) : list utxo_entry := flat_map (tx_created (block_bip30 b) (b_height b)) (b_txs b).
Definition block_spent (b : block) : list utxo_entry := flat_map (tx_spent (block_bip30 b)) (b_txs b).

Lemma mh_run_ins_ops l m : mh_run (ins_ops l) m = fold_left apply_coin_hash l m.
Proof. revert m. induction l as [| e l IH]; intros m; [ reflexivity | apply IH ]. Qed.
Lemma mh_run_rem_ops l m : mh_run (rem_ops l) m = fold_left remove_coin_hash l m.
Proof. revert m. induction l as [| e l IH]; intros m; [ reflexivity | apply IH ]. Qed.
Lemma inv_ins_ops l : map mh_op_inv (ins_ops l) = rem_ops l.
Proof. unfold ins_ops, rem_ops. rewrite map_map. reflexivity. Qed.
Lemma inv_rem_ops l : map mh_op_inv (rem_ops l) = ins_ops l.
Proof. unfold ins_ops, rem_ops. rewrite map_map. reflexivity. Qed.

(* ---------- the MuHash component of the loops ---------- *)
Definition acc_m (a : muhash * dbval * Z) : muhash := fst (fst a).
Definition acc_v (a : muhash * dbval * Z) : dbval := snd (fst a).
Definition acc_j (a : muhash * dbval * Z) : Z := snd a.

Lemma append_out_m height t : forall outs m v j,
  acc_m (fold_left (append_out height t) outs (m, v, j)) = mh_run (ins_ops (created_from height t j outs)) m.
Proof.
  induction outs as [| o r IH]; intros m v j; [ reflexivity | ].
  cbn [fold_left]. unfold append_out at 2. cbn [created_from].
  destruct (is_unspendable (o_script o)); rewrite IH; reflexivity.
Qed.

(* the counters do not depend on the MuHash *)
Lemma append_out_v height t : forall outs m m' v j,
  acc_v (fold_left (append_out height t) outs (m, v, j)) = acc_v (fold_left (append_out height t) outs (m', v, j)).
Proof.
  induction outs as [| o r IH]; intros m m' v j; [ reflexivity | ].
  cbn [fold_left]. unfold append_out at 2 4.
  destruct (is_unspendable (o_script o)); apply IH.
Qed.

Lemma append_in_m : forall ins m v,
  fst (fold_left append_in ins (m, v)) = mh_run (rem_ops (map (fun i => (i_prevout i, i_coin i)) ins)) m.
Proof. induction ins as [| i r IH]; intros m v; [ reflexivity | ]. cbn [fold_left]. unfold append_in at 2. rewrite IH. reflexivity. Qed.
Lemma append_in_v : forall ins m m' v,
  snd (fold_left append_in ins (m, v)) = snd (fold_left append_in ins (m', v)).
Proof. induction ins as [| i r IH]; intros m m' v; [ reflexivity | ]. cbn [fold_left]. unfold append_in at 2 4. apply IH. Qed.

Lemma surj3 (a : muhash * dbval * Z) : a = (acc_m a, acc_v a, acc_j a).
Proof. destruct a as [[m v] j]. reflexivity. Qed.

Lemma append_tx_m bip30 subsidy height t m v :
  fst (append_tx bip30 subsidy height (m, v) t) = mh_run (tx_ops bip30 height t) m.
Proof.
  unfold append_tx, tx_ops, tx_created, tx_spent, tx_skipped.
  destruct (t_coinbase t && bip30) eqn:Es; [ reflexivity | ].
  rewrite (surj3 (fold_left (append_out height t) (t_outs t) (m, v, 0))).
  rewrite append_out_m. rewrite mh_run_app.
  destruct (t_coinbase t); [ reflexivity | ]. rewrite append_in_m. reflexivity.
Qed.
Lemma append_tx_v bip30 subsidy height t m m' v :
  snd (append_tx bip30 subsidy height (m, v) t) = snd (append_tx bip30 subsidy height (m', v) t).
Proof.
  unfold append_tx. destruct (t_coinbase t && bip30); [ reflexivity | ].
  rewrite (surj3 (fold_left (append_out height t) (t_outs t) (m, v, 0))).
  rewrite (surj3 (fold_left (append_out height t) (t_outs t) (m', v, 0))).
  rewrite (append_out_v height t (t_outs t) m m' v 0).
  destruct (t_coinbase t); [ reflexivity | ]. apply append_in_v.
Qed.

Lemma append_txs_m bip30 subsidy height : forall txs m v,
  fst (fold_left (append_tx bip30 subsidy height) txs (m, v)) = mh_run (flat_map (tx_ops bip30 height) txs) m.
Proof.
  induction txs as [| t r IH]; intros m v; [ reflexivity | ].
  cbn [fold_left]. rewrite (surjective_pairing (append_tx bip30 subsidy height (m, v) t)).
  rewrite IH, append_tx_m. cbn [flat_map]. rewrite mh_run_app. reflexivity.
Qed.
Lemma append_txs_v bip30 subsidy height : forall txs m m' v,
  snd (fold_left (append_tx bip30 subsidy height) txs (m, v)) = snd (fold_left (append_tx bip30 subsidy height) txs (m', v)).
Proof.
  induction txs as [| t r IH]; intros m m' v; [ reflexivity | ].
  cbn [fold_left].
  rewrite (surjective_pairing (append_tx bip30 subsidy height (m, v) t)).
  rewrite (surjective_pairing (append_tx bip30 subsidy height (m', v) t)).
  rewrite (append_tx_v bip30 subsidy height t m m' v). apply IH.
Qed.

(* RevertBlock: the inverse operations, in the same order *)
Lemma revert_out_m height t : forall outs m j,
  fst (fold_left (revert_out height t) outs (m, j)) = mh_run (rem_ops (created_from height t j outs)) m.
Proof.
  induction outs as [| o r IH]; intros m j; [ reflexivity | ].
  cbn [fold_left]. unfold revert_out at 2. cbn [created_from].
  destruct (is_unspendable (o_script o)); simpl negb; cbv iota; rewrite IH; reflexivity.
Qed.
Lemma revert_in_m : forall ins m,
  fold_left revert_in ins m = mh_run (ins_ops (map (fun i => (i_prevout i, i_coin i)) ins)) m.
Proof. induction ins as [| i r IH]; intros m; [ reflexivity | ]. cbn [fold_left]. rewrite IH. reflexivity. Qed.
Lemma revert_tx_m bip30 height t m :
  revert_tx bip30 height m t = mh_run (map mh_op_inv (tx_ops bip30 height t)) m.
Proof.
  unfold revert_tx, tx_ops, tx_created, tx_spent, tx_skipped.
  destruct (t_coinbase t && bip30) eqn:Es; [ reflexivity | ].
  rewrite map_app, inv_ins_ops, inv_rem_ops, mh_run_app.
  rewrite (surjective_pairing (fold_left (revert_out height t) (t_outs t) (m, 0))). rewrite revert_out_m.
  destruct (t_coinbase t); [ reflexivity | ]. apply revert_in_m.
Qed.
Lemma revert_txs_m bip30 height : forall txs m,
  fold_left (revert_tx bip30 height) txs m = mh_run (map mh_op_inv (flat_map (tx_ops bip30 height) txs)) m.
Proof.
  induction txs as [| t r IH]; intros m; [ reflexivity | ].
  cbn [fold_left]. rewrite IH, revert_tx_m. cbn [flat_map]. rewrite map_app, mh_run_app. reflexivity.
Qed.
