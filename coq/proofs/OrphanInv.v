(* The consistency invariant of the orphanage (TxOrphanageImpl::SanityCheck) and its preservation by the two
   primitives that change m_orphans: Erase and the emplace of AddTx / AddAnnouncer. *)
From BV Require Import lib.Ints gen.Params_gen model.Orphanage proofs.OrphanBasics.
Local Open Scope Z_scope.

Definition akey (a : oann) : Z * Z := (o_wtxid a, o_peer a).
Definition okeys (l : list oann) : Prop := NoDup (map akey l).

Lemma is_oann_true w p a : is_oann w p a = true <-> akey a = (w, p).
Proof. unfold is_oann, akey. rewrite andb_true_iff, !Z.eqb_eq. split; [intros [-> ->]; auto | intros H; inversion H; auto]. Qed.
Lemma has_wtxid_true w a : has_wtxid w a = true <-> o_wtxid a = w.
Proof. unfold has_wtxid. apply Z.eqb_eq. Qed.
Lemma from_peer_true p a : from_peer p a = true <-> o_peer a = p.
Proof. unfold from_peer. apply Z.eqb_eq. Qed.

Lemma okeys_same l a b : okeys l -> In a l -> In b l -> akey a = akey b -> a = b.
Proof.
  unfold okeys. induction l as [|x l IH]; intros N Ha Hb K; [contradiction|]. simpl in N. inversion N; subst.
  destruct Ha as [->|Ha], Hb as [->|Hb]; auto.
  - exfalso. apply H1. rewrite K. apply in_map. auto.
  - exfalso. apply H1. rewrite <- K. apply in_map. auto.
Qed.

Definition drop_key (a : oann) (l : list oann) : list oann := filter (fun b => negb (is_oann (o_wtxid a) (o_peer a) b)) l.

(* the list around the announcement with a given key *)
Lemma okeys_split l a : okeys l -> In a l ->
  exists l1 l2, l = l1 ++ a :: l2 /\ drop_key a l = l1 ++ l2 /\ (forall b, In b (l1 ++ l2) -> akey b <> akey a).
Proof.
  intros N Ha. destruct (in_split _ _ Ha) as [l1 [l2 ->]]. exists l1, l2. split; [reflexivity|].
  assert (K : forall b, In b (l1 ++ l2) -> akey b <> akey a).
  { intros b Hb E. unfold okeys in N. rewrite map_app in N. simpl in N. apply NoDup_remove_2 in N. apply N.
    rewrite <- map_app, <- E. apply in_map. exact Hb. }
  split; [|exact K]. unfold drop_key. rewrite filter_app. cbn [filter].
  assert (Ka : is_oann (o_wtxid a) (o_peer a) a = true) by (apply is_oann_true; reflexivity). rewrite Ka. cbn [negb].
  assert (F : forall m, (forall b, In b m -> akey b <> akey a) -> filter (fun b => negb (is_oann (o_wtxid a) (o_peer a) b)) m = m).
  { intros m Hm. induction m as [|x m IHm]; [reflexivity|]. cbn [filter].
    destruct (is_oann (o_wtxid a) (o_peer a) x) eqn:E.
    - exfalso. apply is_oann_true in E. apply (Hm x (or_introl eq_refl)). exact E.
    - cbn [negb]. f_equal. apply IHm. intros b Hb. apply Hm. right. auto. }
  rewrite (F l1), (F l2); [reflexivity| |]; intros b Hb; apply K; apply in_or_app; auto.
Qed.

Lemma in_drop_key a l b : In b (drop_key a l) <-> In b l /\ akey b <> akey a.
Proof.
  unfold drop_key. rewrite filter_In, negb_true_iff. split; intros [H1 H2]; split; auto.
  - intros E. apply is_oann_true in E. congruence.
  - destruct (is_oann (o_wtxid a) (o_peer a) b) eqn:E; [|reflexivity]. apply is_oann_true in E. contradiction.
Qed.
Lemma okeys_drop a l : okeys l -> okeys (drop_key a l).
Proof.
  unfold okeys, drop_key. induction l as [|x l IH]; intros N; [constructor|]. simpl in N. inversion N; subst. cbn [filter].
  destruct (negb (is_oann (o_wtxid a) (o_peer a) x)); [|auto]. simpl. constructor; [|auto].
  intros H. apply H1. apply in_map_iff in H. destruct H as [y [Ey Hy]]. apply filter_In in Hy. apply in_map_iff. exists y. tauto.
Qed.

Lemma dedup_sum_le (f : Z -> Z) l : (forall x, In x l -> 0 <= f x) -> zsum_map f (dedup l) <= zsum_map f l.
Proof.
  induction l as [|x l IH]; intros H; [simpl; lia|]. cbn [dedup zsum_map].
  pose proof (H x (or_introl eq_refl)). assert (zsum_map f (dedup l) <= zsum_map f l) by (apply IH; intros y Hy; apply H; right; auto).
  destruct (set_mem x l); cbn [zsum_map]; lia.
Qed.
Lemma dedup_length_le l : (length (dedup l) <= length l)%nat.
Proof. induction l as [|x l IH]; [simpl; lia|]. cbn [dedup length]. destruct (set_mem x l); cbn [length]; lia. Qed.

Section OInv.
Variable tx_of : Z -> otx.
Hypothesis tx_wtxid : forall w, x_wtxid (tx_of w) = w.
(* every input takes at least 41 bytes of the serialization without witness, i.e. 164 weight units *)
Hypothesis tx_inputs_weight : forall w, 164 * Z.of_nat (length (x_inputs (tx_of w))) <= x_weight (tx_of w).
Hypothesis tx_weight_nonneg : forall w, 0 <= x_weight (tx_of w).

Definition wt (w : Z) : Z := x_weight (tx_of w).
Definition lsc (w : Z) : Z := 1 + Z.of_nat (length (x_inputs (tx_of w))) / 10.
Definition dsum (f : Z -> Z) (l : list oann) : Z := zsum_map f (wtxids_of l).
Definition MAXLAT_LIMIT : Z := 1000000.

(* the announcements carry the transaction their wtxid denotes, and it passed AddTx's weight check *)
Definition txs_ok (l : list oann) : Prop :=
  forall a, In a l -> o_tx a = tx_of (o_wtxid a) /\ x_weight (o_tx a) <= ORPHAN_MAX_TX_WEIGHT.

Lemma max_weight_val : ORPHAN_MAX_TX_WEIGHT = 400000.
Proof. reflexivity. Qed.

Lemma ann_bounds l a : txs_ok l -> In a l ->
  0 <= mem_usage a <= 400000 /\ latency_score a = lsc (o_wtxid a) /\ 1 <= lsc (o_wtxid a) <= 245 /\ mem_usage a = wt (o_wtxid a).
Proof.
  intros T Ha. destruct (T a Ha) as [E W]. rewrite max_weight_val in W. unfold mem_usage, latency_score, lsc, wt. rewrite E in *.
  pose proof (tx_inputs_weight (o_wtxid a)) as I. pose proof (tx_weight_nonneg (o_wtxid a)) as N.
  set (n := Z.of_nat (length (x_inputs (tx_of (o_wtxid a))))) in *. assert (0 <= n) by (unfold n; lia).
  assert (n / 10 <= 244) by (apply Z.div_le_upper_bound; lia). assert (0 <= n / 10) by (apply Z.div_pos; lia).
  repeat split; try lia. apply wrapu32_id. unfold UINT32_MAX. lia.
Qed.

Record OWF (g : orph) : Prop := mkOWF {
  ow_bad : g_bad g = false;
  ow_keys : okeys (g_anns g);
  ow_txs : txs_ok (g_anns g);
  ow_pnodup : NoDup (map fst (g_peers g));
  ow_peers : forall p, peer_find p (g_peers g) =
                       (if length (filter (from_peer p) (g_anns g)) =? 0 then None else Some (recompute_peer (g_anns g) p))%nat;
  ow_unique : g_unique g = Z.of_nat (length (wtxids_of (g_anns g)));
  ow_usage : g_usage g = dsum wt (g_anns g);
  ow_inscores : g_inscores g = dsum (fun w => lsc w - 1) (g_anns g);
  ow_outmap : forall k w, In w (g_outmap g k) <-> (In w (wtxids_of (g_anns g)) /\ In k (x_inputs (tx_of w)));
  ow_outnodup : forall k, NoDup (g_outmap g k);
  ow_recon : forall w, In w (g_recon g) <-> exists a, In a (g_anns g) /\ o_wtxid a = w /\ o_reconsider a = true;
  ow_recnodup : NoDup (g_recon g);
  ow_recone : forall a b, In a (g_anns g) -> In b (g_anns g) -> o_wtxid a = o_wtxid b ->
                          o_reconsider a = true -> o_reconsider b = true -> a = b;
  ow_len : Z.of_nat (length (g_anns g)) <= g_maxlat g + 1;
  ow_maxlat : 0 < g_maxlat g <= MAXLAT_LIMIT;
  ow_reserved : 0 < g_reserved g <= INT32_MAX }.

(* ---------- list-level effect of removing one announcement ---------- *)
Lemma wtxids_drop l a : okeys l -> In a l ->
  forall f, dsum f (drop_key a l) = dsum f l - (if is_unique l a then f (o_wtxid a) else 0).
Proof.
  intros N Ha f. destruct (okeys_split l a N Ha) as [l1 [l2 [-> [D K]]]]. rewrite D.
  unfold dsum, wtxids_of. rewrite !map_app. cbn [map]. rewrite (dedup_sum_remove f _ (o_wtxid a)).
  assert (U : is_unique (l1 ++ a :: l2) a = negb (set_mem (o_wtxid a) (map o_wtxid l1 ++ map o_wtxid l2))).
  { unfold is_unique. f_equal. rewrite <- map_app.
    destruct (set_mem (o_wtxid a) (map o_wtxid (l1 ++ l2))) eqn:M.
    - apply set_mem_true in M. apply in_map_iff in M. destruct M as [b [Eb Hb]].
      apply existsb_exists. exists b. split; [apply in_app_iff in Hb; apply in_app_iff; simpl; tauto|].
      unfold has_wtxid. rewrite Eb, Z.eqb_refl. cbn [andb]. apply negb_true_iff. apply Z.eqb_neq. intros Ep.
      apply (K b Hb). unfold akey. congruence.
    - apply set_mem_false in M. destruct (existsb _ (l1 ++ a :: l2)) eqn:X; [|reflexivity]. exfalso.
      apply existsb_exists in X. destruct X as [b [Hb E]]. apply andb_true_iff in E. destruct E as [E1 E2].
      apply has_wtxid_true in E1. apply negb_true_iff, Z.eqb_neq in E2.
      apply M. apply in_map_iff. exists b. split; auto. apply in_app_iff in Hb. apply in_app_iff.
      destruct Hb as [Hb|[Hb|Hb]]; auto. subst b. contradiction. }
  rewrite U. destruct (set_mem (o_wtxid a) (map o_wtxid l1 ++ map o_wtxid l2)); cbn [negb]; lia.
Qed.

Lemma in_wtxids l w : In w (wtxids_of l) <-> exists b, In b l /\ o_wtxid b = w.
Proof. unfold wtxids_of. rewrite in_dedup, in_map_iff. split; intros [b [A B]]; exists b; auto. Qed.

Lemma is_unique_spec l a : is_unique l a = true <-> (forall b, In b l -> o_wtxid b = o_wtxid a -> o_peer b = o_peer a).
Proof.
  unfold is_unique. rewrite negb_true_iff. split.
  - intros E b Hb Ew. destruct (Z.eq_dec (o_peer b) (o_peer a)) as [|N]; [auto|]. exfalso.
    assert (X : existsb (fun b0 => has_wtxid (o_wtxid a) b0 && negb (o_peer b0 =? o_peer a)) l = true).
    { apply existsb_exists. exists b. split; auto. unfold has_wtxid. rewrite Ew, Z.eqb_refl. cbn [andb].
      apply negb_true_iff, Z.eqb_neq. exact N. }
    congruence.
  - intros H. destruct (existsb _ l) eqn:X; [|reflexivity]. exfalso. apply existsb_exists in X.
    destruct X as [b [Hb E]]. apply andb_true_iff in E. destruct E as [E1 E2]. apply has_wtxid_true in E1.
    apply negb_true_iff, Z.eqb_neq in E2. apply E2. apply H; auto.
Qed.

Lemma in_wtxids_drop l a w : okeys l -> In a l ->
  (In w (wtxids_of (drop_key a l)) <-> In w (wtxids_of l) /\ (w <> o_wtxid a \/ is_unique l a = false)).
Proof.
  intros N Ha. rewrite !in_wtxids. split.
  - intros [b [Hb Eb]]. apply in_drop_key in Hb. destruct Hb as [Hb Kb]. split; [exists b; auto|].
    destruct (Z.eq_dec w (o_wtxid a)) as [->|]; [right|left; auto].
    destruct (is_unique l a) eqn:U; [|reflexivity]. exfalso. rewrite is_unique_spec in U.
    apply Kb. unfold akey. rewrite Eb. f_equal. apply U; auto.
  - intros [[b [Hb Eb]] [Nw|U]].
    + exists b. split; auto. apply in_drop_key. split; auto. intros E. apply Nw. unfold akey in E. inversion E. congruence.
    + destruct (Z.eq_dec w (o_wtxid a)) as [->|Nw].
      * assert (X : ~ (forall c, In c l -> o_wtxid c = o_wtxid a -> o_peer c = o_peer a)).
        { intros X. apply is_unique_spec in X. congruence. }
        (* some other announcement has the wtxid *)
        destruct (existsb (fun c => has_wtxid (o_wtxid a) c && negb (o_peer c =? o_peer a)) l) eqn:Y.
        -- apply existsb_exists in Y. destruct Y as [c [Hc E]]. apply andb_true_iff in E. destruct E as [E1 E2].
           apply has_wtxid_true in E1. apply negb_true_iff, Z.eqb_neq in E2. exists c. split; auto.
           apply in_drop_key. split; auto. intros E. unfold akey in E. inversion E. contradiction.
        -- exfalso. unfold is_unique in U. rewrite Y in U. discriminate.
      * exists b. split; auto. apply in_drop_key. split; auto. intros E. apply Nw. unfold akey in E. inversion E. congruence.
Qed.

Lemma filter_drop_other p a l : o_peer a <> p -> filter (from_peer p) (drop_key a l) = filter (from_peer p) l.
Proof.
  intros N. unfold drop_key. induction l as [|x l IH]; [reflexivity|]. cbn [filter].
  destruct (is_oann (o_wtxid a) (o_peer a) x) eqn:E; cbn [negb filter].
  - apply is_oann_true in E. unfold akey in E. assert (Ep : o_peer x = o_peer a) by congruence.
    assert (X : from_peer p x = false) by (unfold from_peer; apply Z.eqb_neq; congruence). rewrite X. exact IH.
  - destruct (from_peer p x); [f_equal|]; exact IH.
Qed.

Lemma recompute_drop_other p a l : o_peer a <> p -> recompute_peer (drop_key a l) p = recompute_peer l p.
Proof. intros N. unfold recompute_peer. rewrite filter_drop_other by auto. reflexivity. Qed.

Lemma filter_drop_same a l : okeys l -> In a l ->
  exists m1 m2, filter (from_peer (o_peer a)) l = m1 ++ a :: m2 /\ filter (from_peer (o_peer a)) (drop_key a l) = m1 ++ m2.
Proof.
  intros N Ha. destruct (okeys_split l a N Ha) as [l1 [l2 [-> [D K]]]]. rewrite D.
  exists (filter (from_peer (o_peer a)) l1), (filter (from_peer (o_peer a)) l2).
  rewrite !filter_app. cbn [filter]. unfold from_peer at 2. rewrite Z.eqb_refl. auto.
Qed.

Lemma set_del_idem w s : set_del w (set_del w s) = set_del w s.
Proof.
  unfold set_del. induction s as [|x s IH]; [reflexivity|]. cbn [filter]. destruct (negb (x =? w)) eqn:E; cbn [filter].
  - rewrite E. f_equal. exact IH.
  - exact IH.
Qed.
Lemma set_add_idem w s : set_add w (set_add w s) = set_add w s.
Proof.
  unfold set_add at 1. destruct (set_mem w (set_add w s)) eqn:E; [reflexivity|].
  apply set_mem_false in E. exfalso. apply E. apply in_set_add. auto.
Qed.

Lemma sums_of_peer_bounds l m : txs_ok l -> (forall b, In b m -> In b l) ->
  0 <= zsum_map mem_usage m <= 400000 * Z.of_nat (length m) /\
  Z.of_nat (length m) <= zsum_map latency_score m <= 245 * Z.of_nat (length m).
Proof.
  intros T Sub. induction m as [|x m IH]; [cbn; lia|]. cbn [zsum_map length].
  destruct (ann_bounds l x T (Sub x (or_introl eq_refl))) as [B1 [B2 [B3 _]]].
  destruct IH as [I1 I2]; [intros b Hb; apply Sub; right; auto|]. rewrite B2. lia.
Qed.

Lemma length_filter_le {A} (P : A -> bool) l : (length (filter P l) <= length l)%nat.
Proof. induction l as [|x l IH]; [simpl; lia|]. cbn [filter]. destruct (P x); cbn [length]; lia. Qed.

Lemma dsum_bounds l f b : txs_ok l -> (forall w, 0 <= f w) -> (forall a, In a l -> f (o_wtxid a) <= b) ->
  0 <= dsum f l <= b * Z.of_nat (length l).
Proof.
  intros T N B. unfold dsum, wtxids_of. split; [apply zsum_map_nonneg; intros; apply N|].
  eapply Z.le_trans; [apply dedup_sum_le; intros; apply N|].
  assert (E : zsum_map f (map o_wtxid l) = zsum_map (fun a => f (o_wtxid a)) l).
  { clear. induction l as [|x l IH]; [reflexivity|]. cbn [map zsum_map]. rewrite IH. reflexivity. }
  rewrite E. apply zsum_map_le. exact B.
Qed.

Lemma erase_ann_spec g a : OWF g -> In a (g_anns g) ->
  g_anns (erase_ann g a) = drop_key a (g_anns g) /\ OWF (erase_ann g a) /\
  g_seq (erase_ann g a) = g_seq g /\ g_maxlat (erase_ann g a) = g_maxlat g /\ g_reserved (erase_ann g a) = g_reserved g.
Proof.
  intros W Ha. destruct W as [Hbad Hk Ht Hpn Hp Hu Hus Hin Hom Hon Hr Hrn Hro Hlen Hml Hres].
  set (L := g_anns g) in *. set (w := o_wtxid a). set (p := o_peer a).
  destruct (ann_bounds L a Ht Ha) as [Bm [Bl [Bl2 Bw]]]. fold w in Bl, Bl2, Bw.
  destruct (filter_drop_same a L Hk Ha) as [m1 [m2 [F1 F2]]]. fold p in F1, F2.
  assert (SubM : forall b, In b (m1 ++ a :: m2) -> In b L).
  { intros b Hb. rewrite <- F1 in Hb. apply filter_In in Hb. tauto. }
  assert (SubM' : forall b, In b (m1 ++ m2) -> In b L).
  { intros b Hb. apply SubM. apply in_app_iff in Hb. apply in_app_iff. simpl. tauto. }
  destruct (sums_of_peer_bounds L (m1 ++ m2) Ht SubM') as [S1 S2].
  assert (LenM : Z.of_nat (length (m1 ++ m2)) + 1 <= Z.of_nat (length L)).
  { pose proof (length_filter_le (from_peer p) L) as X. rewrite F1 in X. rewrite !app_length in *. cbn [length] in X. lia. }
  unfold MAXLAT_LIMIT in Hml.
  (* the peer's entry *)
  assert (Fp : peer_find p (g_peers g) = Some (recompute_peer L p)).
  { rewrite (Hp p). fold L. rewrite F1. rewrite app_length. cbn [length].
    destruct (length m1 + S (length m2) =? 0)%nat eqn:E; [apply Nat.eqb_eq in E; lia|reflexivity]. }
  set (d := recompute_peer L p) in *.
  assert (Du : pd_usage d = zsum_map mem_usage (m1 ++ m2) + mem_usage a).
  { unfold d, recompute_peer. cbn [pd_usage]. rewrite F1, !zsum_map_app. cbn [zsum_map]. lia. }
  assert (Dc : pd_count d = Z.of_nat (length (m1 ++ m2)) + 1).
  { unfold d, recompute_peer. cbn [pd_count]. rewrite F1, !app_length. cbn [length]. lia. }
  assert (Dl : pd_latency d = zsum_map latency_score (m1 ++ m2) + latency_score a).
  { unfold d, recompute_peer. cbn [pd_latency]. rewrite F1, !zsum_map_app. cbn [zsum_map]. lia. }
  (* uniqueness of the wtxid and the deduplicated totals *)
  pose proof (wtxids_drop L a Hk Ha) as WD. fold w in WD.
  assert (Win : In w (wtxids_of L)) by (apply in_wtxids; exists a; auto).
  assert (NW : forall f, (forall x, 0 <= f x) -> f w <= dsum f L).
  { intros f Nf. unfold dsum. apply zsum_map_in_le; auto. }
  assert (Ulen : 1 <= Z.of_nat (length (wtxids_of L)) <= Z.of_nat (length L)).
  { split; [destruct (wtxids_of L); [contradiction|cbn [length]; lia]|].
    unfold wtxids_of. pose proof (dedup_length_le (map o_wtxid L)) as X. rewrite map_length in X. lia. }
  assert (WtN : forall x, 0 <= wt x) by (intros; apply tx_weight_nonneg).
  assert (LsN : forall x, 0 <= lsc x - 1).
  { intros x. unfold lsc. assert (0 <= Z.of_nat (length (x_inputs (tx_of x))) / 10) by (apply Z.div_pos; lia). lia. }
  destruct (dsum_bounds L wt 400000 Ht WtN) as [Ub1 Ub2].
  { intros b Hb. destruct (ann_bounds L b Ht Hb) as [X [_ [_ Y]]]. lia. }
  destruct (dsum_bounds L (fun x => lsc x - 1) 244 Ht LsN) as [Ib1 Ib2].
  { intros b Hb. destruct (ann_bounds L b Ht Hb) as [_ [_ [Y _]]]. lia. }
  (* the explicit result *)
  assert (Ebad : negb ((mem_usage a <=? pd_usage d) && (latency_score a <=? pd_latency d) && (1 <=? pd_count d)) = false).
  { apply negb_false_iff. rewrite !andb_true_iff, !Z.leb_le. lia. }
  assert (Ed' : mkPD (wrap64 (pd_usage d - mem_usage a)) (wrapu32 (pd_count d - 1)) (wrapu32 (pd_latency d - latency_score a))
               = mkPD (zsum_map mem_usage (m1 ++ m2)) (Z.of_nat (length (m1 ++ m2))) (zsum_map latency_score (m1 ++ m2))).
  { rewrite Du, Dc, Dl. f_equal.
    - replace (zsum_map mem_usage (m1 ++ m2) + mem_usage a - mem_usage a) with (zsum_map mem_usage (m1 ++ m2)) by lia.
      apply wrap64_id. unfold INT64_MIN, INT64_MAX. lia.
    - replace (Z.of_nat (length (m1 ++ m2)) + 1 - 1) with (Z.of_nat (length (m1 ++ m2))) by lia.
      apply wrapu32_id. unfold UINT32_MAX. lia.
    - replace (zsum_map latency_score (m1 ++ m2) + latency_score a - latency_score a) with (zsum_map latency_score (m1 ++ m2)) by lia.
      apply wrapu32_id. unfold UINT32_MAX. lia. }
  unfold erase_ann. fold L p w. rewrite Fp. rewrite Ebad, Ed'. cbn [pd_count].
  rewrite orb_false_r.
  split; [reflexivity|]. split; [|cbn; auto].
  set (L' := drop_key a L).
  assert (HL' : filter (fun b => negb (is_oann w p b)) L = L') by reflexivity. rewrite HL'.
  assert (InL' : forall b, In b L' -> In b L) by (intros b Hb; apply in_drop_key in Hb; tauto).
  constructor; cbn [g_bad g_anns g_unique g_usage g_inscores g_outmap g_recon g_peers g_maxlat g_reserved].
  - exact Hbad.
  - apply okeys_drop. exact Hk.
  - intros b Hb. apply Ht. apply InL'. exact Hb.
  - destruct (Z.of_nat (length (m1 ++ m2)) =? 0); [apply peer_del_nodup|apply peer_set_nodup]; exact Hpn.
  - intros q. destruct (Z.eq_dec q p) as [->|Nq].
    + unfold L'. rewrite F2. destruct (length (m1 ++ m2) =? 0)%nat eqn:E0.
      * apply Nat.eqb_eq in E0. rewrite E0. cbn [Z.of_nat Z.eqb]. apply peer_find_del_same. exact Hpn.
      * apply Nat.eqb_neq in E0. assert (E1 : (Z.of_nat (length (m1 ++ m2)) =? 0) = false) by (apply Z.eqb_neq; lia).
        rewrite E1, peer_find_set_same. f_equal. unfold recompute_peer. rewrite F2. reflexivity.
    + assert (Np : o_peer a <> q) by (fold p; auto).
      destruct (Z.of_nat (length (m1 ++ m2)) =? 0);
        [rewrite peer_find_del_other by auto|rewrite peer_find_set_other by auto];
        rewrite (Hp q); unfold L'; rewrite filter_drop_other by auto; rewrite recompute_drop_other by auto; reflexivity.
  - (* m_unique_orphans *)
    pose proof (WD (fun _ => 1)) as X. unfold dsum in X. rewrite !zsum_map_const1 in X. fold L' in X.
    destruct (is_unique L a); [|rewrite Hu; lia]. rewrite Hu, X. apply wrapu32_id. unfold UINT32_MAX. lia.
  - pose proof (WD wt) as X. fold L' in X. pose proof (NW wt WtN).
    destruct (is_unique L a); [|rewrite Hus; lia]. rewrite Hus, X, Bw. apply wrap64_id. unfold INT64_MIN, INT64_MAX. lia.
  - pose proof (WD (fun x => lsc x - 1)) as X. fold L' in X. pose proof (NW (fun x => lsc x - 1) LsN). cbv beta in *.
    destruct (is_unique L a); [|rewrite Hin; lia]. rewrite Hin, X, Bl.
    rewrite (wrapu32_id (lsc w - 1)) by (unfold UINT32_MAX; lia). apply wrapu32_id. unfold UINT32_MAX. lia.
  - (* m_outpoint_to_orphan_wtxids *)
    intros k w'. unfold L'. rewrite (in_wtxids_drop L a w' Hk Ha). fold w.
    assert (Etx : x_inputs (o_tx a) = x_inputs (tx_of w)) by (destruct (Ht a Ha) as [E _]; rewrite E; reflexivity).
    destruct (is_unique L a) eqn:U.
    + rewrite (om_fold (set_del w)) by (intros; apply set_del_idem). rewrite Etx.
      destruct (existsb (op_eqb k) (x_inputs (tx_of w))) eqn:Ek.
      * rewrite in_set_del, Hom. intuition (try discriminate; try congruence).
      * rewrite Hom. split; [intros [B C]; split; [split; [auto|]|auto]; left; intros ->|tauto].
        assert (X : existsb (op_eqb k) (x_inputs (tx_of w)) = true) by (apply existsb_exists; exists k; split; auto; apply op_eqb_refl).
        congruence.
    + rewrite Hom. tauto.
  - intros k. destruct (is_unique L a); [|apply Hon].
    rewrite (om_fold (set_del w)) by (intros; apply set_del_idem).
    destruct (existsb (op_eqb k) (x_inputs (o_tx a))); [apply nodup_set_del|]; apply Hon.
  - (* m_reconsiderable_wtxids *)
    intros w'. destruct (o_reconsider a) eqn:Ra.
    + rewrite in_set_del, Hr. split.
      * intros [Nw [b [Hb [Eb Rb]]]]. exists b. split; auto. apply in_drop_key. split; auto. intros E. apply Nw.
        unfold akey in E. unfold w. inversion E. congruence.
      * intros [b [Hb [Eb Rb]]]. apply in_drop_key in Hb. destruct Hb as [Hb Kb]. split; [|exists b; auto].
        intros ->. apply Kb. f_equal. apply Hro; auto.
    + rewrite Hr. split; intros [b [Hb [Eb Rb]]]; exists b; split; auto.
      * apply in_drop_key. split; auto. intros E. assert (b = a) by (apply (okeys_same L); auto). subst b. congruence.
  - destruct (o_reconsider a); [apply nodup_set_del|]; exact Hrn.
  - intros b c Hb Hc. apply Hro; apply InL'; auto.
  - assert (X : (length L' <= length L)%nat) by (unfold L', drop_key; apply length_filter_le). lia.
  - unfold MAXLAT_LIMIT. exact Hml.
  - exact Hres.
Qed.

(* ---------- the emplace of AddTx / AddAnnouncer ---------- *)
Lemma have_tx_mem l w : existsb (has_wtxid w) l = set_mem w (map o_wtxid l).
Proof.
  unfold set_mem. induction l as [|x l IH]; [reflexivity|]. cbn [existsb map]. rewrite IH. f_equal.
  unfold has_wtxid. apply Z.eqb_sym.
Qed.

Lemma okeys_snoc l a : okeys l -> (forall b, In b l -> akey b <> akey a) -> okeys (l ++ [a]).
Proof.
  unfold okeys. induction l as [|x l IH]; intros N H; simpl.
  - constructor; [intros []|constructor].
  - simpl in N. inversion N; subst. constructor.
    + rewrite map_app, in_app_iff. simpl. intros [X|[X|[]]]; [auto|]. apply (H x (or_introl eq_refl)). auto.
    + apply IH; auto. intros b Hb. apply H. right. auto.
Qed.

Lemma wtxids_snoc l a f : dsum f (l ++ [a]) = dsum f l + (if existsb (has_wtxid (o_wtxid a)) l then 0 else f (o_wtxid a)).
Proof. unfold dsum, wtxids_of. rewrite map_app. cbn [map]. rewrite dedup_sum_snoc, have_tx_mem. reflexivity. Qed.

Lemma in_wtxids_snoc l a w : In w (wtxids_of (l ++ [a])) <-> In w (wtxids_of l) \/ w = o_wtxid a.
Proof.
  rewrite !in_wtxids. split.
  - intros [b [Hb Eb]]. apply in_app_iff in Hb. destruct Hb as [Hb|[<-|[]]]; [left; exists b; auto|right; auto].
  - intros [[b [Hb Eb]]| ->]; [exists b; split; auto; apply in_app_iff; auto|].
    exists a. split; auto. apply in_app_iff. right. left. auto.
Qed.

Lemma add_ann_spec g w peer bn :
  OWF g -> x_weight (tx_of w) <= ORPHAN_MAX_TX_WEIGHT -> have_tx_from_peer g w peer = false ->
  bn = negb (have_tx g w) -> Z.of_nat (length (g_anns g)) <= g_maxlat g ->
  let a := mkOA (tx_of w) peer (g_seq g) false in
  g_anns (add_ann g (tx_of w) peer bn) = g_anns g ++ [a] /\ OWF (add_ann g (tx_of w) peer bn) /\
  g_maxlat (add_ann g (tx_of w) peer bn) = g_maxlat g /\ g_reserved (add_ann g (tx_of w) peer bn) = g_reserved g.
Proof.
  intros W Hw Hnp Hbn Hlen0. cbv zeta. set (a := mkOA (tx_of w) peer (g_seq g) false).
  destruct W as [Hbad Hk Ht Hpn Hp Hu Hus Hin Hom Hon Hr Hrn Hro Hlen Hml Hres].
  set (L := g_anns g) in *.
  assert (Wa : o_wtxid a = w) by (unfold o_wtxid; cbn [o_tx a]; apply tx_wtxid).
  assert (Pa : o_peer a = peer) by reflexivity.
  assert (Ht' : txs_ok (L ++ [a])).
  { intros b Hb. apply in_app_iff in Hb. destruct Hb as [Hb|[<-|[]]]; [apply Ht; auto|].
    split; [rewrite Wa; reflexivity|exact Hw]. }
  assert (Ha' : In a (L ++ [a])) by (apply in_app_iff; right; left; auto).
  destruct (ann_bounds (L ++ [a]) a Ht' Ha') as [Bm [Bl [Bl2 Bw]]]. rewrite Wa in Bl, Bl2, Bw.
  assert (Fnew : forall b, In b L -> akey b <> akey a).
  { intros b Hb E. unfold have_tx_from_peer in Hnp. fold L in Hnp.
    assert (X : existsb (is_oann w peer) L = true).
    { apply existsb_exists. exists b. split; auto. apply is_oann_true. rewrite E. unfold akey. rewrite Wa, Pa. reflexivity. }
    congruence. }
  unfold MAXLAT_LIMIT in Hml.
  (* the peer's entry before *)
  set (mp := filter (from_peer peer) L).
  assert (SubP : forall b, In b mp -> In b L) by (intros b Hb; apply filter_In in Hb; tauto).
  destruct (sums_of_peer_bounds L mp Ht SubP) as [S1 S2].
  pose proof (length_filter_le (from_peer peer) L) as LenP. fold mp in LenP.
  assert (Dold : match peer_find peer (g_peers g) with Some d => d | None => mkPD 0 0 0 end
                 = mkPD (zsum_map mem_usage mp) (Z.of_nat (length mp)) (zsum_map latency_score mp)).
  { rewrite (Hp peer). fold L mp. destruct (length mp =? 0)%nat eqn:E; [|reflexivity].
    apply Nat.eqb_eq in E. destruct mp; [reflexivity|discriminate]. }
  assert (Fnewp : filter (from_peer peer) (L ++ [a]) = mp ++ [a]).
  { rewrite filter_app. cbn [filter]. unfold from_peer at 2. rewrite Pa, Z.eqb_refl. reflexivity. }
  assert (WtN : forall x, 0 <= wt x) by (intros; apply tx_weight_nonneg).
  assert (LsN : forall x, 0 <= lsc x - 1).
  { intros x. unfold lsc. assert (0 <= Z.of_nat (length (x_inputs (tx_of x))) / 10) by (apply Z.div_pos; lia). lia. }
  destruct (dsum_bounds L wt 400000 Ht WtN) as [Ub1 Ub2].
  { intros b Hb. destruct (ann_bounds L b Ht Hb) as [X [_ [_ Y]]]. lia. }
  destruct (dsum_bounds L (fun x => lsc x - 1) 244 Ht LsN) as [Ib1 Ib2].
  { intros b Hb. destruct (ann_bounds L b Ht Hb) as [_ [_ [Y _]]]. lia. }
  assert (Ulen : 0 <= Z.of_nat (length (wtxids_of L)) <= Z.of_nat (length L)).
  { split; [lia|]. unfold wtxids_of. pose proof (dedup_length_le (map o_wtxid L)) as X. rewrite map_length in X. lia. }
  assert (Hbn' : bn = negb (existsb (has_wtxid (o_wtxid a)) L)) by (rewrite Wa; exact Hbn).
  unfold add_ann. fold a L. rewrite Dold. cbn [pd_usage pd_count pd_latency].
  split; [reflexivity|]. split; [|cbn; auto].
  constructor; cbn [g_bad g_anns g_unique g_usage g_inscores g_outmap g_recon g_peers g_maxlat g_reserved].
  - exact Hbad.
  - apply okeys_snoc; auto.
  - exact Ht'.
  - apply peer_set_nodup. exact Hpn.
  - intros q. destruct (Z.eq_dec q peer) as [->|Nq].
    + rewrite peer_find_set_same, Fnewp. rewrite app_length. cbn [length].
      destruct (length mp + 1 =? 0)%nat eqn:E; [apply Nat.eqb_eq in E; lia|]. f_equal.
      unfold recompute_peer. rewrite Fnewp, !zsum_map_app, app_length. cbn [zsum_map length]. f_equal.
      * rewrite Z.add_0_r. apply wrap64_id. unfold INT64_MIN, INT64_MAX. lia.
      * rewrite wrapu32_id by (unfold UINT32_MAX; lia). lia.
      * rewrite Z.add_0_r. apply wrapu32_id. unfold UINT32_MAX. lia.
    + rewrite peer_find_set_other by auto. rewrite (Hp q). fold L.
      assert (Fq : filter (from_peer q) (L ++ [a]) = filter (from_peer q) L).
      { rewrite filter_app. cbn [filter]. assert (X : from_peer q a = false) by (unfold from_peer; rewrite Pa; apply Z.eqb_neq; auto).
        rewrite X. apply app_nil_r. }
      unfold recompute_peer. rewrite Fq. reflexivity.
  - pose proof (wtxids_snoc L a (fun _ => 1)) as X. unfold dsum in X. rewrite !zsum_map_const1 in X.
    rewrite Hbn'. destruct (existsb (has_wtxid (o_wtxid a)) L); cbn [negb]; [rewrite Hu; lia|].
    rewrite Hu, X. apply wrapu32_id. unfold UINT32_MAX. lia.
  - pose proof (wtxids_snoc L a wt) as X. rewrite Wa in X.
    rewrite Hbn'. rewrite Wa. destruct (existsb (has_wtxid w) L); cbn [negb]; [rewrite Hus; lia|].
    rewrite Hus, X, Bw. apply wrap64_id. unfold INT64_MIN, INT64_MAX. lia.
  - pose proof (wtxids_snoc L a (fun x => lsc x - 1)) as X. rewrite Wa in X. cbv beta in X.
    rewrite Hbn'. rewrite Wa. destruct (existsb (has_wtxid w) L); cbn [negb]; [rewrite Hin; lia|].
    rewrite Hin, X, Bl. rewrite (wrapu32_id (lsc w - 1)) by (unfold UINT32_MAX; lia). apply wrapu32_id. unfold UINT32_MAX. lia.
  - intros k w'. rewrite in_wtxids_snoc, Wa. rewrite Hbn'. rewrite Wa.
    destruct (existsb (has_wtxid w) L) eqn:Hv; cbn [negb].
    + rewrite Hom. assert (Iw : In w (wtxids_of L)).
      { apply existsb_exists in Hv. destruct Hv as [b [Hb Eb]]. apply has_wtxid_true in Eb. apply in_wtxids. exists b. auto. }
      split; [tauto|]. intros [[A| ->] B]; auto.
    + rewrite (om_fold (set_add (x_wtxid (tx_of w)))) by (intros; apply set_add_idem).
      destruct (existsb (op_eqb k) (x_inputs (tx_of w))) eqn:Ek.
      * rewrite tx_wtxid. rewrite in_set_add, Hom. apply existsb_exists in Ek. destruct Ek as [k' [Hk' Ek']].
        apply op_eqb_true in Ek'. subst k'. split; [intros [->|[A B]]; auto | intros [[A| ->] B]; auto].
      * rewrite Hom. split; [tauto|]. intros [[A| ->] B]; [auto|]. exfalso.
        assert (X : existsb (op_eqb k) (x_inputs (tx_of w)) = true) by (apply existsb_exists; exists k; split; auto; apply op_eqb_refl).
        congruence.
  - intros k. destruct bn; [|apply Hon].
    rewrite (om_fold (set_add (x_wtxid (tx_of w)))) by (intros; apply set_add_idem).
    destruct (existsb (op_eqb k) (x_inputs (tx_of w))); [apply nodup_set_add|]; apply Hon.
  - intros w'. rewrite Hr. split; intros [b [Hb [Eb Rb]]]; exists b; split; auto.
    + apply in_app_iff. auto.
    + apply in_app_iff in Hb. destruct Hb as [Hb|[<-|[]]]; [auto|discriminate].
  - exact Hrn.
  - intros b c Hb Hc Ew Rb Rc. apply in_app_iff in Hb, Hc.
    destruct Hb as [Hb|[<-|[]]]; [|discriminate]. destruct Hc as [Hc|[<-|[]]]; [|discriminate]. apply Hro; auto.
  - rewrite app_length. cbn [length]. lia.
  - unfold MAXLAT_LIMIT. exact Hml.
  - exact Hres.
Qed.

(* ---------- Erase over a list of announcements ---------- *)
Definition keyed_in (ks : list oann) (b : oann) : bool := existsb (fun a => is_oann (o_wtxid a) (o_peer a) b) ks.

Lemma erase_fold_spec : forall (ks : list oann) (g : orph),
  OWF g -> NoDup (map akey ks) -> (forall a, In a ks -> In a (g_anns g)) ->
  let g' := fold_left erase_ann ks g in
  g_anns g' = filter (fun b => negb (keyed_in ks b)) (g_anns g) /\ OWF g' /\
  g_seq g' = g_seq g /\ g_maxlat g' = g_maxlat g /\ g_reserved g' = g_reserved g.
Proof.
  induction ks as [|k ks IH]; intros g W N Hin; cbn [fold_left].
  - split; [|auto]. symmetry. clear. induction (g_anns g) as [|x l IHl]; [reflexivity|]. cbn. f_equal. exact IHl.
  - destruct (erase_ann_spec g k W (Hin k (or_introl eq_refl))) as [I1 [W1 [E1 [E2 E3]]]].
    simpl in N. inversion N as [|? ? Hnk N']. subst.
    destruct (IH (erase_ann g k) W1 N') as [I2 [W2 [F1 [F2 F3]]]].
    + intros a Ha. rewrite I1. apply in_drop_key. split; [apply Hin; right; auto|].
      intros E. apply Hnk. rewrite <- E. apply in_map. exact Ha.
    + split; [|split; [exact W2|repeat split; congruence]].
      rewrite I2, I1. unfold drop_key. clear. induction (g_anns g) as [|x l IHl]; [reflexivity|].
      cbn [filter keyed_in existsb]. destruct (is_oann (o_wtxid k) (o_peer k) x) eqn:E; cbn [negb orb filter].
      * exact IHl.
      * unfold keyed_in in *. destruct (existsb (fun a => is_oann (o_wtxid a) (o_peer a) x) ks); cbn [negb]; [exact IHl|f_equal; exact IHl].
Qed.

End OInv.
