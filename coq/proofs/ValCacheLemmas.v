(* Validation caches (C13): the cuckoo cache never reports an element that was not inserted (except the
   all-zero element a fresh table is filled with), for every operation sequence, location function and
   epoch state; signature cache and script-execution cache are transparent - every verdict of every
   history equals the verdict without caches - under the premises named in the statements. *)
From Coq Require Import NArith.
From BV Require Import lib.Ints model.ValCache.
Local Open Scope Z_scope.

(* ---- upd ---- *)
Lemma upd_length {A} (l : list A) i v : length (upd l i v) = length l.
Proof. revert i. induction l as [|x l IH]; intros [|i]; cbn; try reflexivity. rewrite IH. reflexivity. Qed.

Lemma Forall_upd {A} (P : A -> Prop) (l : list A) i v : Forall P l -> P v -> Forall P (upd l i v).
Proof.
  intros F Pv. revert i. induction F as [|x l Px F IH]; intros [|i]; cbn; try constructor; auto.
Qed.

Lemma nth_error_Forall {A} (P : A -> Prop) l n x : Forall P l -> nth_error l n = Some x -> P x.
Proof. intros F E. rewrite Forall_forall in F. apply F. eapply nth_error_In. exact E. Qed.

(* ---- well-formed cache states: the three vectors have the table's length ---- *)
Definition cu_wf (c : cuckoo) : Prop :=
  length (cu_collect c) = length (cu_table c) /\ length (cu_epoch c) = length (cu_table c).

Definition table_inv (P : Z -> Prop) (c : cuckoo) : Prop := Forall (fun x => x = 0 \/ P x) (cu_table c).

Lemma setup_wf n : cu_wf (cuckoo_setup n).
Proof. unfold cu_wf, cuckoo_setup. cbn. rewrite !repeat_length. split; reflexivity. Qed.

Lemma setup_inv P n : table_inv P (cuckoo_setup n).
Proof.
  unfold table_inv, cuckoo_setup. cbn [cu_table]. apply Forall_forall. intros x Hx.
  apply repeat_spec in Hx. left. exact Hx.
Qed.

Lemma age_collect_length ep : forall col, length (age_collect ep col) = length col.
Proof. induction ep as [|e ep IH]; intros [|c col]; cbn; try reflexivity. rewrite IH. reflexivity. Qed.

Lemma epoch_check_table c : cu_table (epoch_check c) = cu_table c.
Proof. unfold epoch_check. destruct (negb _); [reflexivity|]. destruct (_ >=? _); reflexivity. Qed.

Lemma epoch_check_wf c : cu_wf c -> cu_wf (epoch_check c).
Proof.
  intros [W1 W2]. unfold epoch_check, cu_wf. destruct (negb _); [split; assumption|].
  destruct (_ >=? _); cbn; [|split; assumption]. rewrite age_collect_length, map_length. split; assumption.
Qed.

Lemma find_equal_some table locs e loc : find_equal table locs e = Some loc -> nth_error table loc = Some e.
Proof.
  induction locs as [|l r IH]; [discriminate|]. cbn.
  destruct (nth_error table l) as [x|] eqn:E; [|exact IH].
  destruct (x =? e) eqn:Ex; [|exact IH]. intros X. injection X as <-. apply Z.eqb_eq in Ex. subst. exact E.
Qed.

Section WithLocs.
Variable locs_of : Z -> list nat.

(* ---- the table only ever holds zero or inserted elements ---- *)
Lemma insert_loop_inv P depth : forall c e ll le c',
  table_inv P c -> (e = 0 \/ P e) -> insert_loop locs_of depth c e ll le = Some c' -> table_inv P c'.
Proof.
  induction depth as [|d IH]; intros c e ll le c' Hc He; cbn [insert_loop].
  - intros X. injection X as <-. exact Hc.
  - destruct (find_collectable (cu_collect c) (locs_of e)) as [loc|].
    + intros X. injection X as <-. unfold table_inv. cbn [cu_table]. apply Forall_upd; assumption.
    + destruct (nth_error (locs_of e) _) as [l2|]; [|discriminate].
      destruct (nth_error (cu_table c) l2) as [disp|] eqn:Ed; [|discriminate].
      destruct (nth_error (cu_epoch c) l2) as [ep|]; [|discriminate].
      apply IH.
      * unfold table_inv. cbn [cu_table]. apply Forall_upd; assumption.
      * exact (nth_error_Forall _ _ _ _ Hc Ed).
Qed.

Lemma insert_inv P c e c' : table_inv P c -> P e -> cuckoo_insert locs_of c e = Some c' -> table_inv P c'.
Proof.
  intros Hc He. unfold cuckoo_insert.
  assert (Hc' : table_inv P (epoch_check c)) by (unfold table_inv; rewrite epoch_check_table; exact Hc).
  destruct (find_equal _ _ _) as [loc|].
  - intros X. injection X as <-. exact Hc'.
  - apply insert_loop_inv; [exact Hc' | right; exact He].
Qed.

Lemma contains_table c e er : cu_table (snd (cuckoo_contains locs_of c e er)) = cu_table c.
Proof. unfold cuckoo_contains. destruct (find_equal _ _ _); [destruct er|]; reflexivity. Qed.

Lemma contains_inv P c e er : table_inv P c -> table_inv P (snd (cuckoo_contains locs_of c e er)).
Proof. unfold table_inv. rewrite contains_table. auto. Qed.

(* no false positives: a reported element is in the table, hence zero or inserted *)
Lemma contains_true_inv P c e er : table_inv P c -> fst (cuckoo_contains locs_of c e er) = true -> e = 0 \/ P e.
Proof.
  intros Hc. unfold cuckoo_contains. destruct (find_equal (cu_table c) (locs_of e) e) as [loc|] eqn:E; [|discriminate].
  intros _. apply find_equal_some in E. exact (nth_error_Forall _ _ _ _ Hc E).
Qed.

(* ---- operation sequences ---- *)
Fixpoint answers_sound (seen : list Z) (ops : list cop) (outs : list bool) : Prop :=
  match ops, outs with
  | [], [] => True
  | CInsert e :: r, _ :: o => answers_sound (e :: seen) r o
  | CContains e _ :: r, b :: o => (b = true -> e = 0 \/ In e seen) /\ answers_sound seen r o
  | _, _ => False
  end.

Lemma run_sound_gen ops : forall c seen outs c',
  table_inv (fun x => In x seen) c -> cuckoo_run locs_of c ops = Some (outs, c') -> answers_sound seen ops outs.
Proof.
  induction ops as [|op r IH]; intros c seen outs c' Hc; cbn [cuckoo_run].
  - intros X. injection X as <- _. exact I.
  - destruct op as [e|e er].
    + destruct (cuckoo_insert locs_of c e) as [c1|] eqn:Ei; [|discriminate].
      destruct (cuckoo_run locs_of c1 r) as [[o c2]|] eqn:Er; [|discriminate].
      intros X. injection X as <- _. cbn [answers_sound]. apply (IH c1 (e :: seen) o c2); [|exact Er].
      apply (insert_inv (fun x => In x (e :: seen)) c e c1); [|left; reflexivity | exact Ei].
      unfold table_inv in *. eapply Forall_impl; [|exact Hc]. intros x [Hx|Hx]; [left; exact Hx | right; right; exact Hx].
    + destruct (cuckoo_contains locs_of c e er) as [b c1] eqn:Ec.
      destruct (cuckoo_run locs_of c1 r) as [[o c2]|] eqn:Er; [|discriminate].
      intros X. injection X as <- _. cbn [answers_sound]. split.
      * intros ->. apply (contains_true_inv _ c e er Hc). rewrite Ec. reflexivity.
      * apply (IH c1 seen o c2); [|exact Er]. replace c1 with (snd (cuckoo_contains locs_of c e er)) by (rewrite Ec; reflexivity).
        apply contains_inv. exact Hc.
Qed.

(* every operation sequence on a freshly set up cache: a `true` answer is for an element inserted earlier, or for zero *)
Theorem cuckoo_sound n ops outs c' :
  cuckoo_run locs_of (cuckoo_setup n) ops = Some (outs, c') -> answers_sound [] ops outs.
Proof. apply run_sound_gen. apply setup_inv. Qed.

(* ---- the model never leaves the table when the locations are below the size ---- *)
Hypothesis locs_len : forall e, length (locs_of e) = 8%nat.

Definition locs_ok (c : cuckoo) : Prop := forall e, Forall (fun l => (l < length (cu_table c))%nat) (locs_of e).

Lemma land7_lt x : (Nat.land x 7 < 8)%nat.
Proof.
  assert (E : Nat.land x 7 = (x mod 8)%nat) by (change 7%nat with (Nat.ones 3); apply Nat.land_ones).
  rewrite E. apply Nat.mod_upper_bound. discriminate.
Qed.

Lemma insert_loop_total depth : forall c e ll le, cu_wf c -> locs_ok c ->
  exists c', insert_loop locs_of depth c e ll le = Some c' /\ cu_wf c' /\ length (cu_table c') = length (cu_table c).
Proof.
  induction depth as [|d IH]; intros c e ll le [W1 W2] Hl; cbn [insert_loop].
  - exists c. repeat split; assumption.
  - destruct (find_collectable (cu_collect c) (locs_of e)) as [loc|].
    + eexists. split; [reflexivity|]. unfold cu_wf. cbn. rewrite !upd_length. repeat split; assumption.
    + destruct (nth_error (locs_of e) (Nat.land (1 + index_of (locs_of e) ll) 7)) as [l2|] eqn:El.
      2:{ exfalso. apply nth_error_None in El. rewrite locs_len in El. pose proof (land7_lt (1 + index_of (locs_of e) ll)). lia. }
      assert (Hl2 : (l2 < length (cu_table c))%nat) by (exact (nth_error_Forall _ _ _ _ (Hl e) El)).
      destruct (nth_error (cu_table c) l2) as [disp|] eqn:Ed; [|apply nth_error_None in Ed; lia].
      destruct (nth_error (cu_epoch c) l2) as [ep|] eqn:Ee; [|apply nth_error_None in Ee; lia].
      match goal with |- exists c', insert_loop _ d ?c1 _ _ _ = _ /\ _ => destruct (IH c1 disp (Some l2) ep) as (c' & E' & W' & L') end.
      * unfold cu_wf. cbn. rewrite !upd_length. split; assumption.
      * intros x. unfold locs_ok in Hl. cbn [cu_table]. rewrite upd_length. apply Hl.
      * exists c'. split; [exact E'|]. split; [exact W'|]. rewrite L'. cbn [cu_table]. apply upd_length.
Qed.

Lemma insert_total c e : cu_wf c -> locs_ok c ->
  exists c', cuckoo_insert locs_of c e = Some c' /\ cu_wf c' /\ length (cu_table c') = length (cu_table c).
Proof.
  intros W Hl. unfold cuckoo_insert. pose proof (epoch_check_wf c W) as W'.
  assert (Hl' : locs_ok (epoch_check c)) by (unfold locs_ok; rewrite epoch_check_table; exact Hl).
  destruct (find_equal _ _ _) as [loc|].
  - eexists. split; [reflexivity|]. destruct W' as [W1 W2]. unfold cu_wf. cbn. rewrite !upd_length, epoch_check_table.
    rewrite epoch_check_table in W1, W2. repeat split; assumption.
  - destruct (insert_loop_total (cu_depth (epoch_check c)) (epoch_check c) e None true W' Hl') as (c' & E & W2 & L).
    exists c'. split; [exact E|]. split; [exact W2|]. rewrite L, epoch_check_table. reflexivity.
Qed.

Lemma contains_wf c e er : cu_wf c -> cu_wf (snd (cuckoo_contains locs_of c e er)).
Proof.
  intros [W1 W2]. unfold cuckoo_contains. destruct (find_equal _ _ _); [destruct er|]; cbn [snd]; try (split; assumption).
  unfold cu_wf. cbn. rewrite upd_length. split; assumption.
Qed.

(* erasure is lazy: contains(e, erase = true) only marks the slot collectable; the element is still reported
   until the slot is overwritten *)
Theorem erase_is_lazy c e er : fst (cuckoo_contains locs_of (snd (cuckoo_contains locs_of c e true)) e er) = fst (cuckoo_contains locs_of c e true).
Proof.
  unfold cuckoo_contains. destruct (find_equal (cu_table c) (locs_of e) e) as [loc|] eqn:E; cbn [snd fst cu_table]; rewrite E; reflexivity.
Qed.

Lemma nth_error_upd_same {A} (l : list A) i v : (i < length l)%nat -> nth_error (upd l i v) i = Some v.
Proof. revert i. induction l as [|x l IH]; intros [|i] Hi; cbn in *; try lia; [reflexivity | apply IH; lia]. Qed.

Lemma find_equal_exists table locs e loc : In loc locs -> nth_error table loc = Some e -> find_equal table locs e <> None.
Proof.
  induction locs as [|l r IH]; intros Hin En; [destruct Hin|]. cbn [find_equal].
  destruct (nth_error table l) as [x|] eqn:El.
  - destruct (x =? e) eqn:Ex; [discriminate|]. destruct Hin as [->|Hin]; [|apply IH; assumption].
    rewrite En in El. injection El as <-. rewrite Z.eqb_refl in Ex. discriminate.
  - destruct Hin as [->|Hin]; [congruence | apply IH; assumption].
Qed.

Lemma find_collectable_in col locs loc : find_collectable col locs = Some loc -> In loc locs /\ nth_error col loc = Some true.
Proof.
  induction locs as [|l r IH]; [discriminate|]. cbn [find_collectable].
  destruct (nth_error col l) as [[|]|] eqn:E.
  - intros X. injection X as <-. split; [left; reflexivity | exact E].
  - intros X. destruct (IH X) as [A B]. split; [right; exact A | exact B].
  - intros X. destruct (IH X) as [A B]. split; [right; exact A | exact B].
Qed.

Lemma find_equal_in table locs e loc : find_equal table locs e = Some loc -> In loc locs.
Proof.
  induction locs as [|l r IH]; [discriminate|]. cbn [find_equal].
  destruct (nth_error table l) as [x|]; [destruct (x =? e)|]; intros X; try (right; apply IH; exact X).
  injection X as <-. left. reflexivity.
Qed.

(* contains after insert: when the element is already present, or one of its locations is free (collectable) after
   the epoch check, it is found right after the insert.  (Otherwise it displaces other elements and can itself be
   displaced again within the same insert: false negatives are allowed.) *)
Theorem insert_then_contains c e c' : cu_wf c -> (0 < cu_depth (epoch_check c))%nat ->
  (find_equal (cu_table (epoch_check c)) (locs_of e) e <> None \/
   find_collectable (cu_collect (epoch_check c)) (locs_of e) <> None) ->
  cuckoo_insert locs_of c e = Some c' -> fst (cuckoo_contains locs_of c' e false) = true.
Proof.
  intros W Hd Hfree. unfold cuckoo_insert. pose proof (epoch_check_wf c W) as [W1 W2].
  assert (G : forall c'', find_equal (cu_table c'') (locs_of e) e <> None -> fst (cuckoo_contains locs_of c'' e false) = true).
  { intros c'' Hne. unfold cuckoo_contains. destruct (find_equal (cu_table c'') (locs_of e) e); [reflexivity | contradiction]. }
  destruct (find_equal (cu_table (epoch_check c)) (locs_of e) e) as [loc|] eqn:Ef.
  - intros X. injection X as <-. apply G. cbn [cu_table]. rewrite Ef. discriminate.
  - destruct Hfree as [Hx|Hfree]; [contradiction|].
    destruct (cu_depth (epoch_check c)) as [|d]; [lia|]. cbn [insert_loop].
    destruct (find_collectable (cu_collect (epoch_check c)) (locs_of e)) as [loc|] eqn:Ec; [|contradiction].
    intros X. injection X as <-. apply G. cbn [cu_table].
    destruct (find_collectable_in _ _ _ Ec) as [Hin Hn].
    apply (find_equal_exists _ _ _ loc Hin). apply nth_error_upd_same.
    assert (loc < length (cu_collect (epoch_check c)))%nat by (apply nth_error_Some; congruence). lia.
Qed.

(* a fresh table is filled with the all-zero element: it is "contained" before anything was inserted *)
Theorem cuckoo_fresh_contains_zero n : Forall (fun l => (l < Z.to_nat (Z.max 2 n))%nat) (locs_of 0) ->
  fst (cuckoo_contains locs_of (cuckoo_setup n) 0 false) = true.
Proof.
  intros Hl. unfold cuckoo_contains, cuckoo_setup. cbn [cu_table].
  destruct (locs_of 0) as [|l r] eqn:E; [pose proof (locs_len 0) as L; rewrite E in L; discriminate|].
  inversion Hl as [|? ? Hl0 _]; subst. cbn [find_equal].
  destruct (nth_error (repeat 0 (Z.to_nat (Z.max 2 n))) l) as [x|] eqn:En.
  - assert (x = 0) by (apply nth_error_In in En; apply repeat_spec in En; exact En). subst x. reflexivity.
  - apply nth_error_None in En. rewrite repeat_length in En. lia.
Qed.

(* ------------------------------------------------------------------------------------------ *)
(* signature cache transparency *)
Variable oracle : sigquery -> bool.
Variable sigkey : sigquery -> Z.
Hypothesis sigkey_inj : forall q q', sigkey q = sigkey q' -> q = q'.
Hypothesis sigkey_nz : forall q, sigkey q <> 0.

Definition sig_legit (x : Z) : Prop := exists q, sigkey q = x /\ oracle q = true.
Definition sig_ok (sc : cuckoo) : Prop := cu_wf sc /\ locs_ok sc /\ table_inv sig_legit sc.

Lemma contains_locs_ok c e er : locs_ok c -> locs_ok (snd (cuckoo_contains locs_of c e er)).
Proof. unfold locs_ok. rewrite contains_table. auto. Qed.

Lemma cached_verify_ok store sc q : sig_ok sc ->
  exists sc', cached_verify locs_of oracle sigkey store sc q = Some (oracle q, sc') /\ sig_ok sc'.
Proof.
  intros (W & Hl & Hi). unfold cached_verify.
  destruct (cuckoo_contains locs_of sc (sigkey q) (negb store)) as [hit sc1] eqn:Ec.
  assert (S1 : sig_ok sc1).
  { replace sc1 with (snd (cuckoo_contains locs_of sc (sigkey q) (negb store))) by (rewrite Ec; reflexivity).
    split; [apply contains_wf; exact W|]. split; [apply contains_locs_ok; exact Hl | apply contains_inv; exact Hi]. }
  destruct hit.
  - assert (Hq : sigkey q = 0 \/ sig_legit (sigkey q)) by (apply (contains_true_inv _ sc _ (negb store) Hi); rewrite Ec; reflexivity).
    destruct Hq as [Hz|(q' & Ek & Eo)]; [exfalso; exact (sigkey_nz q Hz)|].
    apply sigkey_inj in Ek. subst q'. rewrite Eo. exists sc1. split; [reflexivity | exact S1].
  - destruct (oracle q) eqn:Eo; cbn [negb]; [|exists sc1; split; [reflexivity | exact S1]].
    destruct store; [|exists sc1; split; [reflexivity | exact S1]].
    destruct S1 as (W1 & Hl1 & Hi1).
    destruct (insert_total sc1 (sigkey q) W1 Hl1) as (sc2 & Ei & W2 & L2). rewrite Ei.
    exists sc2. split; [reflexivity|]. split; [exact W2|]. split.
    + unfold locs_ok. rewrite L2. exact Hl1.
    + apply (insert_inv sig_legit sc1 (sigkey q) sc2 Hi1); [exists q; split; [reflexivity | exact Eo] | exact Ei].
Qed.

Lemma exec_cached_ok store r : forall sc, sig_ok sc ->
  exists sc', exec_cached locs_of oracle sigkey store sc r = Some (exec_plain oracle r, sc') /\ sig_ok sc'.
Proof.
  induction r as [b|q k IH]; intros sc S; cbn [exec_cached exec_plain].
  - exists sc. split; [reflexivity | exact S].
  - destruct (cached_verify_ok store sc q S) as (sc1 & E1 & S1). rewrite E1. apply IH. exact S1.
Qed.

Lemma run_inputs_ok store rs : forall sc, sig_ok sc ->
  exists sc', run_inputs locs_of oracle sigkey store sc rs = Some (forallb (exec_plain oracle) rs, sc') /\ sig_ok sc'.
Proof.
  induction rs as [|r rest IH]; intros sc S; cbn [run_inputs forallb].
  - exists sc. split; [reflexivity | exact S].
  - destruct (exec_cached_ok store r sc S) as (sc1 & E1 & S1). rewrite E1.
    destruct (exec_plain oracle r); cbn [andb]; [apply IH; exact S1 | exists sc1; split; [reflexivity | exact S1]].
Qed.

(* ------------------------------------------------------------------------------------------ *)
(* script-execution cache transparency *)
Variable T F C : Type.
Variable is_coinbase : T -> bool.
Variable wtxid : T -> Z.
Variable exec_key : Z -> F -> Z.
Variable script_runs : T -> F -> C -> list run.
(* P1: the key determines witness hash and flags; it is never the all-zero value *)
Hypothesis exec_key_inj : forall w fl w' fl', exec_key w fl = exec_key w' fl' -> w = w' /\ fl = fl'.
Hypothesis exec_key_nz : forall w fl, exec_key w fl <> 0.
(* P2: the witness hash determines the transaction *)
Hypothesis wtxid_inj : forall t t', wtxid t = wtxid t' -> t = t'.
(* P3: the spent outputs a transaction's prevouts commit to *)
Variable committed : T -> C.

Notation real := (real_ok oracle T F C is_coinbase script_runs).

Definition script_legit (x : Z) : Prop :=
  exists t fl, exec_key (wtxid t) fl = x /\ real t fl (committed t) = true.
Definition vstate_ok (st : vstate) : Prop :=
  sig_ok (vs_sig st) /\ cu_wf (vs_script st) /\ locs_ok (vs_script st) /\ table_inv script_legit (vs_script st).

Definition result_agrees (res : vresult) (expect : bool) : Prop :=
  match res with
  | VTrue => expect = true
  | VFalse => expect = false
  | VDeferred rs => forallb (exec_plain oracle) rs = expect
  end.

Lemma check_input_scripts_ok st c : vstate_ok st -> vc_coins T F C c = committed (vc_tx T F C c) ->
  exists res st', check_input_scripts locs_of oracle sigkey T F C is_coinbase wtxid exec_key script_runs st c = Some (res, st') /\
                  vstate_ok st' /\ result_agrees res (real (vc_tx T F C c) (vc_flags T F C c) (vc_coins T F C c)).
Proof.
  intros (Sg & W & Hl & Hi) P3. unfold check_input_scripts, real_ok.
  destruct (is_coinbase (vc_tx T F C c)) eqn:Ecb.
  - exists VTrue, st. split; [reflexivity|]. split; [unfold vstate_ok; cbn [vs_sig vs_script]; tauto | reflexivity].
  - set (key := exec_key (wtxid (vc_tx T F C c)) (vc_flags T F C c)).
    destruct (cuckoo_contains locs_of (vs_script st) key (negb (vc_full_store T F C c))) as [hit sc1] eqn:Ec.
    assert (E1 : sc1 = snd (cuckoo_contains locs_of (vs_script st) key (negb (vc_full_store T F C c)))) by (rewrite Ec; reflexivity).
    assert (W1 : cu_wf sc1) by (rewrite E1; apply contains_wf; exact W).
    assert (Hl1 : locs_ok sc1) by (rewrite E1; apply contains_locs_ok; exact Hl).
    assert (Hi1 : table_inv script_legit sc1) by (rewrite E1; apply contains_inv; exact Hi).
    destruct hit.
    + (* cache hit: the entry was inserted by a full successful run of the same transaction under the same flags *)
      assert (Hq : key = 0 \/ script_legit key) by (apply (contains_true_inv _ (vs_script st) _ (negb (vc_full_store T F C c)) Hi); rewrite Ec; reflexivity).
      destruct Hq as [Hz|(t' & fl' & Ek & Er)]; [exfalso; exact (exec_key_nz _ _ Hz)|].
      apply exec_key_inj in Ek. destruct Ek as [Ew ->]. apply wtxid_inj in Ew. subst t'.
      exists VTrue. eexists. split; [reflexivity|]. split; [unfold vstate_ok; cbn [vs_sig vs_script]; tauto|].
      cbn [result_agrees]. unfold real_ok in Er. rewrite Ecb in Er. rewrite P3. exact Er.
    + destruct (vc_deferred T F C c).
      * exists (VDeferred (script_runs (vc_tx T F C c) (vc_flags T F C c) (vc_coins T F C c))). eexists.
        split; [reflexivity|]. split; [unfold vstate_ok; cbn [vs_sig vs_script]; tauto | reflexivity].
      * destruct (run_inputs_ok (vc_sig_store T F C c) (script_runs (vc_tx T F C c) (vc_flags T F C c) (vc_coins T F C c)) (vs_sig st) Sg)
          as (sg1 & Er & Sg1).
        rewrite Er. destruct (forallb (exec_plain oracle) _) eqn:Ef.
        -- destruct (vc_full_store T F C c).
           ++ destruct (insert_total sc1 key W1 Hl1) as (sc2 & Ei & W2 & L2). rewrite Ei.
              exists VTrue. eexists. split; [reflexivity|]. split; [|reflexivity].
              unfold vstate_ok. cbn [vs_sig vs_script].
              split; [exact Sg1|]. split; [exact W2|]. split; [unfold locs_ok; rewrite L2; exact Hl1|].
              apply (insert_inv script_legit sc1 key sc2 Hi1); [|exact Ei].
              exists (vc_tx T F C c), (vc_flags T F C c). split; [reflexivity|]. unfold real_ok. rewrite Ecb, <- P3. exact Ef.
           ++ exists VTrue. eexists. split; [reflexivity|]. split; [unfold vstate_ok; cbn [vs_sig vs_script]; tauto | reflexivity].
        -- exists VFalse. eexists. split; [reflexivity|]. split; [unfold vstate_ok; cbn [vs_sig vs_script]; tauto | reflexivity].
Qed.

(* every history: every verdict is the verdict without caches *)
Theorem run_history_transparent h : forall st, vstate_ok st ->
  Forall (fun c => vc_coins T F C c = committed (vc_tx T F C c)) h ->
  exists st', run_history locs_of oracle sigkey T F C is_coinbase wtxid exec_key script_runs st h =
              Some (map (fun c => real (vc_tx T F C c) (vc_flags T F C c) (vc_coins T F C c)) h, st') /\ vstate_ok st'.
Proof.
  induction h as [|c rest IH]; intros st S HP; cbn [run_history map].
  - exists st. split; [reflexivity | exact S].
  - inversion HP as [|? ? P3 HP']; subst.
    destruct (check_input_scripts_ok st c S P3) as (res & st1 & E1 & S1 & Ag). rewrite E1.
    destruct res as [| |rs]; cbn [result_agrees] in Ag.
    + destruct (IH st1 S1 HP') as (st' & E' & S'). rewrite E'. exists st'. rewrite Ag. split; [reflexivity | exact S'].
    + destruct (IH st1 S1 HP') as (st' & E' & S'). rewrite E'. exists st'. rewrite Ag. split; [reflexivity | exact S'].
    + destruct S1 as (Sg1 & W1 & Hl1 & Hi1).
      destruct (run_inputs_ok (vc_sig_store T F C c) rs (vs_sig st1) Sg1) as (sg2 & Er & Sg2). rewrite Er.
      destruct (IH (mk_vstate (vs_script st1) sg2)) as (st' & E' & S'); [unfold vstate_ok; cbn [vs_sig vs_script]; tauto | exact HP' |].
      rewrite E'. exists st'. rewrite Ag. split; [reflexivity | exact S'].
Qed.

End WithLocs.
