(* C65 -- invariant of the waitNext machine under every environment behaviour, and the statements. *)
From BV Require Import lib.Ints gen.Params_gen model.WaitNext.
Local Open Scope Z_scope.

(* notifications are delivered in activation order and never run ahead of the chain *)
Fixpoint ordered (from : tip) (l : list tip) : Prop :=
  match l with [] => True | x :: r => tp_seq from < tp_seq x /\ ordered x r end.
Fixpoint last_of (from : tip) (l : list tip) : tip := match l with [] => from | x :: r => last_of x r end.

Lemma ordered_app from l x : ordered from l -> tp_seq (last_of from l) < tp_seq x -> ordered from (l ++ [x]).
Proof. revert from. induction l as [|a l IH]; simpl; intros from H Hx; [auto | destruct H; split; auto]. Qed.
Lemma last_of_app from l x : last_of from (l ++ [x]) = x.
Proof. revert from. induction l as [|a l IH]; simpl; intros; auto. Qed.
Lemma ordered_le from l : ordered from l -> tp_seq from <= tp_seq (last_of from l).
Proof. revert from. induction l as [|a l IH]; simpl; intros from H; [lia|]. destruct H as [H1 H2]. specialize (IH a H2). lia. Qed.

(* why a template was returned *)
Definition justified (P : params) (s : sys) (t : template) : Prop :=
  exists b now, w_build s = Some (b, now) /\ tm_prev t = tp_hash b /\ tm_seq t = tp_seq b /\
    ( (exists trig, w_trigger s = Some trig /\ tp_hash trig <> tm_prev (p_old P) /\ tp_seq trig <= tm_seq t)
    \/ (w_trigger s = None /\ p_allow_min_difficulty P = true /\ tp_time b + TWENTY_MIN < now)
    \/ (w_trigger s = None /\ p_threshold P < MAX_MONEY /\ wrap64 (tm_fees (p_old P) + p_threshold P) <= tm_fees t) ).

Record winv (P : params) (s : sys) : Prop := {
  wi_ord : ordered (e_notified s) (e_pending s);
  wi_last : last_of (e_notified s) (e_pending s) = e_active s;
  wi_cf : w_current_fees s = -1 \/ w_current_fees s = tm_fees (p_old P);
  wi_trig : forall trig, w_trigger s = Some trig -> tp_hash trig <> tm_prev (p_old P) /\ tp_seq trig <= tp_seq (e_active s);
  wi_phase : match w_phase s with
             | PhWait => w_trigger s = None
             | PhAfterWait tc | PhLocked tc => (tc = true <-> w_trigger s <> None)
             | PhDone (Some t) => justified P s t /\ tm_seq t <= tp_seq (e_active s)
             | PhDone None => (w_cause s = 1 \/ w_cause s = 2 \/ w_cause s = 3) /\
                              (w_cause s = 3 -> exists d, p_deadline P = Some d /\ d <= w_now s)
             end
}.

Lemma winv_start P clock active pending notified fees iw inode :
  ordered notified pending -> last_of notified pending = active ->
  winv P (start P clock active pending notified fees iw inode).
Proof. intros H1 H2. constructor; simpl; auto. intros trig H; discriminate. Qed.

Lemma notified_le_active P s : winv P s -> tp_seq (e_notified s) <= tp_seq (e_active s).
Proof. intros [H1 H2 _ _ _]. rewrite <- H2. apply ordered_le. exact H1. Qed.

Lemma step_winv P s a s' : winv P s -> step P s a = Some s' -> winv P s'.
Proof.
  intros HI Hs. pose proof (notified_le_active P s HI) as Hna. destruct HI as [H1 H2 H3 H4 H5].
  destruct a as [h t| |f|dt| | |]; simpl in Hs.
  - (* a new active tip *)
    destruct (w_phase s) eqn:Ep; try discriminate; inversion Hs; subst s'; clear Hs;
      (constructor; simpl; rewrite ?Ep;
       [apply ordered_app; [exact H1 | rewrite H2; simpl; lia] | apply last_of_app | exact H3
       | intros trig Ht; destruct (H4 trig Ht) as [A B]; split; [exact A | simpl; lia] | ]).
    + exact H5.
    + exact H5.
    + destruct r as [tm|]; [|exact H5]. destruct H5 as [J L]. split; [exact J | simpl; lia].
  - (* a notification is delivered *)
    destruct (e_pending s) as [|nt r] eqn:Eq; [discriminate|]. inversion Hs; subst s'; clear Hs.
    simpl in H1, H2. destruct H1 as [H1a H1b]. constructor; simpl; auto.
  - destruct (w_phase s) eqn:Ep; try discriminate; destruct (f <? 0); try discriminate; inversion Hs; subst s'; clear Hs;
      (constructor; simpl; rewrite ?Ep; auto).
  - destruct (dt <? 0); [discriminate|]. inversion Hs; subst s'; clear Hs. constructor; simpl; auto.
  - inversion Hs; subst s'; clear Hs. constructor; simpl; auto.
  - inversion Hs; subst s'; clear Hs. constructor; simpl; auto.
  - (* the waiting thread *)
    destruct (w_phase s) as [|tc|tc|r] eqn:Ep; [| | |discriminate].
    + destruct (wait_pred P s || (wait_limit P (w_now s) <=? e_clock s)); [|discriminate].
      destruct (e_int_wait s).
      * inversion Hs; subst s'; clear Hs. constructor; simpl; auto. split; [left; reflexivity | intros E; discriminate].
      * inversion Hs; subst s'; clear Hs. unfold tip_differs. destruct (tp_hash (e_notified s) =? tm_prev (p_old P)) eqn:Eh; simpl.
        -- constructor; simpl; auto. { intros trig E; discriminate. } split; [intros E; discriminate | intros E; congruence].
        -- apply Z.eqb_neq in Eh. constructor; simpl; auto.
           { intros trig E. inversion E; subst trig. split; [exact Eh | exact Hna]. }
           split; [intros _ E; discriminate | reflexivity].
    + destruct (e_int_node s); inversion Hs; subst s'; clear Hs; constructor; simpl; auto.
      split; [right; left; reflexivity | intros E; discriminate].
    + (* under cs_main *)
      remember (tc || (p_allow_min_difficulty P && (tp_time (e_active s) + TWENTY_MIN <? w_now s))) as tc' eqn:Etcdef.
      set (nt := {| tm_prev := tp_hash (e_active s); tm_seq := tp_seq (e_active s); tm_fees := e_fees s |}) in *.
      assert (Hagain : forall cf s1, (cf = -1 \/ cf = tm_fees (p_old P)) ->
                (if before_deadline P (e_clock s) then Some (set_w s PhWait (e_clock s) cf None (e_int_wait s) 0)
                 else Some (set_w s (PhDone None) (e_clock s) cf (w_trigger s) (e_int_wait s) 3)) = Some s1 -> winv P s1).
      { intros cf s1 Hcf E. unfold before_deadline in E. destruct (p_deadline P) as [d|] eqn:Ed.
        - destruct (e_clock s <? d) eqn:El; inversion E; subst s1; constructor; simpl; auto.
          + intros trig Et; discriminate.
          + split; [right; right; reflexivity|]. intros _. exists d. split; [exact Ed|]. apply Z.ltb_ge in El. exact El.
        - inversion E; subst s1. constructor; simpl; auto. intros trig Et; discriminate. }
      assert (Hdone : forall cf, (cf = -1 \/ cf = tm_fees (p_old P)) ->
                ((tc = true /\ True) \/ (tc = false /\ p_allow_min_difficulty P = true /\ tp_time (e_active s) + TWENTY_MIN < w_now s)
                 \/ (tc = false /\ p_threshold P < MAX_MONEY /\ wrap64 (tm_fees (p_old P) + p_threshold P) <= e_fees s)) ->
                winv P (set_w s (PhDone (Some nt)) (w_now s) cf (w_trigger s) (e_int_wait s) 0)).
      { intros cf Hcf Hwhy. constructor; simpl; auto. split; [|lia].
        exists (e_active s), (w_now s). split; [reflexivity|]. split; [reflexivity|]. split; [reflexivity|].
        destruct Hwhy as [[Etc _]|[(Etc & Ha & Hb)|(Etc & Ha & Hb)]].
        - left. destruct (w_trigger s) as [trig|] eqn:Et; [|exfalso; apply (proj1 H5 Etc); reflexivity].
          exists trig. destruct (H4 trig eq_refl) as [A B]. repeat split; auto.
        - right; left. split; [|split; assumption]. destruct (w_trigger s) eqn:Et; [|reflexivity]. exfalso.
          assert (tc = true) by (apply H5; discriminate). congruence.
        - right; right. split; [|split; assumption]. destruct (w_trigger s) eqn:Et; [|reflexivity]. exfalso.
          assert (tc = true) by (apply H5; discriminate). congruence. }
      destruct ((p_threshold P <? MAX_MONEY) || tc') eqn:Eg.
      * destruct tc'.
        -- inversion Hs. apply Hdone; [exact H3|]. symmetry in Etcdef. destruct tc; [left; auto|]. right; left.
           simpl in Etcdef. apply andb_true_iff in Etcdef. destruct Etcdef as [A B]. apply Z.ltb_lt in B. auto.
        -- rewrite orb_false_r in Eg. apply Z.ltb_lt in Eg.
           set (cf := if w_current_fees s =? -1 then tm_fees (p_old P) else w_current_fees s) in *.
           assert (Hcf : cf = tm_fees (p_old P)).
           { unfold cf. destruct (w_current_fees s =? -1) eqn:E1; [reflexivity|]. apply Z.eqb_neq in E1. destruct H3; congruence. }
           destruct (wrap64 (cf + p_threshold P) <=? e_fees s) eqn:Ef.
           ++ inversion Hs. apply Hdone; [right; exact Hcf|]. right; right.
              apply Z.leb_le in Ef. rewrite Hcf in Ef. symmetry in Etcdef. apply orb_false_iff in Etcdef. destruct Etcdef as [A _]. auto.
           ++ apply (Hagain cf s'); [right; exact Hcf | exact Hs].
      * apply (Hagain (w_current_fees s) s'); [exact H3 | exact Hs].
Qed.

Lemma run_winv P : forall l s s', winv P s -> run P s l = Some s' -> winv P s'.
Proof.
  induction l as [|a l IH]; intros s s' HI H; simpl in H; [inversion H; subst; exact HI|].
  destruct (step P s a) as [s1|] eqn:E; [|discriminate]. eapply IH; [|exact H]. eapply step_winv; eauto.
Qed.

(* ---- the statements ---- *)

Section Run.
  Variables (P : params) (clock : Z) (active : tip) (pending : list tip) (notified : tip) (fees : Z) (iw inode : bool) (l : list action) (s : sys).
  Hypothesis Hord : ordered notified pending.
  Hypothesis Hlast : last_of notified pending = active.
  Hypothesis Hrun : run P (start P clock active pending notified fees iw inode) l = Some s.

  Lemma inv_here : winv P s.
  Proof. eapply run_winv; [|exact Hrun]. apply winv_start; assumption. Qed.
End Run.

(* A returned template was built on the then-active tip, is never on a tip older than the notified tip that triggered
   it, and is justified by a tip change, by the 20-minute rule of test networks, or by the fee increase. *)
Theorem returned_template_is_justified P clock active pending notified fees iw inode l s t :
  ordered notified pending -> last_of notified pending = active ->
  run P (start P clock active pending notified fees iw inode) l = Some s ->
  w_phase s = PhDone (Some t) ->
  justified P s t /\ tm_seq t <= tp_seq (e_active s).
Proof.
  intros Ho Hl Hr Hp. pose proof (inv_here P clock active pending notified fees iw inode l s Ho Hl Hr) as [_ _ _ _ H5]. rewrite Hp in H5. exact H5.
Qed.

(* In int64 the comparison is the mathematical one whenever the old template's fees are a money amount. *)
Lemma fee_sum_no_overflow old_fees threshold :
  0 <= old_fees <= MAX_MONEY -> INT64_MIN <= threshold < MAX_MONEY -> wrap64 (old_fees + threshold) = old_fees + threshold.
Proof. intros H1 H2. apply wrap64_id. unfold MAX_MONEY, INT64_MIN, INT64_MAX in *. lia. Qed.

(* A template on the same tip as the old one, when no tip change was observed and the chain has no minimum-difficulty
   rule, carries at least old fees + threshold. *)
Theorem same_tip_needs_fees P clock active pending notified fees iw inode l s t :
  ordered notified pending -> last_of notified pending = active ->
  run P (start P clock active pending notified fees iw inode) l = Some s ->
  w_phase s = PhDone (Some t) -> w_trigger s = None -> p_allow_min_difficulty P = false ->
  0 <= tm_fees (p_old P) <= MAX_MONEY -> INT64_MIN <= p_threshold P ->
  p_threshold P < MAX_MONEY /\ tm_fees (p_old P) + p_threshold P <= tm_fees t.
Proof.
  intros Ho Hl Hr Hp Ht Hm Hf Hth.
  destruct (returned_template_is_justified P clock active pending notified fees iw inode l s t Ho Hl Hr Hp) as [(b & now & Hb & _ & _ & J) _].
  destruct J as [(trig & E & _)|[(_ & E & _)|(_ & A & B)]]; [congruence | congruence |].
  split; [exact A|]. rewrite fee_sum_no_overflow in B; auto.
Qed.

(* nullptr only after an interrupt or at/after the deadline *)
Theorem nothing_only_after_interrupt_or_deadline P clock active pending notified fees iw inode l s :
  ordered notified pending -> last_of notified pending = active ->
  run P (start P clock active pending notified fees iw inode) l = Some s ->
  w_phase s = PhDone None ->
  (w_cause s = 1 \/ w_cause s = 2 \/ w_cause s = 3) /\ (w_cause s = 3 -> exists d, p_deadline P = Some d /\ d <= w_now s).
Proof.
  intros Ho Hl Hr Hp. pose proof (inv_here P clock active pending notified fees iw inode l s Ho Hl Hr) as [_ _ _ _ H5]. rewrite Hp in H5. exact H5.
Qed.

(* what each cause means, at the step that returns *)
Theorem return_step_causes P s s' :
  step P s WStep = Some s' -> w_phase s' = PhDone None ->
  (w_phase s = PhWait /\ e_int_wait s = true /\ e_int_wait s' = false /\ w_cause s' = 1) \/
  (exists tc, w_phase s = PhAfterWait tc /\ e_int_node s = true /\ w_cause s' = 2) \/
  (exists tc d, w_phase s = PhLocked tc /\ p_deadline P = Some d /\ d <= e_clock s /\ w_cause s' = 3).
Proof.
  intros Hs Hd. simpl in Hs. destruct (w_phase s) as [|tc|tc|r] eqn:Ep; [| | |discriminate].
  - destruct (wait_pred P s || (wait_limit P (w_now s) <=? e_clock s)); [|discriminate].
    destruct (e_int_wait s) eqn:Ei; inversion Hs; subst s'; simpl in *; [left; auto | discriminate].
  - destruct (e_int_node s) eqn:Ei; inversion Hs; subst s'; simpl in *; [right; left; exists tc; auto | discriminate].
  - right; right.
    assert (Hagain : forall cf, (if before_deadline P (e_clock s) then Some (set_w s PhWait (e_clock s) cf None (e_int_wait s) 0)
                                 else Some (set_w s (PhDone None) (e_clock s) cf (w_trigger s) (e_int_wait s) 3)) = Some s' ->
                                exists d, p_deadline P = Some d /\ d <= e_clock s /\ w_cause s' = 3).
    { intros cf E. unfold before_deadline in E. destruct (p_deadline P) as [d|].
      - destruct (e_clock s <? d) eqn:El; inversion E; subst s'; simpl in Hd; [discriminate|]. exists d. apply Z.ltb_ge in El. auto.
      - inversion E; subst s'. simpl in Hd. discriminate. }
    destruct ((p_threshold P <? MAX_MONEY) || (tc || (p_allow_min_difficulty P && (tp_time (e_active s) + TWENTY_MIN <? w_now s)))).
    + destruct (tc || (p_allow_min_difficulty P && (tp_time (e_active s) + TWENTY_MIN <? w_now s))).
      * inversion Hs; subst s'. simpl in Hd. discriminate.
      * destruct (wrap64 _ <=? _).
        -- inversion Hs; subst s'. simpl in Hd. discriminate.
        -- destruct (Hagain _ Hs) as (d & A & B & C). exists tc, d. auto.
    + destruct (Hagain _ Hs) as (d & A & B & C). exists tc, d. auto.
Qed.

(* once the notified tip differs from the old template's parent (and no interrupt is pending), the very next pass
   returns a fresh template on the active tip, whatever its fees *)
Theorem tip_change_returns_fresh_template P s :
  w_phase s = PhLocked true ->
  exists s', step P s WStep = Some s' /\
             w_phase s' = PhDone (Some {| tm_prev := tp_hash (e_active s); tm_seq := tp_seq (e_active s); tm_fees := e_fees s |}).
Proof.
  intros Hp. simpl. rewrite Hp. simpl. rewrite orb_true_r. eexists. split; reflexivity.
Qed.

(* the waiting thread is blocked only inside wait_until, and only while the predicate is false and the tick/deadline
   has not been reached *)
Theorem waiter_blocked_only_in_wait P s :
  step P s WStep = None ->
  (exists r, w_phase s = PhDone r) \/ (w_phase s = PhWait /\ wait_pred P s = false /\ e_clock s < wait_limit P (w_now s)).
Proof.
  intros H. simpl in H. destruct (w_phase s) as [|tc|tc|r] eqn:Ep.
  - right. destruct (wait_pred P s) eqn:Ew; simpl in H; [destruct (e_int_wait s); discriminate|].
    destruct (wait_limit P (w_now s) <=? e_clock s) eqn:El; [destruct (e_int_wait s); discriminate|]. apply Z.leb_gt in El. auto.
  - destruct (e_int_node s); discriminate.
  - exfalso. destruct ((p_threshold P <? MAX_MONEY) || (tc || (p_allow_min_difficulty P && (tp_time (e_active s) + TWENTY_MIN <? w_now s)))).
    + destruct (tc || (p_allow_min_difficulty P && (tp_time (e_active s) + TWENTY_MIN <? w_now s))); [discriminate|].
      destruct (wrap64 _ <=? _); [discriminate|]. destruct (before_deadline P (e_clock s)); discriminate.
    + destruct (before_deadline P (e_clock s)); discriminate.
  - left. exists r. reflexivity.
Qed.

(* ---- the clause that is false in a race: a same-tip template without the fee increase ---- *)
Definition rP : params := {| p_old := {| tm_prev := 10; tm_seq := 0; tm_fees := 5000 |}; p_deadline := None; p_threshold := 1000; p_allow_min_difficulty := false |}.
Definition rT0 : tip := {| tp_seq := 0; tp_hash := 10; tp_time := 0 |}.
(* block 11 is connected and notified; the waiter wakes up; before it gets cs_main block 11 is invalidated and 10 is the
   tip again; the template is built on 10 with unchanged fees and returned *)
Definition rL : list action := [EActivate 11 0; ENotify; WStep; EActivate 10 0; WStep; WStep].

Theorem same_tip_without_fees_refuted :
  exists P clock active pending notified fees l s t,
    ordered notified pending /\ last_of notified pending = active /\
    run P (start P clock active pending notified fees false false) l = Some s /\
    w_phase s = PhDone (Some t) /\ tm_prev t = tm_prev (p_old P) /\ tm_fees t < tm_fees (p_old P) + p_threshold P /\
    p_allow_min_difficulty P = false.
Proof.
  exists rP, 0, rT0, [], rT0, 5000, rL. eexists. eexists.
  split; [exact I|]. split; [reflexivity|]. split; [vm_compute; reflexivity|]. split; [reflexivity|]. vm_compute. repeat split; reflexivity.
Qed.
