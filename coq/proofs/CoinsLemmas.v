(* Layered coin cache model (C15), part 4: every operation of a stack simulates the flat-map
   specification; whole scripts; accounting; soundness of the executable predicate.
   Statements used by props/Properties_C15.v. *)
From BV Require Import lib.Ints gen.Params_gen model.Coins proofs.CoinsBase proofs.CoinsLayer proofs.CoinsBatch.
Local Open Scope Z_scope.

(* ------------------------------------------------------------------------------------------- *)
(* equality tests                                                                               *)

Lemma coin_eqb_refl c : coin_eqb c c = true.
Proof.
  unfold coin_eqb. rewrite !Z.eqb_refl. destruct (c_cb c), (c_unsp c); reflexivity.
Qed.

Lemma coin_eqb_eq a b : coin_eqb a b = true -> a = b.
Proof.
  unfold coin_eqb. intros H.
  apply andb_true_iff in H as [H H5]. apply andb_true_iff in H as [H H4].
  apply andb_true_iff in H as [H H3]. apply andb_true_iff in H as [H1 H2].
  apply Z.eqb_eq in H1, H2, H4. apply Bool.eqb_prop in H3, H5.
  destruct a, b; simpl in *. congruence.
Qed.

Lemma ocoin_eqb_refl a : ocoin_eqb a a = true.
Proof. destruct a; simpl; auto using coin_eqb_refl. Qed.

Lemma ocoin_eqb_eq a b : ocoin_eqb a b = true -> a = b.
Proof. destruct a, b; simpl; intros H; try discriminate; auto. f_equal. apply coin_eqb_eq. auto. Qed.

(* ------------------------------------------------------------------------------------------- *)
(* D. operations at a depth                                                                     *)

Fixpoint suffix_at (d : nat) (ls : list layer) : option (list layer) :=
  match ls with
  | [] => None
  | _ :: ps => match d with O => Some ls | S d' => suffix_at d' ps end
  end.

Lemma sim_cons_inv ls db v vs :
  sim ls db (v :: vs) -> vs <> [] ->
  exists L ps, ls = L :: ps /\ (forall k, m_get k v = view_peek (L :: ps) db k) /\ sim ps db vs.
Proof.
  destruct ls as [|L ps]; simpl.
  - destruct vs; [congruence|tauto].
  - intros [H1 H2] _. eauto.
Qed.

Lemma sim_nil_inv db vs : sim [] db vs -> exists v, vs = [v] /\ forall k, m_get k v = m_get k db.
Proof. simpl. destruct vs as [|v [|? ?]]; try tauto. eauto. Qed.

Lemma spec_view_sim db : forall d ls vs v,
  sim ls db vs -> spec_view d vs = Some v ->
  exists sub, suffix_at d ls = Some sub /\ sub <> [] /\ forall k, m_get k v = view_peek sub db k.
Proof.
  induction d as [|d IH]; intros ls vs v Hs Hv.
  - destruct vs as [|v0 [|p r]]; simpl in Hv; try discriminate. inversion Hv; subst v0.
    destruct (sim_cons_inv _ _ _ _ Hs) as (L & ps & -> & Ht & _); [discriminate|].
    exists (L :: ps). simpl. split; auto. split; [discriminate|auto].
  - destruct vs as [|v0 [|p r]]; simpl in Hv; try discriminate.
    destruct (sim_cons_inv _ _ _ _ Hs) as (L & ps & -> & _ & Hr); [discriminate|].
    destruct (IH ps (p :: r) v Hr Hv) as (sub & E & N & G).
    exists sub. simpl. auto.
Qed.

(* an operation that changes no view *)
Definition view_pres (f : list layer -> dbmap -> sres) (Obs : list layer -> dbmap -> obs -> Prop) : Prop :=
  forall sub db, sub <> [] -> wf sub db ->
    exists sub' a, f sub db = Ok (sub', db, a) /\ wf sub' db /\ views_eq sub' db sub db /\ Obs sub db a.

Lemma at_depth_view_pres f Obs :
  view_pres f Obs ->
  forall d ls db sub, wf ls db -> suffix_at d ls = Some sub -> sub <> [] ->
    exists ls' a, at_depth d f ls db = Ok (ls', db, a) /\ wf ls' db /\ views_eq ls' db ls db /\ Obs sub db a.
Proof.
  intros Hf. induction d as [|d IH]; intros ls db sub Hwf Hs Hne.
  - destruct ls as [|L ps]; simpl in Hs; [discriminate|]. inversion Hs; subst sub.
    simpl. apply Hf; auto.
  - destruct ls as [|L ps]; simpl in Hs; [discriminate|]. destruct Hwf as [HL Hps].
    destruct (IH ps db sub Hps Hs Hne) as (ps' & a & E & W & V & O).
    exists (L :: ps'), a. cbn [at_depth]. rewrite E.
    destruct (wf_cons_views_eq _ _ _ _ _ HL W V) as [W' V'].
    split; [reflexivity|]. split; [exact W'|]. split; [exact V'|exact O].
Qed.

Lemma views_eq_same_tail L' L ps db :
  (forall k, lview L' (view_peek ps db) k = lview L (view_peek ps db) k) ->
  views_eq (L' :: ps) db (L :: ps) db.
Proof. intros H. simpl. split; auto. apply views_eq_refl. Qed.

Definition is_some (c : option coin) : bool := match c with Some _ => true | None => false end.

Lemma top_get_pres k : view_pres (top_get k) (fun sub db a => a = ObCoin (view_peek sub db k)).
Proof.
  intros sub db Hne Hwf. unfold top_get. destruct sub as [|L ps]; [congruence|].
  destruct (view_get (L :: ps) db k) as [ls' r] eqn:G.
  destruct (view_get_ok _ _ _ _ _ Hwf G) as (Hr & W & V).
  exists ls', (ObCoin r). subst r. auto.
Qed.

Lemma top_have_pres k : view_pres (top_have k) (fun sub db a => a = ObBool (is_some (view_peek sub db k))).
Proof.
  intros sub db Hne Hwf. unfold top_have. destruct sub as [|L ps]; [congruence|].
  destruct (fetch_coin L ps db k) as [[L' ps'] it] eqn:F.
  destruct (fetch_coin_ok _ _ _ _ _ _ _ Hwf F) as (W & V & _ & Hc).
  eexists _, _. split; [reflexivity|]. split; auto. split; auto.
  rewrite <- Hc. destruct it as [e|]; [unfold is_unspent; destruct (e_coin e)|]; reflexivity.
Qed.

Lemma top_access_pres k : view_pres (top_access k) (fun sub db a => a = ObCoin (view_peek sub db k)).
Proof.
  intros sub db Hne Hwf. unfold top_access. destruct sub as [|L ps]; [congruence|].
  destruct (fetch_coin L ps db k) as [[L' ps'] it] eqn:F.
  destruct (fetch_coin_ok _ _ _ _ _ _ _ Hwf F) as (W & V & _ & Hc).
  eexists _, _. split; [reflexivity|]. split; auto. split; auto. rewrite <- Hc. auto.
Qed.

Lemma top_peek_pres k : view_pres (top_peek k) (fun sub db a => a = ObCoin (view_peek sub db k)).
Proof.
  intros sub db Hne Hwf. unfold top_peek. destruct sub as [|L ps]; [congruence|].
  eexists _, _. split; [reflexivity|]. split; auto. split; auto. apply views_eq_refl.
Qed.

Lemma top_uncache_pres k : view_pres (top_uncache k) (fun sub db a => a = ObUnit).
Proof.
  intros sub db Hne Hwf. unfold top_uncache. destruct sub as [|L ps]; [congruence|].
  destruct Hwf as [HL Hps]. destruct (uncache_ok _ _ k HL) as [HL' Hv].
  eexists _, _. split; [reflexivity|]. split; [split; auto|]. split; auto.
  apply views_eq_same_tail. auto.
Qed.

(* Flush / Sync at a depth: the parent's flat map becomes the child's, nothing else moves *)
Lemma spec_flush_head d v r vs' : spec_flush d (v :: r) = Some vs' -> exists r', vs' = v :: r'.
Proof.
  destruct d; simpl; destruct r as [|p rest]; try (intros H; discriminate).
  - intros H. inversion H. eauto.
  - destruct (spec_flush d (p :: rest)); intros H; inversion H. eauto.
Qed.

Lemma flush_sim w : forall d ls db vs vs',
  wf ls db -> sim ls db vs -> spec_flush d vs = Some vs' ->
  exists ls' db', at_depth d (top_flush w) ls db = Ok (ls', db', ObUnit) /\
    wf ls' db' /\ sim ls' db' vs' /\ (forall k, view_peek ls' db' k = view_peek ls db k).
Proof.
  induction d as [|d IH]; intros ls db vs vs' Hwf Hs Hf.
  - destruct vs as [|v [|p rest]]; simpl in Hf; try discriminate. inversion Hf; subst vs'; clear Hf.
    destruct (sim_cons_inv _ _ _ _ Hs) as (C & ps & -> & Ht & Hr); [discriminate|].
    destruct ps as [|P gs].
    + destruct (sim_nil_inv _ _ Hr) as (p' & Ep & Hp). inversion Ep; subst p' rest.
      destruct (flush_top_db_ok w C db Hwf) as (C' & db' & E & W & V1 & V2).
      exists [C'], db'. simpl at_depth. unfold top_flush. rewrite E.
      split; auto. split; auto. split; auto.
      simpl. split.
      * intros k. rewrite Ht. symmetry. apply V1.
      * intros k. rewrite Ht. symmetry. apply V2.
    + destruct (flush_top_cache_ok w C P gs db Hwf) as (C' & P' & E & W & V1 & V2).
      destruct (sim_cons_inv _ _ _ _ Hr) as (P0 & gs0 & E0 & _ & Hgs).
      { destruct rest; [destruct gs; simpl in Hr; tauto | discriminate]. }
      inversion E0; subst P0 gs0.
      exists (C' :: P' :: gs), db. simpl at_depth. unfold top_flush. rewrite E.
      split; auto. split; auto. split; auto.
      split; [|split]; auto.
      * intros k. rewrite Ht. symmetry. apply V1.
      * intros k. rewrite Ht. symmetry. apply V2.
  - destruct vs as [|v [|p rest]]; simpl in Hf; try discriminate.
    destruct (spec_flush d (p :: rest)) as [r'|] eqn:Fr; [|discriminate].
    inversion Hf; subst vs'; clear Hf.
    destruct (sim_cons_inv _ _ _ _ Hs) as (L & ps & -> & Ht & Hr); [discriminate|].
    destruct Hwf as [HL Hps].
    destruct (IH ps db (p :: rest) r' Hps Hr Fr) as (ps' & db' & E & W & S' & V).
    exists (L :: ps'), db'. simpl at_depth. rewrite E.
    assert (HL' : layer_ok (view_peek ps' db') L).
    { eapply layer_ok_ext; [|exact HL]. intros k. symmetry. apply V. }
    assert (Vt : forall k, view_peek (L :: ps') db' k = view_peek (L :: ps) db k).
    { intros k. rewrite !view_peek_cons. apply lview_ext. auto. }
    split; auto. split; [split; auto|]. split; auto.
    simpl. split; auto. intros k. rewrite Ht. symmetry. apply Vt.
Qed.

(* ------------------------------------------------------------------------------------------- *)
(* E. one operation: forward simulation                                                         *)

Lemma read_sim f mk mkc k d ls db vs vs' so :
  view_pres f (fun sub db a => a = mkc (view_peek sub db k)) ->
  (forall c, obs_match (mk c) (mkc c) = true) ->
  wf ls db -> sim ls db vs -> spec_read d k vs mk = SOk vs' so ->
  exists ls' db' ob, at_depth d f ls db = Ok (ls', db', ob) /\ wf ls' db' /\ sim ls' db' vs' /\
                     obs_match so ob = true.
Proof.
  intros Hf Hm Hwf Hs Hr. unfold spec_read in Hr.
  destruct (spec_view d vs) as [v|] eqn:Hv; [|discriminate]. inversion Hr; subst vs' so; clear Hr.
  destruct (spec_view_sim db d ls vs v Hs Hv) as (sub & E & N & G).
  destruct (at_depth_view_pres f _ Hf d ls db sub Hwf E N) as (ls' & a & Ea & W & V & O).
  exists ls', db, a. split; auto. split; auto. split; [eapply sim_views_eq; eauto|].
  subst a. rewrite G. apply Hm.
Qed.

Lemma m_get_set_fm (v : fmap) k c k' : m_get k' (m_set k c v) = if Nat.eqb k' k then Some c else m_get k' v.
Proof.
  destruct (Nat.eqb_spec k' k) as [->|Hne]; [apply m_get_set_eq | apply m_get_set_neq; auto].
Qed.

Lemma m_get_del_fm (v : fmap) k k' : m_get k' (m_del k v) = if Nat.eqb k' k then None else m_get k' v.
Proof.
  destruct (Nat.eqb_spec k' k) as [->|Hne]; [apply m_get_del_eq | apply m_get_del_neq; auto].
Qed.

Theorem refinement_step ls db vs o vs' so :
  wf ls db -> sim ls db vs -> spec_step vs o = SOk vs' so ->
  exists ls' db' ob, step ls db o = Ok (ls', db', ob) /\ wf ls' db' /\ sim ls' db' vs' /\
                     obs_match so ob = true.
Proof.
  intros Hwf Hs Hstep. destruct o as [d k c ow|d k|d k|d k|d k|d k|d k|d|d|d|ov|]; simpl in Hstep.
  - (* AddCoin *)
    destruct (spec_view d vs) as [v0|] eqn:Hv; [|discriminate].
    destruct d as [|d]; [|discriminate].
    destruct vs as [|v [|p rest]]; simpl in Hv; try discriminate.
    destruct (sim_cons_inv _ _ _ _ Hs) as (L & ps & -> & Ht & Hr); [discriminate|].
    destruct Hwf as [HL Hps]. cbn [step at_depth]. unfold top_add.
    destruct (add_coin_ok (view_peek ps db) L k c ow HL) as (L' & E & HL' & Hv').
    { intros -> Hu. rewrite Hu in Hstep. simpl in Hstep. rewrite <- view_peek_cons, <- Ht.
      destruct (m_get k v); [discriminate|auto]. }
    rewrite E. exists (L' :: ps), db, ObUnit. split; auto. split; [split; auto|].
    destruct (c_unsp c) eqn:Eu.
    + inversion Hstep; subst vs' so. split; auto. cbn [sim]. split; auto.
      intros k'. rewrite view_peek_cons, Hv'. apply Ht.
    + destruct (negb ow && match m_get k v with Some _ => true | None => false end); [discriminate|].
      inversion Hstep; subst vs' so. split; auto. cbn [sim]. split; auto.
      intros k'. rewrite view_peek_cons, Hv', m_get_set_fm. destruct (Nat.eqb k' k); auto. apply Ht.
  - (* SpendCoin *)
    destruct (spec_view d vs) as [v0|] eqn:Hv; [|discriminate].
    destruct d as [|d]; [|discriminate].
    destruct vs as [|v [|p rest]]; simpl in Hv; try discriminate.
    inversion Hstep; subst vs' so; clear Hstep.
    destruct (sim_cons_inv _ _ _ _ Hs) as (L & ps & -> & Ht & Hr); [discriminate|].
    cbn [step at_depth]. unfold top_spend.
    destruct (spend_coin L ps db k) as [[L' ps'] [b mv]] eqn:E.
    destruct (spend_coin_ok _ _ _ _ _ _ _ _ Hwf E) as (W & V & Hv' & Hmv & Hb).
    exists (L' :: ps'), db, (ObSpend b mv). split; auto. split; auto. split.
    + cbn [sim]. split; [|eapply sim_views_eq; eauto].
      intros k'. rewrite Hv', m_get_del_fm. destruct (Nat.eqb k' k); auto.
    + cbn [obs_match]. rewrite Ht, <- Hmv. destruct mv as [c0|].
      * rewrite Hb by (rewrite <- Hmv; discriminate). simpl. apply coin_eqb_refl.
      * reflexivity.
  - (* GetCoin *)
    eapply read_sim; eauto using top_get_pres. intros c0. simpl. apply ocoin_eqb_refl.
  - (* HaveCoin *)
    eapply (read_sim _ _ (fun c => ObBool (is_some c))); eauto using top_have_pres.
    intros c0. simpl. destruct c0; reflexivity.
  - (* AccessCoin *)
    eapply read_sim; eauto using top_access_pres. intros c0. simpl. apply ocoin_eqb_refl.
  - (* PeekCoin *)
    eapply read_sim; eauto using top_peek_pres. intros c0. simpl. apply ocoin_eqb_refl.
  - (* Uncache *)
    destruct (spec_view d vs) as [v|] eqn:Hv; [|discriminate]. inversion Hstep; subst vs' so; clear Hstep.
    destruct (spec_view_sim db d ls vs v Hs Hv) as (sub & E & N & G).
    destruct (at_depth_view_pres _ _ (top_uncache_pres k) d ls db sub Hwf E N) as (ls' & a & Ea & W & V & O).
    exists ls', db, a. split; auto. split; auto. split; [eapply sim_views_eq; eauto|]. subst a. reflexivity.
  - (* Flush *)
    destruct (spec_flush d vs) as [vf|] eqn:Hf; [|discriminate]. inversion Hstep; subst vs' so; clear Hstep.
    destruct (flush_sim true d ls db vs vf Hwf Hs Hf) as (ls' & db' & E & W & S' & _).
    exists ls', db', ObUnit. auto.
  - (* Sync *)
    destruct (spec_flush d vs) as [vf|] eqn:Hf; [|discriminate]. inversion Hstep; subst vs' so; clear Hstep.
    destruct (flush_sim false d ls db vs vf Hwf Hs Hf) as (ls' & db' & E & W & S' & _).
    exists ls', db', ObUnit. auto.
  - (* Reset *)
    destruct (spec_view d vs) as [v0|] eqn:Hv; [|discriminate].
    destruct d as [|d]; [|discriminate].
    destruct vs as [|v [|p rest]]; simpl in Hv; try discriminate.
    inversion Hstep; subst vs' so; clear Hstep.
    destruct (sim_cons_inv _ _ _ _ Hs) as (L & ps & -> & Ht & Hr); [discriminate|].
    destruct Hwf as [HL Hps]. destruct (reset_ok (view_peek ps db) L) as [HL' Hv'].
    cbn [step at_depth top_reset]. exists (reset_layer L :: ps), db, ObUnit.
    split; auto. split; [split; auto|]. split; auto.
    cbn [sim]. split; auto. intros k. rewrite view_peek_cons, Hv'.
    destruct ps as [|P gs]; simpl in Hr.
    + destruct rest; [|tauto]. apply Hr.
    + destruct Hr as [Hp _]. apply Hp.
  - (* push a new cache *)
    destruct vs as [|v rest]; [discriminate|]. inversion Hstep; subst vs' so; clear Hstep.
    destruct (empty_layer_ok (view_peek ls db) ov) as [HE Hv'].
    cbn [step]. exists (empty_layer ov :: ls), db, ObUnit. split; auto. split; [split; auto|]. split; auto.
    cbn [sim]. split; auto. intros k. rewrite view_peek_cons, Hv'.
    destruct ls as [|L ps]; simpl in Hs.
    + destruct rest; [|tauto]. apply Hs.
    + destruct Hs as [Ht _]. apply Ht.
  - (* pop: destroy the top cache *)
    destruct vs as [|v [|p [|q rest]]]; try discriminate. inversion Hstep; subst vs' so; clear Hstep.
    destruct (sim_cons_inv _ _ _ _ Hs) as (L & ps & -> & Ht & Hr); [discriminate|].
    destruct (sim_cons_inv _ _ _ _ Hr) as (P & gs & -> & _ & _); [discriminate|].
    cbn [step]. exists (P :: gs), db, ObUnit. destruct Hwf as [_ Hps]. auto.
Qed.

(* ------------------------------------------------------------------------------------------- *)
(* F. whole scripts                                                                             *)

Theorem refinement_run : forall ops ls db vs vf t,
  wf ls db -> sim ls db vs -> spec_run vs ops = Some (vf, t) ->
  exists lsf dbf tr, run ls db ops = (tr, Ok (lsf, dbf)) /\
    Forall2 (fun s o => obs_match s o = true) t tr /\ wf lsf dbf /\ sim lsf dbf vf.
Proof.
  induction ops as [|o r IH]; intros ls db vs vf t Hwf Hs Hr; simpl in Hr.
  - inversion Hr; subst vf t. exists ls, db, []. simpl. auto.
  - destruct (spec_step vs o) as [vs1 so| |] eqn:E1; try discriminate.
    destruct (spec_run vs1 r) as [[vf1 t1]|] eqn:E2; [|discriminate]. inversion Hr; subst vf t; clear Hr.
    destruct (refinement_step ls db vs o vs1 so Hwf Hs E1) as (ls1 & db1 & ob & Es & W1 & S1 & M1).
    destruct (IH ls1 db1 vs1 vf1 t1 W1 S1 E2) as (lsf & dbf & tr & Er & F & Wf & Sf).
    exists lsf, dbf, (ob :: tr). simpl. rewrite Es, Er. auto.
Qed.

Lemma view_peek_init kinds db k : view_peek (init_layers kinds) db k = m_get k db.
Proof. induction kinds as [|b r IH]; simpl; auto. Qed.

Lemma init_wf kinds db : nodup db -> wf (init_layers kinds) db.
Proof.
  intros Hdb. induction kinds as [|b r IH]; simpl; auto. split; auto.
  apply empty_layer_ok.
Qed.

Lemma init_sim kinds db : sim (init_layers kinds) db (init_spec (length kinds) db).
Proof.
  induction kinds as [|b r IH]; simpl; auto. split; auto.
  intros k. symmetry. apply (view_peek_init r db k).
Qed.

Theorem refinement_from_init kinds db ops vf t :
  nodup db -> spec_run (init_spec (length kinds) db) ops = Some (vf, t) ->
  exists lsf dbf tr, run (init_layers kinds) db ops = (tr, Ok (lsf, dbf)) /\
    Forall2 (fun s o => obs_match s o = true) t tr /\ wf lsf dbf /\ sim lsf dbf vf.
Proof. intros Hdb Hr. eapply refinement_run; eauto using init_wf, init_sim. Qed.

(* no logic_error (and no bad layer index) on a call the specification allows *)
Corollary no_throw ls db vs o vs' so e :
  wf ls db -> sim ls db vs -> spec_step vs o = SOk vs' so -> step ls db o <> Throw e.
Proof.
  intros Hwf Hs Hst. destruct (refinement_step _ _ _ _ _ _ Hwf Hs Hst) as (? & ? & ? & E & _).
  rewrite E. discriminate.
Qed.

(* what Flush/Sync of cache d does to the flat maps: map d+1 := map d, every other map unchanged *)
Lemma spec_flush_nth : forall d vs vs',
  spec_flush d vs = Some vs' ->
  nth_error vs' (S d) = nth_error vs d /\ (forall i, i <> S d -> nth_error vs' i = nth_error vs i) /\
  length vs' = length vs.
Proof.
  induction d as [|d IH]; intros vs vs' H; destruct vs as [|v [|p rest]]; simpl in H; try discriminate.
  - inversion H; subst vs'. split; [reflexivity|]. split; [|reflexivity].
    intros [|[|i]] Hi; try reflexivity. congruence.
  - destruct (spec_flush d (p :: rest)) as [r'|] eqn:E; [|discriminate]. inversion H; subst vs'.
    destruct (IH _ _ E) as (A & B & C). split; [exact A|]. split.
    + intros [|i] Hi; [reflexivity|]. simpl. apply B. congruence.
    + simpl. rewrite C. reflexivity.
Qed.

(* ------------------------------------------------------------------------------------------- *)
(* G. what the invariant says: flag meanings and exact accounting (SanityCheck)                 *)

Lemma wf_entry_meaning : forall above ls db L below,
  wf ls db -> ls = above ++ L :: below ->
  forall k e, m_get k (l_map L) = Some e ->
    (e_fresh e = true -> view_peek below db k = None) /\
    (e_dirty e = false -> e_coin e = view_peek below db k) /\
    (e_coin e = None -> e_dirty e = true /\ e_fresh e = false) /\
    (e_fresh e = true -> e_dirty e = true).
Proof.
  induction above as [|A r IH]; intros ls db L below Hwf -> k e G; simpl in Hwf.
  - destruct Hwf as [(_ & He & _) _]. pose proof (He _ _ G) as Hok. eok.
  - destruct Hwf as [_ Hps]. eapply IH; eauto.
Qed.

Lemma flagged_length m :
  (forall k e, In (k, e) m -> entry_flagged e = e_dirty e) ->
  Z.of_nat (length (flagged m)) = m_sum entry_dirtyz m.
Proof.
  induction m as [|[k e] r IH]; intros H; [reflexivity|].
  assert (He : entry_flagged e = e_dirty e) by (eapply H; left; eauto).
  assert (Hr : Z.of_nat (length (flagged r)) = m_sum entry_dirtyz r) by (apply IH; intros; eapply H; right; eauto).
  cbn [flagged filter snd m_sum]. rewrite He. unfold entry_dirtyz at 1, b2z.
  destruct (e_dirty e); cbn [length]; fold (flagged r); lia.
Qed.

Definition layer_exact (L : layer) : Prop :=
  l_dirty L = m_sum entry_dirtyz (l_map L) /\
  l_usage L = m_sum entry_usage (l_map L) /\
  Z.of_nat (length (flagged (l_map L))) = l_dirty L /\
  NoDup (map fst (l_map L)) /\
  (forall k e, In (k, e) (l_map L) -> entry_sane e = true) /\
  holds_acct (Z.of_nat (length (l_map L)), l_dirty L, l_usage L) (layer_recount L) = true.

Lemma entry_ok_sane pv e : entry_ok pv e -> entry_sane e = true /\ entry_flagged e = e_dirty e.
Proof.
  intros Hok. unfold entry_sane, entry_flagged, is_unspent.
  destruct (e_coin e) eqn:Ec, (e_dirty e) eqn:Ed, (e_fresh e) eqn:Ef; simpl; split; auto; eok.
Qed.

Lemma entry_ok_check pv e : entry_ok pv e -> entry_check pv e = true.
Proof.
  intros Hok. destruct (entry_ok_sane _ _ Hok) as [Hs _]. unfold entry_check. rewrite Hs.
  destruct (e_fresh e) eqn:Ef, (e_dirty e) eqn:Ed; cbn [negb orb andb].
  - assert (pv = None) by eok. subst. reflexivity.
  - assert (pv = None) by eok. exfalso. eok.
  - reflexivity.
  - assert (e_coin e = pv) by eok. subst. apply ocoin_eqb_refl.
Qed.

(* every entry of every cache of a consistent stack passes the executable flag-meaning check *)
Lemma wf_entry_check : forall above ls db L below,
  wf ls db -> ls = above ++ L :: below ->
  forall k e, m_get k (l_map L) = Some e -> entry_check (view_peek below db k) e = true.
Proof.
  induction above as [|A r IH]; intros ls db L below Hwf -> k e G; simpl in Hwf.
  - destruct Hwf as [(_ & He & _) _]. apply entry_ok_check. auto.
  - destruct Hwf as [_ Hps]. eapply IH; eauto.
Qed.

Lemma wf_exact ls db : wf ls db -> Forall layer_exact ls.
Proof.
  induction ls as [|L ps IH]; intros Hwf; constructor.
  - destruct Hwf as [(Hn & He & Hd & Hu) _].
    assert (Hall : forall k e, In (k, e) (l_map L) -> entry_ok (view_peek ps db k) e).
    { intros k e Hin. apply He. apply m_get_in; auto. }
    unfold layer_exact. split; auto. split; auto. split; [|split; [exact Hn|split]].
    + rewrite Hd. apply flagged_length. intros k e Hin. eapply entry_ok_sane; eauto.
    + intros k e Hin. eapply entry_ok_sane; eauto.
    + unfold holds_acct, layer_recount. rewrite <- Hd, <- Hu, !Z.eqb_refl. reflexivity.
  - apply IH. apply Hwf.
Qed.

(* ------------------------------------------------------------------------------------------- *)
(* H. the executable predicate accepts the model's own answers                                  *)

Lemma olist_eqb_map (f g : outpoint -> option coin) U :
  (forall k, f k = g k) -> olist_eqb (map f U) (map g U) = true.
Proof.
  intros H. induction U as [|k r IH]; simpl; auto. rewrite H, ocoin_eqb_refl. auto.
Qed.

Lemma views_eqb_sim U : forall ls db vs,
  sim ls db vs -> views_eqb (spec_views U vs) (stack_views U ls db) = true.
Proof.
  induction ls as [|L ps IH]; intros db vs Hs.
  - destruct (sim_nil_inv _ _ Hs) as (v & -> & Hv). simpl.
    rewrite (olist_eqb_map (fun k => m_get k v) (fun k => m_get k db)) by auto. reflexivity.
  - destruct vs as [|v vs']; [simpl in Hs; tauto|]. destruct Hs as [Ht Hr].
    cbn [spec_views map stack_views views_eqb].
    rewrite (olist_eqb_map (fun k => m_get k v) (fun k => view_peek (L :: ps) db k)) by auto.
    simpl. apply IH. auto.
Qed.

Theorem holds_step_model U ls db vs o vs' so :
  wf ls db -> sim ls db vs -> spec_step vs o = SOk vs' so ->
  exists ls' db' ob, step ls db o = Ok (ls', db', ob) /\
    holds_step U vs o ob (stack_views U ls' db') = VOk vs'.
Proof.
  intros Hwf Hs Hst. destruct (refinement_step _ _ _ _ _ _ Hwf Hs Hst) as (ls' & db' & ob & E & W & S' & M).
  exists ls', db', ob. split; auto. unfold holds_step. rewrite Hst, M, (views_eqb_sim U _ _ _ S'). reflexivity.
Qed.

(* the two memory formulas reproduce what the compiled tree reports (tie/params/coins.h) *)
Lemma usage_formula_matches_tree :
  malloc_usage (exact_cap COINS_SCRIPT_DIRECT_CAPACITY) = COINS_USAGE_AT_DIRECT /\
  malloc_usage (exact_cap (COINS_SCRIPT_DIRECT_CAPACITY + 1)) = COINS_USAGE_AT_DIRECT_PLUS_1 /\
  malloc_usage (exact_cap 49) = COINS_USAGE_AT_49 /\
  malloc_usage (exact_cap 50) = COINS_USAGE_AT_50 /\
  malloc_usage (exact_cap 100) = COINS_USAGE_AT_100 /\
  malloc_usage 1 = COINS_MALLOC_USAGE_1 /\ malloc_usage 17 = COINS_MALLOC_USAGE_17 /\
  malloc_usage 1000 = COINS_MALLOC_USAGE_1000.
Proof. vm_compute. repeat split; reflexivity. Qed.

(* ------------------------------------------------------------------------------------------- *)
(* I. corollaries in the form the property is stated                                            *)

(* every read through any cache returns exactly what that view's flat map holds *)
Lemma reads_return_flat_map ls db vs d k v :
  wf ls db -> sim ls db vs -> spec_view d vs = Some v ->
  (exists ls', step ls db (OpGet d k) = Ok (ls', db, ObCoin (m_get k v)) /\ wf ls' db /\ sim ls' db vs) /\
  (exists ls', step ls db (OpHave d k) = Ok (ls', db, ObBool (is_some (m_get k v))) /\ wf ls' db /\ sim ls' db vs) /\
  (exists ls', step ls db (OpAccess d k) = Ok (ls', db, ObCoin (m_get k v)) /\ wf ls' db /\ sim ls' db vs) /\
  step ls db (OpPeek d k) = Ok (ls, db, ObCoin (m_get k v)).
Proof.
  intros Hwf Hs Hv. destruct (spec_view_sim db d ls vs v Hs Hv) as (sub & E & N & G).
  split; [|split; [|split]].
  - destruct (at_depth_view_pres _ _ (top_get_pres k) d ls db sub Hwf E N) as (ls' & a & Ea & W & V & ->).
    exists ls'. rewrite G. split; auto. split; auto. eapply sim_views_eq; eauto.
  - destruct (at_depth_view_pres _ _ (top_have_pres k) d ls db sub Hwf E N) as (ls' & a & Ea & W & V & ->).
    exists ls'. rewrite G. split; auto. split; auto. eapply sim_views_eq; eauto.
  - destruct (at_depth_view_pres _ _ (top_access_pres k) d ls db sub Hwf E N) as (ls' & a & Ea & W & V & ->).
    exists ls'. rewrite G. split; auto. split; auto. eapply sim_views_eq; eauto.
  - rewrite G. clear G Hv Hs Hwf. revert ls sub E N. induction d as [|d IH]; intros ls sub E N.
    + destruct ls as [|L ps]; simpl in E; [discriminate|]. inversion E; subst sub. reflexivity.
    + destruct ls as [|L ps]; simpl in E; [discriminate|].
      specialize (IH ps sub E N). cbn [step at_depth] in *. rewrite IH. reflexivity.
Qed.

(* Flush (erase = true) / Sync (erase = false) of cache d: the parent view becomes the child's
   view, every other view is unchanged, invariant kept, no throw *)
Lemma flush_sync_parent_becomes_child ls db vs d vs' (erase : bool) :
  wf ls db -> sim ls db vs -> spec_flush d vs = Some vs' ->
  exists ls' db', step ls db (if erase then OpFlush d else OpSync d) = Ok (ls', db', ObUnit) /\
    wf ls' db' /\ sim ls' db' vs' /\
    nth_error vs' (S d) = nth_error vs d /\ (forall i, i <> S d -> nth_error vs' i = nth_error vs i).
Proof.
  intros Hwf Hs Hf. destruct (flush_sim erase d ls db vs vs' Hwf Hs Hf) as (ls' & db' & E & W & S' & _).
  destruct (spec_flush_nth _ _ _ Hf) as (A & B & _).
  exists ls', db'. split; [destruct erase; exact E|]. auto.
Qed.

Lemma accounting_reachable kinds db ops vf t :
  nodup db -> spec_run (init_spec (length kinds) db) ops = Some (vf, t) ->
  exists lsf dbf tr, run (init_layers kinds) db ops = (tr, Ok (lsf, dbf)) /\ Forall layer_exact lsf.
Proof.
  intros Hdb Hr. destruct (refinement_from_init kinds db ops vf t Hdb Hr) as (lsf & dbf & tr & E & _ & W & _).
  exists lsf, dbf, tr. split; auto. eapply wf_exact; eauto.
Qed.
