(* ProcessNextHeaders and whole peer histories; C33. *)
From BV Require Import lib.Ints lib.ChainParams gen.Params_gen model.Pow model.HeadersSync proofs.HeadersSyncLemmas.
Local Open Scope Z_scope.

Ltac feed H := repeat match type of H with (0 <= _) -> _ => specialize (H ltac:(assumption)) end.

Section Main.
  Variable permitted : Z -> Z -> Z -> bool.
  Variable proof_of : Z -> Z.
  Variable p : hs_params.
  Hypothesis max_nonneg : 0 <= p_max_commitments p.
  Hypothesis buffer_nonneg : 0 <= p_buffer p.

  Notation validate := (validate_and_store_commitments permitted proof_of p).
  Notation store_all := (store_all_redownloaded permitted proof_of p).
  Notation pnh := (process_next_headers permitted proof_of p).
  Notation inv := (inv p).

  (* between calls a REDOWNLOAD state is never in release-everything mode *)
  Definition inv2 (s : hss) : Prop := inv s /\ (s_state s = REDOWNLOAD -> s_all s = false).

  Lemma inv2_init : inv2 (hs_init p).
  Proof. split; [pose proof (inv_init p) as X; feed X; exact X | discriminate]. Qed.
  Lemma inv2_finalize s : inv2 (finalize s).
  Proof. split; [pose proof (inv_finalize p) as X; feed X; apply X | discriminate]. Qed.

  (* where the next released header must attach *)
  Definition anchor (s : hss) : Z := match s_state s with REDOWNLOAD => s_rfirst_prev s | _ => p_start_hash p end.

  (* ---- one call in the first pass ---- *)
  Lemma pnh_presync s hs full s' r : pnh s hs full = (s', r) -> inv2 s -> s_state s = PRESYNC ->
    r_headers r = [] /\ inv2 s' /\ (s_state s' = REDOWNLOAD -> anchor s' = p_start_hash p /\ p_min_work p <= s_work s').
  Proof.
    unfold process_next_headers. intros H [Hi Ha] Hst. destruct hs as [|h0 hs0].
    { injection H as <- <-. split; [reflexivity|]. split; [split; assumption|]. intros E. congruence. }
    rewrite Hst in H.
    destruct (validate s (h0 :: hs0)) as [ok s1] eqn:Ev.
    pose proof (validate_spec permitted proof_of p) as V. feed V.
    destruct (V s (h0 :: hs0) ok s1 Ev Hi Hst) as [Hok Hs1].
    destruct (ok && (ok && (full || is_redownload s1))) eqn:Em; injection H as <- <-; cbn [r_headers].
    - apply andb_true_iff in Em. destruct Em as [Eok _]. subst ok. specialize (Hok eq_refl).
      split; [reflexivity|]. split.
      + split; [exact Hok|]. intros E. destruct Hs1 as [Hs1|(_ & _ & _)]; [congruence|].
        (* the flag is untouched by the first pass *)
        unfold validate_and_store_commitments in Ev. rewrite Hst in Ev.
        destruct (negb (h_prev h0 =? s_last_hash s)); [injection Ev as _ <-; congruence|].
        destruct (HeadersSync.process_all_single permitted proof_of p s (h0 :: hs0)) as [[|] s2] eqn:E2.
        * pose proof (process_all_single_spec permitted proof_of p) as PA. feed PA.
          destruct (PA (h0 :: hs0) s true s2 E2 Hst (proj1 Hi)) as (A & B & C & D).
          destruct Hi as [_ Hi]. rewrite Hst in Hi. destruct Hi as [_ Hall].
          destruct (p_min_work p <=? s_work s2); injection Ev as <-; cbn; congruence.
        * discriminate Ev.
      + intros E. destruct Hs1 as [Hs1|(_ & _ & Hfp)]; [congruence|]. unfold anchor. rewrite E. split; [exact Hfp|].
        destruct Hok as [_ Hok]. rewrite E in Hok. tauto.
    - split; [reflexivity|]. split; [apply inv2_finalize|]. intros E. discriminate.
  Qed.

  (* ---- one call in the second pass ---- *)
  Lemma pnh_redownload s hs full s' r : pnh s hs full = (s', r) -> inv2 s -> s_state s = REDOWNLOAD ->
    inv2 s' /\ p_min_work p <= s_work s /\
    (* what is released is a prefix of buffer ++ received, unchanged, attached at the anchor *)
    (exists k, r_headers r = firstn k (s_buf s ++ hs)) /\
    (exists y, linked (anchor s) (r_headers r) y /\ (s_state s' = REDOWNLOAD -> anchor s' = y)) /\
    (* buried *)
    (r_headers r <> [] -> forall s1, store_all s hs = (true, s1) ->
       s_all s1 = true \/ zlen (s_buf s) + zlen hs - zlen (r_headers r) = p_buffer p) /\
    (s_state s' = REDOWNLOAD -> zlen (s_buf s') <= p_buffer p).
  Proof.
    unfold process_next_headers. intros H [Hi Ha] Hst.
    assert (Hi' := Hi). destruct Hi' as [Hc Hr]. rewrite Hst in Hr. destruct Hr as (Hw & Hl & Hb).
    assert (Hanchor : anchor s = s_rfirst_prev s) by (unfold anchor; now rewrite Hst).
    destruct hs as [|h0 hs0].
    { injection H as <- <-. cbn [r_headers]. split; [split; assumption|]. split; [exact Hw|].
      split; [exists 0%nat; reflexivity|]. split; [exists (anchor s); split; [reflexivity | auto]|].
      split; [intros Hn; contradiction | intros _; exact Hb]. }
    rewrite Hst in H.
    destruct (store_all s (h0 :: hs0)) as [ok s1] eqn:Es.
    destruct ok.
    2:{ injection H as <- <-. cbn [r_headers]. split; [apply inv2_finalize|]. split; [exact Hw|].
        split; [exists 0%nat; reflexivity|]. split; [exists (anchor s); split; [reflexivity | intros E; discriminate]|].
        split; [intros Hn; contradiction | intros E; discriminate]. }
    pose proof (store_all_spec permitted proof_of p) as SA. feed SA.
    destruct (SA (h0 :: hs0) s s1 Es Hst) as (A & B & C & D & E & G).
    specialize (E _ Hl).
    unfold pop_ready in H. rewrite A in H.
    destruct (s_all s1) eqn:Eall.
    - (* everything is released *)
      rewrite D in H. rewrite (pop_all p (s_buf s1) (s_rfirst_prev s) (s_rlast_hash s1) E) in H.
      cbn [s_buf s_all] in H. cbn [negb andb] in H. injection H as <- <-. cbn [r_headers].
      split; [apply inv2_finalize|]. split; [exact Hw|].
      split; [exists (length (s_buf s ++ h0 :: hs0)); rewrite C; symmetry; apply firstn_all|].
      split; [exists (s_rlast_hash s1); split; [rewrite Hanchor; exact E | intros X; discriminate]|].
      split; [intros _ s1' Hs1; injection Hs1 as <-; now left | intros X; discriminate].
    - rewrite D in H.
      pose proof (pop_some permitted proof_of p) as PS. feed PS.
      destruct (PS (s_buf s1) (s_rfirst_prev s) (s_rlast_hash s1) E) as (k & fp' & Ep & L1 & L2 & K0 & K1).
      rewrite Ep in H. cbn [s_buf s_all] in H.
      assert (Hcomplete : match skipn k (s_buf s1) with [] => false | _ :: _ => false end = false) by (destruct (skipn k (s_buf s1)); reflexivity).
      rewrite Hcomplete in H. cbn [negb andb] in H.
      assert (Hrem : zlen (skipn k (s_buf s1)) <= p_buffer p).
      { destruct k as [|k']; [simpl; apply K0; reflexivity | rewrite K1 by discriminate; lia]. }
      assert (Hbur : firstn k (s_buf s1) <> [] -> zlen (s_buf s) + zlen (h0 :: hs0) - zlen (firstn k (s_buf s1)) = p_buffer p).
      { intros Hne. destruct k as [|k']; [simpl in Hne; contradiction|].
        assert (Hlen : length (s_buf s1) = (length (s_buf s) + length (h0 :: hs0))%nat) by (rewrite C; apply app_length).
        assert (Hsum : (length (firstn (Datatypes.S k') (s_buf s1)) + length (skipn (Datatypes.S k') (s_buf s1)) = length (s_buf s1))%nat)
          by (rewrite <- app_length, firstn_skipn; reflexivity).
        assert (K : zlen (skipn (Datatypes.S k') (s_buf s1)) = p_buffer p) by (apply K1; discriminate).
        unfold zlen in *. lia. }
      destruct full; injection H as <- <-; cbn [r_headers].
      + (* the sync goes on *)
        split.
        { split; [|intros _; reflexivity]. unfold HeadersSyncLemmas.inv. cbn. split; [lia|].
          split; [lia|]. split; [exact L2 | exact Hrem]. }
        split; [exact Hw|]. split; [exists k; now rewrite C|].
        split; [exists fp'; split; [rewrite Hanchor; exact L1 | intros _; reflexivity]|].
        split; [intros Hne s1' Hs1; injection Hs1 as <-; right; now apply Hbur | intros _; exact Hrem].
      + split; [apply inv2_finalize|]. split; [exact Hw|]. split; [exists k; now rewrite C|].
        split; [exists fp'; split; [rewrite Hanchor; exact L1 | intros X; discriminate]|].
        split; [intros Hne s1' Hs1; injection Hs1 as <-; right; now apply Hbur | intros X; discriminate].
  Qed.

  Lemma pnh_final s hs full s' r : pnh s hs full = (s', r) -> s_state s = FINAL -> s' = s /\ r_headers r = [].
  Proof.
    unfold process_next_headers. intros H Hst. destruct hs; [injection H as <- <-; auto|].
    rewrite Hst in H. injection H as <- <-. auto.
  Qed.

  (* ---- invariant and per-call facts, any state ---- *)
  Lemma pnh_inv s hs full : inv2 s -> inv2 (fst (pnh s hs full)).
  Proof.
    intros Hi. destruct (pnh s hs full) as [s' r] eqn:E. cbn [fst].
    destruct (s_state s) eqn:Est.
    - now destruct (pnh_presync s hs full s' r E Hi Est) as (_ & H & _).
    - now destruct (pnh_redownload s hs full s' r E Hi Est) as (H & _).
    - destruct (pnh_final s hs full s' r E Est) as [-> _]. exact Hi.
  Qed.

  Lemma pnh_nothing_before_work_proven s hs full : inv2 s ->
    r_headers (snd (pnh s hs full)) <> [] -> s_state s = REDOWNLOAD /\ p_min_work p <= s_work s.
  Proof.
    intros Hi Hne. destruct (pnh s hs full) as [s' r] eqn:E. cbn [snd] in Hne.
    destruct (s_state s) eqn:Est.
    - destruct (pnh_presync s hs full s' r E Hi Est) as (H & _). contradiction.
    - destruct (pnh_redownload s hs full s' r E Hi Est) as (_ & H & _). auto.
    - destruct (pnh_final s hs full s' r E Est) as [_ H]. contradiction.
  Qed.

  Lemma pnh_chain s hs full s' r : pnh s hs full = (s', r) -> inv2 s ->
    exists y, linked (anchor s) (r_headers r) y /\ (s_state s' <> FINAL -> anchor s' = y).
  Proof.
    intros E Hi. destruct (s_state s) eqn:Est.
    - destruct (pnh_presync s hs full s' r E Hi Est) as (H & Hi' & Hr). rewrite H.
      exists (anchor s). split; [reflexivity|]. intros Hnf.
      destruct (s_state s') eqn:Es'; [|destruct (Hr eq_refl) as [Hr' _]; unfold anchor at 2; rewrite Est; exact Hr' | contradiction].
      unfold anchor. now rewrite Est, Es'.
    - destruct (pnh_redownload s hs full s' r E Hi Est) as (_ & _ & _ & (y & Hy & Hy') & _).
      exists y. split; [exact Hy|]. intros Hnf.
      destruct (s_state s') eqn:Es'; [| now apply Hy' | contradiction].
      (* a second-pass call never goes back to PRESYNC *)
      exfalso. unfold process_next_headers in E. destruct hs as [|h0 hs0]; [injection E as <- _; congruence|].
      rewrite Est in E. destruct (store_all s (h0 :: hs0)) as [[|] s1] eqn:Es.
      + pose proof (store_all_spec permitted proof_of p) as SA. feed SA.
        destruct (SA (h0 :: hs0) s s1 Es Est) as (A & _).
        unfold pop_ready in E. rewrite A in E.
        destruct (pop_loop (p_buffer p) (s_all s1) (s_buf s1) (s_rfirst_prev s1)) as [[rel b'] f'].
        match type of E with (if ?c then _ else _, _) = _ => destruct c end; injection E as <- _; cbn in Es'; congruence.
      + injection E as <- _. cbn in Es'. discriminate.
    - destruct (pnh_final s hs full s' r E Est) as [-> H]. rewrite H. exists (anchor s). split; [reflexivity | auto].
  Qed.

  (* ---- whole histories ---- *)
  Notation run := (run permitted proof_of p).

  Lemma run_final_nothing : forall calls s, s_state s = FINAL -> concat (map r_headers (run s calls)) = [].
  Proof.
    induction calls as [|[hs full] calls IH]; intros s Hst; simpl; [reflexivity|].
    destruct (pnh s hs full) as [s' r] eqn:E. destruct (pnh_final s hs full s' r E Hst) as [-> Hr].
    simpl. rewrite Hr. simpl. now apply IH.
  Qed.

  Lemma run_chain : forall calls s, inv2 s -> chain_from (anchor s) (concat (map r_headers (run s calls))).
  Proof.
    induction calls as [|[hs full] calls IH]; intros s Hi; simpl; [exact I|].
    destruct (pnh s hs full) as [s' r] eqn:E. simpl.
    destruct (pnh_chain s hs full s' r E Hi) as (y & Hy & Hy').
    assert (Hi' : inv2 s') by (pose proof (pnh_inv s hs full Hi) as X; now rewrite E in X).
    apply chain_from_app; [eapply linked_chain; exact Hy|].
    intros y' Hl'.
    assert (y' = y) by (clear - Hy Hl'; revert y y' Hy Hl'; generalize (anchor s); induction (r_headers r) as [|a l IHl]; simpl; intros x y y' H1 H2; [congruence | destruct H1, H2; eauto]).
    subst y'. destruct (s_state s') eqn:Es'.
    - rewrite <- Hy' by discriminate. now apply IH.
    - rewrite <- Hy' by discriminate. now apply IH.
    - rewrite (run_final_nothing calls s' Es'). exact I.
  Qed.

  (* the history with the state each call started from *)
  Fixpoint trace (s : hss) (calls : list (list hdr * bool)) : list (hss * result) :=
    match calls with
    | [] => []
    | (hs, full) :: rest => let '(s', r) := pnh s hs full in (s, r) :: trace s' rest
    end.

  Lemma trace_results : forall calls s, map snd (trace s calls) = run s calls.
  Proof.
    induction calls as [|[hs full] calls IH]; intros s; simpl; [reflexivity|].
    destruct (pnh s hs full) as [s' r]. simpl. now rewrite IH.
  Qed.

  Lemma trace_work_proven : forall calls s, inv2 s ->
    Forall (fun sr => r_headers (snd sr) <> [] -> s_state (fst sr) = REDOWNLOAD /\ p_min_work p <= s_work (fst sr)) (trace s calls).
  Proof.
    induction calls as [|[hs full] calls IH]; intros s Hi; simpl; [constructor|].
    pose proof (pnh_nothing_before_work_proven s hs full Hi) as H. pose proof (pnh_inv s hs full Hi) as Hi'.
    destruct (pnh s hs full) as [s' r]. constructor; [exact H | now apply IH].
  Qed.

  Lemma inv2_memory s : inv2 s -> zlen (s_commitments s) <= p_max_commitments p /\ zlen (s_buf s) <= p_buffer p.
  Proof.
    intros [[Hc Hs] _]. split; [exact Hc|]. destruct (s_state s).
    - destruct Hs as [-> _]. unfold zlen. simpl. lia.
    - tauto.
    - destruct Hs as [-> _]. unfold zlen. simpl. lia.
  Qed.

  Lemma trace_memory : forall calls s, inv2 s ->
    Forall (fun sr => zlen (s_commitments (fst sr)) <= p_max_commitments p /\ zlen (s_buf (fst sr)) <= p_buffer p) (trace s calls) /\
    (let s' := run_state permitted proof_of p s calls in
     zlen (s_commitments s') <= p_max_commitments p /\ zlen (s_buf s') <= p_buffer p).
  Proof.
    induction calls as [|[hs full] calls IH]; intros s Hi; simpl.
    - split; [constructor | now apply inv2_memory].
    - pose proof (pnh_inv s hs full Hi) as Hi'. destruct (pnh s hs full) as [s' r] eqn:E. cbn [fst] in *.
      destruct (IH s' Hi') as [I1 I2]. split; [constructor; [now apply inv2_memory | exact I1] | exact I2].
  Qed.

End Main.

(* ---------------------------------------------------------------------------------------------- *)
(* the statements of props/Properties_C33.v *)

Lemma hs_invariant permitted proof_of p : 0 <= p_max_commitments p -> 0 <= p_buffer p ->
  inv2 p (hs_init p) /\
  forall s hs full, inv2 p s -> inv2 p (fst (process_next_headers permitted proof_of p s hs full)).
Proof. intros Hm Hb. split; [eapply inv2_init; eauto | intros; eapply pnh_inv; eauto]. Qed.

Lemma hs_nothing_before_work permitted proof_of p : 0 <= p_max_commitments p -> 0 <= p_buffer p ->
  forall calls,
    Forall (fun sr => r_headers (snd sr) <> [] -> s_state (fst sr) = REDOWNLOAD /\ p_min_work p <= s_work (fst sr))
           (trace permitted proof_of p (hs_init p) calls).
Proof. intros Hm Hb calls. eapply trace_work_proven; eauto. eapply inv2_init; eauto. Qed.

Lemma hs_memory permitted proof_of p : 0 <= p_max_commitments p -> 0 <= p_buffer p ->
  forall calls,
    Forall (fun sr => Z.of_nat (length (s_commitments (fst sr))) <= p_max_commitments p /\
                      Z.of_nat (length (s_buf (fst sr))) <= p_buffer p)
           (trace permitted proof_of p (hs_init p) calls) /\
    (let s' := run_state permitted proof_of p (hs_init p) calls in
     Z.of_nat (length (s_commitments s')) <= p_max_commitments p /\ Z.of_nat (length (s_buf s')) <= p_buffer p).
Proof. intros Hm Hb calls. eapply trace_memory; eauto. eapply inv2_init; eauto. Qed.

Lemma hs_one_chain permitted proof_of p : 0 <= p_max_commitments p -> 0 <= p_buffer p ->
  forall calls, chain_from (p_start_hash p) (concat (map r_headers (run permitted proof_of p (hs_init p) calls))).
Proof.
  intros Hm Hb calls.
  assert (Hi : inv2 p (hs_init p)) by (eapply inv2_init; eauto).
  change (p_start_hash p) with (anchor p (hs_init p)). eapply run_chain; eauto.
Qed.

Lemma hs_released_buried permitted proof_of p : 0 <= p_max_commitments p -> 0 <= p_buffer p ->
  forall s hs full s' r,
    inv2 p s -> s_state s = REDOWNLOAD -> process_next_headers permitted proof_of p s hs full = (s', r) ->
    (exists k, r_headers r = firstn k (s_buf s ++ hs)) /\
    (r_headers r <> [] -> forall s1, store_all_redownloaded permitted proof_of p s hs = (true, s1) ->
       s_all s1 = true \/
       Z.of_nat (length (s_buf s)) + Z.of_nat (length hs) - Z.of_nat (length (r_headers r)) = p_buffer p).
Proof.
  intros Hm Hb s hs full s' r Hi Hst E.
  pose proof (pnh_redownload permitted proof_of p) as X. feed X.
  destruct (X s hs full s' r E Hi Hst) as (_ & _ & H1 & _ & H2 & _). split; assumption.
Qed.

Lemma hs_second_pass_checks permitted proof_of p s h s' :
  store_redownloaded permitted proof_of p s h = (true, s') -> s_state s = REDOWNLOAD ->
  h_prev h = s_rlast_hash s /\
  permitted (wrap64 (s_rlast_height s + 1)) (previous_bits p s) (h_bits h) = true /\
  (s_all s' = false -> is_commitment_height p (wrap64 (s_rlast_height s + 1)) = true ->
     s_commitments s = h_cbit h :: s_commitments s').
Proof.
  intros E Hst. destruct (store_spec permitted proof_of p s h s' E Hst) as (_ & _ & _ & A & _ & _ & B & _ & C & _).
  split; [exact A|]. split; assumption.
Qed.
