(* C63 -- shape of the notification stream: the block notifications of a step are its disconnections (tip downwards)
   followed by its connections in order; UpdatedBlockTip closes a pass; the refuted clause. *)
From BV Require Import lib.Ints model.Notify proofs.NotifyPool proofs.NotifySteps proofs.NotifyConnect proofs.NotifyMain proofs.NotifyExtra.
Local Open Scope Z_scope.

Inductive bev := BD (b : block) | BC (b : block) | BT (nw f : block).
Definition bproj (e : event) : list bev :=
  match e with EvDisc b _ _ => [BD b] | EvConn b _ _ => [BC b] | EvTip n f => [BT n f] | _ => [] end.
Definition block_events (l : list event) : list bev := flat_map bproj l.

Lemma block_events_app a b : block_events (a ++ b) = block_events a ++ block_events b.
Proof. apply flat_map_app. Qed.

Lemma flat_map_nil {A B} (f : A -> list B) l : Forall (fun e => f e = []) l -> flat_map f l = [].
Proof. induction 1; simpl; [reflexivity|]. rewrite H, IHForall. reflexivity. Qed.

Definition quiet (e : event) : Prop := bproj e = [].

Lemma rems_quiet l p p' ev : apply_rems p l = Some (p', ev) -> block_events ev = [].
Proof. intros H. apply flat_map_nil. eapply (F_rems quiet); eauto. intros; reflexivity. Qed.

Lemma mpops_quiet T chain l p p' ev : exec_mpops T chain p l = Some (p', ev) -> block_events ev = [].
Proof. intros H. apply flat_map_nil. eapply (F_mpops T quiet); eauto; intros; reflexivity. Qed.

Lemma conns_quiet T l s s1 e1 : connect_tips T s l = Some (s1, e1) -> block_events e1 = [].
Proof. intros H. apply flat_map_nil. eapply (F_conns T quiet); eauto; intros; reflexivity. Qed.

Lemma connect_tips_chain T : forall l s s1 e1, connect_tips T s l = Some (s1, e1) -> ns_chain s1 = rev (map c_blk l) ++ ns_chain s.
Proof.
  induction l as [|c l IH]; intros s s1 e1 H; simpl in H.
  - inversion H; subst. reflexivity.
  - destruct (connect_tip T s c) as [[s2 e2]|] eqn:E1; [|discriminate].
    destruct (connect_tips T s2 l) as [[s3 e3]|] eqn:E2; [|discriminate].
    inversion H; subst. rewrite (IH _ _ _ E2). simpl. rewrite <- app_assoc. simpl. f_equal.
    unfold connect_tip in E1. destruct (T (c_blk c)); [|discriminate]. destruct (ns_chain s) as [|tp rest] eqn:Ec; [discriminate|].
    destruct (negb (bi_prev b =? tp)); [discriminate|]. destruct (memb (c_blk c) (tp :: rest)); [discriminate|].
    destruct (negb (forallb (conn_rem_ok (bi_txs b)) (c_rem c))); [discriminate|].
    destruct (apply_rems (ns_pool s) (c_rem c)) as [[p' ev]|]; [|discriminate].
    destruct (existsb (fun t => memb t p') (bi_txs b)); [discriminate|]. inversion E1; subst. reflexivity.
Qed.

Lemma disconnect_tips_events T : forall l s s1 e1,
  disconnect_tips T s l = Some (s1, e1) ->
  block_events e1 = map BD (firstn (length l) (ns_chain s)) /\ ns_chain s1 = skipn (length l) (ns_chain s).
Proof.
  induction l as [|[ev rc] l IH]; intros s s1 e1 H; simpl in H.
  - inversion H; subst. split; reflexivity.
  - destruct (disconnect_tip T s ev rc) as [[s2 e2]|] eqn:E1; [|discriminate].
    destruct (disconnect_tips T s2 l) as [[s3 e3]|] eqn:E2; [|discriminate].
    inversion H; subst. destruct (IH _ _ _ E2) as [H1 H2].
    unfold disconnect_tip in E1. destruct (ns_chain s) as [|b [|p rest]] eqn:Ec; try discriminate.
    destruct (T b) as [bi|]; [|discriminate].
    destruct (apply_rems (ns_pool s) (map (fun t => (t, RReorg)) ev)) as [[p' e]|] eqn:Er; [|discriminate].
    inversion E1; subst. simpl in H1, H2. rewrite !block_events_app, (rems_quiet _ _ _ _ Er), H1. simpl. split; [reflexivity | exact H2].
Qed.

Lemma conn_events_block T l : block_events (map (conn_event T) l) = map BC (map c_blk l).
Proof. induction l as [|c l IH]; simpl; [reflexivity|]. unfold conn_event at 1. destruct (T (c_blk c)); simpl; rewrite IH; reflexivity. Qed.

(* A step's block notifications are exactly: BlockDisconnected for the k blocks it took off the chain, tip first, then
   BlockConnected for the blocks it put on, in connection order; and nothing else moves the chain. *)
Theorem step_block_events T s st s' ev :
  exec_step T s st = Some (s', ev) ->
  block_events ev = map BD (firstn (length (st_disc st)) (ns_chain s)) ++ map BC (map c_blk (st_conn st))
  /\ ns_chain s' = rev (map c_blk (st_conn st)) ++ skipn (length (st_disc st)) (ns_chain s).
Proof.
  unfold exec_step. intros H.
  assert (H' : match disconnect_tips T s (st_disc st) with
               | None => None
               | Some (s1, e1) =>
                   match connect_tips T s1 (st_conn st) with
                   | None => None
                   | Some (s2, e2) =>
                       match exec_mpops T (ns_chain s2) (ns_pool s2) (st_fix st) with
                       | None => None
                       | Some (p3, e3) => Some ({| ns_chain := ns_chain s2; ns_pool := p3; ns_ibd := ns_ibd s2 |}, e1 ++ e2 ++ e3 ++ map (conn_event T) (st_conn st))
                       end
                   end
               end = Some (s', ev)).
  { destruct (st_disc st); [destruct (st_fix st); [exact H | discriminate] | exact H]. }
  clear H.
  destruct (disconnect_tips T s (st_disc st)) as [[s1 e1]|] eqn:E1; [|discriminate].
  destruct (connect_tips T s1 (st_conn st)) as [[s2 e2]|] eqn:E2; [|discriminate].
  destruct (exec_mpops T (ns_chain s2) (ns_pool s2) (st_fix st)) as [[p3 e3]|] eqn:E3; [|discriminate].
  inversion H'; subst. clear H'. destruct (disconnect_tips_events T _ _ _ _ E1) as [Hd Hc].
  rewrite !block_events_app, Hd, (conns_quiet _ _ _ _ _ E2), (mpops_quiet _ _ _ _ _ _ E3), conn_events_block. simpl.
  split; [reflexivity|]. rewrite (connect_tips_chain T _ _ _ _ E2), Hc. reflexivity.
Qed.

Lemma steps_no_tip T : forall l s s' ev, exec_steps T s l = Some (s', ev) -> Forall (fun e => forall nw f, e <> EvTip nw f) ev.
Proof.
  intros l s s' ev H.
  assert (HF : Forall (fun e => match e with EvTip _ _ => False | _ => True end) ev).
  { eapply (F_steps T (fun e => match e with EvTip _ _ => False | _ => True end)); eauto; intros; exact I. }
  eapply Forall_impl; [|exact HF]. intros e He nw f E. subst e. exact He.
Qed.

(* UpdatedBlockTip: at most one per pass, after every other notification of the pass; it names the node's tip at that
   moment and the fork block of that chain with the chain the pass started from; it is sent iff the two differ. *)
Theorem pass_updated_block_tip T s steps s' ev :
  exec_iter T s steps = Some (s', ev) -> steps <> [] ->
  exists body nw f,
    exec_steps T s steps = Some (s', body) /\
    Forall (fun e => forall n g, e <> EvTip n g) body /\
    hd_error (ns_chain s') = Some nw /\ find_fork (ns_chain s') (ns_chain s) = Some f /\
    ev = body ++ (if f =? nw then [] else [EvTip nw f]).
Proof.
  intros H Hne. unfold exec_iter in H. destruct steps as [|st steps']; [contradiction|].
  destruct (exec_steps T s (st :: steps')) as [[s1 e1]|] eqn:E1; [|discriminate].
  destruct (ns_chain s1) as [|nw rest] eqn:Ec; [discriminate|].
  destruct (find_fork (nw :: rest) (ns_chain s)) as [f|] eqn:Ef; [|discriminate].
  inversion H; subst s' ev. exists e1, nw, f. rewrite Ec. repeat split; auto. eapply steps_no_tip; eauto.
Qed.

(* ---- the clause that is false of the code ---- *)

Definition wit_tree : tree := fun b => if b =? 1 then Some {| bi_prev := 0; bi_txs := [] |} else None.
Definition wit_state : nstate := {| ns_chain := [1; 0]; ns_pool := []; ns_ibd := false |}.
(* p = 5 is accepted; much later its child t = 7 is accepted and the LimitMempoolSize of that very acceptance expires
   p and with it t (tie/drivers/notify_drv.cpp replays this on the node: A:p ... R:t:expiry R:p:expiry) *)
Definition wit_ops : list op := [OMempool (PAtmp 5 [] []); OMempool (PAtmp 7 [] [(7, RExpiry); (5, RExpiry)])].

Lemma wit_inv : ninv wit_tree wit_state.
Proof.
  constructor; simpl.
  - split; [|exact I]. exists {| bi_prev := 0; bi_txs := [] |}. split; reflexivity.
  - constructor; [intros [H|[]]; discriminate | constructor; [intros [] | constructor]].
  - intros t [].
Qed.

Theorem added_before_removed_refuted :
  exists T s ops s' evs t r,
    ninv T s /\ exec_ops T s ops = Some (s', evs) /\
    In (EvRem t r) evs /\ ~ In (EvAdd t) evs /\ ~ In t (ns_pool s) /\
    sub_run false (sub_of T s) evs = None /\ ns_pool s' = [].
Proof.
  exists wit_tree, wit_state, wit_ops, {| ns_chain := [1; 0]; ns_pool := []; ns_ibd := false |},
         [EvAdd 5; EvRem 7 RExpiry; EvRem 5 RExpiry], 7, RExpiry.
  split; [exact wit_inv|]. split; [vm_compute; reflexivity|]. split; [right; left; reflexivity|].
  split; [intros [H|[H|[H|[]]]]; discriminate|]. split; [intros []|]. split; vm_compute; reflexivity.
Qed.

(* non-vacuity of the main theorems: a script with a two-deep reorg that backs out, a confirmation, a conflict, a
   replacement and a re-acceptance runs in the model *)
Definition ex_tree : tree := fun b =>
  if b =? 1 then Some {| bi_prev := 0; bi_txs := [] |} else
  if b =? 2 then Some {| bi_prev := 1; bi_txs := [50] |} else
  if b =? 3 then Some {| bi_prev := 2; bi_txs := [] |} else
  if b =? 12 then Some {| bi_prev := 1; bi_txs := [51] |} else
  if b =? 13 then Some {| bi_prev := 12; bi_txs := [] |} else None.
Definition ex_state : nstate := {| ns_chain := [1; 0]; ns_pool := []; ns_ibd := false |}.
Definition ex_ops : list op :=
  [ OMempool (PAtmp 50 [] []); OMempool (PAtmp 60 [] []); OMempool (PAtmp 61 [60] []);
    OActivate [[ {| st_disc := []; st_conn := [{| c_blk := 2; c_rem := [(50, RBlock)]; c_recent := false |}]; st_fix := [] |} ];
               [ {| st_disc := []; st_conn := [{| c_blk := 3; c_rem := []; c_recent := false |}]; st_fix := [] |} ]];
    OActivate [[ {| st_disc := [([], false); ([], false)];
                    st_conn := [{| c_blk := 12; c_rem := [(61, RConflict)]; c_recent := false |}; {| c_blk := 13; c_rem := []; c_recent := false |}];
                    st_fix := [PAtmp 50 [] []] |};
                 {| st_disc := [([], false); ([], false)];
                    st_conn := [{| c_blk := 2; c_rem := [(50, RBlock)]; c_recent := false |}; {| c_blk := 3; c_rem := []; c_recent := false |}];
                    st_fix := [] |} ]];
    OInvalidate [([], false, [])] ].

Lemma ex_inv : ninv ex_tree ex_state.
Proof.
  constructor; simpl.
  - split; [|exact I]. exists {| bi_prev := 0; bi_txs := [] |}. split; reflexivity.
  - constructor; [intros [H|[]]; discriminate | constructor; [intros [] | constructor]].
  - intros t [].
Qed.

Lemma ex_runs : exists s' evs, exec_ops ex_tree ex_state ex_ops = Some (s', evs) /\ ns_chain s' = [2; 1; 0] /\ length evs = 25%nat /\ Forall nse_op ex_ops.
Proof.
  eexists. eexists. split; [vm_compute; reflexivity|]. split; [reflexivity|]. split; [reflexivity|].
  repeat constructor; simpl; auto; intros [].
Qed.
