(* C25: what a passing structural comparison means: every structural answer of the implementation
   is a duplicate-free list with exactly the members the model computes, and (on runs whose removals
   are closed) exactly the members the eager naive graph gives. *)
From Coq Require Import List ZArith Bool Arith Lia Relations Permutation.
From BV Require Import lib.Ints model.Fee model.Lin model.TxGraph proofs.LinLemmas
  proofs.TxGraphRel proofs.TxGraphCluster proofs.TxGraphInv proofs.TxGraphSpec proofs.TxGraphValid.
Import ListNotations.

Definition same_set (answer expected : list nat) : Prop := NoDup answer /\ forall x, In x answer <-> In x expected.

Lemma per_id_ok_spec idl answers expected : per_id_ok idl answers expected = true ->
  forall i, In i idl -> exists l, assoc i answers = Some l /\ same_set l (expected i).
Proof.
  unfold per_id_ok. rewrite andb_true_iff, forallb_forall. intros [_ H] i Hi. specialize (H i Hi).
  destruct (assoc i answers) as [l |]; [| discriminate]. exists l. split; [reflexivity | apply is_set_of_spec; exact H].
Qed.
Lemma sets_ok_spec answers : forall expected, sets_ok answers expected = true -> Forall2 same_set answers expected.
Proof.
  induction answers as [| a r IH]; intros [| e q] H; simpl in H; try discriminate; [constructor |].
  apply andb_true_iff in H. destruct H as [H1 H2]. constructor; [apply is_set_of_spec; exact H1 | apply IH; exact H2].
Qed.
Lemma zs_eqb_eq a : forall b, zs_eqb a b = true <-> a = b.
Proof.
  induction a as [| x a IH]; intros [| y b]; simpl; try (split; [discriminate | discriminate]); [tauto |].
  rewrite andb_true_iff, Z.eqb_eq, IH. split; [intros [-> ->]; reflexivity | intros H; inversion H; auto].
Qed.

Theorem struct_checks_sound lv ov subsets o :
  forallb snd (struct_checks lv ov subsets o) = true ->
  o_n o = Z.of_nat (length (l_txs lv)) /\ o_ov o = ov /\ same_set (o_ex o) (ids lv) /\
  (ov = false ->
   (forall i, In i (ids lv) ->
      exists la ld lc, assoc i (o_anc o) = Some la /\ same_set la (q_ancestors lv i) /\
                       assoc i (o_desc o) = Some ld /\ same_set ld (q_descendants lv i) /\
                       assoc i (o_clu o) = Some lc /\ same_set lc (q_cluster lv i)) /\
   o_ne o = [] /\
   o_cdc o = map (q_count_distinct lv) subsets /\
   Forall2 same_set (o_au o) (map (q_anc_union lv) subsets) /\
   Forall2 same_set (o_du o) (map (q_desc_union lv) subsets)).
Proof.
  intros H. pose proof (checks_all _ H) as C. clear H. unfold struct_checks in C.
  assert (C1 := C 1%nat _ (or_introl eq_refl)).
  assert (C2 := C 2%nat _ (or_intror (or_introl eq_refl))).
  assert (C3 := C 3%nat _ (or_intror (or_intror (or_introl eq_refl)))).
  apply Z.eqb_eq in C1. apply eqb_prop in C2. apply is_set_of_spec in C3.
  split; [exact C1 |]. split; [exact C2 |]. split; [exact C3 |]. intros ->.
  assert (D : forall k b, In (k, b) [ (5%nat, per_id_ok (ids lv) (o_anc o) (q_ancestors lv));
    (6%nat, per_id_ok (ids lv) (o_desc o) (q_descendants lv));
    (7%nat, per_id_ok (ids lv) (o_clu o) (q_cluster lv));
    (8%nat, is_nil (o_ne o));
    (9%nat, zs_eqb (o_cdc o) (map (q_count_distinct lv) subsets));
    (10%nat, sets_ok (o_au o) (map (q_anc_union lv) subsets));
    (11%nat, sets_ok (o_du o) (map (q_desc_union lv) subsets)) ] -> b = true).
  { intros k b Hin. apply (C k b). apply in_or_app. right. exact Hin. }
  clear C.
  assert (C5 := D 5%nat _ (or_introl eq_refl)).
  assert (C6 := D 6%nat _ (or_intror (or_introl eq_refl))).
  assert (C7 := D 7%nat _ (or_intror (or_intror (or_introl eq_refl)))).
  assert (C8 := D 8%nat _ (or_intror (or_intror (or_intror (or_introl eq_refl))))).
  assert (C9 := D 9%nat _ (or_intror (or_intror (or_intror (or_intror (or_introl eq_refl)))))).
  assert (C10 := D 10%nat _ (or_intror (or_intror (or_intror (or_intror (or_intror (or_introl eq_refl))))))).
  assert (C11 := D 11%nat _ (or_intror (or_intror (or_intror (or_intror (or_intror (or_intror (or_introl eq_refl)))))))).
  clear D. split; [| split; [apply is_nil_spec; exact C8 | split; [apply zs_eqb_eq; exact C9 | split; apply sets_ok_spec; assumption]]].
  intros i Hi.
  destruct (per_id_ok_spec _ _ _ C5 i Hi) as [la [Ea Sa]].
  destruct (per_id_ok_spec _ _ _ C6 i Hi) as [ld [Ed Sd]].
  destruct (per_id_ok_spec _ _ _ C7 i Hi) as [lc [Ec Sc]].
  exists la, ld, lc. repeat split; try assumption; try apply Sa; try apply Sd; try apply Sc.
Qed.

(* with the agreement theorem: the implementation's GetAncestors / GetDescendants answers are those
   of the eager naive graph (closure through removed transactions, restricted to live ones) *)
Corollary struct_answers_naive lv subsets o i : agrees lv ->
  forallb snd (struct_checks lv false subsets o) = true -> In i (ids lv) ->
  exists la ld, assoc i (o_anc o) = Some la /\ assoc i (o_desc o) = Some ld /\ NoDup la /\ NoDup ld /\
    (forall a, In a la <-> a = i \/ (In (a, i) (l_H lv) /\ In a (ids lv))) /\
    (forall d, In d ld <-> d = i \/ (In (i, d) (l_H lv) /\ In d (ids lv))).
Proof.
  intros Ag H Hi. destruct (struct_checks_sound lv false subsets o H) as [_ [_ [_ D]]].
  destruct (D eq_refl) as [P _]. destruct (P i Hi) as [la [ld [_ [Ea [[Na Sa] [Ed [[Nd Sd] _]]]]]]].
  exists la, ld. repeat split; try assumption.
  - intros Ha. apply Sa in Ha. apply (ancestors_naive lv i a Ag) in Ha. tauto.
  - intros Ha. apply Sa. apply (ancestors_naive lv i a Ag). tauto.
  - intros Hd. apply Sd in Hd. apply (descendants_naive lv i d Ag) in Hd. tauto.
  - intros Hd. apply Sd. apply (descendants_naive lv i d Ag). tauto.
Qed.
