(* PoolResource: for every script of Allocate / Deallocate calls (each deallocation returning a live
   allocation with the bytes/alignment it was requested with): every free-list index is in bounds, the
   blocks accounted for (live allocations, free-list entries, the unused tail of the last chunk) are
   pairwise disjoint, aligned, inside chunks, and their sizes add up to the chunk memory exactly. *)
From Coq Require Import List Arith Bool Lia ZArith Permutation.
Unset Lia Cache.
From BV Require Import model.ContBuf model.ContPool.
Import ListNotations.
Local Open Scope Z_scope.


Fixpoint zsum (l : list Z) : Z := match l with [] => 0 | x :: r => x + zsum r end.
Lemma zsum_app a b : zsum (a ++ b) = zsum a + zsum b.
Proof. induction a; simpl; lia. Qed.
Lemma zsum_perm a b : Permutation a b -> zsum a = zsum b.
Proof. induction 1; simpl; lia. Qed.

Section PoolProofs.
  Variables MAXB ALIGN_BYTES : Z.
  Variable chunk_base : nat -> Z.
  Variable CS : Z.                      (* m_chunk_size_bytes of the pool under consideration *)
  Notation EA := (ContPool.EA ALIGN_BYTES).
  Notation NFL := (ContPool.NFL MAXB ALIGN_BYTES).
  Notation num := (ContPool.num_elem_align_bytes ALIGN_BYTES).
  Notation usable := (ContPool.is_free_list_usable MAXB ALIGN_BYTES).
  Notation free_blocks_from := (ContPool.free_blocks_from ALIGN_BYTES).
  Notation free_blocks := (ContPool.free_blocks ALIGN_BYTES).
  Notation live_blocks := (ContPool.live_blocks MAXB ALIGN_BYTES).
  Notation allocate_chunk := (ContPool.allocate_chunk ALIGN_BYTES chunk_base).
  Notation allocate := (ContPool.allocate MAXB ALIGN_BYTES chunk_base).
  Notation deallocate := (ContPool.deallocate MAXB ALIGN_BYTES).
  Notation pool_step := (ContPool.pool_step MAXB ALIGN_BYTES chunk_base).
  Notation pool_run := (ContPool.pool_run MAXB ALIGN_BYTES chunk_base).
  Notation pool_new := (ContPool.pool_new MAXB ALIGN_BYTES chunk_base).

  (* static_assert((MAX_BLOCK_SIZE_BYTES & (ELEM_ALIGN_BYTES - 1)) == 0); and MAX_BLOCK_SIZE_BYTES >= ELEM_ALIGN_BYTES
     (there is no static_assert for the latter: with MAX_BLOCK_SIZE_BYTES = 0 a request of 0 bytes would index
     m_free_lists[1] of a one-element array) *)
  Hypothesis HMAXB_mult : MAXB mod EA = 0.
  Hypothesis HMAXB_ge : EA <= MAXB.
  (* ::operator new(size, align_val_t{ELEM_ALIGN_BYTES}) returns aligned storage that overlaps no chunk still allocated *)
  Hypothesis Hbase_aligned : forall k, chunk_base k mod EA = 0.
  Hypothesis Hbase_disjoint : forall i j, i <> j ->
    chunk_base i + CS <= chunk_base j \/ chunk_base j + CS <= chunk_base i.

  Lemma EA_pos : 8 <= EA.
  Proof. unfold ContPool.EA. lia. Qed.

  Lemma num_facts bytes : 0 <= bytes -> bytes <= MAXB ->
    1 <= num bytes /\ bytes <= num bytes * EA /\ num bytes * EA <= MAXB /\ (Z.to_nat (num bytes) < NFL)%nat /\
    (num bytes * EA) mod EA = 0.
  Proof.
    intros H0 H1. pose proof EA_pos as HE. unfold ContPool.num_elem_align_bytes, ContPool.NFL.
    set (E := EA) in *.
    assert (Hm : MAXB = E * (MAXB / E)) by (pose proof (Z.div_mod MAXB E ltac:(lia)); lia).
    assert (Hq : 1 <= MAXB / E) by (apply Z.div_le_lower_bound; lia).
    destruct (bytes =? 0) eqn:Eb; [apply Z.eqb_eq in Eb|apply Z.eqb_neq in Eb].
    - subst bytes. replace ((0 + E - 1) / E) with 0 by (symmetry; apply Z.div_small; lia).
      repeat split; try lia. apply Z.mod_mul. lia.
    - set (c := (bytes + E - 1) / E).
      assert (Hc1 : E * c <= bytes + E - 1) by (apply Z.mul_div_le; lia).
      assert (Hc2 : bytes + E - 1 < E * (c + 1)).
      { pose proof (Z.mul_succ_div_gt (bytes + E - 1) E ltac:(lia)). unfold c. lia. }
      assert (Hc3 : c <= MAXB / E) by nia.
      repeat split; try nia. apply Z.mod_mul. lia.
  Qed.

  (* ---- free lists as blocks ---- *)
  Lemma fl_push_length fl k p fl' : ContPool.fl_push fl k p = Some fl' -> length fl' = length fl.
  Proof.
    unfold ContPool.fl_push. destruct (nth_error fl k) eqn:E; [|discriminate]. intros H; injection H as <-.
    assert (k < length fl)%nat by (apply nth_error_Some; congruence).
    change (length (firstn k fl ++ (p :: l) :: skipn (S k) fl) = length fl).
    rewrite app_length, firstn_length. cbn [length]. rewrite skipn_length. lia.
  Qed.
  Lemma fl_set_length fl k l : (k < length fl)%nat -> length (ContPool.fl_set fl k l) = length fl.
  Proof. intros H. unfold ContPool.fl_set. rewrite app_length, firstn_length. cbn [length]. rewrite skipn_length. lia. Qed.
  Lemma fl_push_some fl k p : (k < length fl)%nat -> exists fl', ContPool.fl_push fl k p = Some fl'.
  Proof.
    intros H. unfold ContPool.fl_push. destruct (nth_error fl k) eqn:E; [eexists; reflexivity|].
    apply nth_error_None in E. lia.
  Qed.

  Lemma fb_split (fl : list (list Z)) : forall k l, nth_error fl k = Some l ->
    fl = firstn k fl ++ l :: skipn (S k) fl.
  Proof.
    induction fl as [|x fl IH]; intros [|k] l H; simpl in *; try discriminate.
    - injection H as ->. reflexivity.
    - f_equal. apply (IH k l H).
  Qed.

  Lemma fb_app i fl1 fl2 :
    free_blocks_from i (fl1 ++ fl2) = free_blocks_from i fl1 ++ free_blocks_from (i + length fl1) fl2.
  Proof.
    revert i. induction fl1 as [|x fl1 IH]; intros i; simpl.
    - rewrite Nat.add_0_r. reflexivity.
    - rewrite IH. rewrite <- app_assoc. do 3 f_equal. lia.
  Qed.

  Lemma fb_push i fl k p fl' : ContPool.fl_push fl k p = Some fl' ->
    Permutation (free_blocks_from i fl') ((p, Z.of_nat (i + k) * EA) :: free_blocks_from i fl).
  Proof.
    unfold ContPool.fl_push. destruct (nth_error fl k) as [l|] eqn:E; [|discriminate]. intros H; injection H as <-.
    assert (Hk : (k < length fl)%nat) by (apply nth_error_Some; congruence).
    rewrite (fb_split fl k l E) at 3. rewrite !fb_app. simpl.
    rewrite firstn_length, Nat.min_l by lia.
    apply Permutation_sym. apply Permutation_middle.
  Qed.

  Lemma fb_pop i fl k a rest : nth_error fl k = Some (a :: rest) ->
    Permutation (free_blocks_from i fl) ((a, Z.of_nat (i + k) * EA) :: free_blocks_from i (ContPool.fl_set fl k rest)).
  Proof.
    intros E. assert (Hk : (k < length fl)%nat) by (apply nth_error_Some; congruence).
    rewrite (fb_split fl k _ E) at 1. unfold ContPool.fl_set. rewrite !fb_app. simpl.
    rewrite firstn_length, Nat.min_l by lia.
    apply Permutation_sym. apply Permutation_middle.
  Qed.

  (* ---- the accounting predicate ---- *)
  Definition in_chunk (n : nat) (b : Z * Z) : Prop :=
    exists c, (c < n)%nat /\ chunk_base c <= fst b /\ fst b + snd b <= chunk_base c + CS.
  Definition good (B : list (Z * Z)) (it en : Z) (n : nat) : Prop :=
    NoDup B /\
    (forall x y, In x B -> In y B -> x <> y -> idisj x y) /\
    (forall b, In b B -> 0 < snd b /\ fst b mod EA = 0 /\ snd b mod EA = 0 /\ in_chunk n b /\
                         (fst b + snd b <= it \/ en <= fst b)) /\
    it <= en /\ it mod EA = 0 /\ (en - it) mod EA = 0 /\
    (1 <= n)%nat /\ en = chunk_base (n - 1) + CS /\ chunk_base (n - 1) <= it /\
    zsum (map snd B) + (en - it) = Z.of_nat n * CS.

  Lemma good_perm B B' it en n : Permutation B B' -> good B it en n -> good B' it en n.
  Proof.
    intros P (ND&DJ&AL&R). split; [eapply Permutation_NoDup; eassumption|].
    split; [intros x y Hx Hy; apply DJ; eapply Permutation_in; try eassumption; apply Permutation_sym; assumption|].
    split; [intros b Hb; apply AL; eapply Permutation_in; try eassumption; apply Permutation_sym; assumption|].
    rewrite <- (zsum_perm _ _ (Permutation_map snd P)). exact R.
  Qed.

  (* carving r bytes from the front of the unused tail *)
  Lemma good_bump B it en n r : good B it en n -> 0 < r -> r mod EA = 0 -> r <= en - it ->
    good ((it, r) :: B) (it + r) en n.
  Proof.
    intros (ND&DJ&AL&H1&H2&H3&H4&H5&H6&H7) Hr Hrm Hle. pose proof EA_pos as HE.
    assert (Hnew : forall b, In b B -> idisj (it, r) b).
    { intros b Hb. destruct (AL b Hb) as (_&_&_&_&D). unfold idisj; simpl. lia. }
    assert (Hnotin : ~ In (it, r) B).
    { intros Hb. destruct (AL _ Hb) as (_&_&_&_&D). simpl in D. lia. }
    split; [constructor; assumption|].
    split.
    { intros x y [<-|Hx] [<-|Hy] Hne; try congruence.
      - apply Hnew; assumption.
      - destruct (Hnew x Hx) as [D|D]; unfold idisj in *; simpl in *; lia.
      - apply DJ; assumption. }
    split.
    { intros b [<-|Hb]; simpl.
      - split; [lia|]. split; [assumption|]. split; [assumption|]. split; [|lia].
        exists (n - 1)%nat. simpl. split; [lia|]. lia.
      - destruct (AL b Hb) as (a1&a2&a3&a4&a5). repeat split; try assumption. lia. }
    split; [lia|]. split.
    { rewrite Z.add_mod by lia. rewrite H2, Hrm. reflexivity. }
    split.
    { replace (en - (it + r)) with ((en - it) - r) by lia. rewrite Zminus_mod, H3, Hrm. reflexivity. }
    split; [assumption|]. split; [assumption|]. split; [lia|]. simpl. lia.
  Qed.

  (* a fresh chunk when nothing is left of the previous one *)
  Lemma good_fresh B en n : good B en en n -> 0 <= CS -> CS mod EA = 0 ->
    good B (chunk_base n) (chunk_base n + CS) (S n).
  Proof.
    intros (ND&DJ&AL&H1&H2&H3&H4&H5&H6&H7) HCS HCSm. pose proof EA_pos as HE.
    split; [assumption|]. split; [assumption|]. split.
    { intros b Hb. destruct (AL b Hb) as (a1&a2&a3&(c&Hc&a4&a4')&a5). repeat split; try assumption.
      - exists c. split; [lia|]. split; assumption.
      - destruct (Hbase_disjoint c n ltac:(lia)) as [D|D]; lia. }
    split; [lia|]. split; [apply Hbase_aligned|]. split.
    { replace (chunk_base n + CS - chunk_base n) with CS by lia. assumption. }
    split; [lia|]. replace (S n - 1)%nat with n by lia. split; [reflexivity|]. split; [lia|].
    rewrite Nat2Z.inj_succ. lia.
  Qed.

  (* ---- the representation invariant ---- *)
  Definition entry_ok (e : ContPool.live_entry) : Prop :=
    let '(r, bytes, alignment) := e in
    0 <= bytes /\ (usable bytes alignment = true -> exists a, r = Pooled a).
  Definition pool_inv (st : pool * list ContPool.live_entry) : Prop :=
    let (s, live) := st in
    p_cs s = CS /\ MAXB <= CS /\ CS mod EA = 0 /\ length (p_free s) = NFL /\
    p_chunks s = map chunk_base (seq 0 (length (p_chunks s))) /\
    good (live_blocks live ++ free_blocks s) (p_it s) (p_end s) (length (p_chunks s)) /\
    Forall entry_ok live.

  Lemma live_blocks_app l1 l2 : live_blocks (l1 ++ l2) = live_blocks l1 ++ live_blocks l2.
  Proof.
    induction l1 as [|[[r b] a] l1 IH]; simpl; [reflexivity|].
    destruct r; [destruct (usable b a)|]; simpl; rewrite IH; reflexivity.
  Qed.

  Lemma fb_repeat_nil i k : free_blocks_from i (repeat [] k) = [].
  Proof. revert i. induction k; intros i; simpl; auto. Qed.

  Lemma seq_snoc n : seq 0 (S n) = seq 0 n ++ [n].
  Proof. rewrite seq_S. reflexivity. Qed.

  (* AllocateChunk: the leftover (smaller than the request that did not fit, hence <= MAX_BLOCK_SIZE_BYTES)
     goes to the free list of its exact size; the new chunk becomes the unused tail *)
  Lemma allocate_chunk_ok s L : p_cs s = CS -> 0 <= CS -> CS mod EA = 0 -> length (p_free s) = NFL ->
    p_chunks s = map chunk_base (seq 0 (length (p_chunks s))) ->
    good (L ++ free_blocks s) (p_it s) (p_end s) (length (p_chunks s)) ->
    p_end s - p_it s <= MAXB ->
    exists s', allocate_chunk s = Some s' /\ p_cs s' = CS /\ length (p_free s') = NFL /\
      p_chunks s' = map chunk_base (seq 0 (length (p_chunks s'))) /\
      length (p_chunks s') = S (length (p_chunks s)) /\
      p_it s' = chunk_base (length (p_chunks s)) /\ p_end s' = chunk_base (length (p_chunks s)) + CS /\
      good (L ++ free_blocks s') (p_it s') (p_end s') (length (p_chunks s')).
  Proof.
    intros Hcs HCS HCSm Hfl Hch G Hrem. pose proof EA_pos as HE.
    unfold ContPool.allocate_chunk. set (n := length (p_chunks s)) in *.
    assert (Hch' : p_chunks s ++ [chunk_base n] = map chunk_base (seq 0 (S n))).
    { rewrite seq_snoc, map_app. simpl. rewrite <- Hch. reflexivity. }
    destruct (p_end s - p_it s =? 0) eqn:E0; [apply Z.eqb_eq in E0|apply Z.eqb_neq in E0].
    - eexists; split; [reflexivity|]. cbn [p_cs p_free p_chunks p_it p_end]. rewrite app_length. simpl length. fold n.
      replace (n + 1)%nat with (S n) by lia. rewrite Hcs.
      do 6 (split; [first [assumption|reflexivity]|]).
      replace (p_it s) with (p_end s) in G by lia. apply (good_fresh _ (p_end s)); assumption.
    - pose proof G as G0. destruct G as (ND&DJ&AL&H1&H2&H3&H4&H5&H6&H7).
      set (r := p_end s - p_it s) in *.
      assert (Hr : 0 < r) by lia.
      assert (Hk : (Z.to_nat (r / EA) < length (p_free s))%nat).
      { rewrite Hfl. unfold ContPool.NFL. apply Z2Nat.inj_lt; [apply Z.div_pos; lia| |].
        - pose proof (Z.div_pos MAXB EA ltac:(lia) ltac:(lia)). lia.
        - pose proof (Z.div_le_mono r MAXB EA ltac:(lia) Hrem). lia. }
      destruct (fl_push_some (p_free s) _ (p_it s) Hk) as (fl'&Efl). rewrite Efl.
      eexists; split; [reflexivity|]. cbn [p_cs p_free p_chunks p_it p_end]. rewrite app_length. simpl length. fold n.
      replace (n + 1)%nat with (S n) by lia. rewrite Hcs.
      split; [reflexivity|]. split; [rewrite (fl_push_length _ _ _ _ Efl); assumption|].
      split; [assumption|]. split; [reflexivity|]. split; [reflexivity|]. split; [reflexivity|].
      apply (good_fresh _ (p_end s)); [|assumption|assumption].
      assert (Hsz : Z.of_nat (0 + Z.to_nat (r / EA)) * EA = r).
      { rewrite Nat.add_0_l, Z2Nat.id by (apply Z.div_pos; lia).
        pose proof (Z.div_mod r EA ltac:(lia)). rewrite H3 in H. lia. }
      pose proof (fb_push 0 _ _ _ _ Efl) as P. rewrite Hsz in P.
      apply good_perm with (B := (p_it s, r) :: L ++ free_blocks s).
      + unfold ContPool.free_blocks at 1. cbn [p_free].
        apply Permutation_sym. eapply Permutation_trans; [apply Permutation_app_head; exact P|].
        apply Permutation_sym. apply Permutation_middle.
      + replace (p_end s) with (p_it s + r) at 1 by (unfold r; lia).
        apply good_bump; [exact G0|lia|assumption|unfold r; lia].
  Qed.

  Lemma allocate_ok s live bytes alignment : pool_inv (s, live) -> 0 <= bytes ->
    exists r s', allocate s bytes alignment = Some (r, s') /\ pool_inv (s', live ++ [(r, bytes, alignment)]) /\
      (usable bytes alignment = true -> exists a, r = Pooled a) /\
      (usable bytes alignment = false -> r = External /\ s' = s).
  Proof.
    intros (Hcs&HM&HCSm&Hfl&Hch&G&Hent) Hb. pose proof EA_pos as HE.
    unfold ContPool.allocate. destruct (usable bytes alignment) eqn:Eu.
    - assert (Hb2 : bytes <= MAXB).
      { unfold ContPool.is_free_list_usable in Eu. apply andb_true_iff in Eu. destruct Eu as [_ Eu]. apply Z.leb_le in Eu. exact Eu. }
      destruct (num_facts bytes Hb Hb2) as (N1&N2&N3&N4&N5).
      set (k := Z.to_nat (num bytes)) in *.
      assert (Hkz : Z.of_nat (0 + k) * EA = num bytes * EA) by (unfold k; rewrite Nat.add_0_l, Z2Nat.id by lia; reflexivity).
      destruct (nth_error (p_free s) k) as [l|] eqn:El; [|apply nth_error_None in El; lia].
      assert (Hent' : Forall entry_ok (live ++ [(Pooled (match l with a :: _ => a | [] => 0 end), bytes, alignment)]) -> True) by auto.
      destruct l as [|a next].
      + (* carve from the unused tail, possibly after a new chunk *)
        set (round := num bytes * EA) in *.
        assert (H1 : exists s1, (if p_end s - p_it s <? round then allocate_chunk s else Some s) = Some s1 /\
                   p_cs s1 = CS /\ length (p_free s1) = NFL /\
                   p_chunks s1 = map chunk_base (seq 0 (length (p_chunks s1))) /\
                   good (live_blocks live ++ free_blocks s1) (p_it s1) (p_end s1) (length (p_chunks s1)) /\
                   round <= p_end s1 - p_it s1).
        { destruct (p_end s - p_it s <? round) eqn:E1; [apply Z.ltb_lt in E1|apply Z.ltb_ge in E1].
          - destruct (allocate_chunk_ok s (live_blocks live) Hcs ltac:(lia) HCSm Hfl Hch G ltac:(lia))
              as (s1&E&A1&A2&A3&A4&A5&A6&A7).
            exists s1. do 5 (split; [assumption|]). rewrite A5, A6. lia.
          - exists s. do 5 (split; [first [assumption|reflexivity]|]). assumption. }
        destruct H1 as (s1&E&A1&A2&A3&A4&A5). rewrite E.
        eexists; eexists; split; [reflexivity|]. split; [|split; [intros _; eexists; reflexivity|discriminate]].
        unfold pool_inv. cbn [p_cs p_free p_chunks p_it p_end].
        do 5 (split; [assumption|]). split.
        * rewrite live_blocks_app. simpl. rewrite Eu. fold round.
          apply good_perm with (B := (p_it s1, round) :: live_blocks live ++ free_blocks s1).
          -- unfold ContPool.free_blocks. cbn [p_free]. rewrite <- app_assoc. simpl. apply Permutation_middle.
          -- apply good_bump; [assumption|lia|assumption|assumption].
        * apply Forall_app. split; [assumption|]. constructor; [|constructor]. simpl. split; [assumption|]. intros _. eexists; reflexivity.
      + (* reuse the head of the free list of exactly this size class *)
        eexists; eexists; split; [reflexivity|]. split; [|split; [intros _; eexists; reflexivity|discriminate]].
        unfold pool_inv. cbn [p_cs p_free p_chunks p_it p_end].
        split; [assumption|]. split; [assumption|]. split; [assumption|].
        split; [rewrite fl_set_length by lia; assumption|]. split; [assumption|]. split.
        * rewrite live_blocks_app. simpl. rewrite Eu.
          pose proof (fb_pop 0 _ _ _ _ El) as P. rewrite Hkz in P.
          eapply good_perm; [|exact G].
          unfold ContPool.free_blocks. cbn [p_free]. rewrite <- app_assoc. simpl.
          apply Permutation_app_head. exact P.
        * apply Forall_app. split; [assumption|]. constructor; [|constructor]. simpl. split; [assumption|]. intros _. eexists; reflexivity.
    - eexists; eexists; split; [reflexivity|]. split; [|split; [discriminate|auto]].
      unfold pool_inv. do 5 (split; [assumption|]). split.
      + rewrite live_blocks_app. simpl. rewrite app_nil_r. assumption.
      + apply Forall_app. split; [assumption|]. constructor; [|constructor]. simpl. split; [assumption|]. rewrite Eu. discriminate.
  Qed.

  Lemma nth_error_split' (A : Type) (l : list A) i x : nth_error l i = Some x ->
    l = firstn i l ++ x :: skipn (S i) l.
  Proof.
    revert i. induction l as [|y l IH]; intros [|i] H; simpl in *; try discriminate.
    - injection H as ->. reflexivity.
    - f_equal. apply IH. exact H.
  Qed.

  Lemma deallocate_ok s live i p bytes alignment : pool_inv (s, live) -> nth_error live i = Some (p, bytes, alignment) ->
    exists s', deallocate s p bytes alignment = Some s' /\ pool_inv (s', firstn i live ++ skipn (S i) live).
  Proof.
    intros (Hcs&HM&HCSm&Hfl&Hch&G&Hent) Hi. pose proof EA_pos as HE.
    pose proof (nth_error_split' _ live i _ Hi) as Hsplit.
    assert (Heo : entry_ok (p, bytes, alignment)).
    { rewrite Forall_forall in Hent. apply Hent. eapply nth_error_In; eassumption. }
    assert (Hent' : Forall entry_ok (firstn i live ++ skipn (S i) live)).
    { rewrite Hsplit in Hent. apply Forall_app in Hent. destruct Hent as [F1 F2]. inversion F2; subst.
      apply Forall_app; split; assumption. }
    destruct Heo as [Hb Hp]. unfold ContPool.deallocate. destruct (usable bytes alignment) eqn:Eu.
    - destruct (Hp eq_refl) as (a&->).
      assert (Hb2 : bytes <= MAXB).
      { unfold ContPool.is_free_list_usable in Eu. apply andb_true_iff in Eu. destruct Eu as [_ Eu]. apply Z.leb_le in Eu. exact Eu. }
      destruct (num_facts bytes Hb Hb2) as (N1&N2&N3&N4&N5).
      set (k := Z.to_nat (num bytes)) in *.
      assert (Hkz : Z.of_nat (0 + k) * EA = num bytes * EA) by (unfold k; rewrite Nat.add_0_l, Z2Nat.id by lia; reflexivity).
      destruct (fl_push_some (p_free s) k a ltac:(lia)) as (fl'&Efl). rewrite Efl.
      eexists; split; [reflexivity|]. unfold pool_inv. cbn [p_cs p_free p_chunks p_it p_end].
      split; [assumption|]. split; [assumption|]. split; [assumption|].
      split; [rewrite (fl_push_length _ _ _ _ Efl); assumption|]. split; [assumption|]. split; [|assumption].
      pose proof (fb_push 0 _ _ _ _ Efl) as P. rewrite Hkz in P.
      eapply good_perm; [|exact G].
      rewrite Hsplit at 1. rewrite !live_blocks_app. simpl. rewrite Eu.
      unfold ContPool.free_blocks. cbn [p_free]. rewrite <- !app_assoc. simpl.
      apply Permutation_app_head.
      eapply Permutation_trans; [apply Permutation_middle|].
      apply Permutation_app_head. apply Permutation_sym. exact P.
    - exists s. split; [reflexivity|]. unfold pool_inv. do 5 (split; [assumption|]). split; [|assumption].
      rewrite Hsplit in G at 1. rewrite !live_blocks_app in G. simpl in G.
      rewrite live_blocks_app.
      destruct p; [rewrite Eu in G|]; exact G.
  Qed.

  (* ---- scripts ---- *)
  Definition script_ok_step (live : list ContPool.live_entry) (o : ContPool.pop) : Prop :=
    match o with
    | PAlloc bytes alignment => 0 <= bytes /\ 1 <= alignment
    | PFree i => (i < length live)%nat
    end.

  Lemma pool_step_ok st o : pool_inv st -> script_ok_step (snd st) o ->
    exists st', pool_step st o = Some st' /\ pool_inv st'.
  Proof.
    destruct st as [s live]. intros I Hok. unfold ContPool.pool_step. destruct o as [bytes alignment|i]; simpl in Hok.
    - destruct Hok as [Hb Ha].
      replace ((0 <=? bytes) && (1 <=? alignment))%bool with true
        by (symmetry; apply andb_true_iff; split; apply Z.leb_le; lia).
      destruct (allocate_ok s live bytes alignment I Hb) as (r&s'&E&I'&_). rewrite E.
      eexists; split; [reflexivity|]. exact I'.
    - destruct (nth_error live i) as [[[p bytes] alignment]|] eqn:E; [|apply nth_error_None in E; lia].
      destruct (deallocate_ok s live i p bytes alignment I E) as (s'&E'&I'). rewrite E'.
      eexists; split; [reflexivity|]. exact I'.
  Qed.

  (* validity of a whole script is a property of the script alone (lengths of the live list are determined) *)
  Fixpoint script_ok (nlive : nat) (ops : list ContPool.pop) : Prop :=
    match ops with
    | [] => True
    | PAlloc bytes alignment :: r => 0 <= bytes /\ 1 <= alignment /\ script_ok (S nlive) r
    | PFree i :: r => (i < nlive)%nat /\ script_ok (nlive - 1) r
    end.

  Lemma pool_step_live_length st o st' : pool_step st o = Some st' ->
    length (snd st') = match o with PAlloc _ _ => S (length (snd st)) | PFree _ => (length (snd st) - 1)%nat end.
  Proof.
    destruct st as [s live]. unfold ContPool.pool_step. destruct o as [bytes alignment|i].
    - destruct ((0 <=? bytes) && (1 <=? alignment))%bool; [|discriminate].
      destruct (allocate s bytes alignment) as [[r s']|]; [|discriminate]. intros H; injection H as <-. simpl.
      rewrite app_length. simpl. lia.
    - destruct (nth_error live i) as [[[p bytes] alignment]|] eqn:E; [|discriminate].
      destruct (deallocate s p bytes alignment); [|discriminate]. intros H; injection H as <-. cbn [snd].
      change (length (firstn i live ++ skipn (S i) live) = (length live - 1)%nat).
      assert (i < length live)%nat by (apply nth_error_Some; congruence).
      rewrite app_length, firstn_length, skipn_length. lia.
  Qed.

  Theorem pool_run_ok ops : forall st, pool_inv st -> script_ok (length (snd st)) ops ->
    exists st', pool_run st ops = Some st' /\ pool_inv st'.
  Proof.
    induction ops as [|o ops IH]; intros st I Hok; cbn [ContPool.pool_run].
    - exists st. auto.
    - assert (Hs : script_ok_step (snd st) o) by (destruct o; simpl in *; tauto).
      destruct (pool_step_ok st o I Hs) as (st1&E&I1). rewrite E.
      apply IH; [exact I1|]. rewrite (pool_step_live_length _ _ _ E). destruct o; simpl in Hok; tauto.
  Qed.

  Theorem pool_trace_ok ops : forall st, pool_inv st -> script_ok (length (snd st)) ops ->
    Forall (fun o => exists st', o = Some st' /\ pool_inv st') (ContPool.pool_trace MAXB ALIGN_BYTES chunk_base st ops).
  Proof.
    induction ops as [|o ops IH]; intros st I Hok; cbn [ContPool.pool_trace]; [constructor|].
    assert (Hs : script_ok_step (snd st) o) by (destruct o; simpl in *; tauto).
    destruct (pool_step_ok st o I Hs) as (st1&E&I1). rewrite E.
    constructor; [exists st1; auto|]. apply IH; [exact I1|].
    rewrite (pool_step_live_length _ _ _ E). destruct o; simpl in Hok; tauto.
  Qed.

  (* ---- what the invariant gives ---- *)
  Lemma in_app_l' (A : Type) (x : A) l1 l2 : In x l1 -> In x (l1 ++ l2).
  Proof. intros; apply in_or_app; auto. Qed.

  Lemma nodup_app (A : Type) (l1 l2 : list A) : NoDup (l1 ++ l2) -> NoDup l1 /\ forall x, In x l1 -> ~ In x l2.
  Proof.
    induction l1 as [|z l1 IH]; simpl; intros H.
    - split; [constructor|intros x []].
    - inversion H as [|? ? Hn Hd]; subst. destruct (IH Hd) as [N D]. split.
      + constructor; [intro Hin; apply Hn; apply in_or_app; auto|exact N].
      + intros x [<-|Hx] Hin; [apply Hn; apply in_or_app; auto|exact (D x Hx Hin)].
  Qed.

  Theorem pool_inv_meaning s live : pool_inv (s, live) ->
    (* live allocations never overlap (nor coincide) *)
    NoDup (live_blocks live) /\
    (forall x y, In x (live_blocks live) -> In y (live_blocks live) -> x <> y -> idisj x y) /\
    (* each is aligned, non-empty, inside one chunk, and outside the unused tail and the free lists *)
    (forall b, In b (live_blocks live) ->
       0 < snd b /\ fst b mod EA = 0 /\
       (exists c, (c < length (p_chunks s))%nat /\ chunk_base c <= fst b /\ fst b + snd b <= chunk_base c + CS) /\
       (fst b + snd b <= p_it s \/ p_end s <= fst b) /\
       (forall f, In f (free_blocks s) -> idisj b f)) /\
    (* memory accounting is exact *)
    zsum (map snd (live_blocks live)) + zsum (map snd (free_blocks s)) + (p_end s - p_it s)
      = Z.of_nat (length (p_chunks s)) * CS.
  Proof.
    intros (Hcs&HM&HCSm&Hfl&Hch&G&Hent). destruct G as (ND&DJ&AL&H1&H2&H3&H4&H5&H6&H7).
    destruct (nodup_app _ _ _ ND) as [ND1 ND2].
    split; [exact ND1|].
    split; [intros x y Hx Hy; apply DJ; apply in_app_l'; assumption|].
    split.
    - intros b Hb. destruct (AL b (in_app_l' _ _ _ _ Hb)) as (a1&a2&a3&a4&a5).
      repeat (split; [assumption|]). intros f Hf. apply DJ; [apply in_app_l'; assumption|apply in_or_app; right; assumption|].
      intros ->. exact (ND2 f Hb Hf).
    - rewrite map_app, zsum_app in H7. lia.
  Qed.

  (* the constructor establishes the invariant (CS is the rounded chunk size it computes) *)
  Lemma pool_new_ok chunk_size_bytes s : CS = num chunk_size_bytes * EA ->
    pool_new chunk_size_bytes = Some s -> pool_inv (s, []).
  Proof.
    intros HCS. pose proof EA_pos as HE. unfold ContPool.pool_new. rewrite <- HCS.
    destruct (MAXB <=? CS) eqn:E; [apply Z.leb_le in E|discriminate].
    unfold ContPool.allocate_chunk. cbn [p_cs p_free p_chunks p_it p_end]. simpl.
    intros H; injection H as <-. unfold pool_inv. cbn [p_cs p_free p_chunks p_it p_end].
    assert (HCSm : CS mod EA = 0) by (rewrite HCS; apply Z.mod_mul; lia).
    split; [reflexivity|]. split; [assumption|]. split; [assumption|].
    split; [apply repeat_length|]. split; [reflexivity|]. split; [|constructor].
    unfold ContPool.free_blocks. cbn [p_free]. rewrite fb_repeat_nil. cbn [app length].
    unfold good. split; [constructor|]. split; [intros x y []|]. split; [intros b []|].
    split; [lia|]. split; [apply Hbase_aligned|]. split.
    { replace (chunk_base 0 + CS - chunk_base 0) with CS by lia. assumption. }
    split; [lia|]. split; [reflexivity|]. split; [simpl; lia|]. cbn [map zsum length]. change (Z.of_nat 1) with 1. lia.
  Qed.

  (* the block reserved for a pooled request is large enough for it *)
  Lemma request_fits bytes alignment : 0 <= bytes -> usable bytes alignment = true ->
    bytes <= num bytes * EA /\ num bytes * EA <= MAXB /\ 1 <= num bytes.
  Proof.
    intros Hb Eu. assert (Hb2 : bytes <= MAXB).
    { unfold ContPool.is_free_list_usable in Eu. apply andb_true_iff in Eu. destruct Eu as [_ Eu]. apply Z.leb_le in Eu. exact Eu. }
    destruct (num_facts bytes Hb Hb2) as (N1&N2&N3&N4&N5). auto.
  Qed.

  (* freed blocks are reused only for the same size class: Allocate takes a block from a free list only from
     the list of exactly the requested class, where it is recorded with exactly the rounded size; Deallocate
     files a block under the class of the size it is returned with *)
  Lemma alloc_reuse_same_class s bytes alignment a next : 0 <= bytes -> usable bytes alignment = true ->
    nth_error (p_free s) (Z.to_nat (num bytes)) = Some (a :: next) ->
    allocate s bytes alignment =
      Some (Pooled a, mkpool (p_cs s) (p_chunks s) (ContPool.fl_set (p_free s) (Z.to_nat (num bytes)) next) (p_it s) (p_end s)) /\
    In (a, num bytes * EA) (free_blocks s).
  Proof.
    intros Hb Eu El. unfold ContPool.allocate. rewrite Eu, El. split; [reflexivity|].
    destruct (request_fits bytes alignment Hb Eu) as (_&_&N1).
    pose proof (fb_pop 0 _ _ _ _ El) as P. rewrite Nat.add_0_l, Z2Nat.id in P by lia.
    unfold ContPool.free_blocks. eapply Permutation_in; [apply Permutation_sym; exact P|]. left. reflexivity.
  Qed.

  Lemma alloc_fresh_when_class_empty s bytes alignment r s' : usable bytes alignment = true ->
    nth_error (p_free s) (Z.to_nat (num bytes)) = Some [] ->
    allocate s bytes alignment = Some (r, s') -> p_free s' = p_free s \/ exists s1, allocate_chunk s = Some s1 /\ p_free s' = p_free s1.
  Proof.
    intros Eu El. unfold ContPool.allocate. rewrite Eu, El.
    destruct (p_end s - p_it s <? num bytes * EA).
    - destruct (allocate_chunk s) as [s1|] eqn:E; [|discriminate]. intros H; injection H as <- <-. right. exists s1. auto.
    - intros H; injection H as <- <-. left. reflexivity.
  Qed.

  Lemma dealloc_same_class s a bytes alignment s' : 0 <= bytes -> usable bytes alignment = true ->
    deallocate s (Pooled a) bytes alignment = Some s' ->
    Permutation (free_blocks s') ((a, num bytes * EA) :: free_blocks s).
  Proof.
    intros Hb Eu. unfold ContPool.deallocate. rewrite Eu.
    destruct (ContPool.fl_push (p_free s) (Z.to_nat (num bytes)) a) as [fl|] eqn:E; [|discriminate].
    intros H; injection H as <-. destruct (request_fits bytes alignment Hb Eu) as (_&_&N1).
    pose proof (fb_push 0 _ _ _ _ E) as P. rewrite Nat.add_0_l, Z2Nat.id in P by lia. exact P.
  Qed.
End PoolProofs.
