(* Every public operation of the orphanage preserves the consistency invariant (SanityCheck) and leaves the pool
   within its global limits; what each operation removes. *)
From BV Require Import lib.Ints gen.Params_gen model.Orphanage proofs.OrphanBasics proofs.OrphanInv proofs.OrphanLimit.
Local Open Scope Z_scope.

Section Steps.
Variable tx_of : Z -> otx.
Hypothesis tx_wtxid : forall w, x_wtxid (tx_of w) = w.
Hypothesis tx_inputs_weight : forall w, 164 * Z.of_nat (length (x_inputs (tx_of w))) <= x_weight (tx_of w).
Hypothesis tx_weight_nonneg : forall w, 0 <= x_weight (tx_of w).
(* the peers that ever announce: at most max_global_latency_score of them (otherwise MaxPeerLatencyScore() is 0 and
   GetDosScore's assert fails) *)
Variable PS : list Z.
Hypothesis PS_nodup : NoDup PS.

Notation OWF := (OWF tx_of).
Notation erase_ann_spec := (erase_ann_spec tx_of tx_wtxid tx_inputs_weight tx_weight_nonneg).
Notation erase_fold_spec := (erase_fold_spec tx_of tx_wtxid tx_inputs_weight tx_weight_nonneg).
Notation add_ann_spec := (add_ann_spec tx_of tx_wtxid tx_inputs_weight tx_weight_nonneg).
Notation limit_orphans_spec := (limit_orphans_spec tx_of tx_wtxid tx_inputs_weight tx_weight_nonneg).

Definition peers_in (g : orph) : Prop := forall a, In a (g_anns g) -> In (o_peer a) PS.

Record OInv (g : orph) : Prop := mkOInv {
  oi_wf : OWF g;
  oi_within : needs_trim g = false;
  oi_peers : peers_in g;
  oi_ps : Z.of_nat (length PS) <= g_maxlat g }.

Lemma n_peers_le g : OWF g -> peers_in g -> n_peers g <= Z.of_nat (length PS).
Proof.
  intros W P. unfold n_peers.
  assert (X : incl (map fst (g_peers g)) PS).
  { intros q Hq. apply (entry_present tx_of g q W) in Hq. destruct Hq as [a [Ha <-]]. apply P. exact Ha. }
  pose proof (NoDup_incl_length (ow_pnodup _ _ W) X) as Y. rewrite map_length in Y. lia.
Qed.

Lemma within_len g : OWF g -> needs_trim g = false -> Z.of_nat (length (g_anns g)) <= g_maxlat g.
Proof.
  intros W NT. pose proof W as [Hbad Hk Ht Hpn Hp Hu Hus Hin Hom Hon Hr Hrn Hro Hlen Hml Hres].
  unfold MAXLAT_LIMIT in Hml. unfold needs_trim in NT. apply orb_false_iff in NT. destruct NT as [NT _].
  apply Z.ltb_ge in NT. unfold total_latency in NT.
  assert (LsN : forall x, 0 <= lsc tx_of x - 1).
  { intros x. unfold lsc. assert (0 <= Z.of_nat (length (x_inputs (tx_of x))) / 10) by (apply Z.div_pos; lia). lia. }
  destruct (dsum_bounds tx_of (g_anns g) (fun x => lsc tx_of x - 1) 244 Ht LsN) as [Ib1 Ib2].
  { intros b Hb. destruct (ann_bounds tx_of tx_wtxid tx_inputs_weight tx_weight_nonneg _ b Ht Hb) as [_ [_ [Y _]]]. lia. }
  rewrite <- Hin in Ib1, Ib2.
  rewrite (wrapu32_id (Z.of_nat (length (g_anns g)))) in NT by (unfold UINT32_MAX; lia).
  rewrite wrapu32_id in NT by (unfold UINT32_MAX; lia). lia.
Qed.

(* LimitOrphans at the end of an operation *)
Lemma limit_step g : OWF g -> peers_in g -> Z.of_nat (length PS) <= g_maxlat g ->
  OInv (limit_orphans g) /\ same_params g (limit_orphans g) /\
  (exists keep, g_anns (limit_orphans g) = filter keep (g_anns g) /\
                (forall b, In b (g_anns g) -> keep b = false -> dosy_at g (o_peer b))) /\
  (needs_trim g = false -> limit_orphans g = g).
Proof.
  intros W P Hps. pose proof (n_peers_le g W P) as Hn.
  destruct (limit_orphans_spec g W) as [W' [SP [NT' [[keep [I K]] Same]]]]; [lia|].
  split; [|split; [exact SP|split; [exists keep; auto|exact Same]]].
  destruct SP as [E1 _]. constructor; auto.
  - intros a Ha. rewrite I in Ha. apply filter_In in Ha. apply P. tauto.
  - rewrite E1. exact Hps.
Qed.

(* ---------- AddTx / AddAnnouncer ---------- *)
Lemma add_tx_inv g w p : OInv g -> In p PS ->
  OInv (fst (add_tx g (tx_of w) p)).
Proof.
  intros [W NT P Hps] Hp. unfold add_tx.
  destruct (ORPHAN_MAX_TX_WEIGHT <? x_weight (tx_of w)) eqn:Big; [constructor; auto|].
  apply Z.ltb_ge in Big. rewrite tx_wtxid.
  destruct (have_tx_from_peer g w p) eqn:Dup; [constructor; auto|]. cbn [fst].
  pose proof (within_len g W NT) as Len.
  destruct (add_ann_spec g w p (negb (have_tx g w)) W Big Dup eq_refl Len) as [I [W1 [M1 R1]]].
  destruct (limit_step (add_ann g (tx_of w) p (negb (have_tx g w))) W1) as [Inv _]; [| |exact Inv].
  - intros a Ha. rewrite I in Ha. apply in_app_iff in Ha. destruct Ha as [Ha|[<-|[]]]; [apply P; auto|exact Hp].
  - rewrite M1. exact Hps.
Qed.

Lemma add_announcer_inv g w p : OInv g -> In p PS -> OInv (fst (add_announcer g w p)).
Proof.
  intros [W NT P Hps] Hp. unfold add_announcer.
  destruct (find (has_wtxid w) (g_anns g)) as [a0|] eqn:F; [|constructor; auto].
  apply find_some in F. destruct F as [Ha0 E0]. apply has_wtxid_true in E0.
  destruct (have_tx_from_peer g w p) eqn:Dup; [constructor; auto|]. cbn [fst].
  destruct (ow_txs _ _ W a0 Ha0) as [Etx Wtx]. rewrite E0 in Etx. rewrite Etx in *.
  pose proof (within_len g W NT) as Len.
  assert (Hv : false = negb (have_tx g w)).
  { unfold have_tx. symmetry. apply negb_false_iff. apply existsb_exists. exists a0. split; auto. apply has_wtxid_true; auto. }
  destruct (add_ann_spec g w p false W Wtx Dup Hv Len) as [I [W1 [M1 R1]]].
  destruct (limit_step (add_ann g (tx_of w) p false) W1) as [Inv _]; [| |exact Inv].
  - intros a Ha. rewrite I in Ha. apply in_app_iff in Ha. destruct Ha as [Ha|[<-|[]]]; [apply P; auto|exact Hp].
  - rewrite M1. exact Hps.
Qed.

(* ---------- erasing ---------- *)
Lemma okeys_filter (Q : oann -> bool) l : okeys l -> okeys (filter Q l).
Proof.
  unfold okeys. induction l as [|x l IH]; intros N; [constructor|]. simpl in N. inversion N; subst. cbn [filter].
  destruct (Q x); [|auto]. simpl. constructor; [|auto]. intros H. apply H1. apply in_map_iff in H.
  destruct H as [y [Ey Hy]]. apply filter_In in Hy. apply in_map_iff. exists y. tauto.
Qed.

(* Erase applied to all announcements selected by a predicate on (wtxid, peer) *)
Lemma erase_selected g (Q : oann -> bool) : OWF g ->
  (forall a b, akey a = akey b -> Q a = Q b) ->
  let g' := fold_left erase_ann (filter Q (g_anns g)) g in
  g_anns g' = filter (fun b => negb (Q b)) (g_anns g) /\ OWF g' /\ same_params g g'.
Proof.
  intros W QK. destruct (erase_fold_spec (filter Q (g_anns g)) g W) as [I [W' [E1 [E2 E3]]]].
  - apply okeys_filter. apply (ow_keys _ _ W).
  - intros a Ha. apply filter_In in Ha. tauto.
  - split; [|split; [exact W'|repeat split; auto]]. rewrite I. apply filter_ext_in. intros b Hb. f_equal.
    unfold keyed_in. destruct (Q b) eqn:Qb.
    + apply existsb_exists. exists b. split; [apply filter_In; auto|]. apply is_oann_true. reflexivity.
    + destruct (existsb (fun a => is_oann (o_wtxid a) (o_peer a) b) (filter Q (g_anns g))) eqn:X; [|reflexivity].
      apply existsb_exists in X. destruct X as [a [Ha Ea]]. apply filter_In in Ha. destruct Ha as [_ Qa].
      apply is_oann_true in Ea. rewrite (QK b a Ea) in Qb. congruence.
Qed.

Lemma erase_tx_internal_spec g w : OWF g ->
  g_anns (fst (erase_tx_internal g w)) = filter (fun b => negb (has_wtxid w b)) (g_anns g) /\
  OWF (fst (erase_tx_internal g w)) /\ same_params g (fst (erase_tx_internal g w)).
Proof.
  intros W. unfold erase_tx_internal. cbn [fst]. apply (erase_selected g (has_wtxid w) W).
  intros a b E. unfold akey in E. inversion E. unfold has_wtxid. congruence.
Qed.

Lemma peers_in_filter g g' Q : peers_in g -> g_anns g' = filter Q (g_anns g) -> peers_in g'.
Proof. intros P E a Ha. rewrite E in Ha. apply filter_In in Ha. apply P. tauto. Qed.

Lemma erase_tx_inv g w : OInv g -> OInv (fst (erase_tx g w)).
Proof.
  intros [W NT P Hps]. unfold erase_tx. destruct (erase_tx_internal_spec g w W) as [I [W1 [M1 _]]].
  destruct (erase_tx_internal g w) as [g1 r]. cbn [fst] in *.
  destruct (limit_step g1 W1) as [Inv _]; [eapply peers_in_filter; eauto|rewrite M1; exact Hps|exact Inv].
Qed.

(* EraseForPeer: exactly the peer's announcements go, then LimitOrphans runs *)
Lemma erase_for_peer_spec g p : OInv g ->
  exists g1, OWF g1 /\ g_anns g1 = filter (fun b => negb (from_peer p b)) (g_anns g) /\ same_params g g1 /\
             erase_for_peer g p = limit_orphans g1.
Proof.
  intros [W NT P Hps]. unfold erase_for_peer.
  destruct (erase_selected g (from_peer p) W) as [I [W1 SP]].
  { intros a b E. unfold akey in E. inversion E. unfold from_peer. congruence. }
  destruct (filter (from_peer p) (g_anns g)) as [|x m] eqn:F.
  - (* the peer has no announcement: nothing happens, and LimitOrphans would do nothing *)
    exists g. split; [exact W|]. split.
    + symmetry. apply filter_all_true_o. intros a Ha. destruct (from_peer p a) eqn:Fa; [|reflexivity].
      assert (X : In a (filter (from_peer p) (g_anns g))) by (apply filter_In; auto). rewrite F in X. contradiction.
    + split; [repeat split; reflexivity|]. unfold limit_orphans. rewrite NT. reflexivity.
  - exists (fold_left erase_ann (x :: m) g). auto.
Qed.

Lemma erase_for_peer_inv g p : OInv g -> OInv (erase_for_peer g p).
Proof.
  intros I. pose proof I as [W NT P Hps]. destruct (erase_for_peer_spec g p I) as [g1 [W1 [I1 [[M1 _] E]]]].
  rewrite E. destruct (limit_step g1 W1) as [Inv _]; [eapply peers_in_filter; eauto|rewrite M1; exact Hps|exact Inv].
Qed.

(* EraseForBlock: the wtxids collected from the outpoint index are exactly the orphans spending one of the block's
   inputs; all their announcements go, then LimitOrphans runs *)
Lemma collect_spec g spent : OWF g ->
  let ws := fold_left (fun acc k => fold_left (fun acc' w => set_add w acc') (g_outmap g k) acc) spent [] in
  forall w, In w ws <-> (In w (wtxids_of (g_anns g)) /\ exists k, In k spent /\ In k (x_inputs (tx_of w))).
Proof.
  intros W. cbv zeta.
  assert (Inner : forall l acc w, In w (fold_left (fun acc' w0 => set_add w0 acc') l acc) <-> In w acc \/ In w l).
  { induction l as [|x l IH]; intros acc w; cbn [fold_left]; [simpl; tauto|]. rewrite IH, in_set_add. simpl. intuition congruence. }
  assert (Outer : forall sp acc w, In w (fold_left (fun acc k => fold_left (fun acc' w0 => set_add w0 acc') (g_outmap g k) acc) sp acc)
                                   <-> In w acc \/ exists k, In k sp /\ In w (g_outmap g k)).
  { induction sp as [|k sp IH]; intros acc w; cbn [fold_left].
    - split; [auto|]. intros [H|[k [[] _]]]. exact H.
    - rewrite IH, Inner. split.
      + intros [[H|H]|[k' [Hk' Hw]]]; [auto|right; exists k; split; [left|]; auto|right; exists k'; split; [right|]; auto].
      + intros [H|[k' [[->|Hk'] Hw]]]; [auto|auto|right; exists k'; auto]. }
  intros w. rewrite Outer. split.
  - intros [[]|[k [Hk Hw]]]. apply (ow_outmap _ _ W) in Hw. destruct Hw as [A B]. split; auto. exists k. auto.
  - intros [A [k [Hk B]]]. right. exists k. split; auto. apply (ow_outmap _ _ W). auto.
Qed.

Lemma erase_ws_spec : forall (ws : list Z) (g : orph), OWF g ->
  let g' := fold_left (fun g0 w => fst (erase_tx_internal g0 w)) ws g in
  g_anns g' = filter (fun b => negb (set_mem (o_wtxid b) ws)) (g_anns g) /\ OWF g' /\ same_params g g'.
Proof.
  induction ws as [|w ws IH]; intros g W; cbn [fold_left].
  - split; [symmetry; apply filter_all_true_o; auto|]. split; [exact W|repeat split; reflexivity].
  - destruct (erase_tx_internal_spec g w W) as [I1 [W1 [A1 [A2 A3]]]].
    destruct (IH (fst (erase_tx_internal g w)) W1) as [I2 [W2 [B1 [B2 B3]]]].
    split; [|split; [exact W2|repeat split; congruence]].
    rewrite I2, I1, filter_filter_and2. apply filter_ext. intros b. unfold has_wtxid, set_mem. cbn [existsb].
    rewrite (Z.eqb_sym (o_wtxid b) w). destruct (w =? o_wtxid b); reflexivity.
Qed.

Lemma erase_for_block_spec g spent : OInv g ->
  exists g1, OWF g1 /\ g_anns g1 = filter (fun b => negb (spends_any spent b)) (g_anns g) /\ same_params g g1 /\
             erase_for_block g spent = limit_orphans g1.
Proof.
  intros [W NT P Hps]. unfold erase_for_block.
  destruct (g_anns g) as [|x m] eqn:EA.
  - exists g. split; [exact W|]. rewrite EA. split; [reflexivity|]. split; [repeat split; reflexivity|].
    unfold limit_orphans. rewrite NT. reflexivity.
  - rewrite <- EA. set (ws := fold_left _ spent []).
    destruct (erase_ws_spec ws g W) as [I [W1 SP]]. exists (fold_left (fun g' w => fst (erase_tx_internal g' w)) ws g).
    split; [exact W1|]. split; [|split; [exact SP|reflexivity]].
    rewrite I. apply filter_ext_in. intros b Hb. f_equal.
    pose proof (collect_spec g spent W (o_wtxid b)) as CS. cbv zeta in CS. fold ws in CS.
    destruct (ow_txs _ _ W b Hb) as [Etx _].
    destruct (set_mem (o_wtxid b) ws) eqn:M.
    + apply set_mem_true in M. apply CS in M. destruct M as [_ [k [Hk Hi]]]. symmetry.
      unfold spends_any. apply existsb_exists. exists k. rewrite Etx. split; auto. apply existsb_exists. exists k. split; auto. apply op_eqb_refl.
    + apply set_mem_false in M. destruct (spends_any spent b) eqn:S; [|reflexivity]. exfalso. apply M. apply CS.
      split; [apply in_wtxids; exists b; auto|]. unfold spends_any in S. apply existsb_exists in S. destruct S as [k [Hk E]].
      apply existsb_exists in E. destruct E as [k' [Hk' E']]. apply op_eqb_true in E'. subst k'. exists k. rewrite <- Etx. auto.
Qed.

Lemma erase_for_block_inv g spent : OInv g -> OInv (erase_for_block g spent).
Proof.
  intros I. pose proof I as [W NT P Hps]. destruct (erase_for_block_spec g spent I) as [g1 [W1 [I1 [[M1 _] E]]]].
  rewrite E. destruct (limit_step g1 W1) as [Inv _]; [eapply peers_in_filter; eauto|rewrite M1; exact Hps|exact Inv].
Qed.

End Steps.
