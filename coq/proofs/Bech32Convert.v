(* C45 — ConvertBits<8,5,true> / ConvertBits<5,8,false> (model/Bech32.v): value semantics of the
   accumulator loop, totality of the padded direction, and the 8 -> 5 -> 8 round trip for all byte strings. *)
From Coq Require Import NArith Lia.
From BV Require Import lib.Ints model.Bech32.
Local Open Scope N_scope.

(* big-endian value of a digit string in base 2^w *)
Definition val (w : N) (l : list N) : N := fold_left (fun a v => a * 2 ^ w + v) l 0.

Lemma val_snoc : forall w l v, val w (l ++ [v]) = val w l * 2 ^ w + v.
Proof. intros. unfold val. rewrite fold_left_app. reflexivity. Qed.

Lemma pow2_pos : forall k, 0 < 2 ^ k.
Proof. intros. apply N.neq_0_lt_0. apply N.pow_nonzero. discriminate. Qed.
Lemma pow2_nz : forall k, 2 ^ k <> 0.
Proof. intros. apply N.pow_nonzero. discriminate. Qed.

(* x mod 2^(b+t) = ((x / 2^b) mod 2^t) * 2^b + x mod 2^b *)
Lemma mod_split : forall x b t, x mod 2 ^ (b + t) = (x / 2 ^ b) mod 2 ^ t * 2 ^ b + x mod 2 ^ b.
Proof.
  intros. rewrite N.pow_add_r, N.mod_mul_r by apply pow2_nz. rewrite N.add_comm, N.mul_comm. reflexivity.
Qed.

(* (a * 2^f + v) mod 2^(b+f) = (a mod 2^b) * 2^f + v   for v < 2^f *)
Lemma mod_shift_in : forall a v b f, v < 2 ^ f -> (a * 2 ^ f + v) mod 2 ^ (b + f) = (a mod 2 ^ b) * 2 ^ f + v.
Proof.
  intros a v b f Hv. rewrite (N.add_comm b f), N.pow_add_r, N.mod_mul_r by apply pow2_nz.
  rewrite (N.add_comm (a * 2 ^ f) v), N.mod_add by apply pow2_nz. rewrite N.mod_small by assumption.
  rewrite N.div_add by apply pow2_nz. rewrite N.div_small by assumption. rewrite N.add_0_l. lia.
Qed.

Lemma mod_mod_le : forall x k m, k <= m -> (x mod 2 ^ m) mod 2 ^ k = x mod 2 ^ k.
Proof.
  intros x k m H. replace m with (k + (m - k)) by lia. rewrite mod_split.
  rewrite N.add_comm, N.mod_add by apply pow2_nz. apply N.mod_mod. apply pow2_nz.
Qed.

Lemma div_mod_le : forall x k t m, k + t <= m -> ((x mod 2 ^ m) / 2 ^ k) mod 2 ^ t = (x / 2 ^ k) mod 2 ^ t.
Proof.
  intros x k t m H.
  assert (E : forall y, (y / 2 ^ k) mod 2 ^ t = (y mod 2 ^ (k + t)) / 2 ^ k).
  { intros y. rewrite mod_split. rewrite N.div_add_l by apply pow2_nz.
    rewrite (N.div_small (y mod 2 ^ k)) by (apply N.mod_lt; apply pow2_nz). symmetry. apply N.add_0_r. }
  rewrite !E. rewrite mod_mod_le by assumption. reflexivity.
Qed.

Section Conv.
  Variable f t : N.
  Hypothesis f_pos : 0 < f.
  Hypothesis t_pos : 0 < t.

  Definition digits_ok (w : N) (l : list N) : Prop := Forall (fun v => v < 2 ^ w) l.

  (* the inner while loop *)
  Lemma cb_emit_spec : forall fuel acc bits out, bits < N.of_nat fuel * t -> digits_ok t out ->
    exists bits' out', cb_emit fuel t acc bits out = (bits', out') /\ bits' < t /\ digits_ok t out' /\
      N.of_nat (length out') * t + bits' = N.of_nat (length out) * t + bits /\
      val t (rev out') * 2 ^ bits' + acc mod 2 ^ bits' = val t (rev out) * 2 ^ bits + acc mod 2 ^ bits.
  Proof.
    induction fuel as [|fuel IH]; intros acc bits out Hb Hout.
    - simpl in Hb. lia.
    - cbn [cb_emit]. destruct (N.leb_spec t bits) as [Hge|Hlt].
      + set (b2 := bits - t). assert (Eb : bits = b2 + t) by (unfold b2; lia).
        set (s := N.land (N.shiftr acc b2) (N.ones t)).
        assert (Es : s = (acc / 2 ^ b2) mod 2 ^ t) by (unfold s; rewrite N.land_ones, N.shiftr_div_pow2; reflexivity).
        assert (Hs : s < 2 ^ t) by (rewrite Es; apply N.mod_lt; apply pow2_nz).
        destruct (IH acc b2 (s :: out)) as (bits' & out' & E & H1 & H2 & H3 & H4).
        { rewrite Nat2N.inj_succ in Hb. lia. }
        { constructor; assumption. }
        exists bits', out'. split; [exact E|]. split; [assumption|]. split; [assumption|]. split.
        * rewrite H3. cbn [length]. rewrite Nat2N.inj_succ. lia.
        * rewrite H4. cbn [rev]. rewrite val_snoc, Eb, mod_split, Es, N.pow_add_r. lia.
      + exists bits, out. repeat split; auto.
  Qed.

  Definition inv (p : list N) (st : N * N * list N) : Prop :=
    let '(acc, bits, out) := st in
    bits < t /\ digits_ok t out /\ N.of_nat (length out) * t + bits = N.of_nat (length p) * f /\
    val f p = val t (rev out) * 2 ^ bits + acc mod 2 ^ bits.

  Lemma lor_shift_add : forall a v, v < 2 ^ f -> N.lor (N.shiftl a f) v = a * 2 ^ f + v.
  Proof.
    intros a v Hv. rewrite N.shiftl_mul_pow2.
    rewrite <- N.lxor_lor, <- N.add_nocarry_lxor; try reflexivity;
      (apply N.bits_inj; intro k; rewrite N.land_spec, N.bits_0;
       destruct (N.lt_ge_cases k f) as [Hk|Hk];
       [rewrite N.mul_pow2_bits_low by assumption; reflexivity|
        assert (Hvk : N.testbit v k = false);
        [destruct (N.eq_dec v 0) as [->|Hnz]; [apply N.bits_0|apply N.bits_above_log2; apply N.log2_lt_pow2 in Hv; lia]|
         rewrite Hvk; apply Bool.andb_false_r]]).
  Qed.

  Lemma cb_step_inv : forall p st v, inv p st -> v < 2 ^ f -> inv (p ++ [v]) (cb_step f t st v).
  Proof.
    intros p [[acc bits] out] v (Hb & Hout & Hlen & Hval) Hv. unfold cb_step.
    set (acc' := N.land (N.lor (N.shiftl acc f) v) (N.ones (f + t - 1))).
    assert (Eacc : acc' = (acc * 2 ^ f + v) mod 2 ^ (f + t - 1)) by (unfold acc'; rewrite N.land_ones, lor_shift_add by assumption; reflexivity).
    destruct (cb_emit_spec (S (N.to_nat f)) acc' (bits + f) out) as (bits' & out' & E & H1 & H2 & H3 & H4).
    { rewrite Nat2N.inj_succ, N2Nat.id. nia. }
    { assumption. }
    rewrite E. unfold inv. split; [assumption|]. split; [assumption|]. split.
    - rewrite H3, app_length. cbn [length]. rewrite Nat2N.inj_add. cbn [N.of_nat]. lia.
    - rewrite H4, val_snoc, Hval, Eacc.
      rewrite mod_mod_le by lia. rewrite mod_shift_in by assumption.
      rewrite N.pow_add_r. lia.
  Qed.

  Lemma fold_inv : forall l p st, inv p st -> digits_ok f l -> inv (p ++ l) (fold_left (cb_step f t) l st).
  Proof.
    induction l as [|v l IH]; intros p st Hi Hl; simpl.
    - rewrite app_nil_r. assumption.
    - inversion Hl; subst. replace (p ++ v :: l) with ((p ++ [v]) ++ l) by (rewrite <- app_assoc; reflexivity).
      apply IH; [|assumption]. apply cb_step_inv; assumption.
  Qed.

  Lemma inv_init : inv [] (0, 0, []).
  Proof. unfold inv. simpl. repeat split; try lia; try constructor. Qed.

  Lemma fold_final : forall l, digits_ok f l -> inv l (fold_left (cb_step f t) l (0, 0, [])).
  Proof. intros l Hl. apply (fold_inv l [] _ inv_init Hl). Qed.
End Conv.

(* uniqueness of fixed-length base-2^w representations *)
Lemma val_bound : forall w l, Forall (fun v => v < 2 ^ w) l -> val w l < 2 ^ (w * N.of_nat (length l)).
Proof.
  intros w l. induction l as [|v l IH] using rev_ind; intros H.
  - simpl. rewrite N.mul_0_r. reflexivity.
  - apply Forall_app in H. destruct H as [Hl Hv]. inversion Hv; subst.
    rewrite val_snoc, app_length. cbn [length]. rewrite Nat2N.inj_add. cbn [N.of_nat].
    rewrite N.mul_add_distr_l, N.mul_1_r, N.pow_add_r. specialize (IH Hl).
    pose proof (pow2_pos w). nia.
Qed.

Lemma val_inj : forall w l1 l2, length l1 = length l2 ->
  Forall (fun v => v < 2 ^ w) l1 -> Forall (fun v => v < 2 ^ w) l2 -> val w l1 = val w l2 -> l1 = l2.
Proof.
  intros w l1. induction l1 as [|v1 l1 IH] using rev_ind; intros l2 Hlen H1 H2 E.
  - destruct l2; [reflexivity|discriminate].
  - destruct l2 as [|x l2'] using rev_ind; [rewrite app_length in Hlen; simpl in Hlen; lia|]. clear IHl2'.
    rewrite !app_length in Hlen. cbn [length] in Hlen.
    apply Forall_app in H1. destruct H1 as [H1 Hv1]. inversion Hv1; subst.
    apply Forall_app in H2. destruct H2 as [H2 Hv2]. inversion Hv2; subst.
    rewrite !val_snoc in E.
    assert (Ev : v1 = x).
    { apply (f_equal (fun z => z mod 2 ^ w)) in E.
      rewrite !(N.add_comm (_ * 2 ^ w)), !N.mod_add in E by apply pow2_nz. rewrite !N.mod_small in E by assumption. exact E. }
    subst x. f_equal. apply IH; try assumption; try lia.
    pose proof (pow2_pos w). nia.
Qed.

(* ---------------------------------------------------------------------------------------------- *)
Definition bytes_ok (l : list N) : Prop := Forall (fun b => b < 256) l.
Definition syms5_ok (l : list N) : Prop := Forall (fun b => b < 32) l.

Lemma last_group : forall acc b w, b <= w -> N.land (N.shiftl acc (w - b)) (N.ones w) = (acc mod 2 ^ b) * 2 ^ (w - b).
Proof.
  intros acc b w H. rewrite N.land_ones, N.shiftl_mul_pow2.
  pose proof (mod_shift_in acc 0 b (w - b) (pow2_pos _)) as E. rewrite !N.add_0_r in E.
  replace (b + (w - b)) with w in E by lia. exact E.
Qed.

Lemma cancel_scaled : forall a b r m, 0 < m -> r < m -> a * m = b * m + r -> a = b /\ r = 0.
Proof. intros a b r m Hm Hr E. assert (a = b) by nia. subst. split; [reflexivity|lia]. Qed.

(* ConvertBits<8, 5, true> never fails; its output has ceil(8n/5) symbols whose value is the input value shifted
   left by the number of padding bits (0..4) *)
Theorem convert_8_5_spec : forall l, bytes_ok l ->
  exists o pad, convert_bits 8 5 true l = Some o /\ syms5_ok o /\ pad < 5 /\
    5 * N.of_nat (length o) = 8 * N.of_nat (length l) + pad /\ val 5 o = val 8 l * 2 ^ pad.
Proof.
  intros l Hl. pose proof (fold_final 8 5 ltac:(reflexivity) ltac:(reflexivity) l Hl) as I.
  unfold convert_bits. destruct (fold_left (cb_step 8 5) l (0, 0, [])) as [[acc bits] out].
  destruct I as (Hb & Hout & Hlen & Hval).
  destruct (N.eqb_spec bits 0) as [->|Hnz].
  - exists (rev out), 0. split; [reflexivity|]. split; [apply Forall_rev; exact Hout|]. split; [reflexivity|].
    rewrite rev_length. split; [lia|]. rewrite Hval. change (2 ^ 0) with 1. rewrite N.mod_1_r. lia.
  - exists (rev (N.land (N.shiftl acc (5 - bits)) (N.ones 5) :: out)), (5 - bits).
    split; [reflexivity|]. rewrite last_group by lia.
    assert (Hlast : (acc mod 2 ^ bits) * 2 ^ (5 - bits) < 2 ^ 5).
    { replace 5 with (bits + (5 - bits)) at 2 by lia. rewrite N.pow_add_r.
      apply N.mul_lt_mono_pos_r; [apply pow2_pos|]. apply N.mod_lt. apply pow2_nz. }
    split; [apply Forall_rev; constructor; assumption|]. split; [lia|].
    rewrite rev_length. cbn [length rev]. rewrite Nat2N.inj_succ. split; [lia|].
    rewrite val_snoc, Hval.
    replace (2 ^ 5) with (2 ^ bits * 2 ^ (5 - bits)) by (rewrite <- N.pow_add_r; f_equal; lia). lia.
Qed.

Corollary convert_8_5_total : forall l, bytes_ok l ->
  exists o, convert_bits 8 5 true l = Some o /\ syms5_ok o /\ length o = ((8 * length l + 4) / 5)%nat.
Proof.
  intros l Hl. destruct (convert_8_5_spec l Hl) as (o & pad & E & Ho & Hp & Hlen & _).
  exists o. repeat split; auto.
  assert (H : (5 * length o = 8 * length l + N.to_nat pad)%nat) by lia.
  assert (Hp' : (N.to_nat pad < 5)%nat) by lia.
  apply Nat.div_unique with (4 - N.to_nat pad)%nat; lia.
Qed.

(* the 8 -> 5 -> 8 round trip, for every byte string *)
Theorem convert_5_8_of_8_5 : forall l o, bytes_ok l -> convert_bits 8 5 true l = Some o -> convert_bits 5 8 false o = Some l.
Proof.
  intros l o Hl E. destruct (convert_8_5_spec l Hl) as (o' & pad & E' & Ho & Hp & Hlen & Hval).
  rewrite E in E'. injection E' as <-.
  pose proof (fold_final 5 8 ltac:(reflexivity) ltac:(reflexivity) o Ho) as I.
  unfold convert_bits. destruct (fold_left (cb_step 5 8) o (0, 0, [])) as [[acc bits] out].
  destruct I as (Hb & Hout & Hlen2 & Hval2).
  assert (Hbits : bits = pad /\ length out = length l) by lia. destruct Hbits as [-> Hlo].
  rewrite Hval in Hval2.
  destruct (cancel_scaled (val 8 l) (val 8 (rev out)) (acc mod 2 ^ pad) (2 ^ pad) (pow2_pos _)
              (N.mod_lt _ _ (pow2_nz _)) Hval2) as [Ev Er].
  rewrite last_group by lia. rewrite Er, N.mul_0_l.
  destruct (N.leb_spec 5 pad); [lia|]. cbn [orb negb N.eqb].
  f_equal. symmetry. apply (val_inj 8); auto.
  - rewrite rev_length. lia.
  - apply Forall_rev. exact Hout.
Qed.

(* what ConvertBits<5, 8, false> accepts: fewer than 5 left-over bits, all zero; then re-encoding the bytes gives
   back the very same symbols (so two different symbol strings never convert to the same bytes) *)
Theorem convert_5_8_canonical : forall v b, syms5_ok v -> convert_bits 5 8 false v = Some b ->
  bytes_ok b /\ N.of_nat (length b) = 5 * N.of_nat (length v) / 8 /\ convert_bits 8 5 true b = Some v.
Proof.
  intros v b Hv E.
  pose proof (fold_final 5 8 ltac:(reflexivity) ltac:(reflexivity) v Hv) as I.
  unfold convert_bits in E. destruct (fold_left (cb_step 5 8) v (0, 0, [])) as [[acc bits] out].
  destruct I as (Hb & Hout & Hlen & Hval).
  destruct (N.leb_spec 5 bits) as [|Hb5]; [discriminate|]. cbn [orb] in E.
  rewrite last_group in E by lia.
  destruct (N.eqb_spec ((acc mod 2 ^ bits) * 2 ^ (8 - bits)) 0) as [Ez|]; [|discriminate].
  cbn [negb] in E. injection E as <-.
  assert (Er : acc mod 2 ^ bits = 0) by (pose proof (pow2_pos (8 - bits)); nia).
  rewrite Er, N.add_0_r in Hval.
  assert (Hbo : bytes_ok (rev out)) by (apply Forall_rev; exact Hout).
  split; [exact Hbo|]. rewrite rev_length in *. split.
  - apply N.div_unique with bits; lia.
  - destruct (convert_8_5_spec (rev out) Hbo) as (o & pad & Eo & Ho & Hp & Hlo & Hvo).
    rewrite Eo. f_equal. rewrite rev_length in Hlo.
    assert (Hpb : pad = bits /\ length o = length v) by lia. destruct Hpb as [-> Hl].
    apply (val_inj 5); auto. rewrite Hvo, Hval. reflexivity.
Qed.
