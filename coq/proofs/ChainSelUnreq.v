(* ChainSel: the unrequested-block rule of AcceptBlock (C58). *)
From BV Require Import lib.Ints gen.Params_gen model.ChainSel proofs.ChainSelBase proofs.ChainSelFrame proofs.ChainSelInv
  proofs.ChainSelDeliver proofs.ChainSelAccept proofs.ChainSelFmw proofs.ChainSelActivate proofs.ChainSelMain.
Local Open Scope Z_scope.
#[local] Arguments Z.eqb : simpl never.
#[local] Arguments Z.ltb : simpl never.
#[local] Arguments Z.gtb : simpl never.
#[local] Arguments Z.geb : simpl never.
#[local] Arguments Z.leb : simpl never.
#[local] Arguments Z.add : simpl never.
#[local] Arguments Z.sub : simpl never.

(* ---------------------------------------------------------------------------------------------- *)
(* BLOCK_HAVE_DATA is only ever set by ReceivedBlockTransactions: none of the other primitives touches it *)
Section Data.
Variable parent_of : id -> id.
Variable kind_of : id -> kind.

Lemma remove_data p t ra : forall s, st_data (fmwc_remove parent_of s p t ra) = st_data s.
Proof.
  induction p as [|x r IH]; intros s; cbn [fmwc_remove]; [reflexivity|].
  destruct (x =? t); [reflexivity|]. rewrite IH. destruct ra; [rewrite st_data_erase_cand, st_data_add_unlinked|]; reflexivity.
Qed.
Lemma fmw_data fuel : forall s, st_data (fst (find_most_work parent_of s fuel)) = st_data s.
Proof.
  induction fuel as [|f IH]; intros s; cbn [find_most_work]; [reflexivity|].
  destruct (best_cand s); [|reflexivity]. destruct (fmwc_walk s (path s i)) as [[[t ff] fm]|]; [|reflexivity].
  rewrite IH. rewrite st_data_erase_cand. apply remove_data.
Qed.
Lemma connect_data p top : forall s, st_data (fst (connect_path kind_of s p top)) = st_data s.
Proof.
  induction p as [|x r IH]; intros s; cbn [connect_path]; [reflexivity|].
  destruct (kind_of x); try reflexivity; rewrite IH; reflexivity.
Qed.
Lemma abc_loop_data fuel : forall s, st_data (activate_best_chain_loop parent_of kind_of s fuel) = st_data s.
Proof.
  induction fuel as [|f IH]; intros s; cbn [activate_best_chain_loop]; [reflexivity|].
  unfold find_most_work_chain. pose proof (fmw_data (S (length (st_cands s))) s) as H.
  destruct (find_most_work parent_of s (S (length (st_cands s)))) as [s1 mw]. cbn [fst] in H.
  destruct mw as [w|]; [|assumption]. destruct (w =? st_tip s1); [assumption|].
  destruct (find_fork s1 (path s1 w)) as [fork|]; [|assumption].
  pose proof (connect_data (rev (path_above (path s1 w) fork)) w (set_tip s1 fork)) as H2.
  destruct (connect_path kind_of (set_tip s1 fork) (rev (path_above (path s1 w) fork)) w) as [s3 inv]. cbn [fst] in H2.
  destruct inv; [rewrite IH|]; rewrite H2; exact H.
Qed.
Lemma abc_data s : st_data (activate_best_chain parent_of kind_of s) = st_data s.
Proof. apply abc_loop_data. Qed.

Lemma rbt_queue_data fuel : forall s q, st_data (rbt_queue s q fuel) = st_data s.
Proof.
  induction fuel as [|f IH]; intros s q; cbn [rbt_queue]; [reflexivity|]. destruct q as [|x q]; [reflexivity|].
  rewrite IH. unfold try_add_candidate. ssimpl. destruct (worse _ _ _); reflexivity.
Qed.
Lemma rbt_data s b : st_data (received_block_transactions parent_of s b) b = true.
Proof.
  unfold received_block_transactions. destruct ((b =? GENESIS) || _).
  - rewrite rbt_queue_data. ssimpl. apply upd_same.
  - destruct (negb _); [rewrite st_data_add_unlinked|]; ssimpl; apply upd_same.
Qed.
End Data.

Section Unreq.
Variable parent_of : id -> id.
Variable proof_of : id -> Z.
Variable kind_of : id -> kind.
Hypothesis proof_pos : forall b, 0 < proof_of b.
Hypothesis genesis_valid : kind_of GENESIS = KValid.
Set Default Proof Using "All".

Notation Inv := (Inv parent_of proof_of kind_of).
Notation Good := (Good parent_of proof_of kind_of).

(* AcceptBlockHeader returns true exactly when the header is acceptable *)
Lemma header_ok_iff s b : snd (accept_block_header parent_of proof_of s b) = HOk <-> header_acceptable parent_of s b = true.
Proof.
  unfold accept_block_header, header_acceptable. destruct (b =? GENESIS); cbn [orb snd]; [tauto|].
  destruct (known s b).
  - destruct (st_failed s b); cbn [snd negb]; split; congruence.
  - destruct (known s (parent_of b)); cbn [negb snd andb]; [|split; congruence].
    destruct (st_failed s (parent_of b)); cbn [snd negb]; split; congruence.
Qed.

(* delivering the same header twice is the same as delivering it once *)
Lemma accept_header_idem s b s' : accept_block_header parent_of proof_of s b = (s', HOk) ->
  accept_block_header parent_of proof_of s' b = (s', HOk).
Proof.
  unfold accept_block_header. destruct (b =? GENESIS) eqn:Eg.
  - intros H. injection H as <-. reflexivity.
  - destruct (known s b) eqn:Ek.
    + destruct (st_failed s b) eqn:Ef; intros H; [discriminate|]. injection H as <-. rewrite Ek, Ef. reflexivity.
    + destruct (known s (parent_of b)); cbn [negb]; [|discriminate].
      destruct (st_failed s (parent_of b)); [discriminate|]. intros H. injection H as <-.
      assert (K : known (add_to_block_index parent_of proof_of s b) b = true).
      { unfold known, add_to_block_index. ssimpl. cbn [get_hdr h_id]. rewrite Z.eqb_refl. reflexivity. }
      assert (F : st_failed (add_to_block_index parent_of proof_of s b) b = false).
      { unfold add_to_block_index. ssimpl. apply upd_same. }
      rewrite K, F. reflexivity.
Qed.

(* nChainWork and nHeight of the entry, and the tip's, after an accepted header *)
Lemma header_facts s b s' : Inv s -> accept_block_header parent_of proof_of s b = (s', HOk) ->
  work s' b = work_of_block parent_of proof_of s b /\ height s' b = height_of_block parent_of s b /\
  st_tip s' = st_tip s /\ work s' (st_tip s') = work s (st_tip s) /\ height s' (st_tip s') = height s (st_tip s) /\
  st_min_work s' = st_min_work s /\ (st_data s b = false -> st_data s' b = false).
Proof.
  intros HI. unfold accept_block_header, work_of_block, height_of_block. destruct (b =? GENESIS) eqn:Eg.
  - intros H. injection H as <-. apply Z.eqb_eq in Eg. subst b. rewrite (iknown_genesis _ _ _ proof_pos _ HI). repeat split; auto.
  - destruct (known s b) eqn:Ek.
    + destruct (st_failed s b); intros H; [discriminate|]. injection H as <-. repeat split; auto.
    + destruct (known s (parent_of b)) eqn:Ekp; cbn [negb]; [|discriminate].
      destruct (st_failed s (parent_of b)) eqn:Efp; [discriminate|]. intros H. injection H as <-.
      assert (Ng : b <> GENESIS) by (intros E; rewrite E, Z.eqb_refl in Eg; discriminate).
      assert (Nt : st_tip s <> b) by (intros E; rewrite <- E, (i_tip_known _ _ _ _ HI) in Ek; discriminate).
      pose proof (add_path_self _ _ _ proof_pos s b HI Ek Ekp Ng Efp) as Hp.
      pose proof (add_path_other _ _ _ proof_pos s b HI Ek Ekp Ng Efp _ Nt) as Hpt.
      pose proof (add_work_other _ _ _ proof_pos s b HI Ek Ekp Ng Efp _ Nt) as Hwt.
      destruct (add_flags_self _ _ _ proof_pos s b HI Ek Ekp Ng Efp) as [Hd _].
      change (st_tip (add_to_block_index parent_of proof_of s b)) with (st_tip s).
      split.
      { unfold work at 1, add_to_block_index. ssimpl. cbn [get_hdr h_id]. rewrite Z.eqb_refl. reflexivity. }
      split.
      { unfold height. rewrite Hp. cbn [length]. lia. }
      split; [reflexivity|]. split; [assumption|]. split; [unfold height; rewrite Hpt; reflexivity|]. split; [reflexivity|].
      intros _. exact Hd.
Qed.

Lemma drop_cond_iff w h wt ht mw :
  negb (w >=? wt) || (h >? ht + CHAINSEL_MIN_BLOCKS_TO_KEEP) || (w <? mw) = negb (store_cond w h wt ht mw).
Proof.
  unfold store_cond.
  destruct (Z.geb_spec w wt); destruct (Z.gtb_spec h (ht + CHAINSEL_MIN_BLOCKS_TO_KEEP));
    destruct (Z.ltb_spec w mw); destruct (Z.leb_spec h (ht + CHAINSEL_MIN_BLOCKS_TO_KEEP)); destruct (Z.geb_spec w mw);
    cbn; try reflexivity; lia.
Qed.

(* ---------------------------------------------------------------------------------------------- *)
(* stored_iff: an unrequested block that is not stored yet gets BLOCK_HAVE_DATA iff ... *)
Theorem unrequested_stored_iff s b : Good s -> st_data s b = false ->
  (st_data (fst (process_new_block parent_of proof_of kind_of s b false)) b = true <->
   header_acceptable parent_of s b = true /\ passes_checks kind_of b = true /\
   unrequested_store_cond s (work_of_block parent_of proof_of s b) (height_of_block parent_of s b) = true).
Proof.
  intros HG Hd. pose proof HG as [HI [HC HQ]].
  unfold process_new_block, passes_checks.
  destruct (kind_of b) eqn:Ek.
  4:{ cbn [fst]. rewrite Hd. split; [discriminate|]. intros [_ [H _]]. discriminate. }
  all: unfold accept_block; rewrite <- (header_ok_iff s b);
    pose proof (accept_header_spec parent_of proof_of kind_of proof_pos s b HI HC) as HS;
    destruct (accept_block_header parent_of proof_of s b) as [s' hr] eqn:Eh; cbn [snd];
    destruct HS as [HI' [HC' [Ecs [Etip [Hne Hok]]]]];
    (destruct hr; [|rewrite (Hne ltac:(discriminate)); cbn [fst]; rewrite Hd; split; [discriminate|intros [H _]; discriminate]..]);
    destruct (header_facts s b s' HI Eh) as [Ew [Ehh [Et [Ewt [Eht [Emw Hdd]]]]]];
    rewrite (Hdd Hd); cbn [negb andb orb]; rewrite Ew, Ehh, Ewt, Eht, Emw, drop_cond_iff;
    unfold unrequested_store_cond;
    destruct (store_cond (work_of_block parent_of proof_of s b) (height_of_block parent_of s b) (work s (st_tip s))
                         (height s (st_tip s)) (st_min_work s)) eqn:Ec; cbn [negb]; rewrite ?Ek; cbn [fst].
  - rewrite abc_data, rbt_data. tauto.
  - assert (HG' : Good s') by (split; [assumption|split; [assumption|intros c Hc; rewrite Ecs in Hc; rewrite Etip; apply HQ; assumption]]).
    rewrite (abc_id parent_of proof_of kind_of proof_pos s' HG'), (Hdd Hd). split; [discriminate|intros [_ [_ H]]; discriminate].
  - rewrite abc_data, rbt_data. tauto.
  - assert (HG' : Good s') by (split; [assumption|split; [assumption|intros c Hc; rewrite Ecs in Hc; rewrite Etip; apply HQ; assumption]]).
    rewrite (abc_id parent_of proof_of kind_of proof_pos s' HG'), (Hdd Hd). split; [discriminate|intros [_ [_ H]]; discriminate].
  - cbn [fst]. change (st_data (invalid_block_found s' b false) b) with (st_data s' b). rewrite (Hdd Hd).
    split; [discriminate|intros [_ [H _]]; discriminate].
  - assert (HG' : Good s') by (split; [assumption|split; [assumption|intros c Hc; rewrite Ecs in Hc; rewrite Etip; apply HQ; assumption]]).
    rewrite (abc_id parent_of proof_of kind_of proof_pos s' HG'), (Hdd Hd). split; [discriminate|intros [_ [H _]]; discriminate].
Qed.

(* dropped_leaves_no_trace: when the header is acceptable, CheckBlock passes and the condition fails, the result
   is EXACTLY the state after delivering the header alone: no data, no failure flag, nothing else changed *)
Theorem unrequested_dropped_is_header_only s b : Good s -> st_data s b = false ->
  header_acceptable parent_of s b = true -> kind_of b <> KBadCheck ->
  unrequested_store_cond s (work_of_block parent_of proof_of s b) (height_of_block parent_of s b) = false ->
  process_new_block parent_of proof_of kind_of s b false = (fst (process_new_block_header parent_of proof_of s b), BOkOld) /\
  st_data (fst (process_new_block_header parent_of proof_of s b)) b = false /\
  st_failed (fst (process_new_block_header parent_of proof_of s b)) b = false /\
  (known s b = true -> fst (process_new_block_header parent_of proof_of s b) = s) /\
  (known s b = false -> fst (process_new_block_header parent_of proof_of s b) = add_to_block_index parent_of proof_of s b).
Proof.
  intros HG Hd Hh Hk Hc. pose proof HG as [HI [HC HQ]].
  apply (header_ok_iff s b) in Hh. unfold process_new_block_header.
  pose proof (accept_header_spec parent_of proof_of kind_of proof_pos s b HI HC) as HS.
  destruct (accept_block_header parent_of proof_of s b) as [s' hr] eqn:Eh. cbn [snd] in Hh. subst hr. cbn [fst].
  destruct HS as [HI' [HC' [Ecs [Etip [_ Hok]]]]]. destruct (Hok eq_refl) as [Hkb [Hfb [Hsame Hnew]]].
  destruct (header_facts s b s' HI Eh) as [Ew [Ehh [Et [Ewt [Eht [Emw Hdd]]]]]].
  assert (HG' : Good s') by (split; [assumption|split; [assumption|intros c Hcc; rewrite Ecs in Hcc; rewrite Etip; apply HQ; assumption]]).
  split.
  - unfold process_new_block. assert (Eacc : accept_block parent_of proof_of kind_of s b false = (s', BOkOld)).
    { unfold accept_block. rewrite Eh, (Hdd Hd). cbn [negb andb orb].
      rewrite Ew, Ehh, Ewt, Eht, Emw, drop_cond_iff. unfold unrequested_store_cond in Hc. rewrite Hc. reflexivity. }
    rewrite Eacc. rewrite (abc_id parent_of proof_of kind_of proof_pos s' HG').
    destruct (kind_of b); try reflexivity. contradiction.
  - split; [apply Hdd; assumption|]. split; [assumption|]. split; [assumption|]. intros H. apply (Hnew H).
Qed.

(* later_requested_accepts: after a dropped unrequested delivery, the requested delivery of the same block gives
   exactly the state and the result it would have given had the unrequested delivery never happened *)
Theorem requested_after_dropped s b : Good s -> st_data s b = false ->
  header_acceptable parent_of s b = true -> kind_of b <> KBadCheck ->
  unrequested_store_cond s (work_of_block parent_of proof_of s b) (height_of_block parent_of s b) = false ->
  process_new_block parent_of proof_of kind_of (fst (process_new_block parent_of proof_of kind_of s b false)) b true =
  process_new_block parent_of proof_of kind_of s b true.
Proof.
  intros HG Hd Hh Hk Hc.
  destruct (unrequested_dropped_is_header_only s b HG Hd Hh Hk Hc) as [E _]. rewrite E. cbn [fst].
  apply (header_ok_iff s b) in Hh. unfold process_new_block_header.
  destruct (accept_block_header parent_of proof_of s b) as [s' hr] eqn:Eh. cbn [snd] in Hh. subst hr. cbn [fst].
  unfold process_new_block, accept_block. rewrite Eh, (accept_header_idem s b s' Eh).
  destruct (kind_of b) eqn:Ek; try reflexivity. congruence.
Qed.

(* ... and so does every later history: a dropped unrequested delivery is a header delivery *)
Theorem dropped_is_header_in_any_history s b ops : Good s -> st_data s b = false ->
  header_acceptable parent_of s b = true -> kind_of b <> KBadCheck ->
  unrequested_store_cond s (work_of_block parent_of proof_of s b) (height_of_block parent_of s b) = false ->
  run parent_of proof_of kind_of s (OpBlock b false :: ops) = run parent_of proof_of kind_of s (OpHeader b :: ops).
Proof.
  intros HG Hd Hh Hk Hc. cbn [run fold_left apply_op].
  destruct (unrequested_dropped_is_header_only s b HG Hd Hh Hk Hc) as [E _]. rewrite E. reflexivity.
Qed.

(* a block that fails CheckBlock never reaches the index, requested or not *)
Theorem badcheck_leaves_no_trace s b rq : kind_of b = KBadCheck ->
  process_new_block parent_of proof_of kind_of s b rq = (s, BFail).
Proof. intros E. unfold process_new_block. rewrite E. reflexivity. Qed.

(* ---------------------------------------------------------------------------------------------- *)
(* the statements of props/Properties_C58.v, over all histories from genesis *)
Notation run0 mw ops := (run parent_of proof_of kind_of (genesis_state proof_of mw) ops).

Theorem c58_unrequested_stored_iff mw ops b : let s := run0 mw ops in
  st_data s b = false ->
  let wb := work_of_block parent_of proof_of s b in
  let hb := height_of_block parent_of s b in
  (st_data (fst (process_new_block parent_of proof_of kind_of s b false)) b = true <->
   header_acceptable parent_of s b = true /\ passes_checks kind_of b = true /\
   (wb >= work s (st_tip s) /\ hb <= height s (st_tip s) + CHAINSEL_MIN_BLOCKS_TO_KEEP /\ wb >= st_min_work s)).
Proof.
  intros s Hd wb hb.
  rewrite (unrequested_stored_iff s b (reachable_good parent_of proof_of kind_of proof_pos genesis_valid mw s (ex_intro _ ops eq_refl)) Hd).
  unfold unrequested_store_cond, store_cond. fold wb hb.
  destruct (Z.geb_spec wb (work s (st_tip s))); destruct (Z.leb_spec hb (height s (st_tip s) + CHAINSEL_MIN_BLOCKS_TO_KEEP));
    destruct (Z.geb_spec wb (st_min_work s)); cbn [andb]; intuition (try lia; try discriminate).
Qed.

Theorem c58_dropped_leaves_no_trace mw ops b : let s := run0 mw ops in
  st_data s b = false -> header_acceptable parent_of s b = true -> kind_of b <> KBadCheck ->
  unrequested_store_cond s (work_of_block parent_of proof_of s b) (height_of_block parent_of s b) = false ->
  let sh := fst (process_new_block_header parent_of proof_of s b) in
  process_new_block parent_of proof_of kind_of s b false = (sh, BOkOld) /\
  st_data sh b = false /\ st_failed sh b = false /\
  (known s b = true -> sh = s) /\ (known s b = false -> sh = add_to_block_index parent_of proof_of s b).
Proof.
  intros s Hd Hh Hk Hc.
  exact (unrequested_dropped_is_header_only s b (reachable_good parent_of proof_of kind_of proof_pos genesis_valid mw s (ex_intro _ ops eq_refl)) Hd Hh Hk Hc).
Qed.

Theorem c58_later_requested_delivery_unaffected mw ops b : let s := run0 mw ops in
  st_data s b = false -> header_acceptable parent_of s b = true -> kind_of b <> KBadCheck ->
  unrequested_store_cond s (work_of_block parent_of proof_of s b) (height_of_block parent_of s b) = false ->
  process_new_block parent_of proof_of kind_of (fst (process_new_block parent_of proof_of kind_of s b false)) b true =
  process_new_block parent_of proof_of kind_of s b true /\
  forall later, run parent_of proof_of kind_of s (OpBlock b false :: later) = run parent_of proof_of kind_of s (OpHeader b :: later).
Proof.
  intros s Hd Hh Hk Hc.
  pose proof (reachable_good parent_of proof_of kind_of proof_pos genesis_valid mw s (ex_intro _ ops eq_refl)) as HG.
  split; [exact (requested_after_dropped s b HG Hd Hh Hk Hc)|].
  intros later. exact (dropped_is_header_in_any_history s b later HG Hd Hh Hk Hc).
Qed.

End Unreq.

(* the window of the property text; the constant is printed from the compiled tree *)
Lemma c58_window : CHAINSEL_MIN_BLOCKS_TO_KEEP = 288.
Proof. reflexivity. Qed.
