(* C13: the real location function (SignatureCacheHasher + FastRange32) satisfies the premises of the
   cuckoo lemmas; fresh caches satisfy the invariants; concrete witnesses that the premises of the
   transparency theorem are needed. *)
From Coq Require Import NArith.
From BV Require Import lib.Ints model.ValCache proofs.ValCacheLemmas.
Local Open Scope Z_scope.

Lemma compute_hashes_len size e : length (compute_hashes size e) = 8%nat.
Proof. reflexivity. Qed.

Lemma fast_range32_lt x n : 0 <= x < 2 ^ 32 -> 0 < n < 2 ^ 32 -> 0 <= fast_range32 x n < n.
Proof.
  intros Hx Hn. unfold fast_range32. rewrite wrapu64_id.
  - rewrite Z.shiftr_div_pow2 by lia. change (2 ^ 32) with 4294967296 in *.
    split; [apply Z.div_pos; nia|]. apply Z.div_lt_upper_bound; nia.
  - unfold UINT64_MAX. change (2 ^ 32) with 4294967296 in *. nia.
Qed.

Lemma hash_word_range k e : 0 <= hash_word k e < 2 ^ 32.
Proof. unfold hash_word. apply Z.mod_pos_bound. reflexivity. Qed.

Lemma compute_hashes_in_range size e : 2 <= size < 2 ^ 32 ->
  Forall (fun l => (l < Z.to_nat size)%nat) (compute_hashes size e).
Proof.
  intros Hs. unfold compute_hashes. apply Forall_map. apply Forall_forall. intros k _.
  pose proof (fast_range32_lt (hash_word k e) size (hash_word_range k e) ltac:(lia)). lia.
Qed.

Lemma setup_table_length n : length (cu_table (cuckoo_setup n)) = Z.to_nat (Z.max 2 n).
Proof. unfold cuckoo_setup. cbn [cu_table]. apply repeat_length. Qed.

Lemma setup_locs_ok n : 2 <= n < 2 ^ 32 -> locs_ok (compute_hashes n) (cuckoo_setup n).
Proof.
  intros Hn e. rewrite setup_table_length. replace (Z.max 2 n) with n by lia. apply compute_hashes_in_range. exact Hn.
Qed.

(* the cache model is total on the real location function: no operation sequence leaves the table *)
Lemma run_total_gen n (Hn : 2 <= n < 2 ^ 32) ops : forall c, cu_wf c -> length (cu_table c) = Z.to_nat n ->
  cuckoo_run (compute_hashes n) c ops <> None.
Proof.
  induction ops as [|op r IH]; intros c W L; cbn [cuckoo_run]; [discriminate|].
  assert (Hl : locs_ok (compute_hashes n) c) by (intros e; rewrite L; apply compute_hashes_in_range; exact Hn).
  destruct op as [e|e er].
  - destruct (insert_total (compute_hashes n) (compute_hashes_len n) c e W Hl) as (c1 & E & W1 & L1). rewrite E.
    specialize (IH c1 W1 ltac:(lia)). destruct (cuckoo_run (compute_hashes n) c1 r) as [[o c2]|]; [discriminate | contradiction].
  - destruct (cuckoo_contains (compute_hashes n) c e er) as [b c1] eqn:Ec.
    assert (E1 : c1 = snd (cuckoo_contains (compute_hashes n) c e er)) by (rewrite Ec; reflexivity).
    specialize (IH c1). destruct (cuckoo_run (compute_hashes n) c1 r) as [[o c2]|]; [discriminate|].
    apply IH; [rewrite E1; apply contains_wf; exact W | rewrite E1, contains_table; exact L].
Qed.

Theorem cuckoo_run_total n ops : 2 <= n < 2 ^ 32 -> cuckoo_run (compute_hashes n) (cuckoo_setup n) ops <> None.
Proof.
  intros Hn. apply (run_total_gen n Hn); [apply setup_wf|]. rewrite setup_table_length. f_equal. lia.
Qed.

(* fresh caches satisfy the invariant the transparency theorem starts from *)
Lemma fresh_caches_ok n (oracle : sigquery -> bool) (sigkey : sigquery -> Z)
      (T F C : Type) (is_coinbase : T -> bool) (wtxid : T -> Z) (exec_key : Z -> F -> Z) (script_runs : T -> F -> C -> list run) (committed : T -> C) :
  2 <= n < 2 ^ 32 ->
  vstate_ok (compute_hashes n) oracle sigkey T F C is_coinbase wtxid exec_key script_runs committed (mk_vstate (cuckoo_setup n) (cuckoo_setup n)).
Proof.
  intros Hn. unfold vstate_ok, sig_ok. cbn [vs_sig vs_script].
  split; [split; [apply setup_wf | split; [apply setup_locs_ok; exact Hn | apply setup_inv]]|].
  split; [apply setup_wf | split; [apply setup_locs_ok; exact Hn | apply setup_inv]].
Qed.

(* ---- concrete witnesses ---- *)
Definition w_locs : Z -> list nat := compute_hashes 2.
Definition w_oracle (_ : sigquery) : bool := true.
Definition w_sigkey (_ : sigquery) : Z := 1.
Definition w_fresh : vstate := mk_vstate (cuckoo_setup 2) (cuckoo_setup 2).

(* (a) the spent outputs are not part of the key: without the view-consistency premise P3 a cached success is
   reused for the same transaction with different spent outputs *)
Definition wa_key (w : Z) (fl : bool) : Z := 2 * w + (if fl then 1 else 0) + 1.
Definition wa_runs (t : Z) (fl : bool) (coins : bool) : list run := [Done coins].
Definition wa_history : list (vcall Z bool bool) :=
  [mk_vcall Z bool bool 5 true true true true false; mk_vcall Z bool bool 5 true false true true false].

Theorem view_consistency_needed_refuted :
  exists outs st',
    run_history w_locs w_oracle w_sigkey Z bool bool (fun _ => false) (fun t => t) wa_key wa_runs w_fresh wa_history = Some (outs, st') /\
    outs <> map (fun c => real_ok w_oracle Z bool bool (fun _ => false) wa_runs (vc_tx _ _ _ c) (vc_flags _ _ _ c) (vc_coins _ _ _ c)) wa_history.
Proof. eexists. eexists. split; [vm_compute; reflexivity | vm_compute; discriminate]. Qed.

Lemma wa_key_inj w fl w' fl' : wa_key w fl = wa_key w' fl' -> w = w' /\ fl = fl'.
Proof. unfold wa_key. destruct fl, fl'; intros E; split; (lia || reflexivity || (exfalso; lia)). Qed.

(* (b) a key that ignores the flags: a success under lenient flags is reused under strict flags, although the
   spent outputs are the committed ones *)
Definition wb_key (w : Z) (fl : bool) : Z := w + 1.
Definition wb_runs (t : Z) (strict : bool) (coins : bool) : list run := [Done (negb strict)].
Definition wb_history : list (vcall Z bool bool) :=
  [mk_vcall Z bool bool 5 false true true true false; mk_vcall Z bool bool 5 true true true true false].

Theorem flags_in_key_needed_refuted :
  exists outs st',
    Forall (fun c => vc_coins Z bool bool c = true) wb_history /\
    run_history w_locs w_oracle w_sigkey Z bool bool (fun _ => false) (fun t => t) wb_key wb_runs w_fresh wb_history = Some (outs, st') /\
    outs <> map (fun c => real_ok w_oracle Z bool bool (fun _ => false) wb_runs (vc_tx _ _ _ c) (vc_flags _ _ _ c) (vc_coins _ _ _ c)) wb_history.
Proof.
  eexists. eexists. split; [repeat constructor|]. split; [vm_compute; reflexivity | vm_compute; discriminate].
Qed.

(* a fresh table reports the all-zero element: the one false positive of the cache *)
Theorem fresh_table_contains_zero :
  fst (cuckoo_contains (compute_hashes 8) (cuckoo_setup 8) 0 false) = true /\
  cuckoo_run (compute_hashes 8) (cuckoo_setup 8) [CContains 0 false; CContains 1 false] = Some ([true; false], cuckoo_setup 8).
Proof. split; vm_compute; reflexivity. Qed.
