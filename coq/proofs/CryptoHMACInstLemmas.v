(* C49 — CHMAC_SHA256 / CHMAC_SHA512 / CHKDF_HMAC_SHA256_L32 compute RFC 2104 / RFC 5869; RFC 4231 and
   RFC 5869 test vectors pin the specifications. *)
From Coq Require Import NArith Arith.
From BV Require Import lib.Ints model.CryptoBase model.CryptoMD model.CryptoSHA256 model.CryptoSHA512
  model.CryptoHMAC model.CryptoHMACInst
  proofs.CryptoBaseLemmas proofs.CryptoMDLemmas proofs.CryptoSHA256Lemmas proofs.CryptoHashesLemmas proofs.CryptoHMACLemmas.
Local Open Scope Z_scope.

Lemma sha512_spec_length msg : length (sha512_spec msg) = 64%nat.
Proof.
  unfold sha512_spec, md_spec.
  match goal with |- length (sha512_out ?s) = _ => destruct s as [[[[[[[a b] c] d] e] f] g] h] end.
  unfold sha512_out. rewrite !app_length, !be_bytes_length. reflexivity.
Qed.

Theorem chmac_sha256_stream_eq_spec ubuf key chunks :
  length ubuf = 64%nat ->
  8 * Z.of_nat (length key) < 2 ^ 64 -> 8 * Z.of_nat (64 + length (concat chunks)) < 2 ^ 64 ->
  chmac_sha256_stream ubuf key chunks = hmac_sha256_spec key (concat chunks).
Proof.
  intros Hu Hk Hm. unfold chmac_sha256_stream, hmac_sha256_spec.
  apply (chmac_stream_eq_spec csha256 (csha256_init ubuf) csha256_write csha256_finalize 64 32 sha256_spec).
  - intros cs Hcs. apply csha256_stream_eq_spec; assumption.
  - apply sha256_spec_length.
  - lia.
  - change (2 ^ 32) with 4294967296. lia.
  - exact Hk.
  - exact Hm.
Qed.

Theorem chmac_sha512_stream_eq_spec ubuf key chunks :
  length ubuf = 128%nat ->
  8 * Z.of_nat (length key) < 2 ^ 64 -> 8 * Z.of_nat (128 + length (concat chunks)) < 2 ^ 64 ->
  chmac_sha512_stream ubuf key chunks = hmac_sha512_spec key (concat chunks).
Proof.
  intros Hu Hk Hm. unfold chmac_sha512_stream, hmac_sha512_spec.
  apply (chmac_stream_eq_spec csha512 (csha512_init ubuf) csha512_write csha512_finalize 128 64 sha512_spec).
  - intros cs Hcs. apply csha512_stream_eq_spec; assumption.
  - apply sha512_spec_length.
  - lia.
  - change (2 ^ 32) with 4294967296. lia.
  - exact Hk.
  - exact Hm.
Qed.

Theorem chkdf_sha256_l32_eq_spec ubuf ikm salt info :
  length ubuf = 64%nat ->
  8 * Z.of_nat (length salt) < 2 ^ 64 -> 8 * Z.of_nat (64 + length ikm) < 2 ^ 64 ->
  8 * Z.of_nat (64 + length info + 1) < 2 ^ 64 ->
  chkdf_sha256_l32 ubuf ikm salt info = hkdf_sha256_spec salt ikm info 32.
Proof.
  intros Hu Hs Hi Hn. unfold chkdf_sha256_l32, hkdf_sha256_spec.
  apply (chkdf_eq_spec csha256 (csha256_init ubuf) csha256_write csha256_finalize 64 32 sha256_spec).
  - intros cs Hcs. apply csha256_stream_eq_spec; assumption.
  - apply sha256_spec_length.
  - lia.
  - change (2 ^ 32) with 4294967296. lia.
  - lia.
  - exact Hs.
  - exact Hi.
  - exact Hn.
Qed.

(* ---- RFC 4231 test cases 1, 2, 6 ---- *)
Definition hi_there : list N := [72; 105; 32; 84; 104; 101; 114; 101]%N.
Definition jefe : list N := [74; 101; 102; 101]%N.
Definition what_do_ya : list N := [119; 104; 97; 116; 32; 100; 111; 32; 121; 97; 32; 119; 97; 110; 116; 32; 102; 111; 114; 32; 110; 111; 116; 104; 105; 110; 103; 63]%N.
Definition larger_key_text : list N := [84; 101; 115; 116; 32; 85; 115; 105; 110; 103; 32; 76; 97; 114; 103; 101; 114; 32; 84; 104; 97; 110; 32; 66; 108; 111; 99; 107; 45; 83; 105; 122; 101; 32; 75; 101; 121; 32; 45; 32; 72; 97; 115; 104; 32; 75; 101; 121; 32; 70; 105; 114; 115; 116]%N.

Example hmac_sha256_rfc4231_1 : be_value (hmac_sha256_spec (repeat 11%N 20) hi_there) =
  0xb0344c61d8db38535ca8afceaf0bf12b881dc200c9833da726e9376c2e32cff7.
Proof. vm_compute. reflexivity. Qed.
Example hmac_sha256_rfc4231_2 : be_value (hmac_sha256_spec jefe what_do_ya) =
  0x5bdcc146bf60754e6a042426089575c75a003f089d2739839dec58b964ec3843.
Proof. vm_compute. reflexivity. Qed.
Example hmac_sha256_rfc4231_6 : be_value (hmac_sha256_spec (repeat 170%N 131) larger_key_text) =
  0x60e431591ee0b67f0d8a26aacbf5b77f8e0bc6213728c5140546040f0ee37f54.
Proof. vm_compute. reflexivity. Qed.
Example hmac_sha512_rfc4231_1 : be_value (hmac_sha512_spec (repeat 11%N 20) hi_there) =
  0x87aa7cdea5ef619d4ff0b4241a1d6cb02379f4e2ce4ec2787ad0b30545e17cdedaa833b7d6b8a702038b274eaea3f4e4be9d914eeb61f1702e696c203a126854.
Proof. vm_compute. reflexivity. Qed.
Example hmac_sha512_rfc4231_2 : be_value (hmac_sha512_spec jefe what_do_ya) =
  0x164b7a7bfcf819e2e395fbe73b56e0a387bd64222e831fd610270cd7ea2505549758bf75c05a994a6d034f65f8f0e6fdcaeab1a34d4a6b4b636e070a38bce737.
Proof. vm_compute. reflexivity. Qed.
Example hmac_sha512_rfc4231_6 : be_value (hmac_sha512_spec (repeat 170%N 131) larger_key_text) =
  0x80b24263c7c1a3ebb71493c1dd7be8b49b46d1f41b4aeec1121b013783f8f3526b56d037e05f2598bd0fd2215d6a1e5295e64f73f63f0aec8b915a985d786598.
Proof. vm_compute. reflexivity. Qed.

(* ---- RFC 5869 appendix A.1 (L = 42: two expansion rounds) and its 32-byte prefix ---- *)
Definition rfc5869_ikm : list N := repeat 11%N 22.
Definition rfc5869_salt : list N := [0;1;2;3;4;5;6;7;8;9;10;11;12]%N.
Definition rfc5869_info : list N := [240;241;242;243;244;245;246;247;248;249]%N.
Example hkdf_rfc5869_a1_prk : be_value (hkdf_extract_spec sha256_spec 64 rfc5869_salt rfc5869_ikm) =
  0x077709362c2e32df0ddc3f0dc47bba6390b6c73bb50f9c3122ec844ad7c2b3e5.
Proof. vm_compute. reflexivity. Qed.
Example hkdf_rfc5869_a1_okm : be_value (hkdf_sha256_spec rfc5869_salt rfc5869_ikm rfc5869_info 42) =
  0x3cb25f25faacd57a90434f64d0362f2a2d2d0a90cf1a5a4c5db02d56ecc4c5bf34007208d5b887185865.
Proof. vm_compute. reflexivity. Qed.
Example chkdf_rfc5869_a1_32 : be_value (chkdf_sha256_l32 (zeros 64) rfc5869_ikm rfc5869_salt rfc5869_info) =
  0x3cb25f25faacd57a90434f64d0362f2a2d2d0a90cf1a5a4c5db02d56ecc4c5bf.
Proof. vm_compute. reflexivity. Qed.
