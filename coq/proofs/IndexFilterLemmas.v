(* C21 part C: BlockFilterIndex — after any history of CustomAppend / CustomRemove that follows a block
   tree, the index returns for every block of the current chain its filter hash and the BIP157 filter
   header chained over the chain up to that block (header_i = Hash(filter_hash_i || header_{i-1})). *)
From Coq Require Import NArith.
From BV Require Import lib.Ints model.CryptoBase model.CryptoSHA256 model.Index model.IndexFilter proofs.IndexCoinStatsHist.
Local Open Scope Z_scope.

Definition links_wf (c : list block) : Prop :=
  (forall k b, nth_error c k = Some b -> b_height b = Z.of_nat k) /\
  (forall k a b, nth_error c k = Some a -> nth_error c (S k) = Some b -> b_prev b = b_hash a).

Lemma links_wf_prefix c b : links_wf (c ++ [b]) -> links_wf c.
Proof.
  intros [Hh Hl]. split.
  - intros k a Ha. apply Hh. rewrite nth_error_app1; [ exact Ha | apply nth_error_Some; congruence ].
  - intros k a a' Ha Ha'. apply (Hl k); rewrite nth_error_app1; try assumption; apply nth_error_Some; congruence.
Qed.

Lemma chain_filter_header_snoc c b : chain_filter_header (c ++ [b]) = filter_header (b_filter_hash b) (chain_filter_header c).
Proof. unfold chain_filter_header. rewrite fold_left_app. reflexivity. Qed.

Definition bf_entry (c : list block) (k : nat) (b : block) : bf_val :=
  {| fv_hash := b_filter_hash b; fv_header := chain_filter_header (firstn (S k) c) |}.

Definition bf_inv (x : bf_index) (c : list block) : Prop :=
  bf_last_header x = chain_filter_header c /\
  forall k b, nth_error c k = Some b -> bfh_read (bf_dbh x) (Z.of_nat k) = Some (b_hash b, bf_entry c k b).

Lemma bf_inv0 : bf_inv bf_index0 [].
Proof. split; [ reflexivity | intros k b H; destruct k; discriminate ]. Qed.

Lemma bf_entry_snoc_lt c b k a : (k < length c)%nat -> bf_entry (c ++ [b]) k a = bf_entry c k a.
Proof. intros H. unfold bf_entry. rewrite firstn_snoc_lt by lia. reflexivity. Qed.

Theorem bf_inv_append x c b : bf_inv x c -> links_wf (c ++ [b]) ->
  exists x', bf_append x b = Ok x' /\ bf_inv x' (c ++ [b]).
Proof.
  intros [Hl Hdb] [Hh _]. eexists. split; [ reflexivity | ].
  assert (Hb : b_height b = Z.of_nat (length c)).
  { apply Hh. rewrite nth_error_app2 by lia. rewrite Nat.sub_diag. reflexivity. }
  split; simpl.
  - rewrite chain_filter_header_snoc, Hl. reflexivity.
  - intros k a Ha. rewrite Hb. destruct (Nat.lt_ge_cases k (length c)) as [Hk | Hk].
    + rewrite nth_error_app1 in Ha by exact Hk. destruct (Z.of_nat (length c) =? Z.of_nat k) eqn:E; [ apply Z.eqb_eq in E; lia | ].
      rewrite bf_entry_snoc_lt by exact Hk. apply Hdb, Ha.
    + rewrite nth_error_app2 in Ha by exact Hk. destruct (k - length c)%nat as [| n] eqn:En; [ | destruct n; discriminate ].
      simpl in Ha. inversion Ha. subst a. assert (k = length c) by lia. subst k. rewrite Z.eqb_refl.
      unfold bf_entry. rewrite firstn_all2 by (rewrite app_length; simpl; lia).
      rewrite chain_filter_header_snoc, Hl. reflexivity.
Qed.

Theorem bf_inv_remove x c b : bf_inv x (c ++ [b]) -> links_wf (c ++ [b]) -> c <> [] ->
  exists x', bf_remove x b = Ok x' /\ bf_inv x' c.
Proof.
  intros [Hl Hdb] [Hh Hlk] Hne.
  assert (Hb : b_height b = Z.of_nat (length c)).
  { apply Hh. rewrite nth_error_app2 by lia. rewrite Nat.sub_diag. reflexivity. }
  assert (Hlen : (0 < length c)%nat) by (destruct c; [ congruence | simpl; lia ]).
  pose proof (Hdb (length c) b) as Eb. rewrite nth_error_app2, Nat.sub_diag in Eb by lia. specialize (Eb eq_refl).
  destruct (nth_error c (length c - 1)) as [a |] eqn:Ea; [ | apply nth_error_None in Ea; lia ].
  pose proof (Hdb (length c - 1)%nat a) as Eprev. rewrite nth_error_app1 in Eprev by lia. specialize (Eprev Ea).
  assert (Elink : b_prev b = b_hash a).
  { apply (Hlk (length c - 1)%nat); [ rewrite nth_error_app1 by lia; exact Ea | ].
    replace (S (length c - 1)) with (length c) by lia. rewrite nth_error_app2 by lia. rewrite Nat.sub_diag. reflexivity. }
  unfold bf_remove. rewrite Hb, Eb. unfold read_filter_header.
  replace (Z.of_nat (length c) - 1) with (Z.of_nat (length c - 1)) by lia. rewrite Eprev, Elink, bytes_eqb_refl.
  eexists. split; [ reflexivity | ]. split; cbn [bf_last_header bf_dbh].
  - unfold bf_entry. cbn [fv_header]. rewrite firstn_snoc_lt by lia.
    replace (S (length c - 1)) with (length c) by lia. rewrite firstn_all. reflexivity.
  - intros k a' Ha'. assert (Hk : (k < length c)%nat) by (apply nth_error_Some; congruence).
    rewrite <- (bf_entry_snoc_lt c b k a' Hk). apply Hdb. rewrite nth_error_app1 by exact Hk. exact Ha'.
Qed.

Inductive bf_step : Type := BfPush (b : block) | BfPop.
Fixpoint bf_run (x : bf_index) (c : list block) (steps : list bf_step) : res (bf_index * list block) :=
  match steps with
  | [] => Ok (x, c)
  | BfPush b :: r => match bf_append x b with Ok x' => bf_run x' (c ++ [b]) r | Err e => Err e end
  | BfPop :: r => match rev c with
                  | b :: cr => match bf_remove x b with Ok x' => bf_run x' (rev cr) r | Err e => Err e end
                  | [] => Err ENoHeightEntry
                  end
  end.
Fixpoint bf_hist_ok (c : list block) (steps : list bf_step) : Prop :=
  match steps with
  | [] => True
  | BfPush b :: r => links_wf (c ++ [b]) /\ bf_hist_ok (c ++ [b]) r
  | BfPop :: r => exists c' b, c = c' ++ [b] /\ c' <> [] /\ bf_hist_ok c' r
  end.

Theorem bf_history : forall steps x c, bf_inv x c -> links_wf c -> bf_hist_ok c steps ->
  exists x' c', bf_run x c steps = Ok (x', c') /\ bf_inv x' c' /\ links_wf c'.
Proof.
  induction steps as [| s r IH]; intros x c Hinv Hwf Hok.
  - exists x, c. split; [ reflexivity | split; assumption ].
  - destruct s as [b |]; simpl in Hok.
    + destruct Hok as [Hwf' Hr]. destruct (bf_inv_append x c b Hinv Hwf') as [x' [Ea Hinv']].
      cbn [bf_run]. rewrite Ea. apply IH; assumption.
    + destruct Hok as [c' [b [Ec [Hne Hr]]]]. subst c.
      destruct (bf_inv_remove x c' b Hinv Hwf Hne) as [x' [Er Hinv']].
      cbn [bf_run]. rewrite rev_app_distr. cbn [rev app]. rewrite Er, rev_involutive.
      apply IH; [ exact Hinv' | apply (links_wf_prefix c' b Hwf) | exact Hr ].
Qed.

(* LookupFilter / LookupFilterHeader of any block of the current chain: its filter hash and the BIP157
   header chained over the chain's blocks up to it *)
Theorem bf_lookup_chain : forall steps x c k b,
  bf_hist_ok [] steps -> bf_run bf_index0 [] steps = Ok (x, c) -> nth_error c k = Some b ->
  bf_lookup x (b_hash b) (b_height b) =
  Some {| fv_hash := b_filter_hash b; fv_header := chain_filter_header (firstn (S k) c) |}.
Proof.
  intros steps x c k b Hok Hrun Hk.
  assert (W0 : links_wf []) by (split; [ intros j a Hj | intros j a a' Hj ]; destruct j; discriminate).
  destruct (bf_history steps bf_index0 [] bf_inv0 W0 Hok) as [x' [c' [Hrun' [[_ Hdb] [Hh _]]]]].
  rewrite Hrun in Hrun'. inversion Hrun'. subst x' c'.
  unfold bf_lookup. rewrite (Hh k b Hk), (Hdb k b Hk), bytes_eqb_refl. reflexivity.
Qed.
