(* Block-level consequences (CheckMerkleRoot, CheckWitnessMalleation, IsBlockMutated models). *)
From BV Require Import lib.Ints model.Merkle proofs.MerkleLemmas.
Local Open Scope Z_scope.

Section BlockProofs.
Variable D : Type.
Variable deq : D -> D -> bool.
Variable H : D -> D -> D.
Variable zero : D.
Hypothesis deq_spec : forall a b, deq a b = true <-> a = b.
Hypothesis H_inj : forall a b c d, H a b = H c d -> a = c /\ b = d.

Local Notation root := (compute_merkle_root D deq H zero).
Local Notation cmr := (check_merkle_root D deq H zero).
Local Notation cwm := (check_witness_malleation D deq H zero).
Local Notation ibm := (is_block_mutated D deq H zero).
Local Notation txids b := (map (tv_txid D) (bv_txs D b)).
Local Notation wtxids b := (map (tv_wtxid D) (tl (bv_txs D b))).

Definition fresh (b : block_view D) : Prop :=
  bv_checked_merkle_root D b = false /\ bv_checked_witness_commitment D b = false.

Lemma deq_false a b : deq a b = false -> a <> b.
Proof. intros E Hab. apply deq_spec in Hab. congruence. Qed.

(* CheckMerkleRoot passes exactly when the header root is the unflagged root of the txids *)
Lemma cmr_ok b : bv_checked_merkle_root D b = false ->
  (cmr b = V_ok <-> root (txids b) = Some (bv_header_root D b, false)).
Proof.
  intros Hf. unfold check_merkle_root, block_merkle_root. rewrite Hf.
  destruct (root_total D deq H zero (txids b)) as (r & m & Er). rewrite Er.
  destruct (deq (bv_header_root D b) r) eqn:Ed; cbn [negb].
  - apply deq_spec in Ed. subst r. destruct m; split; intros E; try discriminate; try reflexivity; inversion E.
  - apply deq_false in Ed. split; [discriminate|]. intros E. inversion E. congruence.
Qed.

Lemma cmr_not_error b : cmr b <> V_model_error.
Proof.
  unfold check_merkle_root, block_merkle_root. destruct (bv_checked_merkle_root D b); [discriminate|].
  destruct (root_total D deq H zero (txids b)) as (r & m & Er). rewrite Er.
  destruct (negb (deq (bv_header_root D b) r)); [discriminate|]. destruct m; discriminate.
Qed.

Lemma cwm_not_error b e : cwm b e <> V_model_error.
Proof.
  unfold check_witness_malleation, block_witness_merkle_root, compute_merkle_root_noflag.
  destruct (root_total D deq H zero (zero :: wtxids b)) as (r & m & Er). rewrite Er.
  destruct e; [|destruct (existsb _ _); discriminate].
  destruct (bv_checked_witness_commitment D b); [discriminate|].
  destruct (bv_commitment D b); [|destruct (existsb _ _); discriminate].
  destruct (bv_cb_witness_stack D b) as [|[sz nonce] [|? ?]]; try discriminate.
  destruct (negb (sz =? 32)); [discriminate|]. destruct (deq _ _); discriminate.
Qed.

Lemma ibm_total b cw : exists v, ibm b cw = Some v.
Proof.
  unfold is_block_mutated. pose proof (cmr_not_error b). pose proof (cwm_not_error b cw).
  destruct (cmr b); [|eauto|contradiction].
  destruct (negb (bv_first_is_coinbase D b)); [eauto|].
  destruct (cwm b cw); [eauto|eauto|contradiction].
Qed.

(* what an accepted block with a commitment satisfies *)
Lemma cwm_ok_commit b c : bv_checked_witness_commitment D b = false -> bv_commitment D b = Some c ->
  cwm b true = V_ok ->
  exists nonce wroot m, bv_cb_witness_stack D b = [(32, nonce)] /\
    root (zero :: wtxids b) = Some (wroot, m) /\ H wroot nonce = c.
Proof.
  intros Hf Hc. unfold check_witness_malleation, block_witness_merkle_root, compute_merkle_root_noflag. rewrite Hf, Hc.
  destruct (bv_cb_witness_stack D b) as [|[sz nonce] [|? ?]]; try discriminate.
  destruct (sz =? 32) eqn:Es; cbn [negb]; [|discriminate]. apply Z.eqb_eq in Es. subst sz.
  destruct (root_total D deq H zero (zero :: wtxids b)) as (r & m & Er). rewrite Er.
  destruct (deq (H r nonce) c) eqn:Ed; [|discriminate]. apply deq_spec in Ed.
  intros _. exists nonce, r, m. auto.
Qed.

Lemma cwm_ok_nocommit b : bv_checked_witness_commitment D b = false -> bv_commitment D b = None -> cwm b true = V_ok ->
  forall t, In t (bv_txs D b) -> tv_has_witness D t = false.
Proof.
  intros Hf Hc. unfold check_witness_malleation. rewrite Hf, Hc.
  destruct (existsb (tv_has_witness D) (bv_txs D b)) eqn:Ee; [discriminate|].
  intros _ t Hin. destruct (tv_has_witness D t) eqn:E; [|reflexivity].
  assert (existsb (tv_has_witness D) (bv_txs D b) = true) by (apply existsb_exists; eauto). congruence.
Qed.

Lemma ibm_false_coinbase b : fresh b -> bv_first_is_coinbase D b = true -> ibm b true = Some false ->
  cmr b = V_ok /\ cwm b true = V_ok.
Proof.
  intros [Hf1 Hf2] Hcb. unfold is_block_mutated. rewrite Hcb. cbn [negb].
  destruct (cmr b); try discriminate. destruct (cwm b true); try discriminate. auto.
Qed.

Lemma ibm_false_no_coinbase b cw : bv_first_is_coinbase D b = false -> ibm b cw = Some false ->
  forall t, In t (bv_txs D b) -> tv_nowit_size D t <> 64.
Proof.
  intros Hcb. unfold is_block_mutated. rewrite Hcb. cbn [negb].
  destruct (cmr b); try discriminate. intros E t Hin Hs. inversion E as [Ee].
  assert (existsb (fun t0 => tv_nowit_size D t0 =? 64) (bv_txs D b) = true).
  { apply existsb_exists. exists t. split; [exact Hin | apply Z.eqb_eq; exact Hs]. }
  congruence.
Qed.

(* Two blocks that IsBlockMutated(.., check_witness_root = true) accepts under the same header root
   and the same coinbase commitment have the same txids, the same wtxids and the same nonce *)
Theorem accepted_blocks_equal b1 b2 c :
  fresh b1 -> fresh b2 ->
  bv_first_is_coinbase D b1 = true -> bv_first_is_coinbase D b2 = true ->
  bv_txs D b1 <> [] -> bv_txs D b2 <> [] ->
  (forall x, In x (txids b1) -> ~ exists a b, x = H a b) ->
  (forall x, In x (txids b2) -> ~ exists a b, x = H a b) ->
  bv_header_root D b1 = bv_header_root D b2 ->
  bv_commitment D b1 = Some c -> bv_commitment D b2 = Some c ->
  ibm b1 true = Some false -> ibm b2 true = Some false ->
  txids b1 = txids b2 /\ wtxids b1 = wtxids b2 /\ bv_cb_witness_stack D b1 = bv_cb_witness_stack D b2.
Proof.
  intros F1 F2 C1 C2 N1 N2 L1 L2 Eh Ec1 Ec2 I1 I2.
  destruct (ibm_false_coinbase b1 F1 C1 I1) as [M1 W1]. destruct (ibm_false_coinbase b2 F2 C2 I2) as [M2 W2].
  destruct F1 as [F1a F1b], F2 as [F2a F2b].
  apply (cmr_ok b1 F1a) in M1. apply (cmr_ok b2 F2a) in M2. rewrite Eh in M1.
  assert (Et : txids b1 = txids b2).
  { apply (merkle_binding D deq H zero deq_spec H_inj _ _ (bv_header_root D b2)); auto.
    - intros E. apply map_eq_nil in E. contradiction.
    - intros E. apply map_eq_nil in E. contradiction. }
  split; [exact Et|].
  destruct (cwm_ok_commit b1 c F1b Ec1 W1) as (n1 & w1 & m1 & S1 & R1 & E1).
  destruct (cwm_ok_commit b2 c F2b Ec2 W2) as (n2 & w2 & m2 & S2 & R2 & E2).
  rewrite <- E2 in E1. apply H_inj in E1. destruct E1 as [-> ->].
  assert (Hlen : length (zero :: wtxids b1) = length (zero :: wtxids b2)).
  { cbn [length]. f_equal. rewrite !map_length. apply (f_equal (@length D)) in Et. rewrite !map_length in Et.
    destruct (bv_txs D b1), (bv_txs D b2); cbn in *; congruence. }
  pose proof (merkle_binding_same_length D deq H zero H_inj _ _ _ _ _ Hlen R1 R2) as Ew.
  inversion Ew as [Ew']. split; [reflexivity|]. rewrite S1, S2. reflexivity.
Qed.

(* "Any malleated variant with the same header is reported as mutated": a block that carries the
   header root and commitment of an accepted block but differs from it in a txid, a wtxid (stripped
   or altered witness) or the coinbase witness is reported mutated. *)
Theorem variant_reported_mutated b b' c :
  fresh b -> fresh b' ->
  bv_first_is_coinbase D b = true -> bv_first_is_coinbase D b' = true ->
  bv_txs D b <> [] -> bv_txs D b' <> [] ->
  (forall x, In x (txids b) -> ~ exists a b0, x = H a b0) ->
  (forall x, In x (txids b') -> ~ exists a b0, x = H a b0) ->
  bv_header_root D b' = bv_header_root D b ->
  bv_commitment D b = Some c -> bv_commitment D b' = Some c ->
  ibm b true = Some false ->
  (txids b' <> txids b \/ wtxids b' <> wtxids b \/ bv_cb_witness_stack D b' <> bv_cb_witness_stack D b) ->
  ibm b' true = Some true.
Proof.
  intros F F' C C' N N' L L' Eh Ec Ec' I Hdiff.
  destruct (ibm_total b' true) as [[|] E]; [exact E|exfalso].
  destruct (accepted_blocks_equal b' b c) as (E1 & E2 & E3); auto.
  destruct Hdiff as [Hd|[Hd|Hd]]; contradiction.
Qed.

(* without a commitment no transaction may carry a witness *)
Theorem no_commitment_no_witness b : fresh b -> bv_first_is_coinbase D b = true ->
  bv_commitment D b = None -> ibm b true = Some false ->
  forall t, In t (bv_txs D b) -> tv_has_witness D t = false.
Proof.
  intros F C Ec I. destruct (ibm_false_coinbase b F C I) as [_ W]. destruct F as [_ F2].
  apply cwm_ok_nocommit; assumption.
Qed.

End BlockProofs.

(* ------------------------------------------------------------------ the 64-byte rule
   With one hash function Hb on byte strings (double SHA-256), inner nodes hash 64 bytes:
   H a b = Hb (enc a ++ enc b) with |enc x| = 32, and a txid is Hb (serialization without witness).
   If Hb is injective, a transaction whose serialization is not 64 bytes long has a txid that is
   not an inner-node value - the premise of the binding theorems. *)
Section SixtyFour.
Variable D : Type.
Variable byte : Type.
Variable Hb : list byte -> D.
Variable enc : D -> list byte.
Variable deq : D -> D -> bool.
Variable zero : D.
Hypothesis Hb_inj : forall x y, Hb x = Hb y -> x = y.
Hypothesis enc_len : forall x, length (enc x) = 32%nat.
Hypothesis enc_inj : forall x y, enc x = enc y -> x = y.
Hypothesis deq_spec : forall a b, deq a b = true <-> a = b.

Definition H64 (a b : D) : D := Hb (enc a ++ enc b).

Lemma app_eq_len {A : Type} : forall (a c b d : list A), length a = length c -> a ++ b = c ++ d -> a = c /\ b = d.
Proof.
  induction a as [|x a IH]; intros [|y c] b d Hl E; try discriminate; [auto|].
  cbn in E. inversion E as [[Ex Er]]. destruct (IH c b d ltac:(cbn in Hl; lia) Er) as [-> ->]. auto.
Qed.

Lemma H64_injective : forall a b c d, H64 a b = H64 c d -> a = c /\ b = d.
Proof.
  intros a b c d E. apply Hb_inj in E. apply app_eq_len in E; [|rewrite !enc_len; reflexivity].
  destruct E as [E1 E2]. split; apply enc_inj; assumption.
Qed.

Lemma not_64_bytes_not_inner (ser : list byte) : length ser <> 64%nat -> ~ exists a b, Hb ser = H64 a b.
Proof.
  intros Hlen (a & b & E). apply Hb_inj in E. apply Hlen. rewrite E, app_length, !enc_len. reflexivity.
Qed.

(* binding stated on the transactions themselves *)
Theorem merkle_binding_no_64_byte_tx : forall (txs1 txs2 : list (list byte)) r,
  txs1 <> [] -> txs2 <> [] ->
  (forall t, In t txs1 -> length t <> 64%nat) -> (forall t, In t txs2 -> length t <> 64%nat) ->
  compute_merkle_root D deq H64 zero (map Hb txs1) = Some (r, false) ->
  compute_merkle_root D deq H64 zero (map Hb txs2) = Some (r, false) ->
  txs1 = txs2.
Proof.
  intros txs1 txs2 r N1 N2 L1 L2 E1 E2.
  assert (Em : map Hb txs1 = map Hb txs2).
  { apply (merkle_binding D deq H64 zero deq_spec H64_injective _ _ r); auto.
    - intros E. apply map_eq_nil in E. contradiction.
    - intros E. apply map_eq_nil in E. contradiction.
    - intros x Hx. apply in_map_iff in Hx. destruct Hx as (t & <- & Ht). apply not_64_bytes_not_inner. auto.
    - intros x Hx. apply in_map_iff in Hx. destruct Hx as (t & <- & Ht). apply not_64_bytes_not_inner. auto. }
  clear -Em Hb_inj. revert txs2 Em. induction txs1 as [|a l IH]; intros [|b l2] Em; try discriminate; [reflexivity|].
  cbn in Em. inversion Em as [[Ea El]]. f_equal; [apply Hb_inj; exact Ea | apply IH; exact El].
Qed.

End SixtyFour.
