(* The script interpreter (model/Script.v): the resource invariant over execution steps,
   conditional balance, disabled opcodes, skipping of unexecuted branches. *)
From BV Require Import lib.Ints gen.Params_gen model.Script proofs.ScriptNumLemmas proofs.ScriptLemmas.
Local Open Scope Z_scope.

(* a stack element: bytes, at most MAX_SCRIPT_ELEMENT_SIZE of them *)
Definition elem_ok (e : bytes) : Prop := bytes_ok e /\ lenz e <= MAX_SCRIPT_ELEMENT_SIZE.
Definition stack_ok (s : list bytes) : Prop := Forall elem_ok s.
(* the resource invariant of an execution state *)
Definition inv (st : state) : Prop :=
  stack_ok (st_stack st) /\ stack_ok (st_alt st) /\
  lenz (st_stack st) + lenz (st_alt st) <= MAX_STACK_SIZE /\
  0 <= st_opcount st <= MAX_OPS_PER_SCRIPT.

Lemma lenz_nil {A} : lenz (@nil A) = 0. Proof. reflexivity. Qed.
Lemma lenz_cons {A} (x : A) l : lenz (x :: l) = lenz l + 1.
Proof. unfold lenz. cbn [length]. lia. Qed.
Lemma lenz_nonneg {A} (l : list A) : 0 <= lenz l. Proof. unfold lenz. lia. Qed.
Lemma lenz_app {A} (a b : list A) : lenz (a ++ b) = lenz a + lenz b.
Proof. unfold lenz. rewrite app_length. lia. Qed.

Lemma elem_ok_num n : - (2 ^ 39 - 1) <= n <= 2 ^ 39 - 1 -> elem_ok (num_encode n).
Proof.
  intros H. split; [apply num_encode_bytes_ok|].
  pose proof (num_encode_length n 5 ltac:(lia) H). unfold lenz, MAX_SCRIPT_ELEMENT_SIZE. lia.
Qed.
Lemma elem_ok_bool b : elem_ok (vch_of_bool b).
Proof.
  destruct b; cbn; (split; [|unfold lenz, MAX_SCRIPT_ELEMENT_SIZE; cbn; lia]).
  - constructor; [unfold byte_ok; lia|constructor].
  - constructor.
Qed.

Lemma num4_range fl v n : bytes_ok v -> num4 fl v = Ok n -> - (2 ^ 31 - 1) <= n <= 2 ^ 31 - 1.
Proof. unfold num4. change SCR_DEFAULT_MAX_NUM_SIZE with 4. apply script_num_ok_range. Qed.

Lemma wrap64_small x : - 2 ^ 62 <= x <= 2 ^ 62 -> wrap64 x = x.
Proof. intros. apply wrap64_id. unfold INT64_MIN, INT64_MAX. lia. Qed.

Lemma unop_range u n : - (2 ^ 31 - 1) <= n <= 2 ^ 31 - 1 -> - 2 ^ 31 <= unop_apply u n <= 2 ^ 31.
Proof.
  intros H. destruct u; cbn [unop_apply]; rewrite ?wrap64_small by lia; try lia.
  - destruct (n <? 0) eqn:E; rewrite ?wrap64_small by lia; lia.
  - destruct (n =? 0); cbn; lia.
  - destruct (n =? 0); cbn; lia.
Qed.
Lemma binop_range b n1 n2 : - (2 ^ 31 - 1) <= n1 <= 2 ^ 31 - 1 -> - (2 ^ 31 - 1) <= n2 <= 2 ^ 31 - 1 ->
  - 2 ^ 32 <= binop_apply b n1 n2 <= 2 ^ 32.
Proof.
  intros H1 H2. destruct b; cbn [binop_apply]; unfold bool_z; rewrite ?wrap64_small by lia; try lia;
    repeat match goal with |- context [if ?c then _ else _] => destruct c end; lia.
Qed.

Lemma take_n_app {A} (l : list A) : forall n a b, take_n l n = Some (a, b) -> l = a ++ b.
Proof.
  induction l as [|x t IH]; intros n a b H; cbn [take_n] in H.
  - destruct (n <=? 0); [|discriminate]. inversion H; reflexivity.
  - destruct (n <=? 0); [inversion H; reflexivity|].
    destruct (take_n t (n - 1)) as [[a' b']|] eqn:E; [|discriminate]. inversion H; subst. cbn. f_equal. eauto.
Qed.

Lemma multisig_split {A} (x : A) a y b z c : x :: a ++ y :: b ++ z :: c = (x :: a ++ y :: b ++ [z]) ++ c.
Proof. cbn. rewrite <- !app_assoc. cbn. rewrite <- !app_assoc. reflexivity. Qed.

Lemma stack_ok_app a b : stack_ok (a ++ b) -> stack_ok a /\ stack_ok b.
Proof. unfold stack_ok. rewrite Forall_app. tauto. Qed.

Lemma stack_ok_firstn n s : stack_ok s -> stack_ok (firstn n s).
Proof. intros H. rewrite <- (firstn_skipn n s) in H. apply stack_ok_app in H. tauto. Qed.
Lemma stack_ok_skipn n s : stack_ok s -> stack_ok (skipn n s).
Proof. intros H. rewrite <- (firstn_skipn n s) in H. apply stack_ok_app in H. tauto. Qed.

(* the instructions of a well-formed byte string carry well-formed data *)
Lemma bytes_ok_app a b : bytes_ok (a ++ b) <-> bytes_ok a /\ bytes_ok b.
Proof. unfold bytes_ok. apply Forall_app. Qed.
Lemma parse_ops_data_ok n : forall s l ok, bytes_ok s -> parse_ops n s = (l, ok) -> Forall (fun p => bytes_ok (p_data p)) l.
Proof.
  induction n as [|n IH]; intros s l ok Hs H; destruct s as [|x t]; cbn [parse_ops] in H; try (inversion H; constructor).
  destruct (get_op (x :: t)) as [[[[c lb] d] r]|] eqn:Eg; [|inversion H; constructor].
  destruct (parse_ops n r) as [l' ok'] eqn:Ep. inversion H; subst.
  pose proof (get_op_sound _ _ _ _ _ Eg) as Hsound. rewrite Hsound in Hs.
  inversion Hs as [|? ? _ Hrest]; subst. apply bytes_ok_app in Hrest. destruct Hrest as [_ Hrest].
  apply bytes_ok_app in Hrest. destruct Hrest as [Hd Hr].
  constructor; [exact Hd|]. eapply IH; eauto.
Qed.

Definition small_ok (o : opc) : Prop := match o with O_SMALLINT n => -1 <= n <= 16 | _ => True end.
Lemma decode_op_small c : small_ok (decode_op c).
Proof.
  unfold decode_op. destruct (c <=? 78) eqn:E1; [exact I|]. destruct (c =? 79) eqn:E2; [cbn; lia|].
  destruct (c =? 80) eqn:E3; [exact I|]. destruct (c <=? 96) eqn:E4; [cbn; lia|].
  destruct c as [|q|q]; try exact I. do 8 (destruct q as [q|q|]; try exact I).
Qed.

Section InvProofs.
Variable sha256 ripemd160 sha1 : bytes -> bytes.
(* the only facts about the hash functions the limits need: output sizes (20 / 32 bytes) *)
Hypothesis sha256_ok : forall x, bytes_ok (sha256 x) /\ lenz (sha256 x) = 32.
Hypothesis ripemd160_ok : forall x, bytes_ok (ripemd160 x) /\ lenz (ripemd160 x) = 20.
Hypothesis sha1_ok : forall x, bytes_ok (sha1 x) /\ lenz (sha1 x) = 20.
Variable fl : Z.
Variable ck : checker.
Variable sv : sigversion.

Notation exec_op' := (exec_op sha256 ripemd160 sha1 fl ck sv).
Notation step' := (step sha256 ripemd160 sha1 fl ck sv).
Notation eval_ops' := (eval_ops sha256 ripemd160 sha1 fl ck sv).
Notation eval_script_state' := (eval_script_state sha256 ripemd160 sha1 fl ck sv).

Lemma hash_elem_ok h x : elem_ok (hash_of sha256 ripemd160 sha1 h x).
Proof.
  destruct h; cbn [hash_of]; unfold elem_ok, MAX_SCRIPT_ELEMENT_SIZE;
    repeat match goal with |- context [sha256 ?y] => pose proof (sha256_ok y); generalize dependent (sha256 y); intros
                         | |- context [ripemd160 ?y] => pose proof (ripemd160_ok y); generalize dependent (ripemd160 y); intros
                         | |- context [sha1 ?y] => pose proof (sha1_ok y); generalize dependent (sha1 y); intros end;
    intuition lia.
Qed.

(* what the signature opcodes leave untouched *)
Lemma eval_checksig_frame sig pk st ok st1 : eval_checksig fl ck sv sig pk st = Ok (ok, st1) ->
  st_stack st1 = st_stack st /\ st_alt st1 = st_alt st /\ st_opcount st1 = st_opcount st /\
  st_cond_size st1 = st_cond_size st /\ st_cond_ff st1 = st_cond_ff st /\ st_pos st1 = st_pos st.
Proof using. clear sha256_ok ripemd160_ok sha1_ok sha256 ripemd160 sha1.
  unfold eval_checksig, eval_checksig_pre, eval_checksig_tapscript. intros H.
  destruct sv; ok_steps; cbn; repeat split; reflexivity.
Qed.

Lemma eval_checkmultisig_frame st ok st1 : eval_checkmultisig fl ck sv st = Ok (ok, st1) ->
  (exists keep dropped, st_stack st = dropped ++ keep /\ st_stack st1 = vch_of_bool ok :: keep) /\
  st_alt st1 = st_alt st /\ st_opcount st <= st_opcount st1 <= MAX_OPS_PER_SCRIPT /\
  st_cond_size st1 = st_cond_size st /\ st_cond_ff st1 = st_cond_ff st /\ st_pos st1 = st_pos st.
Proof using. clear sha256_ok ripemd160_ok sha1_ok sha256 ripemd160 sha1.
  unfold eval_checkmultisig. intros H. ok_steps. cbn.
  repeat match goal with E : take_n _ _ = Some _ |- _ => apply take_n_app in E end. subst.
  split; [eexists; eexists; split; [apply multisig_split|reflexivity]|].
  repeat split; try reflexivity; lia.
Qed.

Ltac inv_stack :=
  repeat match goal with
         | H : stack_ok (_ :: _) |- _ => inversion H; subst; clear H
         | H : Forall elem_ok (_ :: _) |- _ => inversion H; subst; clear H
         end.
Ltac stack_goal := unfold stack_ok in *; repeat (first [assumption | constructor]); auto.

Definition post (st' : state) : Prop :=
  stack_ok (st_stack st') /\ stack_ok (st_alt st') /\ 0 <= st_opcount st' <= MAX_OPS_PER_SCRIPT.

Ltac inv_setup st Hinv :=
  let Hs := fresh "Hs" in let Ha := fresh "Ha" in let Hsz := fresh "Hsz" in let Hc := fresh "Hc" in
  destruct Hinv as (Hs & Ha & Hsz & Hc); unfold post;
  assert (Hlen : 0 <= lenz (st_stack st) <= 1000)
    by (pose proof (lenz_nonneg (st_stack st)); pose proof (lenz_nonneg (st_alt st)); unfold MAX_STACK_SIZE in Hsz; lia).
Ltac use_stack_eq_any :=
  repeat match goal with E : st_stack ?s = _ |- _ => is_var s; rewrite E in *; clear E end;
  repeat match goal with E : st_alt ?s = _ |- _ => is_var s; rewrite E in *; clear E end.
Tactic Notation "use_stack_eq" ident(st) := use_stack_eq_any.
Ltac post3 := unfold post; (split; [|split]); auto.

(* the generic case: the new stacks are built from old elements *)
Ltac inv_generic st H Hinv :=
  inv_setup st Hinv; cbn [exec_op invalid_stack] in H; ok_steps; cbn; use_stack_eq st; inv_stack; post3; stack_goal.

Lemma inv_smallint p n fexec st st' : inv st -> -1 <= n <= 16 -> exec_op' p (O_SMALLINT n) fexec st = Ok st' -> post st'.
Proof.
  intros Hinv Hn H. inv_setup st Hinv. cbn [exec_op] in H. ok_steps. cbn. post3. unfold push_num. constructor; auto. apply elem_ok_num. lia.
Qed.
Lemma inv_if p o fexec st st' : inv st -> (o = O_IF \/ o = O_NOTIF) -> exec_op' p o fexec st = Ok st' -> post st'.
Proof.
  intros Hinv Ho H. inv_setup st Hinv. destruct Ho; subst; cbn [exec_op invalid_stack] in H; unfold cond_push in H;
    ok_steps; cbn; use_stack_eq st; inv_stack; post3.
Qed.
Lemma inv_else p fexec st st' : inv st -> exec_op' p O_ELSE fexec st = Ok st' -> post st'.
Proof. intros Hinv H. inv_setup st Hinv. cbn [exec_op] in H. unfold cond_toggle in H. ok_steps. cbn. post3. Qed.
Lemma inv_endif p fexec st st' : inv st -> exec_op' p O_ENDIF fexec st = Ok st' -> post st'.
Proof. intros Hinv H. inv_setup st Hinv. cbn [exec_op] in H. unfold cond_pop in H. ok_steps. cbn. post3. Qed.
Lemma inv_ifdup p fexec st st' : inv st -> exec_op' p O_IFDUP fexec st = Ok st' -> post st'.
Proof.
  intros Hinv H. inv_setup st Hinv. cbn [exec_op invalid_stack] in H. ok_steps. cbn. use_stack_eq st. inv_stack. post3.
  match goal with |- context [if ?c then _ else _] => destruct c end; stack_goal.
Qed.
Lemma inv_depth p fexec st st' : inv st -> exec_op' p O_DEPTH fexec st = Ok st' -> post st'.
Proof.
  intros Hinv H. inv_setup st Hinv. cbn [exec_op] in H. ok_steps. cbn. post3. unfold push_num. constructor; auto. apply elem_ok_num. lia.
Qed.
Lemma nth_elem_ok l n b : Forall elem_ok l -> nth_error l n = Some b -> elem_ok b.
Proof. intros H E. apply nth_error_In in E. rewrite Forall_forall in H. auto. Qed.
Lemma inv_pick p fexec st st' : inv st -> exec_op' p O_PICK fexec st = Ok st' -> post st'.
Proof.
  intros Hinv H. inv_setup st Hinv. cbn [exec_op invalid_stack] in H. ok_steps. cbn. use_stack_eq st. inv_stack. post3.
  constructor; [eapply nth_elem_ok; [|eassumption]; stack_goal|stack_goal].
Qed.
Lemma inv_roll p fexec st st' : inv st -> exec_op' p O_ROLL fexec st = Ok st' -> post st'.
Proof.
  intros Hinv H. inv_setup st Hinv. cbn [exec_op invalid_stack] in H. ok_steps. cbn. use_stack_eq st. inv_stack. post3.
  constructor; [eapply nth_elem_ok; [|eassumption]; stack_goal|].
  apply Forall_app. split; [apply stack_ok_firstn|apply stack_ok_skipn]; stack_goal.
Qed.
Lemma inv_size p fexec st st' : inv st -> exec_op' p O_SIZE fexec st = Ok st' -> post st'.
Proof.
  intros Hinv H. inv_setup st Hinv. cbn [exec_op invalid_stack] in H. ok_steps. cbn. use_stack_eq st. inv_stack. post3. unfold push_num.
  unfold stack_ok.
  match goal with Hb : elem_ok ?b |- Forall _ (num_encode (lenz ?b) :: _) =>
    constructor; [apply elem_ok_num; destruct Hb as [_ Hb2]; pose proof (lenz_nonneg b); unfold MAX_SCRIPT_ELEMENT_SIZE in *; lia|stack_goal] end.
Qed.
Lemma inv_equal p o fexec st st' : inv st -> (o = O_EQUAL \/ o = O_EQUALVERIFY) -> exec_op' p o fexec st = Ok st' -> post st'.
Proof.
  intros Hinv Ho H. inv_setup st Hinv. destruct Ho; subst; cbn [exec_op invalid_stack] in H; unfold verify_top in H;
    ok_steps; cbn in *; use_stack_eq st; inv_stack; post3.
  - constructor; [apply elem_ok_bool|auto].
  - match goal with E : _ :: _ = _ :: _ |- _ => inversion E; subst end. auto.
Qed.
Lemma inv_unary p u fexec st st' : inv st -> exec_op' p (O_UNARY u) fexec st = Ok st' -> post st'.
Proof.
  intros Hinv H. inv_setup st Hinv. cbn [exec_op invalid_stack] in H. ok_steps. cbn. use_stack_eq st. inv_stack. post3. unfold push_num.
  match goal with Hb : elem_ok ?b, E : num4 _ ?b = Ok ?n |- _ => pose proof (num4_range _ _ _ (proj1 Hb) E) as Hr end.
  constructor; [apply elem_ok_num|auto].
  match goal with |- _ <= unop_apply ?u ?a <= _ => pose proof (unop_range u a Hr) end. lia.
Qed.
Lemma inv_binary p b fexec st st' : inv st -> exec_op' p (O_BINARY b) fexec st = Ok st' -> post st'.
Proof.
  intros Hinv H. inv_setup st Hinv. cbn [exec_op invalid_stack] in H.
  destruct (st_stack st) as [|x2 [|x1 r]] eqn:E; try discriminate H. inv_stack.
  cbn [bind] in H.
  destruct (num4 fl x1) as [n1|] eqn:E1; [|discriminate H]. destruct (num4 fl x2) as [n2|] eqn:E2; [|discriminate H].
  cbn [bind] in H.
  match goal with H1 : elem_ok x1, H2 : elem_ok x2 |- _ =>
    pose proof (num4_range _ _ _ (proj1 H1) E1); pose proof (num4_range _ _ _ (proj1 H2) E2) end.
  pose proof (binop_range b n1 n2 ltac:(lia) ltac:(lia)) as Hr.
  assert (Hres : elem_ok (num_encode (binop_apply b n1 n2))) by (apply elem_ok_num; lia).
  destruct b; try (inversion H; subst; cbn; post3; constructor; auto; fail).
  unfold verify_top in H. ok_steps. cbn in *. match goal with E : _ :: _ = _ :: _ |- _ => inversion E; subst end. post3.
Qed.
Lemma inv_within p fexec st st' : inv st -> exec_op' p O_WITHIN fexec st = Ok st' -> post st'.
Proof.
  intros Hinv H. inv_setup st Hinv. cbn [exec_op invalid_stack] in H. ok_steps. cbn. use_stack_eq st. inv_stack. post3.
  constructor; [apply elem_ok_bool|auto].
Qed.
Lemma inv_hash p h fexec st st' : inv st -> exec_op' p (O_HASH h) fexec st = Ok st' -> post st'.
Proof.
  intros Hinv H. inv_setup st Hinv. cbn [exec_op invalid_stack] in H. ok_steps. cbn. use_stack_eq st. inv_stack. post3.
  constructor; [apply hash_elem_ok|auto].
Qed.
Lemma inv_checksig p o fexec st st' : inv st -> (o = O_CHECKSIG \/ o = O_CHECKSIGVERIFY) -> exec_op' p o fexec st = Ok st' -> post st'.
Proof.
  intros Hinv Ho H. inv_setup st Hinv. destruct Ho; subst; cbn [exec_op invalid_stack] in H; unfold verify_top in H; ok_steps;
    match goal with E : eval_checksig _ _ _ _ _ _ = Ok _ |- _ => apply eval_checksig_frame in E; destruct E as (F1 & F2 & F3 & _) end;
    cbn in *; rewrite ?F2, ?F3; use_stack_eq st; inv_stack; post3.
  - constructor; [apply elem_ok_bool|auto].
  - match goal with E : _ :: _ = _ :: _ |- _ => inversion E; subst end. auto.
Qed.
Lemma inv_checksigadd p fexec st st' : inv st -> exec_op' p O_CHECKSIGADD fexec st = Ok st' -> post st'.
Proof.
  intros Hinv H. inv_setup st Hinv. cbn [exec_op invalid_stack] in H. ok_steps.
  match goal with E : eval_checksig _ _ _ _ _ _ = Ok _ |- _ => apply eval_checksig_frame in E; destruct E as (F1 & F2 & F3 & _) end.
  cbn. rewrite F2, F3. use_stack_eq st. inv_stack. post3. unfold push_num.
  match goal with Hb : elem_ok ?b, E : num4 _ ?b = Ok ?n |- _ => pose proof (num4_range _ _ _ (proj1 Hb) E) as Hr end.
  constructor; [|auto]. apply elem_ok_num.
  match goal with |- context [bool_z ?x] => destruct x; cbn [bool_z]; rewrite wrap64_small by lia; lia end.
Qed.
Lemma inv_checkmultisig p o fexec st st' : inv st -> (o = O_CHECKMULTISIG \/ o = O_CHECKMULTISIGVERIFY) -> exec_op' p o fexec st = Ok st' -> post st'.
Proof.
  intros Hinv Ho H. inv_setup st Hinv. destruct Ho; subst; cbn [exec_op invalid_stack] in H; unfold verify_top in H; ok_steps;
    match goal with E : eval_checkmultisig _ _ _ _ = Ok _ |- _ =>
      apply eval_checkmultisig_frame in E; destruct E as ((keep & dropped & Hk1 & Hk2) & F2 & F3 & _) end;
    rewrite Hk1 in *;
    match goal with Hs : stack_ok (_ ++ _) |- _ => apply stack_ok_app in Hs; destruct Hs as [_ Hkeep] end.
  - unfold post. rewrite Hk2, F2. (split; [|split]); auto; [constructor; [apply elem_ok_bool|exact Hkeep]|lia].
  - cbn. rewrite F2. match goal with E : st_stack _ = _ :: _ |- _ => rewrite Hk2 in E; inversion E; subst end. post3. lia.
Qed.

(* one executed (or IF..ENDIF) instruction keeps every element well formed and at most 520 bytes, and
   keeps the opcount within the limit *)
Lemma exec_op_inv p o fexec st st' : inv st -> small_ok o -> exec_op' p o fexec st = Ok st' -> post st'.
Proof.
  intros Hinv Hsm H.
  destruct o;
    first [ discriminate H
          | eapply inv_smallint; eassumption
          | eapply inv_if; [eassumption| |eassumption]; first [left; reflexivity|right; reflexivity]
          | eapply inv_else; eassumption | eapply inv_endif; eassumption
          | eapply inv_ifdup; eassumption
          | eapply inv_depth; eassumption | eapply inv_pick; eassumption | eapply inv_roll; eassumption | eapply inv_size; eassumption
          | eapply inv_equal; [eassumption| |eassumption]; first [left; reflexivity|right; reflexivity]
          | eapply inv_unary; eassumption | eapply inv_binary; eassumption | eapply inv_within; eassumption
          | eapply inv_hash; eassumption
          | eapply inv_checksig; [eassumption| |eassumption]; first [left; reflexivity|right; reflexivity]
          | eapply inv_checksigadd; eassumption
          | eapply inv_checkmultisig; [eassumption| |eassumption]; first [left; reflexivity|right; reflexivity]
          | solve [inv_generic st H Hinv] ].
Qed.


(* One iteration of the interpreter loop preserves the invariant, including the combined stack size. *)
Theorem step_inv p st st' : inv st -> bytes_ok (p_data p) -> step' p st = Ok st' -> inv st'.
Proof.
  intros Hinv Hd H. unfold step in H. cbv zeta in H.
  destruct (lenz (p_data p) >? MAX_SCRIPT_ELEMENT_SIZE) eqn:Epush; [discriminate H|].
  set (counted := negb (is_tapscript sv) && (p_code p >? 96)) in *.
  set (opcnt := if counted then st_opcount st + 1 else st_opcount st) in *.
  destruct (counted && (opcnt >? MAX_OPS_PER_SCRIPT)) eqn:Ecnt; [discriminate H|].
  assert (Hinv1 : inv (set_opcount st opcnt)).
  { destruct Hinv as (Hs & Ha & Hsz & Hc). unfold inv. cbn. repeat split; auto; unfold opcnt; destruct counted; cbn in Ecnt; lia. }
  set (st1 := set_opcount st opcnt) in *.
  do 2 ok_step.
  match type of H with bind ?r _ = _ => destruct r as [s|] eqn:Eb; cbn [bind] in H; [|discriminate H] end.
  destruct (lenz (st_stack s) + lenz (st_alt s) >? MAX_STACK_SIZE) eqn:Esz; [discriminate H|]. inversion H; subst st'; clear H.
  assert (Hpost : post s).
  { destruct (cond_all_true st && (p_code p <=? 78)) eqn:Epsh.
    - (* push *)
      ok_steps. destruct Hinv1 as (Hs & Ha & Hsz & Hc). unfold post. unfold st1 in *. cbn in *. repeat split; auto; try lia.
      constructor; [split; [exact Hd|lia]|exact Hs].
    - destruct (cond_all_true st || in_if_range (p_code p)) eqn:Eex.
      + eapply exec_op_inv; eauto. apply decode_op_small.
      + inversion Eb; subst s. destruct Hinv1 as (Hs & Ha & Hsz & Hc). unfold post. auto. }
  destruct Hpost as (P1 & P2 & P3). unfold inv. cbn. repeat split; auto; lia.
Qed.

(* eval_ops over a concatenation = running the prefix, then the rest *)
Lemma eval_ops_app a : forall b ok st, eval_ops' (a ++ b) ok st = bind (eval_ops' a true st) (eval_ops' b ok).
Proof using. clear sha256_ok ripemd160_ok sha1_ok.
  induction a as [|p r IH]; intros b ok st; cbn [app eval_ops bind]; [reflexivity|].
  destruct (step' p st); cbn [bind]; [apply IH|reflexivity].
Qed.

Theorem eval_ops_inv ops : forall ok st st', inv st -> Forall (fun p => bytes_ok (p_data p)) ops ->
  eval_ops' ops ok st = Ok st' -> inv st'.
Proof.
  induction ops as [|p r IH]; intros ok st st' Hinv Hd H; cbn [eval_ops] in H.
  - destruct ok; [inversion H; subst; exact Hinv|discriminate H].
  - inversion Hd; subst. ok_steps. eapply IH; [eapply step_inv; eassumption|eassumption|eassumption].
Qed.

(* The invariant holds in EVERY state of a successful execution: after any prefix of the instructions. *)
Theorem limits_invariant_every_step a b ok st st' : inv st -> Forall (fun p => bytes_ok (p_data p)) (a ++ b) ->
  eval_ops' (a ++ b) ok st = Ok st' ->
  exists mid, eval_ops' a true st = Ok mid /\ inv mid /\ eval_ops' b ok mid = Ok st' /\ inv st'.
Proof.
  intros Hinv Hd H. rewrite eval_ops_app in H. destruct (eval_ops' a true st) as [mid|] eqn:E; [|discriminate H].
  cbn [bind] in H. apply Forall_app in Hd. destruct Hd as [Hda Hdb].
  exists mid. assert (Hmid : inv mid) by (eapply (eval_ops_inv a true st mid); eassumption).
  split; [reflexivity|]. split; [exact Hmid|]. split; [exact H|]. eapply (eval_ops_inv b ok mid st'); eassumption.
Qed.

Theorem eval_script_limits script stack w st' : bytes_ok script -> stack_ok stack -> lenz stack <= MAX_STACK_SIZE ->
  eval_script_state' script stack w = Ok st' ->
  stack_ok (st_stack st') /\ stack_ok (st_alt st') /\
  lenz (st_stack st') + lenz (st_alt st') <= MAX_STACK_SIZE /\ 0 <= st_opcount st' <= MAX_OPS_PER_SCRIPT.
Proof.
  intros Hs Hst Hlen H. unfold eval_script_state in H. ok_steps.
  eapply eval_ops_inv; [| |eauto].
  - unfold inv, init_state. cbn. repeat split; auto; try constructor; try (unfold MAX_OPS_PER_SCRIPT; lia). rewrite lenz_nil. lia.
  - unfold parse_script in *. eapply parse_ops_data_ok; eauto.
Qed.

(* ------------------------------------------------------------------------------------------- *)
(* conditionals *)

(* depth of IF nesting after the instructions, None when an ELSE/ENDIF has no open IF.  Every
   instruction counts, executed or not. *)
Fixpoint cond_depth (ops : list pop) (d : Z) : option Z :=
  match ops with
  | [] => Some d
  | p :: r =>
    match decode_op (p_code p) with
    | O_IF | O_NOTIF => cond_depth r (d + 1)
    | O_ELSE => if d =? 0 then None else cond_depth r d
    | O_ENDIF => if d =? 0 then None else cond_depth r (d - 1)
    | _ => cond_depth r d
    end
  end.

Definition is_cond_op (o : opc) : bool := match o with O_IF | O_NOTIF | O_ELSE | O_ENDIF => true | _ => false end.

Lemma exec_op_cond_frame p o fexec st st' : is_cond_op o = false -> exec_op' p o fexec st = Ok st' ->
  st_cond_size st' = st_cond_size st /\ st_cond_ff st' = st_cond_ff st.
Proof using. clear sha256_ok ripemd160_ok sha1_ok.
  intros Ho H. destruct o; try discriminate Ho; cbn [exec_op invalid_stack] in H; try discriminate H;
    try (ok_steps; cbn; split; reflexivity).
  1: { unfold verify_top in H. ok_steps. cbn in *. split; reflexivity. }
  1: { (* BINARY *)
    destruct (st_stack st) as [|x2 [|x1 r]]; try discriminate H. cbn [bind] in H.
    destruct (num4 fl x1); [|discriminate H]. destruct (num4 fl x2); [|discriminate H]. cbn [bind] in H.
    destruct b; try (inversion H; subst; cbn; split; reflexivity).
    unfold verify_top in H. ok_steps. cbn. split; reflexivity. }
  all: unfold verify_top in H; ok_steps;
    repeat match goal with
           | E : eval_checksig _ _ _ _ _ _ = Ok _ |- _ => apply eval_checksig_frame in E
           | E : eval_checkmultisig _ _ _ _ = Ok _ |- _ => apply eval_checkmultisig_frame in E
           end; cbn in *; tauto.
Qed.

Lemma decode_in_if_range c : in_if_range c = false -> is_cond_op (decode_op c) = false.
Proof.
  unfold in_if_range. intros H. destruct (is_cond_op (decode_op c)) eqn:E; [|reflexivity]. exfalso.
  unfold decode_op in E. destruct (c <=? 78) eqn:E1; [discriminate|]. destruct (c =? 79); [discriminate|].
  destruct (c =? 80); [discriminate|]. destruct (c <=? 96) eqn:E4; [discriminate|].
  destruct c as [|q|q]; try discriminate. do 8 (destruct q as [q|q|]; try discriminate; try (cbn in H; lia)).
Qed.

Lemma step_cond_depth p st st' : 0 <= st_cond_size st < 4294967295 -> step' p st = Ok st' ->
  cond_depth [p] (st_cond_size st) = Some (st_cond_size st').
Proof using. clear sha256_ok ripemd160_ok sha1_ok.
  intros Hsz H. unfold step in H. cbv zeta in H. do 4 ok_step.
  match type of H with bind ?r _ = _ => destruct r as [s|] eqn:Eb; cbn [bind] in H; [|discriminate H] end.
  ok_step. inversion H; subst st'; clear H. cbn [st_cond_size set_pos cond_depth].
  destruct (cond_all_true st && (p_code p <=? 78)) eqn:Epsh.
  - (* push executed: decode_op = O_PUSHDATA since c <= 78 *)
    ok_steps. cbn.
    assert (Hc : (p_code p <=? 78) = true) by (destruct (cond_all_true st); cbn in *; [assumption|discriminate]).
    unfold decode_op. rewrite Hc. reflexivity.
  - destruct (cond_all_true st || in_if_range (p_code p)) eqn:Eex.
    + (* exec_op *)
      destruct (is_cond_op (decode_op (p_code p))) eqn:Ec.
      * destruct (decode_op (p_code p)); try discriminate Ec; cbn [exec_op invalid_stack] in Eb;
          unfold cond_push, cond_toggle, cond_pop in Eb; ok_steps; cbn;
          try (rewrite wrapu32_id by (unfold UINT32_MAX; lia); reflexivity);
          match goal with E : cond_empty _ = false |- _ => unfold cond_empty in E; cbn in E; rewrite E; reflexivity end.
      * apply exec_op_cond_frame in Eb; [|exact Ec]. destruct Eb as [F1 F2].
        cbn in F1. rewrite F1. destruct (decode_op (p_code p)); try discriminate Ec; reflexivity.
    + (* skipped *)
      inversion Eb; subst s. cbn.
      apply Bool.orb_false_elim in Eex. destruct Eex as [_ Er].
      pose proof (decode_in_if_range _ Er) as Ec. destruct (decode_op (p_code p)); try discriminate Ec; reflexivity.
Qed.

Lemma cond_depth_cons p r d : cond_depth (p :: r) d = match cond_depth [p] d with Some d' => cond_depth r d' | None => None end.
Proof. cbn [cond_depth]. destruct (decode_op (p_code p)); try reflexivity; destruct (d =? 0); reflexivity. Qed.

Lemma cond_depth_bound ops : forall d d', cond_depth ops d = Some d' -> 0 <= d -> 0 <= d' <= d + lenz ops.
Proof.
  induction ops as [|p r IH]; intros d d' H Hd; cbn [cond_depth] in H.
  - inversion H; subst. unfold lenz. cbn [length]. lia.
  - rewrite lenz_cons. pose proof (lenz_nonneg r).
    destruct (decode_op (p_code p)); try (specialize (IH _ _ H ltac:(lia)); lia);
      destruct (d =? 0) eqn:E0; try discriminate H; specialize (IH _ _ H ltac:(lia)); lia.
Qed.

Theorem eval_ops_cond_depth ops : forall ok st st', 0 <= st_cond_size st -> st_cond_size st + lenz ops < 4294967295 ->
  eval_ops' ops ok st = Ok st' -> cond_depth ops (st_cond_size st) = Some (st_cond_size st').
Proof using. clear sha256_ok ripemd160_ok sha1_ok.
  induction ops as [|p r IH]; intros ok st st' H0 Hlen H; cbn [eval_ops] in H.
  - destruct ok; [inversion H; reflexivity|discriminate H].
  - rewrite lenz_cons in Hlen. pose proof (lenz_nonneg r).
    destruct (step' p st) as [s|] eqn:E; [|discriminate H]. cbn [bind] in H. rewrite cond_depth_cons.
    rewrite (step_cond_depth p st s ltac:(lia) E).
    pose proof (cond_depth_bound [p] _ _ (step_cond_depth p st s ltac:(lia) E) H0) as Hb.
    unfold lenz in Hb. cbn [length] in Hb.
    eapply IH; [lia|lia|eassumption].
Qed.

Lemma parse_ops_length n : forall s l b, parse_ops n s = (l, b) -> lenz l <= lenz s.
Proof using. clear sha256_ok ripemd160_ok sha1_ok sha256 ripemd160 sha1.
  induction n as [|n IH]; intros s l b H; destruct s as [|x t]; cbn [parse_ops] in H;
    try (inversion H; subst; unfold lenz; cbn [length]; lia).
  destruct (get_op (x :: t)) as [[[[c lb] d] r]|] eqn:Eg; [|inversion H; subst; unfold lenz; cbn [length]; lia].
  destruct (parse_ops n r) as [l' ok'] eqn:Ep. inversion H; subst.
  specialize (IH _ _ _ Ep). apply get_op_shorter in Eg. unfold lenz in *. cbn [length] in *. lia.
Qed.

Lemma eval_ops_bad_tail ops : forall st st', eval_ops' ops false st <> Ok st'.
Proof using. clear sha256_ok ripemd160_ok sha1_ok.
  induction ops as [|p r IH]; intros st st' H; cbn [eval_ops] in H; [discriminate H|].
  destruct (step' p st) as [s|]; [|discriminate H]. cbn [bind] in H. eapply IH; eauto.
Qed.

(* A script that evaluates successfully has balanced IF/NOTIF .. ELSE .. ENDIF (counting every
   instruction, executed or not): unbalanced conditionals are rejected. *)
Theorem unbalanced_conditional_rejected script stack w st' : lenz script < 4294967295 ->
  eval_script_state' script stack w = Ok st' ->
  cond_depth (fst (parse_script script)) 0 = Some 0 /\ snd (parse_script script) = true.
Proof using. clear sha256_ok ripemd160_ok sha1_ok.
  intros Hlen H. unfold eval_script_state in H.
  destruct (negb (is_tapscript sv) && (lenz script >? MAX_SCRIPT_SIZE)); [discriminate H|].
  destruct (parse_script script) as [l b] eqn:Ep. cbn [fst snd].
  destruct (eval_ops' l b (init_state script stack w)) as [st1|] eqn:Ev; [|discriminate H]. cbn [bind] in H.
  destruct (negb (cond_empty st1)) eqn:Ece; [discriminate H|]. inversion H; subst st1; clear H.
  pose proof (parse_ops_length _ _ _ _ Ep) as Hl.
  assert (Hd : cond_depth l (st_cond_size (init_state script stack w)) = Some (st_cond_size st')).
  { eapply eval_ops_cond_depth; [cbn; lia|cbn; lia|eassumption]. }
  cbn in Hd. unfold cond_empty in Ece. split.
  - rewrite Hd. f_equal. destruct (st_cond_size st' =? 0) eqn:Ez; [lia|discriminate Ece].
  - destruct b; [reflexivity|]. exfalso. eapply eval_ops_bad_tail; eauto.
Qed.

(* ------------------------------------------------------------------------------------------- *)
(* disabled opcodes; unexecuted branches *)

(* a disabled opcode makes the step fail whether or not the branch is executed *)
Theorem step_disabled_fails p st : decode_op (p_code p) = O_DISABLED -> forall st', step' p st <> Ok st'.
Proof using. clear sha256_ok ripemd160_ok sha1_ok.
  intros Hd st' H. unfold step in H. cbv zeta in H. rewrite Hd in H. ok_steps.
Qed.

Theorem step_disabled_error p st : decode_op (p_code p) = O_DISABLED ->
  lenz (p_data p) <= MAX_SCRIPT_ELEMENT_SIZE -> (is_tapscript sv = true \/ st_opcount st < MAX_OPS_PER_SCRIPT) ->
  step' p st = Err SE_DISABLED_OPCODE.
Proof using. clear sha256_ok ripemd160_ok sha1_ok.
  intros Hd Hdata Hcnt. unfold step. cbv zeta. rewrite Hd.
  replace (lenz (p_data p) >? MAX_SCRIPT_ELEMENT_SIZE) with false by lia.
  destruct (negb (is_tapscript sv) && (p_code p >? 96)) eqn:E; cbn [andb]; [|reflexivity].
  replace (st_opcount st + 1 >? MAX_OPS_PER_SCRIPT) with false; [reflexivity|].
  destruct Hcnt as [Ht|Hlt]; [rewrite Ht in E; discriminate E|lia].
Qed.

(* a script containing a disabled opcode anywhere never succeeds *)
Theorem disabled_never_succeeds ops : forall ok st p, In p ops -> decode_op (p_code p) = O_DISABLED ->
  forall st', eval_ops' ops ok st <> Ok st'.
Proof using. clear sha256_ok ripemd160_ok sha1_ok.
  induction ops as [|q r IH]; intros ok st p Hin Hd st' H; [destruct Hin|]. cbn [eval_ops] in H.
  destruct (step' q st) as [s|] eqn:E; [|discriminate H]. cbn [bind] in H.
  destruct Hin as [->|Hin]; [eapply step_disabled_fails; eauto|eapply IH; eauto].
Qed.

(* in a branch that is not executed, any other instruction only updates the counters: the stacks, the
   condition stack and the code position are untouched *)
Theorem step_skipped p st : cond_all_true st = false -> in_if_range (p_code p) = false ->
  (match decode_op (p_code p) with O_DISABLED => False | O_CODESEPARATOR => is_base sv && has fl SCR_FLAG_CONST_SCRIPTCODE = false | _ => True end) ->
  lenz (p_data p) <= MAX_SCRIPT_ELEMENT_SIZE ->
  (is_tapscript sv = true \/ p_code p <= 96 \/ st_opcount st < MAX_OPS_PER_SCRIPT) ->
  lenz (st_stack st) + lenz (st_alt st) <= MAX_STACK_SIZE ->
  exists st', step' p st = Ok st' /\ st_stack st' = st_stack st /\ st_alt st' = st_alt st /\
              st_cond_size st' = st_cond_size st /\ st_cond_ff st' = st_cond_ff st /\ st_code st' = st_code st.
Proof using. clear sha256_ok ripemd160_ok sha1_ok.
  intros Hex Hr Hop Hdata Hcnt Hsz. unfold step. cbv zeta. rewrite Hex, Hr. cbn [andb orb].
  replace (lenz (p_data p) >? MAX_SCRIPT_ELEMENT_SIZE) with false by lia.
  assert (Hc : negb (is_tapscript sv) && (p_code p >? 96) &&
               ((if negb (is_tapscript sv) && (p_code p >? 96) then st_opcount st + 1 else st_opcount st) >? MAX_OPS_PER_SCRIPT) = false).
  { destruct (negb (is_tapscript sv) && (p_code p >? 96)) eqn:E; [|reflexivity]. cbn [andb].
    destruct Hcnt as [Ht|[Hle|Hlt]]; [rewrite Ht in E; discriminate E|lia|lia]. }
  rewrite Hc.
  destruct (decode_op (p_code p)) eqn:Ed; try contradiction; try rewrite Hop; cbn [bind st_stack st_alt set_opcount];
    (replace (lenz (st_stack st) + lenz (st_alt st) >? MAX_STACK_SIZE) with false by lia);
    eexists; (split; [reflexivity|cbn; repeat split; reflexivity]).
Qed.

End InvProofs.
