(* C64: the genuine transaction's wtxid is a name no malleated copy can touch. *)
From BV Require Import lib.Ints model.TxDownloadMall.
Local Open Scope Z_scope.

Lemma mem_In h l : mem h l = true <-> In h l.
Proof.
  unfold mem. rewrite existsb_exists. split.
  - intros [x [Hx He]]. apply Z.eqb_eq in He. subst. auto.
  - intros H. exists h. split; auto. apply Z.eqb_refl.
Qed.
Lemma mem_false h l : mem h l = false <-> ~ In h l.
Proof. rewrite <- mem_In. destruct (mem h l); split; congruence. Qed.

Section Fresh.
  Variable wG : Z.      (* the genuine transaction's wtxid *)

  (* a transaction none of whose hashes is wG: every malleated copy (same txid, other wtxid), every other
     transaction — by collision freeness of the hashes, which is the premise here *)
  Definition other (t : tx) : Prop := txid t <> wG /\ wtxid t <> wG.

  Definition clean (s : dl) : Prop :=
    ~ In wG (rej s) /\ ~ In wG (recf s) /\ ~ In wG (conf s) /\
    Forall other (map fst (orph s)) /\ Forall other (pool s).

  (* states that differ only in the tracker / the peer table / the chain / announcer lists *)
  Definition same_core (s s' : dl) : Prop :=
    rej s' = rej s /\ recf s' = recf s /\ conf s' = conf s /\ map fst (orph s') = map fst (orph s) /\ pool s' = pool s.

  Lemma same_core_refl s : same_core s s.
  Proof. repeat split. Qed.
  Lemma same_core_trans a b c : same_core a b -> same_core b c -> same_core a c.
  Proof. unfold same_core. intuition congruence. Qed.
  Lemma clean_same_core s s' : same_core s s' -> clean s -> clean s'.
  Proof. unfold same_core, clean. intros [A [B [C [D E]]]] [H1 [H2 [H3 [H4 H5]]]]. rewrite A, B, C, D, E. auto. Qed.

  Lemma sc_set_track s v : same_core s (set_track s v).
  Proof. repeat split. Qed.
  Lemma sc_tr_inv s p h w : same_core s (tr_inv s p h w).
  Proof. unfold tr_inv. destruct (tr_find s p h); [apply same_core_refl|apply sc_set_track]. Qed.
  Lemma sc_tr_forget s h : same_core s (tr_forget s h).
  Proof. apply sc_set_track. Qed.
  Lemma sc_tr_response s p h : same_core s (tr_response s p h).
  Proof. apply sc_set_track. Qed.
  Lemma sc_tr_disconnect s p : same_core s (tr_disconnect s p).
  Proof. apply sc_set_track. Qed.

  Lemma sc_fold_inv ups : forall s p, same_core s (fold_left (fun st par => tr_inv st p par false) ups s).
  Proof.
    induction ups as [|u r IH]; intros s p; cbn [fold_left]; [apply same_core_refl|].
    eapply same_core_trans; [apply sc_tr_inv|apply IH].
  Qed.

  Lemma sc_maybe_add s ups w p : same_core s (fst (maybe_add_candidate s ups w p)).
  Proof.
    unfold maybe_add_candidate. destruct (negb _); [apply same_core_refl|].
    destruct (orph_from_peer _ _ _); [apply same_core_refl|]. cbn [fst]. apply sc_fold_inv.
  Qed.

  (* the orphanage *)
  Lemma orph_find_In s w o a : orph_find s w = Some (o, a) -> In o (map fst (orph s)).
  Proof.
    unfold orph_find. intros H. apply find_some in H. destruct H as [H _].
    apply (in_map fst) in H. exact H.
  Qed.

  Lemma clean_orph_add s t p : clean s -> other t -> clean (orph_add s t p).
  Proof.
    intros [H1 [H2 [H3 [H4 H5]]]] Ht. unfold orph_add.
    destruct (orph_have s (wtxid t)).
    - repeat split; auto. cbn [orph set_orph]. rewrite map_map.
      assert (E : map (fun x => fst (if wtxid (fst x) =? wtxid t then (fst x, if mem p (snd x) then snd x else snd x ++ [p]) else x)) (orph s)
                  = map fst (orph s)).
      { apply map_ext. intros x. destruct (_ =? _); reflexivity. }
      rewrite E. exact H4.
    - repeat split; auto. cbn [orph set_orph]. rewrite map_app. apply Forall_app. split; auto.
      cbn [map fst]. constructor; auto.
  Qed.

  Lemma clean_orph_erase s w : clean s -> clean (orph_erase s w).
  Proof.
    intros [H1 [H2 [H3 [H4 H5]]]]. unfold orph_erase. repeat split; auto. cbn [orph set_orph].
    rewrite Forall_forall in *. intros x Hx. apply in_map_iff in Hx. destruct Hx as [o [Ho Hin]].
    apply filter_In in Hin. destruct Hin as [Hin _]. apply H4. rewrite <- Ho. apply in_map. exact Hin.
  Qed.

  Lemma clean_filter_orph s f : clean s -> clean (set_orph s (filter f (orph s))).
  Proof.
    intros [H1 [H2 [H3 [H4 H5]]]]. repeat split; auto. cbn [orph set_orph].
    rewrite Forall_forall in *. intros x Hx. apply in_map_iff in Hx. destruct Hx as [o [Ho Hin]].
    apply filter_In in Hin. destruct Hin as [Hin _]. apply H4. rewrite <- Ho. apply in_map. exact Hin.
  Qed.

  Lemma clean_set_rej s v : clean s -> ~ In wG v -> clean (set_rej s v).
  Proof. intros [H1 [H2 [H3 [H4 H5]]]] Hv. repeat split; auto. Qed.
  Lemma clean_set_recf s v : clean s -> ~ In wG v -> clean (set_recf s v).
  Proof. intros [H1 [H2 [H3 [H4 H5]]]] Hv. repeat split; auto. Qed.

  Lemma clean_tr s s' : same_core s s' -> clean s -> clean s'.
  Proof. apply clean_same_core. Qed.

  Lemma clean_fold_candidates cands : forall s ups t, clean s -> other t ->
      clean (fold_left (fun st q => let (st', ok) := maybe_add_candidate st ups (wtxid t) q in
                                    if ok then orph_add st' t q else st') cands s).
  Proof.
    induction cands as [|q r IH]; intros s ups t Hc Ht; cbn [fold_left]; auto.
    apply IH; auto.
    pose proof (sc_maybe_add s ups (wtxid t) q) as Hsc.
    destruct (maybe_add_candidate s ups (wtxid t) q) as [st' ok]. cbn [fst] in Hsc.
    destruct ok; [apply clean_orph_add; auto|]; eapply clean_same_core; eauto.
  Qed.

  Section WithV.
  Variable V : list tx -> list Z -> tx -> verdict.

  Lemma clean_mempool_accepted s t : clean s -> other t -> clean (mempool_accepted s t).
  Proof.
    intros Hc Ht. unfold mempool_accepted.
    set (s1 := tr_forget (tr_forget s (txid t)) (wtxid t)).
    assert (Hc1 : clean s1).
    { eapply clean_same_core; [|exact Hc]. eapply same_core_trans; apply sc_tr_forget. }
    pose proof (clean_orph_erase s1 (wtxid t) Hc1) as [H1 [H2 [H3 [H4 H5]]]].
    destruct Hc1 as [_ [_ [_ [_ Hp]]]].
    repeat split; auto. cbn [pool set_pool]. apply Forall_app. split; auto.
  Qed.

  Lemma not_in_app2 (l : list Z) a b : ~ In wG l -> a <> wG -> b <> wG -> ~ In wG (l ++ [a; b]).
  Proof. intros H Ha Hb Hin. apply in_app_or in Hin. destruct Hin as [|[|[|[]]]]; auto. Qed.
  Lemma not_in_app1 (l : list Z) a : ~ In wG l -> a <> wG -> ~ In wG (l ++ [a]).
  Proof. intros H Ha Hin. apply in_app_or in Hin. destruct Hin as [|[|[]]]; auto. Qed.

  Lemma clean_mempool_rejected s t r p first : clean s -> other t -> clean (mempool_rejected s t r p first).
  Proof.
    intros Hc [Ht1 Ht2]. unfold mempool_rejected.
    assert (Hmain : clean
      match r with
      | VMissingInputs =>
          if first && negb (mem (wtxid t) (rej s)) then
            let rejected := existsb (fun par => mem par (rej s)) (parents t)
                            || (2 <=? Z.of_nat (length (filter (fun par => negb (mem par (rej s)) && mem par (recf s) && negb (pool_has_txid s par)) (parents t)))) in
            if negb rejected then
              let ups := filter (fun par => negb (already_have s false par false)) (parents t) in
              let cands := p :: tr_candidates s (txid t) ++ (if has_witness t then tr_candidates s (wtxid t) else []) in
              let s2 := fold_left (fun st q => let (st', ok) := maybe_add_candidate st ups (wtxid t) q in
                                               if ok then orph_add st' t q else st') cands s in
              tr_forget (tr_forget s2 (txid t)) (wtxid t)
            else
              let s2 := set_rej s (rej s ++ [txid t; wtxid t]) in
              tr_forget (tr_forget s2 (txid t)) (wtxid t)
          else s
      | VWitnessStripped => s
      | VOk => s
      | _ =>
          let s2 := match r with
                    | VReconsiderable => set_recf s (recf s ++ [wtxid t])
                    | _ => set_rej s (rej s ++ [wtxid t])
                    end in
          let s3 := tr_forget s2 (wtxid t) in
          match r with
          | VInputsNotStandard => if has_witness t then tr_forget (set_rej s3 (rej s3 ++ [txid t])) (txid t) else s3
          | _ => s3
          end
      end).
    { destruct Hc as [H1 [H2 [H3 [H4 H5]]]].
      assert (Hc : clean s) by (repeat split; auto).
      destruct r; auto.
      - (* missing inputs *)
        destruct (first && _); auto. cbv zeta.
        destruct (negb _).
        + eapply clean_same_core; [eapply same_core_trans; apply sc_tr_forget|].
          apply clean_fold_candidates; auto. split; auto.
        + eapply clean_same_core; [eapply same_core_trans; apply sc_tr_forget|].
          apply clean_set_rej; auto. apply not_in_app2; auto.
      - (* inputs not standard *)
        cbv zeta.
        assert (Hc3 : clean (tr_forget (set_rej s (rej s ++ [wtxid t])) (wtxid t))).
        { eapply clean_same_core; [apply sc_tr_forget|]. apply clean_set_rej; auto. apply not_in_app1; auto. }
        destruct (has_witness t); auto.
        eapply clean_same_core; [apply sc_tr_forget|]. apply clean_set_rej; auto.
        destruct Hc3 as [Hr _]. apply not_in_app1; auto.
      - cbv zeta. eapply clean_same_core; [apply sc_tr_forget|]. apply clean_set_recf; auto. apply not_in_app1; auto.
      - cbv zeta. eapply clean_same_core; [apply sc_tr_forget|]. apply clean_set_rej; auto. apply not_in_app1; auto. }
    destruct r; auto; apply clean_orph_erase; auto.
  Qed.

  Lemma clean_orphans_other s : clean s -> forall o, In o (orph s) -> other (fst o).
  Proof.
    intros [_ [_ [_ [H4 _]]]] o Ho. rewrite Forall_forall in H4. apply H4. apply in_map. exact Ho.
  Qed.

  Lemma clean_fold_orphans (F : dl -> tx * list Z -> dl) :
      (forall st o, clean st -> other (fst o) -> clean (F st o)) ->
      forall l s, clean s -> (forall o, In o l -> other (fst o)) -> clean (fold_left F l s).
  Proof.
    intros HF. induction l as [|o r IH]; intros s Hc Hall; cbn [fold_left]; auto.
    apply IH.
    - apply HF; auto. apply Hall. left. reflexivity.
    - intros o' Ho'. apply Hall. right. exact Ho'.
  Qed.

  Lemma In_insert_by_peer o x l : In x (insert_by_peer o l) -> x = o \/ In x l.
  Proof.
    induction l as [|y r IH]; cbn [insert_by_peer]; intros H.
    - destruct H as [H|[]]; auto.
    - destruct (first_announcer o <? first_announcer y).
      + destruct H as [H|H]; auto.
      + destruct H as [H|H]; [right; left; auto|]. destruct (IH H) as [E|E]; auto. right. right. exact E.
  Qed.
  Lemma In_order_by_peer l x : In x (order_by_peer l) -> In x l.
  Proof.
    unfold order_by_peer.
    assert (G : forall l acc, In x (fold_left (fun acc o => insert_by_peer o acc) l acc) -> In x acc \/ In x l).
    { induction l0 as [|o r IH]; intros acc H; cbn [fold_left] in H; auto.
      destruct (IH _ H) as [H1|H1].
      - destruct (In_insert_by_peer _ _ _ H1) as [E|E]; [right; left; auto|left; auto].
      - right. right. exact H1. }
    intros H. destruct (G l [] H) as [[]|H1]; auto.
  Qed.

  Lemma clean_validate : forall fuel s p t first, clean s -> other t -> clean (validate_and_apply V fuel s p t first).
  Proof.
    induction fuel as [|f IH]; intros s p t first Hc Ht; cbn [validate_and_apply].
    - destruct (V (pool s) (chain s) t); try (apply clean_mempool_rejected; auto). apply clean_mempool_accepted; auto.
    - destruct (V (pool s) (chain s) t); try (apply clean_mempool_rejected; auto).
      pose proof (clean_mempool_accepted s t Hc Ht) as Hc1.
      apply clean_fold_orphans; auto.
      + intros st o Hst Ho. destruct (orph_have st (wtxid (fst o))); auto.
      + intros o Ho. apply In_order_by_peer in Ho. apply filter_In in Ho. destruct Ho as [Ho _]. apply (clean_orphans_other _ Hc1 o Ho).
  Qed.

  Lemma clean_received_tx s p t : clean s -> other t -> clean (received_tx V s p t).
  Proof.
    intros Hc Ht. unfold received_tx.
    set (s1 := tr_response s p (txid t)).
    set (s2 := if has_witness t then tr_response s1 p (wtxid t) else s1).
    assert (Hc2 : clean s2).
    { unfold s2, s1. destruct (has_witness t).
      - eapply clean_same_core; [eapply same_core_trans; apply sc_tr_response|]. exact Hc.
      - eapply clean_same_core; [apply sc_tr_response|]. exact Hc. }
    destruct (already_have s2 true (wtxid t) false); auto.
    destruct (mem (wtxid t) (recf s2)); auto. apply clean_validate; auto.
  Qed.

  Lemma clean_add_announcement s p w h : clean s -> clean (add_announcement s p w h).
  Proof.
    intros Hc. unfold add_announcement.
    destruct (if w then orph_find s h else None) as [[o a]|] eqn:E.
    - destruct (filter _ (parents o)) as [|u r]; auto.
      pose proof (sc_maybe_add s (u :: r) h p) as Hsc.
      destruct (maybe_add_candidate s (u :: r) h p) as [s1 ok]. cbn [fst] in Hsc.
      destruct ok; [|eapply clean_same_core; eauto].
      apply clean_orph_add; [eapply clean_same_core; eauto|].
      destruct w; [|discriminate].
      destruct Hc as [_ [_ [_ [H4 _]]]]. rewrite Forall_forall in H4. apply H4. eapply orph_find_In; eauto.
    - destruct (already_have s w h true); auto. destruct (negb _); auto.
      eapply clean_same_core; [apply sc_tr_inv|]. exact Hc.
  Qed.

  Lemma sc_poll_loop : forall todo s asked, same_core s (fst (poll_loop todo s asked)).
  Proof.
    induction todo as [|a r IH]; intros s asked; cbn [poll_loop]; [apply same_core_refl|].
    destruct (tr_find s (a_peer a) (a_hash a)) as [a'|]; [|apply IH].
    destruct (a_st a'); try apply IH.
    destruct (existsb _ (track s)); [apply IH|].
    destruct (already_have s (a_wtx a) (a_hash a) false).
    - eapply same_core_trans; [apply sc_tr_forget|apply IH].
    - eapply same_core_trans; [apply sc_set_track|apply IH].
  Qed.

  Lemma clean_poll s : clean s -> clean (fst (poll s)).
  Proof.
    intros Hc. unfold poll. eapply clean_same_core; [|exact Hc].
    eapply same_core_trans; [apply sc_set_track|apply sc_poll_loop].
  Qed.

  Lemma not_in_flat (txs : list tx) : Forall other txs ->
      ~ In wG (flat_map (fun b => if has_witness b then [txid b; wtxid b] else [txid b]) txs).
  Proof.
    intros H Hin. apply in_flat_map in Hin. destruct Hin as [b [Hb Hin]].
    rewrite Forall_forall in H. destruct (H b Hb) as [H1 H2].
    destruct (has_witness b); cbn [In] in Hin; intuition.
  Qed.

  Lemma sc_fold_forget txs : forall s, same_core s (fold_left (fun st b => tr_forget (tr_forget st (txid b)) (wtxid b)) txs s).
  Proof.
    induction txs as [|b r IH]; intros s; cbn [fold_left]; [apply same_core_refl|].
    eapply same_core_trans; [|apply IH]. eapply same_core_trans; apply sc_tr_forget.
  Qed.

  Lemma clean_block_connected s txs : clean s -> Forall other txs -> clean (block_connected V s txs).
  Proof.
    intros Hc Htx. unfold block_connected.
    set (s1 := set_orph s _).
    assert (Hc1 : clean s1) by (apply clean_filter_orph; auto).
    set (s2 := set_conf s1 _).
    assert (Hc2 : clean s2).
    { destruct Hc1 as [H1 [H2 [H3 [H4 H5]]]]. repeat split; auto. cbn [conf set_conf].
      intros Hin. apply in_app_or in Hin. destruct Hin as [Hin|Hin]; auto. apply (not_in_flat txs Htx Hin). }
    set (s3 := fold_left _ txs s2).
    assert (Hc3 : clean s3) by (eapply clean_same_core; [apply sc_fold_forget|exact Hc2]).
    set (s4 := set_pool s3 _).
    assert (Hc4 : clean s4).
    { destruct Hc3 as [H1 [H2 [H3 [H4 H5]]]]. repeat split; auto. cbn [pool set_pool].
      rewrite Forall_forall in *. intros x Hx. apply filter_In in Hx. apply H5. tauto. }
    set (s5 := set_chain s4 _).
    assert (Hc5 : clean s5) by (destruct Hc4 as [H1 [H2 [H3 [H4 H5]]]]; repeat split; auto).
    set (s6 := set_recf (set_rej s5 []) []).
    assert (Hc6 : clean s6).
    { apply clean_set_recf; [apply clean_set_rej; auto|]; intros []. }
    apply clean_fold_orphans; auto.
    - intros st o Hst Ho. destruct (orph_have st (wtxid (fst o))); auto. apply clean_validate; auto.
    - intros o Ho. apply In_order_by_peer in Ho. apply filter_In in Ho. destruct Ho as [Ho _]. apply (clean_orphans_other s6 Hc6 o Ho).
  Qed.

  (* events in which no delivered or confirmed transaction carries the name wG *)
  Definition ev_other (e : event) : Prop :=
    match e with
    | ETx _ t => other t
    | EBlock txs => Forall other txs
    | _ => True
    end.

  Lemma clean_step s e : clean s -> ev_other e -> clean (fst (step V s e)).
  Proof.
    intros Hc He. destruct e; cbn [step fst].
    - destruct (mem p (peers s)); auto.
    - set (s1 := set_orph s _).
      assert (Hc1 : clean s1).
      { destruct Hc as [H1 [H2 [H3 [H4 H5]]]]. repeat split; auto. unfold s1. cbn [orph set_orph].
        rewrite Forall_forall in *. intros x Hx. apply in_map_iff in Hx. destruct Hx as [o [Ho Hin]].
        apply filter_In in Hin. destruct Hin as [Hin _]. apply in_map_iff in Hin. destruct Hin as [o' [Ho' Hin']].
        apply H4. rewrite <- Ho, <- Ho'. cbn [fst]. apply in_map. exact Hin'. }
      pose proof (clean_same_core _ _ (sc_tr_disconnect s1 p) Hc1) as [H1 [H2 [H3 [H4 H5]]]].
      repeat split; auto.
    - apply clean_add_announcement; auto.
    - apply clean_received_tx; auto.
    - eapply clean_same_core; [apply sc_tr_response|]. exact Hc.
    - apply clean_poll; auto.
    - apply clean_block_connected; auto.
    - destruct Hc as [H1 [H2 [H3 [H4 H5]]]]. repeat split; auto; intros [].
  Qed.

  Lemma clean_run : forall evs s asked, clean s -> Forall ev_other evs -> clean (fst (run V s evs asked)).
  Proof.
    induction evs as [|e r IH]; intros s asked Hc Hall; cbn [run]; auto.
    inversion Hall as [|? ? He Hr]; subst.
    pose proof (clean_step s e Hc He) as Hc1.
    destruct (step V s e) as [s' a]. cbn [fst] in Hc1. apply IH; auto.
  Qed.

  Lemma clean_empty : clean dl_empty.
  Proof. repeat split; auto; constructor. Qed.

  (* what cleanliness buys *)
  Lemma clean_not_already_have s b : clean s -> already_have s true wG b = false.
  Proof.
    intros [H1 [H2 [H3 [H4 H5]]]]. unfold already_have.
    assert (Ho : orph_have s wG = false).
    { unfold orph_have, orph_find. destruct (find _ (orph s)) as [o|] eqn:E; auto.
      apply find_some in E. destruct E as [Hin He]. apply Z.eqb_eq in He.
      rewrite Forall_forall in H4. destruct (H4 (fst o) (in_map fst _ _ Hin)) as [_ Hw]. congruence. }
    assert (Hp : pool_has_wtxid s wG = false).
    { unfold pool_has_wtxid. destruct (existsb _ (pool s)) eqn:E; auto.
      apply existsb_exists in E. destruct E as [t [Hin He]]. apply Z.eqb_eq in He.
      rewrite Forall_forall in H5. destruct (H5 t Hin) as [_ Hw]. congruence. }
    rewrite Ho, Hp. apply mem_false in H1, H2, H3. rewrite H1, H2, H3. destruct b; reflexivity.
  Qed.

  (* ---------------------------------------------------------------------------------------------- *)
  (* the poll asks for wG whenever some announcement of it is a candidate *)

  Definition no_req (l : list ann) : Prop :=
    forall b, In b l -> a_hash b = wG -> a_st b <> AReq.
  Definition cand_in (todo : list ann) (s : dl) : Prop :=
    exists a a', In a todo /\ a_hash a = wG /\ tr_find s (a_peer a) wG = Some a' /\ a_st a' = ACand.

  Lemma tr_find_forget_other s h p : h <> wG -> tr_find (tr_forget s h) p wG = tr_find s p wG.
  Proof.
    intros Hne. unfold tr_find, tr_forget. cbn [track set_track].
    induction (track s) as [|b r IH]; cbn [filter find]; auto.
    destruct (Z.eqb_spec (a_hash b) h) as [E|E]; cbn [negb].
    - destruct (Z.eqb_spec (a_hash b) wG); [congruence|]. rewrite andb_false_r. exact IH.
    - cbn [find]. destruct (_ && _); auto.
  Qed.

  Definition mark_req (p h : Z) (l : list ann) : list ann :=
    map (fun b => if (a_peer b =? p) && (a_hash b =? h) then mkAnn (a_peer b) (a_hash b) (a_wtx b) AReq else b) l.

  Lemma tr_find_mark_other s p h q : h <> wG ->
      tr_find (set_track s (mark_req p h (track s))) q wG = tr_find s q wG.
  Proof.
    intros Hne. unfold tr_find, mark_req. cbn [track set_track].
    induction (track s) as [|b r IH]; cbn [map find]; auto.
    destruct (Z.eqb_spec (a_hash b) h) as [E|E].
    - (* an entry for h: its key is not (q, wG) before or after *)
      destruct (a_peer b =? p); cbn [andb a_peer a_hash];
        (destruct (Z.eqb_spec (a_hash b) wG); [congruence|]); rewrite ?andb_false_r; exact IH.
    - rewrite andb_false_r. destruct (_ && _); auto.
  Qed.

  Lemma no_req_forget s h : no_req (track s) -> no_req (track (tr_forget s h)).
  Proof.
    intros H b Hb. unfold tr_forget in Hb. cbn [track set_track] in Hb. apply filter_In in Hb. apply H. tauto.
  Qed.

  Lemma no_req_mark s p h : h <> wG -> no_req (track s) -> no_req (track (set_track s (mark_req p h (track s)))).
  Proof.
    intros Hne H b Hb Hh. cbn [track set_track] in Hb. unfold mark_req in Hb. apply in_map_iff in Hb.
    destruct Hb as [b0 [Hb0 Hin]].
    destruct ((a_peer b0 =? p) && (a_hash b0 =? h)) eqn:E.
    - apply andb_true_iff in E. destruct E as [_ E]. apply Z.eqb_eq in E. subst b. cbn [a_hash] in Hh. congruence.
    - subst b. apply H; auto.
  Qed.

  Lemma poll_loop_asks : forall todo s asked, clean s ->
      (In wG asked \/ (no_req (track s) /\ cand_in todo s)) ->
      In wG (snd (poll_loop todo s asked)).
  Proof.
    induction todo as [|x r IH]; intros s asked Hc Hinv; cbn [poll_loop].
    - destruct Hinv as [H|[_ [a [a' [[] _]]]]]; auto.
    - fold (mark_req (a_peer x) (a_hash x) (track s)).
      destruct Hinv as [Hin|[Hnr Hcand]].
      { (* already asked: stays asked *)
        assert (Hgen : forall s' asked', clean s' -> In wG asked' -> In wG (snd (poll_loop r s' asked')))
          by (intros; apply IH; auto).
        destruct (tr_find s (a_peer x) (a_hash x)) as [x'|]; [|apply Hgen; auto].
        destruct (a_st x'); try (apply Hgen; auto).
        destruct (existsb _ (track s)); [apply Hgen; auto|].
        destruct (already_have s (a_wtx x) (a_hash x) false).
        - apply Hgen; auto.
        - apply Hgen; [eapply clean_same_core; [apply sc_set_track|]; auto|apply in_or_app; auto]. }
      destruct Hcand as [a [a' [Ha [Hh [Hf Hst]]]]].
      destruct (Z.eq_dec (a_hash x) wG) as [Hx|Hx].
      + (* an announcement of wG *)
        rewrite Hx.
        destruct (tr_find s (a_peer x) wG) as [x'|] eqn:Efx.
        * destruct (a_st x') eqn:Est.
          -- (* a candidate: nobody was asked for wG yet, and it is not "already have" *)
             assert (Hex : existsb (fun b => (a_hash b =? wG) && match a_st b with AReq => true | _ => false end) (track s) = false).
             { destruct (existsb _ (track s)) eqn:E; auto. apply existsb_exists in E. destruct E as [b [Hb Hbb]].
               apply andb_true_iff in Hbb. destruct Hbb as [Hb1 Hb2]. apply Z.eqb_eq in Hb1.
               exfalso. apply (Hnr b Hb Hb1). destruct (a_st b); congruence. }
             rewrite Hex.
             assert (Hah : already_have s (a_wtx x) wG false = false).
             { destruct (a_wtx x) eqn:Ew; [apply clean_not_already_have; auto|].
               destruct Hc as [H1 [H2 [H3 [H4 H5]]]]. unfold already_have.
               assert (Ho : orph_have s wG = false).
               { unfold orph_have, orph_find. destruct (find _ (orph s)) as [o|] eqn:E; auto.
                 apply find_some in E. destruct E as [Hin He]. apply Z.eqb_eq in He.
                 rewrite Forall_forall in H4. destruct (H4 (fst o) (in_map fst _ _ Hin)) as [_ Hw]. congruence. }
               assert (Hp : pool_has_txid s wG = false).
               { unfold pool_has_txid. destruct (existsb _ (pool s)) eqn:E; auto.
                 apply existsb_exists in E. destruct E as [t [Hin He]]. apply Z.eqb_eq in He.
                 rewrite Forall_forall in H5. destruct (H5 t Hin) as [Hw _]. congruence. }
               rewrite Ho, Hp. apply mem_false in H1, H3. rewrite H1, H3. reflexivity. }
             rewrite Hah. apply IH.
             ++ eapply clean_same_core; [apply sc_set_track|]; auto.
             ++ left. apply in_or_app. right. left. reflexivity.
          -- exfalso. apply find_some in Efx. destruct Efx as [Hin Hk].
             apply andb_true_iff in Hk. destruct Hk as [_ Hk]. apply Z.eqb_eq in Hk. apply (Hnr x' Hin Hk Est).
          -- (* completed: the candidate is another announcement, later in the list *)
             apply IH; auto. right. split; auto. exists a, a'. split; auto.
             destruct Ha as [Ha|Ha]; auto. subst a. rewrite Hf in Efx. inversion Efx; subst. congruence.
        * apply IH; auto. right. split; auto. exists a, a'. split; auto.
          destruct Ha as [Ha|Ha]; auto. subst a. congruence.
      + (* an announcement of another hash: whatever happens to it leaves wG's announcements alone *)
        assert (Har : In a r) by (destruct Ha as [Ha|Ha]; auto; subst a; congruence).
        assert (Hkeep : no_req (track s) /\ cand_in r s) by (split; auto; exists a, a'; auto).
        destruct (tr_find s (a_peer x) (a_hash x)) as [x'|]; [|apply IH; auto].
        destruct (a_st x'); try (apply IH; auto).
        destruct (existsb _ (track s)); [apply IH; auto|].
        destruct (already_have s (a_wtx x) (a_hash x) false).
        * apply IH; [eapply clean_same_core; [apply sc_tr_forget|]; auto|].
          right. split; [apply no_req_forget; auto|]. exists a, a'. rewrite tr_find_forget_other by auto. auto.
        * apply IH; [eapply clean_same_core; [apply sc_set_track|]; auto|].
          right. split; [apply no_req_mark; auto|]. exists a, a'. rewrite tr_find_mark_other by auto. auto.
  Qed.

  (* expiry leaves candidates candidates and leaves nothing requested *)
  Lemma expire_no_req l : no_req (tr_expire l).
  Proof.
    intros b Hb _. unfold tr_expire, tr_gc in Hb. apply filter_In in Hb. destruct Hb as [Hb _].
    apply in_map_iff in Hb. destruct Hb as [b0 [Hb0 _]]. destruct (a_st b0) eqn:E; subst b; cbn [a_st]; congruence.
  Qed.

  Lemma expire_keeps_cand l a : In a l -> a_hash a = wG -> a_st a = ACand -> In a (tr_expire l).
  Proof.
    intros Hin Hh Hst. unfold tr_expire, tr_gc.
    set (l1 := map _ l).
    assert (Hin1 : In a l1).
    { unfold l1. apply in_map_iff. exists a. rewrite Hst. auto. }
    apply filter_In. split; auto. unfold tr_live. apply existsb_exists. exists a. split; auto.
    rewrite Z.eqb_refl, Hst. reflexivity.
  Qed.

  Lemma find_map_key (k : ann -> bool) (e : ann -> ann) l : (forall b, k (e b) = k b) ->
      find k (map e l) = option_map e (find k l).
  Proof.
    intros Hk. induction l as [|b r IH]; cbn [map find option_map]; auto.
    rewrite Hk. destruct (k b); auto.
  Qed.

  Lemma find_filter_keep (k f : ann -> bool) l a : find k l = Some a -> (forall b, k b = true -> f b = true) ->
      find k (filter f l) = Some a.
  Proof.
    intros Hf Hall. induction l as [|b r IH]; cbn [find filter] in *; [discriminate|].
    destruct (k b) eqn:Ek.
    - inversion Hf; subst. rewrite (Hall a Ek). cbn [find]. rewrite Ek. reflexivity.
    - destruct (f b); cbn [find]; rewrite ?Ek; auto.
  Qed.

  Lemma tr_find_expire s p a : tr_find s p wG = Some a -> a_st a = ACand ->
      tr_find (set_track s (tr_expire (track s))) p wG = Some a.
  Proof.
    intros Hf Hst. unfold tr_find in *. cbn [track set_track]. unfold tr_expire, tr_gc.
    set (e := fun a0 : ann => match a_st a0 with AReq => mkAnn (a_peer a0) (a_hash a0) (a_wtx a0) ADone | _ => a0 end).
    set (k := fun a0 : ann => (a_peer a0 =? p) && (a_hash a0 =? wG)).
    assert (Hm : find k (map e (track s)) = Some a).
    { rewrite find_map_key.
      - fold k in Hf. rewrite Hf. cbn [option_map]. unfold e. rewrite Hst. reflexivity.
      - intros b. unfold e, k. destruct (a_st b); reflexivity. }
    apply find_filter_keep; auto.
    intros b Hb. unfold k in Hb. apply andb_true_iff in Hb. destruct Hb as [_ Hb]. apply Z.eqb_eq in Hb.
    unfold tr_live. apply existsb_exists. exists a. apply find_some in Hm. destruct Hm as [Hin Hka].
    split; auto. unfold k in Hka. apply andb_true_iff in Hka. destruct Hka as [_ Hka].
    rewrite Hb. rewrite Hka, Hst. reflexivity.
  Qed.

  (* THEOREM: while nothing carrying the name wG has been delivered, a poll asks for wG as soon as some peer's
     announcement of it is a candidate. *)
  Theorem poll_asks s p a : clean s -> tr_find s p wG = Some a -> a_st a = ACand -> In wG (snd (poll s)).
  Proof.
    intros Hc Hf Hst. unfold poll.
    set (s1 := set_track s (tr_expire (track s))).
    pose proof (tr_find_expire s p a Hf Hst) as Hf1. fold s1 in Hf1.
    apply poll_loop_asks.
    - eapply clean_same_core; [apply sc_set_track|]; auto.
    - right. split; [apply expire_no_req|].
      pose proof Hf1 as Hsome. unfold tr_find in Hsome. apply find_some in Hsome. destruct Hsome as [Hin Hk].
      apply andb_true_iff in Hk. destruct Hk as [Hk1 Hk2]. apply Z.eqb_eq in Hk1, Hk2.
      exists a, a. split; auto. split; auto. split; auto. rewrite Hk1. exact Hf1.
  Qed.

  (* THEOREM: an announcement of wG by its wtxid from a connected peer is recorded as a candidate (never dropped
     as "already have", never diverted into orphan resolution) *)
  Theorem genuine_announcement_tracked s p : clean s -> mem p (peers s) = true -> tr_find s p wG = None ->
      tr_find (add_announcement s p true wG) p wG = Some (mkAnn p wG true ACand).
  Proof.
    intros Hc Hp Hn. unfold add_announcement.
    assert (Ho : orph_find s wG = None).
    { pose proof (clean_not_already_have s false Hc) as Hah. unfold already_have in Hah.
      unfold orph_have in Hah. destruct (orph_find s wG); auto. discriminate. }
    rewrite Ho. rewrite (clean_not_already_have s true Hc). rewrite Hp. cbn [negb].
    unfold tr_inv. rewrite Hn. unfold tr_find in *. cbn [track set_track].
    induction (track s) as [|b r IH]; cbn [app find] in *.
    - cbn [a_peer a_hash]. rewrite !Z.eqb_refl. reflexivity.
    - destruct ((a_peer b =? p) && (a_hash b =? wG)); [discriminate|]. apply IH. exact Hn.
  Qed.

  (* the mempool only grows while transactions are validated *)
  Lemma pool_fold_inv ups : forall s p, pool (fold_left (fun st par => tr_inv st p par false) ups s) = pool s.
  Proof.
    induction ups as [|u r IH]; intros s p; cbn [fold_left]; auto. rewrite IH.
    unfold tr_inv. destruct (tr_find s p u); reflexivity.
  Qed.
  Lemma pool_maybe_add s ups w p : pool (fst (maybe_add_candidate s ups w p)) = pool s.
  Proof.
    unfold maybe_add_candidate. destruct (negb _); auto. destruct (orph_from_peer _ _ _); auto.
    cbn [fst]. apply pool_fold_inv.
  Qed.
  Lemma pool_orph_add s t p : pool (orph_add s t p) = pool s.
  Proof. unfold orph_add. destruct (orph_have _ _); reflexivity. Qed.
  Lemma pool_fold_cands cands : forall s ups t,
      pool (fold_left (fun st q => let (st', ok) := maybe_add_candidate st ups (wtxid t) q in
                                   if ok then orph_add st' t q else st') cands s) = pool s.
  Proof.
    induction cands as [|q r IH]; intros s ups t; cbn [fold_left]; auto. rewrite IH.
    pose proof (pool_maybe_add s ups (wtxid t) q) as H.
    destruct (maybe_add_candidate s ups (wtxid t) q) as [st' ok]. cbn [fst] in H.
    destruct ok; [rewrite pool_orph_add|]; exact H.
  Qed.
  Lemma pool_mempool_rejected s t r p first : pool (mempool_rejected s t r p first) = pool s.
  Proof.
    unfold mempool_rejected.
    destruct r; try reflexivity.
    - destruct (first && _); [|reflexivity]. cbv zeta. destruct (negb _); [|reflexivity].
      cbn [pool tr_forget set_track]. apply pool_fold_cands.
    - cbv zeta. destruct (has_witness t); reflexivity.
  Qed.
  Lemma pool_fold_mono (F : dl -> tx * list Z -> dl) x :
      (forall st o, In x (pool st) -> In x (pool (F st o))) ->
      forall l s, In x (pool s) -> In x (pool (fold_left F l s)).
  Proof. intros HF. induction l as [|o r IH]; intros s H; cbn [fold_left]; auto. Qed.
  Lemma pool_validate_mono x : forall fuel s p t first, In x (pool s) -> In x (pool (validate_and_apply V fuel s p t first)).
  Proof.
    induction fuel as [|f IH]; intros s p t first Hx; cbn [validate_and_apply].
    - destruct (V (pool s) (chain s) t); try (rewrite pool_mempool_rejected; auto).
      unfold mempool_accepted. cbn [pool set_pool orph_erase set_orph tr_forget set_track]. apply in_or_app. auto.
    - destruct (V (pool s) (chain s) t); try (rewrite pool_mempool_rejected; auto).
      apply pool_fold_mono.
      + intros st o Hst. destruct (orph_have st (wtxid (fst o))); auto.
      + unfold mempool_accepted. cbn [pool set_pool orph_erase set_orph tr_forget set_track]. apply in_or_app. auto.
  Qed.

  (* THEOREM: when the genuine transaction arrives it is validated (not dropped as "already have" / reconsiderable)
     and, if validation accepts it, it is in the mempool afterwards *)
  Theorem genuine_accepted s p g : clean s -> wtxid g = wG ->
      (forall s', pool s' = pool s -> chain s' = chain s -> V (pool s') (chain s') g = VOk) ->
      In g (pool (received_tx V s p g)).
  Proof.
    intros Hc Hw HV. unfold received_tx.
    set (s1 := tr_response s p (txid g)).
    set (s2 := if has_witness g then tr_response s1 p (wtxid g) else s1).
    assert (Hsc : same_core s s2).
    { unfold s2, s1. destruct (has_witness g); [eapply same_core_trans|]; apply sc_tr_response. }
    assert (Hc2 : clean s2) by (eapply clean_same_core; eauto).
    assert (Hch : chain s2 = chain s) by (unfold s2, s1; destruct (has_witness g); reflexivity).
    rewrite Hw. rewrite (clean_not_already_have s2 false Hc2).
    destruct Hc2 as [_ [Hr _]]. apply mem_false in Hr. rewrite Hr.
    destruct Hsc as [_ [_ [_ [_ Hp]]]].
    pose proof (HV s2 Hp Hch) as Hok.
    destruct (length (orph s2)) as [|f]; cbn [validate_and_apply]; rewrite Hok.
    - unfold mempool_accepted. cbn [pool set_pool orph_erase set_orph tr_forget set_track]. apply in_or_app. right. left. reflexivity.
    - apply pool_fold_mono.
      + intros st o Hst. destruct (orph_have st (wtxid (fst o))); auto. apply pool_validate_mono. exact Hst.
      + unfold mempool_accepted. cbn [pool set_pool orph_erase set_orph tr_forget set_track]. apply in_or_app. right. left. reflexivity.
  Qed.
  End WithV.
End Fresh.
