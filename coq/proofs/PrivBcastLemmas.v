(* C39 (private broadcast part): invariants of the PrivateBroadcast model over all operation sequences. *)
From BV Require Import lib.Ints model.PrivBcast.
Local Open Scope Z_scope.

(* ---- the priority order is a strict order ---- *)
Definition pkey_lt (a b : prio) : Prop :=
  p_np a < p_np b \/ (p_np a = p_np b /\ (p_nc a < p_nc b \/ (p_nc a = p_nc b /\ (p_lp a < p_lp b \/ (p_lp a = p_lp b /\ p_lc a < p_lc b))))).
Lemma prio_lt_spec a b : prio_lt a b = true <-> pkey_lt b a.
Proof.
  unfold prio_lt, pkey_lt.
  destruct (p_np b <? p_np a) eqn:E1; [apply Z.ltb_lt in E1; split; auto|]. apply Z.ltb_ge in E1.
  destruct (p_np a <? p_np b) eqn:E2; [apply Z.ltb_lt in E2; split; [discriminate | lia]|]. apply Z.ltb_ge in E2.
  destruct (p_nc b <? p_nc a) eqn:E3; [apply Z.ltb_lt in E3; split; [intros _; right; split; [lia | auto] | auto]|]. apply Z.ltb_ge in E3.
  destruct (p_nc a <? p_nc b) eqn:E4; [apply Z.ltb_lt in E4; split; [discriminate | lia]|]. apply Z.ltb_ge in E4.
  destruct (p_lp b <? p_lp a) eqn:E5; [apply Z.ltb_lt in E5; split; [intros _; right; split; [lia|]; right; split; [lia | auto] | auto]|]. apply Z.ltb_ge in E5.
  destruct (p_lp a <? p_lp b) eqn:E6; [apply Z.ltb_lt in E6; split; [discriminate | lia]|]. apply Z.ltb_ge in E6.
  rewrite Z.ltb_lt. split; [intros H; right; split; [lia|]; right; split; [lia|]; right; split; [lia | auto] | lia].
Qed.
Lemma prio_lt_irrefl a : prio_lt a a = false.
Proof. destruct (prio_lt a a) eqn:E; auto. apply prio_lt_spec in E. unfold pkey_lt in E. lia. Qed.
Lemma prio_lt_trans a b d : prio_lt a b = true -> prio_lt b d = true -> prio_lt a d = true.
Proof. rewrite !prio_lt_spec. unfold pkey_lt. lia. Qed.

(* a non-empty finite set has a maximal element *)
Lemma maximal_exists {A} (lt : A -> A -> bool) (l : list A) :
  (forall a, lt a a = false) -> (forall a b d, lt a b = true -> lt b d = true -> lt a d = true) ->
  l <> [] -> exists m, In m l /\ forall x, In x l -> lt m x = false.
Proof.
  intros IR TR. induction l as [|a r IH]; [congruence|]. intros _. destruct r as [|b r'].
  - exists a. split; [left; auto|]. intros x [<-|[]]. apply IR.
  - destruct IH as (m & I & M); [discriminate|]. destruct (lt m a) eqn:E.
    + exists a. split; [left; auto|]. intros x [<-|Ix]; [apply IR|]. destruct (lt a x) eqn:E2; auto.
      pose proof (TR m a x E E2) as Q. rewrite (M x Ix) in Q. discriminate.
    + exists m. split; [right; auto|]. intros x [<-|Ix]; auto.
Qed.

Lemma NoDup_snoc {A} (l : list A) x : NoDup l -> ~ In x l -> NoDup (l ++ [x]).
Proof. induction l as [|y r IH]; simpl; intros ND H; [constructor; [simpl; tauto | constructor]|].
  inversion ND; subst. constructor; [rewrite in_app_iff; simpl; intros [I|[I|[]]]; [auto | subst; apply H; auto] | apply IH; auto]. Qed.

Section PBL.
  Variable max_tx : Z.
  Variable max_send : Z.
  Hypothesis H_tx : 0 <= max_tx.
  Hypothesis H_send : 0 <= max_send.

  Notation is_pending := (is_pending max_send).
  Notation pb_add := (pb_add max_tx max_send).
  Notation pb_pick := (pb_pick max_send).
  Notation pick_candidates := (pick_candidates max_send).

  (* number of send statuses recorded for a node id, over all transactions *)
  Definition scount (n : Z) (l : list sstat) : Z := Z.of_nat (length (filter (fun s => ss_node s =? n) l)).
  Fixpoint ncount (n : Z) (pb : pbst) : Z := match pb with [] => 0 | e :: r => scount n (t_stats e) + ncount n r end.

  Record PInv (pb : pbst) : Prop := mkPInv {
    P_nd : NoDup (map t_tx pb);
    P_len : Z.of_nat (length pb) <= max_tx;
    P_send : forall e, In e pb -> Z.of_nat (length (t_stats e)) <= max_send;
    P_nodes : forall n, ncount n pb <= 1
  }.

  Lemma PInv_nil : PInv [].
  Proof. constructor; simpl; try constructor; try lia; try tauto. Qed.
  Lemma scount_nonneg n l : 0 <= scount n l. Proof. unfold scount. lia. Qed.
  Lemma ncount_nonneg n pb : 0 <= ncount n pb. Proof. induction pb; simpl; [lia|]. pose proof (scount_nonneg n (t_stats a)). lia. Qed.

  (* ---- find / update / delete ---- *)
  Lemma find_tx_In tx pb e : find_tx tx pb = Some e -> In e pb /\ t_tx e = tx.
  Proof. induction pb as [|x r IH]; simpl; [discriminate|]. destruct (t_tx x =? tx) eqn:E.
    - intros H. injection H as <-. apply Z.eqb_eq in E. auto.
    - intros H. destruct (IH H). auto. Qed.
  Lemma find_tx_None tx pb : find_tx tx pb = None -> ~ In tx (map t_tx pb).
  Proof. induction pb as [|x r IH]; simpl; [tauto|]. destruct (t_tx x =? tx) eqn:E; [discriminate|]. apply Z.eqb_neq in E. intros H [I|I]; [congruence | apply IH; auto]. Qed.
  Lemma In_find_tx pb e : NoDup (map t_tx pb) -> In e pb -> find_tx (t_tx e) pb = Some e.
  Proof. induction pb as [|x r IH]; simpl; [tauto|]. intros ND [->|I]; [rewrite Z.eqb_refl; auto|].
    inversion ND; subst. destruct (t_tx x =? t_tx e) eqn:E; [|auto]. apply Z.eqb_eq in E. exfalso. apply H1. rewrite E. apply in_map. auto. Qed.
  Lemma upd_tx_keys tx f pb : (forall e, t_tx (f e) = t_tx e) -> map t_tx (upd_tx tx f pb) = map t_tx pb.
  Proof. intros H. induction pb as [|x r IH]; simpl; auto. destruct (t_tx x =? tx); simpl; [rewrite H | rewrite IH]; auto. Qed.
  Lemma upd_tx_len tx f pb : length (upd_tx tx f pb) = length pb.
  Proof. induction pb as [|x r IH]; simpl; auto. destruct (t_tx x =? tx); simpl; auto. Qed.
  Lemma upd_tx_In tx f pb e : In e (upd_tx tx f pb) -> In e pb \/ exists e0, In e0 pb /\ t_tx e0 = tx /\ e = f e0.
  Proof. induction pb as [|x r IH]; simpl; [tauto|]. destruct (t_tx x =? tx) eqn:E; simpl.
    - apply Z.eqb_eq in E. intros [<-|I]; [right; exists x; auto | auto].
    - intros [<-|I]; [auto|]. destruct (IH I) as [H|(e0 & A & B & C)]; [auto | right; exists e0; auto]. Qed.
  Lemma del_tx_incl tx pb e : In e (del_tx tx pb) -> In e pb.
  Proof. induction pb as [|x r IH]; simpl; [tauto|]. destruct (t_tx x =? tx); simpl; [auto | intros [H|H]; auto]. Qed.
  Lemma del_tx_keys_nodup tx pb : NoDup (map t_tx pb) -> NoDup (map t_tx (del_tx tx pb)).
  Proof. induction pb as [|x r IH]; simpl; auto. intros ND. inversion ND; subst. destruct (t_tx x =? tx); simpl; auto.
    constructor; auto. intros I. apply H1. apply in_map_iff in I. destruct I as (y & E & I). apply in_map_iff. exists y. split; auto. eapply del_tx_incl; eauto. Qed.
  Lemma del_tx_len tx pb : (length (del_tx tx pb) <= length pb)%nat.
  Proof. induction pb as [|x r IH]; simpl; auto. destruct (t_tx x =? tx); simpl; lia. Qed.

  (* node counts under the list operations *)
  Lemma ncount_upd n tx f pb : NoDup (map t_tx pb) ->
    ncount n (upd_tx tx f pb) = ncount n pb + match find_tx tx pb with Some e => scount n (t_stats (f e)) - scount n (t_stats e) | None => 0 end.
  Proof. induction pb as [|x r IH]; simpl; [lia|]. intros ND. inversion ND; subst. destruct (t_tx x =? tx); simpl; [lia|]. rewrite IH; auto. lia. Qed.
  Lemma ncount_del n tx pb : ncount n (del_tx tx pb) <= ncount n pb.
  Proof. induction pb as [|x r IH]; simpl; [lia|]. pose proof (scount_nonneg n (t_stats x)). destruct (t_tx x =? tx); simpl; lia. Qed.
  Lemma ncount_app n a b : ncount n (a ++ b) = ncount n a + ncount n b.
  Proof. induction a; simpl; lia. Qed.
  Lemma scount_app n a b : scount n (a ++ b) = scount n a + scount n b.
  Proof. unfold scount. rewrite filter_app, app_length. lia. Qed.
  Lemma find_node_none n pb : find_node n pb = None <-> ncount n pb = 0.
  Proof.
    induction pb as [|x r IH]; simpl; [tauto|]. pose proof (ncount_nonneg n r). pose proof (scount_nonneg n (t_stats x)).
    destruct (find (fun s => ss_node s =? n) (t_stats x)) as [s|] eqn:F.
    - split; [discriminate|]. intros E. exfalso. apply find_some in F. destruct F as [I Q].
      assert (0 < scount n (t_stats x)); [|lia]. unfold scount. assert (In s (filter (fun s0 => ss_node s0 =? n) (t_stats x))) by (apply filter_In; auto).
      destruct (filter (fun s0 => ss_node s0 =? n) (t_stats x)); [contradiction | simpl; lia].
    - assert (scount n (t_stats x) = 0).
      { unfold scount. assert (filter (fun s => ss_node s =? n) (t_stats x) = []) as ->; [|reflexivity].
        destruct (filter (fun s => ss_node s =? n) (t_stats x)) as [|y l] eqn:E; auto. exfalso.
        assert (In y (filter (fun s => ss_node s =? n) (t_stats x))) by (rewrite E; left; auto). apply filter_In in H1. destruct H1.
        pose proof (find_none _ _ F y H1). simpl in H3. congruence. }
      rewrite IH. lia.
  Qed.
  Lemma find_node_some n pb tx s : find_node n pb = Some (tx, s) -> exists e, In e pb /\ t_tx e = tx /\ In s (t_stats e) /\ ss_node s = n.
  Proof. induction pb as [|x r IH]; simpl; [discriminate|]. destruct (find (fun s0 => ss_node s0 =? n) (t_stats x)) as [s0|] eqn:F.
    - intros H. injection H as <- <-. apply find_some in F. destruct F as [I Q]. apply Z.eqb_eq in Q. exists x. auto.
    - intros H. destruct (IH H) as (e & A & B). exists e. tauto. Qed.
  Lemma scount_confirm n node now l : scount n (confirm_first node now l) = scount n l.
  Proof. unfold scount. induction l as [|s r IH]; simpl; auto. destruct (ss_node s =? node); simpl; [destruct (ss_node s =? n); simpl; auto|].
    destruct (ss_node s =? n); simpl; lia. Qed.
  Lemma length_confirm node now l : length (confirm_first node now l) = length l.
  Proof. induction l as [|s r IH]; simpl; auto. destruct (ss_node s =? node); simpl; auto. Qed.

  Lemma add_inv pb tx now : PInv pb -> PInv (fst (pb_add pb tx now)).
  Proof.
    intros [A B C D]. unfold PrivBcast.pb_add. destruct (find_tx tx pb) as [e|] eqn:F.
    - destruct (is_pending e); simpl; [constructor; auto|]. constructor.
      + rewrite upd_tx_keys; auto.
      + rewrite upd_tx_len. auto.
      + intros x I. apply upd_tx_In in I. destruct I as [I|(e0 & I & _ & ->)]; [auto | simpl; lia].
      + intros n. rewrite ncount_upd by auto. rewrite F. simpl. pose proof (scount_nonneg n (t_stats e)). specialize (D n). unfold scount at 1. simpl. lia.
    - destruct (Z.of_nat (length pb) >=? max_tx) eqn:E; simpl; [constructor; auto|]. rewrite Z.geb_leb in E. apply Z.leb_gt in E. constructor.
      + rewrite map_app. simpl. apply NoDup_snoc; auto. apply find_tx_None in F. auto.
      + rewrite app_length. simpl. lia.
      + intros x I. apply in_app_iff in I. destruct I as [I|[<-|[]]]; [auto | simpl; lia].
      + intros n. rewrite ncount_app. simpl. unfold scount. simpl. specialize (D n). lia.
  Qed.
  (* the queue never holds more than m_max_transactions entries *)
  Lemma add_bounded pb tx now : PInv pb -> Z.of_nat (length (fst (pb_add pb tx now))) <= max_tx.
  Proof. intros H. apply (P_len _ (add_inv pb tx now H)). Qed.

  (* ---- Remove ---- *)
  Lemma remove_inv pb tx : PInv pb -> PInv (fst (pb_remove pb tx)).
  Proof.
    intros [A B C D]. unfold pb_remove. destruct (find_tx tx pb) as [e|] eqn:F; simpl; [|constructor; auto]. constructor.
    - apply del_tx_keys_nodup; auto.
    - pose proof (del_tx_len tx pb). lia.
    - intros x I. apply C. eapply del_tx_incl; eauto.
    - intros n. pose proof (ncount_del n tx pb). specialize (D n). lia.
  Qed.
  Lemma remove_result pb tx : PInv pb ->
    match snd (pb_remove pb tx) with
    | Some nconf => exists e, In e pb /\ t_tx e = tx /\ nconf = p_nc (derive_priority (t_stats e)) /\ find_tx tx (fst (pb_remove pb tx)) = None
    | None => ~ In tx (map t_tx pb)
    end.
  Proof.
    intros [A B C D]. unfold pb_remove. destruct (find_tx tx pb) as [e|] eqn:F; simpl; [|apply find_tx_None; auto].
    destruct (find_tx_In _ _ _ F) as [I K]. exists e. split; [auto|]. split; [auto|]. split; [auto|].
    clear - A. induction pb as [|x r IH]; simpl; auto. inversion A; subst. destruct (t_tx x =? tx) eqn:E; simpl.
    - apply Z.eqb_eq in E. destruct (find_tx tx r) as [y|] eqn:F; auto. destruct (find_tx_In _ _ _ F) as [I K]. exfalso. apply H1. rewrite E, <- K. apply in_map. auto.
    - rewrite E. auto.
  Qed.

  (* ---- PickTxForSend ---- *)
  Lemma candidates_spec pb tx : In tx (pick_candidates pb) <->
    exists e, In e pb /\ t_tx e = tx /\ is_pending e = true /\
              forall x, In x pb -> is_pending x = true -> prio_lt (derive_priority (t_stats e)) (derive_priority (t_stats x)) = false.
  Proof.
    unfold PrivBcast.pick_candidates. rewrite in_map_iff. split.
    - intros (e & K & I). apply filter_In in I. destruct I as [I M]. apply filter_In in I. destruct I as [I P].
      exists e. split; [auto|]. split; [auto|]. split; [auto|]. intros x Ix Px. apply negb_true_iff in M.
      destruct (prio_lt _ _) eqn:E; auto. exfalso. assert (existsb (fun x0 => prio_lt (derive_priority (t_stats e)) (derive_priority (t_stats x0))) (filter is_pending pb) = true); [|congruence].
      apply existsb_exists. exists x. split; auto. apply filter_In. auto.
    - intros (e & I & K & P & M). exists e. split; auto. apply filter_In. split; [apply filter_In; auto|]. apply negb_true_iff.
      destruct (existsb _ _) eqn:E; auto. apply existsb_exists in E. destruct E as (x & Ix & Q). apply filter_In in Ix. destruct Ix. rewrite M in Q; auto.
  Qed.
  Lemma candidates_nonempty pb : existsb is_pending pb = true -> pick_candidates pb <> [].
  Proof.
    intros H. apply existsb_exists in H. destruct H as (e0 & I0 & P0).
    destruct (maximal_exists (fun a b : txst => prio_lt (derive_priority (t_stats a)) (derive_priority (t_stats b))) (filter is_pending pb)) as (m & Im & M).
    - intros a. apply prio_lt_irrefl.
    - intros a b d. apply prio_lt_trans.
    - intros E. assert (In e0 (filter is_pending pb)) by (apply filter_In; auto). rewrite E in H. contradiction.
    - apply filter_In in Im. destruct Im as [Im Pm]. intros E.
      assert (In (t_tx m) (pick_candidates pb)); [|rewrite E in H; contradiction].
      apply candidates_spec. exists m. split; [auto|]. split; [auto|]. split; [auto|]. intros x Ix Px. apply M. apply filter_In. auto.
  Qed.

  Definition appended (node addr now : Z) (e : txst) : txst := mkTxst (t_tx e) (t_added e) (t_stats e ++ [mkSstat node addr now None]).

  Theorem pick_spec pb node addr now choice : PInv pb ->
    let '(pb', r) := pb_pick pb node addr now choice in
    PInv pb' /\
    match r with
    | Some tx =>
      (* the node has not been sent anything before; the transaction is pending and of maximal priority; exactly one send status is added to it *)
      ncount node pb = 0 /\ In tx (pick_candidates pb) /\ pb' = upd_tx tx (appended node addr now) pb /\ pb_tx_for_node pb' node = Some tx
    | None => pb' = pb /\ (ncount node pb = 1 \/ existsb is_pending pb = false)
    end.
  Proof.
    intros PI. pose proof PI as [A B C D]. unfold PrivBcast.pb_pick. destruct (find_node node pb) as [[t s]|] eqn:FN.
    - split; [auto|]. split; [auto|]. left. pose proof (D node). pose proof (ncount_nonneg node pb).
      destruct (Z.eq_dec (ncount node pb) 0) as [E|E]; [apply find_node_none in E; congruence | lia].
    - apply find_node_none in FN. destruct (pick_candidates pb) as [|c0 cr] eqn:PC.
      + split; [auto|]. split; [auto|]. right. destruct (existsb is_pending pb) eqn:E; auto. apply candidates_nonempty in E. congruence.
      + set (tx := if existsb (Z.eqb choice) (c0 :: cr) then choice else c0).
        assert (IC : In tx (pick_candidates pb)).
        { rewrite PC. unfold tx. destruct (existsb (Z.eqb choice) (c0 :: cr)) eqn:E; [|left; auto].
          apply existsb_exists in E. destruct E as (y & Iy & Q). apply Z.eqb_eq in Q. subst. auto. }
        destruct (proj1 (candidates_spec pb tx) IC) as (e & Ie & Ke & Pe & Me).
        assert (Fe : find_tx tx pb = Some e) by (rewrite <- Ke; apply In_find_tx; auto).
        assert (PI' : PInv (upd_tx tx (appended node addr now) pb)).
        { constructor.
          - rewrite upd_tx_keys; auto.
          - rewrite upd_tx_len. auto.
          - intros x I. apply upd_tx_In in I. destruct I as [I|(e0 & I & K0 & ->)]; [auto|].
            assert (e0 = e). { rewrite <- K0 in Fe. rewrite (In_find_tx pb e0 A I) in Fe. congruence. } subst e0.
            unfold appended; simpl. rewrite app_length. simpl. unfold PrivBcast.is_pending in Pe. apply Z.ltb_lt in Pe. lia.
          - intros n. rewrite ncount_upd by auto. rewrite Fe. unfold appended; simpl. rewrite scount_app. unfold scount at 2. simpl.
            destruct (node =? n) eqn:E; simpl; [apply Z.eqb_eq in E; subst n; lia | specialize (D n); lia]. }
        split; [exact PI'|]. split; [auto|]. split; [rewrite <- PC; exact IC|]. split; [reflexivity|].
        (* the node now maps to tx *)
        change (upd_tx tx (fun e0 : txst => mkTxst (t_tx e0) (t_added e0) (t_stats e0 ++ [mkSstat node addr now None])) pb) with (upd_tx tx (appended node addr now) pb).
        unfold pb_tx_for_node. destruct (find_node node (upd_tx tx (appended node addr now) pb)) as [[t s]|] eqn:FN2.
        * destruct (find_node_some _ _ _ _ FN2) as (x & Ix & Kx & Is & Ns). apply upd_tx_In in Ix. destruct Ix as [Ix|(e0 & I0 & K0 & ->)].
          -- exfalso. (* an old entry cannot mention the node *)
             assert (0 < scount node (t_stats x)).
             { unfold scount. assert (In s (filter (fun s0 => ss_node s0 =? node) (t_stats x))) by (apply filter_In; split; auto; apply Z.eqb_eq; auto).
               destruct (filter _ (t_stats x)); [contradiction | simpl; lia]. }
             assert (scount node (t_stats x) <= ncount node pb); [|lia].
             clear - Ix. induction pb as [|y r IH]; simpl; [contradiction|]. destruct Ix as [->|Ix]; [pose proof (ncount_nonneg node r); lia|].
             specialize (IH Ix). pose proof (scount_nonneg node (t_stats y)). lia.
          -- simpl in Kx. f_equal. congruence.
        * exfalso. apply find_node_none in FN2. rewrite ncount_upd in FN2 by auto. rewrite Fe in FN2. unfold appended in FN2; simpl in FN2.
          rewrite scount_app in FN2. unfold scount at 2 in FN2. simpl in FN2. rewrite Z.eqb_refl in FN2. simpl in FN2. lia.
  Qed.

  (* ---- NodeConfirmedReception ---- *)
  Lemma confirm_inv pb node now : PInv pb -> PInv (pb_confirm pb node now).
  Proof.
    intros [A B C D]. unfold pb_confirm. destruct (find_node node pb) as [[tx s]|] eqn:FN; [|constructor; auto]. constructor.
    - rewrite upd_tx_keys; auto.
    - rewrite upd_tx_len. auto.
    - intros x I. apply upd_tx_In in I. destruct I as [I|(e0 & I & K0 & ->)]; [auto|]. simpl. rewrite length_confirm. auto.
    - intros n. rewrite ncount_upd by auto. destruct (find_tx tx pb); simpl; [rewrite scount_confirm|]; specialize (D n); lia.
  Qed.

  (* ---- all operation sequences ---- *)
  Inductive pbop : Type := PAdd (tx now : Z) | PRemove (tx : Z) | PPick (node addr now choice : Z) | PConfirm (node now : Z).
  Definition pb_step (pb : pbst) (o : pbop) : pbst :=
    match o with
    | PAdd tx now => fst (pb_add pb tx now)
    | PRemove tx => fst (pb_remove pb tx)
    | PPick node addr now choice => fst (pb_pick pb node addr now choice)
    | PConfirm node now => pb_confirm pb node now
    end.
  Theorem run_inv ops : PInv (fold_left pb_step ops []).
  Proof.
    assert (G : forall pb, PInv pb -> PInv (fold_left pb_step ops pb)); [|apply G; apply PInv_nil].
    induction ops as [|o r IH]; intros pb PI; simpl; auto. apply IH. destruct o; simpl.
    - apply add_inv; auto.
    - apply remove_inv; auto.
    - pose proof (pick_spec pb node addr now choice PI) as Q. destruct (pb_pick pb node addr now choice). simpl. tauto.
    - apply confirm_inv; auto.
  Qed.
End PBL.
