(* C32, v2 message type encoding: short id table (generated = BIP324), encode/decode round trip, unknown ids. *)
From Coq Require Import NArith.
From BV Require Import lib.Ints gen.Params_gen model.Transport proofs.TransportNode proofs.TransportV1.
Local Open Scope nat_scope.

(* the table compiled into net.cpp, as GetMessageType decodes it, is the specification table *)
Lemma shortid_table_generated_is_bip324 :
  TR_V2_SHORTID_DECODE = map Some BIP324_SHORT_IDS ++ repeat None (255 - length BIP324_SHORT_IDS).
Proof. vm_compute. reflexivity. Qed.

Lemma shortid_count : Z.of_nat (Datatypes.S (length BIP324_SHORT_IDS)) = TR_SHORTIDS_IMPLEMENTED.
Proof. reflexivity. Qed.

Lemma find_id_spec : forall l i t j, find_id l i t = Some j ->
    exists k, j = (i + N.of_nat k)%N /\ nth_error l k = Some t.
Proof.
  induction l as [|x l IH]; intros i t j H; cbn [find_id] in H; [discriminate|].
  destruct (bytes_eqb x t) eqn:E.
  - inversion H; subst. exists 0. split; [cbn; lia|]. apply bytes_eqb_eq in E. subst. reflexivity.
  - destruct (IH _ _ _ H) as [k [Hj Hn]]. exists (Datatypes.S k). split; auto. lia.
Qed.

Section Ids.
  Variable ids : list (list N).

  (* THEOREM (v2 type encoding round trip): for every table, every sendable type (at most 12 characters in
     0x20..0x7F) and every payload, what SetMessageToSend puts into a packet decodes in GetReceivedMessage to
     the same type and payload — by short id when the table has the type, by the 12-byte form otherwise. *)
  Lemma v2_contents_roundtrip t p : type_ok 127 t ->
      v2_get_received_message ids (v2_contents ids t p) = Delivered t p.
  Proof.
    intros [Hl Hc]. unfold v2_get_received_message, v2_contents, v2_short_id.
    destruct (find_id ids 1 t) as [j|] eqn:E.
    - destruct (find_id_spec _ _ _ _ E) as [k [Hj Hn]].
      unfold v2_get_message_type.
      assert (Hj0 : N.eqb j 0 = false) by (apply N.eqb_neq; lia). rewrite Hj0. cbn [negb].
      replace (N.to_nat j - 1) with k by lia. rewrite Hn. reflexivity.
    - unfold v2_get_message_type. change (N.eqb 0 0) with true. cbn [negb].
      pose proof (pad_type_length t Hl) as Hp.
      rewrite MESSAGE_TYPE_SIZE_12 in Hl |- *.
      destruct (Nat.ltb_spec (length (pad_type t ++ p)) 12) as [Hlt|_]; [rewrite app_length in Hlt; lia|].
      rewrite firstn_app_exact, skipn_app_exact by auto.
      unfold pad_type. rewrite type_chars_valid_pad by auto. rewrite (until_nul_pad _ _ 127) by auto. reflexivity.
  Qed.

  (* THEOREM (unknown short ids are rejected): a first byte beyond the table never decodes *)
  Lemma shortid_unknown_rejected b rest : (N.of_nat (length ids) < b)%N -> v2_get_message_type ids (b :: rest) = None.
  Proof.
    intros H. unfold v2_get_message_type.
    assert (Hb0 : N.eqb b 0 = false) by (apply N.eqb_neq; lia). rewrite Hb0. cbn [negb].
    assert (Hn : nth_error ids (N.to_nat b - 1) = None) by (apply nth_error_None; lia).
    rewrite Hn. reflexivity.
  Qed.
End Ids.

(* over the specification table: every entry decodes back to itself after encoding, and every named entry has
   exactly its own index as id (the reserved ids all carry the empty name and share the first of them) *)
Fixpoint check_entries (l : list (list N)) (i : nat) : bool :=
  match l with
  | [] => true
  | t :: r =>
      match v2_short_id BIP324_SHORT_IDS t with
      | Some j => (match nth_error BIP324_SHORT_IDS (N.to_nat j - 1) with Some t' => bytes_eqb t' t | None => false end)
                  && (match t with [] => true | _ => N.eqb j (N.of_nat (Datatypes.S i)) end)
                  && check_entries r (Datatypes.S i)
      | None => false
      end
  end.

Lemma check_entries_ok : check_entries BIP324_SHORT_IDS 0 = true.
Proof. vm_compute. reflexivity. Qed.

Lemma check_entries_sound : forall l i k t, check_entries l i = true -> nth_error l k = Some t ->
    exists j, v2_short_id BIP324_SHORT_IDS t = Some j /\
              nth_error BIP324_SHORT_IDS (N.to_nat j - 1) = Some t /\
              (t <> [] -> j = N.of_nat (Datatypes.S (i + k))).
Proof.
  induction l as [|x l IH]; intros i k t Hc Hn; [destruct k; discriminate|].
  cbn [check_entries] in Hc.
  destruct (v2_short_id BIP324_SHORT_IDS x) as [j|] eqn:Ej; [|discriminate].
  apply andb_true_iff in Hc. destruct Hc as [Hc Hrest]. apply andb_true_iff in Hc. destruct Hc as [H1 H2].
  destruct k as [|k].
  - cbn [nth_error] in Hn. inversion Hn; subst. exists j. split; auto. split.
    + destruct (nth_error BIP324_SHORT_IDS (N.to_nat j - 1)) as [t'|]; [|discriminate].
      apply bytes_eqb_eq in H1. subst. reflexivity.
    + intros Hne. destruct t; [congruence|]. apply N.eqb_eq in H2. rewrite Nat.add_0_r. exact H2.
  - cbn [nth_error] in Hn. destruct (IH (Datatypes.S i) k t Hrest Hn) as [j' [Ha [Hb Hd]]].
    exists j'. split; auto. split; auto. intros Hne. rewrite (Hd Hne). f_equal. lia.
Qed.

(* THEOREM (short id table): decode (encode t) = t for every entry of the table, and a named entry's id is its index *)
Lemma shortid_decode_encode k t : nth_error BIP324_SHORT_IDS k = Some t ->
    exists j, v2_short_id BIP324_SHORT_IDS t = Some j /\
              nth_error BIP324_SHORT_IDS (N.to_nat j - 1) = Some t /\
              (t <> [] -> j = N.of_nat (Datatypes.S k)).
Proof. intros H. exact (check_entries_sound _ 0 k t check_entries_ok H). Qed.
