(* BIP143 (witness v0) signature hash: the preimage commits to exactly bip143_view (C10). *)
From Coq Require Import NArith.
From BV Require Import lib.Ints gen.Params_gen model.SerBase model.SerTx proofs.SerBaseLemmas
                       model.SigHash model.SigHashSpec proofs.SigHashBase.
Local Open Scope Z_scope.

Section WithHash.
Variable H : list N -> list N.
Hypothesis H_len : forall x, length (H x) = 32%nat.
Hypothesis H_inj : forall x y, H x = H y -> x = y.
(* the all-zero value is not a SHA-256 output of anything hashed here *)
Hypothesis H_nz : forall x, H x <> zero32.

Lemma zero32_length : length zero32 = 32%nat.
Proof. reflexivity. Qed.

Lemma hp_length t ht : length (bip143_hash_prevouts H t ht) = 32%nat.
Proof. unfold bip143_hash_prevouts. destruct (negb _); [apply H_len | reflexivity]. Qed.
Lemma hs_length t ht : length (bip143_hash_sequence H t ht) = 32%nat.
Proof. unfold bip143_hash_sequence. destruct (_ && _); [apply H_len | reflexivity]. Qed.
Lemma ho_length t n ht : length (bip143_hash_outputs H t n ht) = 32%nat.
Proof.
  unfold bip143_hash_outputs, hash256. destruct (_ && _); [apply H_len|].
  destruct (ht_single ht); [|reflexivity]. destruct (nth_error _ _); [apply H_len | reflexivity].
Qed.

Lemma map_ser_outpoint vin : map ser_outpoint vin = map ser_outpoint_v (map outpoint_of vin).
Proof. rewrite map_map. reflexivity. Qed.
Lemma map_ser_sequence vin : map ser_sequence vin = map (write_le 4) (map in_sequence vin).
Proof. rewrite map_map. reflexivity. Qed.

Lemma vin_outpoints_ok vin : Forall txin_wf vin -> Forall outpoint_ok (map outpoint_of vin).
Proof. intros F. apply Forall_map. eapply Forall_impl; [|exact F]. apply txin_wf_outpoint. Qed.
Lemma vin_sequences_ok vin : Forall txin_wf vin -> Forall (fun v => 0 <= v <= UINT32_MAX) (map in_sequence vin).
Proof. intros F. apply Forall_map. eapply Forall_impl; [|exact F]. intros i (_ & _ & _ & _ & _ & Hs & _). exact Hs. Qed.
Lemma vout_ok vout : Forall txout_wf vout -> Forall txout_ok vout.
Proof. intros F. eapply Forall_impl; [|exact F]. apply txout_wf_ok. Qed.

Lemma nth_error_Forall {A} (P : A -> Prop) l n x : Forall P l -> nth_error l n = Some x -> P x.
Proof. intros F E. rewrite Forall_forall in F. apply F. eapply nth_error_In. exact E. Qed.

(* the three cached hashes determine what they hash *)
Lemma sha_prevouts_inj t1 t2 : Forall txin_wf (tx_vin t1) -> Forall txin_wf (tx_vin t2) ->
  sha_prevouts H t1 = sha_prevouts H t2 -> map outpoint_of (tx_vin t1) = map outpoint_of (tx_vin t2).
Proof.
  intros F1 F2 E. unfold sha_prevouts in E. apply H_inj in E. rewrite !map_ser_outpoint in E.
  apply concat_outpoints_inj in E; [exact E | apply vin_outpoints_ok; assumption ..].
Qed.
Lemma sha_sequences_inj t1 t2 : Forall txin_wf (tx_vin t1) -> Forall txin_wf (tx_vin t2) ->
  sha_sequences H t1 = sha_sequences H t2 -> map in_sequence (tx_vin t1) = map in_sequence (tx_vin t2).
Proof.
  intros F1 F2 E. unfold sha_sequences in E. apply H_inj in E. rewrite !map_ser_sequence in E.
  apply concat_le4_inj in E; [exact E | apply vin_sequences_ok; assumption ..].
Qed.
Lemma sha_outputs_inj t1 t2 : Forall txout_wf (tx_vout t1) -> Forall txout_wf (tx_vout t2) ->
  sha_outputs H t1 = sha_outputs H t2 -> tx_vout t1 = tx_vout t2.
Proof.
  intros F1 F2 E. unfold sha_outputs in E. apply H_inj in E.
  apply concat_txouts_inj in E; [exact E | apply vout_ok; assumption ..].
Qed.
(* and conversely depend on nothing else *)
Lemma sha_prevouts_ext t1 t2 : map outpoint_of (tx_vin t1) = map outpoint_of (tx_vin t2) -> sha_prevouts H t1 = sha_prevouts H t2.
Proof. intros E. unfold sha_prevouts. rewrite !map_ser_outpoint, E. reflexivity. Qed.
Lemma sha_sequences_ext t1 t2 : map in_sequence (tx_vin t1) = map in_sequence (tx_vin t2) -> sha_sequences H t1 = sha_sequences H t2.
Proof. intros E. unfold sha_sequences. rewrite !map_ser_sequence, E. reflexivity. Qed.
Lemma sha_outputs_ext t1 t2 : tx_vout t1 = tx_vout t2 -> sha_outputs H t1 = sha_outputs H t2.
Proof. intros E. unfold sha_outputs. rewrite E. reflexivity. Qed.

Lemma bip143_out_view_inj t1 n1 t2 n2 ht : Forall txout_wf (tx_vout t1) -> Forall txout_wf (tx_vout t2) ->
  bip143_hash_outputs H t1 n1 ht = bip143_hash_outputs H t2 n2 ht -> bip143_out_view t1 n1 ht = bip143_out_view t2 n2 ht.
Proof.
  intros F1 F2. unfold bip143_hash_outputs, bip143_out_view.
  destruct (negb (ht_single ht) && negb (ht_none ht)).
  - intros E. apply H_inj in E. f_equal. apply sha_outputs_inj; assumption.
  - destruct (ht_single ht); [|reflexivity].
    destruct (nth_error (tx_vout t1) n1) as [o1|] eqn:E1; destruct (nth_error (tx_vout t2) n2) as [o2|] eqn:E2; intros E.
    + unfold hash256 in E. apply H_inj in E. apply H_inj in E.
      apply (pfree_inj _ _ pfree_txout) in E;
        [subst; reflexivity
        | apply txout_wf_ok; exact (nth_error_Forall _ _ _ _ F1 E1)
        | apply txout_wf_ok; exact (nth_error_Forall _ _ _ _ F2 E2)].
    + exfalso. exact (H_nz _ E).
    + exfalso. symmetry in E. exact (H_nz _ E).
    + reflexivity.
Qed.

Lemma bip143_out_view_ext t1 n1 t2 n2 ht :
  bip143_out_view t1 n1 ht = bip143_out_view t2 n2 ht -> bip143_hash_outputs H t1 n1 ht = bip143_hash_outputs H t2 n2 ht.
Proof.
  unfold bip143_hash_outputs, bip143_out_view. destruct (negb (ht_single ht) && negb (ht_none ht)).
  - intros E. injection E as E. f_equal. apply sha_outputs_ext. exact E.
  - destruct (ht_single ht); [|reflexivity]. intros E. injection E as ->. reflexivity.
Qed.

(* BIP143 commits to exactly its view *)
Theorem bip143_commitment t1 n1 ht1 sc1 a1 t2 n2 ht2 sc2 a2 :
  tx_wf t1 -> tx_wf t2 -> ht32_ok ht1 -> ht32_ok ht2 -> len_ok sc1 -> len_ok sc2 -> amount_ok a1 -> amount_ok a2 ->
  (bip143_preimage H t1 n1 ht1 sc1 a1 = bip143_preimage H t2 n2 ht2 sc2 a2
   <-> bip143_view t1 n1 ht1 sc1 a1 = bip143_view t2 n2 ht2 sc2 a2).
Proof.
  intros (Hv1 & Hl1 & _ & _ & Fi1 & Fo1) (Hv2 & Hl2 & _ & _ & Fi2 & Fo2) Hh1 Hh2 Hs1 Hs2 Ha1 Ha2.
  unfold bip143_preimage, bip143_view.
  destruct (nth_error (tx_vin t1) n1) as [me1|] eqn:N1; destruct (nth_error (tx_vin t2) n2) as [me2|] eqn:N2;
    try (split; intros E; (discriminate || reflexivity)).
  pose proof (nth_error_Forall _ _ _ _ Fi1 N1) as W1. pose proof (nth_error_Forall _ _ _ _ Fi2 N2) as W2.
  assert (Q1 : 0 <= in_sequence me1 <= UINT32_MAX) by (destruct W1 as (_ & _ & _ & _ & _ & Q & _); exact Q).
  assert (Q2 : 0 <= in_sequence me2 <= UINT32_MAX) by (destruct W2 as (_ & _ & _ & _ & _ & Q & _); exact Q).
  split.
  - intros E. apply ShPre_inj in E.
    apply pfree_le4_u in E; [|assumption ..]. destruct E as [Ever E].
    apply app_inj_length in E; [|rewrite !hp_length; reflexivity]. destruct E as [Ehp E].
    apply app_inj_length in E; [|rewrite !hs_length; reflexivity]. destruct E as [Ehs E].
    rewrite !ser_outpoint_eq in E.
    apply pfree_outpoint in E; [|apply txin_wf_outpoint; assumption ..]. destruct E as [Eop E].
    apply pfree_ser_bytes in E; [|assumption ..]. destruct E as [Esc E].
    apply pfree_le8_s in E; [|assumption ..]. destruct E as [Eam E].
    apply pfree_le4_u in E; [|assumption ..]. destruct E as [Esq E].
    apply app_inj_length in E; [|rewrite !ho_length; reflexivity]. destruct E as [Eho E].
    apply pfree_le4_u in E; [|assumption ..]. destruct E as [Elk E].
    apply write_le4_inj_s in E; [|assumption ..]. subst ht2.
    f_equal. rewrite Ever, Eop, Esc, Eam, Esq, Elk.
    assert (E1 : (if ht_acp ht1 then None else Some (map outpoint_of (tx_vin t1))) =
                 (if ht_acp ht1 then None else Some (map outpoint_of (tx_vin t2)))).
    { unfold bip143_hash_prevouts in Ehp. destruct (ht_acp ht1); [reflexivity|]. cbn [negb] in Ehp.
      apply H_inj in Ehp. f_equal. apply sha_prevouts_inj; assumption. }
    assert (E2 : (if negb (ht_acp ht1) && negb (ht_single ht1) && negb (ht_none ht1) then Some (map in_sequence (tx_vin t1)) else None) =
                 (if negb (ht_acp ht1) && negb (ht_single ht1) && negb (ht_none ht1) then Some (map in_sequence (tx_vin t2)) else None)).
    { unfold bip143_hash_sequence in Ehs. destruct (negb (ht_acp ht1) && negb (ht_single ht1) && negb (ht_none ht1)); [|reflexivity].
      apply H_inj in Ehs. f_equal. apply sha_sequences_inj; assumption. }
    rewrite E1, E2. rewrite (bip143_out_view_inj t1 n1 t2 n2 ht1 Fo1 Fo2 Eho). reflexivity.
  - intros E. injection E as Ever Ehp Ehs Eh En Esc Eam Esq Eho Elk Eht. subst ht2.
    f_equal. unfold ser_outpoint.
    rewrite Ever, Eh, En, Esc, Eam, Esq, Elk, (bip143_out_view_ext _ _ _ _ _ Eho).
    assert (E1 : bip143_hash_prevouts H t1 ht1 = bip143_hash_prevouts H t2 ht1).
    { unfold bip143_hash_prevouts. destruct (ht_acp ht1); [reflexivity|]. cbn [negb]. injection Ehp as Ehp.
      f_equal. apply sha_prevouts_ext. exact Ehp. }
    assert (E2 : bip143_hash_sequence H t1 ht1 = bip143_hash_sequence H t2 ht1).
    { unfold bip143_hash_sequence. destruct (negb (ht_acp ht1) && negb (ht_single ht1) && negb (ht_none ht1)); [|reflexivity].
      injection Ehs as Ehs. f_equal. apply sha_sequences_ext. exact Ehs. }
    rewrite E1, E2. reflexivity.
Qed.

(* the digest inherits it *)
Corollary bip143_digest_commitment t1 n1 ht1 sc1 a1 t2 n2 ht2 sc2 a2 d :
  tx_wf t1 -> tx_wf t2 -> ht32_ok ht1 -> ht32_ok ht2 -> len_ok sc1 -> len_ok sc2 -> amount_ok a1 -> amount_ok a2 ->
  bip143_sighash H t1 n1 ht1 sc1 a1 = Some d -> bip143_sighash H t2 n2 ht2 sc2 a2 = Some d ->
  bip143_view t1 n1 ht1 sc1 a1 = bip143_view t2 n2 ht2 sc2 a2.
Proof.
  intros W1 W2 Hh1 Hh2 Hs1 Hs2 Ha1 Ha2 D1 D2.
  apply (bip143_commitment t1 n1 ht1 sc1 a1 t2 n2 ht2 sc2 a2); try assumption.
  unfold bip143_sighash in D1, D2.
  destruct (bip143_preimage H t1 n1 ht1 sc1 a1) as [| | | |p1]; try discriminate.
  destruct (bip143_preimage H t2 n2 ht2 sc2 a2) as [| | | |p2]; try discriminate.
  injection D1 as D1. injection D2 as D2. rewrite <- D2 in D1. unfold hash256 in D1.
  apply H_inj in D1. apply H_inj in D1. rewrite D1. reflexivity.
Qed.

(* spelled out for SIGHASH_ALL: everything is pinned *)
Corollary bip143_all_commits t1 n1 ht1 sc1 a1 t2 n2 ht2 sc2 a2 me1 me2 :
  tx_wf t1 -> tx_wf t2 -> ht32_ok ht1 -> ht32_ok ht2 -> len_ok sc1 -> len_ok sc2 -> amount_ok a1 -> amount_ok a2 ->
  nth_error (tx_vin t1) n1 = Some me1 -> nth_error (tx_vin t2) n2 = Some me2 ->
  ht_acp ht1 = false -> ht_single ht1 = false -> ht_none ht1 = false ->
  bip143_preimage H t1 n1 ht1 sc1 a1 = bip143_preimage H t2 n2 ht2 sc2 a2 ->
  ht1 = ht2 /\ tx_version t1 = tx_version t2 /\ tx_locktime t1 = tx_locktime t2 /\
  map outpoint_of (tx_vin t1) = map outpoint_of (tx_vin t2) /\ map in_sequence (tx_vin t1) = map in_sequence (tx_vin t2) /\
  outpoint_of me1 = outpoint_of me2 /\ in_sequence me1 = in_sequence me2 /\ sc1 = sc2 /\ a1 = a2 /\
  tx_vout t1 = tx_vout t2.
Proof.
  intros W1 W2 Hh1 Hh2 Hs1 Hs2 Ha1 Ha2 N1 N2 Fa Fs Fn E.
  apply (bip143_commitment t1 n1 ht1 sc1 a1 t2 n2 ht2 sc2 a2) in E; try assumption.
  unfold bip143_view, bip143_out_view in E. rewrite N1, N2 in E.
  injection E as Ever Ehp Ehs Eh En Esc Eam Esq Eho Elk Eht. subst ht2.
  rewrite Fa, Fs, Fn in *. cbn [negb andb] in *. injection Ehp as Ehp. injection Ehs as Ehs. injection Eho as Eho.
  unfold outpoint_of. rewrite Eh, En. repeat split; assumption.
Qed.

(* under ANYONECANPAY the other inputs are free: only this input, the outputs view, version and locktime matter *)
Corollary bip143_anyonecanpay_frees_other_inputs t1 n1 t2 n2 ht sc a me :
  tx_wf t1 -> tx_wf t2 -> ht32_ok ht -> len_ok sc -> amount_ok a ->
  ht_acp ht = true -> nth_error (tx_vin t1) n1 = Some me -> nth_error (tx_vin t2) n2 = Some me ->
  tx_version t1 = tx_version t2 -> tx_locktime t1 = tx_locktime t2 -> bip143_out_view t1 n1 ht = bip143_out_view t2 n2 ht ->
  bip143_preimage H t1 n1 ht sc a = bip143_preimage H t2 n2 ht sc a.
Proof.
  intros W1 W2 Hh Hs Ha Fa N1 N2 Ev El Eo.
  apply (bip143_commitment t1 n1 ht sc a t2 n2 ht sc a); try assumption.
  unfold bip143_view. rewrite N1, N2, Fa, Ev, El, Eo. reflexivity.
Qed.

(* a context with a different view is checked against a different digest *)
Corollary bip143_view_change_changes_digest t1 n1 ht1 sc1 a1 t2 n2 ht2 sc2 a2 d1 d2 :
  tx_wf t1 -> tx_wf t2 -> ht32_ok ht1 -> ht32_ok ht2 -> len_ok sc1 -> len_ok sc2 -> amount_ok a1 -> amount_ok a2 ->
  bip143_view t1 n1 ht1 sc1 a1 <> bip143_view t2 n2 ht2 sc2 a2 ->
  bip143_sighash H t1 n1 ht1 sc1 a1 = Some d1 -> bip143_sighash H t2 n2 ht2 sc2 a2 = Some d2 -> d1 <> d2.
Proof.
  intros W1 W2 Hh1 Hh2 Hs1 Hs2 Ha1 Ha2 Hne D1 D2 E. subst d2. apply Hne.
  exact (bip143_digest_commitment _ _ _ _ _ _ _ _ _ _ _ W1 W2 Hh1 Hh2 Hs1 Hs2 Ha1 Ha2 D1 D2).
Qed.

End WithHash.
