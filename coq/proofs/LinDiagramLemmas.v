(* The feerate diagram of ChunkLinearization's chunking dominates the diagram of every other way of
   grouping the same linearization into consecutive groups (over all rational abscissae). *)
From Coq Require Import QArith Lqa.
From BV Require Import lib.Ints model.Fee model.Lin proofs.FeeLemmas proofs.FeeChunkLemmas proofs.LinLemmas.
Local Open Scope Z_scope.

Definition slope (c : FF) : Q := (iz (fst c) / iz (snd c))%Q.

Fixpoint sl_sorted (c : list FF) : Prop :=
  match c with
  | a :: ((b :: _) as r) => fst b * snd a <= fst a * snd b /\ sl_sorted r
  | _ => True
  end.

Lemma nonincr_sl_sorted c : nonincr c -> sl_sorted c.
Proof.
  induction c as [|a c IH]; intros H; [exact I|]. destruct c as [|b c]; [exact I|].
  split; [apply (H [] a b c); reflexivity|].
  apply IH. intros l1 x y l2 E. apply (H (a :: l1) x y l2). rewrite E. reflexivity.
Qed.

Lemma slope_le a b : 0 < snd a -> 0 < snd b -> fst b * snd a <= fst a * snd b -> (slope b <= slope a)%Q.
Proof.
  intros Ha Hb H. unfold slope. pose proof (iz_pos _ Ha) as Qa. pose proof (iz_pos _ Hb) as Qb.
  apply Qle_shift_div_r; [exact Qb|].
  setoid_replace (iz (fst a) / iz (snd a) * iz (snd b))%Q with ((iz (fst a) * iz (snd b)) / iz (snd a))%Q by (field; lra).
  apply Qle_shift_div_l; [exact Qa|].
  rewrite <- !inject_Z_mult. rewrite <- Zle_Qle. exact H.
Qed.

Definition dend (c : list FF) (asz : Z) : Z := asz + size_sum c.

Lemma within_sizes_nonneg c : forall af asz, within c af asz -> 0 <= size_sum c.
Proof.
  induction c as [|[f s] r IH]; intros af asz W; cbn [size_sum fold_right]; [lia|].
  destruct W as [Hs [_ W]]. fold (size_sum r). specialize (IH _ _ W). cbn [snd]. lia.
Qed.

Local Open Scope Q_scope.

(* to the right of its last point the diagram is flat at the total fee *)
Lemma diag_beyond c : forall af asz x, within c af asz -> iz (dend c asz) <= x ->
  diag c af asz x == iz (af + fst (fsum c)).
Proof.
  induction c as [|[f s] r IH]; intros af asz x W Hx.
  - cbn [diag fsum fold_right fst]. rewrite Z.add_0_r. reflexivity.
  - pose proof W as [Hs [_ W']]. unfold dend in Hx. cbn [size_sum fold_right snd] in Hx. fold (size_sum r) in Hx.
    pose proof (within_sizes_nonneg r _ _ W') as Hn.
    assert (Hx1 : iz (asz + s) <= x).
    { apply Qle_trans with (iz (asz + (s + size_sum r))); [rewrite <- Zle_Qle; lia | exact Hx]. }
    rewrite (diag_right f s r af asz x W Hx1).
    rewrite IH; [|exact W'|unfold dend; replace (asz + s + size_sum r)%Z with (asz + (s + size_sum r))%Z by lia; exact Hx].
    change (fsum ((f, s) :: r)) with (f + fst (fsum r), s + snd (fsum r))%Z. cbn [fst].
    replace (af + f + fst (fsum r))%Z with (af + (f + fst (fsum r)))%Z by lia. reflexivity.
Qed.

(* within its range, a diagram with non-increasing slopes lies on or below the extension of its first segment *)
Lemma diag_below_first_line c : forall af asz f s r, c = (f, s) :: r -> within c af asz -> sl_sorted c ->
  forall x, iz asz <= x -> x <= iz (dend c asz) -> diag c af asz x <= iz af + slope (f, s) * (x - iz asz).
Proof.
  induction c as [|c0 c IH]; intros af asz f s r E W S x Hx Hxe; [discriminate|]. inversion E; subst c0 c. clear E.
  pose proof W as [Hs [_ W']]. pose proof (iz_pos s Hs) as Qs.
  destruct (Qlt_le_dec (iz (asz + s)) x) as [Hgt|Hle].
  - destruct r as [|[f' s'] r'].
    + exfalso. unfold dend in Hxe. cbn [size_sum fold_right snd] in Hxe. rewrite Z.add_0_r in Hxe. lra.
    + rewrite diag_cons_gt by exact Hgt.
      destruct S as [S1 S2]. cbn [fst snd] in S1. pose proof W' as [Hs' _].
      assert (Hk : slope (f', s') <= slope (f, s)) by (apply slope_le; cbn [fst snd]; lia).
      assert (Hxe' : x <= iz (dend ((f', s') :: r') (asz + s))).
      { unfold dend in *. cbn [size_sum fold_right snd] in *. fold (size_sum r') in *.
        replace (asz + s + (s' + size_sum r'))%Z with (asz + (s + (s' + size_sum r')))%Z by lia. exact Hxe. }
      pose proof (IH (af + f)%Z (asz + s)%Z f' s' r' eq_refl W' S2 x ltac:(lra) Hxe') as B.
      unfold slope in *. cbn [fst snd] in *. rewrite !inject_Z_plus in B. rewrite inject_Z_plus in Hgt.
      assert (P : 0 <= (iz f / iz s - iz f' / iz s') * (x - (iz asz + iz s))) by (apply Qmult_le_0_compat; lra).
      assert (Ef : iz f / iz s * iz s == iz f) by (field; lra).
      lra.
  - rewrite diag_cons_le by exact Hle. unfold slope. cbn [fst snd]. apply Qle_lteq. right. field. lra.
Qed.

(* supporting lines: through every point of the diagram (within its range) passes a line that lies on or
   above the whole diagram (within its range) -- i.e. the diagram is concave there *)
Lemma diag_supporting_line c : forall af asz f s r, c = (f, s) :: r -> within c af asz -> sl_sorted c ->
  forall x, iz asz <= x -> x <= iz (dend c asz) ->
  exists k, k <= slope (f, s) /\
    forall y, iz asz <= y -> y <= iz (dend c asz) -> diag c af asz y <= diag c af asz x + k * (y - x).
Proof.
  induction c as [|c0 c IH]; intros af asz f s r E W S x Hx Hxe; [discriminate|]. inversion E; subst c0 c. clear E.
  pose proof W as [Hs [_ W']]. pose proof (iz_pos s Hs) as Qs.
  pose proof (diag_line_cons f s r af asz Hs) as L1.
  destruct (Qlt_le_dec (iz (asz + s)) x) as [Hgt|Hle].
  - (* x lies beyond the first segment *)
    destruct r as [|[f' s'] r'].
    + exfalso. unfold dend in Hxe. cbn [size_sum fold_right snd] in Hxe. rewrite Z.add_0_r in Hxe. lra.
    + destruct S as [S1 S2]. cbn [fst snd] in S1. pose proof W' as [Hs' _].
      assert (Hk : slope (f', s') <= slope (f, s)) by (apply slope_le; cbn [fst snd]; lia).
      assert (Hd : dend ((f', s') :: r') (asz + s) = dend ((f, s) :: (f', s') :: r') asz).
      { unfold dend. cbn [size_sum fold_right snd]. lia. }
      destruct (IH (af + f)%Z (asz + s)%Z f' s' r' eq_refl W' S2 x ltac:(lra) ltac:(rewrite Hd; exact Hxe)) as [k [Hk2 Hsup]].
      exists k. split; [lra|]. intros y Hy Hye.
      rewrite (diag_right f s _ af asz x W ltac:(lra)).
      destruct (Qlt_le_dec y (iz (asz + s))) as [Hyl|Hyr].
      * (* y on the first segment: go through the vertex *)
        pose proof (Hsup (iz (asz + s)) ltac:(lra) ltac:(rewrite Hd; lra)) as Hv.
        rewrite (diag_at_start _ (af + f) (asz + s) (iz (asz + s)) W' ltac:(reflexivity)) in Hv.
        rewrite (L1 y ltac:(lra)).
        rewrite !inject_Z_plus in *.
        assert (P : 0 <= (iz f / iz s - k) * (iz asz + iz s - y)) by (unfold slope in *; cbn [fst snd] in *; apply Qmult_le_0_compat; lra).
        assert (Ef : iz f / iz s * iz s == iz f) by (field; lra).
        lra.
      * rewrite (diag_right f s _ af asz y W Hyr). apply Hsup; [exact Hyr | rewrite Hd; exact Hye].
  - (* x on the first segment: the segment's own line *)
    exists (slope (f, s)). split; [lra|]. intros y Hy Hye.
    rewrite (L1 x Hle).
    pose proof (diag_below_first_line _ af asz f s r eq_refl W S y Hy Hye) as B.
    unfold slope in *. cbn [fst snd] in *. lra.
Qed.

(* ---------------------------------------------------------------------------------- *)
(* the chunk diagram passes on or above every prefix point of the linearization *)
Local Open Scope Z_scope.
Definition group_good (g : list FF) : Prop :=
  g <> [] /\ group_prefix_ok g /\ Forall (fun c => 0 < snd c) g.

Lemma fsum_firstn_size g k : Forall (fun c => 0 < snd c) g -> 0 <= snd (fsum (firstn k g)) <= snd (fsum g).
Proof.
  intros P. rewrite <- (firstn_skipn k g) at 3. rewrite fsum_app. unfold fadd. cbn [snd].
  assert (P1 : Forall (fun c => 0 < snd c) (firstn k g)).
  { rewrite Forall_forall in *. intros c Hc. apply P. rewrite <- (firstn_skipn k g). apply in_or_app. left. exact Hc. }
  assert (P2 : Forall (fun c => 0 < snd c) (skipn k g)).
  { rewrite Forall_forall in *. intros c Hc. apply P. rewrite <- (firstn_skipn k g). apply in_or_app. right. exact Hc. }
  rewrite !fsum_size. pose proof (size_sum_nonneg _ P1). pose proof (size_sum_nonneg _ P2). lia.
Qed.

Lemma diag_majorant gs : forall af asz k, within (map fsum gs) af asz -> Forall group_good gs ->
  (iz (af + fst (fsum (firstn k (concat gs)))) <=
   diag (map fsum gs) af asz (iz (asz + snd (fsum (firstn k (concat gs))))))%Q.
Proof.
  induction gs as [|g gs IH]; intros af asz k W G.
  - cbn [concat map diag]. rewrite firstn_nil. cbn [fsum fold_right fst]. rewrite Z.add_0_r. apply Qle_refl.
  - inversion G as [|? ? [Gne [Gp Gs]] G']; subst. cbn [map concat] in *.
    destruct (fsum g) as [F S] eqn:EF. pose proof W as [HS [_ W']].
    pose proof (iz_pos S HS) as QS.
    rewrite firstn_app.
    destruct (le_lt_dec k (length g)) as [Hk|Hk].
    + (* the prefix point lies inside the first chunk *)
      replace (k - length g)%nat with 0%nat by lia. cbn [firstn]. rewrite app_nil_r.
      specialize (Gp k). cbv zeta in Gp. rewrite EF in Gp. cbn [fst snd] in Gp.
      pose proof (fsum_firstn_size g k Gs) as Hsz. rewrite EF in Hsz. cbn [snd] in Hsz.
      set (p := fsum (firstn k g)) in *.
      rewrite diag_cons_le by (rewrite <- Zle_Qle; lia).
      rewrite !inject_Z_plus.
      (* p.f <= F * p.s / S *)
      assert (E : (iz (fst p) <= iz F * (iz asz + iz (snd p) - iz asz) / iz S)%Q).
      { apply Qle_shift_div_l; [exact QS|].
        setoid_replace (iz asz + iz (snd p) - iz asz)%Q with (iz (snd p)) by ring.
        rewrite <- !inject_Z_mult. rewrite <- Zle_Qle. lia. }
      lra.
    + (* beyond the first chunk *)
      rewrite (firstn_all2 (n := k) g) by lia.
      rewrite fsum_app, EF. unfold fadd. cbn [fst snd].
      set (q := fsum (firstn (k - length g) (concat gs))) in *.
      assert (Hq : 0 <= snd q).
      { subst q. rewrite fsum_size. apply size_sum_nonneg.
        assert (Pall : Forall (fun c => 0 < snd c) (concat gs)).
        { rewrite Forall_forall. intros c Hc. apply in_concat in Hc. destruct Hc as [g' [Hg' Hc]].
          rewrite Forall_forall in G'. destruct (G' g' Hg') as [_ [_ Ps]]. rewrite Forall_forall in Ps. apply Ps. exact Hc. }
        rewrite Forall_forall in *. intros c Hc. apply Pall.
        rewrite <- (firstn_skipn (k - length g) (concat gs)). apply in_or_app. left. exact Hc. }
      rewrite (diag_right F S _ af asz _ W) by (rewrite <- Zle_Qle; lia).
      specialize (IH (af + F) (asz + S) (k - length g)%nat W' G'). fold q in IH.
      replace (af + (F + fst q)) with (af + F + fst q) by lia.
      replace (asz + (S + snd q)) with (asz + S + snd q) by lia. exact IH.
Qed.

(* ---------------------------------------------------------------------------------- *)
(* sweep over an arbitrary grouping: each of its segments joins two prefix points, both on or below
   the concave function C, hence the whole segment is *)
Section Sweep.
Variable l : list FF.
Variable C : Q -> Q.
Hypothesis C_prefix : forall pre suf, l = pre ++ suf -> (iz (fst (fsum pre)) <= C (iz (snd (fsum pre))))%Q.
Hypothesis C_support : forall x, (0 <= x)%Q -> (x <= iz (snd (fsum l)))%Q ->
  exists k, forall y, (0 <= y)%Q -> (y <= iz (snd (fsum l)))%Q -> (C y <= C x + k * (y - x))%Q.
Hypothesis l_pos : Forall (fun c => 0 < snd c) l.

Lemma sweep gs : forall pre, pre ++ concat gs = l -> Forall (fun g => g <> []) gs ->
  within (map fsum gs) (fst (fsum pre)) (snd (fsum pre)) ->
  forall x, (iz (snd (fsum pre)) <= x)%Q -> (x <= iz (snd (fsum l)))%Q ->
  (diag (map fsum gs) (fst (fsum pre)) (snd (fsum pre)) x <= C x)%Q.
Proof.
  induction gs as [|g gs IH]; intros pre E Hne W x Hx Hxe.
  - cbn [concat] in E. rewrite app_nil_r in E. subst pre. cbn [map diag].
    assert (Ex : (x == iz (snd (fsum l)))%Q) by lra.
    destruct (C_support x) as [k Hk]; [|exact Hxe|].
    { apply Qle_trans with (iz (snd (fsum l))); [|lra]. rewrite fsum_size. change 0%Q with (iz 0). rewrite <- Zle_Qle. apply size_sum_nonneg. exact l_pos. }
    pose proof (C_prefix l [] ltac:(rewrite app_nil_r; reflexivity)) as P.
    specialize (Hk (iz (snd (fsum l)))).
    assert (H0 : (0 <= iz (snd (fsum l)))%Q).
    { rewrite fsum_size. change 0%Q with (iz 0). rewrite <- Zle_Qle. apply size_sum_nonneg. exact l_pos. }
    specialize (Hk H0 ltac:(lra)).
    assert (Z0 : (k * (iz (snd (fsum l)) - x) == 0)%Q) by (rewrite Ex; ring).
    lra.
  - cbn [map concat] in *. pose proof (Forall_inv Hne) as Hg. pose proof (Forall_inv_tail Hne) as Hne'.
    destruct (fsum g) as [F S] eqn:EF. pose proof W as [HS [_ W']]. pose proof (iz_pos S HS) as QS.
    assert (Hpre0 : (0 <= iz (snd (fsum pre)))%Q).
    { rewrite fsum_size. change 0%Q with (iz 0). rewrite <- Zle_Qle. apply size_sum_nonneg.
      rewrite Forall_forall in *. intros c Hc. apply l_pos. rewrite <- E. apply in_or_app. left. exact Hc. }
    destruct (Qlt_le_dec (iz (snd (fsum pre) + S)) x) as [Hgt|Hle].
    + (* x beyond this group's segment *)
      rewrite (diag_right F S _ _ _ x W ltac:(lra)).
      specialize (IH (pre ++ g)). rewrite fsum_app, EF in IH. unfold fadd in IH. cbn [fst snd] in IH.
      apply IH; [rewrite <- app_assoc; exact E | exact Hne' | exact W' | lra | exact Hxe].
    + (* x on this group's segment, between the prefix points pre and pre ++ g *)
      assert (Hx0 : (0 <= x)%Q) by lra.
      destruct (C_support x Hx0 Hxe) as [k Hk].
      pose proof (C_prefix pre (g ++ concat gs) ltac:(symmetry; exact E)) as P1.
      pose proof (C_prefix (pre ++ g) (concat gs) ltac:(rewrite <- app_assoc; symmetry; exact E)) as P2.
      rewrite fsum_app, EF in P2. unfold fadd in P2. cbn [fst snd] in P2.
      assert (Hend : (iz (snd (fsum pre) + S) <= iz (snd (fsum l)))%Q).
      { rewrite <- Zle_Qle. rewrite <- E, fsum_app. unfold fadd. cbn [snd]. rewrite fsum_app, EF. unfold fadd. cbn [snd].
        assert (0 <= snd (fsum (concat gs)))%Z; [|lia].
        rewrite fsum_size. apply size_sum_nonneg. rewrite Forall_forall in *. intros c Hc. apply l_pos.
        rewrite <- E. apply in_or_app. right. apply in_or_app. right. exact Hc. }
      pose proof (Hk (iz (snd (fsum pre))) Hpre0 ltac:(lra)) as K1.
      pose proof (Hk (iz (snd (fsum pre) + S)) ltac:(rewrite inject_Z_plus; lra) Hend) as K2.
      rewrite diag_cons_le by exact Hle.
      rewrite !inject_Z_plus in *.
      (* G(x) = af + (F/S)(x - as); the supporting line at x dominates G at both ends of the segment *)
      set (a := iz (snd (fsum pre))) in *. set (p := iz (fst (fsum pre))) in *.
      destruct (Qlt_le_dec (C x) (p + iz F * (x - a) / iz S)) as [Hbad|Hok]; [|exact Hok].
      exfalso.
      destruct (affine_between p (iz F / iz S) a (C x) k x a (a + iz S) x ltac:(lra) ltac:(lra)) as [B|B].
      * setoid_replace (p + iz F / iz S * (x - a))%Q with (p + iz F * (x - a) / iz S)%Q by (field; lra).
        setoid_replace (C x + k * (x - x))%Q with (C x) by ring. exact Hbad.
      * setoid_replace (p + iz F / iz S * (a - a))%Q with p in B by (field; lra). lra.
      * setoid_replace (p + iz F / iz S * (a + iz S - a))%Q with (p + iz F)%Q in B by (field; lra). lra.
Qed.
End Sweep.

(* ---------------------------------------------------------------------------------- *)
Lemma fsum_map_fsum gs : fsum (map fsum gs) = fsum (concat gs).
Proof.
  induction gs as [|g gs IH]; [reflexivity|]. cbn [map concat]. rewrite fsum_app, <- IH.
  change (fsum (fsum g :: map fsum gs)) with (fst (fsum g) + fst (fsum (map fsum gs)), snd (fsum g) + snd (fsum (map fsum gs))).
  reflexivity.
Qed.

Lemma firstn_length_app {A} (pre suf : list A) : firstn (length pre) (pre ++ suf) = pre.
Proof. rewrite firstn_app, firstn_all, Nat.sub_diag. cbn [firstn]. apply app_nil_r. Qed.

Theorem chunking_dominates_groupings l gs' : in_range l -> concat gs' = l -> Forall (fun g => g <> []) gs' ->
  diagram_ge (chunking l) (map fsum gs').
Proof.
  intros R Ec' Hne'.
  destruct (chunking_structure l R) as [gs [Ec [Em [Hg Hn]]]].
  pose proof R as [Rpos _].
  assert (Gg : Forall group_good gs).
  { rewrite Forall_forall in *. intros g Hin. destruct (Hg g Hin) as [H1 H2]. split; [exact H1|]. split; [exact H2|].
    rewrite Forall_forall. intros c Hc. apply Rpos. rewrite <- Ec. apply in_concat. exists g. split; assumption. }
  assert (Wc : within (map fsum gs) 0 0).
  { apply (within_map_fsum gs []); [cbn [app]; rewrite Ec; exact R|].
    rewrite Forall_forall in *. intros g Hin. exact (proj1 (Hg g Hin)). }
  assert (Wg : within (map fsum gs') 0 0) by (apply (within_map_fsum gs' []); [cbn [app]; rewrite Ec'; exact R | exact Hne']).
  assert (Sc : sl_sorted (map fsum gs)) by (apply nonincr_sl_sorted; rewrite <- Em; exact Hn).
  assert (Dend : dend (map fsum gs) 0 = snd (fsum l)).
  { unfold dend. rewrite <- fsum_size, fsum_map_fsum, Ec. lia. }
  assert (T0 : 0 <= snd (fsum l)) by (rewrite fsum_size; apply size_sum_nonneg; exact Rpos).
  set (C := diag (map fsum gs) 0 0).
  assert (C_prefix : forall pre suf, l = pre ++ suf -> (iz (fst (fsum pre)) <= C (iz (snd (fsum pre))))%Q).
  { intros pre suf E. pose proof (diag_majorant gs 0 0 (length pre) Wc Gg) as M.
    rewrite Ec, E, firstn_length_app in M. cbn [Z.add] in M. exact M. }
  assert (C_support : forall x, (0 <= x)%Q -> (x <= iz (snd (fsum l)))%Q ->
            exists k, forall y, (0 <= y)%Q -> (y <= iz (snd (fsum l)))%Q -> (C y <= C x + k * (y - x))%Q).
  { intros x Hx Hxe. destruct (map fsum gs) as [|[f s] r] eqn:Eg.
    - exists 0%Q. intros y _ _. subst C. cbn [diag]. lra.
    - destruct (diag_supporting_line ((f, s) :: r) 0 0 f s r eq_refl Wc Sc x Hx ltac:(rewrite Dend; exact Hxe)) as [k [_ Hk]].
      exists k. intros y Hy Hye. apply Hk; [exact Hy | rewrite Dend; exact Hye]. }
  intros x Hx. unfold diagram. rewrite Em. fold C.
  destruct (Qlt_le_dec (iz (snd (fsum l))) x) as [Hgt|Hle].
  - (* to the right of the last point both diagrams are flat at the total fee *)
    assert (Dend' : dend (map fsum gs') 0 = snd (fsum l)).
    { unfold dend. rewrite <- fsum_size, fsum_map_fsum, Ec'. lia. }
    subst C. rewrite (diag_beyond _ 0 0 x Wc) by (rewrite Dend; lra).
    rewrite (diag_beyond _ 0 0 x Wg) by (rewrite Dend'; lra).
    rewrite !fsum_map_fsum, Ec, Ec'. apply Qle_refl.
  - apply (sweep l C C_prefix C_support Rpos gs' [] ltac:(cbn [app]; exact Ec') Hne' Wg x Hx Hle).
Qed.
