(* ProtectEvictionCandidatesByRatio: never stuck (fuel, assert, size_t underflow), protects exactly
   half, everything it leaves is sorted by connection time; C59. *)
From BV Require Import lib.Ints gen.Params_gen model.Eviction proofs.EvictionBase proofs.EvictionLemmas.
From Coq Require Import Sorting.Permutation Sorting.Sorted ZifyBool.
Local Open Scope Z_scope.
Ltac Zify.zify_post_hook ::= Z.div_mod_to_equations.   (* importing ZifyBool resets the hook set in lib/Ints.v *)

Definition nz (nets : list net) : Z := count_if (fun n => negb (n_count n =? 0)) nets.

Lemma nz_cons_zero n rest : (n_count n =? 0) = true -> nz (n :: rest) = nz rest.
Proof. intros E. unfold nz, count_if. simpl. rewrite E. reflexivity. Qed.
Lemma nz_cons_nonzero n rest : (n_count n =? 0) = false -> nz (n :: rest) = 1 + nz rest.
Proof. intros E. unfold nz, count_if, zlen. cbn [filter]. rewrite E. cbn [negb length]. lia. Qed.
Lemma nz_nonneg nets : 0 <= nz nets.
Proof. apply count_if_nonneg. Qed.

Lemma usub64_id a b : b <= a -> usub64 a b = a - b.
Proof. intros H. unfold usub64. destruct (b <=? a) eqn:E; lia. Qed.

Lemma usub64_wrapu64 a b : 0 <= a < 2 ^ 64 -> 0 <= b < 2 ^ 64 -> usub64 a b = wrapu64 (a - b).
Proof.
  intros Ha Hb. unfold usub64, wrapu64, wrapu. change (2 ^ 64) with 18446744073709551616 in *.
  destruct (b <=? a) eqn:E.
  - rewrite Z.mod_small; lia.
  - apply Z.mod_unique with (q := -1); lia.
Qed.

(* The removed elements of the by-network phase all belong to a disadvantaged network. *)
Definition net_ok (n : net) : Prop :=
  n_is_local n = true \/ n_id n = EVICT_NET_CJDNS \/ n_id n = EVICT_NET_I2P \/ n_id n = EVICT_NET_ONION.
Definition disadvantaged (c : cand) : bool :=
  c_is_local c || (c_network c =? EVICT_NET_CJDNS) || (c_network c =? EVICT_NET_I2P) || (c_network c =? EVICT_NET_ONION).

Lemma net_pred_disadvantaged n c : net_ok n -> net_pred n c = true -> disadvantaged c = true.
Proof.
  unfold net_ok, net_pred, disadvantaged. intros H Hp.
  destruct (n_is_local n) eqn:El.
  - rewrite Hp. reflexivity.
  - destruct H as [H|[H|[H|H]]]; [discriminate| | |]; rewrite H in Hp; rewrite Hp;
      repeat rewrite orb_true_r; reflexivity.
Qed.

Section Ratio.
  Variable elk : eraser.
  Hypothesis Helk : elk_spec elk.

  Definition removedp (cands' cands : list cand) : Prop := subp (fun c => disadvantaged c = true) cands' cands.

  Lemma ratio_for_inv ppn maxp : 1 <= ppn -> forall nets cands num any, Forall net_ok nets ->
    match ratio_for elk ppn maxp nets cands num any with
    | (nets', cands', num', any') =>
      removedp cands' cands /\ num' - num = zlen cands - zlen cands' /\
      (any' = false -> any = false) /\ (any = false -> any' = true -> num < num') /\
      (any = true -> any' = true) /\ num <= num' /\ Forall net_ok nets' /\
      (num < maxp -> (ppn = 1 \/ num + ppn * nz nets <= maxp) -> num' <= maxp)
    end.
  Proof.
    intros Hppn. induction nets as [|n rest IH]; intros cands num any Hok; simpl.
    - repeat split; try (apply subp_refl); try lia; try congruence; auto.
    - inversion Hok as [|? ? Hn Hrest]; subst.
      destruct (n_count n =? 0) eqn:En.
      + specialize (IH cands num any Hrest).
        destruct (ratio_for elk ppn maxp rest cands num any) as [[[r c] p] a].
        rewrite (nz_cons_zero n rest En). destruct IH as (I1 & I2 & I3 & I4 & I5 & I6 & I7 & I8).
        repeat split; auto.
      + set (cmpn := cmp_network_time (n_is_local n) (n_id n)).
        assert (Hc : swo cmpn) by apply swo_network_time.
        set (cands1 := elk cmpn ppn (net_pred n) cands).
        assert (Hsub1 : removedp cands1 cands).
        { eapply subp_weaken; [|apply (elk_subp elk Helk cmpn ppn (net_pred n) cands Hc)].
          intros x Hx. now apply (net_pred_disadvantaged n). }
        pose proof (elk_zlen_ge elk Helk cmpn ppn (net_pred n) cands Hc ltac:(lia)) as Hge.
        fold cands1 in Hge.
        pose proof (sub_zlen _ _ (subp_sub _ _ _ Hsub1)) as Hle.
        pose proof (zlen_nonneg cands1) as Hnn.
        rewrite (nz_cons_nonzero n rest En). pose proof (nz_nonneg rest) as Hnz.
        destruct (zlen cands1 <? zlen cands) eqn:Elt.
        * rewrite usub64_id by lia.
          destruct (maxp <=? num + (zlen cands - zlen cands1)) eqn:Ebr.
          -- repeat split; auto; try lia; try congruence.
          -- specialize (IH cands1 (num + (zlen cands - zlen cands1)) true Hrest).
             destruct (ratio_for elk ppn maxp rest cands1 (num + (zlen cands - zlen cands1)) true) as [[[r c] p] a].
             destruct IH as (I1 & I2 & I3 & I4 & I5 & I6 & I7 & I8).
             repeat split; auto; try lia; try congruence;
               try (eapply subp_trans; eauto; fail);
               try (intros Ha; specialize (I3 Ha); discriminate);
               try (constructor; [exact Hn | exact I7]);
               try (intros Hlt Hb; apply I8; [lia|]; destruct Hb as [H1|Hb]; [now left|right]; nia).
        * specialize (IH cands1 num any Hrest).
          destruct (ratio_for elk ppn maxp rest cands1 num any) as [[[r c] p] a].
          destruct IH as (I1 & I2 & I3 & I4 & I5 & I6 & I7 & I8).
          repeat split; auto; try lia;
            try (eapply subp_trans; eauto; fail);
            try (constructor; [exact Hn | exact I7]);
            try (intros Hlt Hb; apply I8; [lia|]; destruct Hb as [H1|Hb]; [now left|right]; nia).
  Qed.

  Lemma ratio_while_ok maxp : forall fuel nets cands num, Forall net_ok nets ->
    0 <= num <= maxp -> maxp - num < Z.of_nat fuel ->
    exists cands' num', ratio_while elk fuel maxp nets cands num = Ok (cands', num') /\
      removedp cands' cands /\ num' - num = zlen cands - zlen cands' /\ num <= num' <= maxp.
  Proof.
    induction fuel as [|f IH]; intros nets cands num Hok Hnum Hfuel; [lia|].
    simpl. destruct (num <? maxp) eqn:Elt.
    2:{ exists cands, num. repeat split; try lia. apply subp_refl. }
    fold (nz nets). destruct (nz nets =? 0) eqn:Enz.
    { exists cands, num. repeat split; try lia. apply subp_refl. }
    rewrite usub64_id by lia.
    set (ppn := Z.max ((maxp - num) / nz nets) 1).
    assert (Hppn : 1 <= ppn) by (unfold ppn; lia).
    pose proof (nz_nonneg nets) as Hnz.
    pose proof (ratio_for_inv ppn maxp Hppn nets cands num false Hok) as Hinv.
    destruct (ratio_for elk ppn maxp nets cands num false) as [[[nets' cands'] num'] any'].
    destruct Hinv as (I1 & I2 & I3 & I4 & I5 & I6 & I7 & I8).
    assert (Hmax : num' <= maxp).
    { apply I8; [lia|]. unfold ppn. destruct (Z.max_spec ((maxp - num) / nz nets) 1) as [[_ ->]|[Hge ->]].
      - now left.
      - right. assert (nz nets * ((maxp - num) / nz nets) <= maxp - num) by (apply Z.mul_div_le; lia). lia. }
    destruct any'; simpl.
    - specialize (I4 eq_refl eq_refl).
      destruct (IH nets' cands' num' I7 ltac:(lia) ltac:(lia)) as (c2 & n2 & E & J1 & J2 & J3).
      exists c2, n2. repeat split; try lia; [exact E|]. eapply subp_trans; eauto.
    - exists cands', num'. repeat split; try lia. exact I1.
  Qed.

  Lemma insert_by_Forall {A} (P : A -> Prop) lt x s : P x -> Forall P s -> Forall P (insert_by lt x s).
  Proof. intros Hx Hs. eapply Permutation_Forall; [apply insert_by_perm|]. now constructor. Qed.

  Lemma stable_sort_Forall {A} (P : A -> Prop) lt (l : list A) : Forall P l -> Forall P (stable_sort lt l).
  Proof. intros H. eapply Permutation_Forall; [apply stable_sort_perm | exact H]. Qed.

  (* ProtectEvictionCandidatesByRatio never gets stuck and protects exactly initial_size / 2 *)
  Lemma protect_by_ratio_ok l :
    exists cands num,
      protect_by_ratio elk l = Ok (elk cmp_rev_connected (zlen l / 2 - num) pred_all cands) /\
      removedp cands l /\ num = zlen l - zlen cands /\ 0 <= num <= zlen l / 2 / 2 /\
      zlen (elk cmp_rev_connected (zlen l / 2 - num) pred_all cands) = zlen l - zlen l / 2.
  Proof.
    pose proof (zlen_nonneg l) as Hl.
    assert (Hq : 0 <= zlen l / 2 / 2 <= zlen l / 2 /\ zlen l / 2 <= zlen l) by lia.
    assert (Hfuel : zlen l / 2 / 2 - 0 < Z.of_nat (S (length l))) by (unfold zlen in *; lia).
    assert (H0 : 0 <= 0 <= zlen l / 2 / 2) by lia.
    unfold protect_by_ratio.
    set (nets := stable_sort _ _).
    assert (Hok : Forall net_ok nets).
    { apply stable_sort_Forall. unfold initial_networks. cbn [map].
      repeat (apply Forall_cons; [unfold net_ok; cbn [set_count n_is_local n_id]; tauto|]). apply Forall_nil. }
    destruct (ratio_while_ok (zlen l / 2 / 2) (S (length l)) nets l 0 Hok H0 Hfuel)
      as (cands & num & E & J1 & J2 & J3).
    rewrite E. exists cands, num.
    pose proof (sub_zlen _ _ (subp_sub _ _ _ J1)) as Hle.
    rewrite usub64_id by lia.
    assert (En : (num =? zlen l - zlen cands) = true) by lia. rewrite En. simpl.
    rewrite usub64_id by lia.
    repeat split; auto; try lia.
    rewrite (elk_zlen_all elk Helk) by (try apply swo_rev_connected; lia). lia.
  Qed.
End Ratio.
