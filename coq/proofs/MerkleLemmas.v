(* Lemmas about model/Merkle.v: the root loop (totality, binding, CVE-2012-2459). *)
From BV Require Import lib.Ints model.Merkle.
From Coq Require Import Arith PeanoNat.
Local Open Scope nat_scope.

Section MerkleProofs.
Variable D : Type.
Variable deq : D -> D -> bool.
Variable H : D -> D -> D.
Variable zero : D.

Local Notation scan := (scan_pairs D deq).
Local Notation level := (level_up D H).
Local Notation loop := (merkle_loop D deq H).
Local Notation root := (compute_merkle_root D deq H zero).

Definition H_injective : Prop := forall a b c d, H a b = H c d -> a = c /\ b = d.
Definition inner_value (x : D) : Prop := exists a b, x = H a b.

(* induction two elements at a time *)
Lemma list_pair_ind (P : list D -> Prop) :
  P [] -> (forall a, P [a]) -> (forall a b r, P r -> P (a :: b :: r)) -> forall l, P l.
Proof.
  intros P0 P1 P2.
  assert (HH : forall l, P l /\ forall a, P (a :: l)).
  { induction l as [|x l IH].
    - split; [exact P0 | exact P1].
    - destruct IH as [IHa IHb]. split; [apply IHb | intro a; apply P2; exact IHa]. }
  intro l. apply HH.
Qed.

Lemma level_nil : level [] = [].
Proof. reflexivity. Qed.
Lemma level_one a : level [a] = [H a a].
Proof. reflexivity. Qed.
Lemma level_cons2 a b r : level (a :: b :: r) = H a b :: level r.
Proof. reflexivity. Qed.

Lemma length_level l : length (level l) = Nat.div2 (S (length l)).
Proof.
  induction l as [| a | a b r IH] using list_pair_ind; try reflexivity.
  rewrite level_cons2. cbn [length]. rewrite IH. reflexivity.
Qed.

Lemma div2_S_lt n : 2 <= n -> Nat.div2 (S n) < n.
Proof. intros Hn. rewrite Nat.div2_div. apply Nat.div_lt_upper_bound; lia. Qed.

Lemma length_level_lt l : 2 <= length l -> length (level l) < length l.
Proof. intros. rewrite length_level. apply div2_S_lt; assumption. Qed.

Lemma length_level_pos l : 1 <= length l -> 1 <= length (level l).
Proof. destruct l as [|a [|b r]]; cbn; lia. Qed.

Lemma level_in x l : In x (level l) -> inner_value x.
Proof.
  induction l as [| a | a b r IH] using list_pair_ind.
  - intros [].
  - cbn. intros [<-|[]]. exists a, a. reflexivity.
  - rewrite level_cons2. intros [<-|Hin]; [exists a, b; reflexivity | auto].
Qed.

(* ------------------------------------------------------------------ fuel *)
Lemma loop_unfold f a b r m :
  loop (S f) (a :: b :: r) m = loop f (level (a :: b :: r)) (orb m (scan (a :: b :: r))).
Proof. reflexivity. Qed.

Lemma loop_fuel_irrelevant : forall f1 f2 l m, length l <= f1 -> length l <= f2 -> loop f1 l m = loop f2 l m.
Proof.
  induction f1 as [|f1 IH]; intros f2 l m H1 H2.
  - destruct l as [|a [|b r]]; cbn in H1; try lia. destruct f2; reflexivity.
  - destruct l as [|a [|b r]]; try (destruct f2; reflexivity).
    destruct f2 as [|f2]; [cbn in H2; lia|].
    rewrite !loop_unfold.
    assert (Hl : length (level (a :: b :: r)) < length (a :: b :: r)) by (apply length_level_lt; cbn; lia).
    apply IH; lia.
Qed.

Lemma loop_step l m : 2 <= length l ->
  loop (length l) l m = loop (length (level l)) (level l) (orb m (scan l)).
Proof.
  intros Hl. destruct l as [|a [|b r]]; cbn in Hl; try lia.
  change (length (a :: b :: r)) with (S (S (length r))) at 1. rewrite loop_unfold.
  apply loop_fuel_irrelevant.
  - pose proof (length_level_lt (a :: b :: r)). cbn [length] in *. lia.
  - lia.
Qed.

(* ------------------------------------------------------------------ big-step reading of the loop
   Red n l r m: l (non-empty) reduces to the single hash r in n rounds; m = some round saw an
   aligned equal pair *)
Inductive Red : nat -> list D -> D -> bool -> Prop :=
| Red_one x : Red 0 [x] x false
| Red_step n l r m : 2 <= length l -> Red n (level l) r m -> Red (S n) l r (orb (scan l) m).

Lemma loop_Red : forall k l m0, length l <= k -> l <> [] ->
  exists n r m, loop (length l) l m0 = Some ([r], orb m0 m) /\ Red n l r m.
Proof.
  induction k as [|k IH]; intros l m0 Hk Hne.
  - destruct l; [congruence | cbn in Hk; lia].
  - destruct l as [|a [|b r]]; [congruence| |].
    + exists 0, a, false. split; [cbn; rewrite orb_false_r; reflexivity | constructor].
    + set (l := a :: b :: r) in *.
      assert (Hl2 : 2 <= length l) by (cbn; lia).
      pose proof (length_level_lt l Hl2) as Hlt.
      assert (Hne' : level l <> []) by (unfold l; rewrite level_cons2; discriminate).
      destruct (IH (level l) (orb m0 (scan l))) as (n & x & m & He & HR); [lia | assumption |].
      exists (S n), x, (orb (scan l) m). split.
      * rewrite loop_step by assumption. rewrite He. rewrite orb_assoc. reflexivity.
      * constructor; assumption.
Qed.

Lemma Red_S_inv n l r m : Red (S n) l r m ->
  exists m', 2 <= length l /\ Red n (level l) r m' /\ m = orb (scan l) m'.
Proof. intros HR. inversion HR; subst. eauto. Qed.

Lemma Red_0_inv l r m : Red 0 l r m -> l = [r] /\ m = false.
Proof. intros HR. inversion HR; subst. auto. Qed.

Lemma Red_nonempty n l r m : Red n l r m -> l <> [].
Proof. intros HR; inversion HR; subst; [discriminate|]. destruct l; [cbn in *; lia | discriminate]. Qed.

Lemma Red_fun : forall n l r m, Red n l r m -> forall n' r' m', Red n' l r' m' -> n = n' /\ r = r' /\ m = m'.
Proof.
  induction 1 as [x | n l r m Hl HR IH]; intros n' r' m' HR'.
  - inversion HR'; subst; [auto | cbn in *; lia].
  - inversion HR' as [|? ? ? ? Hl' HR'' E]; subst; [cbn in *; lia|].
    destruct (IH _ _ _ HR'') as (-> & -> & ->). auto.
Qed.

(* the model's root function, for a non-empty list, is exactly Red *)
Lemma root_Red l : l <> [] -> exists n r m, root l = Some (r, m) /\ Red n l r m.
Proof.
  intros Hne. destruct (loop_Red (length l) l false (le_n _) Hne) as (n & r & m & He & HR).
  exists n, r, m. split; [|assumption]. unfold compute_merkle_root. rewrite He. reflexivity.
Qed.

Lemma root_Red_inv l r m : l <> [] -> root l = Some (r, m) -> exists n, Red n l r m.
Proof.
  intros Hne He. destruct (root_Red l Hne) as (n & r' & m' & He' & HR).
  rewrite He in He'. inversion He'; subst. eauto.
Qed.

Lemma root_total l : exists r m, root l = Some (r, m).
Proof.
  destruct l as [|a l]; [exists zero, false; reflexivity|].
  destruct (root_Red (a :: l)) as (n & r & m & He & _); [discriminate | eauto].
Qed.

(* equal length needs neither the flag nor the leaf premise (used for the witness tree) *)
Lemma level_injective_same_length : H_injective -> forall a b,
  length a = length b -> level a = level b -> a = b.
Proof.
  intros Hinj. induction a as [| x | x y r IH] using list_pair_ind; intros b Hlen Hl.
  - destruct b; [reflexivity | discriminate].
  - destruct b as [|z [|w r']]; try discriminate. cbn in Hl. inversion Hl as [E]. apply Hinj in E. destruct E; subst; reflexivity.
  - destruct b as [|z [|w r']]; try discriminate. rewrite !level_cons2 in Hl. inversion Hl as [[E E2]].
    apply Hinj in E. destruct E; subst. f_equal. f_equal. apply IH; [cbn in Hlen; lia | assumption].
Qed.

Lemma Red_depth_length : forall n l r m, Red n l r m -> forall n' l' r' m', Red n' l' r' m' -> length l = length l' -> n = n'.
Proof.
  induction 1 as [x | n l r m Hl HR IH]; intros n' l' r' m' HR' Hlen.
  - inversion HR'; subst; [reflexivity | cbn in *; lia].
  - inversion HR'; subst; [cbn in *; lia|]. f_equal. eapply IH; [eassumption|]. rewrite !length_level. congruence.
Qed.

Lemma Red_binding_same_length : H_injective -> forall n l1 l2 r m1 m2,
  Red n l1 r m1 -> Red n l2 r m2 -> length l1 = length l2 -> l1 = l2.
Proof.
  intros Hinj. induction n as [|n IH]; intros l1 l2 r m1 m2 R1 R2 Hlen.
  - inversion R1; inversion R2; subst. reflexivity.
  - apply Red_S_inv in R1, R2. destruct R1 as (m1' & Hl1 & R1' & E1), R2 as (m2' & Hl2 & R2' & E2).
    apply level_injective_same_length; auto.
    eapply IH; eauto. rewrite !length_level. congruence.
Qed.

Theorem merkle_binding_same_length : H_injective -> forall l1 l2 r m1 m2,
  length l1 = length l2 -> root l1 = Some (r, m1) -> root l2 = Some (r, m2) -> l1 = l2.
Proof.
  intros Hinj l1 l2 r m1 m2 Hlen E1 E2.
  destruct l1 as [|a l1]; [destruct l2; [reflexivity | discriminate]|].
  destruct l2 as [|b l2]; [discriminate|].
  assert (Hn1 : a :: l1 <> []) by discriminate. assert (Hn2 : b :: l2 <> []) by discriminate.
  destruct (root_Red_inv _ _ _ Hn1 E1) as [n1 R1].
  destruct (root_Red_inv _ _ _ Hn2 E2) as [n2 R2].
  assert (n1 = n2) by (eapply Red_depth_length; eauto). subst.
  eapply Red_binding_same_length; eauto.
Qed.

(* the flag is the reference reading: some level has an aligned equal pair *)
Lemma any_level_Red : forall n l r m, Red n l r m -> forall f, length l <= f ->
  any_level_has_equal_pair D deq H f l = m.
Proof.
  induction 1 as [x | n l r m Hl HR IH]; intros f Hf.
  - destruct f; reflexivity.
  - destruct l as [|a [|b rest]]; cbn in Hl; try lia.
    destruct f as [|f]; [cbn in Hf; lia|].
    cbn [any_level_has_equal_pair]. f_equal. apply IH.
    pose proof (length_level_lt (a :: b :: rest)). cbn [length] in *. lia.
Qed.

Theorem flag_is_any_level l r m : root l = Some (r, m) ->
  any_level_has_equal_pair D deq H (length l) l = m.
Proof.
  intros E. destruct l as [|a l]; [cbn in E; inversion E; reflexivity|].
  assert (Hn : a :: l <> []) by discriminate.
  destruct (root_Red_inv _ _ _ Hn E) as [n HR].
  eapply any_level_Red; eauto.
Qed.

Lemma level_app a b : Nat.even (length a) = true -> level (a ++ b) = level a ++ level b.
Proof.
  induction a as [| x | x y r IH] using list_pair_ind; intros He.
  - reflexivity.
  - discriminate.
  - cbn [app]. rewrite !level_cons2. cbn [app]. f_equal. apply IH. exact He.
Qed.

Lemma scan_app a b : Nat.even (length a) = true -> scan (a ++ b) = orb (scan a) (scan b).
Proof.
  induction a as [| x | x y r IH] using list_pair_ind; intros He.
  - reflexivity.
  - discriminate.
  - cbn [app scan_pairs]. rewrite IH by exact He. rewrite orb_assoc. reflexivity.
Qed.

Lemma even_double n : Nat.even (2 * n) = true.
Proof. rewrite Nat.even_mul. reflexivity. Qed.

Lemma length_level_double l n : length l = 2 * n -> length (level l) = n.
Proof.
  intros E. rewrite length_level, E. rewrite Nat.div2_div.
  symmetry. apply Nat.div_unique with 1; lia.
Qed.

(* ------------------------------------------------------------------ binding *)
Hypothesis deq_spec : forall a b, deq a b = true <-> a = b.

Lemma level_injective : H_injective -> forall a b,
  level a = level b -> scan a = false -> scan b = false -> a = b.
Proof.
  intros Hinj.
  assert (Hxx : forall x, deq x x = true) by (intro x; apply deq_spec; reflexivity).
  induction a as [| x | x y r IH] using list_pair_ind; intros b Hl Sa Sb.
  - destruct b as [|z [|w r']]; [reflexivity | discriminate | discriminate].
  - destruct b as [|z [|w r']]; [discriminate | |].
    + cbn in Hl. inversion Hl as [E]. apply Hinj in E. destruct E; subst; reflexivity.
    + rewrite level_cons2, level_one in Hl. inversion Hl as [[E E2]]. apply Hinj in E. destruct E; subst.
      cbn in Sb. rewrite Hxx in Sb. discriminate.
  - destruct b as [|z [|w r']]; [discriminate | |].
    + rewrite level_cons2, level_one in Hl. inversion Hl as [[E E2]]. apply Hinj in E. destruct E; subst.
      cbn in Sa. rewrite Hxx in Sa. discriminate.
    + rewrite !level_cons2 in Hl. inversion Hl as [[E E2]]. apply Hinj in E. destruct E; subst.
      cbn in Sa, Sb. apply orb_false_iff in Sa, Sb. destruct Sa, Sb.
      f_equal. f_equal. apply IH; assumption.
Qed.

Lemma Red_same_depth : H_injective -> forall n l1 l2 r,
  Red n l1 r false -> Red n l2 r false -> l1 = l2.
Proof.
  intros Hinj. induction n as [|n IH]; intros l1 l2 r R1 R2.
  - inversion R1; inversion R2; subst. reflexivity.
  - apply Red_S_inv in R1, R2. destruct R1 as (m1 & Hl1 & R1' & E1), R2 as (m2 & Hl2 & R2' & E2).
    symmetry in E1, E2. apply orb_false_iff in E1, E2. destruct E1 as [S1 ->], E2 as [S2 ->].
    apply level_injective; eauto.
Qed.

Fixpoint levels (k : nat) (l : list D) : list D :=
  match k with O => l | S k' => levels k' (level l) end.

Lemma Red_peel : forall k n l r, Red (k + n) l r false -> Red n (levels k l) r false.
Proof.
  induction k as [|k IH]; intros n l r HR; [exact HR|].
  cbn [plus] in HR. apply Red_S_inv in HR. destruct HR as (m & Hl & HR' & E).
  symmetry in E. apply orb_false_iff in E. destruct E as [_ ->]. cbn [levels]. apply IH. exact HR'.
Qed.

Lemma levels_in : forall k l x, 1 <= k -> In x (levels k l) -> inner_value x.
Proof.
  induction k as [|k IH]; intros l x Hk Hin; [lia|].
  cbn [levels] in Hin. destruct k as [|k]; [cbn in Hin; eapply level_in; eassumption|].
  eapply IH; [lia | eassumption].
Qed.

Lemma Red_binding : H_injective -> forall n1 n2 l1 l2 r,
  Red n1 l1 r false -> Red n2 l2 r false ->
  (forall x, In x l1 -> ~ inner_value x) -> (forall x, In x l2 -> ~ inner_value x) -> l1 = l2.
Proof.
  intros Hinj n1 n2 l1 l2 r R1 R2 N1 N2.
  destruct (Nat.lt_trichotomy n1 n2) as [Hlt | [-> | Hlt]].
  - exfalso. replace n2 with ((n2 - n1) + n1) in R2 by lia. apply Red_peel in R2.
    pose proof (Red_same_depth Hinj _ _ _ _ R1 R2) as E.
    destruct l1 as [|x l1']; [eapply Red_nonempty; eauto|].
    apply (N1 x); [left; reflexivity|]. apply (levels_in (n2 - n1) l2); [lia|]. rewrite <- E. left; reflexivity.
  - eapply Red_same_depth; eauto.
  - exfalso. replace n1 with ((n1 - n2) + n2) in R1 by lia. apply Red_peel in R1.
    pose proof (Red_same_depth Hinj _ _ _ _ R1 R2) as E.
    destruct l2 as [|x l2']; [eapply Red_nonempty; eauto|].
    apply (N2 x); [left; reflexivity|]. apply (levels_in (n1 - n2) l1); [lia|]. rewrite E. left; reflexivity.
Qed.

(* C04 binding: same root, both unflagged => same leaf list *)
Theorem merkle_binding : H_injective -> forall l1 l2 r,
  l1 <> [] -> l2 <> [] ->
  (forall x, In x l1 -> ~ inner_value x) -> (forall x, In x l2 -> ~ inner_value x) ->
  root l1 = Some (r, false) -> root l2 = Some (r, false) -> l1 = l2.
Proof.
  intros Hinj l1 l2 r Hn1 Hn2 N1 N2 E1 E2.
  destruct (root_Red_inv _ _ _ Hn1 E1) as [n1 R1]. destruct (root_Red_inv _ _ _ Hn2 E2) as [n2 R2].
  eapply Red_binding; eauto.
Qed.

(* ------------------------------------------------------------------ CVE-2012-2459 *)
(* general form (needs the hash premises): whatever differs from an unflagged list and has its
   root is flagged *)
Theorem same_root_variant_is_flagged : H_injective -> forall l l' r m',
  l <> [] -> l' <> [] -> l' <> l ->
  (forall x, In x l -> ~ inner_value x) -> (forall x, In x l' -> ~ inner_value x) ->
  root l = Some (r, false) -> root l' = Some (r, m') -> m' = true.
Proof.
  intros Hinj l l' r m' Hn Hn' Hneq N N' E E'.
  destruct m'; [reflexivity|]. exfalso. apply Hneq. eapply merkle_binding; eauto.
Qed.

(* explicit form (no premise on H): the leaves under the unpaired last node of an odd level are
   appended once more.  p = the leaves before that node (a positive even number j*2 of subtrees of
   2^k leaves), t = the 2^k leaves under it. *)
Lemma Red_tail_dup : forall k n j p t r m,
  1 <= j -> length p = 2 ^ (S k) * j -> length t = 2 ^ k ->
  Red n (p ++ t) r m -> Red n (p ++ t ++ t) r true.
Proof.
  assert (Hxx : forall x, deq x x = true) by (intro x; apply deq_spec; reflexivity).
  induction k as [|k IH]; intros n j p t r m Hj Hp Ht HR.
  - (* one leaf x is unpaired at the leaf level *)
    destruct t as [|x [|? ?]]; cbn in Ht; try lia. cbn [Nat.pow] in Hp.
    assert (Hev : Nat.even (length p) = true) by (rewrite Hp; replace (2 * 1 * j) with (2 * j) by lia; apply even_double).
    destruct n as [|n'].
    { exfalso. apply Red_0_inv in HR. destruct HR as [E0 _]. apply (f_equal (@length D)) in E0. rewrite app_length in E0. cbn in E0. lia. }
    apply Red_S_inv in HR. destruct HR as (m2 & Hl & HR' & E).
    assert (EL : level (p ++ [x] ++ [x]) = level (p ++ [x])).
    { rewrite (level_app p ([x] ++ [x])) by assumption. rewrite (level_app p [x]) by assumption. reflexivity. }
    assert (ES : scan (p ++ [x] ++ [x]) = true).
    { rewrite scan_app by assumption. cbn. rewrite Hxx. apply orb_true_r. }
    replace true with (orb (scan (p ++ [x] ++ [x])) m2) by (rewrite ES; reflexivity).
    constructor; [rewrite !app_length; cbn; lia|]. rewrite EL. exact HR'.
  - assert (Hev : Nat.even (length p) = true).
    { rewrite Hp. cbn [Nat.pow]. rewrite <- Nat.mul_assoc. apply even_double. }
    assert (Hevt : Nat.even (length t) = true).
    { rewrite Ht. cbn [Nat.pow]. apply even_double. }
    destruct n as [|n'].
    { exfalso. apply Red_0_inv in HR. destruct HR as [E0 _]. apply (f_equal (@length D)) in E0. rewrite app_length in E0.
      assert (0 < 2 ^ k) by (apply Nat.neq_0_lt_0, Nat.pow_nonzero; lia). cbn [Nat.pow] in Ht. cbn in E0. lia. }
    apply Red_S_inv in HR. destruct HR as (m2 & Hl & HR' & E).
    rewrite level_app in HR' by assumption.
    assert (HR2 : Red n' (level p ++ level t ++ level t) r true).
    { eapply (IH n' j); [exact Hj | | | exact HR'].
      - apply length_level_double. rewrite Hp. cbn [Nat.pow]. lia.
      - apply length_level_double. rewrite Ht. cbn [Nat.pow]. lia. }
    replace true with (orb (scan (p ++ t ++ t)) true) by apply orb_true_r.
    constructor; [rewrite !app_length in *; lia|].
    rewrite level_app by assumption. rewrite level_app by assumption. exact HR2.
Qed.

Theorem cve_2012_2459_tail_dup : forall k j p t r m,
  1 <= j -> length p = 2 ^ (S k) * j -> length t = 2 ^ k ->
  root (p ++ t) = Some (r, m) -> root (p ++ t ++ t) = Some (r, true).
Proof.
  intros k j p t r m Hj Hp Ht E.
  assert (Hpos : 0 < 2 ^ k) by (apply Nat.neq_0_lt_0, Nat.pow_nonzero; lia).
  assert (Hne : p ++ t <> []) by (intro E0; apply (f_equal (@length D)) in E0; rewrite app_length in E0; cbn in E0; lia).
  destruct (root_Red_inv _ _ _ Hne E) as [n HR].
  pose proof (Red_tail_dup k n j p t r m Hj Hp Ht HR) as HR2.
  assert (Hne2 : p ++ t ++ t <> []) by (intro E0; apply (f_equal (@length D)) in E0; rewrite !app_length in E0; cbn in E0; lia).
  destruct (root_Red _ Hne2) as (n2 & r2 & m2 & E2 & HR3).
  destruct (Red_fun _ _ _ _ HR2 _ _ _ HR3) as (_ & -> & ->). exact E2.
Qed.

End MerkleProofs.

Lemma mtree_eqb_spec : forall a b, mtree_eqb a b = true <-> a = b.
Proof.
  induction a as [n | a1 IH1 a2 IH2]; destruct b as [m | b1 b2]; cbn; try (split; discriminate).
  - rewrite Nat.eqb_eq. split; congruence.
  - rewrite andb_true_iff, IH1, IH2. split; [intros [-> ->]; reflexivity | intros E; inversion E; auto].
Qed.

Lemma mtree_node_injective : forall a b c d, MNode a b = MNode c d -> a = c /\ b = d.
Proof. intros a b c d E. inversion E. auto. Qed.
