From Coq Require Import ZifyBool.
From BV Require Import lib.Ints lib.ChainParams gen.Params_gen model.Pow.
Local Open Scope Z_scope.

(* ------------------------------------------------------------------------------------------ *)
(* powers and bit operations as arithmetic                                                     *)

Lemma pow256 k : 0 <= k -> 2 ^ (8 * k) = 256 ^ k.
Proof. intros. rewrite Z.pow_mul_r by lia. reflexivity. Qed.

Lemma pow256_pos k : 0 <= k -> 0 < 256 ^ k.
Proof. intros. apply Z.pow_pos_nonneg; lia. Qed.

Lemma pow256_mono a b : 0 <= a <= b -> 256 ^ a <= 256 ^ b.
Proof. intros. apply Z.pow_le_mono_r; lia. Qed.

Lemma pow256_succ k : 0 <= k -> 256 ^ (k + 1) = 256 * 256 ^ k.
Proof. intros. rewrite Z.pow_add_r by lia. change (256 ^ 1) with 256. lia. Qed.

Lemma pow256_split a b : 0 <= a -> 0 <= b -> 256 ^ (a + b) = 256 ^ a * 256 ^ b.
Proof. intros. apply Z.pow_add_r; lia. Qed.

Lemma land_ones23 c : Z.land c 0x007fffff = c mod 2 ^ 23.
Proof. change 0x007fffff with (Z.ones 23). apply Z.land_ones. lia. Qed.

Lemma land_bit23 c : (Z.land c 0x00800000 =? 0) = negb (Z.odd (c / 2 ^ 23)).
Proof.
  assert (E : Z.land c 0x00800000 = if Z.testbit c 23 then 2 ^ 23 else 0).
  { apply Z.bits_inj'. intros n Hn. rewrite Z.land_spec.
    change 0x00800000 with (2 ^ 23). rewrite Z.pow2_bits_eqb by lia.
    destruct (Z.eqb_spec 23 n) as [<-|Hne].
    - rewrite andb_true_r. destruct (Z.testbit c 23) eqn:E.
      + rewrite Z.pow2_bits_true by lia. reflexivity.
      + rewrite Z.bits_0. reflexivity.
    - rewrite andb_false_r. destruct (Z.testbit c 23).
      + rewrite Z.pow2_bits_false by lia. reflexivity.
      + rewrite Z.bits_0. reflexivity. }
  rewrite E. rewrite Z.testbit_odd, Z.shiftr_div_pow2 by lia.
  destruct (Z.odd (c / 2 ^ 23)); reflexivity.
Qed.

Lemma lor_disjoint lo hi k : 0 <= k -> 0 <= lo < 2 ^ k -> Z.lor lo (hi * 2 ^ k) = lo + hi * 2 ^ k.
Proof.
  intros Hk Hlo.
  assert (E : Z.land lo (hi * 2 ^ k) = 0).
  { apply Z.bits_inj'. intros n Hn. rewrite Z.land_spec, Z.bits_0.
    destruct (Z_lt_le_dec n k) as [Hl|Hl].
    - rewrite Z.mul_pow2_bits_low by lia. apply andb_false_r.
    - replace lo with (lo mod 2 ^ k) by (apply Z.mod_small; lia).
      rewrite Z.mod_pow2_bits_high by lia. reflexivity. }
  rewrite <- Z.lxor_lor by exact E. symmetry. apply Z.add_nocarry_lxor. exact E.
Qed.

Ltac norm_pow :=
  repeat match goal with
  | |- context [2 ^ ?n] => let v := eval vm_compute in (2 ^ n) in
                           progress change (2 ^ n) with v
  | H : context [2 ^ ?n] |- _ => let v := eval vm_compute in (2 ^ n) in
                           progress change (2 ^ n) with v in H
  end.

Definition TWO256 : Z := 2 ^ 256.

(* ------------------------------------------------------------------------------------------ *)
(* SetCompact = the reference definition                                                       *)

Lemma compact_fields c : 0 <= c < 2 ^ 32 ->
  0 <= compact_size c <= 255 /\ 0 <= compact_mantissa c < 2 ^ 23.
Proof.
  intros H. unfold compact_size, compact_mantissa. split.
  - split; [apply Z.div_pos; lia|].
    assert (c / 2 ^ 24 < 256); [|lia]. apply Z.div_lt_upper_bound; [lia|]. norm_pow. norm_pow. lia.
  - apply Z.mod_pos_bound. lia.
Qed.

Lemma set_compact_arith c : 0 <= c < 2 ^ 32 ->
  let s := compact_size c in let m := compact_mantissa c in
  set_compact c =
  {| cd_value := if s <=? 3 then m / 256 ^ (3 - s) else (m * 256 ^ (s - 3)) mod 2 ^ 256;
     cd_negative := negb ((if s <=? 3 then m / 256 ^ (3 - s) else m) =? 0) && compact_sign c;
     cd_overflow := negb ((if s <=? 3 then m / 256 ^ (3 - s) else m) =? 0) &&
                    ((s >? 34) || (((if s <=? 3 then m / 256 ^ (3 - s) else m) >? 0xff) && (s >? 33))
                     || (((if s <=? 3 then m / 256 ^ (3 - s) else m) >? 0xffff) && (s >? 32))) |}.
Proof.
  intros Hc s m. pose proof (compact_fields c Hc) as [Hs Hm]. fold s in Hs. fold m in Hm.
  unfold set_compact. rewrite Z.shiftr_div_pow2 by lia. fold (compact_size c). fold s.
  rewrite land_ones23. fold (compact_mantissa c). fold m. rewrite land_bit23.
  fold (compact_sign c). rewrite Bool.negb_involutive.
  destruct (s <=? 3) eqn:Es.
  - rewrite Z.shiftr_div_pow2 by lia. rewrite pow256 by lia. reflexivity.
  - rewrite Z.shiftl_mul_pow2 by lia. rewrite pow256 by lia. reflexivity.
Qed.

Lemma magnitude_small c : 0 <= c < 2 ^ 32 -> compact_size c <= 32 -> 0 <= compact_magnitude c < 2 ^ 255.
Proof.
  intros Hc Hs. pose proof (compact_fields c Hc) as [Hs' Hm]. unfold compact_magnitude.
  set (s := compact_size c) in *. set (m := compact_mantissa c) in *.
  destruct (s <=? 3) eqn:Es.
  - assert (0 < 256 ^ (3 - s)) by (apply pow256_pos; lia).
    split; [apply Z.div_pos; lia|].
    assert (m / 256 ^ (3 - s) <= m) by (apply Z.div_le_upper_bound; nia).
    assert (2 ^ 23 < 2 ^ 255) by (apply Z.pow_lt_mono_r; lia). lia.
  - assert (0 < 256 ^ (s - 3)) by (apply pow256_pos; lia).
    assert (256 ^ (s - 3) <= 256 ^ 29) by (apply pow256_mono; lia).
    split; [nia|].
    assert (E : 2 ^ 255 = 2 ^ 23 * 256 ^ 29) by (vm_compute; reflexivity).
    rewrite E. nia.
Qed.

Ltac norm_pow256 :=
  repeat match goal with
  | |- context [256 ^ ?n] => let v := eval vm_compute in (256 ^ n) in
                           progress change (256 ^ n) with v
  end.

Lemma set_compact_holds c : 0 <= c < 2 ^ 32 ->
  cd_value (set_compact c) = compact_magnitude c mod 2 ^ 256 /\
  cd_overflow (set_compact c) = (2 ^ 256 <=? compact_magnitude c) /\
  cd_negative (set_compact c) = compact_sign c && negb (compact_magnitude c =? 0).
Proof.
  intros Hc. rewrite set_compact_arith by exact Hc. cbn [cd_value cd_overflow cd_negative].
  pose proof (compact_fields c Hc) as [Hs Hm].
  pose proof (magnitude_small c Hc) as Hsmall.
  unfold compact_magnitude in *.
  set (s := compact_size c) in *. set (m := compact_mantissa c) in *.
  assert (P255 : 2 ^ 255 < 2 ^ 256) by (apply Z.pow_lt_mono_r; lia).
  destruct (s <=? 3) eqn:Es.
  - specialize (Hsmall ltac:(lia)). set (w := m / 256 ^ (3 - s)) in *. repeat split.
    + rewrite Z.mod_small by lia. reflexivity.
    + lia.
    + apply andb_comm.
  - assert (Hp : 0 < 256 ^ (s - 3)) by (apply pow256_pos; lia).
    repeat split.
    + (* overflow *)
      destruct (Z_le_gt_dec s 32) as [H32|H32].
      * specialize (Hsmall H32). set (X := m * 256 ^ (s - 3)) in *. lia.
      * clear Hsmall.
        destruct (Z.eq_dec s 33) as [E33|N33].
        { rewrite E33. norm_pow256. norm_pow. lia. }
        destruct (Z.eq_dec s 34) as [E34|N34].
        { rewrite E34. norm_pow256. norm_pow. lia. }
        assert (Hbig : 2 ^ 256 <= 256 ^ (s - 3)).
        { change (2 ^ 256) with (256 ^ 32). apply pow256_mono. lia. }
        assert (HX : (m = 0 -> m * 256 ^ (s - 3) = 0) /\ (m <> 0 -> 2 ^ 256 <= m * 256 ^ (s - 3))).
        { split; intros; nia. }
        set (X := m * 256 ^ (s - 3)) in *. lia.
    + (* negative *)
      rewrite andb_comm. f_equal. f_equal.
      destruct (m =? 0) eqn:E0; symmetry.
      * apply Z.eqb_eq. nia.
      * apply Z.eqb_neq. nia.
Qed.

Lemma magnitude_nonneg c : 0 <= c < 2 ^ 32 -> 0 <= compact_magnitude c.
Proof.
  intros Hc. pose proof (compact_fields c Hc) as [Hs Hm]. unfold compact_magnitude.
  destruct (compact_size c <=? 3) eqn:E.
  - apply Z.div_pos; [lia|]. apply pow256_pos. lia.
  - assert (0 < 256 ^ (compact_size c - 3)) by (apply pow256_pos; lia). nia.
Qed.

(* CheckProofOfWork accepts exactly when, over the unbounded integers, the sign bit is clear,
   0 < mantissa*256^(size-3) <= powLimit and hash <= that target *)
Lemma check_pow_iff L hash c : 0 <= c < 2 ^ 32 -> 0 <= L < 2 ^ 256 ->
  check_pow L hash c = check_pow_spec L hash c.
Proof.
  intros Hc HL. unfold check_pow, derive_target, check_pow_spec.
  destruct (set_compact_holds c Hc) as (Hv & Ho & Hn). rewrite Hv, Ho, Hn.
  pose proof (magnitude_nonneg c Hc) as HM. set (M := compact_magnitude c) in *.
  destruct (Z_lt_le_dec M (2 ^ 256)) as [Hlt|Hge].
  - rewrite Z.mod_small by lia.
    destruct (compact_sign c && negb (M =? 0) || (M =? 0) || (2 ^ 256 <=? M) || (M >? L)) eqn:EB.
    + destruct (compact_sign c); cbn [andb orb negb] in *; lia.
    + destruct (hash >? M) eqn:EH; destruct (compact_sign c); cbn [andb orb negb] in *; lia.
  - replace (2 ^ 256 <=? M) with true by lia. rewrite orb_true_r. cbn [orb]. lia.
Qed.

Lemma derive_target_some L c t : 0 <= c < 2 ^ 32 -> 0 <= L < 2 ^ 256 ->
  derive_target c L = Some t ->
  t = compact_magnitude c /\ 0 < t <= L /\ compact_sign c = false /\ cd_value (set_compact c) = t.
Proof.
  intros Hc HL. unfold derive_target.
  destruct (set_compact_holds c Hc) as (Hv & Ho & Hn). rewrite Hv, Ho, Hn.
  pose proof (magnitude_nonneg c Hc) as HM. set (M := compact_magnitude c) in *.
  destruct (Z_lt_le_dec M (2 ^ 256)) as [Hlt|Hge].
  - rewrite Z.mod_small by lia.
    destruct (compact_sign c && negb (M =? 0) || (M =? 0) || (2 ^ 256 <=? M) || (M >? L)) eqn:EB; [discriminate|].
    intros E. injection E as <-. destruct (compact_sign c); cbn [andb orb negb] in *; repeat split; lia.
  - replace (2 ^ 256 <=? M) with true by lia. rewrite orb_true_r. cbn [orb]. discriminate.
Qed.

(* ------------------------------------------------------------------------------------------ *)
(* GetCompact = the reference encoder                                                          *)

Lemma land_disjoint lo hi k : 0 <= k -> 0 <= lo < 2 ^ k -> Z.land lo (hi * 2 ^ k) = 0.
Proof.
  intros Hk Hlo. apply Z.bits_inj'. intros n Hn. rewrite Z.land_spec, Z.bits_0.
  destruct (Z_lt_le_dec n k) as [Hl|Hl].
  - rewrite Z.mul_pow2_bits_low by lia. apply andb_false_r.
  - replace lo with (lo mod 2 ^ k) by (apply Z.mod_small; lia).
    rewrite Z.mod_pow2_bits_high by lia. reflexivity.
Qed.

Lemma bit23_test n : 0 <= n < 2 ^ 24 -> (Z.land n 0x00800000 =? 0) = (n <? 2 ^ 23).
Proof.
  intros H. rewrite land_bit23.
  assert (B : 0 <= n / 2 ^ 23 < 2).
  { split; [apply Z.div_pos; lia|]. apply Z.div_lt_upper_bound; [lia|]. norm_pow. norm_pow. lia. }
  destruct (Z_lt_le_dec n (2 ^ 23)) as [Hl|Hl].
  - rewrite Z.div_small by lia. simpl. symmetry. apply Z.ltb_lt. exact Hl.
  - assert (E : n / 2 ^ 23 = 1).
    { assert (1 <= n / 2 ^ 23); [|lia]. apply Z.div_le_lower_bound; lia. }
    rewrite E. simpl. symmetry. apply Z.ltb_ge. exact Hl.
Qed.

Lemma bits256_bounds x : 0 < x -> 1 <= bits256 x /\ 2 ^ (bits256 x - 1) <= x < 2 ^ (bits256 x).
Proof.
  intros Hx. unfold bits256. replace (x =? 0) with false by lia.
  pose proof (Z.log2_spec x Hx) as L. pose proof (Z.log2_nonneg x) as N.
  replace (Z.log2 x + 1 - 1) with (Z.log2 x) by lia.
  replace (Z.log2 x + 1) with (Z.succ (Z.log2 x)) by lia. split; [lia|exact L].
Qed.

Lemma byte_size_bounds x : 0 < x ->
  let s := (bits256 x + 7) / 8 in 1 <= s /\ 256 ^ (s - 1) <= x < 256 ^ s.
Proof.
  intros Hx s. destruct (bits256_bounds x Hx) as [Hb [Hlo Hhi]].
  set (b := bits256 x) in *.
  assert (Hs : 8 * s <= b + 7 < 8 * s + 8) by (unfold s; lia).
  split; [lia|]. rewrite <- !pow256 by lia. split.
  - apply Z.le_trans with (2 ^ (b - 1)); [|exact Hlo]. apply Z.pow_le_mono_r; lia.
  - apply Z.lt_le_trans with (2 ^ b); [exact Hhi|]. apply Z.pow_le_mono_r; lia.
Qed.

Lemma byte_size_le_32 x : 0 < x < 2 ^ 256 -> (bits256 x + 7) / 8 <= 32.
Proof.
  intros Hx. destruct (byte_size_bounds x ltac:(lia)) as [H1 [Hlo Hhi]].
  set (s := (bits256 x + 7) / 8) in *.
  destruct (Z_le_gt_dec s 32) as [|Hgt]; [assumption|exfalso].
  assert (256 ^ 32 <= 256 ^ (s - 1)) by (apply pow256_mono; lia).
  change (256 ^ 32) with (2 ^ 256) in *. lia.
Qed.

Lemma get_compact_parts_arith x : 0 < x < 2 ^ 256 ->
  let s := (bits256 x + 7) / 8 in
  let A := if s <=? 3 then x * 256 ^ (3 - s) else x / 256 ^ (s - 3) in
  0 <= A < 2 ^ 24 /\
  get_compact_parts x = if A <? 2 ^ 23 then (A, s) else (A / 256, s + 1).
Proof.
  intros Hx s A. destruct (byte_size_bounds x ltac:(lia)) as [H1 [Hlo Hhi]]. fold s in H1, Hlo, Hhi.
  assert (HA : 0 <= A < 2 ^ 24).
  { unfold A. destruct (s <=? 3) eqn:Es.
    - assert (0 < 256 ^ (3 - s)) by (apply pow256_pos; lia).
      assert (E : 2 ^ 24 = 256 ^ s * 256 ^ (3 - s)).
      { rewrite <- pow256_split by lia. replace (s + (3 - s)) with 3 by lia. reflexivity. }
      rewrite E. split; [nia|]. apply Z.mul_lt_mono_pos_r; lia.
    - assert (0 < 256 ^ (s - 3)) by (apply pow256_pos; lia).
      split; [apply Z.div_pos; lia|]. apply Z.div_lt_upper_bound; [lia|].
      assert (E : 256 ^ s = 256 ^ (s - 3) * 2 ^ 24).
      { change (2 ^ 24) with (256 ^ 3). rewrite <- pow256_split by lia. f_equal. lia. }
      lia. }
  split; [exact HA|].
  unfold get_compact_parts. fold s.
  assert (EA : (if s <=? 3 then wrapu32 (wrapu64 (Z.shiftl (wrapu64 x) (8 * (3 - s))))
                else wrapu32 (wrapu64 (Z.shiftr x (8 * (s - 3))))) = A).
  { unfold A in *. destruct (s <=? 3) eqn:Es.
    - assert (Hx64 : x < 2 ^ 64).
      { apply Z.lt_le_trans with (256 ^ s); [lia|]. change (2 ^ 64) with (256 ^ 8). apply pow256_mono. lia. }
      unfold wrapu64, wrapu32. rewrite (wrapu_id 64 x) by lia.
      rewrite Z.shiftl_mul_pow2 by lia. rewrite pow256 by lia.
      assert (2 ^ 24 < 2 ^ 32 /\ 2 ^ 24 < 2 ^ 64) by (split; apply Z.pow_lt_mono_r; lia).
      rewrite (wrapu_id 64) by lia. rewrite (wrapu_id 32) by lia. reflexivity.
    - rewrite Z.shiftr_div_pow2 by lia. rewrite pow256 by lia.
      assert (2 ^ 24 < 2 ^ 32 /\ 2 ^ 24 < 2 ^ 64) by (split; apply Z.pow_lt_mono_r; lia).
      unfold wrapu64, wrapu32. rewrite (wrapu_id 64) by lia. rewrite (wrapu_id 32) by lia. reflexivity. }
  rewrite EA. rewrite bit23_test by exact HA.
  destruct (A <? 2 ^ 23); [reflexivity|]. rewrite Z.shiftr_div_pow2 by lia. reflexivity.
Qed.

(* mpi_size is the smallest n with 2x < 256^n *)
Lemma mpi_size_fuel_correct fuel : forall x n0 n,
  0 <= n0 <= n -> n - n0 < Z.of_nat fuel ->
  (forall k, n0 <= k < n -> 256 ^ k <= 2 * x) -> 2 * x < 256 ^ n ->
  mpi_size_fuel fuel x n0 = n.
Proof.
  induction fuel as [|f IH]; intros x n0 n Hn Hf Hlow Hhi; [lia|].
  cbn [mpi_size_fuel]. destruct (Z.eq_dec n0 n) as [->|Hne].
  - replace (2 * x <? 256 ^ n) with true by lia. reflexivity.
  - pose proof (Hlow n0 ltac:(lia)) as H0. replace (2 * x <? 256 ^ n0) with false by lia.
    apply IH; try lia; intros k Hk; apply Hlow; lia.
Qed.

Lemma mpi_size_unique x n : 0 <= n <= 39 -> 2 * x < 256 ^ n -> (n = 0 \/ 256 ^ (n - 1) <= 2 * x) ->
  mpi_size x = n.
Proof.
  intros Hn Hhi Hlo. unfold mpi_size. apply mpi_size_fuel_correct; try lia.
  intros k Hk. destruct Hlo as [->|Hlo]; [lia|].
  apply Z.le_trans with (256 ^ (n - 1)); [apply pow256_mono; lia|exact Hlo].
Qed.

Lemma mpi_size_of_bytes x : 0 < x < 2 ^ 256 ->
  let s := (bits256 x + 7) / 8 in
  let A := if s <=? 3 then x * 256 ^ (3 - s) else x / 256 ^ (s - 3) in
  mpi_size x = if A <? 2 ^ 23 then s else s + 1.
Proof.
  intros Hx s A. destruct (byte_size_bounds x ltac:(lia)) as [H1 [Hlo Hhi]]. fold s in H1, Hlo, Hhi.
  pose proof (byte_size_le_32 x Hx) as H32. fold s in H32.
  assert (Hiff : A < 2 ^ 23 <-> 2 * x < 256 ^ s).
  { unfold A. destruct (s <=? 3) eqn:Es.
    - assert (0 < 256 ^ (3 - s)) by (apply pow256_pos; lia).
      assert (E : 2 * 2 ^ 23 = 256 ^ s * 256 ^ (3 - s)).
      { rewrite <- pow256_split by lia. replace (s + (3 - s)) with 3 by lia. reflexivity. }
      split; intros; nia.
    - assert (0 < 256 ^ (s - 3)) by (apply pow256_pos; lia).
      assert (E : 256 ^ s = 256 ^ (s - 3) * (2 * 2 ^ 23)).
      { change (2 * 2 ^ 23) with (256 ^ 3). rewrite <- pow256_split by lia. f_equal. lia. }
      rewrite E. set (P := 256 ^ (s - 3)) in *.
      split; intros Hh.
      + assert (x < P * 2 ^ 23); [|lia].
        destruct (Z_lt_le_dec x (P * 2 ^ 23)) as [|Hge]; [assumption|exfalso].
        assert (2 ^ 23 <= x / P) by (apply Z.div_le_lower_bound; lia). lia.
      + apply Z.div_lt_upper_bound; lia. }
  destruct (A <? 2 ^ 23) eqn:EA.
  - apply mpi_size_unique; [lia|lia|]. right. lia.
  - apply mpi_size_unique; [lia| |].
    + rewrite pow256_succ by lia. lia.
    + right. replace (s + 1 - 1) with s by lia. lia.
Qed.

Lemma mpi_size_0 : mpi_size 0 = 0.
Proof. vm_compute. reflexivity. Qed.

Lemma mpi_size_spec x : 0 <= x < 2 ^ 256 ->
  0 <= mpi_size x <= 33 /\ 2 * x < 256 ^ mpi_size x /\ (mpi_size x = 0 \/ 256 ^ (mpi_size x - 1) <= 2 * x).
Proof.
  intros Hx. destruct (Z.eq_dec x 0) as [->|Hne].
  - rewrite mpi_size_0. split; [lia|]. split; [reflexivity|left; reflexivity].
  - assert (Hx' : 0 < x < 2 ^ 256) by lia.
    destruct (byte_size_bounds x ltac:(lia)) as [H1 [Hlo Hhi]].
    pose proof (byte_size_le_32 x Hx') as H32.
    pose proof (mpi_size_of_bytes x Hx') as E. cbv zeta in E.
    set (s := (bits256 x + 7) / 8) in *.
    set (A := if s <=? 3 then x * 256 ^ (3 - s) else x / 256 ^ (s - 3)) in *.
    (* re-derive the two facts used to pick n *)
    destruct (A <? 2 ^ 23) eqn:EA; rewrite E.
    + split; [lia|].
      assert (Hn : mpi_size x = s) by exact E.
      (* 2x < 256^s follows from uniqueness direction: recompute *)
      assert (H2 : 2 * x < 256 ^ s).
      { unfold A in EA. destruct (s <=? 3) eqn:Es.
        - assert (0 < 256 ^ (3 - s)) by (apply pow256_pos; lia).
          assert (E2 : 2 * 2 ^ 23 = 256 ^ s * 256 ^ (3 - s)).
          { rewrite <- pow256_split by lia. replace (s + (3 - s)) with 3 by lia. reflexivity. }
          nia.
        - assert (0 < 256 ^ (s - 3)) by (apply pow256_pos; lia).
          assert (E2 : 256 ^ s = 256 ^ (s - 3) * (2 * 2 ^ 23)).
          { change (2 * 2 ^ 23) with (256 ^ 3). rewrite <- pow256_split by lia. f_equal. lia. }
          rewrite E2. set (P := 256 ^ (s - 3)) in *.
          destruct (Z_lt_le_dec x (P * 2 ^ 23)) as [|Hge]; [lia|exfalso].
          assert (2 ^ 23 <= x / P) by (apply Z.div_le_lower_bound; lia). lia. }
      split; [exact H2|]. right. lia.
    + split; [lia|]. split.
      * rewrite pow256_succ by lia. lia.
      * right. replace (s + 1 - 1) with s by lia.
        unfold A in EA. destruct (s <=? 3) eqn:Es.
        -- assert (0 < 256 ^ (3 - s)) by (apply pow256_pos; lia).
           assert (E2 : 2 * 2 ^ 23 = 256 ^ s * 256 ^ (3 - s)).
           { rewrite <- pow256_split by lia. replace (s + (3 - s)) with 3 by lia. reflexivity. }
           nia.
        -- assert (0 < 256 ^ (s - 3)) by (apply pow256_pos; lia).
           assert (E2 : 256 ^ s = 256 ^ (s - 3) * (2 * 2 ^ 23)).
           { change (2 * 2 ^ 23) with (256 ^ 3). rewrite <- pow256_split by lia. f_equal. lia. }
           rewrite E2. set (P := 256 ^ (s - 3)) in *.
           assert (x / P < 2 ^ 23 \/ 2 ^ 23 <= x / P) as [Hl|Hl] by lia; [lia|].
           assert (P * 2 ^ 23 <= x); [|lia].
           pose proof (Z.mul_div_le x P ltac:(lia)). nia.
Qed.

Lemma get_compact_0 : get_compact 0 false = compact_encode_spec 0 /\ get_compact_asserts 0 = true.
Proof. vm_compute. split; reflexivity. Qed.

Lemma get_compact_is_spec x : 0 <= x < 2 ^ 256 ->
  get_compact x false = compact_encode_spec x /\ get_compact_asserts x = true.
Proof.
  intros Hx. destruct (Z.eq_dec x 0) as [->|Hne]; [exact get_compact_0|].
  assert (Hx' : 0 < x < 2 ^ 256) by lia.
  destruct (byte_size_bounds x ltac:(lia)) as [H1 [Hlo Hhi]].
  pose proof (byte_size_le_32 x Hx') as H32.
  destruct (get_compact_parts_arith x Hx') as [HA EP].
  pose proof (mpi_size_of_bytes x Hx') as En. cbv zeta in En.
  unfold get_compact, get_compact_asserts, compact_encode_spec. rewrite EP, En.
  set (s := (bits256 x + 7) / 8) in *.
  set (A := if s <=? 3 then x * 256 ^ (3 - s) else x / 256 ^ (s - 3)) in *.
  assert (P32 : 2 ^ 32 = 256 * 2 ^ 24) by reflexivity.
  assert (P24 : 2 ^ 24 = 2 * 2 ^ 23) by reflexivity.
  change (Z.lxor 0xffffffff 0x007fffff) with (511 * 2 ^ 23).
  cbn [andb]. destruct (A <? 2 ^ 23) eqn:EA.
  - rewrite Z.lor_0_r. rewrite Z.shiftl_mul_pow2 by lia.
    unfold wrapu32. rewrite wrapu_id by lia. rewrite lor_disjoint by lia.
    split; [reflexivity|]. rewrite land_disjoint by lia. lia.
  - rewrite Z.lor_0_r. rewrite Z.shiftl_mul_pow2 by lia.
    unfold wrapu32. rewrite wrapu_id by lia.
    assert (HA' : 0 <= A / 256 < 2 ^ 23).
    { split; [apply Z.div_pos; lia|]. apply Z.div_lt_upper_bound; lia. }
    rewrite lor_disjoint by lia. rewrite land_disjoint by lia.
    split; [|lia]. f_equal.
    unfold A. destruct (s <=? 3) eqn:Es.
    + destruct (Z.eq_dec s 3) as [E3|N3].
      * rewrite E3. change (3 + 1 <=? 3) with false. change (256 ^ (3 - 3)) with 1.
        change (256 ^ (3 + 1 - 3)) with 256. rewrite Z.mul_1_r. reflexivity.
      * replace (s + 1 <=? 3) with true by lia.
        replace (3 - s) with ((3 - (s + 1)) + 1) by lia. rewrite pow256_succ by lia.
        replace (x * (256 * 256 ^ (3 - (s + 1)))) with (x * 256 ^ (3 - (s + 1)) * 256) by lia.
        apply Z.div_mul. lia.
    + replace (s + 1 <=? 3) with false by lia.
      replace (s + 1 - 3) with ((s - 3) + 1) by lia. rewrite pow256_succ by lia.
      rewrite Z.div_div by (try apply pow256_pos; lia). f_equal. lia.
Qed.

(* decoding the encoder's output *)
Definition encode_mantissa (x : Z) : Z :=
  let n := mpi_size x in if n <=? 3 then x * 256 ^ (3 - n) else x / 256 ^ (n - 3).

Lemma encode_mantissa_range x : 0 <= x < 2 ^ 256 -> 0 <= encode_mantissa x < 2 ^ 23.
Proof.
  intros Hx. destruct (mpi_size_spec x Hx) as (Hn & Hhi & Hlo). unfold encode_mantissa.
  set (n := mpi_size x) in *. destruct (n <=? 3) eqn:En.
  - assert (0 < 256 ^ (3 - n)) by (apply pow256_pos; lia).
    assert (E : 2 * 2 ^ 23 = 256 ^ n * 256 ^ (3 - n)).
    { rewrite <- pow256_split by lia. replace (n + (3 - n)) with 3 by lia. reflexivity. }
    split; nia.
  - assert (0 < 256 ^ (n - 3)) by (apply pow256_pos; lia).
    assert (E : 256 ^ n = 256 ^ (n - 3) * (2 * 2 ^ 23)).
    { change (2 * 2 ^ 23) with (256 ^ 3). rewrite <- pow256_split by lia. f_equal. lia. }
    split; [apply Z.div_pos; lia|]. apply Z.div_lt_upper_bound; lia.
Qed.

Lemma decode_encode x : 0 <= x < 2 ^ 256 ->
  let c := compact_encode_spec x in
  0 <= c < 2 ^ 32 /\ compact_size c = mpi_size x /\ compact_mantissa c = encode_mantissa x /\
  compact_sign c = false /\ compact_magnitude c = compact_trunc x.
Proof.
  intros Hx c. destruct (mpi_size_spec x Hx) as (Hn & Hhi & Hlo).
  pose proof (encode_mantissa_range x Hx) as Hm.
  assert (Ec : c = encode_mantissa x + mpi_size x * 2 ^ 24) by reflexivity.
  set (n := mpi_size x) in *. set (m := encode_mantissa x) in *.
  assert (P32 : 2 ^ 32 = 256 * 2 ^ 24) by reflexivity.
  assert (P24 : 2 ^ 24 = 2 * 2 ^ 23) by reflexivity.
  assert (Es : compact_size c = n).
  { unfold compact_size. rewrite Ec. rewrite Z.div_add by lia. rewrite Z.div_small by lia. lia. }
  assert (Em : compact_mantissa c = m).
  { unfold compact_mantissa. rewrite Ec. rewrite P24.
    replace (m + n * (2 * 2 ^ 23)) with (m + (n * 2) * 2 ^ 23) by lia.
    rewrite Z.mod_add by lia. apply Z.mod_small. lia. }
  split; [lia|]. split; [exact Es|]. split; [exact Em|]. split.
  - unfold compact_sign. rewrite Ec. rewrite P24.
    replace (m + n * (2 * 2 ^ 23)) with (m + (n * 2) * 2 ^ 23) by lia.
    rewrite Z.div_add by lia. rewrite Z.div_small by lia.
    replace (0 + n * 2) with (2 * n) by lia. rewrite Z.odd_mul. reflexivity.
  - unfold compact_magnitude. rewrite Es, Em. unfold compact_trunc, compact_exp. fold n.
    unfold m, encode_mantissa. fold n. destruct (n <=? 3) eqn:En.
    + replace (Z.max 0 (n - 3)) with 0 by lia. change (256 ^ 0) with 1.
      rewrite Z.div_1_r, Z.mul_1_r. apply Z.div_mul.
      assert (0 < 256 ^ (3 - n)) by (apply pow256_pos; lia). lia.
    + replace (Z.max 0 (n - 3)) with (n - 3) by lia. reflexivity.
Qed.

Lemma compact_trunc_le x : 0 <= x < 2 ^ 256 -> 0 <= compact_trunc x <= x.
Proof.
  intros Hx. destruct (mpi_size_spec x Hx) as (Hn & _). unfold compact_trunc.
  assert (0 < 256 ^ compact_exp x) by (apply pow256_pos; unfold compact_exp; lia).
  split.
  - apply Z.mul_nonneg_nonneg; [apply Z.div_pos|]; lia.
  - rewrite Z.mul_comm. apply Z.mul_div_le. lia.
Qed.

Lemma mpi_size_mono x y : 0 <= x <= y -> y < 2 ^ 256 -> mpi_size x <= mpi_size y.
Proof.
  intros Hxy Hy. destruct (mpi_size_spec x ltac:(lia)) as (Hnx & Hhx & Hlx).
  destruct (mpi_size_spec y ltac:(lia)) as (Hny & Hhy & Hly).
  destruct (Z_le_gt_dec (mpi_size x) (mpi_size y)) as [|Hgt]; [assumption|exfalso].
  destruct Hlx as [E0|Hlx]; [lia|].
  assert (256 ^ mpi_size y <= 256 ^ (mpi_size x - 1)) by (apply pow256_mono; lia). lia.
Qed.

Lemma compact_trunc_mono x y : 0 <= x <= y -> y < 2 ^ 256 -> compact_trunc x <= compact_trunc y.
Proof.
  intros Hxy Hy. pose proof (mpi_size_mono x y Hxy Hy) as Hmono.
  destruct (mpi_size_spec x ltac:(lia)) as (Hnx & Hhx & Hlx).
  destruct (mpi_size_spec y ltac:(lia)) as (Hny & Hhy & Hly).
  pose proof (compact_trunc_le x ltac:(lia)) as Htx.
  unfold compact_trunc in *. unfold compact_exp in *.
  set (nx := mpi_size x) in *. set (ny := mpi_size y) in *.
  destruct (Z.eq_dec (Z.max 0 (nx - 3)) (Z.max 0 (ny - 3))) as [Ee|Ne].
  - rewrite Ee. set (P := 256 ^ Z.max 0 (ny - 3)).
    assert (0 < P) by (apply pow256_pos; lia).
    apply Z.mul_le_mono_nonneg_r; [lia|]. apply Z.div_le_mono; lia.
  - assert (Hlt : nx < ny /\ 3 < ny) by lia.
    replace (Z.max 0 (ny - 3)) with (ny - 3) by lia.
    set (P := 256 ^ (ny - 3)). assert (HP : 0 < P) by (apply pow256_pos; lia).
    assert (E1 : 256 ^ (ny - 1) = 2 * 2 ^ 15 * P).
    { unfold P. change (2 * 2 ^ 15) with (256 ^ 2). rewrite <- pow256_split by lia. f_equal. lia. }
    assert (Hxs : 2 * x < 2 * 2 ^ 15 * P).
    { rewrite <- E1. apply Z.lt_le_trans with (256 ^ nx); [exact Hhx|]. apply pow256_mono. lia. }
    destruct Hly as [E0|Hly]; [lia|]. rewrite E1 in Hly.
    assert (2 ^ 15 <= y / P) by (apply Z.div_le_lower_bound; lia).
    apply Z.le_trans with x; [lia|]. nia.
Qed.

(* re-encoding a decoded canonical value gives the same compact number (get (set (get x)) = get x) *)
Lemma encode_trunc x : 0 <= x < 2 ^ 256 -> compact_encode_spec (compact_trunc x) = compact_encode_spec x.
Proof.
  intros Hx. destruct (mpi_size_spec x Hx) as (Hn & Hhi & Hlo).
  pose proof (compact_trunc_le x Hx) as Ht.
  assert (En : mpi_size (compact_trunc x) = mpi_size x).
  { apply mpi_size_unique; [lia|lia|].
    destruct Hlo as [E0|Hlo]; [left; exact E0|right].
    unfold compact_trunc, compact_exp. set (n := mpi_size x) in *.
    destruct (Z_le_gt_dec n 3) as [H3|H3].
    - replace (Z.max 0 (n - 3)) with 0 by lia. change (256 ^ 0) with 1.
      rewrite Z.div_1_r, Z.mul_1_r. exact Hlo.
    - replace (Z.max 0 (n - 3)) with (n - 3) by lia.
      set (P := 256 ^ (n - 3)). assert (HP : 0 < P) by (apply pow256_pos; lia).
      assert (E1 : 256 ^ (n - 1) = 2 * 2 ^ 15 * P).
      { unfold P. change (2 * 2 ^ 15) with (256 ^ 2). rewrite <- pow256_split by lia. f_equal. lia. }
      rewrite E1 in *.
      assert (2 ^ 15 <= x / P) by (apply Z.div_le_lower_bound; lia). nia. }
  unfold compact_encode_spec. rewrite En. f_equal.
  set (n := mpi_size x) in *. unfold compact_trunc, compact_exp. fold n.
  destruct (n <=? 3) eqn:E3.
  - replace (Z.max 0 (n - 3)) with 0 by lia. change (256 ^ 0) with 1.
    rewrite Z.div_1_r, Z.mul_1_r. reflexivity.
  - replace (Z.max 0 (n - 3)) with (n - 3) by lia.
    rewrite Z.div_mul; [reflexivity|]. assert (0 < 256 ^ (n - 3)) by (apply pow256_pos; lia). lia.
Qed.

(* precision: at most the low n-3 bytes are lost, i.e. less than 1/32768 of the value *)
Lemma compact_trunc_precision x : 0 <= x < 2 ^ 256 -> 32768 * (x - compact_trunc x) <= x.
Proof.
  intros Hx. destruct (mpi_size_spec x Hx) as (Hn & Hhi & Hlo).
  unfold compact_trunc, compact_exp. set (n := mpi_size x) in *.
  destruct (Z_le_gt_dec n 3) as [H3|H3].
  - replace (Z.max 0 (n - 3)) with 0 by lia. change (256 ^ 0) with 1.
    rewrite Z.div_1_r, Z.mul_1_r. lia.
  - replace (Z.max 0 (n - 3)) with (n - 3) by lia.
    set (P := 256 ^ (n - 3)). assert (HP : 0 < P) by (apply pow256_pos; lia).
    assert (E1 : 256 ^ (n - 1) = 2 * 2 ^ 15 * P).
    { unfold P. change (2 * 2 ^ 15) with (256 ^ 2). rewrite <- pow256_split by lia. f_equal. lia. }
    destruct Hlo as [E0|Hlo]; [lia|]. rewrite E1 in Hlo.
    pose proof (Z.mod_pos_bound x P HP) as Hr.
    assert (Er : x - x / P * P = x mod P) by (rewrite Z.mod_eq by lia; lia).
    rewrite Er. change (2 ^ 15) with 32768 in Hlo. nia.
Qed.

(* ------------------------------------------------------------------------------------------ *)
(* retargeting                                                                                 *)

(* what the arithmetic of CalculateNextWorkRequired / PermittedDifficultyTransition needs from a
   chain's parameters: the multiplier fits the uint32 overload of *=, and powLimit * 4 * timespan
   stays below 2^256 (no wrap of the 256-bit product for any valid old target) *)
Definition chain_arith_ok (c : chain_params) : bool :=
  (0 <? cp_target_spacing c) && (0 <? cp_target_timespan c) && (cp_target_timespan c * 4 <? 2 ^ 32)
  && (cp_target_timespan c mod 4 =? 0) && (0 <? interval c)
  && (0 <? cp_pow_limit c) && (cp_pow_limit c * (cp_target_timespan c * 4) <? 2 ^ 256).

Definition chain_retarget_ok (c : chain_params) : bool := cp_no_retargeting c || chain_arith_ok c.
Definition chain_permitted_ok (c : chain_params) : bool :=
  cp_allow_min_difficulty c
  || (chain_arith_ok c && negb (cp_enforce_bip94 c) && negb (cp_no_retargeting c)).

Lemma all_chains_retarget_ok : forallb chain_retarget_ok all_chains = true.
Proof. vm_compute. reflexivity. Qed.
Lemma all_chains_permitted_ok : forallb chain_permitted_ok all_chains = true.
Proof. vm_compute. reflexivity. Qed.
Lemma all_chains_limit_ok : forallb (fun c => (0 <? cp_pow_limit c) && (cp_pow_limit c <? 2 ^ 256)) all_chains = true.
Proof. vm_compute. reflexivity. Qed.

Record arith_facts (c : chain_params) : Prop := {
  af_spacing : 0 < cp_target_spacing c;
  af_T : 0 < cp_target_timespan c;
  af_T32 : cp_target_timespan c * 4 < 2 ^ 32;
  af_T4 : cp_target_timespan c mod 4 = 0;
  af_interval : 0 < interval c;
  af_L : 0 < cp_pow_limit c;
  af_prod : cp_pow_limit c * (cp_target_timespan c * 4) < 2 ^ 256 }.

Lemma chain_arith_ok_facts c : chain_arith_ok c = true -> arith_facts c.
Proof.
  unfold chain_arith_ok. intros H.
  repeat (apply andb_prop in H; let H2 := fresh "H" in destruct H as [H H2]).
  constructor; lia.
Qed.

Lemma arith_limit_lt c : arith_facts c -> cp_pow_limit c < 2 ^ 256.
Proof. intros [? ? ? ? ? ? ?]. nia. Qed.

Lemma clamp_timespan_spec c a : arith_facts c ->
  clamp_timespan c a = Z.max (cp_target_timespan c / 4) (Z.min (cp_target_timespan c * 4) a).
Proof.
  intros [HS HT HT32 HT4 HI HL HP]. unfold clamp_timespan.
  rewrite cdiv_nonneg by lia.
  assert (E32 : 2 ^ 32 = 4294967296) by reflexivity.
  rewrite wrap64_id by (unfold INT64_MIN, INT64_MAX; lia).
  set (T := cp_target_timespan c) in *.
  destruct (a <? T / 4) eqn:E1; destruct (_ >? T * 4) eqn:E2; lia.
Qed.

Lemma clamp_range c a : arith_facts c ->
  let ts := Z.max (cp_target_timespan c / 4) (Z.min (cp_target_timespan c * 4) a) in
  cp_target_timespan c / 4 <= ts <= cp_target_timespan c * 4 /\ 0 <= ts.
Proof. intros [HS HT HT32 HT4 HI HL HP] ts. unfold ts. lia. Qed.

(* the core arithmetic step shared by CalculateNextWorkRequired and PermittedDifficultyTransition *)
Lemma scale_no_wrap c old ts : arith_facts c -> 0 <= old <= cp_pow_limit c ->
  0 <= ts <= cp_target_timespan c * 4 ->
  match div_i64 (mul_u32 old ts) (cp_target_timespan c) with
  | Some q => q = old * ts / cp_target_timespan c
  | None => False
  end.
Proof.
  intros [HS HT HT32 HT4 HI HL HP] Hold Hts. unfold div_i64, mul_u32, wrap256.
  set (T := cp_target_timespan c) in *. set (L := cp_pow_limit c) in *.
  rewrite wrapu32_id by (unfold UINT32_MAX; change (2 ^ 32) with 4294967296 in HT32; lia).
  assert (E64 : T <= UINT64_MAX).
  { unfold UINT64_MAX. change (2 ^ 32) with 4294967296 in HT32. lia. }
  rewrite wrapu64_id by lia. replace (T =? 0) with false by lia.
  rewrite Z.mod_small; [reflexivity|]. split; [nia|].
  apply Z.le_lt_trans with (L * (T * 4)); [|exact HP]. nia.
Qed.

Lemma retarget_spec_range c old a : arith_facts c -> 0 <= old <= cp_pow_limit c ->
  0 <= retarget_spec c old a <= cp_pow_limit c.
Proof.
  intros F Hold. pose proof (clamp_range c a F) as [Hr H0]. cbv zeta in Hr, H0.
  destruct F as [HS HT HT32 HT4 HI HL HP]. unfold retarget_spec.
  set (ts := Z.max _ _) in *. split; [|lia].
  apply Z.min_glb; [|lia]. apply Z.div_pos; [nia|lia].
Qed.

Lemma calc_next_work_spec c last_bits first_bits t_first t_last old :
  chain_arith_ok c = true -> cp_no_retargeting c = false ->
  let used := if cp_enforce_bip94 c then first_bits else last_bits in
  0 <= used < 2 ^ 32 -> derive_target used (cp_pow_limit c) = Some old ->
  INT64_MIN <= t_last - t_first <= INT64_MAX ->
  calc_next_work c last_bits first_bits t_first t_last =
    Some (compact_encode_spec (retarget_spec c old (t_last - t_first))).
Proof.
  intros Hok Hnr used Hused Hder Hdt. pose proof (chain_arith_ok_facts c Hok) as F.
  pose proof (arith_limit_lt c F) as HL256.
  assert (HLr : 0 <= cp_pow_limit c < 2 ^ 256) by (pose proof (af_L c F); lia).
  destruct (derive_target_some _ _ _ Hused HLr Hder) as (Eold & Hrange & Hsign & Hval).
  unfold calc_next_work. rewrite Hnr. fold used. rewrite Hval.
  rewrite wrap64_id by exact Hdt. rewrite clamp_timespan_spec by exact F.
  pose proof (clamp_range c (t_last - t_first) F) as [Hr H0]. cbv zeta in Hr, H0.
  pose proof (retarget_spec_range c old (t_last - t_first) F ltac:(lia)) as Hsr.
  unfold retarget_spec in *.
  set (ts := Z.max _ _) in *.
  pose proof (scale_no_wrap c old ts F ltac:(lia) ltac:(lia)) as Hs.
  destruct (div_i64 (mul_u32 old ts) (cp_target_timespan c)) as [q|]; [|contradiction].
  subst q. f_equal.
  set (q := old * ts / cp_target_timespan c) in *.
  assert (Emin : (if q >? cp_pow_limit c then cp_pow_limit c else q) = Z.min q (cp_pow_limit c)).
  { destruct (q >? cp_pow_limit c) eqn:E; lia. }
  rewrite Emin. apply get_compact_is_spec. lia.
Qed.

(* the result of a retarget: exactly the encoding of min(old * clamp(actual) / T, powLimit), hence
   at most powLimit, at most 4*old, and at least old/4 up to compact precision *)
Lemma retarget_bounds c old a : arith_facts c -> 0 <= old <= cp_pow_limit c ->
  let new := compact_magnitude (compact_encode_spec (retarget_spec c old a)) in
  new = compact_trunc (retarget_spec c old a) /\
  new <= cp_pow_limit c /\ new <= 4 * old /\ compact_trunc (old / 4) <= new.
Proof.
  intros F Hold new. pose proof (arith_limit_lt c F) as HL256.
  pose proof (retarget_spec_range c old a F Hold) as Hsr.
  destruct (decode_encode (retarget_spec c old a) ltac:(lia)) as (_ & _ & _ & _ & Emag).
  fold new in Emag. split; [exact Emag|]. rewrite Emag.
  pose proof (compact_trunc_le (retarget_spec c old a) ltac:(lia)) as Hle.
  pose proof (clamp_range c a F) as [Hr H0]. cbv zeta in Hr, H0.
  destruct F as [HS HT HT32 HT4 HI HL HP].
  set (T := cp_target_timespan c) in *. set (L := cp_pow_limit c) in *.
  assert (Hup : retarget_spec c old a <= 4 * old).
  { unfold retarget_spec. fold T L. set (ts := Z.max _ _) in *.
    apply Z.le_trans with (old * ts / T); [lia|].
    apply Z.div_le_upper_bound; [lia|]. nia. }
  assert (Hlow : old / 4 <= retarget_spec c old a).
  { unfold retarget_spec. fold T L. set (ts := Z.max _ _) in *.
    apply Z.min_glb; [|lia].
    apply Z.div_le_lower_bound; [lia|].
    assert (ET : T = 4 * (T / 4)) by lia.
    assert (4 * (old / 4) <= old) by lia. nia. }
  split; [lia|]. split; [lia|].
  apply compact_trunc_mono; lia.
Qed.

Lemma holds_retarget_sound c old a : arith_facts c -> 0 <= old <= cp_pow_limit c ->
  holds_retarget c old a (compact_encode_spec (retarget_spec c old a)) = true.
Proof.
  intros F Hold. destruct (retarget_bounds c old a F Hold) as (E & H1 & H2 & H3).
  unfold holds_retarget. rewrite Z.eqb_refl. cbn [andb].
  repeat (apply andb_true_intro; split); lia.
Qed.

(* ------------------------------------------------------------------------------------------ *)
(* PermittedDifficultyTransition                                                               *)

Lemma set_get_value t : 0 <= t < 2 ^ 256 ->
  cd_value (set_compact (get_compact t false)) = compact_trunc t.
Proof.
  intros Ht. destruct (get_compact_is_spec t Ht) as [E _]. rewrite E.
  destruct (decode_encode t Ht) as (Hc & _ & _ & _ & Emag).
  destruct (set_compact_holds _ Hc) as (Hv & _). rewrite Hv, Emag.
  pose proof (compact_trunc_le t Ht). apply Z.mod_small. lia.
Qed.

Lemma scaled_bound_spec c old_bits old ts : arith_facts c ->
  0 <= old_bits < 2 ^ 32 -> derive_target old_bits (cp_pow_limit c) = Some old ->
  0 <= ts <= cp_target_timespan c * 4 ->
  scaled_bound c old_bits ts =
    Some (compact_trunc (Z.min (old * ts / cp_target_timespan c) (cp_pow_limit c))).
Proof.
  intros F Hb Hder Hts. pose proof (arith_limit_lt c F) as HL256.
  assert (HLr : 0 <= cp_pow_limit c < 2 ^ 256) by (pose proof (af_L c F); lia).
  destruct (derive_target_some _ _ _ Hb HLr Hder) as (Eold & Hrange & Hsign & Hval).
  unfold scaled_bound. rewrite Hval.
  pose proof (scale_no_wrap c old ts F ltac:(lia) Hts) as Hs.
  destruct (div_i64 (mul_u32 old ts) (cp_target_timespan c)) as [q|]; [|contradiction].
  subst q. f_equal. set (q := old * ts / cp_target_timespan c) in *.
  assert (Hq : 0 <= q).
  { unfold q. destruct F. apply Z.div_pos; [nia|lia]. }
  assert (Emin : (if q >? cp_pow_limit c then cp_pow_limit c else q) = Z.min q (cp_pow_limit c)).
  { destruct (q >? cp_pow_limit c) eqn:E; lia. }
  rewrite Emin. apply set_get_value. lia.
Qed.

Lemma required_is_permitted_retarget c h last_bits first_bits t_first t_last old r :
  chain_permitted_ok c = true ->
  0 <= last_bits < 2 ^ 32 -> derive_target last_bits (cp_pow_limit c) = Some old ->
  INT64_MIN <= t_last - t_first <= INT64_MAX ->
  calc_next_work c last_bits first_bits t_first t_last = Some r ->
  cmod h (interval c) = 0 ->
  permitted_transition c h last_bits r = Some true.
Proof.
  intros Hok Hb Hder Hdt Hcalc Hh. unfold permitted_transition.
  destruct (cp_allow_min_difficulty c) eqn:Eam; [reflexivity|].
  unfold chain_permitted_ok in Hok. rewrite Eam in Hok. cbn [orb] in Hok.
  apply andb_prop in Hok. destruct Hok as [Hok Hnr]. apply andb_prop in Hok. destruct Hok as [Hok Hbip].
  apply Bool.negb_true_iff in Hnr. apply Bool.negb_true_iff in Hbip.
  pose proof (chain_arith_ok_facts c Hok) as F. pose proof (arith_limit_lt c F) as HL256.
  rewrite (calc_next_work_spec c last_bits first_bits t_first t_last old Hok Hnr) in Hcalc;
    [|rewrite Hbip; exact Hb|rewrite Hbip; exact Hder|exact Hdt].
  injection Hcalc as <-.
  assert (HLr : 0 <= cp_pow_limit c < 2 ^ 256) by (pose proof (af_L c F); lia).
  destruct (derive_target_some _ _ _ Hb HLr Hder) as (Eold & Hrange & Hsign & Hval).
  rewrite Hh. cbn [Z.eqb].
  pose proof (clamp_range c (t_last - t_first) F) as [Hr H0]. cbv zeta in Hr, H0.
  pose proof (retarget_spec_range c old (t_last - t_first) F ltac:(lia)) as Hsr.
  assert (HT : 0 < cp_target_timespan c) by (destruct F; assumption).
  assert (HT32 : cp_target_timespan c * 4 < 2 ^ 32) by (destruct F; assumption).
  rewrite cdiv_nonneg by lia.
  rewrite wrap64_id by (unfold INT64_MIN, INT64_MAX; change (2 ^ 32) with 4294967296 in HT32; lia).
  rewrite (scaled_bound_spec c last_bits old _ F Hb Hder) by lia.
  rewrite (scaled_bound_spec c last_bits old _ F Hb Hder) by lia.
  (* observed = truncation of the retarget value *)
  destruct (decode_encode (retarget_spec c old (t_last - t_first)) ltac:(lia)) as (Hc & _ & _ & _ & Emag).
  destruct (set_compact_holds _ Hc) as (Hv & _). rewrite Hv, Emag.
  pose proof (compact_trunc_le (retarget_spec c old (t_last - t_first)) ltac:(lia)) as Hle.
  rewrite Z.mod_small by lia.
  unfold retarget_spec in *. set (T := cp_target_timespan c) in *. set (L := cp_pow_limit c) in *.
  set (ts := Z.max _ _) in *.
  assert (Hmax : compact_trunc (Z.min (old * ts / T) L) <= compact_trunc (Z.min (old * (T * 4) / T) L)).
  { apply compact_trunc_mono; [|lia]. split; [lia|].
    apply Z.min_le_compat_r. apply Z.div_le_mono; [lia|]. nia. }
  assert (Hmin : compact_trunc (Z.min (old * (T / 4) / T) L) <= compact_trunc (Z.min (old * ts / T) L)).
  { apply compact_trunc_mono; [|lia]. split.
    - apply Z.min_glb; [|lia]. apply Z.div_pos; [|lia]. apply Z.mul_nonneg_nonneg; lia.
    - apply Z.min_le_compat_r. apply Z.div_le_mono; [lia|]. nia. }
  destruct (_ <? _) eqn:E1; [lia|]. destruct (_ >? _) eqn:E2; [lia|]. reflexivity.
Qed.

(* ------------------------------------------------------------------------------------------ *)
(* GetNextWorkRequired on chains                                                               *)

Definition blk_wf (L : Z) (b : blk) : Prop :=
  0 <= b_time b < 2 ^ 32 /\ 0 <= b_bits b < 2 ^ 32 /\ exists t, derive_target (b_bits b) L = Some t.

Lemma ancestor_at_in chain h b : ancestor_at chain h = Some b -> In b chain.
Proof.
  unfold ancestor_at. destruct (_ || _); [discriminate|]. apply nth_error_In.
Qed.

Lemma ancestor_at_some chain h : 0 <= h < Z.of_nat (length chain) ->
  exists b, ancestor_at chain h = Some b.
Proof.
  intros Hh. unfold ancestor_at, height_of.
  replace ((h <? 0) || (h >? Z.of_nat (length chain) - 1)) with false by lia.
  destruct (nth_error chain (Z.to_nat (Z.of_nat (length chain) - 1 - h))) eqn:E; [eexists; reflexivity|].
  apply nth_error_None in E. lia.
Qed.

Lemma walk_back_some c lb chain : forall h, chain <> [] -> exists r, min_difficulty_walk_back c lb chain h = Some r.
Proof.
  induction chain as [|b rest IH]; intros h Hne; [contradiction|].
  cbn [min_difficulty_walk_back]. destruct rest as [|b2 rest2]; [eexists; reflexivity|].
  destruct (_ && _); [apply IH; discriminate|eexists; reflexivity].
Qed.

Lemma required_is_permitted_chain c last rest block_time r :
  chain_permitted_ok c = true -> Forall (blk_wf (cp_pow_limit c)) (last :: rest) ->
  get_next_work_required c (last :: rest) block_time = Some r ->
  permitted_transition c (height_of (last :: rest) + 1) (b_bits last) r = Some true.
Proof.
  intros Hok Hwf Hreq. unfold get_next_work_required in Hreq.
  destruct (cp_allow_min_difficulty c) eqn:Eam.
  { unfold permitted_transition. rewrite Eam. reflexivity. }
  set (h := height_of (last :: rest)) in *.
  destruct (cmod (h + 1) (interval c) =? 0) eqn:Emod; cbn [negb] in Hreq.
  - destruct (h - (interval c - 1) <? 0); [discriminate|].
    destruct (ancestor_at (last :: rest) (h - (interval c - 1))) as [first|] eqn:Ea; [|discriminate].
    pose proof (ancestor_at_in _ _ _ Ea) as Hin.
    rewrite Forall_forall in Hwf.
    destruct (Hwf last ltac:(left; reflexivity)) as (Ht1 & Hb1 & t1 & Hd1).
    destruct (Hwf first Hin) as (Ht2 & Hb2 & t2 & Hd2).
    apply (required_is_permitted_retarget c (h + 1) (b_bits last) (b_bits first) (b_time first) (b_time last) t1 r);
      try assumption.
    + unfold INT64_MIN, INT64_MAX. change (2 ^ 32) with 4294967296 in *. lia.
    + apply Z.eqb_eq. exact Emod.
  - injection Hreq as <-. unfold permitted_transition. rewrite Eam, Emod.
    rewrite Z.eqb_refl. reflexivity.
Qed.

(* the asserts of GetNextWorkRequired never fire and no division by zero happens *)
Definition chain_total_ok (c : chain_params) : bool :=
  (0 <? interval c) && (cp_no_retargeting c || chain_arith_ok c).
Lemma all_chains_total_ok : forallb chain_total_ok all_chains = true.
Proof. vm_compute. reflexivity. Qed.

Lemma get_next_work_total c last rest block_time :
  chain_total_ok c = true -> Forall (blk_wf (cp_pow_limit c)) (last :: rest) ->
  exists r, get_next_work_required c (last :: rest) block_time = Some r.
Proof.
  intros Hok Hwf. unfold chain_total_ok in Hok. apply andb_prop in Hok. destruct Hok as [HI Hok].
  apply Z.ltb_lt in HI. unfold get_next_work_required.
  set (h := height_of (last :: rest)) in *.
  assert (Hh : 0 <= h /\ h + 1 = Z.of_nat (length (last :: rest))) by (unfold h, height_of; cbn [length]; lia).
  destruct (cmod (h + 1) (interval c) =? 0) eqn:Emod; cbn [negb].
  - apply Z.eqb_eq in Emod. unfold cmod in Emod.
    assert (Hge : interval c <= h + 1).
    { apply Z.rem_divide in Emod; [|lia]. destruct Emod as [k Hk].
      assert (0 < k) by nia. nia. }
    replace (h - (interval c - 1) <? 0) with false by lia.
    destruct (ancestor_at_some (last :: rest) (h - (interval c - 1)) ltac:(lia)) as [first Ea].
    rewrite Ea. pose proof (ancestor_at_in _ _ _ Ea) as Hin.
    rewrite Forall_forall in Hwf.
    destruct (Hwf last ltac:(left; reflexivity)) as (Ht1 & Hb1 & t1 & Hd1).
    destruct (Hwf first Hin) as (Ht2 & Hb2 & t2 & Hd2).
    destruct (cp_no_retargeting c) eqn:Enr.
    + unfold calc_next_work. rewrite Enr. eexists. reflexivity.
    + cbn [orb] in Hok.
      destruct (cp_enforce_bip94 c) eqn:Eb.
      * eexists. apply (calc_next_work_spec c _ _ _ _ t2 Hok Enr); rewrite ?Eb; try assumption.
        unfold INT64_MIN, INT64_MAX. change (2 ^ 32) with 4294967296 in *. lia.
      * eexists. apply (calc_next_work_spec c _ _ _ _ t1 Hok Enr); rewrite ?Eb; try assumption.
        unfold INT64_MIN, INT64_MAX. change (2 ^ 32) with 4294967296 in *. lia.
  - destruct (cp_allow_min_difficulty c).
    + destruct (_ >? _); [eexists; reflexivity|]. apply walk_back_some. discriminate.
    + eexists. reflexivity.
Qed.

(* ------------------------------------------------------------------------------------------ *)
(* median time past and the header rules                                                       *)
From Coq Require Import Sorting.Sorted Sorting.Permutation.

Lemma insert_sorted_perm x l : Permutation (x :: l) (insert_sorted x l).
Proof.
  induction l as [|y r IH]; cbn [insert_sorted]; [reflexivity|].
  destruct (x <=? y); [reflexivity|].
  apply perm_trans with (y :: x :: r); [apply perm_swap|]. apply perm_skip. exact IH.
Qed.

Lemma sort_z_perm l : Permutation l (sort_z l).
Proof.
  induction l as [|x r IH]; cbn [sort_z]; [reflexivity|].
  apply perm_trans with (x :: sort_z r); [apply perm_skip; exact IH|apply insert_sorted_perm].
Qed.

Lemma insert_sorted_sorted x l : LocallySorted Z.le l -> LocallySorted Z.le (insert_sorted x l).
Proof.
  induction 1 as [|a|a b r Hs IH Hab]; cbn [insert_sorted].
  - constructor.
  - destruct (x <=? a) eqn:E; repeat constructor; lia.
  - destruct (x <=? a) eqn:E.
    + repeat constructor; try assumption; lia.
    + cbn [insert_sorted] in IH. destruct (x <=? b) eqn:E2.
      * repeat constructor; try assumption; lia.
      * constructor; [exact IH|exact Hab].
Qed.

Lemma sort_z_sorted l : LocallySorted Z.le (sort_z l).
Proof. induction l as [|x r IH]; cbn [sort_z]; [constructor|apply insert_sorted_sorted; exact IH]. Qed.

(* the median is the middle element of the non-decreasingly sorted times of the last (up to)
   MEDIAN_TIME_SPAN blocks *)
Lemma median_time_past_spec chain m : median_time_past chain = Some m ->
  exists sorted, Permutation (map b_time (firstn (Z.to_nat MEDIAN_TIME_SPAN) chain)) sorted /\
                 LocallySorted Z.le sorted /\ nth_error sorted (Nat.div (length sorted) 2) = Some m.
Proof.
  unfold median_time_past. intros H. eexists. split; [apply sort_z_perm|]. split; [apply sort_z_sorted|exact H].
Qed.

Lemma median_time_past_some chain : chain <> [] -> exists m, median_time_past chain = Some m.
Proof.
  intros Hne. unfold median_time_past.
  set (ts := sort_z _).
  assert (Hlen : (0 < length ts)%nat).
  { unfold ts. rewrite <- (Permutation_length (sort_z_perm _)). rewrite map_length.
    destruct chain as [|b r]; [contradiction|].
    change (Z.to_nat MEDIAN_TIME_SPAN) with 11%nat. cbn [firstn length]. lia. }
  destruct (nth_error ts (Nat.div (length ts) 2)) eqn:E; [eexists; reflexivity|].
  apply nth_error_None in E. pose proof (Nat.div_lt (length ts) 2 Hlen ltac:(lia)). lia.
Qed.

Lemma accept_header_ok c prev_chain h_hash h_time h_bits now :
  0 <= h_bits < 2 ^ 32 -> 0 < cp_pow_limit c < 2 ^ 256 ->
  accept_header c prev_chain h_hash h_time h_bits now = HdrOk ->
  check_pow_spec (cp_pow_limit c) h_hash h_bits = true /\
  get_next_work_required c prev_chain h_time = Some h_bits /\
  (exists mtp, median_time_past prev_chain = Some mtp /\ mtp < h_time) /\
  h_time <= now + MAX_FUTURE_BLOCK_TIME /\
  (cp_enforce_bip94 c = true -> cmod (height_of prev_chain + 1) (interval c) = 0 ->
   exists prev rest, prev_chain = prev :: rest /\ b_time prev - MAX_TIMEWARP <= h_time).
Proof.
  intros Hb HL H. unfold accept_header in H.
  destruct (check_pow (cp_pow_limit c) h_hash h_bits) eqn:Epow; cbn [negb] in H; [|discriminate].
  rewrite check_pow_iff in Epow by lia. split; [exact Epow|].
  unfold contextual_check_header in H. destruct prev_chain as [|prev rest]; [discriminate|].
  destruct (get_next_work_required c (prev :: rest) h_time) as [req|]; [|discriminate].
  destruct (median_time_past (prev :: rest)) as [mtp|]; [|discriminate].
  destruct (h_bits =? req) eqn:E1; cbn [negb] in H; [|discriminate]. apply Z.eqb_eq in E1. subst req.
  destruct (h_time <=? mtp) eqn:E2; [discriminate|].
  destruct (cp_enforce_bip94 c && (cmod (height_of (prev :: rest) + 1) (interval c) =? 0)
            && (h_time <? b_time prev - MAX_TIMEWARP)) eqn:E3; [discriminate|].
  destruct (h_time >? now + MAX_FUTURE_BLOCK_TIME) eqn:E4; [discriminate|].
  split; [reflexivity|]. split; [exists mtp; split; [reflexivity|lia]|]. split; [lia|].
  intros Hbip Hmod. exists prev, rest. split; [reflexivity|].
  rewrite Hbip, Hmod in E3. cbn in E3. lia.
Qed.

Lemma pow_constants : MAX_FUTURE_BLOCK_TIME = 2 * 60 * 60 /\ MEDIAN_TIME_SPAN = 11 /\ MAX_TIMEWARP = 600.
Proof. vm_compute. repeat split; reflexivity. Qed.

(* ---- lifting to "every built-in chain" ---- *)
Lemma in_chain_permitted_ok c : In c all_chains -> chain_permitted_ok c = true.
Proof. intros H. pose proof all_chains_permitted_ok as A. rewrite forallb_forall in A. exact (A c H). Qed.
Lemma in_chain_retarget_ok c : In c all_chains -> chain_retarget_ok c = true.
Proof. intros H. pose proof all_chains_retarget_ok as A. rewrite forallb_forall in A. exact (A c H). Qed.
Lemma in_chain_total_ok c : In c all_chains -> chain_total_ok c = true.
Proof. intros H. pose proof all_chains_total_ok as A. rewrite forallb_forall in A. exact (A c H). Qed.
Lemma in_chain_limit_ok c : In c all_chains -> 0 < cp_pow_limit c < 2 ^ 256.
Proof.
  intros H. pose proof all_chains_limit_ok as A. rewrite forallb_forall in A. specialize (A c H).
  cbv beta in A. apply andb_prop in A. lia.
Qed.

Lemma in_chain_arith c : In c all_chains -> cp_no_retargeting c = false -> chain_arith_ok c = true.
Proof.
  intros H Hnr. pose proof (in_chain_retarget_ok c H) as A. unfold chain_retarget_ok in A.
  rewrite Hnr in A. exact A.
Qed.

(* statements in the form used by props/Properties_C07.v *)
Lemma C07_set_compact c : 0 <= c < 2 ^ 32 ->
  cd_value (set_compact c) = compact_magnitude c mod 2 ^ 256 /\
  cd_overflow (set_compact c) = (2 ^ 256 <=? compact_magnitude c) /\
  cd_negative (set_compact c) = compact_sign c && negb (compact_magnitude c =? 0) /\
  holds_set_compact c (cd_value (set_compact c)) (cd_negative (set_compact c)) (cd_overflow (set_compact c)) = true.
Proof.
  intros Hc. destruct (set_compact_holds c Hc) as (Hv & Ho & Hn). repeat split; try assumption.
  unfold holds_set_compact. rewrite Hv, Ho, Hn. rewrite Z.eqb_refl, !Bool.eqb_reflx. reflexivity.
Qed.

Lemma C07_roundtrip x : 0 <= x < 2 ^ 256 ->
  let c := get_compact x false in
  0 <= c < 2 ^ 32 /\ cd_negative (set_compact c) = false /\ cd_overflow (set_compact c) = false /\
  cd_value (set_compact c) = compact_trunc x /\
  compact_trunc x <= x /\ 32768 * (x - compact_trunc x) <= x /\
  get_compact (cd_value (set_compact c)) false = c.
Proof.
  intros Hx c. destruct (get_compact_is_spec x Hx) as [E _]. unfold c. rewrite E.
  destruct (decode_encode x Hx) as (Hc & _ & _ & Hsign & Emag).
  destruct (set_compact_holds _ Hc) as (Hv & Ho & Hn).
  pose proof (compact_trunc_le x Hx) as Hle.
  split; [exact Hc|]. split; [rewrite Hn, Hsign; reflexivity|].
  split; [rewrite Ho, Emag; lia|].
  assert (Ev : cd_value (set_compact (compact_encode_spec x)) = compact_trunc x).
  { rewrite Hv, Emag. apply Z.mod_small. lia. }
  split; [exact Ev|]. split; [lia|]. split; [apply compact_trunc_precision; exact Hx|].
  rewrite Ev. destruct (get_compact_is_spec (compact_trunc x) ltac:(lia)) as [E2 _].
  rewrite E2. apply encode_trunc. exact Hx.
Qed.

Lemma C07_monotone x y : 0 <= x <= y -> y < 2 ^ 256 ->
  cd_value (set_compact (get_compact x false)) <= cd_value (set_compact (get_compact y false)).
Proof.
  intros Hxy Hy. rewrite !set_get_value by lia. apply compact_trunc_mono; assumption.
Qed.

Lemma C07_check_pow c hash bits : In c all_chains -> 0 <= bits < 2 ^ 32 ->
  (check_pow (cp_pow_limit c) hash bits = true <->
   compact_sign bits = false /\ 0 < compact_magnitude bits <= cp_pow_limit c /\ hash <= compact_magnitude bits).
Proof.
  intros Hin Hb. pose proof (in_chain_limit_ok c Hin) as HL.
  rewrite check_pow_iff by lia. unfold check_pow_spec.
  rewrite !andb_true_iff, Bool.negb_true_iff, Z.ltb_lt, !Z.leb_le. tauto.
Qed.

Lemma C07_no_overflow c old ts : In c all_chains -> cp_no_retargeting c = false ->
  0 <= old <= cp_pow_limit c -> 0 <= ts <= cp_target_timespan c * 4 ->
  wrapu32 ts = ts /\ wrap256 (old * ts) = old * ts /\ 0 < wrapu64 (cp_target_timespan c).
Proof.
  intros Hin Hnr Hold Hts. pose proof (chain_arith_ok_facts c (in_chain_arith c Hin Hnr)) as F.
  destruct F as [HS HT HT32 HT4 HI HL HP].
  change (2 ^ 32) with 4294967296 in HT32.
  split; [apply wrapu32_id; unfold UINT32_MAX; lia|]. split.
  - unfold wrap256. apply Z.mod_small. split; [nia|].
    apply Z.le_lt_trans with (cp_pow_limit c * (cp_target_timespan c * 4)); [nia|exact HP].
  - rewrite wrapu64_id by (unfold UINT64_MAX; lia). exact HT.
Qed.

Lemma C07_retarget c last_bits first_bits t_first t_last old :
  In c all_chains -> cp_no_retargeting c = false ->
  let used := if cp_enforce_bip94 c then first_bits else last_bits in
  0 <= used < 2 ^ 32 -> derive_target used (cp_pow_limit c) = Some old ->
  INT64_MIN <= t_last - t_first <= INT64_MAX ->
  exists r, calc_next_work c last_bits first_bits t_first t_last = Some r /\
    r = compact_encode_spec (retarget_spec c old (t_last - t_first)) /\
    compact_sign r = false /\
    compact_magnitude r = compact_trunc (retarget_spec c old (t_last - t_first)) /\
    compact_magnitude r <= cp_pow_limit c /\ compact_magnitude r <= 4 * old /\
    compact_trunc (old / 4) <= compact_magnitude r /\
    holds_retarget c old (t_last - t_first) r = true.
Proof.
  intros Hin Hnr used Hused Hder Hdt. pose proof (in_chain_arith c Hin Hnr) as Hok.
  pose proof (chain_arith_ok_facts c Hok) as F. pose proof (arith_limit_lt c F) as HL256.
  assert (HLr : 0 <= cp_pow_limit c < 2 ^ 256) by (pose proof (af_L c F); lia).
  destruct (derive_target_some _ _ _ Hused HLr Hder) as (Eold & Hrange & Hsign & Hval).
  eexists. split; [apply (calc_next_work_spec c last_bits first_bits t_first t_last old Hok Hnr); assumption|].
  split; [reflexivity|].
  pose proof (retarget_spec_range c old (t_last - t_first) F ltac:(lia)) as Hsr.
  destruct (decode_encode (retarget_spec c old (t_last - t_first)) ltac:(lia)) as (_ & _ & _ & Hs & _).
  split; [exact Hs|].
  destruct (retarget_bounds c old (t_last - t_first) F ltac:(lia)) as (E & H1 & H2 & H3).
  repeat split; try assumption. apply holds_retarget_sound; [exact F|lia].
Qed.

Lemma C07_required_permitted c last rest block_time r :
  In c all_chains -> Forall (blk_wf (cp_pow_limit c)) (last :: rest) ->
  get_next_work_required c (last :: rest) block_time = Some r ->
  permitted_transition c (height_of (last :: rest) + 1) (b_bits last) r = Some true.
Proof. intros Hin. apply required_is_permitted_chain. apply in_chain_permitted_ok. exact Hin. Qed.

Lemma C07_calc_permitted c h last_bits first_bits t_first t_last old r :
  In c all_chains ->
  0 <= last_bits < 2 ^ 32 -> derive_target last_bits (cp_pow_limit c) = Some old ->
  INT64_MIN <= t_last - t_first <= INT64_MAX ->
  calc_next_work c last_bits first_bits t_first t_last = Some r ->
  cmod h (interval c) = 0 ->
  permitted_transition c h last_bits r = Some true.
Proof. intros Hin. apply required_is_permitted_retarget. apply in_chain_permitted_ok. exact Hin. Qed.

Lemma C07_total c last rest block_time :
  In c all_chains -> Forall (blk_wf (cp_pow_limit c)) (last :: rest) ->
  exists r, get_next_work_required c (last :: rest) block_time = Some r.
Proof. intros Hin. apply get_next_work_total. apply in_chain_total_ok. exact Hin. Qed.

Lemma C07_header c prev_chain h_hash h_time h_bits now :
  In c all_chains -> 0 <= h_bits < 2 ^ 32 ->
  accept_header c prev_chain h_hash h_time h_bits now = HdrOk ->
  (compact_sign h_bits = false /\ 0 < compact_magnitude h_bits <= cp_pow_limit c /\ h_hash <= compact_magnitude h_bits) /\
  get_next_work_required c prev_chain h_time = Some h_bits /\
  (exists mtp, median_time_past prev_chain = Some mtp /\ mtp < h_time) /\
  h_time <= now + MAX_FUTURE_BLOCK_TIME /\
  (cp_enforce_bip94 c = true -> cmod (height_of prev_chain + 1) (interval c) = 0 ->
   exists prev rest, prev_chain = prev :: rest /\ b_time prev - MAX_TIMEWARP <= h_time).
Proof.
  intros Hin Hb H. pose proof (in_chain_limit_ok c Hin) as HL.
  destruct (accept_header_ok c prev_chain h_hash h_time h_bits now Hb HL H) as (H1 & H2 & H3 & H4 & H5).
  split; [|repeat split; assumption].
  unfold check_pow_spec in H1.
  rewrite !andb_true_iff, Bool.negb_true_iff, Z.ltb_lt, !Z.leb_le in H1. tauto.
Qed.
