(* Layered coin cache model (C15), part 2: each operation on one cache keeps the invariant and has
   the expected effect on the cache's view. *)
From BV Require Import lib.Ints gen.Params_gen model.Coins proofs.CoinsBase.
Local Open Scope Z_scope.

(* ------------------------------------------------------------------------------------------- *)
(* C. one cache                                                                                 *)

Lemma counters_ge L k e :
  counters_ok L -> m_get k (l_map L) = Some e -> entry_dirtyz e <= l_dirty L /\ entry_usage e <= l_usage L.
Proof.
  intros [Hd Hu] Hk. rewrite Hd, Hu. split.
  - eapply m_sum_ge_get; eauto using entry_dirtyz_nonneg.
  - eapply m_sum_ge_get; eauto using entry_usage_nonneg.
Qed.

Ltac sl := unfold with_map; cbn [l_map l_usage l_dirty l_overlay].

Definition old_dirtyz (L : layer) (k : outpoint) : Z :=
  match m_get k (l_map L) with Some o => entry_dirtyz o | None => 0 end.
Definition old_usage (L : layer) (k : outpoint) : Z :=
  match m_get k (l_map L) with Some o => entry_usage o | None => 0 end.

Lemma layer_ok_set pv L k e u d :
  layer_ok pv L -> entry_ok (pv k) e ->
  d = l_dirty L - old_dirtyz L k + entry_dirtyz e ->
  u = l_usage L - old_usage L k + entry_usage e ->
  layer_ok pv (with_map L (m_set k e (l_map L)) u d).
Proof.
  intros (Hn & He & Hd & Hu) Hek -> ->. unfold old_dirtyz, old_usage.
  split; [|split; [|split]]; sl.
  - apply nodup_set; auto.
  - intros k' e' Hg. destruct (Nat.eq_dec k k') as [->|Hne].
    + rewrite m_get_set_eq in Hg. inversion Hg. subst. auto.
    + rewrite m_get_set_neq in Hg by auto. auto.
  - rewrite m_sum_set by auto. rewrite Hd. destruct (m_get k (l_map L)); lia.
  - rewrite m_sum_set by auto. rewrite Hu. destruct (m_get k (l_map L)); lia.
Qed.

Lemma layer_ok_del pv L k u d :
  layer_ok pv L ->
  d = l_dirty L - old_dirtyz L k -> u = l_usage L - old_usage L k ->
  layer_ok pv (with_map L (m_del k (l_map L)) u d).
Proof.
  intros (Hn & He & Hd & Hu) -> ->. unfold old_dirtyz, old_usage.
  split; [|split; [|split]]; sl.
  - apply nodup_del; auto.
  - intros k' e' Hg. destruct (Nat.eq_dec k k') as [->|Hne].
    + rewrite m_get_del_eq in Hg. discriminate.
    + rewrite m_get_del_neq in Hg by auto. auto.
  - rewrite m_sum_del by auto. rewrite Hd. reflexivity.
  - rewrite m_sum_del by auto. rewrite Hu. reflexivity.
Qed.

Lemma lview_set L k e u d pv k' :
  lview (with_map L (m_set k e (l_map L)) u d) pv k' = if Nat.eqb k' k then e_coin e else lview L pv k'.
Proof.
  unfold lview. sl. destruct (Nat.eqb_spec k' k) as [->|Hne].
  - rewrite m_get_set_eq. auto.
  - rewrite m_get_set_neq by auto. auto.
Qed.

Lemma lview_del L k u d pv k' :
  lview (with_map L (m_del k (l_map L)) u d) pv k' = if Nat.eqb k' k then pv k' else lview L pv k'.
Proof.
  unfold lview. sl. destruct (Nat.eqb k' k) eqn:E.
  - apply Nat.eqb_eq in E. subst. rewrite m_get_del_eq. auto.
  - apply Nat.eqb_neq in E. rewrite m_get_del_neq by auto. auto.
Qed.

Lemma with_map_overlay L m u d : l_overlay (with_map L m u d) = l_overlay L.
Proof. reflexivity. Qed.

(* FetchCoin caching a coin found in the base *)
Lemma cache_fetched_ok pv L k c :
  layer_ok pv L -> m_get k (l_map L) = None -> pv k = Some c ->
  layer_ok pv (cache_fetched L k c) /\ (forall k', lview (cache_fetched L k c) pv k' = lview L pv k') /\
  m_get k (l_map (cache_fetched L k c)) = Some (fetched_entry c).
Proof.
  intros HL Hg Hpv. unfold cache_fetched. split; [|split].
  - apply layer_ok_set; auto.
    + rewrite Hpv. unfold entry_ok, fetched_entry. simpl. repeat split; try discriminate; auto.
    + unfold old_dirtyz. rewrite Hg. unfold fetched_entry, entry_dirtyz. simpl. lia.
    + unfold old_usage. rewrite Hg. lia.
  - intros k'. rewrite lview_set. destruct (Nat.eqb k' k) eqn:E; auto.
    apply Nat.eqb_eq in E. subst. unfold lview. rewrite Hg. simpl. auto.
  - sl. apply m_get_set_eq.
Qed.

Ltac eok :=
  unfold entry_ok in *; cbn [e_coin e_cap e_dirty e_fresh] in *; rewrite ?orb_false_r, ?orb_true_r in *;
  intuition (try discriminate; try congruence).

Ltac cnt G :=
  unfold old_dirtyz, old_usage; rewrite ?G; rewrite ?try_sub_ok by lia;
  repeat match goal with
         | |- context [entry_usage (mkEntry ?a 0 ?b ?c)] => change (entry_usage (mkEntry a 0 b c)) with 0
         end;
  unfold entry_dirtyz, b2z; cbn [e_coin e_cap e_dirty e_fresh]; try lia.

(* AddCoin: under the caller's contract it does not throw, keeps the invariant and writes the coin *)
Lemma add_coin_ok pv L k c ow :
  layer_ok pv L -> (ow = false -> c_unsp c = false -> lview L pv k = None) ->
  exists L', add_coin L k c ow = Ok L' /\ layer_ok pv L' /\
    forall k', lview L' pv k' =
               if c_unsp c then lview L pv k' else if Nat.eqb k' k then Some c else lview L pv k'.
Proof.
  intros HL Hpre. unfold add_coin. destruct (c_unsp c) eqn:Eu.
  { exists L. auto. }
  pose proof HL as (Hn & He & Hc).
  destruct (m_get k (l_map L)) as [e|] eqn:G.
  - pose proof (He _ _ G) as Hek. pose proof (counters_ge _ _ _ Hc G) as [Gd Gu].
    destruct ow; cbn [negb andb].
    + eexists. split; [reflexivity|]. split.
      * apply layer_ok_set; auto; [eok | cnt G | cnt G].
      * intros k'. rewrite lview_set. reflexivity.
    + assert (Hs : e_coin e = None).
      { specialize (Hpre eq_refl eq_refl). unfold lview in Hpre. rewrite G in Hpre. auto. }
      unfold is_unspent. rewrite Hs.
      assert (Ed : e_dirty e = true) by eok. assert (Ef : e_fresh e = false) by eok.
      rewrite Ed, Ef. cbn [negb orb].
      eexists. split; [reflexivity|]. split.
      * apply layer_ok_set; auto; [eok | cnt G | cnt G].
      * intros k'. rewrite lview_set. reflexivity.
  - assert (Hpv : ow = false -> pv k = None).
    { intros ->. specialize (Hpre eq_refl eq_refl). unfold lview in Hpre. rewrite G in Hpre. auto. }
    destruct ow; cbn [negb andb orb is_unspent e_coin e_dirty e_fresh].
    + eexists. split; [reflexivity|]. split.
      * apply layer_ok_set; auto; [eok | cnt G | cnt G].
      * intros k'. rewrite lview_set. reflexivity.
    + specialize (Hpv eq_refl). eexists. split; [reflexivity|]. split.
      * apply layer_ok_set; auto; [eok | cnt G | cnt G].
      * intros k'. rewrite lview_set. reflexivity.
Qed.

Lemma uncache_ok pv L k :
  layer_ok pv L -> layer_ok pv (uncache L k) /\ forall k', lview (uncache L k) pv k' = lview L pv k'.
Proof.
  intros HL. unfold uncache. destruct (m_get k (l_map L)) as [e|] eqn:G; [|auto].
  destruct (e_dirty e) eqn:Ed; [auto|].
  pose proof HL as (Hn & He & Hc). pose proof (He _ _ G) as Hek.
  pose proof (counters_ge _ _ _ Hc G) as [Gd Gu]. split.
  - apply layer_ok_del; auto.
    + unfold old_dirtyz. rewrite G. unfold entry_dirtyz. rewrite Ed. simpl. lia.
    + unfold old_usage. rewrite G. apply try_sub_ok. auto.
  - intros k'. rewrite lview_del. destruct (Nat.eqb_spec k' k) as [->|]; auto.
    unfold lview. rewrite G. symmetry. eok.
Qed.

Lemma reset_ok pv L : layer_ok pv (reset_layer L) /\ forall k, lview (reset_layer L) pv k = pv k.
Proof.
  unfold reset_layer, layer_ok, counters_ok, lview, nodup. sl. simpl.
  split; [|auto]. split; [constructor|]. split; [|auto]. intros k e H. discriminate.
Qed.

Lemma empty_layer_ok pv ov : layer_ok pv (empty_layer ov) /\ forall k, lview (empty_layer ov) pv k = pv k.
Proof.
  unfold empty_layer, layer_ok, counters_ok, lview, nodup. simpl.
  split; [|auto]. split; [constructor|]. split; [|auto]. intros k e H. discriminate.
Qed.

(* GetCoin through a stack: answers the view, keeps the invariant, changes no view *)
Lemma view_get_ok ls : forall db k ls' r,
  wf ls db -> view_get ls db k = (ls', r) ->
  r = view_peek ls db k /\ wf ls' db /\ views_eq ls' db ls db.
Proof.
  induction ls as [|L ps IH]; intros db k ls' r Hwf Hg; simpl in Hg.
  - inversion Hg; subst. simpl. auto.
  - destruct Hwf as [HL Hps]. destruct (m_get k (l_map L)) as [e|] eqn:G.
    + inversion Hg; subst. split; [simpl; rewrite G; auto|].
      split; [split; auto|apply views_eq_refl].
    + assert (Hb : exists ps' rp,
                 (if l_overlay L then (ps, view_peek ps db k) else view_get ps db k) = (ps', rp) /\
                 rp = view_peek ps db k /\ wf ps' db /\ views_eq ps' db ps db).
      { destruct (l_overlay L).
        - exists ps, (view_peek ps db k). repeat split; auto using views_eq_refl.
        - destruct (view_get ps db k) as [ps' rp] eqn:Gp. exists ps', rp. split; [reflexivity|]. eapply IH; eauto. }
      destruct Hb as (ps' & rp & Hp & Hr & Hwf' & Hv). rewrite Hp in Hg.
      destruct rp as [c|]; inversion Hg; subst ls' r; clear Hg.
      * destruct (cache_fetched_ok _ _ _ _ HL G (eq_sym Hr)) as (HL' & Hview & _).
        destruct (wf_cons_views_eq _ _ _ _ _ HL' Hwf' Hv) as [W V].
        split; [simpl; rewrite G; auto|]. split; auto.
        eapply views_eq_trans; [exact V|]. simpl. split; [|apply views_eq_refl].
        intros k'. apply Hview.
      * destruct (wf_cons_views_eq _ _ _ _ _ HL Hwf' Hv) as [W V].
        split; [simpl; rewrite G; auto|]. split; auto.
Qed.

(* FetchCoin of the top cache *)
Lemma fetch_coin_ok L ps db k L' ps' it :
  wf (L :: ps) db -> fetch_coin L ps db k = (L', ps', it) ->
  wf (L' :: ps') db /\ views_eq (L' :: ps') db (L :: ps) db /\ m_get k (l_map L') = it /\
  match it with Some e => e_coin e | None => None end = view_peek (L :: ps) db k.
Proof.
  intros [HL Hps] Hf. unfold fetch_coin in Hf. destruct (m_get k (l_map L)) as [e|] eqn:G.
  - inversion Hf; subst. split; [split; auto|]. split; [apply views_eq_refl|]. split; auto.
    simpl. rewrite G. auto.
  - assert (Hb : exists ps1 rp,
               (if l_overlay L then (ps, view_peek ps db k) else view_get ps db k) = (ps1, rp) /\
               rp = view_peek ps db k /\ wf ps1 db /\ views_eq ps1 db ps db).
    { destruct (l_overlay L).
      - exists ps, (view_peek ps db k). repeat split; auto using views_eq_refl.
      - destruct (view_get ps db k) as [ps1 rp] eqn:Gp. exists ps1, rp. split; [reflexivity|].
        eapply view_get_ok; eauto. }
    destruct Hb as (ps1 & rp & Hp & Hr & Hwf' & Hv). rewrite Hp in Hf.
    destruct rp as [c|]; inversion Hf; subst L' ps' it; clear Hf.
    + destruct (cache_fetched_ok _ _ _ _ HL G (eq_sym Hr)) as (HL' & Hview & Hget).
      destruct (wf_cons_views_eq _ _ _ _ _ HL' Hwf' Hv) as [W V].
      split; auto. split; [|split; auto].
      * eapply views_eq_trans; [exact V|]. simpl. split; [|apply views_eq_refl].
        intros k'. apply Hview.
      * simpl. rewrite G. auto.
    + destruct (wf_cons_views_eq _ _ _ _ _ HL Hwf' Hv) as [W V].
      split; auto. split; auto. split; auto. simpl. rewrite G. auto.
Qed.

(* SpendCoin on the top cache: the coin leaves the top view, nothing else changes *)
Lemma spend_coin_ok L ps db k L' ps' b mv :
  wf (L :: ps) db -> spend_coin L ps db k = (L', ps', (b, mv)) ->
  wf (L' :: ps') db /\ views_eq ps' db ps db /\
  (forall k', view_peek (L' :: ps') db k' = if Nat.eqb k' k then None else view_peek (L :: ps) db k') /\
  mv = view_peek (L :: ps) db k /\ (view_peek (L :: ps) db k <> None -> b = true).
Proof.
  intros Hwf Hs. unfold spend_coin in Hs.
  destruct (fetch_coin L ps db k) as [[L1 ps1] it] eqn:Hf.
  destruct (fetch_coin_ok _ _ _ _ _ _ _ Hwf Hf) as ([HL1 Hps1] & [Vt Vr] & Hit & Hcoin).
  destruct it as [e|].
  - pose proof HL1 as (Hn & He & Hc). pose proof (He _ _ Hit) as Hek.
    pose proof (counters_ge _ _ _ Hc Hit) as [Gd Gu].
    destruct (e_fresh e) eqn:Ef; inversion Hs; subst L' ps' b mv; clear Hs.
    + split; [split; auto|]. 
      * apply layer_ok_del; auto; cnt Hit.
      * split; auto. split; [|split; auto].
        intros k'. rewrite view_peek_cons, lview_del.
        destruct (Nat.eqb_spec k' k) as [->|]; [eok|]. rewrite <- view_peek_cons. apply Vt.
    + split; [split; auto|].
      * apply layer_ok_set; auto; [eok | cnt Hit | cnt Hit].
      * split; auto. split; [|split; auto].
        intros k'. rewrite view_peek_cons, lview_set.
        destruct (Nat.eqb_spec k' k) as [->|]; [auto|]. rewrite <- view_peek_cons. apply Vt.
  - inversion Hs; subst L' ps' b mv; clear Hs.
    split; [split; auto|]. split; auto. split; [|split; auto].
    + intros k'. destruct (Nat.eqb_spec k' k) as [->|]; [|apply Vt].
      rewrite Vt. auto.
Qed.
