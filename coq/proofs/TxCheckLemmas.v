From BV Require Import lib.Ints gen.Params_gen model.Amount model.TxCheck.
Local Open Scope Z_scope.

(* generated constants are the ones the statement names *)
Lemma max_money_21M : MAX_MONEY = MAX_21M. Proof. vm_compute. reflexivity. Qed.
Lemma wsf_4 : WITNESS_SCALE_FACTOR = 4. Proof. vm_compute. reflexivity. Qed.
Lemma mbw_4M : MAX_BLOCK_WEIGHT = 4000000. Proof. vm_compute. reflexivity. Qed.
Lemma max21_val : MAX_21M = 2100000000000000. Proof. vm_compute. reflexivity. Qed.

Lemma money_range_iff v : money_range v = true <-> 0 <= v <= MAX_21M.
Proof. unfold money_range. rewrite max_money_21M. lia. Qed.

(* ---- outputs loop: the int64 accumulator never wraps under the loop's own guards ---- *)
Lemma check_outputs_eq acc l :
  0 <= acc <= MAX_21M -> check_outputs acc l = first_output_violation acc l.
Proof.
  revert acc. induction l as [|o r IH]; intros acc Hacc; [reflexivity|].
  cbn [check_outputs first_output_violation]. unfold output_violation.
  rewrite max_money_21M. pose proof max21_val as MV.
  destruct (value o <? 0) eqn:E1; [reflexivity|].
  destruct (value o >? MAX_21M) eqn:E2; destruct (MAX_21M <? value o) eqn:E2'; try lia; [reflexivity|].
  assert (W : wrap64 (acc + value o) = acc + value o).
  { apply wrap64_id. unfold INT64_MIN, INT64_MAX. lia. }
  rewrite W.
  destruct (money_range (acc + value o)) eqn:E3; cbn [negb].
  - apply money_range_iff in E3.
    destruct (MAX_21M <? acc + value o) eqn:E4; [lia|]. apply IH. lia.
  - destruct (MAX_21M <? acc + value o) eqn:E4; [reflexivity|].
    assert (money_range (acc + value o) = true) by (apply money_range_iff; lia). congruence.
Qed.

Lemma first_output_violation_none acc l :
  0 <= acc <= MAX_21M ->
  (first_output_violation acc l = None <->
   (forall o, In o l -> 0 <= value o <= MAX_21M) /\ acc + zsum (map value l) <= MAX_21M).
Proof.
  revert acc. induction l as [|o r IH]; intros acc Hacc; cbn [first_output_violation map zsum].
  - split; [intros _; split; [intros o []|lia] | reflexivity].
  - unfold output_violation.
    destruct (value o <? 0) eqn:E1.
    { split; [discriminate|]. intros [H _]. specialize (H o (or_introl eq_refl)). lia. }
    destruct (MAX_21M <? value o) eqn:E2.
    { split; [discriminate|]. intros [H _]. specialize (H o (or_introl eq_refl)). lia. }
    destruct (MAX_21M <? acc + value o) eqn:E3.
    { split; [discriminate|]. intros [H S].
      assert (0 <= zsum (map value r)).
      { clear -H. induction r as [|x r IHr]; cbn [map zsum]; [lia|].
        assert (0 <= value x <= MAX_21M) by (apply H; right; left; reflexivity).
        assert (0 <= zsum (map value r)) by (apply IHr; intros o' [Ho|Ho]; [apply H; left; exact Ho | apply H; right; right; exact Ho]).
        lia. }
      lia. }
    rewrite IH by lia. split.
    + intros [H S]. split; [|lia]. intros o' [<-|Ho]; [lia|apply H; exact Ho].
    + intros [H S]. split; [|lia]. intros o' Ho. apply H. right. exact Ho.
Qed.

Lemma zsum_values_nonneg l : (forall o, In o l -> 0 <= value o <= MAX_21M) -> 0 <= zsum (map value l).
Proof.
  induction l as [|x r IH]; cbn [map zsum]; intros H; [lia|].
  assert (0 <= value x <= MAX_21M) by (apply H; left; reflexivity).
  assert (0 <= zsum (map value r)) by (apply IH; intros o Ho; apply H; right; exact Ho). lia.
Qed.

(* ---- duplicate inputs ---- *)
Lemma outpoint_eqb_iff a b : outpoint_eqb a b = true <-> outpoint a = outpoint b.
Proof.
  unfold outpoint_eqb, outpoint. split.
  - intros H. apply andb_prop in H. destruct H as [H1 H2]. apply Z.eqb_eq in H1, H2. congruence.
  - intros H. injection H as H1 H2. rewrite H1, H2, !Z.eqb_refl. reflexivity.
Qed.

Lemma existsb_outpoint i seen :
  existsb (outpoint_eqb i) seen = true <-> In (outpoint i) (map outpoint seen).
Proof.
  rewrite existsb_exists, in_map_iff. split.
  - intros [x [Hx He]]. exists x. split; [symmetry; apply outpoint_eqb_iff; exact He|exact Hx].
  - intros [x [He Hx]]. exists x. split; [exact Hx|apply outpoint_eqb_iff; symmetry; exact He].
Qed.

Lemma has_dup_from_false seen l :
  has_dup_from seen l = false <->
  NoDup (map outpoint l) /\ (forall i, In i l -> ~ In (outpoint i) (map outpoint seen)).
Proof.
  revert seen. induction l as [|i r IH]; intros seen; cbn [has_dup_from map].
  - split; [intros _; split; [constructor|intros i []]|reflexivity].
  - destruct (existsb (outpoint_eqb i) seen) eqn:E.
    + split; [discriminate|]. intros [_ H]. exfalso. apply (H i (or_introl eq_refl)).
      apply existsb_outpoint. exact E.
    + rewrite IH. cbn [map]. split.
      * intros [ND H]. split.
        -- constructor; [|exact ND]. intros Hin. apply in_map_iff in Hin. destruct Hin as [x [He Hx]].
           apply (H x Hx). left. symmetry. exact He.
        -- intros j [<-|Hj]; [intros Hin; apply existsb_outpoint in Hin; congruence|].
           intros Hin. apply (H j Hj). right. exact Hin.
      * intros [ND H]. inversion ND as [|? ? Hni ND']; subst. split; [exact ND'|].
        intros j Hj [He|Hin]; [apply Hni; rewrite He; apply in_map; exact Hj|].
        apply (H j (or_intror Hj)). exact Hin.
Qed.

Lemma has_dup_false_iff l : has_dup_from [] l = false <-> NoDup (map outpoint l).
Proof. rewrite has_dup_from_false. split; [intros [H _]; exact H|intros H; split; [exact H|intros i _ []]]. Qed.

Lemma nodup_b_iff l : nodup_b l = true <-> NoDup l.
Proof.
  induction l as [|x r IH]; cbn [nodup_b]; [split; [constructor|reflexivity]|].
  rewrite andb_true_iff, negb_true_iff, IH. split.
  - intros [E ND]. constructor; [|exact ND]. intros Hin.
    assert (existsb (fun y => (fst x =? fst y) && (snd x =? snd y)) r = true).
    { apply existsb_exists. exists x. split; [exact Hin|]. rewrite !Z.eqb_refl. reflexivity. }
    congruence.
  - intros ND. inversion ND as [|? ? Hni ND']; subst. split; [|exact ND'].
    destruct (existsb _ r) eqn:E; [|reflexivity]. exfalso. apply Hni.
    apply existsb_exists in E. destruct E as [y [Hy He]]. apply andb_prop in He. destruct He as [H1 H2].
    apply Z.eqb_eq in H1, H2. destruct x, y. cbn in *. subst. exact Hy.
Qed.

Lemma has_dup_nodup_b l : has_dup_from [] l = negb (nodup_b (map outpoint l)).
Proof.
  destruct (has_dup_from [] l) eqn:E1; destruct (nodup_b (map outpoint l)) eqn:E2; try reflexivity.
  - apply nodup_b_iff in E2. apply has_dup_false_iff in E2. congruence.
  - apply has_dup_false_iff in E1. apply nodup_b_iff in E1. congruence.
Qed.

(* ---- null prevout / coinbase ---- *)
Lemma prevout_is_null_iff i : prevout_is_null i = true <-> null_prevout i.
Proof. unfold prevout_is_null, null_prevout, NULL_INDEX. lia. Qed.

Lemma is_coinbase_iff t : is_coinbase t = true <-> coinbase_shape t.
Proof.
  unfold is_coinbase, coinbase_shape. destruct (vin t) as [|i [|j r]].
  - split; [discriminate|intros [i [H _]]; discriminate].
  - rewrite prevout_is_null_iff. split; [intros H; exists i; auto|intros [j [H N]]; injection H as <-; exact N].
  - split; [discriminate|intros [k [H _]]; discriminate].
Qed.

(* ---- size test: the size_t product cannot wrap for a representable transaction ---- *)
Lemma size_test t : nowit_size t * 4 <= UINT64_MAX -> 0 <= nowit_size t ->
  (wrapu64 (nowit_size t * WITNESS_SCALE_FACTOR) >? MAX_BLOCK_WEIGHT) = (4000000 <? nowit_size t * 4).
Proof.
  intros H H0. rewrite wsf_4, mbw_4M, wrapu64_id by lia.
  destruct (nowit_size t * 4 >? 4000000) eqn:E; lia.
Qed.

Lemma compact_size_len_pos n : 1 <= compact_size_len n.
Proof. unfold compact_size_len. destruct (n <? 253); [lia|]. destruct (n <=? 65535); [lia|]. destruct (n <=? 4294967295); lia. Qed.

Lemma nowit_size_nonneg t : wf_tx t -> 0 <= nowit_size t.
Proof.
  intros [Hi [Ho _]]. unfold nowit_size.
  pose proof (compact_size_len_pos (Z.of_nat (length (vin t)))).
  pose proof (compact_size_len_pos (Z.of_nat (length (vout t)))).
  assert (0 <= zsum (map txin_size (vin t))).
  { clear -Hi. induction (vin t) as [|x r IH]; cbn [map zsum]; [lia|].
    assert (0 <= script_sig_len x) by (apply Hi; left; reflexivity).
    pose proof (compact_size_len_pos (script_sig_len x)). unfold txin_size at 1.
    assert (0 <= zsum (map txin_size r)) by (apply IH; intros i Hin; apply Hi; right; exact Hin). lia. }
  assert (0 <= zsum (map txout_size (vout t))).
  { clear -Ho. induction (vout t) as [|x r IH]; cbn [map zsum]; [lia|].
    assert (0 <= spk_len x) by (apply Ho; left; reflexivity).
    pose proof (compact_size_len_pos (spk_len x)). unfold txout_size at 1.
    assert (0 <= zsum (map txout_size r)) by (apply IH; intros i Hin; apply Ho; right; exact Hin). lia. }
  lia.
Qed.

(* ---- the reason is the first violated rule ---- *)
Lemma check_transaction_first_violation t :
  wf_tx t -> check_transaction t = first_violation t.
Proof.
  intros WF. pose proof (nowit_size_nonneg t WF) as S0. destruct WF as [_ [_ SZ]].
  unfold check_transaction, first_violation.
  destruct (vin t) as [|i0 ri] eqn:Evin; [reflexivity|].
  destruct (vout t) as [|o0 ro] eqn:Evout; [reflexivity|].
  cbn [length Nat.eqb].
  rewrite size_test by assumption.
  destruct (4000000 <? nowit_size t * 4); [reflexivity|].
  rewrite check_outputs_eq by (rewrite max21_val; lia).
  destruct (first_output_violation 0 (o0 :: ro)); [reflexivity|].
  rewrite has_dup_nodup_b.
  destruct (nodup_b (map outpoint (i0 :: ri))); cbn [negb]; [|reflexivity].
  unfold is_coinbase. rewrite Evin.
  destruct ri as [|i1 ri'].
  - destruct (prevout_is_null i0) eqn:EN; [|reflexivity].
    cbn [forallb]. rewrite andb_true_r.
    destruct (script_sig_len i0 <? 2) eqn:E1; destruct (script_sig_len i0 >? 100) eqn:E2;
      destruct (2 <=? script_sig_len i0) eqn:E3; destruct (script_sig_len i0 <=? 100) eqn:E4; cbn; try reflexivity; lia.
  - reflexivity.
Qed.

(* ---- accepts iff spec ---- *)
Lemma first_violation_none_iff t : first_violation t = None <-> spec_valid t.
Proof.
  unfold first_violation, spec_valid.
  destruct (vin t) as [|i0 ri] eqn:Evin.
  { cbn. split; [discriminate|intros [H _]; congruence]. }
  destruct (vout t) as [|o0 ro] eqn:Evout.
  { cbn. split; [discriminate|intros [_ [H _]]; congruence]. }
  cbn [length Nat.eqb].
  destruct (4000000 <? nowit_size t * 4) eqn:ES.
  { split; [discriminate|]. intros [_ [_ [H _]]]. lia. }
  destruct (first_output_violation 0 (o0 :: ro)) eqn:EO.
  { split; [discriminate|]. intros [_ [_ [_ [Hv [Hs _]]]]].
    assert (first_output_violation 0 (o0 :: ro) = None) by (apply first_output_violation_none; [rewrite max21_val; lia|split; [exact Hv|lia]]).
    congruence. }
  apply first_output_violation_none in EO; [|rewrite max21_val; lia]. destruct EO as [Hv Hs].
  pose proof (zsum_values_nonneg _ Hv) as Hs0.
  destruct (nodup_b (map outpoint (i0 :: ri))) eqn:ED; cbn [negb].
  2:{ split; [discriminate|]. intros [_ [_ [_ [_ [_ [ND _]]]]]]. apply nodup_b_iff in ND. congruence. }
  apply nodup_b_iff in ED.
  destruct (is_coinbase t) eqn:EC.
  - apply is_coinbase_iff in EC. destruct EC as [i [Hi Hn]]. rewrite Evin in Hi. injection Hi as -> ->.
    cbn [forallb]. rewrite andb_true_r.
    destruct ((2 <=? script_sig_len i) && (script_sig_len i <=? 100)) eqn:EL.
    + split; [intros _|reflexivity]. repeat split; try discriminate; try lia; try assumption.
      left. exists i. repeat split; try apply Hn; lia.
    + split; [discriminate|]. intros [_ [_ [_ [_ [_ [_ [[j [Hj [_ Hl]]]|Hnn]]]]]]].
      * injection Hj as <-. lia.
      * exfalso. apply (Hnn i (or_introl eq_refl)). exact Hn.
  - destruct (existsb prevout_is_null (i0 :: ri)) eqn:EX.
    + split; [discriminate|]. intros [_ [_ [_ [_ [_ [_ [[j [Hj [Hn _]]]|Hnn]]]]]]].
      * assert (is_coinbase t = true) by (apply is_coinbase_iff; exists j; rewrite Evin; auto). congruence.
      * apply existsb_exists in EX. destruct EX as [x [Hx Hxn]]. apply prevout_is_null_iff in Hxn.
        exfalso. apply (Hnn x Hx). exact Hxn.
    + split; [intros _|reflexivity]. repeat split; try discriminate; try lia; try assumption.
      right. intros x Hx Hn. apply prevout_is_null_iff in Hn.
      assert (existsb prevout_is_null (i0 :: ri) = true) by (apply existsb_exists; exists x; auto). congruence.
Qed.

Lemma check_transaction_accepts_iff t : wf_tx t -> (check_transaction t = None <-> spec_valid t).
Proof. intros WF. rewrite check_transaction_first_violation by exact WF. apply first_violation_none_iff. Qed.

Lemma check_transaction_reason t r : wf_tx t -> (check_transaction t = Some r <-> first_violation t = Some r).
Proof. intros WF. rewrite check_transaction_first_violation by exact WF. reflexivity. Qed.

(* the 64-bit accumulator of the outputs loop never leaves [0, 2*MAX_MONEY]: no signed overflow (CVE-2010-5139 shape) *)
Lemma outputs_loop_no_overflow acc o :
  0 <= acc <= MAX_21M -> 0 <= value o <= MAX_21M -> INT64_MIN <= acc + value o <= INT64_MAX.
Proof. rewrite max21_val. unfold INT64_MIN, INT64_MAX. lia. Qed.
