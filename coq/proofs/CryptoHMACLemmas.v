(* C49 — HMAC / HKDF: the C++ objects (built on any streaming hasher that satisfies the chunking
   theorem) compute RFC 2104 / RFC 5869 for every key, every message and every fragmentation. *)
From Coq Require Import NArith Arith.
From BV Require Import lib.Ints model.CryptoBase model.CryptoHMAC proofs.CryptoBaseLemmas.
Local Open Scope Z_scope.

Lemma map_xor_repeat c n : forall l, length l = n ->
  map (fun b => N.lxor b c) l = xor_bytes l (repeat c n).
Proof.
  induction n as [|n IH]; intros l Hl.
  - destruct l; [reflexivity | discriminate].
  - destruct l as [|x l]; [discriminate|]. simpl. f_equal. apply IH. simpl in Hl. lia.
Qed.

Lemma xor_5c_36 b : N.lxor (N.lxor b 92) (N.lxor 92 54) = N.lxor b 54.
Proof.
  rewrite N.lxor_assoc. rewrite <- (N.lxor_assoc 92 92 54). rewrite N.lxor_nilpotent, N.lxor_0_l. reflexivity.
Qed.

Section HMACProofs.
  Variable Hs : Type.
  Variable hinit : Hs.
  Variable hwrite : Hs -> list N -> Hs.
  Variable hfinal : Hs -> list N.
  Variable B OUT : nat.
  Variable H : list N -> list N.

  (* the streaming hasher computes H for every fragmentation (instances: C49 chunking theorems) *)
  Hypothesis stream_ok : forall chunks, 8 * Z.of_nat (length (concat chunks)) < 2 ^ 64 ->
    hfinal (fold_left hwrite chunks hinit) = H (concat chunks).
  Hypothesis H_len : forall m, length (H m) = OUT.
  Hypothesis OUT_le_B : (OUT <= B)%nat.
  Hypothesis B_small : Z.of_nat B <= 2 ^ 32.

  Notation chmac_init := (chmac_init Hs hinit hwrite hfinal B OUT).
  Notation chmac_write := (chmac_write Hs hwrite).
  Notation chmac_finalize := (chmac_finalize Hs hwrite hfinal).
  Notation chmac_stream := (chmac_stream Hs hinit hwrite hfinal B OUT).

  Lemma fold_chmac_write chunks : forall h,
    fold_left chmac_write chunks h =
    {| hm_outer := hm_outer h; hm_inner := fold_left hwrite chunks (hm_inner h) |}.
  Proof.
    induction chunks as [|c cs IH]; intros h; simpl.
    - destruct h; reflexivity.
    - rewrite IH. reflexivity.
  Qed.

  Lemma hmac_key_length key : length (hmac_key H B key) = B.
  Proof.
    unfold hmac_key. destruct (B <? length key)%nat eqn:E.
    - rewrite app_length, H_len. unfold zeros. rewrite repeat_length. lia.
    - apply Nat.ltb_ge in E. rewrite app_length. unfold zeros. rewrite repeat_length. lia.
  Qed.

  (* the rkey array after the key-length branch is the B-byte key block of RFC 2104 *)
  Lemma rkey_is_hmac_key key : 8 * Z.of_nat (length key) < 2 ^ 64 ->
    (if (length key <=? B)%nat then key ++ zeros (B - length key)
     else hfinal (hwrite hinit key) ++ zeros (B - OUT)) = hmac_key H B key.
  Proof.
    intros Hk. unfold hmac_key.
    destruct (length key <=? B)%nat eqn:E.
    - apply Nat.leb_le in E. assert (E2 : (B <? length key)%nat = false) by (apply Nat.ltb_ge; exact E).
      rewrite E2. reflexivity.
    - apply Nat.leb_gt in E. assert (E2 : (B <? length key)%nat = true) by (apply Nat.ltb_lt; exact E).
      rewrite E2. rewrite H_len.
      pose proof (stream_ok [key]) as Hs1. simpl in Hs1. rewrite app_nil_r in Hs1.
      rewrite Hs1 by exact Hk. reflexivity.
  Qed.

  Theorem chmac_stream_eq_spec key chunks :
    8 * Z.of_nat (length key) < 2 ^ 64 ->
    8 * Z.of_nat (B + length (concat chunks)) < 2 ^ 64 ->
    chmac_stream key chunks = hmac_spec H B key (concat chunks).
  Proof.
    intros Hk Hm.
    unfold CryptoHMAC.chmac_stream, CryptoHMAC.chmac_init. rewrite fold_chmac_write.
    unfold CryptoHMAC.chmac_finalize. cbn [hm_outer hm_inner].
    rewrite (rkey_is_hmac_key key Hk).
    pose proof (hmac_key_length key) as Hkl.
    set (k := hmac_key H B key) in *.
    rewrite map_map.
    rewrite (map_ext (fun x => N.lxor (N.lxor x 92) (N.lxor 92 54)) (fun x => N.lxor x 54)) by (intros; apply xor_5c_36).
    rewrite (map_xor_repeat 54 B k Hkl), (map_xor_repeat 92 B k Hkl).
    fold (ipad B) (opad B).
    assert (Hil : length (xor_bytes k (ipad B)) = B).
    { unfold ipad. rewrite <- (map_xor_repeat 54 B k Hkl), map_length. exact Hkl. }
    assert (Hol : length (xor_bytes k (opad B)) = B).
    { unfold opad. rewrite <- (map_xor_repeat 92 B k Hkl), map_length. exact Hkl. }
    (* inner: H(K xor ipad || text) *)
    pose proof (stream_ok (xor_bytes k (ipad B) :: chunks)) as Hin. cbn [fold_left concat] in Hin.
    rewrite Hin by (rewrite app_length, Hil; exact Hm).
    (* outer: H(K xor opad || inner digest) *)
    pose proof (stream_ok [xor_bytes k (opad B); H (xor_bytes k (ipad B) ++ concat chunks)]) as Hout.
    cbn [fold_left concat] in Hout. rewrite app_nil_r in Hout.
    rewrite Hout.
    - reflexivity.
    - rewrite app_length, Hol, H_len. change (2 ^ 64) with 18446744073709551616.
      change (2 ^ 32) with 4294967296 in B_small. lia.
  Qed.

  (* ---- HKDF with L = HashLen = OUT (CHKDF_HMAC_SHA256_L32) ---- *)
  Hypothesis OUT_pos : (0 < OUT)%nat.

  Lemma hmac_spec_length key text : length (hmac_spec H B key text) = OUT.
  Proof. unfold hmac_spec. apply H_len. Qed.

  Theorem chkdf_eq_spec ikm salt info :
    8 * Z.of_nat (length salt) < 2 ^ 64 ->
    8 * Z.of_nat (B + length ikm) < 2 ^ 64 ->
    8 * Z.of_nat (B + length info + 1) < 2 ^ 64 ->
    chkdf Hs hinit hwrite hfinal B OUT ikm salt info = hkdf_spec H B OUT salt ikm info OUT.
  Proof.
    intros Hsalt Hikm Hinfo.
    unfold chkdf, chkdf_init, chkdf_expand32, hkdf_spec, hkdf_extract_spec, hkdf_expand_spec.
    rewrite (chmac_stream_eq_spec salt [ikm]) by (cbn [concat]; rewrite ?app_nil_r; assumption).
    cbn [concat]. rewrite app_nil_r.
    set (prk := hmac_spec H B salt ikm).
    assert (Hprk : length prk = OUT) by apply hmac_spec_length.
    rewrite (chmac_stream_eq_spec prk [info; [1%N]]).
    - assert (Hn : ((OUT + OUT - 1) / OUT = 1)%nat).
      { symmetry. apply (Nat.div_unique (OUT + OUT - 1) OUT 1 (OUT - 1)); lia. }
      rewrite Hn. cbn [seq map concat hkdf_T]. rewrite !app_nil_r. cbn [app].
      change (N.of_nat 1) with 1%N.
      rewrite firstn_all2 by (rewrite hmac_spec_length; lia). reflexivity.
    - rewrite Hprk. change (2 ^ 64) with 18446744073709551616.
      change (2 ^ 32) with 4294967296 in B_small. lia.
    - cbn [concat]. rewrite app_nil_r, app_length. cbn [length].
      replace (B + (length info + 1))%nat with (B + length info + 1)%nat by lia. exact Hinfo.
  Qed.
End HMACProofs.
