(* Histories of connects, disconnects and reorganisations (C09 history independence, C01 supply
   invariant): every reachable chain state is the one obtained by connecting its active chain from
   genesis in order. *)
From BV Require Import lib.Ints gen.Params_gen model.Amount model.Ledger proofs.AmountLemmas
  proofs.LedgerMap proofs.LedgerConnect proofs.LedgerValue.
Local Open Scope Z_scope.

Lemma replay_from_app cf s a b :
  replay_from cf s (a ++ b) = match replay_from cf s a with Some s' => replay_from cf s' b | None => None end.
Proof.
  revert s. induction a as [|x a IH]; intros s; cbn [app replay_from]; [reflexivity|].
  destruct (connect_tip cf s x) as [s' [e|]]; [reflexivity|apply IH].
Qed.

(* the invariant: the state is the replay of its own active chain, and its view is well formed *)
Definition consistent (cf : config) (s : chainstate) : Prop :=
  replay cf (chain_blocks s) = Some s /\ wf_utxo (cs_utxo s).

Lemma consistent_genesis cf : consistent cf genesis_state.
Proof. split; [reflexivity|apply wf_nil]. Qed.

Lemma cs_height_pos s : 0 < cs_height s + 1.
Proof. unfold cs_height. lia. Qed.

Lemma connect_tip_ok cf s b s' :
  connect_tip cf s b = (s', None) ->
  exists u' undo, connect_block cf (cs_utxo s) b (cs_height s + 1) = Ok (u', undo) /\
                  s' = {| cs_utxo := u'; cs_chain := (b, undo) :: cs_chain s |}.
Proof.
  unfold connect_tip. destruct (connect_block cf (cs_utxo s) b (cs_height s + 1)) as [[u' undo]|e] eqn:E.
  - intros H. injection H as <-. exists u', undo. split; reflexivity.
  - discriminate.
Qed.
Lemma connect_tip_err cf s b s' e : connect_tip cf s b = (s', Some e) -> s' = s.
Proof.
  unfold connect_tip. destruct (connect_block cf (cs_utxo s) b (cs_height s + 1)) as [[u' undo]|e']; [discriminate|].
  intros H. injection H as <- _. reflexivity.
Qed.

Lemma connect_tip_consistent cf s b s' r :
  consistent cf s -> connect_tip cf s b = (s', r) -> consistent cf s'.
Proof.
  intros [Hr Hwf] Hc. destruct r as [e|].
  - apply connect_tip_err in Hc. subst. split; assumption.
  - pose proof Hc as Hc0. apply connect_tip_ok in Hc. destruct Hc as [u' [undo [Hcb ->]]]. split.
    + unfold replay, chain_blocks in *. cbn [cs_chain map fst rev]. rewrite replay_from_app, Hr.
      cbn [replay_from]. rewrite Hc0. reflexivity.
    + cbn [cs_utxo]. apply (connect_block_wf _ _ _ _ _ _ Hwf (cs_height_pos s) Hcb).
Qed.

(* the key step: disconnecting the tip of a consistent state gives the replay of the shorter chain *)
Lemma disconnect_tip_consistent cf s :
  cf_bip30 cf = true -> consistent cf s ->
  match cs_chain s with
  | [] => disconnect_tip cf s = (s, false)
  | (b, undo) :: rest =>
    exists s0, replay cf (rev (map fst rest)) = Some s0 /\ cs_chain s0 = rest /\ consistent cf s0 /\
               connect_tip cf s0 b = (s, None) /\ disconnect_tip cf s = (s0, true)
  end.
Proof.
  intros Hb [Hr Hwf]. unfold disconnect_tip. destruct (cs_chain s) as [|[b undo] rest] eqn:Ec; [reflexivity|].
  unfold replay, chain_blocks in Hr. rewrite Ec in Hr. cbn [map fst rev] in Hr. rewrite replay_from_app in Hr.
  destruct (replay_from cf genesis_state (rev (map fst rest))) as [s0|] eqn:E0; [|discriminate].
  cbn [replay_from] in Hr. destruct (connect_tip cf s0 b) as [s1 [e|]] eqn:Ect; [discriminate|]. injection Hr as ->.
  pose proof Ect as Ect0. apply connect_tip_ok in Ect. destruct Ect as [u' [undo' [Hcb Hs]]].
  assert (Hch : cs_chain s0 = rest /\ undo' = undo /\ cs_utxo s = u').
  { rewrite Hs in Ec. cbn [cs_chain] in Ec. injection Ec as <- <-. rewrite Hs. cbn [cs_utxo]. auto. }
  destruct Hch as [Hrest [-> Hu]].
  (* s0 is consistent *)
  assert (Hc0 : consistent cf s0).
  { clear -E0. revert E0. unfold consistent, replay, chain_blocks.
    generalize (rev (map fst rest)) as bs. intros bs.
    assert (G : forall bs s, consistent cf s -> forall s', replay_from cf s bs = Some s' -> consistent cf s').
    { induction bs0 as [|x bs0 IH]; intros s Hs s'; cbn [replay_from]; [intros H; injection H as <-; exact Hs|].
      destruct (connect_tip cf s x) as [s1 [e|]] eqn:E; [discriminate|]. apply IH.
      apply (connect_tip_consistent _ _ _ _ _ Hs E). }
    intros E0. apply (G bs genesis_state (consistent_genesis cf) s0 E0). }
  exists s0. split; [exact E0|]. split; [exact Hrest|]. split; [exact Hc0|]. split; [exact Ect0|].
  assert (Hh : cs_height s = cs_height s0 + 1).
  { unfold cs_height. rewrite Ec, Hrest. cbn [length]. lia. }
  rewrite Hh, Hu.
  assert (Hnv : bip30_violated (cs_utxo s0) b = false).
  { apply connect_block_inv in Hcb. destruct Hcb as [_ [Hv _]]. apply Hv. exact Hb. }
  rewrite (disconnect_connect cf _ _ _ _ _ (proj2 Hc0) (cs_height_pos s0) Hnv Hcb).
  f_equal. destruct s0 as [u0 c0]. cbn [cs_utxo cs_chain] in *. subst c0. reflexivity.
Qed.

Lemma disconnect_tip_preserves cf s s' r :
  cf_bip30 cf = true -> consistent cf s -> disconnect_tip cf s = (s', r) -> consistent cf s'.
Proof.
  intros Hb Hc Hd. pose proof (disconnect_tip_consistent cf s Hb Hc) as H.
  destruct (cs_chain s) as [|[b undo] rest].
  - rewrite H in Hd. injection Hd as <- _. exact Hc.
  - destruct H as [s0 [_ [_ [Hc0 [_ Hd0]]]]]. rewrite Hd0 in Hd. injection Hd as <- _. exact Hc0.
Qed.

Lemma disconnect_n_preserves cf n : forall s s' r,
  cf_bip30 cf = true -> consistent cf s -> disconnect_n cf s n = (s', r) -> consistent cf s'.
Proof.
  induction n as [|n IH]; intros s s' r Hb Hc; cbn [disconnect_n].
  - intros H. injection H as <- _. exact Hc.
  - destruct (disconnect_tip cf s) as [s1 [|]] eqn:E.
    + apply IH; [exact Hb|apply (disconnect_tip_preserves _ _ _ _ Hb Hc E)].
    + intros H. injection H as <- _. apply (disconnect_tip_preserves _ _ _ _ Hb Hc E).
Qed.
Lemma connect_all_preserves cf bs : forall s, consistent cf s -> consistent cf (connect_all cf s bs).
Proof.
  induction bs as [|b r IH]; intros s Hc; cbn [connect_all]; [exact Hc|].
  destruct (connect_tip cf s b) as [s' [e|]] eqn:E.
  - apply (connect_tip_consistent _ _ _ _ _ Hc E).
  - apply IH. apply (connect_tip_consistent _ _ _ _ _ Hc E).
Qed.

Lemma step_preserves cf s o : cf_bip30 cf = true -> consistent cf s -> consistent cf (step cf s o).
Proof.
  intros Hb Hc. destruct o as [b| |d bs]; cbn [step].
  - destruct (connect_tip cf s b) as [s' r] eqn:E. cbn [fst]. apply (connect_tip_consistent _ _ _ _ _ Hc E).
  - destruct (disconnect_tip cf s) as [s' r] eqn:E. cbn [fst]. apply (disconnect_tip_preserves _ _ _ _ Hb Hc E).
  - destruct (disconnect_n cf s d) as [s' [|]] eqn:E.
    + apply connect_all_preserves. apply (disconnect_n_preserves _ _ _ _ _ Hb Hc E).
    + apply (disconnect_n_preserves _ _ _ _ _ Hb Hc E).
Qed.

Lemma run_preserves cf ops : forall s, cf_bip30 cf = true -> consistent cf s -> consistent cf (run cf s ops).
Proof.
  unfold run. induction ops as [|o r IH]; intros s Hb Hc; cbn [fold_left]; [exact Hc|].
  apply IH; [exact Hb|apply step_preserves; assumption].
Qed.

(* C09: history independence *)
Theorem history_independent cf ops :
  cf_bip30 cf = true ->
  let s := run cf genesis_state ops in replay cf (chain_blocks s) = Some s.
Proof. intros Hb. apply (run_preserves cf ops genesis_state Hb (consistent_genesis cf)). Qed.

(* C09: disconnecting the tip restores exactly the state before it was connected *)
Theorem disconnect_tip_connect_tip cf s b s' :
  cf_bip30 cf = true -> wf_utxo (cs_utxo s) ->
  connect_tip cf s b = (s', None) -> disconnect_tip cf s' = (s, true).
Proof.
  intros Hb Hwf Hc. apply connect_tip_ok in Hc. destruct Hc as [u' [undo [Hcb ->]]].
  unfold disconnect_tip. cbn [cs_chain cs_utxo].
  assert (Hh : cs_height {| cs_utxo := u'; cs_chain := (b, undo) :: cs_chain s |} = cs_height s + 1).
  { unfold cs_height. cbn [cs_chain length]. lia. }
  rewrite Hh.
  assert (Hnv : bip30_violated (cs_utxo s) b = false).
  { pose proof Hcb as H. apply connect_block_inv in H. destruct H as [_ [Hv _]]. apply Hv. exact Hb. }
  rewrite (disconnect_connect cf _ _ _ _ _ Hwf (cs_height_pos s) Hnv Hcb). destruct s; reflexivity.
Qed.

(* ---- supply ---- *)
Lemma replay_from_total cf bs : forall s s',
  0 < cf_interval cf -> wf_utxo (cs_utxo s) -> replay_from cf s bs = Some s' ->
  wf_utxo (cs_utxo s') /\ length (cs_chain s') = (length (cs_chain s) + length bs)%nat /\
  total (cs_utxo s') - subsidy_sum (cf_interval cf) (length (cs_chain s')) <=
  total (cs_utxo s) - subsidy_sum (cf_interval cf) (length (cs_chain s)).
Proof.
  induction bs as [|b r IH]; intros s s' Hi Hwf; cbn [replay_from].
  - intros H. injection H as <-. split; [exact Hwf|]. split; [cbn; lia|lia].
  - destruct (connect_tip cf s b) as [s1 [e|]] eqn:E; [discriminate|]. intros H.
    apply connect_tip_ok in E. destruct E as [u' [undo [Hcb ->]]].
    pose proof (connect_block_wf _ _ _ _ _ _ Hwf (cs_height_pos s) Hcb) as Hwf1.
    pose proof (connect_total _ _ _ _ _ _ Hwf Hi (cs_height_pos s) Hcb) as Ht.
    destruct (IH {| cs_utxo := u'; cs_chain := (b, undo) :: cs_chain s |} _ Hi Hwf1 H) as [Hw [Hl Hle]]. cbn [cs_utxo cs_chain length] in *.
    split; [exact Hw|]. split; [lia|].
    cbn [subsidy_sum] in Hle. unfold cs_height in Ht.
    replace (Z.of_nat (S (length (cs_chain s)))) with (Z.of_nat (length (cs_chain s)) + 1) in Hle by lia. lia.
Qed.

(* C01 (c): for every history from the empty set, the total at the tip is at most the subsidies of the active chain *)
Theorem supply_invariant cf ops :
  cf_bip30 cf = true -> 0 < cf_interval cf ->
  let s := run cf genesis_state ops in
  total (cs_utxo s) <= subsidy_sum (cf_interval cf) (length (cs_chain s)).
Proof.
  intros Hb Hi s. pose proof (history_independent cf ops Hb) as Hr. fold s in Hr. unfold replay in Hr.
  destruct (replay_from_total cf _ genesis_state _ Hi wf_nil Hr) as [_ [_ Hle]]. cbn in Hle. lia.
Qed.

(* the heights of the coins: replaying a chain of n blocks uses the heights 1..n, as subsidy_sum does *)
Lemma run_consistent cf ops : cf_bip30 cf = true -> consistent cf (run cf genesis_state ops).
Proof. intros Hb. apply (run_preserves cf ops genesis_state Hb (consistent_genesis cf)). Qed.
