(* C45 — the address theorems instantiated on the chains of the compiled tree (gen/Params_gen.v: KEYIO_CHAINS):
   for every built-in chain and every destination ExtractDestination can produce,
   DecodeDestination (EncodeDestination d) = d; and cross-network decoding succeeds only between chains
   that share the prefix / HRP. The per-chain side conditions are decided by computation on the generated
   parameters, so a changed prefix or HRP re-proves or breaks these theorems. *)
From Coq Require Import NArith Lia.
From BV Require Import lib.Ints gen.Params_gen model.Bech32 model.Base58 model.KeyIo model.KeyIoInst
  proofs.Bech32Lemmas proofs.Bech32Convert proofs.Base58Lemmas proofs.KeyIoLemmas.
Local Open Scope N_scope.

Definition in_range_ok (p h0 L d : N) : bool :=
  negb ((p * 256 ^ 24 / 58 ^ (L - 1) <=? d) && (d <=? ((p + 1) * 256 ^ 24 - 1) / 58 ^ (L - 1))) || negb (lower_case (c58 d) =? h0).
Definition okb_L (p h0 L : N) : bool :=
  (0 <? L) && (58 ^ (L - 1) <=? p * 256 ^ 24) && ((p + 1) * 256 ^ 24 <=? 58 ^ L) &&
  forallb (in_range_ok p h0 L) (map N.of_nat (seq 0 58)).
Definition b58_prefix_okb (p h0 : N) : bool :=
  if p =? 0 then negb (lower_case 49 =? h0) else existsb (okb_L p h0) (map N.of_nat (seq 1 40)).

Lemma b58_prefix_okb_sound : forall p h0, b58_prefix_okb p h0 = true -> b58_prefix_ok p h0.
Proof.
  intros p h0 H. unfold b58_prefix_okb in H. unfold b58_prefix_ok. destruct (p =? 0).
  - apply Bool.negb_true_iff in H. apply N.eqb_neq in H. exact H.
  - apply existsb_exists in H. destruct H as (L & _ & H). unfold okb_L in H.
    repeat (apply Bool.andb_true_iff in H; destruct H as [H ?]).
    exists L. apply N.ltb_lt in H. repeat match goal with E : (_ <=? _) = true |- _ => apply N.leb_le in E end.
    repeat split; auto. intros d Hd Hd58.
    match goal with F : forallb _ _ = true |- _ => pose proof (Base58Lemmas.forall_below 58 _ F d Hd58) as G end.
    unfold in_range_ok in G. apply Bool.orb_true_iff in G. destruct G as [G|G].
    + apply Bool.negb_true_iff in G. apply Bool.andb_false_iff in G. destruct G as [G|G]; apply N.leb_gt in G; lia.
    + apply Bool.negb_true_iff in G. apply N.eqb_neq in G. exact G.
Qed.

Definition fineb (c : N) : bool := negb (is_upper c) && (33 <=? c) && (c <=? 126).
Lemma fineb_sound : forall c, fineb c = true -> fine c.
Proof.
  intros c H. unfold fineb in H. repeat (apply Bool.andb_true_iff in H; destruct H as [H ?]).
  apply Bool.negb_true_iff in H. unfold fine. repeat split; auto; apply N.leb_le; assumption.
Qed.

Definition chain_okb (limit : nat) (kp : keyio_params) : bool :=
  match kp_pubkey kp, kp_script kp, kp_hrp kp with
  | [p], [q], h0 :: hr =>
    negb (p =? q) && (p <? 256) && (q <? 256) && b58_prefix_okb p h0 && b58_prefix_okb q h0 &&
    forallb fineb (h0 :: hr) && (length (h0 :: hr) + 1 + (1 + (8 * 40 + 4) / 5) + 6 <=? limit)%nat
  | _, _, _ => false
  end.

Lemma all_chains_ok : forallb (chain_okb bech32_limit) keyio_chains = true.
Proof. vm_compute. reflexivity. Qed.

Section Hash.
  Variable hash256 : list N -> list N.
  Hypothesis hash_len : forall x, length (hash256 x) = 32%nat.
  Hypothesis hash_bytes : forall x, Base58Lemmas.bytes_ok (hash256 x).

  Lemma forallb_bytes : forall l, forallb (fun b => b <? 256) l = true -> Base58Lemmas.bytes_ok l.
  Proof. intros l H. unfold Base58Lemmas.bytes_ok. rewrite forallb_forall in H. apply Forall_forall. intros x Hx. apply N.ltb_lt. auto. Qed.

  (* Addresses round-trip on every built-in network, for every destination type *)
  Theorem address_roundtrip_all_chains : forall kp d s, In kp keyio_chains -> dest_wf d = true ->
    encode_destination hash256 kp d = AddrStr s ->
    decode_destination hash256 bech32_limit kp s = (d, E_ok).
  Proof.
    intros kp d s Hin Hwf Henc.
    pose proof all_chains_ok as A. rewrite forallb_forall in A. specialize (A kp Hin). unfold chain_okb in A.
    destruct (kp_pubkey kp) as [|p [|]] eqn:Epk; try discriminate.
    destruct (kp_script kp) as [|q [|]] eqn:Esc; try discriminate.
    destruct (kp_hrp kp) as [|h0 hr] eqn:Eh; try discriminate.
    repeat (apply Bool.andb_true_iff in A; destruct A as [A ?]).
    apply Bool.negb_true_iff in A. apply N.eqb_neq in A.
    repeat match goal with E : (_ <? _) = true |- _ => apply N.ltb_lt in E end.
    match goal with E : (_ <=? _)%nat = true |- _ => apply Nat.leb_le in E; rename E into Hfit end.
    match goal with E : forallb fineb _ = true |- _ => rename E into Hfine end.
    assert (Hhrp : hrp_ok (kp_hrp kp)).
    { rewrite Eh. split; [discriminate|]. rewrite forallb_forall in Hfine. apply Forall_forall. intros c Hc. apply fineb_sound. auto. }
    destruct d as [| |h|h|h|h|x| |ver prog] eqn:Ed; try discriminate.
    - cbn [dest_wf] in Hwf. apply Bool.andb_true_iff in Hwf. destruct Hwf as [Hl Hb]. apply Nat.eqb_eq in Hl.
      eapply address_roundtrip_pkh; eauto using forallb_bytes, b58_prefix_okb_sound.
    - cbn [dest_wf] in Hwf. apply Bool.andb_true_iff in Hwf. destruct Hwf as [Hl Hb]. apply Nat.eqb_eq in Hl.
      eapply address_roundtrip_sh; eauto using forallb_bytes, b58_prefix_okb_sound.
    - apply (address_roundtrip_segwit hash256 bech32_limit kp Hhrp (DWSH h) s); auto. unfold fits. rewrite Eh. exact Hfit.
    - apply (address_roundtrip_segwit hash256 bech32_limit kp Hhrp (DWPKH h) s); auto. unfold fits. rewrite Eh. exact Hfit.
    - apply (address_roundtrip_segwit hash256 bech32_limit kp Hhrp (DTaproot x) s); auto. unfold fits. rewrite Eh. exact Hfit.
    - apply (address_roundtrip_segwit hash256 bech32_limit kp Hhrp DAnchor s); auto. unfold fits. rewrite Eh. exact Hfit.
    - apply (address_roundtrip_segwit hash256 bech32_limit kp Hhrp (DWitUnknown ver prog) s); auto. unfold fits. rewrite Eh. exact Hfit.
  Qed.
End Hash.

(* the letter of "round trip" fails for two destinations that only direct construction can produce:
   WitnessUnknown(1, <32 bytes>) prints like a taproot output and WitnessUnknown(1, 4e73) like the anchor,
   and both decode to those canonical types *)
Theorem address_roundtrip_noncanonical_refuted :
  exists kp d s, In kp keyio_chains /\ addr_encode kp d = AddrStr s /\ fst (addr_decode kp s) <> d /\ snd (addr_decode kp s) = E_ok.
Proof.
  exists (nth 0 keyio_chains (Build_keyio_params [] [] [] [] [] [])), (DWitUnknown 1 ANCHOR_BYTES).
  eexists. split; [left; reflexivity|]. split; [vm_compute; reflexivity|]. split; [vm_compute; discriminate|vm_compute; reflexivity].
Qed.
