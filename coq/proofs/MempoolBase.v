(* Basic facts about the pool structures of model/Mempool.v: membership tests, the spends index (mapNextTx),
   removeUnchecked / addNewTransaction, the totals. *)
From BV Require Import lib.Ints gen.Params_gen model.Locks model.Mempool.
Local Open Scope Z_scope.

(* ------------------------------------------------------------------------------------------ *)
(* booleans and lists *)

Lemma oeqb_eq a b : oeqb a b = true <-> a = b.
Proof.
  unfold oeqb. destruct a as [a1 a2], b as [b1 b2]. simpl. rewrite andb_true_iff, !Z.eqb_eq.
  split; [intros [-> ->]; reflexivity|intros E; inversion E; auto].
Qed.
Lemma oeqb_refl a : oeqb a a = true.
Proof. apply oeqb_eq. reflexivity. Qed.
Lemma oeqb_sym a b : oeqb a b = oeqb b a.
Proof. unfold oeqb. rewrite (Z.eqb_sym (fst a)), (Z.eqb_sym (snd a)). reflexivity. Qed.
Lemma oeqb_neq a b : oeqb a b = false <-> a <> b.
Proof. rewrite <- oeqb_eq. destruct (oeqb a b); split; congruence. Qed.

Lemma memz_In x l : memz x l = true <-> In x l.
Proof.
  unfold memz. rewrite existsb_exists. split.
  - intros (y & Hy & E). apply Z.eqb_eq in E. subst. exact Hy.
  - intros H. exists x. split; [exact H|apply Z.eqb_refl].
Qed.
Lemma memz_false x l : memz x l = false <-> ~ In x l.
Proof. rewrite <- memz_In. destruct (memz x l); split; congruence. Qed.
Lemma memo_In x l : memo x l = true <-> In x l.
Proof.
  unfold memo. rewrite existsb_exists. split.
  - intros (y & Hy & E). apply oeqb_eq in E. subst. exact Hy.
  - intros H. exists x. split; [exact H|apply oeqb_refl].
Qed.
Lemma memo_false x l : memo x l = false <-> ~ In x l.
Proof. rewrite <- memo_In. destruct (memo x l); split; congruence. Qed.

Lemma nodupz_In x l : In x (nodupz l) <-> In x l.
Proof.
  induction l as [|a l IH]; simpl; [tauto|].
  destruct (memz a l) eqn:E.
  - rewrite IH. apply memz_In in E. split; [auto|]. intros [<-|H]; auto.
  - simpl. rewrite IH. tauto.
Qed.
Lemma nodupz_NoDup l : NoDup (nodupz l).
Proof.
  induction l as [|a l IH]; simpl; [constructor|].
  destruct (memz a l) eqn:E; [exact IH|].
  constructor; [|exact IH]. rewrite nodupz_In. apply memz_false. exact E.
Qed.
Lemma nodupb_z_NoDup l : nodupb_z l = true <-> NoDup l.
Proof.
  induction l as [|a l IH]; simpl.
  - split; [constructor|reflexivity].
  - rewrite andb_true_iff, negb_true_iff, memz_false, IH. split.
    + intros [A B]. constructor; assumption.
    + intros H. inversion H; auto.
Qed.
Lemma nodupb_o_NoDup l : nodupb_o l = true <-> NoDup l.
Proof.
  induction l as [|a l IH]; simpl.
  - split; [constructor|reflexivity].
  - rewrite andb_true_iff, negb_true_iff, memo_false, IH. split.
    + intros [A B]. constructor; assumption.
    + intros H. inversion H; auto.
Qed.

Lemma is_nil_true {A} (l : list A) : is_nil l = true <-> l = [].
Proof. destruct l; simpl; split; congruence. Qed.
Lemma is_nil_false {A} (l : list A) : is_nil l = false <-> l <> [].
Proof. destruct l; simpl; split; congruence. Qed.

Lemma intersects_spec a b : intersects a b = true <-> exists x, In x a /\ In x b.
Proof.
  unfold intersects. rewrite existsb_exists. split; intros (x & H1 & H2); exists x; split; auto; apply memz_In; auto.
Qed.
Lemma intersects_false a b : intersects a b = false <-> forall x, In x a -> ~ In x b.
Proof.
  rewrite <- not_true_iff_false, intersects_spec. split.
  - intros H x Ha Hb. apply H. eauto.
  - intros H (x & Ha & Hb). exact (H x Ha Hb).
Qed.

Lemma filter_filter {A} (f g : A -> bool) l : filter f (filter g l) = filter (fun x => g x && f x) l.
Proof.
  induction l as [|a l IH]; simpl; [reflexivity|].
  destruct (g a); simpl; [destruct (f a); simpl; rewrite IH; reflexivity|exact IH].
Qed.
Lemma filter_ext_in' {A} (f g : A -> bool) l : (forall x, In x l -> f x = g x) -> filter f l = filter g l.
Proof. apply filter_ext_in. Qed.
Lemma filter_true {A} (f : A -> bool) l : (forall x, In x l -> f x = true) -> filter f l = l.
Proof.
  induction l as [|a l IH]; simpl; intros H; [reflexivity|].
  rewrite (H a) by auto. f_equal. apply IH. auto.
Qed.
Lemma NoDup_map_filter {A B} (f : A -> B) (g : A -> bool) l : NoDup (map f l) -> NoDup (map f (filter g l)).
Proof.
  induction l as [|a l IH]; simpl; intros H; [constructor|].
  inversion H; subst. destruct (g a); simpl; auto.
  constructor; auto. intros X. apply in_map_iff in X. destruct X as (y & E & Hy). apply filter_In in Hy.
  apply H2. rewrite <- E. apply in_map. tauto.
Qed.
Lemma zsum_filter_split (f : Z -> Z) {A} (w : A -> Z) (g : A -> bool) l :
  zsum (map w l) = zsum (map w (filter g l)) + zsum (map w (filter (fun x => negb (g x)) l)).
Proof. induction l as [|a l IH]; simpl; [reflexivity|]. destruct (g a); simpl; lia. Qed.

(* ------------------------------------------------------------------------------------------ *)
(* entries *)

Lemma find_entry_Some p id e : find_entry p id = Some e -> In e (p_entries p) /\ e_id e = id.
Proof.
  unfold find_entry. intros H. apply find_some in H. destruct H as [H1 H2]. apply Z.eqb_eq in H2. auto.
Qed.
Lemma find_entry_None p id : find_entry p id = None <-> ~ In id (pool_ids p).
Proof.
  unfold find_entry, pool_ids. split.
  - intros H X. apply in_map_iff in X. destruct X as (e & E & He).
    pose proof (find_none _ _ H e He) as N. simpl in N. apply Z.eqb_neq in N. auto.
  - intros H. destruct (find _ _) eqn:F; [|reflexivity]. exfalso. apply H.
    apply find_some in F. destruct F as [F1 F2]. apply Z.eqb_eq in F2. subst. apply in_map. exact F1.
Qed.
Lemma in_pool_iff p id : in_pool p id = true <-> In id (pool_ids p).
Proof.
  unfold in_pool. destruct (find_entry p id) eqn:F; simpl.
  - apply find_entry_Some in F. destruct F as [F1 F2]. split; [|reflexivity]. intros _. subst. apply in_map. exact F1.
  - apply find_entry_None in F. split; [discriminate|tauto].
Qed.
Lemma in_pool_false p id : in_pool p id = false <-> ~ In id (pool_ids p).
Proof. rewrite <- in_pool_iff. destruct (in_pool p id); split; congruence. Qed.
Lemma find_entry_unique p e : NoDup (pool_ids p) -> In e (p_entries p) -> find_entry p (e_id e) = Some e.
Proof.
  unfold find_entry, pool_ids. induction (p_entries p) as [|a l IH]; simpl; intros N H; [tauto|].
  inversion N; subst. destruct H as [->|H].
  - rewrite Z.eqb_refl. reflexivity.
  - destruct (Z.eqb_spec (e_id a) (e_id e)) as [E|E].
    + exfalso. apply H2. rewrite E. apply in_map. exact H.
    + apply IH; assumption.
Qed.

(* ------------------------------------------------------------------------------------------ *)
(* the spends index as an association list with distinct keys *)

Lemma next_find_In nx o id : NoDup (map fst nx) -> (next_find nx o = Some id <-> In (o, id) nx).
Proof.
  induction nx as [|[k v] r IH]; simpl; intros N.
  - split; [discriminate|tauto].
  - inversion N; subst. destruct (oeqb k o) eqn:E.
    + apply oeqb_eq in E. subst k. split.
      * intros X. inversion X. auto.
      * intros [X|X]; [inversion X; reflexivity|]. exfalso. apply H1. change o with (fst (o, id)). apply in_map. exact X.
    + apply oeqb_neq in E. rewrite IH by assumption. split; [auto|]. intros [X|X]; [inversion X; congruence|exact X].
Qed.
Lemma next_find_None nx o : next_find nx o = None <-> ~ In o (map fst nx).
Proof.
  induction nx as [|[k v] r IH]; simpl; [tauto|].
  destruct (oeqb k o) eqn:E.
  - apply oeqb_eq in E. split; [discriminate|]. intros H. exfalso. apply H. auto.
  - apply oeqb_neq in E. rewrite IH. tauto.
Qed.
Lemma next_erase_In nx o x : In x (next_erase nx o) <-> In x nx /\ fst x <> o.
Proof. unfold next_erase. rewrite filter_In, negb_true_iff, oeqb_neq. tauto. Qed.
Lemma next_erase_keys nx o : NoDup (map fst nx) -> NoDup (map fst (next_erase nx o)).
Proof. apply NoDup_map_filter. Qed.
Lemma fold_erase_In ins : forall nx x, In x (fold_left next_erase ins nx) <-> In x nx /\ ~ In (fst x) ins.
Proof.
  induction ins as [|o r IH]; simpl; intros nx x; [tauto|].
  rewrite IH, next_erase_In. split.
  - intros [[A B] C]. split; [exact A|]. intros [D|D]; [congruence|tauto].
  - intros [A B]. split; [split; [exact A|]|]; intros D; apply B; auto.
Qed.
Lemma fold_erase_keys ins : forall nx, NoDup (map fst nx) -> NoDup (map fst (fold_left next_erase ins nx)).
Proof. induction ins as [|o r IH]; simpl; intros nx N; [exact N|]. apply IH. apply next_erase_keys. exact N. Qed.

Lemma NoDup_snoc {A} (l : list A) x : NoDup l -> ~ In x l -> NoDup (l ++ [x]).
Proof.
  induction l as [|a l IH]; simpl; intros N F; [constructor; [tauto|constructor]|].
  inversion N; subst. constructor.
  - rewrite in_app_iff. simpl. intros [X|[X|[]]]; [tauto|]. apply F. left. auto.
  - apply IH; [assumption|]. intros X. apply F. right. exact X.
Qed.
Lemma next_insert_keys nx o id : NoDup (map fst nx) -> NoDup (map fst (next_insert nx o id)).
Proof.
  unfold next_insert. intros N. destruct (next_find nx o) eqn:F; simpl; [exact N|].
  rewrite map_app. simpl. apply next_find_None in F. apply NoDup_snoc; assumption.
Qed.
Lemma next_insert_In nx o id x : In x (next_insert nx o id) <-> In x nx \/ (x = (o, id) /\ ~ In o (map fst nx)).
Proof.
  unfold next_insert. destruct (next_find nx o) eqn:F; simpl.
  - assert (In o (map fst nx)) as H.
    { destruct (in_dec (fun a b => match (bool_dec (oeqb a b) true) with left e => left (proj1 (oeqb_eq a b) e)
                                   | right n => right (fun e => n (proj2 (oeqb_eq a b) e)) end) o (map fst nx)) as [H|H]; [exact H|].
      apply next_find_None in H. congruence. }
    tauto.
  - apply next_find_None in F. rewrite in_app_iff. simpl. split.
    + intros [H|[H|[]]]; [auto|]. right. split; [congruence|exact F].
    + intros [H|[H _]]; [auto|]. right. left. congruence.
Qed.
Lemma fold_insert_keys id ins : forall nx, NoDup (map fst nx) -> NoDup (map fst (fold_left (fun nx o => next_insert nx o id) ins nx)).
Proof. induction ins as [|o r IH]; simpl; intros nx N; [exact N|]. apply IH. apply next_insert_keys. exact N. Qed.
(* inserting keys none of which is present, and which are distinct: exactly the new pairs are added *)
Lemma fold_insert_In id ins : forall nx, NoDup ins -> (forall o, In o ins -> ~ In o (map fst nx)) ->
  forall x, In x (fold_left (fun nx o => next_insert nx o id) ins nx) <-> In x nx \/ (exists o, In o ins /\ x = (o, id)).
Proof.
  induction ins as [|o r IH]; simpl; intros nx N F x.
  - split; [auto|]. intros [H|(o & [] & _)]. exact H.
  - inversion N; subst. rewrite IH; [| assumption |].
    + rewrite next_insert_In. split.
      * intros [[H|[H _]]|(o' & Ho' & E)]; [auto| |]; right; [exists o|exists o']; auto.
      * intros [H|(o' & [<-|Ho'] & E)]; [auto| |].
        -- left. right. split; [exact E|]. apply F. auto.
        -- right. exists o'. auto.
    + intros o' Ho' X. apply in_map_iff in X. destruct X as (y & Ey & Hy). apply next_insert_In in Hy.
      destruct Hy as [Hy|[Hy _]].
      * apply (F o'); [auto|]. rewrite <- Ey. apply in_map. exact Hy.
      * subst y. simpl in Ey. subst o'. tauto.
Qed.
